/-
C11 helper lemmas, part 10: the tree an object denotes, and equality of the tree of a clone with the
tree of the original at every depth.

`absG h w n x`: the pure tree below `x` in the store `h`, unfolded to depth `n`: kind, name, compared
attributes, `_merged`, the values a Property denotes (atoms and tuples by content, not by address), the
child Sections and Properties in order; with `w = true` also the id at every position.  No handle of
the store occurs in it (except the `_merged` reference, which `clone` copies as it is), so equality of
trees is equality of content, whatever objects carry it.
-/
import OdmlModel.Proofs.CloneScoped
namespace Clone

inductive Tree where
  | mk (kind : Kind) (name : String) (id : Option Nat) (attrs : List String) (merged : Option Nat)
       (vals : List Val) (secs props : List Tree)

/-- The root of a tree: the compared fields of `x`, the given children. -/
def rootT (h : H) (w : Bool) (x : Nat) (secs props : List Tree) : Tree :=
  .mk (h.node x).kind (h.node x).name (if w then some (h.node x).id else none) (h.node x).attrs (h.node x).merged
    (if (h.node x).kind = .prop then resolve h (valsOf h x) else []) secs props

/-- The tree below `x`, to depth `n`. A Property has no children, a Document no Properties (the
    lists the code never looks at are not part of the tree). -/
def absG (h : H) (w : Bool) : Nat → Nat → Tree
  | 0, x => rootT h w x [] []
  | n + 1, x =>
    rootT h w x (if (h.node x).kind = .prop then [] else (h.node x).secs.map (absG h w n))
      (if (h.node x).kind = .sec then (h.node x).props.map (absG h w n) else [])

/-- Content only: ids ignored. -/
abbrev absTree (h : H) (n x : Nat) : Tree := absG h false n x
/-- Content and the id at every position. -/
abbrev idTree (h : H) (n x : Nat) : Tree := absG h true n x

/-- Same object up to the parent reference. -/
def TSame (n m : Node) : Prop :=
  m.kind = n.kind ∧ m.name = n.name ∧ m.id = n.id ∧ m.attrs = n.attrs ∧ m.secs = n.secs ∧ m.props = n.props ∧
  m.vals = n.vals ∧ m.merged = n.merged

theorem TSame.refl (n : Node) : TSame n n := ⟨rfl, rfl, rfl, rfl, rfl, rfl, rfl, rfl⟩
theorem TSame.of_eq {n m : Node} (e : m = n) : TSame n m := by subst e; exact TSame.refl _
theorem TSame.trans {a b c : Node} (h1 : TSame a b) (h2 : TSame b c) : TSame a c := by
  obtain ⟨a1, a2, a3, a4, a5, a6, a7, a8⟩ := h1
  obtain ⟨b1, b2, b3, b4, b5, b6, b7, b8⟩ := h2
  exact ⟨b1.trans a1, b2.trans a2, b3.trans a3, b4.trans a4, b5.trans a5, b6.trans a6, b7.trans a7, b8.trans a8⟩

theorem rootT_eq {h h' : H} {w : Bool} {a b : Nat} (s p : List Tree)
    (hk : (h'.node b).kind = (h.node a).kind) (hn : (h'.node b).name = (h.node a).name)
    (ha : (h'.node b).attrs = (h.node a).attrs) (hm : (h'.node b).merged = (h.node a).merged)
    (hid : w = true → (h'.node b).id = (h.node a).id)
    (hv : (h.node a).kind = .prop → resolve h' (valsOf h' b) = resolve h (valsOf h a)) :
    rootT h' w b s p = rootT h w a s p := by
  unfold rootT
  rw [hk, hn, ha, hm]
  have e1 : (if w = true then some (h'.node b).id else none) = (if w = true then some (h.node a).id else none) := by
    cases w with
    | true => simp [hid rfl]
    | false => rfl
  have e2 : (if (h.node a).kind = Kind.prop then resolve h' (valsOf h' b) else []) =
      (if (h.node a).kind = Kind.prop then resolve h (valsOf h a) else []) := by
    split
    · rename_i hp; exact hv hp
    · rfl
  rw [e1, e2]

/-- A set of objects closed under the children the tree follows, whose values are allocated. -/
def TClosed (h : H) (P : Nat → Prop) : Prop := ∀ a, P a →
  ((h.node a).kind ≠ .prop → ∀ c, c ∈ (h.node a).secs → P c) ∧
  ((h.node a).kind = .sec → ∀ c, c ∈ (h.node a).props → P c) ∧
  ((h.node a).kind = .prop → ∀ v, (h.node a).vals = some v → v < h.nV ∧ ∀ t, Item.ref t ∈ h.vcell v → t < h.nT)

theorem valsOf_frame {h h' : H} {a : Nat} (hv : (h'.node a).vals = (h.node a).vals)
    (hb : ∀ v, (h.node a).vals = some v → v < h.nV ∧ ∀ t, Item.ref t ∈ h.vcell v → t < h.nT)
    (cv : ∀ v, v < h.nV → h'.vcell v = h.vcell v) (ct : ∀ t, t < h.nT → h'.tcell t = h.tcell t) :
    resolve h' (valsOf h' a) = resolve h (valsOf h a) := by
  unfold valsOf
  rw [hv]
  cases hval : (h.node a).vals with
  | none => rfl
  | some v =>
    obtain ⟨b1, b2⟩ := hb v hval
    simp only
    rw [cv v b1]
    exact resolve_congr (fun t ht => ct t (b2 t ht))

/-- Frame lemma for trees: if the objects of a closed set keep everything but their parent
    reference, and value lists / inner lists are kept, the trees are the same. -/
theorem absG_frame {h h' : H} {P : Nat → Prop} (w : Bool) (cl : TClosed h P)
    (hn : ∀ a, P a → TSame (h.node a) (h'.node a))
    (cv : ∀ v, v < h.nV → h'.vcell v = h.vcell v) (ct : ∀ t, t < h.nT → h'.tcell t = h.tcell t) :
    ∀ n a, P a → absG h' w n a = absG h w n a := by
  have root : ∀ a, P a → ∀ s p, rootT h' w a s p = rootT h w a s p := by
    intro a ha s p
    obtain ⟨k, nm, i, at_, _, _, vl, mg⟩ := hn a ha
    exact rootT_eq s p k nm at_ mg (fun _ => i) (fun hp => valsOf_frame vl ((cl a ha).2.2 hp) cv ct)
  intro n
  induction n with
  | zero => intro a ha; exact root a ha [] []
  | succ n ih =>
    intro a ha
    obtain ⟨k, _, _, _, sc, pr, _, _⟩ := hn a ha
    simp only [absG]
    rw [root a ha, k, sc, pr]
    congr 1
    · split
      · rfl
      · rename_i hk
        exact List.map_congr_left (fun c hc => ih c ((cl a ha).1 hk c hc))
    · split
      · rename_i hk
        exact List.map_congr_left (fun c hc => ih c ((cl a ha).2.1 hk c hc))
      · rfl

theorem valsOf_frame' {h h' : H} {a : Nat} (hv : (h'.node a).vals = (h.node a).vals)
    (hc : ∀ v, (h.node a).vals = some v →
      h'.vcell v = h.vcell v ∧ ∀ t, Item.ref t ∈ h.vcell v → h'.tcell t = h.tcell t) :
    resolve h' (valsOf h' a) = resolve h (valsOf h a) := by
  unfold valsOf
  rw [hv]
  cases hval : (h.node a).vals with
  | none => rfl
  | some v =>
    obtain ⟨b1, b2⟩ := hc v hval
    simp only
    rw [b1]
    exact resolve_congr b2

/-- Frame lemma for trees, general form: the objects of a set closed under children keep everything
    but their parent reference, and the Properties among them denote the same values. -/
theorem absG_frame' {h h' : H} {P : Nat → Prop} (w : Bool)
    (cl : ∀ a, P a → ((h.node a).kind ≠ .prop → ∀ c, c ∈ (h.node a).secs → P c) ∧
      ((h.node a).kind = .sec → ∀ c, c ∈ (h.node a).props → P c))
    (hn : ∀ a, P a → TSame (h.node a) (h'.node a))
    (hv : ∀ a, P a → (h.node a).kind = .prop → resolve h' (valsOf h' a) = resolve h (valsOf h a)) :
    ∀ n a, P a → absG h' w n a = absG h w n a := by
  have root : ∀ a, P a → ∀ s p, rootT h' w a s p = rootT h w a s p := by
    intro a ha s p
    obtain ⟨k, nm, i, at_, _, _, _, mg⟩ := hn a ha
    exact rootT_eq s p k nm at_ mg (fun _ => i) (hv a ha)
  intro n
  induction n with
  | zero => intro a ha; exact root a ha [] []
  | succ n ih =>
    intro a ha
    obtain ⟨k, _, _, _, sc, pr, _, _⟩ := hn a ha
    simp only [absG]
    rw [root a ha, k, sc, pr]
    congr 1
    · split
      · rfl
      · rename_i hk
        exact List.map_congr_left (fun c hc => ih c ((cl a ha).1 hk c hc))
    · split
      · rename_i hk
        exact List.map_congr_left (fun c hc => ih c ((cl a ha).2 hk c hc))
      · rfl

/-- The tree of an object of a closed block only depends on the block. -/
theorem absG_block {h h1 k : H} (w : Bool) (cl : Closed h1 (rng h h1)) (bs : BlockSame h h1 h1 k) :
    ∀ n a, h.nN ≤ a → a < h1.nN → absG k w n a = absG h1 w n a := by
  intro n a h1' h2'
  refine absG_frame' (P := fun a => h.nN ≤ a ∧ a < h1.nN) w (fun b hb => ?_) (fun b hb => TSame.of_eq (bs.1 b hb.1 hb.2))
    (fun b hb hk => ?_) n a ⟨h1', h2'⟩
  · obtain ⟨_, c2, c3, _⟩ := cl.1 b hb hb.2
    exact ⟨fun k c hc => c2 k c hc, fun k c hc => c3 k c hc⟩
  · refine valsOf_frame' (by rw [bs.1 b hb.1 hb.2]) (fun v hv => ?_)
    have hv' := (cl.1 b hb hb.2).2.2.2 hk v hv
    refine ⟨bs.2.1 v hv'.1 hv'.2, fun t ht => ?_⟩
    have ht' := cl.2 v hv' hv'.2 t ht
    exact bs.2.2 t ht'.1 ht'.2

/-- The objects of a well-formed store are closed under children. -/
theorem tclosed_wf {K h} (w : WFG K h) : TClosed h (fun a => a < h.nN) := by
  intro a ha
  obtain ⟨_, w2, w3, w4⟩ := w.node a ha
  exact ⟨fun k c hc => (w2 k c hc).1, fun k c hc => (w3 k c hc).1,
    fun k v hv => ⟨w4 k v hv, w.cell v (w4 k v hv)⟩⟩

/-- Trees of a well-formed store are not changed by extending it. -/
theorem absG_ext {K h h'} (wf : WFG K h) (e : Ext h h') (w : Bool) (n a : Nat) (ha : a < h.nN) :
    absG h' w n a = absG h w n a :=
  absG_frame w (tclosed_wf wf) (fun b hb => TSame.of_eq (e.2.1 b hb)) e.2.2.1 e.2.2.2 n a ha

/-- A closed block of new locations is closed under children. -/
theorem tclosed_block {h h1 : H} (cl : Closed h1 (rng h h1)) : TClosed h1 (fun a => h.nN ≤ a ∧ a < h1.nN) := by
  intro a ha
  obtain ⟨c1, c2, c3, c4⟩ := cl.1 a ha ha.2
  refine ⟨fun k c hc => c2 k c hc, fun k c hc => c3 k c hc, fun k v hv => ?_⟩
  have hv' := c4 k v hv
  exact ⟨hv'.2, fun t ht => (cl.2 v hv' hv'.2 t ht).2⟩

/-! ### The cloning loop builds copies denoting the trees of the originals -/

/-- Later stores in which everything that exists now, except the object `c`, keeps all but parent
    references. -/
def After (c : Nat) (h h'' : H) : Prop :=
  (∀ a, a < h.nN → a ≠ c → TSame (h.node a) (h''.node a)) ∧ (∀ v, v < h.nV → h''.vcell v = h.vcell v) ∧
  (∀ t, t < h.nT → h''.tcell t = h.tcell t)

theorem After.refl (c : Nat) (h : H) : After c h h := ⟨fun _ _ _ => TSame.refl _, fun _ _ => rfl, fun _ _ => rfl⟩

theorem After.trans {c : Nat} {h1 h2 h3 : H} (a : After c h1 h2) (m : Mono h1 h2) (b : After c h2 h3) :
    After c h1 h3 := by
  unfold Mono at m
  exact ⟨fun x hx hne => (a.1 x hx hne).trans (b.1 x (by omega) hne),
    fun v hv => by rw [b.2.1 v (by omega), a.2.1 v hv], fun t ht => by rw [b.2.2 t (by omega), a.2.2 t ht]⟩

theorem LoopFrame.after {c : Nat} {h h' : H} (f : LoopFrame c h h') : After c h h' :=
  ⟨fun a ha hne => TSame.of_eq (f.node a ha hne), f.vcell, f.tcell⟩

theorem attach_childList {h h' : H} {c child : Nat} (ha : attach h c child = (h', none)) (hne : c ≠ child) :
    childList h' c ((h.node child).kind != .prop) = childList h c ((h.node child).kind != .prop) ++ [child] ∧
    childList h' c (!((h.node child).kind != .prop)) = childList h c (!((h.node child).kind != .prop)) := by
  rw [attach_ok ha]
  unfold childList
  rw [updN_other _ _ _ _ hne]
  simp only [setChildList, updN_same]
  cases ((h.node child).kind != .prop) <;> simp

theorem attach_tsame {h h' : H} {c child : Nat} (ha : attach h c child = (h', none)) (a : Nat) (hne : a ≠ c) :
    TSame (h.node a) (h'.node a) := by
  rw [attach_ok ha, updN_node]
  split
  · simp only [setChildList]; rw [updN_other _ _ _ _ hne]; exact TSame.refl _
  · simp only [setChildList]; rw [updN_other _ _ _ _ hne]; exact TSame.refl _

/-- The copy a (recursive) clone call returns denotes the tree of the original (in the base store `h0`). -/
def RecTree (h0 : H) (w : Bool) (rec : H → Nat → H × Res) : Prop :=
  ∀ h s h1 sc, Ext h0 h → s < h0.nN → rec h s = (h1, .ok sc) → ∀ n, absG h1 w n sc = absG h0 w n s

theorem cloneLoop_tree {rec} {h0 : H} {w : Bool} (hrec : RecOk rec) (ht : RecTree h0 w rec) (c : Nat) (sl : Bool) :
    ∀ (l : List Nat) (h h' : H), cloneLoop rec h c l = (h', none) → Ext h0 h → c < h.nN → h0.nN ≤ c →
      (∀ s, s ∈ l → s < h0.nN ∧ ((h0.node s).kind != .prop) = sl) →
      ∃ news, childList h' c sl = childList h c sl ++ news ∧ childList h' c (!sl) = childList h c (!sl) ∧
        ∀ h'', After c h' h'' → ∀ n, news.map (absG h'' w n) = l.map (absG h0 w n) := by
  intro l
  induction l with
  | nil =>
    intro h h' hl _ _ _ _
    simp only [cloneLoop, Prod.mk.injEq, and_true] at hl
    subst hl
    exact ⟨[], by simp, rfl, fun _ _ _ => rfl⟩
  | cons s rest ih =>
    intro h h' hl e hc hc0 hs
    simp only [cloneLoop] at hl
    split at hl
    · simp at hl
    · rename_i h1 sc hr
      split at hl
      · simp at hl
      · rename_i h2 hat
        have ok := hrec h s h1 sc hr
        obtain ⟨hs1, hs2⟩ := hs s (List.mem_cons_self ..)
        have m0 := e.1
        have m1 := ok.ext.1
        unfold Mono at m0 m1
        have hsc := ok.c_eq
        have hlt := ok.lt
        have sz := attach_sizes hat
        have e2 : Ext h0 h2 := ext_attach (e.trans ok.ext) hat hc0 (by omega)
        have f2 := cloneLoop_frame hrec.toSpec c rest h2 h' hl (by omega)
        obtain ⟨news, l1, l2, l3⟩ := ih h2 h' hl e2 (by omega) hc0 (fun s' hs' => hs s' (List.mem_cons_of_mem _ hs'))
        have ksc : ((h1.node sc).kind != .prop) = sl := by rw [ok.kind, e.2.1 s hs1]; exact hs2
        obtain ⟨a1, a2⟩ := attach_childList hat (by omega : c ≠ sc)
        rw [ksc] at a1 a2
        have hc1 : h1.node c = h.node c := ok.ext.2.1 c hc
        refine ⟨sc :: news, ?_, ?_, fun h'' af n => ?_⟩
        · rw [l1, a1]; simp [childList, hc1]
        · rw [l2, a2]; simp [childList, hc1]
        · simp only [List.map_cons]
          rw [l3 h'' af n]
          congr 1
          rw [← ht h s h1 sc e hs1 hr n]
          have m2 := f2.mono
          unfold Mono at m2
          refine absG_frame w (tclosed_block ok.closed) (fun a ha => ?_) (fun v hv => ?_) (fun t ht => ?_) n sc
            ⟨by omega, by omega⟩
          · have hne : a ≠ c := by have := ha.1; omega
            refine (attach_tsame hat a hne).trans ?_
            rw [← f2.node a (by have := ha.2; omega) hne]
            exact af.1 a (by have := ha.2; omega) hne
          · rw [af.2.1 v (by omega), f2.vcell v (by omega), sz.2.2.2.2.1]
          · rw [af.2.2 t (by omega), f2.tcell t (by omega), sz.2.2.2.2.2]

theorem loopOpt_tree {rec} {h0 : H} {w : Bool} (hrec : RecOk rec) (ht : RecTree h0 w rec) (c : Nat) (sl ch : Bool)
    (l : List Nat) (h h' : H) (hl : (if ch = true then cloneLoop rec h c l else (h, none)) = (h', none))
    (e : Ext h0 h) (hc : c < h.nN) (hc0 : h0.nN ≤ c)
    (hs : ∀ s, s ∈ l → s < h0.nN ∧ ((h0.node s).kind != .prop) = sl) :
    ∃ news, childList h' c sl = childList h c sl ++ news ∧ childList h' c (!sl) = childList h c (!sl) ∧
      ∀ h'', After c h' h'' → ∀ n, news.map (absG h'' w n) = (if ch = true then l else []).map (absG h0 w n) := by
  cases ch with
  | true => simpa using cloneLoop_tree hrec ht c sl l h h' (by simpa using hl) e hc hc0 hs
  | false =>
    simp only [Bool.false_eq_true, if_false, Prod.mk.injEq, and_true] at hl
    subst hl
    exact ⟨[], by simp, rfl, fun _ _ _ => rfl⟩

theorem after_updN (c : Nat) (h : H) (f : Node → Node) : After c h (updN h c f) :=
  ⟨fun a _ hne => TSame.of_eq (updN_other _ _ _ _ hne), fun _ _ => rfl, fun _ _ => rfl⟩

theorem after_newId (c : Nat) (h : H) : After c h (newId h c) :=
  ⟨fun a _ hne => TSame.of_eq (by rw [newId_node, if_neg hne]), fun _ _ => rfl, fun _ _ => rfl⟩

theorem mono_newId (h : H) (c : Nat) : Mono h (newId h c) :=
  ⟨Nat.le_refl _, Nat.le_refl _, Nat.le_refl _, by simp⟩

/-- The child lists of the copy a successful `cloneBody` returns, and the trees of their elements. -/
theorem cloneBody_shape {rec} {h0 : H} {w : Bool} (hrec : RecOk rec) (ht : RecTree h0 w rec) (wf : WF h0)
    (h : H) (x : Nat) (ch keep : Bool) (h' : H) (c : Nat) (e : Ext h0 h) (hx : x < h0.nN)
    (hk : (h0.node x).kind ≠ .prop) (hb : cloneBody rec h x ch keep = (h', .ok c)) :
    (∀ n, (h'.node c).secs.map (absG h' w n) = (if ch = true then (h0.node x).secs else []).map (absG h0 w n)) ∧
    ((h0.node x).kind = .sec →
      ∀ n, (h'.node c).props.map (absG h' w n) = (if ch = true then (h0.node x).props else []).map (absG h0 w n)) := by
  have hx0 : h.node x = h0.node x := e.2.1 x hx
  have m0 := e.1
  unfold Mono at m0
  have wx := wf.node x hx
  unfold cloneBody at hb
  simp only [allocN_ret] at hb
  generalize hh3 : updN (updN (allocN h (h.node x)).1 h.nN (fun n => { n with parent := none })) h.nN
      (fun n => { n with secs := [] }) = h3 at hb
  have n3 : h3.node h.nN = { h.node x with parent := none, secs := [] } := by
    rw [← hh3]; simp [allocN_node]
  have o3 : ∀ a, a < h.nN → h3.node a = h.node a := by
    intro a ha
    rw [← hh3, updN_other _ _ _ _ (by omega), updN_other _ _ _ _ (by omega), allocN_node, if_neg (by omega)]
  have sz3 : h3.nN = h.nN + 1 := by rw [← hh3]; simp
  have e3 : Ext h0 h3 := by
    rw [← hh3]
    exact e.trans (ext_updN (ext_updN (ext_allocN h _) _ _ (by simp)) _ _ (by simp))
  split at hb
  · simp at hb
  · rename_i h4 hl4
    rw [o3 x (by omega), hx0] at hl4
    obtain ⟨news1, a1, _, a3⟩ := loopOpt_tree hrec ht h.nN true ch _ h3 h4 hl4 e3 (by omega) (by omega)
      (fun s hs => by
        obtain ⟨p, q⟩ := wx.2.1 hk s hs
        exact ⟨p, by rw [q rfl]; rfl⟩)
    have f4 := loopOpt_frame hrec.toSpec h.nN ch _ h3 h4 hl4 (by omega)
    have m4 := f4.mono
    unfold Mono at m4
    simp only [childList, if_true, n3, List.nil_append] at a1
    generalize hh5 : (if keep = true then h4 else newId h4 h.nN) = h5 at hb
    have af5 : After h.nN h4 h5 ∧ Mono h4 h5 ∧ (h5.node h.nN).secs = news1 := by
      rw [← hh5]; split
      · exact ⟨After.refl _ _, Mono.refl _, a1⟩
      · exact ⟨after_newId _ _, mono_newId _ _, by rw [newId_node, if_pos rfl]; exact a1⟩
    obtain ⟨af5, m5, s5⟩ := af5
    split at hb
    · rename_i hdoc
      simp only [Prod.mk.injEq, Res.ok.injEq] at hb
      obtain ⟨rfl, rfl⟩ := hb
      refine ⟨fun n => ?_, fun hs => ?_⟩
      · rw [s5]; exact a3 _ af5 n
      · rw [hx0] at hdoc; rw [hdoc] at hs; cases hs
    · generalize hh6 : updN h5 h.nN (fun n => { n with props := [] }) = h6 at hb
      have af6 : After h.nN h4 h6 := by
        rw [← hh6]; exact af5.trans m5 (after_updN _ _ _)
      have m56 : Mono h4 h6 := by rw [← hh6]; exact m5
      have mm := m56
      unfold Mono at mm
      have n6 : h6.node h.nN = { h5.node h.nN with props := [] } := by rw [← hh6]; simp
      have e6 : Ext h0 h6 := by
        have e4 : Ext h0 h4 := ext_of_frame e3 f4 (by omega)
        have e5 : Ext h0 h5 := by
          rw [← hh5]; split
          · exact e4
          · exact ext_newId e4 _ (by omega)
        rw [← hh6]; exact ext_updN e5 _ _ (by omega)
      have props6 : (h6.node x).props = (h0.node x).props := by
        have t := af6.1 x (by omega) (by omega)
        rw [t.2.2.2.2.2.1, f4.node x (by omega) (by omega), o3 x (by omega), hx0]
      rename_i hnd
      have hsec : (h0.node x).kind = .sec := kind_sec_of hk (by rw [← hx0]; exact hnd)
      split at hb
      · simp at hb
      · rename_i h7 hl7
        simp only [Prod.mk.injEq, Res.ok.injEq] at hb
        obtain ⟨rfl, rfl⟩ := hb
        rw [props6] at hl7
        obtain ⟨news2, b1, b2, b3⟩ := loopOpt_tree hrec ht h.nN false ch _ h6 _ hl7 e6 (by omega) (by omega)
          (fun s hs => by
            obtain ⟨p, q⟩ := wx.2.2.1 hsec s hs
            exact ⟨p, by rw [q rfl]; rfl⟩)
        have f7 := loopOpt_frame hrec.toSpec h.nN ch _ h6 _ hl7 (by omega)
        simp only [childList, Bool.false_eq_true, if_false, n6, List.nil_append, Bool.not_false, if_true] at b1 b2
        refine ⟨fun n => ?_, fun _ n => ?_⟩
        · rw [b2, s5]; exact a3 _ (af6.trans m56 f7.after) n
        · rw [b1]; exact b3 _ (After.refl _ _) n


theorem cloneBody_tree {rec} {h0 : H} {w : Bool} (hrec : RecOk rec) (ht : RecTree h0 w rec) (wf : WF h0)
    (h : H) (x : Nat) (ch keep : Bool) (h' : H) (c : Nat) (e : Ext h0 h) (hx : x < h0.nN)
    (hk : (h0.node x).kind ≠ .prop) (hw : w = true → keep = true)
    (hb : cloneBody rec h x ch keep = (h', .ok c)) :
    ∀ n, absG h' w n c = if ch = true then absG h0 w n x else absG h0 w 0 x := by
  have hx0 : h.node x = h0.node x := e.2.1 x hx
  have root := cloneBody_fields hrec.toSpec h x ch keep h' c hb
  obtain ⟨sh1, sh2⟩ := cloneBody_shape hrec ht wf h x ch keep h' c e hx hk hb
  have kc : (h'.node c).kind = (h0.node x).kind := by rw [root.kind, hx0]
  have rt : ∀ s p, rootT h' w c s p = rootT h0 w x s p := fun s p =>
    rootT_eq s p kc (by rw [root.name, hx0]) (by rw [root.attrs, hx0]) (by rw [root.merged, hx0])
      (fun hw' => by rw [root.idKept (hw hw'), hx0]) (fun hp => absurd hp hk)
  intro n
  cases n with
  | zero =>
    simp only [absG, rt]
    split <;> rfl
  | succ n =>
    simp only [absG, rt, kc, if_neg hk]
    rw [sh1 n]
    by_cases hs : (h0.node x).kind = .sec
    · simp only [if_pos hs]
      rw [sh2 hs n]
      cases ch <;> simp
    · simp only [if_neg hs]
      cases ch <;> simp

theorem cloneProp_tree {K} {h0 : H} (w : Bool) (wf : WFG K h0) (h : H) (x : Nat) (keep : Bool) (e : Ext h0 h)
    (hx : x < h0.nN) (hk : (h0.node x).kind = .prop) (hw : w = true → keep = true) :
    ∀ n, absG (cloneProp h x keep).1 w n (cloneProp h x keep).2 = absG h0 w 0 x := by
  have hx0 : h.node x = h0.node x := e.2.1 x hx
  have m0 := e.1
  unfold Mono at m0
  have s := cloneProp_spec h x keep
  have root := cloneProp_fields h x keep
  have kc : ((cloneProp h x keep).1.node (cloneProp h x keep).2).kind = (h0.node x).kind := by rw [root.kind, hx0]
  have vals : resolve (cloneProp h x keep).1 (valsOf (cloneProp h x keep).1 (cloneProp h x keep).2) =
      resolve h0 (valsOf h0 x) := by
    have hb0 := (tclosed_wf wf x hx).2.2 hk
    have v0 : resolve h (valsOf h x) = resolve h0 (valsOf h0 x) :=
      valsOf_frame (by rw [hx0]) hb0 e.2.2.1 e.2.2.2
    rw [← v0]
    have hvv : ((cloneProp h x keep).1.node (cloneProp h x keep).2).vals = some h.nV := by rw [s.node]
    have : valsOf (cloneProp h x keep).1 (cloneProp h x keep).2 = (cloneProp h x keep).1.vcell h.nV := by
      simp only [valsOf, hvv]
    rw [this]
    refine s.same (by omega) (fun t ht => ?_)
    unfold valsOf at ht
    rw [hx0] at ht
    cases hv : (h0.node x).vals with
    | none => rw [hv] at ht; simp at ht
    | some v =>
      rw [hv] at ht
      simp only at ht
      obtain ⟨b1, b2⟩ := hb0 v hv
      rw [e.2.2.1 v b1] at ht
      have := b2 t ht; omega
  have rt : ∀ s' p, rootT (cloneProp h x keep).1 w (cloneProp h x keep).2 s' p = rootT h0 w x s' p := fun s' p =>
    rootT_eq s' p kc (by rw [root.name, hx0]) (by rw [root.attrs, hx0]) (by rw [root.merged, hx0])
      (fun hw' => by rw [root.idKept (hw hw'), hx0]) (fun _ => vals)
  intro n
  cases n with
  | zero => simp only [absG, rt]
  | succ n => simp [absG, rt, kc, hk]

/-- The copy denotes the tree of the original, at every depth; with `keep_id` including the ids. -/
theorem cloneF_tree {h0 : H} (w : Bool) (wf : WF h0) : ∀ (f : Nat) (h : H) (x : Nat) (ch keep : Bool) (h' : H) (c : Nat),
    Ext h0 h → x < h0.nN → (w = true → keep = true) → cloneF f h x ch keep = (h', .ok c) →
    ∀ n, absG h' w n c = if ch = true then absG h0 w n x else absG h0 w 0 x := by
  intro f
  induction f with
  | zero => intro h x ch keep h' c _ _ _ hc; simp [cloneF] at hc
  | succ f ih =>
    intro h x ch keep h' c e hx hw hc
    have hx0 : h.node x = h0.node x := e.2.1 x hx
    simp only [cloneF] at hc
    split at hc
    · rename_i hk
      rw [hx0] at hk
      simp only [Prod.mk.injEq, Res.ok.injEq] at hc
      obtain ⟨rfl, rfl⟩ := hc
      intro n
      rw [cloneProp_tree w wf h x keep e hx hk hw n]
      have : ∀ m, absG h0 w m x = absG h0 w 0 x := by
        intro m; cases m with
        | zero => rfl
        | succ m => simp [absG, hk]
      split
      · exact (this n).symm
      · rfl
    · rename_i hk
      rw [hx0] at hk
      refine cloneBody_tree (cloneF_recOk f keep) (fun h s h1 sc e' hs hr n => ?_) wf h x ch keep h' c e hx hk hw hc
      have := ih h s true keep h1 sc e' hs hw hr n
      simpa using this


/-! ### Position-wise view of the ids -/

/-- Every id that occurs in the tree satisfies `P`. -/
inductive Tree.AllIds (P : Nat → Prop) : Tree → Prop
  | mk {kind name id attrs merged vals secs props} :
    (∀ i, id = some i → P i) → (∀ t, t ∈ secs → Tree.AllIds P t) → (∀ t, t ∈ props → Tree.AllIds P t) →
    Tree.AllIds P (.mk kind name id attrs merged vals secs props)

theorem absG_allIds {h : H} {B : Nat → Prop} {P : Nat → Prop} (cl : TClosed h B)
    (hid : ∀ a, B a → P (h.node a).id) : ∀ n a, B a → (absG h true n a).AllIds P := by
  intro n
  induction n with
  | zero =>
    intro a ha
    refine .mk (fun i hi => ?_) (fun t ht => by simp at ht) (fun t ht => by simp at ht)
    simp only [if_true, Option.some.injEq] at hi
    subst hi; exact hid a ha
  | succ n ih =>
    intro a ha
    refine .mk (fun i hi => ?_) (fun t ht => ?_) (fun t ht => ?_)
    · simp only [if_true, Option.some.injEq] at hi
      subst hi; exact hid a ha
    · split at ht
      · simp at ht
      · rename_i hk
        obtain ⟨c, hc, rfl⟩ := List.mem_map.1 ht
        exact ih c ((cl a ha).1 hk c hc)
    · split at ht
      · rename_i hk
        obtain ⟨c, hc, rfl⟩ := List.mem_map.1 ht
        exact ih c ((cl a ha).2.1 hk c hc)
      · simp at ht

/-- Without `keep_id`, every id at every position of the tree of the copy was generated during the call. -/
theorem cloneF_ids_tree (f : Nat) (h : H) (x : Nat) (ch : Bool) (h' : H) (c : Nat)
    (hc : cloneF f h x ch false = (h', .ok c)) : ∀ n, (absG h' true n c).AllIds (fun i => h.nextId ≤ i) := by
  have ok := cloneF_spec f h x ch false h' c hc
  intro n
  exact absG_allIds (tclosed_block ok.closed) (fun a ha => cloneF_ids f h x ch h' c hc a ha.1 ha.2) n c
    ⟨by rw [ok.c_eq]; exact Nat.le_refl _, by rw [ok.c_eq]; exact ok.lt⟩

end Clone
