/-
C11 helper lemmas, part 11: the shape of the result of `export_leaf`.

`chainUp h fuel x`: the parent chain of `x`, bottom-up, computed from the store by walking `parent`
(no reference to the export code). `chainTree h l []`: the tree the property prescribes for that
chain: every chain object with the ids and compared fields of the original, copies of ALL its
Properties (for a Section) and exactly one child Section - the next lower chain element; the lowest
has none.
-/
import OdmlModel.Proofs.CloneTree
namespace Clone

/-- The parent chain of `x`, bottom-up; `none` when no root is reached within `fuel` steps. -/
def chainUp (h : H) : Nat → Nat → Option (List Nat)
  | 0, _ => none
  | f + 1, x =>
    match parentOf h x with
    | none => some [x]
    | some q => (chainUp h f q).map (x :: ·)

/-- A chain object as the export has it: fields and id of `x`, the given child Sections, copies of
    all Properties of `x` (with their ids) when `x` is a Section. -/
def chainNode (h : H) (x : Nat) (secs : List Tree) : Tree :=
  rootT h true x secs (if (h.node x).kind = .sec then (h.node x).props.map (absG h true 0) else [])

/-- The tree over a bottom-up chain; `secs` are the child Sections of the lowest element. -/
def chainTree (h : H) : List Nat → List Tree → Option Tree
  | [], _ => none
  | [x], secs => some (chainNode h x secs)
  | x :: y :: rest, secs => chainTree h (y :: rest) [chainNode h x secs]

/-- The object the export starts from: the object itself, for a Property its parent Section. -/
def exportStart (h : H) (x : Nat) : Option Nat :=
  if (h.node x).kind = .prop then (h.node x).parent else some x

/-- The specification of `export_leaf`: the tree over the parent chain of the start object. -/
def chainSpec (h : H) (x : Nat) : Option Tree :=
  match exportStart h x with
  | none => none
  | some s =>
    match chainUp h (fuelOf h) s with
    | none => none
    | some l => chainTree h l []

theorem chainUp_ne_nil {h : H} : ∀ (f x : Nat) (l : List Nat), chainUp h f x = some l → ∃ rest, l = x :: rest := by
  intro f
  induction f with
  | zero => intro x l hl; simp [chainUp] at hl
  | succ f ih =>
    intro x l hl
    simp only [chainUp] at hl
    split at hl
    · simp only [Option.some.injEq] at hl; exact ⟨[], hl.symm⟩
    · cases hq : chainUp h f _ with
      | none => rw [hq] at hl; simp at hl
      | some l' =>
        rw [hq] at hl
        simp only [Option.map_some, Option.some.injEq] at hl
        exact ⟨l', hl.symm⟩

/-- The chain does not depend on the fuel. -/
theorem chainUp_det {h : H} : ∀ (f1 f2 x : Nat) (l1 l2 : List Nat),
    chainUp h f1 x = some l1 → chainUp h f2 x = some l2 → l1 = l2 := by
  intro f1
  induction f1 with
  | zero => intro f2 x l1 l2 h1; simp [chainUp] at h1
  | succ f1 ih =>
    intro f2 x l1 l2 h1 h2
    cases f2 with
    | zero => simp [chainUp] at h2
    | succ f2 =>
      simp only [chainUp] at h1 h2
      cases hp : parentOf h x with
      | none =>
        rw [hp] at h1 h2
        simp only [Option.some.injEq] at h1 h2
        rw [← h1, ← h2]
      | some q =>
        rw [hp] at h1 h2
        simp only at h1 h2
        cases hq1 : chainUp h f1 q with
        | none => rw [hq1] at h1; simp at h1
        | some r1 =>
          cases hq2 : chainUp h f2 q with
          | none => rw [hq2] at h2; simp at h2
          | some r2 =>
            rw [hq1] at h1; rw [hq2] at h2
            simp only [Option.map_some, Option.some.injEq] at h1 h2
            rw [← h1, ← h2, ih f2 q r1 r2 hq1 hq2]

/-- Every element of a chain has a chain of its own that is no longer. -/
theorem chainUp_suffix {h : H} : ∀ (f x : Nat) (l : List Nat), chainUp h f x = some l →
    ∀ y, y ∈ l → ∃ f' l', chainUp h f' y = some l' ∧ l'.length ≤ l.length := by
  intro f
  induction f with
  | zero => intro x l hl; simp [chainUp] at hl
  | succ f ih =>
    intro x l hl y hy
    have hl0 := hl
    simp only [chainUp] at hl
    cases hp : parentOf h x with
    | none =>
      rw [hp] at hl
      simp only [Option.some.injEq] at hl
      subst hl
      simp only [List.mem_singleton] at hy
      subst hy
      exact ⟨f + 1, [y], hl0, Nat.le_refl _⟩
    | some q =>
      rw [hp] at hl
      simp only at hl
      cases hq : chainUp h f q with
      | none => rw [hq] at hl; simp at hl
      | some r =>
        rw [hq] at hl
        simp only [Option.map_some, Option.some.injEq] at hl
        subst hl
        simp only [List.mem_cons] at hy
        rcases hy with hy | hy
        · subst hy; exact ⟨f + 1, _, hl0, Nat.le_refl _⟩
        · obtain ⟨f', l', a, b⟩ := ih q r hq y hy
          exact ⟨f', l', a, by simp; omega⟩

/-- The start of a chain does not occur again above it (the parent chain has no cycle). -/
theorem chainUp_not_mem {h : H} {f x : Nat} {rest : List Nat} (hl : chainUp h f x = some (x :: rest)) :
    x ∉ rest := by
  intro hm
  cases f with
  | zero => simp [chainUp] at hl
  | succ f =>
    simp only [chainUp] at hl
    cases hp : parentOf h x with
    | none => rw [hp] at hl; simp only [Option.some.injEq, List.cons.injEq, true_and] at hl; subst hl; simp at hm
    | some q =>
      rw [hp] at hl
      simp only at hl
      cases hq : chainUp h f q with
      | none => rw [hq] at hl; simp at hl
      | some r =>
        rw [hq] at hl
        simp only [Option.map_some, Option.some.injEq, List.cons.injEq, true_and] at hl
        subst hl
        obtain ⟨f2, l2, a2, b2⟩ := chainUp_suffix f q r hq x hm
        have hfull : chainUp h (f + 1) x = some (x :: r) := by
          simp only [chainUp, hp, hq, Option.map_some]
        have := chainUp_det f2 (f + 1) x l2 (x :: r) a2 hfull
        subst this
        simp only [List.length_cons] at b2
        omega

/-! ### The export loop builds the chain tree -/

/-- Later stores in which everything that exists now keeps all but parent references. -/
def AfterAll (h h'' : H) : Prop :=
  (∀ a, a < h.nN → TSame (h.node a) (h''.node a)) ∧ (∀ v, v < h.nV → h''.vcell v = h.vcell v) ∧
  (∀ t, t < h.nT → h''.tcell t = h.tcell t)

theorem AfterAll.refl (h : H) : AfterAll h h := ⟨fun _ _ => TSame.refl _, fun _ _ => rfl, fun _ _ => rfl⟩

theorem AfterAll.trans {h1 h2 h3 : H} (a : AfterAll h1 h2) (m : Mono h1 h2) (b : AfterAll h2 h3) : AfterAll h1 h3 := by
  unfold Mono at m
  exact ⟨fun x hx => (a.1 x hx).trans (b.1 x (by omega)),
    fun v hv => by rw [b.2.1 v (by omega), a.2.1 v hv], fun t ht => by rw [b.2.2 t (by omega), a.2.2 t ht]⟩

theorem AfterAll.after {h h'' : H} (a : AfterAll h h'') (c : Nat) : After c h h'' :=
  ⟨fun x hx _ => a.1 x hx, a.2.1, a.2.2⟩

theorem AfterAll.of_ext {h h' : H} (e : Ext h h') : AfterAll h h' :=
  ⟨fun a ha => TSame.of_eq (e.2.1 a ha), e.2.2.1, e.2.2.2⟩

theorem cloneF_no_children {f : Nat} {h h' : H} {x c : Nat} {keep : Bool} (hk : (h.node x).kind ≠ .prop)
    (h0 : cloneF (f + 1) h x false keep = (h', .ok c)) :
    (h'.node c).secs = [] ∧ ((h.node x).kind = .sec → (h'.node c).props = []) := by
  simp only [cloneF, if_neg hk, cloneBody, Bool.false_eq_true, if_false, allocN_ret] at h0
  split at h0
  · simp only [Prod.mk.injEq, Res.ok.injEq] at h0
    obtain ⟨rfl, rfl⟩ := h0
    refine ⟨?_, fun hs => ?_⟩
    · split <;> simp [newId_node]
    · rename_i hd; rw [hd] at hs; cases hs
  · simp only [Prod.mk.injEq, Res.ok.injEq] at h0
    obtain ⟨rfl, rfl⟩ := h0
    refine ⟨?_, fun _ => ?_⟩
    · split <;> simp [newId_node]
    · simp

theorem attach_c_fields {h h' : H} {c child : Nat} (ha : attach h c child = (h', none)) (hne : c ≠ child) :
    SameBut (h.node c) (h'.node c) := by
  rw [attach_ok ha, updN_other _ _ _ _ hne]
  simp only [setChildList, updN_same]
  split <;> exact SameBut.refl _

/-- The tree of a chain object of the export, from the facts about its fields and child lists. -/
theorem chainNode_of {b h'' : H} {curr par : Nat} {cts : List Tree} (n : Nat)
    (hk : (b.node curr).kind ≠ .prop)
    (k : (h''.node par).kind = (b.node curr).kind) (nm : (h''.node par).name = (b.node curr).name)
    (at_ : (h''.node par).attrs = (b.node curr).attrs) (mg : (h''.node par).merged = (b.node curr).merged)
    (i : (h''.node par).id = (b.node curr).id)
    (hs : (h''.node par).secs.map (absG h'' true n) = cts)
    (hp : (b.node curr).kind = .sec →
      (h''.node par).props.map (absG h'' true n) = (b.node curr).props.map (absG b true 0)) :
    absG h'' true (n + 1) par = chainNode b curr cts := by
  simp only [absG, chainNode, k, if_neg hk]
  rw [rootT_eq _ _ k nm at_ mg (fun _ => i) (fun hp' => absurd hp' hk), hs]
  by_cases hsec : (b.node curr).kind = .sec
  · simp only [if_pos hsec]; rw [hp hsec]; rfl
  · simp only [if_neg hsec]

theorem absG_prop_const {h : H} {w : Bool} {p : Nat} (hk : (h.node p).kind = .prop) (n : Nat) :
    absG h w n p = absG h w 0 p := by
  cases n with
  | zero => rfl
  | succ n => simp [absG, hk]



theorem exportLoop_chain (b : H) (wb : WF b) (self : Nat) :
    ∀ (fuel : Nat) (h : H) (curr child : Nat) (h' : H) (r : Nat) (l : List Nat) (cts : List Tree) (d : Nat),
      Ext b h → curr < b.nN → (b.node curr).kind ≠ .prop →
      chainUp b fuel curr = some l → (∀ y, y ∈ l.tail → y ≠ self) →
      (curr ≠ self → b.nN ≤ child ∧ child < h.nN ∧ (h.node child).kind = .sec ∧
        ∃ tc, cts = [tc] ∧ ∀ h'', AfterAll h h'' → ∀ n, d ≤ n → absG h'' true n child = tc) →
      (curr = self → cts = []) →
      exportLoop fuel h self curr child = (h', .ok r) →
      ∃ t, chainTree b l cts = some t ∧ ∀ n, d + l.length ≤ n → absG h' true n r = t := by
  intro fuel
  induction fuel with
  | zero => intro h curr child h' r l cts d _ _ _ hl; simp [chainUp] at hl
  | succ fuel ih =>
    intro h curr child h' r l cts d e hcur hk hl htail hne heq he
    simp only [exportLoop] at he
    have mb := e.1
    unfold Mono at mb
    have hc0 : h.node curr = b.node curr := e.2.1 curr hcur
    split at he
    · simp at he
    · rename_i h1 par hcl
      have ok := cloneF_spec 1 h curr false true h1 par hcl
      have root := cloneF_fields 1 h curr false true h1 par hcl
      have nc := cloneF_no_children (by rw [hc0]; exact hk) hcl
      rw [hc0] at nc
      have m1 := ok.ext.1
      unfold Mono at m1
      have hpar := ok.c_eq
      have hlt := ok.lt
      have e1 : Ext b h1 := e.trans ok.ext
      split at he
      · simp at he
      · rename_i h2 hr2
        -- after `par.append(child)`
        have s2 : Ext b h2 ∧ Mono h1 h2 ∧ h2.nN = h1.nN ∧ SameBut (h1.node par) (h2.node par) ∧ AfterAll h h2 ∧
            ((b.node curr).kind = .sec → (h2.node par).props = []) ∧
            ∃ cs, (h2.node par).secs = cs ∧
              ∀ h'', AfterAll h h'' → ∀ n, d ≤ n → cs.map (absG h'' true n) = cts := by
          split at hr2
          · rename_i hcs
            obtain ⟨c1, c2, c3, tc, c4, c5⟩ := hne hcs
            have sz := attach_sizes hr2
            have kch : ((h1.node child).kind != .prop) = true := by rw [ok.ext.2.1 child c2, c3]; rfl
            obtain ⟨a1, a2⟩ := attach_childList hr2 (by omega : par ≠ child)
            rw [kch] at a1 a2
            simp only [childList, if_true, Bool.not_true, Bool.false_eq_true, if_false, nc.1, List.nil_append] at a1 a2
            refine ⟨ext_attach e1 hr2 (by omega) c1, by unfold Mono; omega, sz.1, attach_c_fields hr2 (by omega), ?_,
              fun hs => by rw [a2]; exact nc.2 hs, [child], a1, fun h'' af n hn => ?_⟩
            · refine ⟨fun a ha => ?_, fun v hv => ?_, fun t ht => ?_⟩
              · rw [← ok.ext.2.1 a ha]; exact attach_tsame hr2 a (by omega)
              · rw [sz.2.2.2.2.1]; exact ok.ext.2.2.1 v hv
              · rw [sz.2.2.2.2.2]; exact ok.ext.2.2.2 t ht
            · simp only [List.map_cons, List.map_nil]; rw [c5 h'' af n hn, c4]
          · rename_i hcs
            simp only [Prod.mk.injEq, and_true] at hr2
            subst hr2
            have hcs' : curr = self := Decidable.not_not.1 hcs
            exact ⟨e1, Mono.refl _, rfl, SameBut.refl _, AfterAll.of_ext ok.ext, nc.2, [], nc.1,
              fun _ _ _ _ => by rw [heq hcs']; rfl⟩
        obtain ⟨e2, m12, n2, sb2, aa2, props2, cs, secs2, trees2⟩ := s2
        unfold Mono at m12
        have hparlt : par < h2.nN := by omega
        have hc2 : h2.node curr = b.node curr := e2.2.1 curr hcur
        split at he
        · simp at he
        · rename_i h3 hr3
          -- after the Properties have been cloned
          have s3 : LoopFrame par h2 h3 ∧ SameBut (h2.node par) (h3.node par) ∧ (h3.node par).secs = (h2.node par).secs ∧
              ((b.node curr).kind = .sec → ∀ h'', After par h3 h'' → ∀ n,
                (h3.node par).props.map (absG h'' true n) = (b.node curr).props.map (absG b true 0)) := by
            split at hr3
            · rename_i hsec
              rw [hc2] at hsec hr3
              have wx := (wb.node curr hcur).2.2.1 hsec
              obtain ⟨news, l1, l2, l3⟩ := cloneLoop_tree (h0 := b) (w := true) (cloneF_recOk 1 true)
                (fun hh s hh1 sc e' hs hr n => by
                  have := cloneF_tree true wb 1 hh s true true hh1 sc e' hs (fun _ => rfl) hr n
                  simpa using this)
                par false _ h2 h3 hr3 e2 hparlt (by omega)
                (fun s hs => ⟨(wx s hs).1, by rw [(wx s hs).2 rfl]; rfl⟩)
              simp only [childList, Bool.false_eq_true, if_false, Bool.not_false, if_true, props2 hsec,
                List.nil_append] at l1 l2
              refine ⟨cloneLoop_frame (cloneF_recSpec 1 true) par _ h2 h3 hr3 hparlt,
                (cloneLoop_fields (cloneF_recSpec 1 true) par _ h2 h3 hparlt hr3).1, l2, fun _ h'' af n => ?_⟩
              rw [l1, l3 h'' af n]
              exact List.map_congr_left (fun s hs => absG_prop_const ((wx s hs).2 rfl) n)
            · rename_i hns
              simp only [Prod.mk.injEq, and_true] at hr3
              subst hr3
              exact ⟨LoopFrame.refl _ _, SameBut.refl _, rfl, fun hs => absurd (by rw [hc2]; exact hs) hns⟩
          obtain ⟨f3, sb3, secs3, props3⟩ := s3
          have m23 := f3.mono
          unfold Mono at m23
          have e3 : Ext b h3 := ext_of_frame e2 f3 (by omega)
          have mh3 : Mono h h3 := by unfold Mono; omega
          have aa3 : AfterAll h h3 := by
            refine ⟨fun a ha => ?_, fun v hv => ?_, fun t ht => ?_⟩
            · rw [f3.node a (by omega) (by omega)]; exact aa2.1 a ha
            · rw [f3.vcell v (by omega)]; exact aa2.2.1 v hv
            · rw [f3.tcell t (by omega)]; exact aa2.2.2 t ht
          -- the tree of `par`, in every later store
          have T : ∀ h'', AfterAll h3 h'' → ∀ n, d + 1 ≤ n → absG h'' true n par = chainNode b curr cts := by
            intro h'' af n hn
            obtain ⟨m, rfl⟩ : ∃ m, n = m + 1 := ⟨n - 1, by omega⟩
            obtain ⟨t1, t2, t3, t4, t5, t6, _, t8⟩ := af.1 par (by omega)
            obtain ⟨u1, u2, u3, u4, _, _, u7, _⟩ := sb3
            obtain ⟨v1, v2, v3, v4, _, _, v7, _⟩ := sb2
            refine chainNode_of m hk (by rw [t1, u1, v1, root.kind, hc0]) (by rw [t2, u2, v2, root.name, hc0])
              (by rw [t4, u4, v4, root.attrs, hc0]) (by rw [t8, u7, v7, root.merged, hc0])
              (by rw [t3, u3, v3, root.idKept rfl, hc0]) ?_ (fun hs => ?_)
            · rw [t5, secs3, secs2]
              exact trees2 h'' (aa3.trans mh3 af) m (by omega)
            · rw [t6]; exact props3 hs h'' (af.after par) m
          have hpo : parentOf h3 curr = parentOf b curr := by simp [parentOf, e3.2.1 curr hcur]
          rw [hpo] at he
          simp only [chainUp] at hl
          split at he
          · rename_i hnone
            simp only [Prod.mk.injEq, Res.ok.injEq] at he
            obtain ⟨rfl, rfl⟩ := he
            rw [hnone] at hl
            simp only [Option.some.injEq] at hl
            subst hl
            exact ⟨_, rfl, fun n hn => T _ (AfterAll.refl _) n (by simpa using hn)⟩
          · rename_i q hq
            rw [hq] at hl
            simp only at hl
            cases hlq : chainUp b fuel q with
            | none => rw [hlq] at hl; simp at hl
            | some l' =>
              rw [hlq] at hl
              simp only [Option.map_some, Option.some.injEq] at hl
              subst hl
              obtain ⟨rest', rfl⟩ := chainUp_ne_nil fuel q l' hlq
              have hq' := hq
              unfold parentOf at hq'
              split at hq'
              · cases hq'
              · rename_i hnd
                obtain ⟨q1, q2⟩ := (wb.node curr hcur).1 hnd q hq'
                have hqs : q ≠ self := htail q (by simp)
                have kpar : (h3.node par).kind = .sec := by
                  rw [sb3.1, sb2.1, root.kind, hc0]; exact kind_sec_of hk hnd
                obtain ⟨t, ht1, ht2⟩ := ih h3 q par h' r (q :: rest') [chainNode b curr cts] (d + 1) e3 q1 (q2 rfl).1 hlq
                  (fun y hy => htail y (by simp only [List.tail_cons] at hy ⊢; exact List.mem_cons_of_mem _ hy))
                  (fun _ => ⟨by omega, by omega, kpar, _, rfl, T⟩) (fun hqe => absurd hqe hqs) he
                refine ⟨t, ht1, fun n hn => ht2 n ?_⟩
                simp only [List.length_cons] at hn ⊢
                omega


theorem chainUp_length {h : H} : ∀ (f x : Nat) (l : List Nat), chainUp h f x = some l → l.length ≤ f := by
  intro f
  induction f with
  | zero => intro x l hl; simp [chainUp] at hl
  | succ f ih =>
    intro x l hl
    simp only [chainUp] at hl
    split at hl
    · simp only [Option.some.injEq] at hl; subst hl; simp
    · rename_i q _
      cases hq : chainUp h f q with
      | none => rw [hq] at hl; simp at hl
      | some l' =>
        rw [hq] at hl
        simp only [Option.map_some, Option.some.injEq] at hl
        subst hl
        have := ih q l' hq
        simp only [List.length_cons]; omega

/-- A successful export has walked a parent chain that ends in a root. -/
theorem exportLoop_reaches {K} (b : H) (wb : WFG K b) (self : Nat) :
    ∀ (fuel : Nat) (h : H) (curr child : Nat) (h' : H) (r : Nat),
      Ext b h → curr < b.nN → (curr ≠ self → b.nN ≤ child) →
      exportLoop fuel h self curr child = (h', .ok r) → ∃ l, chainUp b fuel curr = some l := by
  intro fuel
  induction fuel with
  | zero => intro h curr child h' r _ _ _ he; simp [exportLoop] at he
  | succ fuel ih =>
    intro h curr child h' r e hcur hch he
    simp only [exportLoop] at he
    have mb := e.1
    unfold Mono at mb
    split at he
    · simp at he
    · rename_i h1 par hcl
      have ok := cloneF_spec 1 h curr false true h1 par hcl
      have m1 := ok.ext.1
      unfold Mono at m1
      have hpar := ok.c_eq
      have hlt := ok.lt
      have e1 : Ext b h1 := e.trans ok.ext
      split at he
      · simp at he
      · rename_i h2 hr2
        have s2 : Ext b h2 ∧ h2.nN = h1.nN := by
          split at hr2
          · rename_i hne
            exact ⟨ext_attach e1 hr2 (by omega) (hch hne), (attach_sizes hr2).1⟩
          · simp only [Prod.mk.injEq, and_true] at hr2
            subst hr2; exact ⟨e1, rfl⟩
        obtain ⟨e2, n2⟩ := s2
        split at he
        · simp at he
        · rename_i h3 hr3
          have f3 : LoopFrame par h2 h3 := by
            split at hr3
            · exact cloneLoop_frame (cloneF_recSpec 1 true) par _ h2 h3 hr3 (by omega)
            · simp only [Prod.mk.injEq, and_true] at hr3
              subst hr3; exact LoopFrame.refl _ _
          have e3 : Ext b h3 := ext_of_frame e2 f3 (by omega)
          have hpo : parentOf h3 curr = parentOf b curr := by simp [parentOf, e3.2.1 curr hcur]
          rw [hpo] at he
          simp only [chainUp]
          split at he
          · rename_i hnone
            rw [hnone]; exact ⟨_, rfl⟩
          · rename_i q hq
            rw [hq]
            have hq' := hq
            unfold parentOf at hq'
            split at hq'
            · cases hq'
            · rename_i hnd
              have q1 := ((wb.node curr hcur).1 hnd q hq').1
              obtain ⟨l', hl'⟩ := ih h3 q par h' r e3 q1 (fun _ => by omega) he
              exact ⟨curr :: l', by simp only [hl', Option.map_some]⟩

/-- `export_leaf` of an object with a start object (anything but a parentless Property): the result
    denotes, including the ids, exactly the tree over the parent chain of the start object. -/
theorem exportLeafF_chain {h h' : H} {x r s : Nat} (wf : WF h) (hx : x < h.nN) (hs : exportStart h x = some s)
    (he : exportLeafF h x = (h', .ok r)) :
    ∃ t, chainSpec h x = some t ∧ ∀ n, fuelOf h ≤ n → absG h' true n r = t := by
  have hloop : s < h.nN ∧ (h.node s).kind ≠ .prop ∧ exportLoop (fuelOf h) h s s s = (h', .ok r) := by
    unfold exportStart at hs
    unfold exportLeafF at he
    split at hs
    · rename_i hk
      obtain ⟨p1, p2⟩ := (wf.node x hx).1 (by rw [hk]; simp) s hs
      rw [hk] at he
      simp only [hs] at he
      exact ⟨p1, (p2 rfl).1, he⟩
    · rename_i hk
      simp only [Option.some.injEq] at hs
      subst hs
      refine ⟨hx, hk, ?_⟩
      split at he
      · rename_i hk'; exact absurd hk' hk
      · exact he
  obtain ⟨s1, s2, s3⟩ := hloop
  obtain ⟨l, hl⟩ := exportLoop_reaches h wf s _ h s s h' r (Ext.refl h) s1 (fun hne => absurd rfl hne) s3
  obtain ⟨rest, rfl⟩ := chainUp_ne_nil _ s l hl
  obtain ⟨t, t1, t2⟩ := exportLoop_chain h wf s _ h s s h' r _ [] 0 (Ext.refl h) s1 s2 hl
    (fun y hy => by
      simp only [List.tail_cons] at hy
      intro e; subst e; exact chainUp_not_mem hl hy)
    (fun hne => absurd rfl hne) (fun _ => rfl) s3
  refine ⟨t, by simp only [chainSpec, hs, hl]; exact t1, fun n hn => t2 n ?_⟩
  have := chainUp_length _ s _ hl
  omega


end Clone
