/-
C01 helper lemmas: what the XML writer's refusals decide. `docRefused` = ParserException for an
n-tuple item containing a comma or a line break (fix fc8b891) and for a child name that is blank
or equal after trimming to the name of an earlier sibling (fix e87b2d6). On a valid document the
writer refuses exactly the documents the XML form cannot carry in these respects, so "refused or
round trip" holds with `xmlRepr` reduced to its uncertainty part (`xmlReprU`, the one remaining
open finding).
-/
import OdmlModel.Model.Xml
import OdmlModel.Model.XmlRepr

namespace Xml
open Py

/-- `propRepr` without what the writer decides itself: no numeric `uncertainty`. -/
def propReprU (p : PropT) : Bool := uncRepr p.uncertainty

mutual
def secReprU : SecT → Bool
  | .mk _ _ _ _ _ _ _ _ secs props _ _ => props.all propReprU && secsReprU secs
def secsReprU : List SecT → Bool
  | [] => true
  | s :: ss => secReprU s && secsReprU ss
end

/-- Representable as far as the writer does not decide it: no numeric `uncertainty` anywhere
    (the remaining open finding: it is loaded back as text). -/
def xmlReprU (d : DocT) : Bool := secsReprU d.secs

theorem nodup_map_some {α : Type} (l : List α) : (l.map some).Nodup ↔ l.Nodup := by
  induction l with
  | nil => simp
  | cons a r ih => simp [List.nodup_cons, ih]

theorem secNames_eq_map : (l : List SecT) → secNames l = l.map secNameOf
  | [] => rfl
  | .mk _ _ _ _ _ _ _ _ _ _ _ _ :: ss => by
    simp [secNames, secNameOf, secNames_eq_map ss]

theorem map_strip_of_allSome : (names : List (Option Str)) → names.all Option.isSome = true →
    names.map (Option.map strip) = (trimmedNames names).map some
  | [], _ => rfl
  | none :: _, h => by simp at h
  | some s :: r, h => by
    have hr : r.all Option.isSome = true := by simpa using h
    simp [trimmedNames, List.filterMap_cons] at *
    exact map_strip_of_allSome r (by simpa using hr)

theorem nameRepr_all_of_trimmed : (names : List (Option Str)) → names.all Option.isSome = true →
    (trimmedNames names).any (fun t => t.isEmpty) = false → names.all nameRepr = true
  | [], _, _ => rfl
  | none :: _, h, _ => by simp at h
  | some s :: r, h, ht => by
    have hr : r.all Option.isSome = true := by simpa using h
    simp only [trimmedNames, List.filterMap_cons, Option.map_some, List.any_cons,
      Bool.or_eq_false_iff] at ht
    simp only [List.all_cons, Bool.and_eq_true, nameRepr]
    exact ⟨by simp [ht.1], nameRepr_all_of_trimmed r hr ht.2⟩

theorem names_ok_of_not_refused (names : List (Option Str)) (hs : names.all Option.isSome = true)
    (h : namesRefused names = false) :
    names.all nameRepr = true ∧ distinctTrimmed names = true := by
  simp only [namesRefused, Bool.or_eq_false_iff, Bool.not_eq_false', decide_eq_true_eq] at h
  refine ⟨nameRepr_all_of_trimmed names hs h.1, ?_⟩
  simp only [distinctTrimmed, decide_eq_true_eq]
  rw [map_strip_of_allSome names hs]
  exact (nodup_map_some _).2 h.2

theorem allSome_of_nameRepr : (names : List (Option Str)) → names.all nameRepr = true →
    names.all Option.isSome = true
  | [], _ => rfl
  | none :: _, h => by simp [nameRepr] at h
  | some _ :: r, h => by
    have : r.all nameRepr = true := by
      simp only [List.all_cons, Bool.and_eq_true] at h; exact h.2
    simp [allSome_of_nameRepr r this]

theorem trimmed_nonblank_of_nameRepr : (names : List (Option Str)) → names.all nameRepr = true →
    (trimmedNames names).any (fun t => t.isEmpty) = false
  | [], _ => rfl
  | none :: _, h => by simp [nameRepr] at h
  | some s :: r, h => by
    simp only [List.all_cons, Bool.and_eq_true, nameRepr, Bool.not_eq_true'] at h
    simp only [trimmedNames, List.filterMap_cons, Option.map_some, List.any_cons,
      Bool.or_eq_false_iff]
    exact ⟨h.1, trimmed_nonblank_of_nameRepr r h.2⟩

theorem not_refused_of_names_ok (names : List (Option Str)) (hr : names.all nameRepr = true)
    (hd : distinctTrimmed names = true) : namesRefused names = false := by
  have hs := allSome_of_nameRepr names hr
  simp only [namesRefused, Bool.or_eq_false_iff, Bool.not_eq_false', decide_eq_true_eq]
  refine ⟨trimmed_nonblank_of_nameRepr names hr, ?_⟩
  simp only [distinctTrimmed, decide_eq_true_eq] at hd
  rw [map_strip_of_allSome names hs] at hd
  exact (nodup_map_some _).1 hd


theorem itemHasSep_eq (x : Str) : itemHasSep x = !itemRepr x := by
  simp [itemHasSep, itemRepr]

theorem valHasSep_eq (v : Val) : valHasSep v = !valRepr v := by
  cases v <;> simp [valHasSep, valRepr]
  rename_i xs
  induction xs with
  | nil => simp
  | cons a r ih => simp [List.any_cons, List.all_cons, itemHasSep_eq, ih, Bool.not_and]

/-- On a valid Property the writer's refusal test is exact. -/
theorem valuesRepr_of_not_refused (lib : TokLib) (p : PropT) (hwf : propWf lib p = true)
    (hnr : propRefused p = false) : p.values.all valRepr = true := by
  simp only [propWf, Bool.and_eq_true] at hwf
  obtain ⟨_, hvals⟩ := hwf
  cases hd : p.dtype with
  | none =>
    simp only [hd] at hvals
    have : p.values = [] := by simpa using hvals
    simp [this]
  | some d =>
    simp only [hd, Bool.and_eq_true] at hvals
    obtain ⟨_, hall⟩ := hvals
    by_cases ht : endsWith "-tuple" d = true
    · simp only [propRefused, hd, ht, Bool.true_and] at hnr
      by_cases he : p.values = []
      · simp [he]
      · have hemp : p.values.isEmpty = false := by
          cases hv : p.values with
          | nil => exact absurd hv he
          | cons _ _ => rfl
        simp only [hemp, Bool.not_false, Bool.true_and] at hnr
        rw [List.all_eq_true]
        intro v hv
        have := (List.any_eq_false.1 hnr) v hv
        simpa [valHasSep_eq] using this
    · have ht' : endsWith "-tuple" d = false := by simpa using ht
      rw [List.all_eq_true]
      intro v hv
      have hok := (List.all_eq_true.1 hall) v hv
      cases v with
      | tuple xs => simp [valOk, ht'] at hok
      | _ => rfl


theorem propRepr_of_not_refused (lib : TokLib) (p : PropT) (hwf : propWf lib p = true)
    (hu : propReprU p = true) (hnr : propRefused p = false) (hn : nameRepr p.name = true) :
    propRepr p = true := by
  simp only [propRepr, Bool.and_eq_true]
  exact ⟨⟨hn, valuesRepr_of_not_refused lib p hwf hnr⟩, hu⟩

theorem propsRepr_of_not_refused (lib : TokLib) (ps : List PropT)
    (hwf : ps.all (propWf lib) = true) (hu : ps.all propReprU = true)
    (hnr : ps.any propRefused = false) (hn : (ps.map (·.name)).all nameRepr = true) :
    ps.all propRepr = true := by
  induction ps with
  | nil => rfl
  | cons p r ih =>
    simp only [List.all_cons, Bool.and_eq_true] at hwf hu
    simp only [List.any_cons, Bool.or_eq_false_iff] at hnr
    simp only [List.map_cons, List.all_cons, Bool.and_eq_true] at hn
    simp only [List.all_cons, Bool.and_eq_true]
    exact ⟨propRepr_of_not_refused lib p hwf.1 hu.1 hnr.1 hn.1, ih hwf.2 hu.2 hnr.2 hn.2⟩

theorem props_allSome (lib : TokLib) (ps : List PropT) (hwf : ps.all (propWf lib) = true) :
    (ps.map (·.name)).all Option.isSome = true := by
  induction ps with
  | nil => rfl
  | cons p r ih =>
    simp only [List.all_cons, Bool.and_eq_true] at hwf
    have hp := hwf.1
    simp only [propWf, Bool.and_eq_true] at hp
    simp only [List.map_cons, List.all_cons, Bool.and_eq_true]
    exact ⟨hp.1.1.2, ih hwf.2⟩

theorem secs_allSome (lib : TokLib) : (l : List SecT) → secsWf lib l = true →
    (l.map secNameOf).all Option.isSome = true
  | [], _ => rfl
  | .mk _ name _ _ _ _ _ _ _ _ _ _ :: ss, h => by
    simp only [secsWf, secWf, Bool.and_eq_true] at h
    simp only [List.map_cons, secNameOf, List.all_cons, Bool.and_eq_true]
    exact ⟨h.1.1.1.1.1.1.2, secs_allSome lib ss h.2⟩

mutual
theorem secRepr_of_not_refused (lib : TokLib) : (s : SecT) → secWf lib s = true →
    secReprU s = true → secRefused s = false → nameRepr (secNameOf s) = true → secRepr s = true
  | .mk _ _ _ _ _ _ _ _ secs props _ _, hwf, hu, hnr, hn => by
    simp only [secWf, Bool.and_eq_true] at hwf
    simp only [secReprU, Bool.and_eq_true] at hu
    simp only [secRefused, Bool.or_eq_false_iff] at hnr
    obtain ⟨⟨⟨hpr, hpn⟩, hsn⟩, hsr⟩ := hnr
    have hP := names_ok_of_not_refused _ (props_allSome lib props hwf.1.2) hpn
    have hS := names_ok_of_not_refused _ (secs_allSome lib secs hwf.2) hsn
    simp only [secRepr, Bool.and_eq_true]
    refine ⟨⟨⟨⟨by simpa [secNameOf] using hn,
      propsRepr_of_not_refused lib props hwf.1.2 hu.1 hpr hP.1⟩, hP.2⟩, ?_⟩, ?_⟩
    · rw [secNames_eq_map]; exact hS.2
    · exact secsRepr_of_not_refused lib secs hwf.2 hu.2 hsr hS.1
theorem secsRepr_of_not_refused (lib : TokLib) : (l : List SecT) → secsWf lib l = true →
    secsReprU l = true → secsRefused l = false → (l.map secNameOf).all nameRepr = true →
    secsRepr l = true
  | [], _, _, _, _ => rfl
  | s :: r, hwf, hu, hnr, hn => by
    simp only [secsWf, Bool.and_eq_true] at hwf
    simp only [secsReprU, Bool.and_eq_true] at hu
    simp only [secsRefused, Bool.or_eq_false_iff] at hnr
    simp only [List.map_cons, List.all_cons, Bool.and_eq_true] at hn
    simp only [secsRepr, Bool.and_eq_true]
    exact ⟨secRepr_of_not_refused lib s hwf.1 hu.1 hnr.1 hn.1,
      secsRepr_of_not_refused lib r hwf.2 hu.2 hnr.2 hn.2⟩
end

theorem xmlRepr_of_not_refused (lib : TokLib) (d : DocT) (hwf : wfDoc lib d = true)
    (hu : xmlReprU d = true) (hnr : docRefused d = false) : xmlRepr d = true := by
  simp only [wfDoc, Bool.and_eq_true] at hwf
  simp only [docRefused, Bool.or_eq_false_iff] at hnr
  have hS := names_ok_of_not_refused _ (secs_allSome lib d.secs hwf.2) hnr.1
  simp only [xmlRepr, Bool.and_eq_true]
  refine ⟨?_, secsRepr_of_not_refused lib d.secs hwf.2 hu hnr.2 hS.1⟩
  rw [secNames_eq_map]; exact hS.2

/-- A document inside `xmlRepr` is never refused. -/
theorem not_refused_of_propsRepr (ps : List PropT) (h : ps.all propRepr = true) :
    ps.any propRefused = false ∧ (ps.map (·.name)).all nameRepr = true := by
  induction ps with
  | nil => exact ⟨rfl, rfl⟩
  | cons p r ih =>
    simp only [List.all_cons, Bool.and_eq_true] at h
    have hp := h.1
    simp only [propRepr, Bool.and_eq_true] at hp
    have hv : p.values.any valHasSep = false := by
      rw [List.any_eq_false]
      intro v hv
      simp [valHasSep_eq, (List.all_eq_true.1 hp.1.2) v hv]
    have hpr : propRefused p = false := by simp [propRefused, hv]
    obtain ⟨h1, h2⟩ := ih h.2
    simp only [List.any_cons, Bool.or_eq_false_iff, List.map_cons, List.all_cons, Bool.and_eq_true]
    exact ⟨⟨hpr, h1⟩, hp.1.1, h2⟩

mutual
theorem not_refused_of_secRepr : (s : SecT) → secRepr s = true →
    secRefused s = false ∧ nameRepr (secNameOf s) = true
  | .mk _ name _ _ _ _ _ _ secs props _ _, hr => by
    simp only [secRepr, Bool.and_eq_true] at hr
    obtain ⟨⟨⟨⟨hn, hp⟩, hpd⟩, hsd⟩, hs⟩ := hr
    obtain ⟨hp1, hp2⟩ := not_refused_of_propsRepr props hp
    obtain ⟨hs1, hs2⟩ := not_refused_of_secsRepr secs hs
    rw [secNames_eq_map] at hsd
    simp only [secRefused, Bool.or_eq_false_iff]
    exact ⟨⟨⟨⟨hp1, not_refused_of_names_ok _ hp2 hpd⟩, not_refused_of_names_ok _ hs2 hsd⟩, hs1⟩,
      by simpa [secNameOf] using hn⟩
theorem not_refused_of_secsRepr : (l : List SecT) → secsRepr l = true →
    secsRefused l = false ∧ (l.map secNameOf).all nameRepr = true
  | [], _ => ⟨rfl, rfl⟩
  | s :: r, hr => by
    simp only [secsRepr, Bool.and_eq_true] at hr
    obtain ⟨a1, a2⟩ := not_refused_of_secRepr s hr.1
    obtain ⟨b1, b2⟩ := not_refused_of_secsRepr r hr.2
    simp only [secsRefused, Bool.or_eq_false_iff, List.map_cons, List.all_cons, Bool.and_eq_true]
    exact ⟨⟨a1, b1⟩, a2, b2⟩
end

theorem not_refused_of_xmlRepr (d : DocT) (h : xmlRepr d = true) : docRefused d = false := by
  simp only [xmlRepr, Bool.and_eq_true] at h
  obtain ⟨h1, h2⟩ := not_refused_of_secsRepr d.secs h.2
  have hd := h.1
  rw [secNames_eq_map] at hd
  simp only [docRefused, Bool.or_eq_false_iff]
  exact ⟨not_refused_of_names_ok _ h2 hd, h1⟩

end Xml
