/-
C01 helper lemmas: what the XML writer's refusal (`docRefused`: ParserException on an n-tuple item
containing a comma or a line break, fix fc8b891) decides. On a valid document the writer refuses
exactly the documents whose tuple values the bracketed text cannot carry, so "refused or round
trip" holds with `xmlRepr` reduced to its name / uncertainty part (`xmlReprN`).
-/
import OdmlModel.Model.Xml
import OdmlModel.Model.XmlRepr

namespace Xml
open Py

/-- `propRepr` without the tuple-item condition (that part is decided by the writer itself). -/
def propReprN (p : PropT) : Bool := nameRepr p.name && uncRepr p.uncertainty

mutual
def secReprN : SecT → Bool
  | .mk _ name _ _ _ _ _ _ secs props _ _ =>
    nameRepr name && props.all propReprN && distinctTrimmed (props.map (·.name)) &&
    distinctTrimmed (secNames secs) && secsReprN secs
def secsReprN : List SecT → Bool
  | [] => true
  | s :: ss => secReprN s && secsReprN ss
end

/-- Representable as far as names and uncertainties go: names not blank and distinct among
    siblings after trimming, no numeric `uncertainty` (the three remaining open findings). -/
def xmlReprN (d : DocT) : Bool := distinctTrimmed (secNames d.secs) && secsReprN d.secs

theorem itemHasSep_eq (x : Str) : itemHasSep x = !itemRepr x := by
  simp [itemHasSep, itemRepr]

theorem valHasSep_eq (v : Val) : valHasSep v = !valRepr v := by
  cases v <;> simp [valHasSep, valRepr]
  rename_i xs
  induction xs with
  | nil => simp
  | cons a r ih => simp [List.any_cons, List.all_cons, itemHasSep_eq, ih, Bool.not_and]

/-- On a valid Property the writer's refusal test is exact. -/
theorem valuesRepr_of_not_refused (lib : TokLib) (p : PropT) (hwf : propWf lib p = true)
    (hnr : propRefused p = false) : p.values.all valRepr = true := by
  simp only [propWf, Bool.and_eq_true] at hwf
  obtain ⟨_, hvals⟩ := hwf
  cases hd : p.dtype with
  | none =>
    simp only [hd] at hvals
    have : p.values = [] := by simpa using hvals
    simp [this]
  | some d =>
    simp only [hd, Bool.and_eq_true] at hvals
    obtain ⟨_, hall⟩ := hvals
    by_cases ht : endsWith "-tuple" d = true
    · simp only [propRefused, hd, ht, Bool.true_and] at hnr
      by_cases he : p.values = []
      · simp [he]
      · have hemp : p.values.isEmpty = false := by
          cases hv : p.values with
          | nil => exact absurd hv he
          | cons _ _ => rfl
        simp only [hemp, Bool.not_false, Bool.true_and] at hnr
        rw [List.all_eq_true]
        intro v hv
        have := (List.any_eq_false.1 hnr) v hv
        simpa [valHasSep_eq] using this
    · have ht' : endsWith "-tuple" d = false := by simpa using ht
      rw [List.all_eq_true]
      intro v hv
      have hok := (List.all_eq_true.1 hall) v hv
      cases v with
      | tuple xs => simp [valOk, ht'] at hok
      | _ => rfl

theorem propRepr_of_not_refused (lib : TokLib) (p : PropT) (hwf : propWf lib p = true)
    (hn : propReprN p = true) (hnr : propRefused p = false) : propRepr p = true := by
  simp only [propReprN, Bool.and_eq_true] at hn
  simp only [propRepr, Bool.and_eq_true]
  exact ⟨⟨hn.1, valuesRepr_of_not_refused lib p hwf hnr⟩, hn.2⟩

theorem propsRepr_of_not_refused (lib : TokLib) (ps : List PropT)
    (hwf : ps.all (propWf lib) = true) (hn : ps.all propReprN = true)
    (hnr : ps.any propRefused = false) : ps.all propRepr = true := by
  induction ps with
  | nil => rfl
  | cons p r ih =>
    simp only [List.all_cons, Bool.and_eq_true] at hwf hn
    simp only [List.any_cons, Bool.or_eq_false_iff] at hnr
    simp only [List.all_cons, Bool.and_eq_true]
    exact ⟨propRepr_of_not_refused lib p hwf.1 hn.1 hnr.1, ih hwf.2 hn.2 hnr.2⟩

mutual
theorem secRepr_of_not_refused (lib : TokLib) : (s : SecT) → secWf lib s = true →
    secReprN s = true → secRefused s = false → secRepr s = true
  | .mk _ _ _ _ _ _ _ _ secs props _ _, hwf, hn, hnr => by
    simp only [secWf, Bool.and_eq_true] at hwf
    simp only [secReprN, Bool.and_eq_true] at hn
    simp only [secRefused, Bool.or_eq_false_iff] at hnr
    simp only [secRepr, Bool.and_eq_true]
    exact ⟨⟨⟨⟨hn.1.1.1.1, propsRepr_of_not_refused lib props hwf.1.2 hn.1.1.1.2 hnr.1⟩, hn.1.1.2⟩,
      hn.1.2⟩, secsRepr_of_not_refused lib secs hwf.2 hn.2 hnr.2⟩
theorem secsRepr_of_not_refused (lib : TokLib) : (l : List SecT) → secsWf lib l = true →
    secsReprN l = true → secsRefused l = false → secsRepr l = true
  | [], _, _, _ => rfl
  | s :: r, hwf, hn, hnr => by
    simp only [secsWf, Bool.and_eq_true] at hwf
    simp only [secsReprN, Bool.and_eq_true] at hn
    simp only [secsRefused, Bool.or_eq_false_iff] at hnr
    simp only [secsRepr, Bool.and_eq_true]
    exact ⟨secRepr_of_not_refused lib s hwf.1 hn.1 hnr.1, secsRepr_of_not_refused lib r hwf.2 hn.2 hnr.2⟩
end

theorem xmlRepr_of_not_refused (lib : TokLib) (d : DocT) (hwf : wfDoc lib d = true)
    (hn : xmlReprN d = true) (hnr : docRefused d = false) : xmlRepr d = true := by
  simp only [wfDoc, Bool.and_eq_true] at hwf
  simp only [xmlReprN, Bool.and_eq_true] at hn
  simp only [xmlRepr, Bool.and_eq_true]
  exact ⟨hn.1, secsRepr_of_not_refused lib d.secs hwf.2 hn.2 hnr⟩

/-- A document inside `xmlRepr` is never refused. -/
theorem not_refused_of_propsRepr (ps : List PropT) (h : ps.all propRepr = true) :
    ps.any propRefused = false := by
  rw [List.any_eq_false]
  intro p hp
  have hr := (List.all_eq_true.1 h) p hp
  simp only [propRepr, Bool.and_eq_true] at hr
  have : p.values.any valHasSep = false := by
    rw [List.any_eq_false]
    intro v hv
    simp [valHasSep_eq, (List.all_eq_true.1 hr.1.2) v hv]
  simp [propRefused, this]

mutual
theorem not_refused_of_secRepr : (s : SecT) → secRepr s = true → secRefused s = false
  | .mk _ _ _ _ _ _ _ _ secs props _ _, hr => by
    simp only [secRepr, Bool.and_eq_true] at hr
    simp only [secRefused, Bool.or_eq_false_iff]
    exact ⟨not_refused_of_propsRepr props hr.1.1.1.2, not_refused_of_secsRepr secs hr.2⟩
theorem not_refused_of_secsRepr : (l : List SecT) → secsRepr l = true → secsRefused l = false
  | [], _ => rfl
  | s :: r, hr => by
    simp only [secsRepr, Bool.and_eq_true] at hr
    simp only [secsRefused, Bool.or_eq_false_iff]
    exact ⟨not_refused_of_secRepr s hr.1, not_refused_of_secsRepr r hr.2⟩
end

theorem not_refused_of_xmlRepr (d : DocT) (h : xmlRepr d = true) : docRefused d = false := by
  simp only [xmlRepr, Bool.and_eq_true] at h
  exact not_refused_of_secsRepr d.secs h.2

end Xml
