/-
C15, whole-tree composition, part 5: the well-formedness predicate of the model (`WF10`, the one
the driver evaluates and the harness generates for) implies the hypothesis of the composition
theorem (`ConvWF`).  `ConvWF` is weaker: it does not ask for the modelled shape, for root
attributes, for a single root id, for Section types, for non-blank names or for the absence of
XML attributes.
-/
import OdmlModel.Proofs.ConvTree

namespace Conv
open Conv.Xml

theorem uniqueTags_subset (ks : List Xml) (ts ts' : List String) (hsub : ∀ t ∈ ts', t ∈ ts)
    (h : uniqueTags ks ts = true) : uniqueTags ks ts' = true := by
  simp only [uniqueTags, List.all_eq_true] at h ⊢
  intro t ht
  exact h t (hsub t ht)

theorem sel_nil_of_find_not_isSome (t : String) (ks : List Xml) (h : (find t ks).isSome = false) :
    sel t ks = [] := by
  cases hf : find t ks with
  | none => exact find_none_sel_nil hf
  | some k => rw [hf] at h; cases h

theorem propOKb_of_wfProp (p : Xml) (h : wfProp p = true) : propOKb p = true := by
  simp only [wfProp, Bool.and_eq_true] at h
  obtain ⟨⟨⟨⟨_, huniq⟩, hboth⟩, _⟩, hvals⟩ := h
  unfold propOKb
  simp only [Bool.and_eq_true]
  refine ⟨⟨uniqueTags_subset _ _ _ (by decide) huniq, ?_⟩, ?_⟩
  · simp only [Bool.or_eq_true, List.isEmpty_iff]
    cases h1 : (find "dependency_value" p.kids).isSome with
    | false => exact Or.inr (sel_nil_of_find_not_isSome _ _ h1)
    | true =>
      cases h2 : (find "dependencyvalue" p.kids).isSome with
      | false => exact Or.inl (sel_nil_of_find_not_isSome _ _ h2)
      | true => rw [h1, h2] at hboth; cases hboth
  · simp only [List.all_eq_true] at hvals ⊢
    intro v hv d hd
    have := hvals v hv
    simp only [wfValue, List.all_eq_true] at this
    have hd' := this d hd
    simp only [Bool.and_eq_true, bne_iff_ne, ne_eq]
    constructor
    · intro e; rw [e] at hd'; revert hd'; decide
    · intro e; rw [e] at hd'; revert hd'; decide

theorem secOwnOKb_of_wfSecOwn (s : Xml) (h : wfSecOwn s = true) : secOwnOKb s.kids = true := by
  simp only [wfSecOwn, Bool.and_eq_true] at h
  obtain ⟨⟨⟨_, huniq⟩, hname⟩, _⟩ := h
  unfold secOwnOKb
  rw [Bool.and_eq_true]
  refine ⟨?_, uniqueTags_subset _ _ _ (by decide) huniq⟩
  unfold goodName at hname
  cases hf : find "name" s.kids with
  | none => rw [hf] at hname; cases hname
  | some n => rfl

theorem mem_allPropsL (ks : List Xml) (p : Xml) (hp : p ∈ ks) (ht : p.tag = "property") :
    p ∈ allPropsL ks := by
  induction ks with
  | nil => cases hp
  | cons k ks ih =>
    simp only [allPropsL, List.mem_append]
    rcases List.mem_cons.1 hp with e | hm
    · subst e; left; simp [ht]
    · right; exact ih hm

theorem convOK_eq (k : Xml) :
    convOK k = (secOwnOKb k.kids && propsOKb k.kids && convOKKids k.kids) := by
  cases k; simp [convOK]

theorem allSecs_eq (k : Xml) : allSecs k = allSecsL k.kids := by cases k; simp [allSecs]
theorem allProps_eq (k : Xml) : allProps k = allPropsL k.kids := by cases k; simp [allProps]

def TreeStmt (k : Xml) : Prop :=
  (∀ s ∈ allSecsL k.kids, wfSecOwn s = true) → (∀ p ∈ allPropsL k.kids, wfProp p = true) →
    convOKKids k.kids = true

theorem tree_ok : ∀ k, TreeStmt k := by
  apply Xml.ind
  intro t a x ks ih
  simp only [TreeStmt, kids_elem]
  induction ks with
  | nil => intros; simp [convOKKids]
  | cons k ks ihl =>
    intro hsecs hprops
    have ih' : ∀ k' ∈ ks, TreeStmt k' := fun k' hm => ih k' (List.mem_cons_of_mem _ hm)
    have hsecs' : ∀ s ∈ allSecsL ks, wfSecOwn s = true := by
      intro s hm; apply hsecs
      simp only [allSecsL, List.mem_append]; exact Or.inr hm
    have hprops' : ∀ p ∈ allPropsL ks, wfProp p = true := by
      intro p hm; apply hprops
      simp only [allPropsL, List.mem_append]; exact Or.inr hm
    simp only [convOKKids, Bool.and_eq_true]
    refine ⟨?_, ihl ih' hsecs' hprops'⟩
    split
    · rename_i hs
      have hk : wfSecOwn k = true := by
        apply hsecs
        simp only [allSecsL, hs, ↓reduceIte, List.mem_append, List.mem_cons]
        exact Or.inl (Or.inl trivial)
      have hsub_s : ∀ s ∈ allSecsL k.kids, wfSecOwn s = true := by
        intro s hm; apply hsecs
        simp only [allSecsL, hs, ↓reduceIte, List.mem_append, List.mem_cons, allSecs_eq]
        exact Or.inl (Or.inr hm)
      have hsub_p : ∀ p ∈ allPropsL k.kids, wfProp p = true := by
        intro p hm; apply hprops
        simp only [allPropsL, hs, ↓reduceIte, List.mem_append, allProps_eq]
        exact Or.inl hm
      rw [convOK_eq]
      simp only [Bool.and_eq_true]
      refine ⟨⟨secOwnOKb_of_wfSecOwn k hk, ?_⟩, ih k (by simp) hsub_s hsub_p⟩
      unfold propsOKb
      simp only [List.all_eq_true, Bool.or_eq_true]
      intro p hp
      obtain ⟨hpm, hpt⟩ := mem_sel.1 hp
      exact Or.inr (propOKb_of_wfProp p (hsub_p p (mem_allPropsL _ p hpm hpt)))
    · rfl

/-- Every document the model calls well-formed (`WF10`) satisfies the hypothesis of the
    composition theorem. -/
theorem ConvWF_of_WF10 (x : Xml) (h : WF10 x = true) : ConvWF x = true := by
  simp only [WF10, Bool.and_eq_true, List.all_eq_true] at h
  obtain ⟨⟨⟨⟨_, henc⟩, _⟩, hsecs⟩, hprops⟩ := h
  unfold ConvWF
  rw [Bool.and_eq_true]
  refine ⟨henc, tree_ok x ?_ ?_⟩
  · rw [← allSecs_eq]; exact hsecs
  · rw [← allProps_eq]; exact hprops

end Conv
