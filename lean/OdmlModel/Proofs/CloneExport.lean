/-
C11 helper lemmas, part 5: `export_leaf` and the complete frame lemma of `step`; runs of operations.
-/
import OdmlModel.Proofs.CloneStep
namespace Clone

/-- Everything allocated from `b` on (including what will be allocated later). -/
def Sn (b : H) : Reg := ⟨fun a => b.nN ≤ a, fun a => b.nV ≤ a, fun a => b.nT ≤ a⟩

theorem future_sn {b h : H} (m : Mono b h) : Future (Sn b) h := by
  unfold Mono at m
  exact ⟨fun a ha => by simp only [Sn]; omega, fun a ha => by simp only [Sn]; omega,
    fun a ha => by simp only [Sn]; omega⟩

theorem st_sn_self (h : H) : St (Sn h) h :=
  ⟨⟨fun a ha hl => by simp only [Sn] at ha; omega, fun a ha hl => by simp only [Sn] at ha; omega⟩,
   future_sn (Mono.refl h)⟩

theorem closed_rng_sn {h h' : H} (c : Closed h' (rng h h')) : Closed h' (Sn h) := by
  have le : (rng h h').le (Sn h) := ⟨fun a ha => ha.1, fun a ha => ha.1, fun a ha => ha.1⟩
  exact ⟨fun a ha hl => (c.1 a ⟨ha, hl⟩ hl).mono le, fun a ha hl => (c.2 a ⟨ha, hl⟩ hl).mono le⟩

/-- A block of new locations whose references stay at or above the old sizes joins the region. -/
theorem good_ext' {R h h'} (s : St R h) (e : Ext h h') (c : Closed h' (Sn h)) : Good R h h' := by
  have le : (Sn h).le R := ⟨fun a ha => s.future.1 a ha, fun a ha => s.future.2.1 a ha, fun a ha => s.future.2.2 a ha⟩
  refine ⟨e.1, ⟨fun a ha => ?_, fun a ha => ?_, fun a ha => ?_⟩, ⟨⟨fun a ha hl => ?_, fun a ha hl => ?_⟩,
    s.future.mono e.1⟩⟩
  · exact e.2.1 a (Nat.lt_of_not_le (fun hle => ha (s.future.1 a hle)))
  · exact e.2.2.1 a (Nat.lt_of_not_le (fun hle => ha (s.future.2.1 a hle)))
  · exact e.2.2.2 a (Nat.lt_of_not_le (fun hle => ha (s.future.2.2 a hle)))
  · by_cases hlt : a < h.nN
    · rw [e.2.1 a hlt]; exact s.closed.1 a ha hlt
    · exact (c.1 a (by simp only [Sn]; omega) hl).mono le
  · by_cases hlt : a < h.nV
    · rw [e.2.2.1 a hlt]; exact s.closed.2 a ha hlt
    · exact (c.2 a (by simp only [Sn]; omega) hl).mono le

/-- From `Good` for the region "since `h`" back to the two facts it consists of. -/
theorem good_sn_ext {h h' : H} (g : Good (Sn h) h h') : Ext h h' ∧ Closed h' (Sn h) :=
  ⟨⟨g.mono, fun a ha => g.frame.1 a (by simp only [Sn]; omega), fun a ha => g.frame.2.1 a (by simp only [Sn]; omega),
    fun a ha => g.frame.2.2 a (by simp only [Sn]; omega)⟩, g.st.closed⟩

theorem good_attach {R h h'} (s : St R h) (c child : Nat) (hc : R.n c) (hch : R.n child)
    (ha : attach h c child = (h', none)) : Good R h h' := by
  rw [attach_ok ha]
  have g1 := good_setChildList s c ((h.node child).kind != .prop) (fun l => l ++ [child]) hc
    (fun l hl x hx => by
      simp only [List.mem_append, List.mem_singleton] at hx
      rcases hx with hx | hx
      · exact hl x hx
      · subst hx; exact hch)
  exact g1.trans (good_updN g1.st child _ hch (fun _ hn => nodeIn_parent hn _ (fun q hq => by
    simp only [Option.some.injEq] at hq; subst hq; exact hc)))

theorem good_cloneLoop {R rec} (hrec : RecSpec rec) (c : Nat) (hc : R.n c) :
    ∀ (l : List Nat) (h h' : H), St R h → cloneLoop rec h c l = (h', none) → Good R h h' := by
  intro l
  induction l with
  | nil =>
    intro h h' s hl
    simp only [cloneLoop, Prod.mk.injEq, and_true] at hl
    subst hl; exact Good.refl s
  | cons x rest ih =>
    intro h h' s hl
    simp only [cloneLoop] at hl
    split at hl
    · simp at hl
    · rename_i h1 sc hr
      split at hl
      · simp at hl
      · rename_i h2 hat
        obtain ⟨e1, cl1, hsc, _, _⟩ := hrec h x h1 sc hr
        have g1 := good_ext s e1 cl1
        have g2 := good_attach g1.st c sc hc (by subst hsc; exact s.future.1 _ (Nat.le_refl _)) hat
        exact g1.trans (g2.trans (ih h2 h' g2.st hl))

theorem exportLoop_good (b : H) : ∀ (fuel : Nat) (h : H) (self curr child : Nat) (h' : H) (r : Nat),
    St (Sn b) h → Mono b h → (curr ≠ self → b.nN ≤ child) →
    exportLoop fuel h self curr child = (h', .ok r) → Good (Sn b) h h' ∧ b.nN ≤ r := by
  intro fuel
  induction fuel with
  | zero => intro h self curr child h' r _ _ _ he; simp [exportLoop] at he
  | succ fuel ih =>
    intro h self curr child h' r s mb hch he
    simp only [exportLoop] at he
    split at he
    · simp at he
    · rename_i h1 par hcl
      have sp := cloneF_spec 1 h curr false true h1 par hcl
      have g1 := good_ext s sp.ext sp.closed
      have hpar : (Sn b).n par := by
        have := sp.c_eq; unfold Mono at mb; simp only [Sn]; omega
      split at he
      · simp at he
      · rename_i h2 hr2
        have g2 : Good (Sn b) h1 h2 := by
          split at hr2
          · rename_i hne
            exact good_attach g1.st par child hpar (hch hne) hr2
          · simp only [Prod.mk.injEq, and_true] at hr2
            subst hr2; exact Good.refl g1.st
        split at he
        · simp at he
        · rename_i h3 hr3
          have g3 : Good (Sn b) h2 h3 := by
            split at hr3
            · exact good_cloneLoop (cloneF_recSpec 1 true) par hpar _ h2 h3 g2.st hr3
            · simp only [Prod.mk.injEq, and_true] at hr3
              subst hr3; exact Good.refl g2.st
          have g13 := g1.trans (g2.trans g3)
          split at he
          · simp only [Prod.mk.injEq, Res.ok.injEq] at he
            obtain ⟨rfl, rfl⟩ := he
            exact ⟨g13, hpar⟩
          · rename_i q _
            obtain ⟨g4, hr⟩ := ih h3 self q par h' r g13.st (mb.trans g13.mono) (fun _ => hpar) he
            exact ⟨g13.trans g4, hr⟩

theorem exportLeafF_good (h : H) (x : Nat) (h' : H) (r : Nat) (he : exportLeafF h x = (h', .ok r)) :
    Good (Sn h) h h' ∧ h.nN ≤ r := by
  unfold exportLeafF at he
  split at he
  · rename_i hk
    split at he
    · rename_i p _
      exact exportLoop_good h _ h p p p h' r (st_sn_self h) (Mono.refl h) (fun hne => absurd rfl hne) he
    · simp only [Prod.mk.injEq, Res.ok.injEq] at he
      obtain ⟨rfl, rfl⟩ := he
      have sp := cloneProp_ok h x true hk
      exact ⟨good_ext (st_sn_self h) sp.ext sp.closed, by rw [sp.c_eq]; exact Nat.le_refl _⟩
  · exact exportLoop_good h _ h x x x h' r (st_sn_self h) (Mono.refl h) (fun hne => absurd rfl hne) he

theorem good_exportLeaf {R h} (s : St R h) (x : Nat) : Good R h (exportLeaf h x).1 := by
  unfold exportLeaf
  exact good_dropOnErr s _ (fun h' c hc => by
    obtain ⟨e, cl⟩ := good_sn_ext (exportLeafF_good h x h' c hc).1
    exact good_ext' s e cl)

/-! ### The frame lemma of `step` and of runs -/

/-- The operation is applied to objects and lists of the region. -/
def Op.InR (R : Reg) (op : Op) : Prop := (∀ x, x ∈ op.objs → R.n x) ∧ (∀ c, c ∈ op.lists → R.v c)

theorem step_good {R h} (s : St R h) (op : Op) (ho : op.InR R) : Good R h (step h op).1 := by
  unfold step
  split
  · exact Good.refl s
  · rename_i hguard
    simp only [Bool.or_eq_true, List.any_eq_true, decide_eq_true_eq, not_or, not_exists, not_and, Nat.not_le] at hguard
    split
    · exact Good.refl s
    · rename_i hkind
      simp only [List.any_eq_true, bne_iff_ne, ne_eq, not_exists, not_and, Decidable.not_not] at hkind
      cases op with
      | clone x ch keep => exact good_clone s x ch keep
      | exportLeaf x => exact good_exportLeaf s x
      | getValues p => exact good_getValues s p
      | setValuesFrom p c => exact good_set s (setValuesItems_spec h p _).1 (ho.1 p (by simp [Op.objs]))
      | setValuesLits p vs => exact good_set s (setValuesLits_spec h p vs) (ho.1 p (by simp [Op.objs]))
      | appendValue p v =>
        exact good_appendValue s p v (ho.1 p (by simp [Op.objs])) (hguard.1 p (by simp [Op.objs]))
          (hkind p (by simp [Op.props]))
      | setValueAt p i v =>
        simp only [optErr]
        have := good_setValueAt s p i v (ho.1 p (by simp [Op.objs])) (hguard.1 p (by simp [Op.objs]))
          (hkind p (by simp [Op.props]))
        split <;> simp_all
      | setDtype p v => exact good_setDtype s p v (ho.1 p (by simp [Op.objs]))
      | newList vs => exact good_newList s vs
      | listAppend c v => exact good_listAppend s c v (ho.2 c (by simp [Op.lists]))
      | listSet c i v =>
        have := good_listSet s c i v (ho.2 c (by simp [Op.lists]))
        simp only [optErr]; split <;> simp_all
      | listDel c i =>
        have := good_listDel s c i (ho.2 c (by simp [Op.lists]))
        simp only [optErr]; split <;> simp_all
      | listInnerSet c i j str =>
        have := good_listInnerSet s c i j str (ho.2 c (by simp [Op.lists])) (hguard.2 c (by simp [Op.lists]))
        simp only [optErr]; split <;> simp_all
      | valueInnerSet p i j str =>
        have := good_valueInnerSet s p i j str (ho.1 p (by simp [Op.objs])) (hguard.1 p (by simp [Op.objs]))
          (hkind p (by simp [Op.props]))
        simp only [optErr]; split <;> simp_all
      | newObj k name attrs vals => exact good_newObj s k name attrs vals
      | append p x =>
        have := good_append s p x (ho.1 p (by simp [Op.objs])) (ho.1 x (by simp [Op.objs]))
          (hguard.1 x (by simp [Op.objs]))
        simp only [optErr]; split <;> simp_all
      | remove p x =>
        have := good_remove s p x (ho.1 p (by simp [Op.objs])) (ho.1 x (by simp [Op.objs]))
        simp only [optErr]; split <;> simp_all
      | rename x new =>
        have := good_rename s x new (ho.1 x (by simp [Op.objs]))
        simp only [optErr]; split <;> simp_all
      | setAttr x i v => exact good_setAttr s x i v (ho.1 x (by simp [Op.objs]))
      | newId x => exact good_newId s x (ho.1 x (by simp [Op.objs]))
      | mergeAttrs x t record =>
        have := good_mergeOp s x t record (ho.1 x (by simp [Op.objs]))
        simp only [optErr]; split <;> simp_all
      | unmergeAttrs x =>
        have := good_unmergeOp s x (ho.1 x (by simp [Op.objs]))
        simp only [optErr]; split <;> simp_all

/-- Every operation of the list is applied to objects and lists of the region. -/
def OpsIn (R : Reg) (ops : List Op) : Prop := ∀ op, op ∈ ops → op.InR R

theorem run_good {R} : ∀ (ops : List Op) (h : H), St R h → OpsIn R ops → Good R h (run h ops) := by
  intro ops
  induction ops with
  | nil => intro h s _; exact Good.refl s
  | cons op rest ih =>
    intro h s ho
    have g1 := step_good s op (ho op (List.mem_cons_self ..))
    have g2 := ih (step h op).1 g1.st (fun o hm => ho o (List.mem_cons_of_mem _ hm))
    simp only [run, List.foldl_cons] at g2 ⊢
    exact g1.trans g2

end Clone
