/-
C16 — the full content of a `Document` dictionary (`dDocFull`: every dictionary entry of a
`sections` / `properties` list becomes an object, all of them attached), and: an input without a
problem has all of it among its valid parts (`dDoc_eq_full`).
-/
import OdmlModel.Model.Reader
import OdmlModel.Proofs.Reader
import OdmlModel.Proofs.ReaderSpec
import OdmlModel.Proofs.ReaderWF
import OdmlModel.Proofs.ReaderDictSpec
import OdmlModel.Proofs.ReaderDictDenote

set_option linter.unusedSimpArgs false
set_option linter.unusedVariables false

namespace Reader

/-- all children attached, Properties to the Property list and Sections to the Section list, in
    input order -/
def attachAllG (base : Obj ν) (children : List (Obj ν)) : Obj ν :=
  .mk base.kind base.name base.made
    (base.props ++ children.filter (goesTo base.kind false))
    (base.secs ++ children.filter (goesTo base.kind true))

theorem keepValid_fullG (eq : ν → ν → Bool) (base : Obj ν) (cs : List (Obj ν))
    (h : refusedCount eq base cs = 0) : keepValid eq base cs = attachAllG base cs := by
  unfold refusedCount at h
  have h1 : dropped eq base.props (cs.filter (goesTo base.kind false)) = 0 := by omega
  have h2 : dropped eq base.secs (cs.filter (goesTo base.kind true)) = 0 := by omega
  simp only [keepValid, attachAllG, kept_of_dropped_zero _ _ _ h1, kept_of_dropped_zero _ _ _ h2]

/-! ## Properties -/

def dPropFull (env : DEnv) : J → List (Obj J)
  | .obj kvs => [Obj.mk .prop (dObjName env .prop (dPropArgs kvs [])) true [] []]
  | _ => []

def dPropListFull (env : DEnv) : List J → List (Obj J)
  | [] => []
  | e :: rest => dPropFull env e ++ dPropListFull env rest

/-- every dictionary entry of the `properties` list, as a Property -/
def dPropsFull (env : DEnv) : J → List (Obj J)
  | .arr xs => dPropListFull env xs
  | _ => []

theorem dProp_eq_full (env : DEnv) (e : J) (h : propProblems env e = 0) :
    dProp env e = dPropFull env e := by
  cases e with
  | obj kvs =>
    simp only [propProblems] at h
    by_cases hc : env.createFails .prop (dPropArgs kvs []) = true
    · simp only [hc, if_true] at h; omega
    · simp only [dProp, dPropFull, hc, Bool.false_eq_true, if_false]
  | _ => simp [dProp, dPropFull]

theorem dPropList_eq_full (env : DEnv) (l : List J) (h : propListProblems env l = 0) :
    dPropList env l = dPropListFull env l := by
  induction l with
  | nil => rfl
  | cons e rest ih =>
    simp only [propListProblems] at h
    simp only [dPropList, dPropListFull, dProp_eq_full env e (by omega), ih (by omega)]

theorem dProps_eq_full (env : DEnv) (v : J) (h : propsProblems env v = 0) :
    dProps env v = dPropsFull env v := by
  cases v with
  | arr xs => exact dPropList_eq_full env xs h
  | _ => simp [dProps, dPropsFull]

/-! ## Sections -/

def dSecObjFull (env : DEnv) (attrs : DArgs) (props secs : List (Obj J)) : List (Obj J) :=
  [attachAllG (Obj.mk .sec (dObjName env .sec attrs) true [] []) (props ++ secs)]

theorem dSecObj_eq_full (env : DEnv) (attrs : DArgs) (props secs : List (Obj J))
    (h : secFinishProblems env attrs props secs = 0) :
    dSecObj env attrs props secs = dSecObjFull env attrs props secs := by
  unfold secFinishProblems at h
  by_cases hc : env.createFails .sec attrs = true
  · simp only [hc, if_true] at h; omega
  · simp only [hc, Bool.false_eq_true, if_false] at h
    simp only [dSecObj, dSecObjFull, hc, Bool.false_eq_true, if_false, keepValid_fullG _ _ _ h]

mutual
/-- every dictionary entry of the `sections` list, as a Section with all its entries -/
def dSectionsFull (env : DEnv) : J → List (Obj J)
  | .arr xs => dSecListFull env xs
  | _ => []
def dSecListFull (env : DEnv) : List J → List (Obj J)
  | [] => []
  | .obj kvs :: rest =>
    dSecObjFull env (dSecPartsFull env kvs ⟨[], [], []⟩).attrs (dSecPartsFull env kvs ⟨[], [], []⟩).props
      (dSecPartsFull env kvs ⟨[], [], []⟩).secs ++ dSecListFull env rest
  | _ :: rest => dSecListFull env rest
def dSecPartsFull (env : DEnv) : List (Str × J) → SecParts → SecParts
  | [], st => st
  | (k, v) :: rest, st =>
    if validKey .sec k then
      if k == "properties".toList then dSecPartsFull env rest { st with props := dPropsFull env v }
      else if k == "sections".toList then dSecPartsFull env rest { st with secs := dSectionsFull env v }
      else dSecPartsFull env rest { st with attrs := setAttr .sec k v st.attrs }
    else dSecPartsFull env rest st
end

def SecFull (env : DEnv) (v : J) : Prop :=
  (sectionsProblems env v = 0 → dSections env v = dSectionsFull env v) ∧
  (∀ kvs, v = .obj kvs → secPairsProblems env kvs = 0 →
    ∀ st, dSecParts env kvs st = dSecPartsFull env kvs st)

theorem secFull_all (env : DEnv) (v : J) : SecFull env v := by
  refine J.rec (motive_1 := fun v => SecFull env v)
    (motive_2 := fun xs => secListProblems env xs = 0 → dSecList env xs = dSecListFull env xs)
    (motive_3 := fun kvs => secPairsProblems env kvs = 0 →
      ∀ st, dSecParts env kvs st = dSecPartsFull env kvs st)
    (motive_4 := fun p => SecFull env p.2)
    ?_ ?_ ?_ ?_ ?_ ?_ ?_ ?_ ?_ ?_ ?_ ?_ v
  · exact ⟨by intro _; simp [dSections, dSectionsFull], by intro kvs h; cases h⟩
  · intro b; exact ⟨by intro _; simp [dSections, dSectionsFull], by intro kvs h; cases h⟩
  · intro i; exact ⟨by intro _; simp [dSections, dSectionsFull], by intro kvs h; cases h⟩
  · intro r; exact ⟨by intro _; simp [dSections, dSectionsFull], by intro kvs h; cases h⟩
  · intro s; exact ⟨by intro _; simp [dSections, dSectionsFull], by intro kvs h; cases h⟩
  · intro xs ih
    refine ⟨?_, by intro kvs h; cases h⟩
    intro h
    simp only [sectionsProblems] at h
    simp only [dSections, dSectionsFull]
    exact ih h
  · intro kvs ih
    refine ⟨by intro _; simp [dSections, dSectionsFull], ?_⟩
    intro kvs' h
    cases h
    exact ih
  · intro _
    simp [dSecList, dSecListFull]
  · intro x rest ihx ihr h
    cases x with
    | obj kvs =>
      simp only [secListProblems] at h
      have hk := ihx.2 kvs rfl (by omega) ⟨[], [], []⟩
      simp only [dSecList, dSecListFull]
      rw [← hk, ihr (by omega), dSecObj_eq_full env _ _ _ (by omega)]
    | null => simp only [secListProblems] at h; omega
    | bool b => simp only [secListProblems] at h; omega
    | num i => simp only [secListProblems] at h; omega
    | flt r => simp only [secListProblems] at h; omega
    | str s => simp only [secListProblems] at h; omega
    | arr ys => simp only [secListProblems] at h; omega
  · intro _ st
    simp [dSecParts, dSecPartsFull]
  · intro p rest ihp ihr h st
    obtain ⟨k, v⟩ := p
    simp only [secPairsProblems] at h
    simp only [dSecParts, dSecPartsFull]
    by_cases hk : validKey .sec k = true
    · simp only [hk, if_true] at h ⊢
      by_cases h1 : (k == "properties".toList) = true
      · simp only [h1, if_true] at h ⊢
        rw [dProps_eq_full env v (by omega)]
        exact ihr (by omega) _
      · by_cases h2 : (k == "sections".toList) = true
        · simp only [h1, h2, if_true, Bool.false_eq_true, if_false] at h ⊢
          rw [(show SecFull env v from ihp).1 (by omega)]
          exact ihr (by omega) _
        · simp only [h1, h2, Bool.false_eq_true, if_false] at h ⊢
          exact ihr (by omega) _
    · simp only [hk, Bool.false_eq_true, if_false] at h
      omega
  · intro k v ih
    exact ih

/-! ## The document -/

def dDocPartsFull (env : DEnv) : List (Str × J) → DocParts → DocParts
  | [], st => st
  | (k, v) :: rest, st =>
    if validKey .doc k then
      if k == "sections".toList then dDocPartsFull env rest { st with secs := dSectionsFull env v }
      else dDocPartsFull env rest { st with attrs := setAttr .doc k v st.attrs }
    else dDocPartsFull env rest st

/-- **The full content of a `Document` dictionary**: the Document made from its arguments with
    every dictionary entry of `sections` as a Section, and so on below. -/
def dDocFull (env : DEnv) (kvs : List (Str × J)) : Obj J :=
  attachAllG (Obj.mk .doc Name.fresh true [] []) (dDocPartsFull env kvs ⟨[], []⟩).secs

theorem dDocParts_eq_full (env : DEnv) (kvs : List (Str × J)) (h : docPairsProblems env kvs = 0)
    (st : DocParts) : dDocParts env kvs st = dDocPartsFull env kvs st := by
  induction kvs generalizing st with
  | nil => rfl
  | cons p rest ih =>
    obtain ⟨k, v⟩ := p
    simp only [docPairsProblems] at h
    simp only [dDocParts, dDocPartsFull]
    by_cases hk : validKey .doc k = true
    · simp only [hk, if_true] at h ⊢
      by_cases h1 : (k == "sections".toList) = true
      · simp only [h1, if_true] at h ⊢
        rw [(secFull_all env v).1 (by omega)]
        exact ih (by omega) _
      · simp only [h1, Bool.false_eq_true, if_false] at h ⊢
        exact ih (by omega) _
    · simp only [hk, Bool.false_eq_true, if_false] at h
      omega

theorem dDoc_eq_full (env : DEnv) (kvs : List (Str × J)) (h : docProblems env kvs = 0) :
    dDoc env kvs = dDocFull env kvs := by
  unfold docProblems at h
  have h1 : docPairsProblems env kvs = 0 := by omega
  by_cases hc : env.createFails .doc (dDocParts env kvs ⟨[], []⟩).attrs = true
  · simp only [hc, if_true] at h; omega
  · simp only [hc, Bool.false_eq_true, if_false] at h
    have h2 : refusedCount J.pyEq (dDocBase env (dDocParts env kvs ⟨[], []⟩).attrs)
        (dDocParts env kvs ⟨[], []⟩).secs = 0 := by omega
    unfold dDoc dDocFull
    rw [keepValid_fullG _ _ _ h2, dDocParts_eq_full env kvs h1]
    simp only [dDocBase, dDocParts_eq_full env kvs h1] at hc ⊢
    simp [hc]

end Reader
