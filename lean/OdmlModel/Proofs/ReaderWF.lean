/-
C16 — tree-level well-formedness of what the readers return (`TreeWF`), the full content of an input
(`fullTag`) and object counts, for the denotation of `Proofs/ReaderDenote.lean`.
-/
import OdmlModel.Model.Reader
import OdmlModel.Proofs.Reader
import OdmlModel.Proofs.ReaderSpec
import OdmlModel.Proofs.ReaderDenote

set_option linter.unusedSimpArgs false
set_option linter.unusedVariables false

namespace Reader

/-! ## Well-formed object trees -/

/-- A well-formed object tree, in the model's terms (C03 / C04 for a loaded document): at every
    object, a given name is acceptable (`ok`: not empty), sibling Properties have pairwise different
    names and so have sibling Sections, the Property list holds Properties and the Section list
    Sections, a Property has no children, a Document no Properties — and the same below. -/
inductive TreeWF (eq : ν → ν → Bool) (ok : ν → Bool) : Obj ν → Prop where
  | mk (k : Kind) (n : Name ν) (b : Bool) (ps ss : List (Obj ν))
      (hname : ∀ a, n = .given a → ok a = true)
      (hps : Uniq eq ps) (hss : Uniq eq ss)
      (hpk : ∀ p ∈ ps, p.kind = .prop) (hp : ∀ p ∈ ps, TreeWF eq ok p)
      (hsk : ∀ s ∈ ss, s.kind = .sec) (hs : ∀ s ∈ ss, TreeWF eq ok s)
      (hprop : k = .prop → ps = [] ∧ ss = [])
      (hdoc : k = .doc → ps = []) :
      TreeWF eq ok (.mk k n b ps ss)

theorem TreeWF.uniqKids {eq : ν → ν → Bool} {ok : ν → Bool} {o : Obj ν} (h : TreeWF eq ok o) :
    UniqKids eq o := by
  cases h with
  | mk k n b ps ss hname hps hss hpk hp hsk hs hprop hdoc => exact ⟨hps, hss⟩

theorem TreeWF.sec_mem {eq : ν → ν → Bool} {ok : ν → Bool} {o s : Obj ν} (h : TreeWF eq ok o)
    (hs : s ∈ o.secs) : s.kind = .sec ∧ TreeWF eq ok s := by
  cases h with
  | mk k n b ps ss hname hps hss hpk hp hsk hs' hprop hdoc => exact ⟨hsk s hs, hs' s hs⟩

theorem TreeWF.prop_mem {eq : ν → ν → Bool} {ok : ν → Bool} {o p : Obj ν} (h : TreeWF eq ok o)
    (hp : p ∈ o.props) : p.kind = .prop ∧ TreeWF eq ok p := by
  cases h with
  | mk k n b ps ss hname hps hss hpk hp' hsk hs' hprop hdoc => exact ⟨hpk p hp, hp' p hp⟩

theorem TreeWF.name_ok {eq : ν → ν → Bool} {ok : ν → Bool} {o : Obj ν} (h : TreeWF eq ok o)
    (a : ν) (ha : o.name = .given a) : ok a = true := by
  cases h with
  | mk k n b ps ss hname hps hss hpk hp' hsk hs' hprop hdoc => exact hname a ha

/-! ### `kept` -/

theorem kept_uniq (eq : ν → ν → Bool) (acc l : List (Obj ν)) (h : Uniq eq acc) :
    Uniq eq (kept eq acc l) := by
  induction l generalizing acc with
  | nil => exact h
  | cons c cs ih =>
    unfold kept
    by_cases hc : clash eq c.name acc = true
    · simp only [hc, if_true]; exact ih acc h
    · simp only [hc, Bool.false_eq_true, if_false]
      exact ih _ (Uniq.snoc h (by simpa using hc))

theorem mem_kept (eq : ν → ν → Bool) (acc l : List (Obj ν)) (x : Obj ν) (h : x ∈ kept eq acc l) :
    x ∈ acc ∨ x ∈ l := by
  induction l generalizing acc with
  | nil => exact Or.inl h
  | cons c cs ih =>
    unfold kept at h
    by_cases hc : clash eq c.name acc = true
    · simp only [hc, if_true] at h
      rcases ih acc h with h | h
      · exact Or.inl h
      · exact Or.inr (List.mem_cons_of_mem _ h)
    · simp only [hc, Bool.false_eq_true, if_false] at h
      rcases ih _ h with h | h
      · rcases List.mem_append.mp h with h | h
        · exact Or.inl h
        · simp only [List.mem_singleton] at h
          subst h
          exact Or.inr (List.mem_cons_self)
      · exact Or.inr (List.mem_cons_of_mem _ h)

/-- nothing dropped: every child of the sort is kept, in order -/
theorem kept_of_dropped_zero (eq : ν → ν → Bool) (acc l : List (Obj ν)) (h : dropped eq acc l = 0) :
    kept eq acc l = acc ++ l := by
  induction l generalizing acc with
  | nil => simp [kept]
  | cons c cs ih =>
    unfold dropped at h
    unfold kept
    by_cases hc : clash eq c.name acc = true
    · simp only [hc, if_true] at h
      omega
    · simp only [hc, Bool.false_eq_true, if_false] at h ⊢
      rw [ih _ h]
      simp

/-- every child of the sort is kept or has the name of a kept one -/
theorem kept_or_clash (eq : ν → ν → Bool) (acc l : List (Obj ν)) :
    (∀ x ∈ acc, x ∈ kept eq acc l) ∧
    (∀ c ∈ l, c ∈ kept eq acc l ∨ clash eq c.name (kept eq acc l) = true) := by
  induction l generalizing acc with
  | nil => exact ⟨fun x hx => hx, by intro c hc; cases hc⟩
  | cons c cs ih =>
    unfold kept
    by_cases hc : clash eq c.name acc = true
    · simp only [hc, if_true]
      obtain ⟨i1, i2⟩ := ih acc
      refine ⟨i1, ?_⟩
      intro x hx
      cases hx with
      | head => exact Or.inr (clash_mono i1 hc)
      | tail _ hx => exact i2 x hx
    · simp only [hc, Bool.false_eq_true, if_false]
      obtain ⟨i1, i2⟩ := ih (acc ++ [c])
      refine ⟨fun x hx => i1 x (List.mem_append_left _ hx), ?_⟩
      intro x hx
      cases hx with
      | head => exact Or.inl (i1 _ (List.mem_append_right _ (List.mem_singleton.mpr rfl)))
      | tail _ hx => exact i2 x hx

theorem goesTo_kind {pk : Kind} {c : Obj ν} :
    (goesTo pk false c = true → c.kind = .prop ∧ pk = .sec) ∧
    (goesTo pk true c = true → c.kind = .sec ∧ pk ≠ .prop) := by
  unfold goesTo
  cases pk <;> cases c.kind <;> simp [slotOf]

/-- Attaching well-formed children to a childless well-formed object gives a well-formed object. -/
theorem keepValid_wf (eq : ν → ν → Bool) (ok : ν → Bool) (k : Kind) (n : Name ν) (b : Bool)
    (cs : List (Obj ν)) (hn : ∀ a, n = .given a → ok a = true) (hcs : ∀ c ∈ cs, TreeWF eq ok c) :
    TreeWF eq ok (keepValid eq (.mk k n b [] []) cs) := by
  unfold keepValid
  simp only [Obj.kind_mk, Obj.name_mk, Obj.made_mk, Obj.props_mk, Obj.secs_mk]
  refine TreeWF.mk k n b _ _ hn (kept_uniq eq _ _ List.Pairwise.nil) (kept_uniq eq _ _ List.Pairwise.nil)
    ?_ ?_ ?_ ?_ ?_ ?_
  · intro p hp
    rcases mem_kept eq _ _ p hp with h | h
    · cases h
    · obtain ⟨hm, hf⟩ := List.mem_filter.mp h
      exact (goesTo_kind.1 hf).1
  · intro p hp
    rcases mem_kept eq _ _ p hp with h | h
    · cases h
    · obtain ⟨hm, hf⟩ := List.mem_filter.mp h
      exact hcs p hm
  · intro s hs
    rcases mem_kept eq _ _ s hs with h | h
    · cases h
    · obtain ⟨hm, hf⟩ := List.mem_filter.mp h
      exact (goesTo_kind.2 hf).1
  · intro s hs
    rcases mem_kept eq _ _ s hs with h | h
    · cases h
    · obtain ⟨hm, hf⟩ := List.mem_filter.mp h
      exact hcs s hm
  · intro hk
    subst hk
    have h1 : cs.filter (goesTo (ν := ν) Kind.prop false) = [] := by
      apply List.filter_eq_nil_iff.mpr
      intro c _ hc
      have := (goesTo_kind.1 hc).2
      cases this
    have h2 : cs.filter (goesTo (ν := ν) Kind.prop true) = [] := by
      apply List.filter_eq_nil_iff.mpr
      intro c _ hc
      exact (goesTo_kind.2 hc).2 rfl
    simp [h1, h2, kept]
  · intro hk
    subst hk
    have h1 : cs.filter (goesTo (ν := ν) Kind.doc false) = [] := by
      apply List.filter_eq_nil_iff.mpr
      intro c _ hc
      have := (goesTo_kind.1 hc).2
      cases this
    simp [h1, kept]

theorem leaf_wf (eq : ν → ν → Bool) (ok : ν → Bool) (k : Kind) (n : Name ν) (b : Bool)
    (hn : ∀ a, n = .given a → ok a = true) : TreeWF eq ok (.mk k n b [] []) :=
  TreeWF.mk k n b [] [] hn List.Pairwise.nil List.Pairwise.nil
    (by intro p hp; cases hp) (by intro p hp; cases hp) (by intro p hp; cases hp)
    (by intro p hp; cases hp) (fun _ => ⟨rfl, rfl⟩) (fun _ => rfl)

/-! ## XML reader: the denotation is well-formed -/

/-- a name is acceptable: not empty -/
def strOk (s : Str) : Bool := !s.isEmpty

/-- The ids the constructors hand out as names are not empty (canonical uuids are 36 characters). -/
def Env.NamesOk (env : Env) : Prop := ∀ k a s, env.autoName k a = .given s → strOk s = true

theorem objName_ok (env : Env) (he : env.NamesOk) (k : Kind) (a : Args) (s : Str)
    (h : objName env k a = .given s) : strOk s = true := by
  unfold objName at h
  split at h
  · cases h
  · split at h
    · split at h
      · exact he _ _ _ h
      · rename_i hne
        cases h
        simpa [strOk] using hne
    · exact he _ _ _ h

theorem created_shape (env : Env) (kind : Kind) (args : Args) :
    ∃ n b, created env kind args = .mk kind n b [] [] ∧
      (env.NamesOk → ∀ a, n = .given a → strOk a = true) := by
  unfold created
  split
  · exact ⟨_, _, rfl, by intro _ a h; cases h⟩
  · exact ⟨_, _, rfl, fun he a h => objName_ok env he kind args a h⟩

theorem denote_wf (env : Env) (he : env.NamesOk) (x : Xml) :
    ∀ (kind : Kind) (insert : Bool), TreeWF (· == ·) strOk (denoteTag env kind insert x) := by
  induction x using Xml.rec
    (motive_2 := fun ks => ∀ (kind : Kind), ∀ c ∈ denoteKids env kind ks, TreeWF (· == ·) strOk c) with
  | other k =>
    intro kind insert
    simp only [denoteTag]
    exact leaf_wf _ _ _ _ _ (by intro a h; cases h)
  | elem t a tx ks ih =>
    intro kind insert
    simp only [denoteTag, attach]
    obtain ⟨n, b, hc, hn⟩ := created_shape env kind (specArgs env kind ks [])
    rw [hc]
    cases insert with
    | true =>
      simp only [if_true]
      exact keepValid_wf _ _ _ _ _ _ (hn he) (ih kind)
    | false =>
      simp only [Bool.false_eq_true, if_false]
      exact leaf_wf _ _ _ _ _ (hn he)
  | nil =>
    rename_i kind c hc
    simp [denoteKids] at hc
  | cons x rest ihx ihr =>
    rename_i kind c hc
    cases x with
    | other k =>
      simp only [denoteKids] at hc
      exact ihr kind c hc
    | elem t0 attrs text kids =>
      simp only [denoteKids] at hc
      split at hc
      · rename_i k' _
        cases hc with
        | head => exact ihx k' _
        | tail _ hc => exact ihr kind c hc
      · exact ihr kind c hc

/-! ## The full content of an input, and when the valid parts are all of it -/

/-- all parsed children attached, in document order -/
def attachAll (insert : Bool) (base : Obj Str) (children : List (Obj Str)) : Obj Str :=
  if insert then
    .mk base.kind base.name base.made
      (base.props ++ children.filter (goesTo base.kind false))
      (base.secs ++ children.filter (goesTo base.kind true))
  else base

mutual
/-- **The full content of an element**: the object made from its argument elements with *every*
    Property child in its Property list and *every* Section child in its Section list. -/
def fullTag (env : Env) (kind : Kind) (insert : Bool) : Xml → Obj Str
  | .other _ => Obj.mk kind Name.fresh false [] []
  | .elem _ _ _ kids =>
    attachAll insert (created env kind (specArgs env kind kids [])) (fullKids env kind kids)
def fullKids (env : Env) (kind : Kind) : List Xml → List (Obj Str)
  | [] => []
  | .other _ :: rest => fullKids env kind rest
  | .elem t0 attrs text kids :: rest =>
    match kidClass kind (Py.lower t0) with
    | .object k' => fullTag env k' (k' != .prop) (.elem t0 attrs text kids) :: fullKids env kind rest
    | _ => fullKids env kind rest
end

theorem keepValid_full (base : Obj Str) (cs : List (Obj Str))
    (h : refusedCount (· == ·) base cs = 0) :
    keepValid (· == ·) base cs = attachAll true base cs := by
  unfold refusedCount at h
  have h1 : dropped (fun (a b : Str) => a == b) base.props (cs.filter (goesTo base.kind false)) = 0 := by
    omega
  have h2 : dropped (fun (a b : Str) => a == b) base.secs (cs.filter (goesTo base.kind true)) = 0 := by
    omega
  simp only [keepValid, attachAll, if_true, kept_of_dropped_zero _ _ _ h1, kept_of_dropped_zero _ _ _ h2]

theorem denote_eq_full (env : Env) (x : Xml) :
    ∀ (kind : Kind) (insert : Bool) (tag : Str), tagProblems env kind insert tag x = 0 →
      denoteTag env kind insert x = fullTag env kind insert x := by
  induction x using Xml.rec
    (motive_2 := fun ks => ∀ (kind : Kind), kidsProblems env kind ks = 0 →
      denoteKids env kind ks = fullKids env kind ks) with
  | other k =>
    intro kind insert tag _
    simp only [denoteTag, fullTag]
  | elem t a tx ks ih =>
    intro kind insert tag h
    simp only [tagProblems] at h
    have hk : kidsProblems env kind ks = 0 := by omega
    simp only [denoteTag, fullTag, attach, ← ih kind hk]
    cases insert with
    | true =>
      simp only [if_true] at h ⊢
      exact keepValid_full _ _ (by omega)
    | false =>
      simp [attachAll]
  | nil =>
    rename_i kind h
    simp [denoteKids, fullKids]
  | cons x rest ihx ihr =>
    rename_i kind h
    cases x with
    | other k =>
      simp only [kidsProblems] at h
      simp only [denoteKids, fullKids]
      exact ihr kind h
    | elem t0 attrs text kids =>
      cases hc : kidClass kind (Py.lower t0) with
      | object k' =>
        simp only [kidsProblems, hc] at h
        simp only [denoteKids, fullKids, hc]
        rw [ihx k' _ (Py.lower t0) (by omega), ihr kind (by omega)]
      | arg =>
        simp only [kidsProblems, hc] at h
        simp only [denoteKids, fullKids, hc]
        exact ihr kind (by omega)
      | unknown =>
        simp only [kidsProblems, hc] at h
        omega

end Reader
