/-
Helper lemmas about M-Batch (`Model/Batch.lean`): the generic loop facts (frame, totality,
isolation by induction over the file list) and the two command line tools' loop bodies.
-/
import OdmlModel.Model.Batch
import OdmlModel.Proofs.FS

namespace Batch
open FS

/-- A step writes only to the paths `outs f`. -/
structure Confined (step : Step) (outs : Path → List Path) : Prop where
  frame : ∀ f fs p, p ∉ outs f → (step f fs).1 p = fs p

/-- … never raises, and what it leaves at `outs f` depends only on the input file and on what
    was at `outs f` before. -/
structure Isolated (step : Step) (outs : Path → List Path) : Prop extends Confined step outs where
  total : ∀ f fs, ∃ r, (step f fs).2 = .ok r
  dep : ∀ f fs fs', fs f = fs' f → (∀ p ∈ outs f, fs p = fs' p) →
          ∀ p ∈ outs f, (step f fs).1 p = (step f fs').1 p

theorem loop_cons (step : Step) (f : Path) (rest : List Path) (fs : Fs) :
    loop step (f :: rest) fs =
      match step f fs with
      | (fs1, .error e) => (fs1, .error e)
      | (fs1, .ok r) =>
        match loop step rest fs1 with
        | (fs2, .ok rs) => (fs2, .ok (r :: rs))
        | (fs2, .error e) => (fs2, .error e) := rfl

theorem loop_cons_ok (step : Step) (f : Path) (rest : List Path) (fs : Fs) (r : Report)
    (h : (step f fs).2 = .ok r) :
    (loop step (f :: rest) fs).1 = (loop step rest (step f fs).1).1 ∧
    ((loop step (f :: rest) fs).2 = match (loop step rest (step f fs).1).2 with
                                     | .ok rs => .ok (r :: rs)
                                     | .error e => .error e) := by
  rw [loop_cons]
  generalize step f fs = x at h ⊢
  obtain ⟨fs1, o⟩ := x
  simp only at h
  subst h
  simp only
  generalize loop step rest fs1 = y
  obtain ⟨fs2, o2⟩ := y
  cases o2 <;> exact ⟨rfl, rfl⟩

theorem loop_cons_err (step : Step) (f : Path) (rest : List Path) (fs : Fs) (e : Exc)
    (h : (step f fs).2 = .error e) :
    loop step (f :: rest) fs = ((step f fs).1, .error e) := by
  rw [loop_cons]
  generalize step f fs = x at h ⊢
  obtain ⟨fs1, o⟩ := x
  simp only at h
  subst h
  rfl

/-- The loop changes nothing outside the union of its steps' output paths — whether or not it is
    cut short by an exception. -/
theorem loop_frame {step : Step} {outs : Path → List Path} (h : Confined step outs)
    (files : List Path) (fs : Fs) (p : Path) (hp : ∀ g ∈ files, p ∉ outs g) :
    (loop step files fs).1 p = fs p := by
  induction files generalizing fs with
  | nil => rfl
  | cons f rest ih =>
    have hf := h.frame f fs p (hp f List.mem_cons_self)
    cases hs : (step f fs).2 with
    | error e => rw [loop_cons_err step f rest fs e hs]; exact hf
    | ok r =>
      rw [(loop_cons_ok step f rest fs r hs).1, ih _ (fun g hg => hp g (List.mem_cons_of_mem _ hg))]
      exact hf

/-- A loop over never-raising steps never raises and reports once per file. -/
theorem loop_total {step : Step} {outs : Path → List Path} (h : Isolated step outs)
    (files : List Path) (fs : Fs) :
    ∃ rs, (loop step files fs).2 = .ok rs ∧ rs.length = files.length := by
  induction files generalizing fs with
  | nil => exact ⟨[], rfl, rfl⟩
  | cons f rest ih =>
    obtain ⟨r, hr⟩ := h.total f fs
    obtain ⟨rs, hrs, hl⟩ := ih (step f fs).1
    refine ⟨r :: rs, ?_, by simp [hl]⟩
    rw [(loop_cons_ok step f rest fs r hr).2, hrs]

/-- **Isolation**: in a loop over any list of files, at any position, what file `f` leaves at its
    output paths is exactly what processing `f` alone would leave there. -/
theorem loop_isolation {step : Step} {outs : Path → List Path} (h : Isolated step outs)
    (files : List Path) (nd : files.Nodup) (f : Path) (hf : f ∈ files)
    (hin : ∀ g ∈ files, g ≠ f → f ∉ outs g)
    (hdis : ∀ g ∈ files, g ≠ f → ∀ p ∈ outs f, p ∉ outs g)
    (fs : Fs) : ∀ p ∈ outs f, (loop step files fs).1 p = (step f fs).1 p := by
  induction files generalizing fs with
  | nil => cases hf
  | cons g rest ih =>
    intro p hp
    obtain ⟨r, hr⟩ := h.total g fs
    rw [(loop_cons_ok step g rest fs r hr).1]
    have ndr : rest.Nodup := (List.nodup_cons.mp nd).2
    by_cases hgf : g = f
    · subst hgf
      have hnot : g ∉ rest := (List.nodup_cons.mp nd).1
      apply loop_frame h.toConfined rest _ p
      intro g' hg'
      exact hdis g' (List.mem_cons_of_mem _ hg') (fun e => hnot (e ▸ hg')) p hp
    · have hfr : f ∈ rest := by
        cases hf with
        | head => exact absurd rfl hgf
        | tail _ h' => exact h'
      rw [ih ndr hfr (fun g' hg' => hin g' (List.mem_cons_of_mem _ hg'))
            (fun g' hg' => hdis g' (List.mem_cons_of_mem _ hg')) (step g fs).1 p hp]
      apply h.dep f _ _ _ _ p hp
      · exact h.frame g fs f (hin g List.mem_cons_self hgf)
      · intro q hq
        exact h.frame g fs q (hdis g List.mem_cons_self hgf q hq)

/-! ### The two loop bodies -/

theorem writeToFile_cases (T : Tool) (src dst : Path) (fs : Fs) :
    (∃ e, T.convert src (fs src) = .error e ∧ writeToFile T src dst fs = (fs, .error e)) ∨
    (T.convert src (fs src) = .ok none ∧ writeToFile T src dst fs = (fs, .ok false)) ∨
    (∃ d, T.convert src (fs src) = .ok (some d) ∧
          writeToFile T src dst fs = (fs.write (ensureXmlExt dst) d, .ok true)) := by
  unfold writeToFile
  cases h : T.convert src (fs src) with
  | error e => left; exact ⟨e, rfl, rfl⟩
  | ok o =>
    cases o with
    | none => right; left; exact ⟨rfl, rfl⟩
    | some d => right; right; exact ⟨d, rfl, rfl⟩

theorem ensureXmlExt_conv (outDir f : Path) : ensureXmlExt (convOut outDir f) = convOut outDir f := by
  have : endsWith (convOut outDir f) ".xml".toList = true := by
    unfold endsWith convOut
    rw [List.isSuffixOf_iff_suffix]
    refine ⟨outDir ++ '/' :: (stem f ++ "_conv".toList), ?_⟩
    simp [List.append_assoc]
  unfold ensureXmlExt
  rw [this]
  simp

theorem convStep_isolated (T : Tool) (outDir : Path) :
    Isolated (convStep T outDir) (convOuts outDir) := by
  refine { frame := ?_, total := ?_, dep := ?_ }
  · intro f fs p hp
    simp only [convOuts, List.mem_singleton] at hp
    unfold convStep
    split
    · rfl
    · rcases writeToFile_cases T f (convOut outDir f) fs with ⟨e, _, h⟩ | ⟨_, h⟩ | ⟨d, _, h⟩
      · rw [h]
      · rw [h]
      · rw [h, ensureXmlExt_conv]; exact write_other fs _ p d hp
  · intro f fs
    unfold convStep
    split
    · exact ⟨_, rfl⟩
    · rcases writeToFile_cases T f (convOut outDir f) fs with ⟨e, _, h⟩ | ⟨_, h⟩ | ⟨d, _, h⟩ <;>
        rw [h] <;> exact ⟨_, rfl⟩
  · intro f fs fs' hf hout p hp
    simp only [convOuts, List.mem_singleton] at hp hout
    subst hp
    unfold convStep
    rw [← hf]
    split
    · exact hout _ rfl
    · unfold writeToFile
      rw [← hf]
      cases T.convert f (fs f) with
      | error e => exact hout _ rfl
      | ok o =>
        cases o with
        | none => exact hout _ rfl
        | some d => simp [ensureXmlExt_conv]

end Batch

namespace Batch
open FS

/-! ### odmltordf: the loop body as a list of writes decided by what it reads -/

def applyWrites : List (Path × Bytes) → Fs → Fs
  | [], fs => fs
  | (p, b) :: ws, fs => applyWrites ws (fs.write p b)

theorem applyWrites_other (ws : List (Path × Bytes)) (fs : Fs) (p : Path)
    (h : ∀ w ∈ ws, p ≠ w.1) : applyWrites ws fs p = fs p := by
  induction ws generalizing fs with
  | nil => rfl
  | cons w ws ih =>
    obtain ⟨q, b⟩ := w
    simp only [applyWrites]
    rw [ih _ (fun w hw => h w (List.mem_cons_of_mem _ hw))]
    exact write_other fs q p b (h (q, b) List.mem_cons_self)

theorem applyWrites_congr (ws : List (Path × Bytes)) (fs fs' : Fs) (p : Path)
    (h : fs p = fs' p) : applyWrites ws fs p = applyWrites ws fs' p := by
  induction ws generalizing fs fs' with
  | nil => exact h
  | cons w ws ih =>
    obtain ⟨q, b⟩ := w
    simp only [applyWrites]
    apply ih
    by_cases hp : p = q
    · subst hp; simp
    · simp [write_other _ _ _ _ hp, h]

/-- What the `except` arm writes, as a function of the bytes of the input file (`cf`) and of
    what is at the converted file's path (`cc`). -/
def viaWrites (T : Tool) (outDir rdfDir f : Path) (cf cc : Option Bytes) :
    List (Path × Bytes) × Report :=
  match T.convert f cf with
  | .error _ => ([], .convError)
  | .ok none =>
    match T.render (convOut outDir f) cc with
    | .error _ => ([], .rdfError)
    | .ok d2 => ([(rdfOut rdfDir f, d2)], .convertedExported)
  | .ok (some d) =>
    match T.render (convOut outDir f) (some d) with
    | .error _ => ([(convOut outDir f, d)], .rdfError)
    | .ok d2 => ([(convOut outDir f, d), (rdfOut rdfDir f, d2)], .convertedExported)

def rdfWrites (T : Tool) (outDir rdfDir f : Path) (cf cc : Option Bytes) :
    List (Path × Bytes) × Report :=
  if T.loads f cf then
    match T.render f cf with
    | .ok d => ([(rdfOut rdfDir f, d)], .exported)
    | .error _ => viaWrites T outDir rdfDir f cf cc
  else viaWrites T outDir rdfDir f cf cc

theorem via_spec (T : Tool) (outDir rdfDir f : Path) (fs : Fs) :
    rdfViaConversion T outDir rdfDir f fs =
      (applyWrites (viaWrites T outDir rdfDir f (fs f) (fs (convOut outDir f))).1 fs,
       .ok (viaWrites T outDir rdfDir f (fs f) (fs (convOut outDir f))).2) := by
  unfold rdfViaConversion viaWrites writeToFile rdfExport
  cases T.convert f (fs f) with
  | error e => rfl
  | ok o =>
    cases o with
    | none =>
      simp only []
      cases T.render (convOut outDir f) (fs (convOut outDir f)) with
      | error e => rfl
      | ok d2 => rfl
    | some d =>
      simp only [ensureXmlExt_conv, write_same]
      cases T.render (convOut outDir f) (some d) with
      | error e => rfl
      | ok d2 => rfl

theorem rdf_spec (T : Tool) (outDir rdfDir f : Path) (fs : Fs) :
    rdfStep T outDir rdfDir f fs =
      (applyWrites (rdfWrites T outDir rdfDir f (fs f) (fs (convOut outDir f))).1 fs,
       .ok (rdfWrites T outDir rdfDir f (fs f) (fs (convOut outDir f))).2) := by
  unfold rdfStep rdfWrites
  by_cases hl : T.loads f (fs f) = true
  · simp only [hl, if_true]
    unfold rdfExport
    cases T.render f (fs f) with
    | error e => exact via_spec T outDir rdfDir f fs
    | ok d => rfl
  · simp only [hl]
    exact via_spec T outDir rdfDir f fs

theorem rdfWrites_paths (T : Tool) (outDir rdfDir f : Path) (cf cc : Option Bytes) :
    ∀ w ∈ (rdfWrites T outDir rdfDir f cf cc).1, w.1 ∈ rdfOuts outDir rdfDir f := by
  have hv : ∀ w ∈ (viaWrites T outDir rdfDir f cf cc).1, w.1 ∈ rdfOuts outDir rdfDir f := by
    unfold viaWrites rdfOuts
    cases T.convert f cf with
    | error e => simp
    | ok o =>
      cases o with
      | none =>
        simp only []
        cases T.render (convOut outDir f) cc <;> simp
      | some d =>
        simp only []
        cases T.render (convOut outDir f) (some d) <;> simp
  unfold rdfWrites
  split
  · cases T.render f cf with
    | error e => exact hv
    | ok d => simp [rdfOuts]
  · exact hv

theorem rdfStep_isolated (T : Tool) (outDir rdfDir : Path) :
    Isolated (rdfStep T outDir rdfDir) (rdfOuts outDir rdfDir) := by
  refine { frame := ?_, total := ?_, dep := ?_ }
  · intro f fs p hp
    rw [rdf_spec]
    apply applyWrites_other
    intro w hw heq
    exact hp (heq ▸ rdfWrites_paths T outDir rdfDir f _ _ w hw)
  · intro f fs
    rw [rdf_spec]
    exact ⟨_, rfl⟩
  · intro f fs fs' hf hout p hp
    rw [rdf_spec, rdf_spec]
    have hc : fs (convOut outDir f) = fs' (convOut outDir f) := hout _ (by simp [rdfOuts])
    rw [← hf, ← hc]
    exact applyWrites_congr _ fs fs' p (hout p hp)

end Batch

namespace Batch
open FS

/-! ### Path lemmas used by the convert_dir and isolation theorems -/

theorem dropWhile_stop (pred : Char → Bool) (l r : List Char) (c : Char)
    (hl : ∀ x ∈ l, pred x = true) (hc : pred c = false) :
    (l ++ c :: r).dropWhile pred = c :: r := by
  induction l with
  | nil => simp [hc]
  | cons x xs ih =>
    simp only [List.cons_append, List.dropWhile_cons, hl x List.mem_cons_self, if_true]
    exact ih (fun y hy => hl y (List.mem_cons_of_mem _ hy))

/-- `dirname(X + name) == X` when `X` ends with the separator and `name` has none. -/
theorem dirPart_append (X name : Path) (hX : X.getLast? = some '/') (hn : '/' ∉ name) :
    dirPart (X ++ name) = X := by
  obtain ⟨ys, rfl⟩ := List.getLast?_eq_some_iff.mp hX
  unfold dirPart
  rw [List.reverse_append, List.reverse_append, List.reverse_singleton, List.singleton_append]
  rw [dropWhile_stop]
  · simp
  · intro x hx
    have : x ≠ '/' := fun h => hn (h ▸ List.mem_reverse.mp hx)
    simp [this]
  · simp

theorem convOut_inj (outDir f g : Path) (h : convOut outDir f = convOut outDir g) :
    stem f = stem g := by
  unfold convOut at h
  have h1 := List.append_cancel_left h
  simp only [List.cons.injEq, true_and] at h1
  exact List.append_cancel_right h1

end Batch

namespace Batch
open FS

/-! ### Base names, stems and the output names of the two command line tools -/

theorem takeWhile_stop (pred : Char → Bool) (l r : List Char) (c : Char)
    (hl : ∀ x ∈ l, pred x = true) (hc : pred c = false) :
    (l ++ c :: r).takeWhile pred = l := by
  induction l with
  | nil => simp [hc]
  | cons x xs ih =>
    simp only [List.cons_append, List.takeWhile_cons, hl x List.mem_cons_self, if_true]
    rw [ih (fun y hy => hl y (List.mem_cons_of_mem _ hy))]

theorem mem_takeWhile_pred (pred : Char → Bool) (l : List Char) (x : Char)
    (h : x ∈ l.takeWhile pred) : pred x = true := by
  induction l with
  | nil => simp at h
  | cons y ys ih =>
    simp only [List.takeWhile_cons] at h
    split at h
    · rcases List.mem_cons.mp h with rfl | h'
      · assumption
      · exact ih h'
    · simp at h

theorem basename_no_slash (p : Path) : '/' ∉ basename p := by
  unfold basename
  intro h
  have h1 := List.mem_reverse.mp h
  have h2 := mem_takeWhile_pred _ _ _ h1
  simp at h2

theorem splitext_root_subset (n : List Char) : ∀ c ∈ (splitext n).1, c ∈ n := by
  intro c hc
  unfold splitext at hc
  simp only at hc
  split at hc
  · exact hc
  · split at hc
    · exact hc
    · simp only [List.mem_reverse] at hc
      exact List.mem_reverse.mp (List.mem_of_mem_drop hc)

theorem stem_no_slash (f : Path) : '/' ∉ stem f := fun h =>
  basename_no_slash f (splitext_root_subset _ _ h)

/-- `basename(X + name) == name` when `X` ends with the separator and `name` has none. -/
theorem basename_append (X name : Path) (hX : X.getLast? = some '/') (hn : '/' ∉ name) :
    basename (X ++ name) = name := by
  obtain ⟨ys, rfl⟩ := List.getLast?_eq_some_iff.mp hX
  unfold basename
  rw [List.reverse_append, List.reverse_append, List.reverse_singleton, List.singleton_append]
  rw [takeWhile_stop]
  · simp
  · intro x hx
    have : x ≠ '/' := fun h => hn (h ▸ List.mem_reverse.mp hx)
    simp [this]
  · simp

/-- `splitext(s + "_conv.xml") == (s + "_conv", ".xml")` for every `s`. -/
theorem splitext_conv (s : List Char) :
    splitext (s ++ "_conv.xml".toList) = (s ++ "_conv".toList, ".xml".toList) := by
  have hrev : (s ++ "_conv.xml".toList).reverse =
      ['l', 'm', 'x'] ++ '.' :: (['v', 'n', 'o', 'c', '_'] ++ s.reverse) := by
    simp [List.reverse_append]
  have htw : ((s ++ "_conv.xml".toList).reverse).takeWhile (· != '.') = ['l', 'm', 'x'] := by
    rw [hrev]
    exact takeWhile_stop _ _ _ _ (by decide) (by decide)
  unfold splitext
  simp only [htw]
  have hlen : (([ 'l', 'm', 'x'] : List Char).length == (s ++ "_conv.xml".toList).length) = false := by
    simp
  simp only [hlen, Bool.false_eq_true, if_false]
  have hroot : (((s ++ "_conv.xml".toList).reverse).drop (([ 'l', 'm', 'x'] : List Char).length + 1)).reverse
      = s ++ "_conv".toList := by
    rw [hrev]
    simp
  rw [hroot]
  have hall : (s ++ "_conv".toList).all (· == '.') = false := by
    simp [List.all_append]
  simp

theorem stem_convOut (outDir g : Path) :
    stem (convOut outDir g) = stem g ++ "_conv".toList := by
  have hslash : '/' ∉ stem g ++ "_conv.xml".toList := by
    intro h
    rcases List.mem_append.mp h with h | h
    · exact stem_no_slash g h
    · revert h; decide
  have : convOut outDir g = (outDir ++ ['/']) ++ (stem g ++ "_conv.xml".toList) := by
    simp [convOut]
  show (splitext (basename (convOut outDir g))).1 = stem g ++ "_conv".toList
  rw [this, basename_append _ _ (by simp) hslash, splitext_conv]

theorem convOut_ne_rdfOut (outDir r f x : Path) :
    convOut outDir f ≠ rdfOut (outDir ++ '/' :: r) x := by
  intro h
  unfold convOut rdfOut at h
  rw [List.append_assoc] at h
  have h1 := List.append_cancel_left h
  simp only [List.cons_append, List.cons.injEq, true_and] at h1
  have : '/' ∈ stem f ++ "_conv.xml".toList := by
    rw [h1]; simp
  rcases List.mem_append.mp this with h2 | h2
  · exact stem_no_slash f h2
  · revert h2; decide

theorem rdfOut_inj (d a b : Path) (h : rdfOut d a = rdfOut d b) : stem a = stem b := by
  unfold rdfOut at h
  have h1 := List.append_cancel_left h
  simp only [List.cons.injEq, true_and] at h1
  exact List.append_cancel_right h1

/-- With the RDF directory inside the out directory: distinct base names give disjoint output
    paths (the RDF file of a converted file is named after the original file). -/
theorem rdfOuts_disjoint (outDir r f g : Path) (h1 : stem f ≠ stem g) :
    ∀ p ∈ rdfOuts outDir (outDir ++ '/' :: r) f, p ∉ rdfOuts outDir (outDir ++ '/' :: r) g := by
  intro p hp hq
  simp only [rdfOuts, List.mem_cons, List.mem_nil_iff, or_false] at hp hq
  rcases hp with rfl | rfl <;> rcases hq with hq | hq
  · exact h1 (convOut_inj outDir f g hq)
  · exact convOut_ne_rdfOut outDir r f g hq
  · exact convOut_ne_rdfOut outDir r g f hq.symm
  · exact h1 (rdfOut_inj _ f g hq)

end Batch

namespace Batch
open FS

/-! ### The output directory `convert_dir` makes up -/

theorem not_all_slash (l : List Char) (c : Char) (hc : c ∈ l) (hne : c ≠ '/') :
    l.all (· == '/') = false := by
  apply Bool.eq_false_iff.mpr
  intro h
  have := List.all_eq_true.mp h c hc
  simp at this
  exact hne this

theorem getLast?_snoc (l : List Char) (c : Char) : (l ++ [c]).getLast? = some c := by simp

theorem snoc_of_ne_nil (l : List Char) (h : l ≠ []) : ∃ ys c, l = ys ++ [c] := by
  cases hl : l.getLast? with
  | none => exact absurd (List.getLast?_eq_none_iff.mp hl) h
  | some c => exact ⟨_, c, (List.getLast?_eq_some_iff.mp hl).choose_spec⟩

theorem rstripSlash_snoc (ys : List Char) (c : Char) (hc : c ≠ '/') :
    rstripSlash ((ys ++ [c]) ++ ['/']) = ys ++ [c] := by
  unfold rstripSlash
  simp [List.reverse_append, hc]

/-- `os.path.join(a, b)` when `b` is relative and `a` is non-empty without trailing separator. -/
theorem pyJoin_plain (ys : List Char) (c : Char) (hc : c ≠ '/') (b : Path)
    (hb : (b.head? == some '/') = false) : pyJoin (ys ++ [c]) b = (ys ++ [c]) ++ '/' :: b := by
  have h2 : ((ys ++ [c]).isEmpty || (ys ++ [c]).getLast? == some '/') = false := by
    rw [getLast?_snoc]; simp [hc]
  simp only [pyJoin, hb, h2, Bool.false_eq_true, if_false]

/-- `os.path.join(a, "")` when `a` ends with the separator. -/
theorem pyJoin_empty_slash (ys : List Char) : pyJoin (ys ++ ['/']) [] = ys ++ ['/'] := by
  have h2 : ((ys ++ ['/']).isEmpty || (ys ++ ['/']).getLast? == some '/') = true := by
    rw [getLast?_snoc]; simp
  have h1 : (([] : Path).head? == some '/') = false := by simp
  simp only [pyJoin, h1, h2, Bool.false_eq_true, if_false, if_true, List.append_nil]

/-- For an input directory `<root>/<name>` (with or without a trailing separator) the made-up
    output directory is `<root>/<name>_<format>`. -/
theorem implicitOutDir_closed (root name fmt : List Char) (hr1 : root ≠ [])
    (hr2 : root.getLast? ≠ some '/') (hn1 : name ≠ []) (hn2 : '/' ∉ name) (trailing : Bool) :
    implicitOutDir (root ++ '/' :: name ++ (if trailing then ['/'] else [])) fmt =
      root ++ '/' :: (name ++ '_' :: fmt) := by
  obtain ⟨ns, cl, hname⟩ := snoc_of_ne_nil name hn1
  obtain ⟨rs, cr, hroot⟩ := snoc_of_ne_nil root hr1
  have hcl : cl ≠ '/' := fun h => hn2 (by rw [hname, h]; simp)
  have hcr : cr ≠ '/' := fun h => hr2 (by rw [hroot, h]; simp)
  -- D1 = <root>/<name> written as W ++ [cl]
  have hW : root ++ '/' :: name = (root ++ '/' :: ns) ++ [cl] := by rw [hname]; simp
  -- input_dir = os.path.join(input_dir, '')
  have hin : pyJoin (root ++ '/' :: name ++ (if trailing then ['/'] else [])) [] =
      (root ++ '/' :: name) ++ ['/'] := by
    cases trailing with
    | true => exact pyJoin_empty_slash _
    | false =>
      simp only [Bool.false_eq_true, if_false, List.append_nil]
      rw [hW]
      exact pyJoin_plain _ cl hcl [] (by simp)
  have hD1 : dirname ((root ++ '/' :: name) ++ ['/']) = root ++ '/' :: name := by
    unfold dirname
    have hdp : dirPart ((root ++ '/' :: name) ++ ['/']) = (root ++ '/' :: name) ++ ['/'] := by
      have := dirPart_append ((root ++ '/' :: name) ++ ['/']) [] (getLast?_snoc _ _) (by simp)
      simpa using this
    rw [hdp]
    have hall : ((root ++ '/' :: name) ++ ['/']).all (· == '/') = false :=
      not_all_slash _ cl (by rw [hname]; simp) hcl
    have hemp : ((root ++ '/' :: name) ++ ['/']).isEmpty = false := by simp
    simp only [hall, hemp, Bool.not_false, Bool.and_self, if_true]
    rw [hW]
    exact rstripSlash_snoc _ cl hcl
  have hbase : basename (root ++ '/' :: name) = name := by
    have := basename_append (root ++ ['/']) name (getLast?_snoc _ _) hn2
    simpa [List.append_assoc] using this
  have hD2 : dirname (root ++ '/' :: name) = root := by
    unfold dirname
    have hdp : dirPart (root ++ '/' :: name) = root ++ ['/'] := by
      have := dirPart_append (root ++ ['/']) name (getLast?_snoc _ _) hn2
      simpa [List.append_assoc] using this
    rw [hdp]
    have hall : (root ++ ['/']).all (· == '/') = false :=
      not_all_slash _ cr (by rw [hroot]; simp) hcr
    have hemp : (root ++ ['/']).isEmpty = false := by simp
    simp only [hall, hemp, Bool.not_false, Bool.and_self, if_true]
    rw [hroot]
    exact rstripSlash_snoc rs cr hcr
  unfold implicitOutDir
  simp only [hin, hD1, hbase, hD2]
  have hh : ((name ++ '_' :: fmt).head? == some '/') = false := by
    cases name with
    | nil => exact absurd rfl hn1
    | cons c cs =>
      have : c ≠ '/' := fun h => hn2 (h ▸ List.mem_cons_self)
      simp [this]
  rw [hroot]
  exact pyJoin_plain rs cr hcr _ hh

/-- `<root>/<name>_<format>/…` is never a prefix of a path below `<root>/<name>/`. -/
theorem implicit_out_not_prefix (root name fmt rest : List Char) :
    ¬ ((root ++ '/' :: (name ++ '_' :: fmt)) ++ ['/']) <+: ((root ++ '/' :: name) ++ '/' :: rest) := by
  intro h
  have e : (root ++ '/' :: (name ++ '_' :: fmt)) ++ ['/'] =
      (root ++ '/' :: name) ++ ('_' :: (fmt ++ ['/'])) := by simp [List.append_assoc]
  rw [e, List.prefix_append_right_inj] at h
  obtain ⟨t, ht⟩ := h
  simp at ht

/-! ### convert_dir run again: what one entry writes depends on the bytes of its source only -/

/-- The path `convert_dir` reads for a walked entry, and the path it writes. -/
def cdIn (e : Path × List Char) : Path := pyJoin e.1 e.2
def cdOut (fmt : ResFormat) (mapd : Path → Path) (e : Path × List Char) : Path :=
  outName fmt (pyJoin (mapd e.1) e.2)

/-- What `_convert_file` writes for a source holding `c` (`none`: it raises, or — `v1_1` — the
    converted text has no `<odML ` root and nothing is written). A function of the source path and
    the bytes found there, of nothing else: not of the output location, not of any earlier run. -/
def cdData (T : Tool) (fmt : ResFormat) (inFile : Path) (c : Option Bytes) : Option Bytes :=
  match fmt with
  | .v1_1 => match T.convert inFile c with | .ok (some d) => some d | _ => none
  | _ => match T.render inFile c with | .ok d => some d | _ => none

theorem convertDirStep_fs (T : Tool) (fmt : ResFormat) (mapd : Path → Path) (e : Path × List Char)
    (fs : Fs) :
    (convertDirStep T fmt mapd e fs).1 =
      match cdData T fmt (cdIn e) (fs (cdIn e)) with
      | some d => fs.write (cdOut fmt mapd e) d
      | none => fs := by
  unfold convertDirStep cdData cdIn cdOut
  cases fmt with
  | v1_1 =>
    simp only []
    cases T.convert (pyJoin e.1 e.2) (fs (pyJoin e.1 e.2)) with
    | error x => rfl
    | ok o => cases o <;> rfl
  | odml =>
    simp only []
    cases T.render (pyJoin e.1 e.2) (fs (pyJoin e.1 e.2)) <;> rfl
  | rdf ext =>
    simp only []
    cases T.render (pyJoin e.1 e.2) (fs (pyJoin e.1 e.2)) <;> rfl

/-- A step changes the file system at the entry's output path only. -/
theorem convertDirStep_other (T : Tool) (fmt : ResFormat) (mapd : Path → Path) (e : Path × List Char)
    (fs : Fs) (p : Path) (hp : p ≠ cdOut fmt mapd e) : (convertDirStep T fmt mapd e fs).1 p = fs p := by
  rw [convertDirStep_fs]
  cases cdData T fmt (cdIn e) (fs (cdIn e)) with
  | none => rfl
  | some d => exact write_other fs _ p d hp

/-- … and when the step writes (`cdData = some d`), the output path holds `d` whatever it held. -/
theorem convertDirStep_out (T : Tool) (fmt : ResFormat) (mapd : Path → Path) (e : Path × List Char)
    (fs : Fs) (d : Bytes) (hd : cdData T fmt (cdIn e) (fs (cdIn e)) = some d) :
    (convertDirStep T fmt mapd e fs).1 (cdOut fmt mapd e) = some d := by
  rw [convertDirStep_fs, hd]
  exact write_same fs _ d

/-- The loop changes nothing outside the output paths of its entries. -/
theorem convertDirLoop_other (T : Tool) (fmt : ResFormat) (mapd : Path → Path)
    (entries : List (Path × List Char)) (fs : Fs) (p : Path)
    (hp : ∀ e ∈ entries, p ≠ cdOut fmt mapd e) : (convertDirLoop T fmt mapd entries fs).1 p = fs p := by
  induction entries generalizing fs with
  | nil => rfl
  | cons e rest ih =>
    have hstep := convertDirStep_other T fmt mapd e fs p (hp e List.mem_cons_self)
    unfold convertDirLoop
    generalize convertDirStep T fmt mapd e fs = x at hstep
    obtain ⟨fs1, o⟩ := x
    cases o with
    | error x => exact hstep
    | ok r =>
      simp only []
      rw [ih fs1 (fun e' he' => hp e' (List.mem_cons_of_mem _ he'))]
      exact hstep

/-- A completed run: the first step returned and the rest of the run completed. -/
theorem convertDirLoop_cons_ok (T : Tool) (fmt : ResFormat) (mapd : Path → Path)
    (e : Path × List Char) (rest : List (Path × List Char)) (fs : Fs)
    (h : (convertDirLoop T fmt mapd (e :: rest) fs).2 = .ok ()) :
    (convertDirLoop T fmt mapd (e :: rest) fs).1 =
        (convertDirLoop T fmt mapd rest (convertDirStep T fmt mapd e fs).1).1 ∧
      (convertDirLoop T fmt mapd rest (convertDirStep T fmt mapd e fs).1).2 = .ok () := by
  have hc : convertDirLoop T fmt mapd (e :: rest) fs =
      match convertDirStep T fmt mapd e fs with
      | (fs1, .error x) => (fs1, .error x)
      | (fs1, .ok _) => convertDirLoop T fmt mapd rest fs1 := rfl
  rw [hc] at h ⊢
  generalize convertDirStep T fmt mapd e fs = x at h ⊢
  obtain ⟨fs1, o⟩ := x
  cases o with
  | error x => simp at h
  | ok r => exact ⟨rfl, h⟩

/-! ### File discovery (`globExt`, `discover`) -/

/-- A name cannot end in two of the endings `main` looks for: one would be a suffix of the other. -/
theorem ext_clash (n a b : List Char) (ha : endsWith n a = true) (hb : endsWith n b = true) :
    a <:+ b ∨ b <:+ a := by
  simp only [endsWith, List.isSuffixOf_iff_suffix] at ha hb
  rcases Nat.le_total a.length b.length with h | h
  · exact Or.inl (List.suffix_of_suffix_length_le ha hb h)
  · exact Or.inr (List.suffix_of_suffix_length_le hb ha h)

theorem inj_of_nodup_map {α β : Type} (f : α → β) :
    ∀ (l : List α), (l.map f).Nodup → ∀ x ∈ l, ∀ y ∈ l, f x = f y → x = y
  | [], _, x, hx, _, _, _ => by cases hx
  | a :: l, nd, x, hx, y, hy, h => by
    simp only [List.map_cons, List.nodup_cons, List.mem_map, not_exists, not_and] at nd
    rcases List.mem_cons.1 hx with rfl | hx' <;> rcases List.mem_cons.1 hy with rfl | hy'
    · rfl
    · exact absurd h.symm (nd.1 y hy')
    · exact absurd h (nd.1 x hx')
    · exact inj_of_nodup_map f l nd.2 x hx' y hy' h

theorem globExt_nodup (root : Path) (recursive : Bool) (tree : List (Path × List Char))
    (nd : (tree.map fun e => pyJoin e.1 e.2).Nodup) (ext : List Char) :
    (globExt root recursive tree ext).Nodup := by
  unfold globExt
  exact List.Nodup.sublist (List.Sublist.map _ List.filter_sublist) nd

theorem globExt_disjoint (root : Path) (recursive : Bool) (tree : List (Path × List Char))
    (nd : (tree.map fun e => pyJoin e.1 e.2).Nodup) (a b : List Char)
    (hab : ¬ a <:+ b) (hba : ¬ b <:+ a) (p : Path)
    (hpa : p ∈ globExt root recursive tree a) (hpb : p ∈ globExt root recursive tree b) : False := by
  simp only [globExt, List.mem_map, List.mem_filter, Bool.and_eq_true] at hpa hpb
  obtain ⟨e1, ⟨he1, hc1, _⟩, rfl⟩ := hpa
  obtain ⟨e2, ⟨he2, hc2, _⟩, heq⟩ := hpb
  have : e2 = e1 := inj_of_nodup_map _ tree nd e2 he2 e1 he1 heq
  subst this
  rcases ext_clash _ _ _ hc1 hc2 with h | h
  · exact hab h
  · exact hba h

end Batch
