/-
Lemmas about the `posixpath` model on paths built from plain segments: what the
character-wise `commonprefix` + `dirname`, `relpath` and `normpath` compute inside
`_get_relative_path`.  Names that are prefixes of one another (`ab`, `abc`) are exactly the
case where the character-wise common prefix differs from the segment-wise one.
-/
import OdmlModel.Py.Posix
import OdmlModel.Proofs.Path

set_option linter.unusedSimpArgs false
set_option linter.unusedVariables false

namespace Py.Posix
open Py

/-- a path segment that `posixpath` treats as an ordinary name -/
def SegOk (n : List Char) : Prop := n ≠ [] ∧ '/' ∉ n ∧ n ≠ ['.'] ∧ n ≠ ['.', '.']

/-- `"/a/b/c"` as a concatenation of `"/" + segment` -/
def Q : List (List Char) → List Char
  | [] => []
  | n :: ns => '/' :: (n ++ Q ns)

theorem Q_eq_joinSlash (ns : List (List Char)) (h : ns ≠ []) : '/' :: joinSlash ns = Q ns := by
  induction ns with
  | nil => exact absurd rfl h
  | cons n r ih =>
    cases r with
    | nil => simp [joinSlash, Q]
    | cons m t =>
      have := ih (by simp)
      simp only [joinSlash, Q] at this ⊢
      rw [← this]

theorem Q_append (xs ys : List (List Char)) : Q (xs ++ ys) = Q xs ++ Q ys := by
  induction xs with
  | nil => simp [Q]
  | cons n r ih => simp [Q, ih]

theorem Q_slash_head (xs : List (List Char)) : ∃ r, Q xs ++ ['/'] = '/' :: r := by
  cases xs with
  | nil => exact ⟨[], rfl⟩
  | cons n r => exact ⟨n ++ Q r ++ ['/'], by simp [Q]⟩

/-! ## commonprefix -/

theorem commonPrefix_append (x u v : List Char) :
    commonPrefix (x ++ u) (x ++ v) = x ++ commonPrefix u v := by
  induction x with
  | nil => rfl
  | cons c x ih => simp [commonPrefix, ih]

/-- two different slash-free names followed by `/`: the common prefix stops before the `/` -/
theorem commonPrefix_diff (a b ra rb : List Char) (ha : '/' ∉ a) (hb : '/' ∉ b) (hab : a ≠ b) :
    '/' ∉ commonPrefix (a ++ '/' :: ra) (b ++ '/' :: rb) := by
  induction a generalizing b with
  | nil =>
    cases b with
    | nil => exact absurd rfl hab
    | cons y b1 =>
      have hy : '/' ≠ y := by intro h; apply hb; simp [← h]
      simp [commonPrefix, hy]
  | cons x a1 ih =>
    have hx : x ≠ '/' := by intro h; apply ha; simp [h]
    cases b with
    | nil => simp [commonPrefix, hx]
    | cons y b1 =>
      simp only [List.cons_append, commonPrefix]
      split
      · rename_i hxy
        subst hxy
        simp only [List.mem_cons, not_or]
        refine ⟨fun h => hx h.symm, ih b1 ?_ ?_ ?_⟩
        · intro h; apply ha; simp [h]
        · intro h; apply hb; simp [h]
        · intro h; apply hab; simp [h]
      · simp

/-- character-wise common prefix of two absolute paths (with the `/` that
    `_get_relative_path` appends) = segment-wise common prefix + `/` + a slash-free rest -/
theorem commonPrefix_paths (as bs : List (List Char)) (ha : ∀ n ∈ as, SegOk n)
    (hb : ∀ n ∈ bs, SegOk n) :
    ∃ w, '/' ∉ w ∧
      commonPrefix (Q as ++ ['/']) (Q bs ++ ['/']) = Q (commonPrefixSegs as bs) ++ '/' :: w := by
  induction as generalizing bs with
  | nil =>
    obtain ⟨r, hr⟩ := Q_slash_head bs
    refine ⟨[], by simp, ?_⟩
    rw [hr]
    cases bs <;> simp [Q, commonPrefix, commonPrefixSegs]
  | cons a as' ih =>
    cases bs with
    | nil => exact ⟨[], by simp, by simp [Q, commonPrefix, commonPrefixSegs]⟩
    | cons b bs' =>
      by_cases hab : a = b
      · subst hab
        obtain ⟨w, hw, heq⟩ := ih bs' (fun n hn => ha n (by simp [hn])) (fun n hn => hb n (by simp [hn]))
        refine ⟨w, hw, ?_⟩
        have h1 : Q (a :: as') ++ ['/'] = ('/' :: a) ++ (Q as' ++ ['/']) := by simp [Q]
        have h2 : Q (a :: bs') ++ ['/'] = ('/' :: a) ++ (Q bs' ++ ['/']) := by simp [Q]
        rw [h1, h2, commonPrefix_append, heq]
        simp [commonPrefixSegs, Q]
      · obtain ⟨ra, hra⟩ := Q_slash_head as'
        obtain ⟨rb, hrb⟩ := Q_slash_head bs'
        refine ⟨commonPrefix (a ++ '/' :: ra) (b ++ '/' :: rb), ?_, ?_⟩
        · exact commonPrefix_diff a b ra rb (ha a (by simp)).2.1 (hb b (by simp)).2.1 hab
        · have h1 : Q (a :: as') ++ ['/'] = '/' :: (a ++ '/' :: ra) := by
            simp only [Q, List.cons_append, List.append_assoc, hra]
          have h2 : Q (b :: bs') ++ ['/'] = '/' :: (b ++ '/' :: rb) := by
            simp only [Q, List.cons_append, List.append_assoc, hrb]
          rw [h1, h2]
          simp [commonPrefix, commonPrefixSegs, hab, Q]

theorem commonPrefixSegs_self_append (cs r : List (List Char)) :
    commonPrefixSegs cs (cs ++ r) = cs := by
  induction cs with
  | nil => cases r <;> simp [commonPrefixSegs]
  | cons c cs ih => simp [commonPrefixSegs, ih]

theorem commonPrefixSegs_mem_left (as bs : List (List Char)) :
    ∀ n ∈ commonPrefixSegs as bs, n ∈ as := by
  induction as generalizing bs with
  | nil => simp [commonPrefixSegs]
  | cons a as' ih =>
    cases bs with
    | nil => simp [commonPrefixSegs]
    | cons b bs' =>
      simp only [commonPrefixSegs]
      split
      · intro n hn
        simp at hn
        rcases hn with rfl | hn
        · simp
        · simp [ih bs' n hn]
      · simp

/-- `as = cs ++ as.drop`, `bs = cs ++ bs.drop` for the segment-wise common prefix `cs`,
    and the remainders start differently -/
theorem commonPrefixSegs_split (as bs : List (List Char)) :
    as = commonPrefixSegs as bs ++ as.drop (commonPrefixSegs as bs).length ∧
    bs = commonPrefixSegs as bs ++ bs.drop (commonPrefixSegs as bs).length := by
  induction as generalizing bs with
  | nil => cases bs <;> simp [commonPrefixSegs]
  | cons a as' ih =>
    cases bs with
    | nil => simp [commonPrefixSegs]
    | cons b bs' =>
      simp only [commonPrefixSegs]
      split
      · rename_i h; subst h
        have := ih bs'
        simp only [List.length_cons, List.drop_succ_cons, List.cons_append, List.cons.injEq, true_and]
        exact this
      · simp

/-! ## dirname -/

theorem dropWhile_append_stop {α : Type} (p : α → Bool) (l1 : List α) (a : α) (l2 : List α)
    (h1 : ∀ x ∈ l1, p x = true) (ha : p a = false) :
    (l1 ++ a :: l2).dropWhile p = a :: l2 := by
  induction l1 with
  | nil => simp [List.dropWhile, ha]
  | cons x r ih =>
    simp only [List.cons_append, List.dropWhile_cons, h1 x (by simp), ↓reduceIte]
    exact ih (fun y hy => h1 y (by simp [hy]))

theorem headThroughLastSlash_eq (x w : List Char) (hw : '/' ∉ w) :
    headThroughLastSlash (x ++ '/' :: w) = x ++ ['/'] := by
  unfold headThroughLastSlash
  have : (x ++ '/' :: w).reverse = w.reverse ++ '/' :: x.reverse := by simp
  rw [this, dropWhile_append_stop]
  · simp
  · intro c hc
    simp only [List.mem_reverse] at hc
    simp only [ne_eq, decide_not, Bool.not_eq_eq_eq_not, Bool.not_true, decide_eq_false_iff_not]
    rintro rfl; exact hw hc
  · simp

theorem rstripSlash_snoc (y : List Char) (c : Char) (hc : c ≠ '/') :
    rstripSlash (y ++ [c] ++ ['/']) = y ++ [c] := by
  simp [rstripSlash, List.dropWhile, hc]

/-- a non-empty path of plain segments ends in a character that is not `/` -/
theorem Q_ends (cs : List (List Char)) (hne : cs ≠ []) (h : ∀ n ∈ cs, SegOk n) :
    ∃ y c, Q cs = y ++ [c] ∧ c ≠ '/' := by
  have hcs := (List.dropLast_concat_getLast hne).symm
  have hn := h (cs.getLast hne) (List.getLast_mem hne)
  have hn0 := (List.dropLast_concat_getLast hn.1).symm
  refine ⟨Q cs.dropLast ++ '/' :: (cs.getLast hne).dropLast, (cs.getLast hne).getLast hn.1, ?_, ?_⟩
  · conv => lhs; rw [hcs]
    rw [Q_append]
    conv => lhs; rw [hn0]
    simp [Q]
  · intro hc
    apply hn.2.1
    rw [← hc]
    exact List.getLast_mem hn.1

theorem dirname_paths (cs w : List Char) (hw : '/' ∉ w) (y : List Char) (c : Char)
    (hcs : cs = y ++ [c]) (hc : c ≠ '/') : dirname (cs ++ '/' :: w) = cs := by
  unfold dirname
  rw [headThroughLastSlash_eq _ _ hw]
  have hnall : ¬ ((cs ++ ['/']).all (fun x => decide (x = '/')) = true) := by
    simp only [List.all_eq_true, decide_eq_true_eq]
    intro hall
    exact hc (hall c (by simp [hcs]))
  simp only [hnall, ne_eq, List.append_eq_nil_iff, List.cons_ne_self, and_false, not_false_eq_true,
    and_self, ↓reduceIte]
  rw [hcs]
  exact rstripSlash_snoc y c hc

theorem dirname_root (w : List Char) (hw : '/' ∉ w) : dirname ('/' :: w) = ['/'] := by
  unfold dirname
  have := headThroughLastSlash_eq [] w hw
  simp only [List.nil_append] at this
  rw [this]
  simp

/-- `posixpath.dirname(posixpath.commonprefix([path_a + "/", path_b + "/"]))` -/
theorem parent_eq (as bs : List (List Char)) (ha : ∀ n ∈ as, SegOk n) (hb : ∀ n ∈ bs, SegOk n) :
    dirname (commonPrefix (Q as ++ ['/']) (Q bs ++ ['/'])) =
      if commonPrefixSegs as bs = [] then ['/'] else Q (commonPrefixSegs as bs) := by
  obtain ⟨w, hw, heq⟩ := commonPrefix_paths as bs ha hb
  rw [heq]
  split
  · rename_i h
    rw [h]
    exact dirname_root w hw
  · rename_i h
    obtain ⟨y, c, hy, hc⟩ := Q_ends _ h (fun n hn => ha n (commonPrefixSegs_mem_left as bs n hn))
    exact dirname_paths _ w hw y c hy hc

/-! ## split, normpath, relpath on plain segments -/

theorem SegOk.noslash {n : List Char} (h : SegOk n) : '/' ∉ n := h.2.1

theorem splitOn_joinSlash_append (ns : List (List Char)) (t : List Char) (hne : ns ≠ [])
    (h : ∀ n ∈ ns, '/' ∉ n) :
    splitOn '/' (joinSlash ns ++ '/' :: t) = ns ++ splitOn '/' t := by
  induction ns with
  | nil => exact absurd rfl hne
  | cons n r ih =>
    cases r with
    | nil =>
      simp only [joinSlash]
      rw [splitOn_append_sep _ _ _ (no_sep_of_not_mem (h n (by simp)))]
      simp
    | cons m u =>
      simp only [joinSlash, List.append_assoc, List.cons_append]
      rw [splitOn_append_sep _ _ _ (no_sep_of_not_mem (h n (by simp)))]
      rw [ih (by simp) (fun x hx => h x (by simp [hx]))]
      simp

theorem splitOn_single_sep : splitOn '/' ['/'] = [[], []] := by simp [splitOn]

theorem normComps_plain (b : Bool) (acc ns rest : List (List Char)) (h : ∀ n ∈ ns, SegOk n) :
    normComps b acc (ns ++ rest) = normComps b (acc ++ ns) rest := by
  induction ns generalizing acc with
  | nil => simp
  | cons n r ih =>
    have hn := h n (by simp)
    simp only [List.cons_append, normComps, hn.1, hn.2.2.1, or_self, ↓reduceIte, ne_eq, hn.2.2.2,
      not_false_eq_true, true_or]
    rw [ih _ (fun x hx => h x (by simp [hx]))]
    simp

theorem normComps_skip_empty (b : Bool) (acc rest : List (List Char)) :
    normComps b acc ([] :: rest) = normComps b acc rest := by
  simp [normComps]

theorem normComps_skip_dot (b : Bool) (acc rest : List (List Char)) :
    normComps b acc (['.'] :: rest) = normComps b acc rest := by
  simp [normComps]

theorem normComps_nil (b : Bool) (acc : List (List Char)) : normComps b acc [] = acc := by
  simp [normComps]

theorem initialSlashes_one (c : Char) (hc : c ≠ '/') (r : List Char) :
    initialSlashes ('/' :: c :: r) = 1 := by
  unfold initialSlashes
  split <;> simp_all

theorem Q_head (ns : List (List Char)) (hne : ns ≠ []) (h : ∀ n ∈ ns, SegOk n) :
    ∃ c r, Q ns = '/' :: c :: r ∧ c ≠ '/' := by
  cases ns with
  | nil => exact absurd rfl hne
  | cons n t =>
    have hn := h n (by simp)
    cases n with
    | nil => exact absurd rfl hn.1
    | cons c n' =>
      refine ⟨c, n' ++ Q t, by simp [Q], ?_⟩
      intro hc
      apply hn.2.1
      simp [hc]

theorem joinSlash_ne_nil (ns : List (List Char)) (hne : ns ≠ []) (h : ns.head? ≠ some []) :
    joinSlash ns ≠ [] := by
  cases ns with
  | nil => exact absurd rfl hne
  | cons n t =>
    cases t with
    | nil => simpa [joinSlash] using h
    | cons m u => simp [joinSlash]

/-- `normpath` leaves an absolute path of plain segments alone, with or without trailing `/` -/
theorem normpath_Q (ns : List (List Char)) (hne : ns ≠ []) (h : ∀ n ∈ ns, SegOk n)
    (t : List Char) (ht : t = [] ∨ t = ['/']) : normpath (Q ns ++ t) = Q ns := by
  obtain ⟨c, r, hq, hc⟩ := Q_head ns hne h
  have hsl : ∀ n ∈ ns, '/' ∉ n := fun n hn => (h n hn).2.1
  have hsplit : splitOn '/' (Q ns ++ t) = [] :: (ns ++ (if t = [] then [] else [[]])) := by
    rw [← Q_eq_joinSlash ns hne]
    rcases ht with rfl | rfl
    · simp only [List.append_nil, ↓reduceIte, splitOn_cons_sep]
      rw [splitOn_joinSlash ns hne hsl]
    · simp only [List.cons_append, splitOn_cons_sep]
      rw [splitOn_joinSlash_append ns [] hne hsl]
      simp [splitOn]
  unfold normpath
  have hne' : Q ns ++ t ≠ [] := by rw [hq]; simp
  have his : initialSlashes (Q ns ++ t) = 1 := by
    rw [hq]; exact initialSlashes_one c hc _
  simp only [hne', ↓reduceIte, his, hsplit]
  rw [normComps_skip_empty, normComps_plain _ _ _ _ h]
  have hcomps : normComps (1 != 0) ([] ++ ns) (if t = [] then [] else [[]]) = ns := by
    split
    · simp [normComps_nil]
    · simp [normComps_skip_empty, normComps_nil]
  rw [hcomps]
  have : List.replicate 1 '/' ++ joinSlash ns = Q ns := by
    rw [← Q_eq_joinSlash ns hne]; rfl
  rw [this, hq]
  simp

theorem absSegs_Q (ns : List (List Char)) (hne : ns ≠ []) (h : ∀ n ∈ ns, SegOk n)
    (t : List Char) (ht : t = [] ∨ t = ['/']) : absSegs (Q ns ++ t) = ns := by
  unfold absSegs
  rw [normpath_Q ns hne h t ht, ← Q_eq_joinSlash ns hne, splitOn_cons_sep,
    splitOn_joinSlash ns hne (fun n hn => (h n hn).2.1)]
  simp only [ne_eq, decide_not, List.filter_cons, List.isEmpty_nil, decide_true, Bool.not_true,
    Bool.false_eq_true, ↓reduceIte]
  rw [List.filter_eq_self]
  intro n hn
  simpa using (h n hn).1

/-- `posixpath.relpath(path_x + "/", parent)` where `parent` is a proper-or-equal ancestor -/
theorem relpath_below (cs r : List (List Char)) (hne : cs ≠ []) (hcs : ∀ n ∈ cs, SegOk n)
    (hr : ∀ n ∈ r, SegOk n) :
    relpath (Q (cs ++ r) ++ ['/']) (Q cs) = if r = [] then ['.'] else joinSlash r := by
  unfold relpath
  have h1 := absSegs_Q cs hne hcs [] (Or.inl rfl)
  simp only [List.append_nil] at h1
  have h2 := absSegs_Q (cs ++ r) (by simp [hne])
    (fun n hn => by
      rcases List.mem_append.1 hn with h | h
      · exact hcs n h
      · exact hr n h) ['/'] (Or.inr rfl)
  simp [h1, h2, commonPrefixSegs_self_append]

theorem joinSlash_ne_dot (r : List (List Char)) (hne : r ≠ []) (hr : ∀ n ∈ r, SegOk n) :
    joinSlash r ≠ ['.'] := by
  cases r with
  | nil => exact absurd rfl hne
  | cons n t =>
    have hn := hr n (by simp)
    cases t with
    | nil => simpa [joinSlash] using hn.2.2.1
    | cons m u =>
      simp only [joinSlash]
      intro h
      have := congrArg List.length h
      simp at this
      have : n.length = 0 := by omega
      exact hn.1 (List.length_eq_zero_iff.1 this)

theorem countSlash_joinSlash (r : List (List Char)) (hne : r ≠ []) (hr : ∀ n ∈ r, '/' ∉ n) :
    countSlash (joinSlash r) + 1 = r.length := by
  induction r with
  | nil => exact absurd rfl hne
  | cons n t ih =>
    have hn : List.count '/' n = 0 := List.count_eq_zero.2 (hr n (by simp))
    cases t with
    | nil => simp [joinSlash, countSlash, hn]
    | cons m u =>
      have := ih (by simp) (fun x hx => hr x (by simp [hx]))
      simp only [countSlash, List.length_cons] at this
      simp only [joinSlash, countSlash, List.count_append, hn, List.count_cons_self, List.length_cons]
      omega

theorem dotdotSlash_eq (k : Nat) :
    dotdotSlash (k + 1) = joinSlash (List.replicate (k + 1) ['.', '.']) ++ ['/'] := by
  induction k with
  | zero => rfl
  | succ k ih =>
    have : dotdotSlash (k + 2) = '.' :: '.' :: '/' :: dotdotSlash (k + 1) := rfl
    rw [this, ih]
    simp [List.replicate_succ, joinSlash]

theorem normComps_dotdots (j k : Nat) (rest : List (List Char)) :
    normComps false (List.replicate j ['.', '.']) (List.replicate k ['.', '.'] ++ rest) =
      normComps false (List.replicate (j + k) ['.', '.']) rest := by
  induction k generalizing j with
  | zero => simp
  | succ k ih =>
    have hcond : (!false ∧ List.replicate j ['.', '.'] = []) ∨
        (List.replicate j ['.', '.'] ≠ [] ∧ (List.replicate j ['.', '.']).getLast? = some ['.', '.']) := by
      cases j with
      | zero => left; simp
      | succ j => right; simp [List.getLast?_replicate]
    simp only [List.replicate_succ, List.cons_append, normComps]
    have h0 : ¬ (['.', '.'] = ([] : List Char) ∨ ['.', '.'] = ['.']) := by decide
    simp only [h0, ↓reduceIte]
    have h1 : (['.', '.'] ≠ ['.', '.'] ∨ (!false ∧ List.replicate j ['.', '.'] = []) ∨
        (List.replicate j ['.', '.'] ≠ [] ∧
          (List.replicate j ['.', '.']).getLast? = some ['.', '.'])) := Or.inr hcond
    rw [if_pos h1]
    have : List.replicate j ['.', '.'] ++ [['.', '.']] = List.replicate (j + 1) ['.', '.'] := by
      rw [List.replicate_succ']
    rw [this, ih (j + 1)]
    congr 2
    omega

/-- `normpath("../" * k + rest)` for `k ≥ 1` and `rest` = `.` or a relative path of plain segments -/
theorem normpath_dotdots (k : Nat) (r : List (List Char)) (hr : ∀ n ∈ r, SegOk n) :
    normpath (dotdotSlash (k + 1) ++ (if r = [] then ['.'] else joinSlash r)) =
      joinSlash (List.replicate (k + 1) ['.', '.'] ++ r) := by
  have hdd : ∀ n ∈ List.replicate (k + 1) ['.', '.'], '/' ∉ n := by
    intro n hn
    rw [List.eq_of_mem_replicate hn]; decide
  have hsplit : splitOn '/' (dotdotSlash (k + 1) ++ (if r = [] then ['.'] else joinSlash r)) =
      List.replicate (k + 1) ['.', '.'] ++ (if r = [] then [['.']] else r) := by
    rw [dotdotSlash_eq, List.append_assoc]
    simp only [List.cons_append, List.nil_append]
    rw [splitOn_joinSlash_append _ _ (by simp) hdd]
    split
    · simp [splitOn]
    · rename_i hne
      rw [splitOn_joinSlash r hne (fun n hn => (hr n hn).2.1)]
  unfold normpath
  have hne : dotdotSlash (k + 1) ++ (if r = [] then ['.'] else joinSlash r) ≠ [] := by
    simp [dotdotSlash]
  have his : initialSlashes (dotdotSlash (k + 1) ++ (if r = [] then ['.'] else joinSlash r)) = 0 := by
    simp [dotdotSlash, initialSlashes]
  simp only [hne, ↓reduceIte, his, hsplit]
  have := normComps_dotdots 0 (k + 1) (if r = [] then [['.']] else r)
  simp only [List.replicate_zero, Nat.zero_add] at this
  have hb : (0 != 0) = false := rfl
  rw [hb, this]
  have hcomps : normComps false (List.replicate (k + 1) ['.', '.']) (if r = [] then [['.']] else r) =
      List.replicate (k + 1) ['.', '.'] ++ r := by
    split
    · rename_i h; subst h
      simp [normComps_skip_dot, normComps_nil]
    · have := normComps_plain false (List.replicate (k + 1) ['.', '.']) r [] hr
      simpa [normComps_nil] using this
  rw [hcomps]
  have hnn : joinSlash (List.replicate (k + 1) ['.', '.'] ++ r) ≠ [] := by
    apply joinSlash_ne_nil
    · simp
    · simp [List.replicate_succ]
  simp [hnn]

end Py.Posix

namespace Path
open Py Py.Posix PathTree

/-- what `_get_relative_path` computes, at the level of path segments:
    absolute path of `b` when only the Document is shared; `.` for the Section itself;
    the child path below; otherwise one `..` per remaining segment of `a`, then down to `b`. -/
def relSpec (as bs : List (List Char)) : List Char :=
  let cs := commonPrefixSegs as bs
  let a' := as.drop cs.length
  let b' := bs.drop cs.length
  if cs = [] then '/' :: joinSlash bs
  else if a' = [] then (if b' = [] then ['.'] else joinSlash b')
  else joinSlash (List.replicate a'.length ['.', '.'] ++ b')

theorem relativePath_segments (as bs : List (List Char)) (hane : as ≠ []) (hbne : bs ≠ [])
    (ha : ∀ n ∈ as, SegOk n) (hb : ∀ n ∈ bs, SegOk n) :
    relativePath ('/' :: joinSlash as) ('/' :: joinSlash bs) = relSpec as bs := by
  rw [Q_eq_joinSlash as hane, Q_eq_joinSlash bs hbne]
  unfold relativePath relSpec
  simp only [parent_eq as bs ha hb]
  obtain ⟨hsa, hsb⟩ := commonPrefixSegs_split as bs
  generalize hcs : commonPrefixSegs as bs = cs at hsa hsb
  generalize ha' : as.drop cs.length = a' at hsa
  generalize hb' : bs.drop cs.length = b' at hsb
  have hcsok : ∀ n ∈ cs, SegOk n := fun n hn => ha n (by rw [hsa]; simp [hn])
  have ha'ok : ∀ n ∈ a', SegOk n := fun n hn => ha n (by rw [hsa]; simp [hn])
  have hb'ok : ∀ n ∈ b', SegOk n := fun n hn => hb n (by rw [hsb]; simp [hn])
  by_cases hc : cs = []
  · simp [hc, Q_eq_joinSlash bs hbne]
  · obtain ⟨c, r, hq, hcne⟩ := Q_head cs hc hcsok
    have hpar : Q cs ≠ ['/'] := by rw [hq]; simp
    simp only [hc, ↓reduceIte, hpar]
    have hra : relpath (Q as ++ ['/']) (Q cs) = if a' = [] then ['.'] else joinSlash a' := by
      conv => lhs; rw [hsa]
      exact relpath_below cs a' hc hcsok ha'ok
    have hrb : relpath (Q bs ++ ['/']) (Q cs) = if b' = [] then ['.'] else joinSlash b' := by
      conv => lhs; rw [hsb]
      exact relpath_below cs b' hc hcsok hb'ok
    rw [hra, hrb]
    by_cases hae : a' = []
    · simp [hae]
    · have hnd := joinSlash_ne_dot a' hae ha'ok
      simp only [hae, ↓reduceIte, hnd]
      have hcount := countSlash_joinSlash a' hae (fun n hn => (ha'ok n hn).2.1)
      obtain ⟨k, hk⟩ : ∃ k, a'.length = k + 1 := by
        cases a' with
        | nil => exact absurd rfl hae
        | cons x t => exact ⟨t.length, rfl⟩
      rw [hcount, hk]
      exact normpath_dotdots k b' hb'ok

end Path
