/-
C11 helper lemmas, part 1: regions of the store, closure of a region under the references that
editing operations follow, and the primitive writes.
-/
import OdmlModel.Model.Clone
namespace Clone

/-! ### Simp facts about the primitive writes -/

@[simp] theorem updN_nN (h i f) : (updN h i f).nN = h.nN := rfl
@[simp] theorem updN_nV (h i f) : (updN h i f).nV = h.nV := rfl
@[simp] theorem updN_nT (h i f) : (updN h i f).nT = h.nT := rfl
@[simp] theorem updN_nextId (h i f) : (updN h i f).nextId = h.nextId := rfl
@[simp] theorem updN_vcell (h i f) : (updN h i f).vcell = h.vcell := rfl
@[simp] theorem updN_tcell (h i f) : (updN h i f).tcell = h.tcell := rfl
@[simp] theorem updN_same (h i f) : (updN h i f).node i = f (h.node i) := by simp [updN]
theorem updN_other (h i j f) (hne : j ≠ i) : (updN h i f).node j = h.node j := by simp [updN, hne]
theorem updN_node (h i j f) : (updN h i f).node j = if j = i then f (h.node j) else h.node j := rfl

@[simp] theorem updV_nN (h i f) : (updV h i f).nN = h.nN := rfl
@[simp] theorem updV_nV (h i f) : (updV h i f).nV = h.nV := rfl
@[simp] theorem updV_nT (h i f) : (updV h i f).nT = h.nT := rfl
@[simp] theorem updV_nextId (h i f) : (updV h i f).nextId = h.nextId := rfl
@[simp] theorem updV_node (h i f) : (updV h i f).node = h.node := rfl
@[simp] theorem updV_tcell (h i f) : (updV h i f).tcell = h.tcell := rfl
theorem updV_vcell (h i j f) : (updV h i f).vcell j = if j = i then f (h.vcell j) else h.vcell j := rfl

@[simp] theorem updT_nN (h i f) : (updT h i f).nN = h.nN := rfl
@[simp] theorem updT_nV (h i f) : (updT h i f).nV = h.nV := rfl
@[simp] theorem updT_nT (h i f) : (updT h i f).nT = h.nT := rfl
@[simp] theorem updT_nextId (h i f) : (updT h i f).nextId = h.nextId := rfl
@[simp] theorem updT_node (h i f) : (updT h i f).node = h.node := rfl
@[simp] theorem updT_vcell (h i f) : (updT h i f).vcell = h.vcell := rfl
theorem updT_tcell (h i j f) : (updT h i f).tcell j = if j = i then f (h.tcell j) else h.tcell j := rfl

@[simp] theorem allocN_ret (h n) : (allocN h n).2 = h.nN := rfl
@[simp] theorem allocN_nN (h n) : (allocN h n).1.nN = h.nN + 1 := rfl
@[simp] theorem allocN_nV (h n) : (allocN h n).1.nV = h.nV := rfl
@[simp] theorem allocN_nT (h n) : (allocN h n).1.nT = h.nT := rfl
@[simp] theorem allocN_nextId (h n) : (allocN h n).1.nextId = h.nextId := rfl
@[simp] theorem allocN_vcell (h n) : (allocN h n).1.vcell = h.vcell := rfl
@[simp] theorem allocN_tcell (h n) : (allocN h n).1.tcell = h.tcell := rfl
theorem allocN_node (h n j) : (allocN h n).1.node j = if j = h.nN then n else h.node j := rfl

@[simp] theorem allocV_ret (h l) : (allocV h l).2 = h.nV := rfl
@[simp] theorem allocV_nN (h l) : (allocV h l).1.nN = h.nN := rfl
@[simp] theorem allocV_nV (h l) : (allocV h l).1.nV = h.nV + 1 := rfl
@[simp] theorem allocV_nT (h l) : (allocV h l).1.nT = h.nT := rfl
@[simp] theorem allocV_nextId (h l) : (allocV h l).1.nextId = h.nextId := rfl
@[simp] theorem allocV_node (h l) : (allocV h l).1.node = h.node := rfl
@[simp] theorem allocV_tcell (h l) : (allocV h l).1.tcell = h.tcell := rfl
theorem allocV_vcell (h l j) : (allocV h l).1.vcell j = if j = h.nV then l else h.vcell j := rfl

@[simp] theorem allocT_ret (h l) : (allocT h l).2 = h.nT := rfl
@[simp] theorem allocT_nN (h l) : (allocT h l).1.nN = h.nN := rfl
@[simp] theorem allocT_nV (h l) : (allocT h l).1.nV = h.nV := rfl
@[simp] theorem allocT_nT (h l) : (allocT h l).1.nT = h.nT + 1 := rfl
@[simp] theorem allocT_nextId (h l) : (allocT h l).1.nextId = h.nextId := rfl
@[simp] theorem allocT_node (h l) : (allocT h l).1.node = h.node := rfl
@[simp] theorem allocT_vcell (h l) : (allocT h l).1.vcell = h.vcell := rfl
theorem allocT_tcell (h l j) : (allocT h l).1.tcell j = if j = h.nT then l else h.tcell j := rfl

@[simp] theorem newId_nN (h x) : (newId h x).nN = h.nN := rfl
@[simp] theorem newId_nV (h x) : (newId h x).nV = h.nV := rfl
@[simp] theorem newId_nT (h x) : (newId h x).nT = h.nT := rfl
@[simp] theorem newId_nextId (h x) : (newId h x).nextId = h.nextId + 1 := rfl
@[simp] theorem newId_vcell (h x) : (newId h x).vcell = h.vcell := rfl
@[simp] theorem newId_tcell (h x) : (newId h x).tcell = h.tcell := rfl
theorem newId_node (h x j) :
    (newId h x).node j = if j = x then { h.node j with id := h.nextId } else h.node j := rfl

/-! ### The dicts `_merged_attrs` (fourth address space) -/

@[simp] theorem updN_dcell (h i f) : (updN h i f).dcell = h.dcell := rfl
@[simp] theorem updN_nD (h i f) : (updN h i f).nD = h.nD := rfl
@[simp] theorem updV_dcell (h i f) : (updV h i f).dcell = h.dcell := rfl
@[simp] theorem updV_nD (h i f) : (updV h i f).nD = h.nD := rfl
@[simp] theorem updT_dcell (h i f) : (updT h i f).dcell = h.dcell := rfl
@[simp] theorem updT_nD (h i f) : (updT h i f).nD = h.nD := rfl
@[simp] theorem allocN_dcell (h n) : (allocN h n).1.dcell = h.dcell := rfl
@[simp] theorem allocN_nD (h n) : (allocN h n).1.nD = h.nD := rfl
@[simp] theorem allocV_dcell (h l) : (allocV h l).1.dcell = h.dcell := rfl
@[simp] theorem allocV_nD (h l) : (allocV h l).1.nD = h.nD := rfl
@[simp] theorem allocT_dcell (h l) : (allocT h l).1.dcell = h.dcell := rfl
@[simp] theorem allocT_nD (h l) : (allocT h l).1.nD = h.nD := rfl
@[simp] theorem newId_dcell (h x) : (newId h x).dcell = h.dcell := rfl
@[simp] theorem newId_nD (h x) : (newId h x).nD = h.nD := rfl

@[simp] theorem allocD_ret (h l) : (allocD h l).2 = h.nD := rfl
@[simp] theorem allocD_nN (h l) : (allocD h l).1.nN = h.nN := rfl
@[simp] theorem allocD_nV (h l) : (allocD h l).1.nV = h.nV := rfl
@[simp] theorem allocD_nT (h l) : (allocD h l).1.nT = h.nT := rfl
@[simp] theorem allocD_nD (h l) : (allocD h l).1.nD = h.nD + 1 := rfl
@[simp] theorem allocD_nextId (h l) : (allocD h l).1.nextId = h.nextId := rfl
@[simp] theorem allocD_node (h l) : (allocD h l).1.node = h.node := rfl
@[simp] theorem allocD_vcell (h l) : (allocD h l).1.vcell = h.vcell := rfl
@[simp] theorem allocD_tcell (h l) : (allocD h l).1.tcell = h.tcell := rfl
theorem allocD_dcell (h l j) : (allocD h l).1.dcell j = if j = h.nD then l else h.dcell j := rfl

@[simp] theorem updD_nN (h i f) : (updD h i f).nN = h.nN := rfl
@[simp] theorem updD_nV (h i f) : (updD h i f).nV = h.nV := rfl
@[simp] theorem updD_nT (h i f) : (updD h i f).nT = h.nT := rfl
@[simp] theorem updD_nD (h i f) : (updD h i f).nD = h.nD := rfl
@[simp] theorem updD_nextId (h i f) : (updD h i f).nextId = h.nextId := rfl
@[simp] theorem updD_node (h i f) : (updD h i f).node = h.node := rfl
@[simp] theorem updD_vcell (h i f) : (updD h i f).vcell = h.vcell := rfl
@[simp] theorem updD_tcell (h i f) : (updD h i f).tcell = h.tcell := rfl
theorem updD_dcell (h i j f) : (updD h i f).dcell j = if j = i then f (h.dcell j) else h.dcell j := rfl

/-! ### Growth and frames -/

/-- Sizes only grow. -/
def Mono (h h' : H) : Prop :=
  h.nN ≤ h'.nN ∧ h.nV ≤ h'.nV ∧ h.nT ≤ h'.nT ∧ h.nextId ≤ h'.nextId

/-- Nothing that exists in `h` has been written: every object, value list and inner list of `h`
    has the same content in `h'`. -/
def Below (h h' : H) : Prop :=
  (∀ a, a < h.nN → h'.node a = h.node a) ∧ (∀ c, c < h.nV → h'.vcell c = h.vcell c) ∧
  (∀ t, t < h.nT → h'.tcell t = h.tcell t)

/-- `h'` extends `h`: it is `h` plus new locations. -/
def Ext (h h' : H) : Prop := Mono h h' ∧ Below h h'

theorem Mono.refl (h : H) : Mono h h := ⟨Nat.le_refl _, Nat.le_refl _, Nat.le_refl _, Nat.le_refl _⟩
theorem Mono.trans {a b c : H} (h1 : Mono a b) (h2 : Mono b c) : Mono a c := by
  unfold Mono at *; omega
theorem Ext.refl (h : H) : Ext h h := ⟨Mono.refl h, fun _ _ => rfl, fun _ _ => rfl, fun _ _ => rfl⟩
theorem Ext.trans {a b c : H} (h1 : Ext a b) (h2 : Ext b c) : Ext a c := by
  obtain ⟨m1, n1, v1, t1⟩ := h1
  obtain ⟨m2, n2, v2, t2⟩ := h2
  refine ⟨m1.trans m2, fun x hx => ?_, fun x hx => ?_, fun x hx => ?_⟩
  · rw [n2 x (by unfold Mono at m1; omega), n1 x hx]
  · rw [v2 x (by unfold Mono at m1; omega), v1 x hx]
  · rw [t2 x (by unfold Mono at m1; omega), t1 x hx]

theorem ext_allocN (h n) : Ext h (allocN h n).1 := by
  refine ⟨⟨by simp, by simp, by simp, by simp⟩, fun a ha => ?_, fun _ _ => rfl, fun _ _ => rfl⟩
  simp [allocN_node]; omega
theorem ext_allocV (h l) : Ext h (allocV h l).1 := by
  refine ⟨⟨by simp, by simp, by simp, by simp⟩, fun _ _ => rfl, fun a ha => ?_, fun _ _ => rfl⟩
  simp [allocV_vcell]; omega
theorem ext_allocT (h l) : Ext h (allocT h l).1 := by
  refine ⟨⟨by simp, by simp, by simp, by simp⟩, fun _ _ => rfl, fun _ _ => rfl, fun a ha => ?_⟩
  simp [allocT_tcell]; omega

/-- Writing an object that did not exist in `h0` keeps `h0` intact. -/
theorem ext_updN {h0 h : H} (e : Ext h0 h) (i f) (hi : h0.nN ≤ i) : Ext h0 (updN h i f) := by
  obtain ⟨m, n, v, t⟩ := e
  refine ⟨m, fun a ha => ?_, v, t⟩
  rw [updN_other _ _ _ _ (by omega)]; exact n a ha
theorem ext_updV {h0 h : H} (e : Ext h0 h) (i f) (hi : h0.nV ≤ i) : Ext h0 (updV h i f) := by
  obtain ⟨m, n, v, t⟩ := e
  refine ⟨m, n, fun a ha => ?_, t⟩
  rw [updV_vcell, if_neg (by omega)]; exact v a ha
theorem ext_newId {h0 h : H} (e : Ext h0 h) (i) (hi : h0.nN ≤ i) : Ext h0 (newId h i) := by
  obtain ⟨m, n, v, t⟩ := e
  refine ⟨by unfold Mono at *; simp; omega, fun a ha => ?_, v, t⟩
  rw [newId_node, if_neg (by omega)]; exact n a ha

/-! ### Regions -/

/-- A set of locations: objects, value lists, inner lists. -/
structure Reg where
  n : Nat → Prop
  v : Nat → Prop
  t : Nat → Prop

/-- The references an object holds *and through which operations write* lie in the region.
    (`merged` is only read.) A Document has no parent, a Property no sections, … -/
def NodeIn (R : Reg) (n : Node) : Prop :=
  (n.kind ≠ .doc → ∀ p, n.parent = some p → R.n p) ∧
  (n.kind ≠ .prop → ∀ c, c ∈ n.secs → R.n c) ∧
  (n.kind = .sec → ∀ c, c ∈ n.props → R.n c) ∧
  (n.kind = .prop → ∀ c, n.vals = some c → R.v c)

def ItemsIn (R : Reg) (l : List Item) : Prop := ∀ t, Item.ref t ∈ l → R.t t

/-- No reference leads out of the region. -/
def Closed (h : H) (R : Reg) : Prop :=
  (∀ a, R.n a → a < h.nN → NodeIn R (h.node a)) ∧
  (∀ c, R.v c → c < h.nV → ItemsIn R (h.vcell c))

/-- The same, with one object still under construction. -/
def ClosedEx (h : H) (R : Reg) (c : Nat) : Prop :=
  (∀ a, R.n a → a < h.nN → a ≠ c → NodeIn R (h.node a)) ∧
  (∀ v, R.v v → v < h.nV → ItemsIn R (h.vcell v))

/-- Everything allocated from `lo` on, up to the sizes of `h`. -/
def rng (lo h : H) : Reg :=
  ⟨fun a => lo.nN ≤ a ∧ a < h.nN, fun c => lo.nV ≤ c ∧ c < h.nV, fun t => lo.nT ≤ t ∧ t < h.nT⟩

def Reg.le (R S : Reg) : Prop := (∀ a, R.n a → S.n a) ∧ (∀ a, R.v a → S.v a) ∧ (∀ a, R.t a → S.t a)

theorem NodeIn.mono {R S : Reg} (hl : R.le S) {n : Node} (hn : NodeIn R n) : NodeIn S n :=
  ⟨fun k p hp => hl.1 _ (hn.1 k p hp), fun k c hc => hl.1 _ (hn.2.1 k c hc),
   fun k c hc => hl.1 _ (hn.2.2.1 k c hc), fun k c hc => hl.2.1 _ (hn.2.2.2 k c hc)⟩

theorem ItemsIn.mono {R S : Reg} (hl : R.le S) {l : List Item} (hn : ItemsIn R l) : ItemsIn S l :=
  fun t ht => hl.2.2 _ (hn t ht)

theorem rng_le {lo lo' h h' : H} (m1 : Mono lo lo') (m2 : Mono h h') : (rng lo' h).le (rng lo h') := by
  unfold Mono at *
  refine ⟨fun a ha => ?_, fun a ha => ?_, fun a ha => ?_⟩ <;> simp [rng] at * <;> omega

theorem Closed.toEx {h R} (c) (hc : Closed h R) : ClosedEx h R c :=
  ⟨fun a ha hl _ => hc.1 a ha hl, hc.2⟩

theorem ClosedEx.close {h R c} (hc : ClosedEx h R c) (hn : R.n c → c < h.nN → NodeIn R (h.node c)) :
    Closed h R :=
  ⟨fun a ha hl => by
    by_cases e : a = c
    · subst e; exact hn ha hl
    · exact hc.1 a ha hl e, hc.2⟩

/-- Gluing: what was built up to `h` (relative to the base `b`), plus a closed block of new
    locations `[h, h1)`, is closed relative to `b`. -/
theorem closedEx_glue {b h h1 : H} {c : Nat} (mb : Mono b h) (e : Ext h h1)
    (old : ClosedEx h (rng b h) c) (new : Closed h1 (rng h h1)) : ClosedEx h1 (rng b h1) c := by
  obtain ⟨m, bn, bv, _⟩ := e
  have l1 : (rng b h).le (rng b h1) := rng_le (Mono.refl b) m
  have l2 : (rng h h1).le (rng b h1) := rng_le mb (Mono.refl h1)
  refine ⟨fun a ha hl hne => ?_, fun v hv hl => ?_⟩
  · by_cases hlt : a < h.nN
    · rw [bn a hlt]
      exact (old.1 a ⟨ha.1, hlt⟩ hlt hne).mono l1
    · exact (new.1 a ⟨by omega, ha.2⟩ hl).mono l2
  · by_cases hlt : v < h.nV
    · rw [bv v hlt]
      exact (old.2 v ⟨hv.1, hlt⟩ hlt).mono l1
    · exact (new.2 v ⟨by omega, hv.2⟩ hl).mono l2

end Clone
