/-
Helper lemmas about the `Py.Str` model (decimal text of naturals, strip, split).
-/
import OdmlModel.Py.Str

namespace Py

theorem natOfDigits_append_single (s : List Char) (c : Char) :
    natOfDigits (s ++ [c]) = 10 * natOfDigits s + (c.toNat - 48) := by
  simp [natOfDigits, List.foldl_append]

/-- `int(str(n)) = n` -/
theorem natOfDigits_natToDigits (n : Nat) : natOfDigits (natToDigits n) = n := by
  induction n using Nat.strongRecOn with
  | _ n ih =>
    unfold natToDigits
    rw [Nat.toDigits_eq_if (by decide)]
    split
    · rename_i h
      simp [natOfDigits, Nat.toNat_digitChar_sub_48_of_lt_ten h]
    · rename_i h
      have hlt : n / 10 < n := Nat.div_lt_self (by omega) (by decide)
      have := ih (n / 10) hlt
      unfold natToDigits at this
      rw [natOfDigits_append_single, this,
        Nat.toNat_digitChar_sub_48_of_lt_ten (Nat.mod_lt n (by decide))]
      omega

theorem natToDigits_ne_nil (n : Nat) : natToDigits n ≠ [] := by
  simp [natToDigits]

theorem natToDigits_all_digit (n : Nat) : (natToDigits n).all Char.isDigit = true := by
  simp only [List.all_eq_true]
  intro c hc
  exact Nat.isDigit_of_mem_toDigits (by decide) (by decide) hc

theorem isDigitStr_natToDigits (n : Nat) : isDigitStr (natToDigits n) = true := by
  simp [isDigitStr, natToDigits_all_digit, natToDigits_ne_nil]

theorem isDigit_bounds {c : Char} (h : c.isDigit = true) : 48 ≤ c.toNat ∧ c.toNat ≤ 57 := by
  simp only [Char.isDigit, Bool.and_eq_true, decide_eq_true_eq, ge_iff_le] at h
  obtain ⟨h1, h2⟩ := h
  rw [UInt32.le_iff_toNat_le] at h1 h2
  exact ⟨h1, h2⟩

/-- A digit is not white space, not a comma, not a parenthesis. -/
theorem isDigit_not_space {c : Char} (h : c.isDigit = true) : isSpace c = false := by
  have := isDigit_bounds h
  simp only [isSpace, Bool.or_eq_false_iff, Bool.and_eq_false_iff, decide_eq_false_iff_not,
    beq_eq_false_iff_ne]
  omega

theorem isDigit_ne_comma {c : Char} (h : c.isDigit = true) : (c == ',') = false := by
  have := isDigit_bounds h
  simp only [beq_eq_false_iff_ne, ne_eq]
  rintro rfl
  simp at this

/-- `strip` is the identity on a string whose first and last characters are not white space. -/
theorem lstrip_of_head {c : Char} {cs : List Char} (h : isSpace c = false) :
    lstrip (c :: cs) = c :: cs := by
  simp [lstrip, h]

theorem lstrip_digits {s : List Char} (h : s.all Char.isDigit = true) : lstrip s = s := by
  cases s with
  | nil => rfl
  | cons c cs =>
    simp only [List.all_cons, Bool.and_eq_true] at h
    exact lstrip_of_head (isDigit_not_space h.1)

theorem strip_digits {s : List Char} (h : s.all Char.isDigit = true) : strip s = s := by
  have hr : s.reverse.all Char.isDigit = true := by simpa using h
  simp [strip, rstrip, lstrip_digits h, lstrip_digits hr]

/-- `split` on a separator that does not occur gives the string back. -/
theorem splitOn_no_sep (sep : Char) (s : List Char) (h : ∀ c ∈ s, (c == sep) = false) :
    splitOn sep s = [s] := by
  induction s with
  | nil => rfl
  | cons c cs ih =>
    have hc := h c (by simp)
    have := ih (fun c' hc' => h c' (by simp [hc']))
    simp [splitOn, hc, this]

theorem splitOn_append_sep (sep : Char) (s t : List Char) (h : ∀ c ∈ s, (c == sep) = false) :
    splitOn sep (s ++ sep :: t) = s :: splitOn sep t := by
  induction s with
  | nil => simp [splitOn]
  | cons c cs ih =>
    have hc := h c (by simp)
    have := ih (fun c' hc' => h c' (by simp [hc']))
    simp [splitOn, hc, this]

end Py
