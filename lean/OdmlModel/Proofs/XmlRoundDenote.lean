/-
Whole-document XML round trip, part 5: `xml_denote` — the reader against an independent,
loop-free denotation of conformant odML-XML (a tree written by another tool: elements in any
order, tags in any letter case).

Definitions (the vocabulary of the theorem): `leafArg` (the constructor argument an element's text
stands for), `leafArgs` (the arguments by look-up), `kidsKnown`, `argsOK`, `namesFree`
(conformance), `denoteProp`, `denoteSec` / `denoteSecs` (structural over the tree), `denote`.
The constructors `createProp / createSec / createDoc` are shared with the reader model: what is
independent is everything `parse_tag` does around them (attribute loop, node loop with its state,
"given multiple times", foreign elements, `extra_args`, mandatory arguments, `append`).

Theorems: `leafStep_leafArg`, `readKids_denote` (node loop vs look-up, any parent kind),
`prop_denote`, `sec_denote` (mutual structural induction), `doc_denote`.
-/
import OdmlModel.Proofs.XmlRoundTree
set_option linter.unusedSimpArgs false

namespace Xml
open Py Py.Csv

/-! ## An independent denotation of conformant odML-XML -/

def X.tag : X → String | .elem t _ _ _ => t
def X.attrs : X → List (String × Str) | .elem _ a _ _ => a
def X.text : X → Option Str | .elem _ _ t _ => t
def X.kids : X → List X | .elem _ _ _ k => k

/-- the tag as the reader sees it (`node.tag.lower()`) -/
def ltag (x : X) : String := lowerS x.tag

/-- The constructor argument an element with argument name `py` and text `text` stands for
    (`none`: the text of a `<value>` is not csv). -/
def leafArg (py : String) (text : Option Str) : Option ArgV :=
  let cur : Option Str := match text with
    | none => none
    | some s => if s.isEmpty then none else some (strip s)
  let truthy := match cur with
    | some s => !s.isEmpty
    | none => false
  if py == "values" && truthy then
    match fromCsv (text.getD []) with
    | .ok vs => some (.vals vs)
    | .error _ => none
  else if "_cardinality".toList.isSuffixOf py.toList && truthy then
    some (.card (Card.parseCardText (text.getD [])))
  else some (.text cur)

/-- elements that are objects of their own under a parent of kind `κ` -/
def isChild (κ : Kind) (t : String) : Bool :=
  readerTags.contains t && (fmtOf κ).mapKeys.contains t

/-- the argument name of an element under a parent of kind `κ` -/
def argName (κ : Kind) (x : X) : String := (fmtOf κ).pyName (ltag x)

/-- the constructor arguments given by the leaf elements (look-up table, document order) -/
def leafArgs (κ : Kind) : List X → Option Args
  | [] => some []
  | x :: xs =>
    if isChild κ (ltag x) then leafArgs κ xs
    else match leafArg (argName κ x) x.text, leafArgs κ xs with
      | some v, some a => some ((argName κ x, v) :: a)
      | _, _ => none

/-- the names of `extra_args`: one per child element -/
def childNames (κ : Kind) : List X → List String
  | [] => []
  | x :: xs => if isChild κ (ltag x) then argName κ x :: childNames κ xs else childNames κ xs

/-- every element is a known key of the class; child elements are Sections or Properties -/
def kidsKnown (κ : Kind) (kids : List X) : Bool :=
  kids.all fun x => (fmtOf κ).keys.contains (ltag x) &&
    (!isChild κ (ltag x) || ltag x == Gen.Format.sectionName || ltag x == Gen.Format.propertyName)

/-- every mandatory argument of the class is there -/
def mandOK (κ : Kind) (a : Args) (kids : List X) : Bool :=
  (fmtOf κ).args.all fun kr =>
    kr.2 == 0 || (a.map (·.1) ++ childNames κ kids).contains ((fmtOf κ).pyName kr.1)

/-- no child would be refused by `SmartList.append` -/
def namesFree (names : List (Option Str)) : Bool := decide (names.filter Option.isSome).Nodup

def argsOK (κ : Kind) (a : Args) (kids : List X) : Bool :=
  decide (a.map (·.1)).Nodup && mandOK κ a kids

/-- the Property an element describes -/
def denoteProp (lib : TokLib) : X → Option PropT
  | .elem _ attrs _ kids =>
    if attrs.isEmpty && kidsKnown .prop kids then
      match leafArgs .prop kids with
      | some a =>
        if argsOK .prop a kids then
          match createProp lib a with
          | .ok p => some p
          | .error _ => none
        else none
      | none => none
    else none

/-- the Properties among the children, in order -/
def denoteProps (lib : TokLib) (κ : Kind) : List X → Option (List PropT)
  | [] => some []
  | x :: xs =>
    if isChild κ (ltag x) && ltag x != Gen.Format.sectionName then
      match denoteProp lib x, denoteProps lib κ xs with
      | some p, some ps => some (p :: ps)
      | _, _ => none
    else denoteProps lib κ xs

mutual
/-- the Section an element describes -/
def denoteSec (lib : TokLib) : X → Option SecT
  | .elem _ attrs _ kids =>
    if attrs.isEmpty && kidsKnown .sec kids then
      match leafArgs .sec kids, denoteSecs lib .sec kids, denoteProps lib .sec kids with
      | some a, some ss, some ps =>
        if argsOK .sec a kids && namesFree (ss.map SecT.effName) && namesFree (ps.map PropT.effName) then
          match createSec a with
          | .ok (.mk i n t d r l rp inc _ _ sc pc) => some (.mk i n t d r l rp inc ss ps sc pc)
          | .error _ => none
        else none
      | _, _, _ => none
    else none
/-- the Sections among the children, in order -/
def denoteSecs (lib : TokLib) (κ : Kind) : List X → Option (List SecT)
  | [] => some []
  | x :: xs =>
    if isChild κ (ltag x) && ltag x == Gen.Format.sectionName then
      match denoteSec lib x, denoteSecs lib κ xs with
      | some s, some ss => some (s :: ss)
      | _, _ => none
    else denoteSecs lib κ xs
end

/-- **The document a conformant odML-XML tree describes**, by look-up: elements in any order,
    tags in any letter case; `none` when the tree is not conformant (wrong root / version, foreign
    attribute or element, an argument given twice, a mandatory argument missing, a text its dtype
    or cardinality does not accept, sibling names that clash). -/
def denote (lib : TokLib) (x : X) : Option DocT :=
  match x with
  | .elem tag attrs _ kids =>
    if tag == "odML" && attrs.lookup "version" == some Gen.Format.formatVersion.toList &&
       attrs.all (fun kv => lowerS kv.1 == "version") && kidsKnown .doc kids then
      match leafArgs .doc kids, denoteSecs lib .doc kids with
      | some a, some ss =>
        if argsOK .doc a kids && namesFree (ss.map SecT.effName) then
          match createDoc lib a with
          | .ok d => some { d with secs := ss }
          | .error _ => none
        else none
      | _, _ => none
    else none

/-! ### the reader against the denotation -/

theorem leafStep_leafArg (m : Mode) (f : Fmt) (t : String) (text : Option Str) (st : PT) (v : ArgV)
    (hn : st.args.lookup (f.pyName t) = none) (h : leafArg (f.pyName t) text = some v) :
    leafStep m f t text st = .ok { st with args := (f.pyName t, v) :: st.args } := by
  cases text with
  | none =>
    simp [leafArg] at h
    subst h
    simp [leafStep, hn]
  | some s =>
    by_cases he : s.isEmpty = true
    · simp [leafArg, he] at h
      subst h
      simp [leafStep, hn, he]
    · have he' : s ≠ [] := by simpa using he
      by_cases hv : f.pyName t = "values" ∧ strip s ≠ []
      · simp [leafArg, he', hv.1, hv.2] at h
        cases hc : fromCsv s with
        | error e => simp [hc] at h
        | ok vs =>
          simp [hc] at h
          subst h
          rw [hv.1] at hn
          simp [leafStep, hn, he', hv.1, hv.2, hc]
      · by_cases hcard : "_cardinality".toList <:+ (f.pyName t).toList ∧ strip s ≠ []
        · have hnv : f.pyName t ≠ "values" := fun h' => hv ⟨h', hcard.2⟩
          have hsuf : ['_', 'c', 'a', 'r', 'd', 'i', 'n', 'a', 'l', 'i', 't', 'y'] <:+ (f.pyName t).toList := hcard.1
          simp [leafArg, he', hnv, hsuf, hcard.2] at h
          subst h
          simp [leafStep, hn, he', hnv, hsuf, hcard.2]
        · have h1 : (f.pyName t == "values" && !(strip s).isEmpty) = false := by
            by_cases hA : f.pyName t = "values"
            · have : strip s = [] := by
                by_cases hB : strip s = []
                · exact hB
                · exact absurd ⟨hA, hB⟩ hv
              simp [this]
            · simp [hA]
          have h2 : ("_cardinality".toList.isSuffixOf (f.pyName t).toList && !(strip s).isEmpty) = false := by
            by_cases hA : "_cardinality".toList <:+ (f.pyName t).toList
            · have : strip s = [] := by
                by_cases hB : strip s = []
                · exact hB
                · exact absurd ⟨hA, hB⟩ hcard
              simp [this]
            · have : "_cardinality".toList.isSuffixOf (f.pyName t).toList = false := by
                rw [Bool.eq_false_iff]; intro hh; exact hA (List.isSuffixOf_iff_suffix.mp hh)
              rw [this]; rfl
          simp only [leafArg, he, Bool.false_eq_true, if_false, h1, h2] at h
          cases h
          simp only [leafStep, hn, Option.isSome_none, Bool.false_eq_true, if_false, he, h1, h2]

theorem lookup_mem_of_some {β} : ∀ (l : List (String × β)) (a : String) (v : β),
    l.lookup a = some v → (a, v) ∈ l := by
  intro l
  induction l with
  | nil => intro a v h; simp [List.lookup] at h
  | cons x xs ih =>
    intro a v h
    obtain ⟨b, w⟩ := x
    by_cases hab : a = b
    · subst hab
      simp [List.lookup] at h
      subst h; simp
    · have : (a == b) = false := by simpa using hab
      simp only [List.lookup, this] at h
      exact List.mem_cons_of_mem _ (ih a v h)

/-- with distinct keys the order of an association list does not matter -/
theorem lookup_reverse_nodup {β} (l : List (String × β)) (h : (l.map (·.1)).Nodup) (n : String) :
    l.reverse.lookup n = l.lookup n := by
  have hr : (l.reverse.map (·.1)).Nodup := by
    rw [List.map_reverse]
    simp only [List.Nodup, List.pairwise_reverse] at h ⊢
    exact h.imp fun h => Ne.symm h
  cases hl : l.lookup n with
  | some v =>
    exact lookup_of_mem_nodup _ _ _ hr (by simpa using lookup_mem_of_some l n v hl)
  | none =>
    apply lookup_none_of_not_mem
    intro hm
    have hm' : n ∈ l.map (·.1) := by simpa using hm
    obtain ⟨⟨k, v⟩, hkv, rfl⟩ := List.mem_map.mp hm'
    rw [lookup_of_mem_nodup l k v h hkv] at hl
    cases hl

theorem getText_congr (a b : Args) (h : ∀ n, a.lookup n = b.lookup n) (n : String) :
    getText a n = getText b n := by simp only [getText, h]
theorem loadCard_congr (a b : Args) (h : ∀ n, a.lookup n = b.lookup n) (n : String) :
    loadCard a n = loadCard b n := by simp only [loadCard, h]
theorem createProp_congr (lib : TokLib) (a b : Args) (h : ∀ n, a.lookup n = b.lookup n) :
    createProp lib a = createProp lib b := by
  unfold createProp
  simp only [getText_congr a b h, loadCard_congr a b h, h]

theorem createSec_congr (a b : Args) (h : ∀ n, a.lookup n = b.lookup n) :
    createSec a = createSec b := by
  unfold createSec
  simp only [getText_congr a b h, loadCard_congr a b h, h]

theorem createDoc_congr (lib : TokLib) (a b : Args) (h : ∀ n, a.lookup n = b.lookup n) :
    createDoc lib a = createDoc lib b := by
  unfold createDoc
  simp only [getText_congr a b h]

theorem isChild_cases (κ : Kind) (t : String) (h : isChild κ t = true) :
    t = "odML" ∨ t = "section" ∨ t = "property" := by
  simp only [isChild, Bool.and_eq_true, readerTags, List.contains_cons, List.contains_nil,
    Bool.or_false, Bool.or_eq_true, beq_iff_eq] at h
  have e1 : Gen.Format.documentName = "odML" := by decide
  have e2 : Gen.Format.sectionName = "section" := by decide
  have e3 : Gen.Format.propertyName = "property" := by decide
  rw [e1, e2, e3] at h
  exact h.1

theorem isChild_prop (t : String) : isChild .prop t = false := by
  cases h : isChild .prop t with
  | false => rfl
  | true =>
    rcases isChild_cases .prop t h with rfl | rfl | rfl <;> revert h <;> decide

/-- **The node loop against the look-up denotation**, for any kind of parent. -/
theorem readKids_denote (m : Mode) (lib : TokLib) (κ : Kind) (tag : String) :
    ∀ (kids : List X) (st : PT) (a : Args) (ss : List SecT) (ps : List PropT),
      kidsKnown κ kids = true →
      leafArgs κ kids = some a → denoteSecs lib κ kids = some ss → denoteProps lib κ kids = some ps →
      (a.map (·.1)).Nodup → (∀ n ∈ a.map (·.1), st.args.lookup n = none) →
      (∀ x ∈ kids, isChild κ (ltag x) = true → ∀ s, denoteSec lib x = some s → ∀ tag w,
        readTag m lib .sec tag x w = .ok (.sec s, w)) →
      (∀ x ∈ kids, isChild κ (ltag x) = true → ∀ p, denoteProp lib x = some p → ∀ tag w,
        readTag m lib .prop tag x w = .ok (.prop p, w)) →
      readKids m lib κ tag kids st =
        .ok { args := a.reverse ++ st.args, extra := (childNames κ kids).reverse ++ st.extra,
              secs := st.secs ++ ss, props := st.props ++ ps, warns := st.warns } := by
  intro kids
  induction kids with
  | nil =>
    intro st a ss ps _ ha hs hp _ _ _ _
    simp only [leafArgs, denoteSecs, denoteProps, Option.some.injEq] at ha hs hp
    subst ha; subst hs; subst hp
    simp [readKids, childNames]
  | cons x xs ih =>
    intro st a ss ps hk ha hs hp hnd hfree Hs Hp
    obtain ⟨t, attrs, text, ks⟩ := x
    simp only [kidsKnown, List.all_cons, Bool.and_eq_true] at hk
    obtain ⟨⟨hkey, hkind⟩, hk'⟩ := hk
    have hk'' : kidsKnown κ xs = true := hk'
    have hlt : ltag (.elem t attrs text ks) = lowerS t := rfl
    rw [hlt] at hkey hkind
    rw [readKids.eq_2]
    simp only [hkey, if_true]
    by_cases hc : isChild κ (lowerS t) = true
    · have hc' : (readerTags.contains (lowerS t) && (fmtOf κ).mapKeys.contains (lowerS t)) = true := hc
      simp only [hc', if_true]
      rw [leafArgs] at ha
      simp only [hlt, hc, if_true] at ha
      by_cases hsec : lowerS t = Gen.Format.sectionName
      · -- a Section
        have hkt : kindOfTag (lowerS t) = .sec := by simp [kindOfTag, hsec]
        have hsecb : (lowerS t == Gen.Format.sectionName) = true := by simpa using hsec
        have hsecn : (lowerS t != Gen.Format.sectionName) = false := by simpa using hsec
        rw [denoteSecs] at hs
        simp only [hlt, hc, hsecb, Bool.and_self, if_true] at hs
        rw [denoteProps] at hp
        simp only [hlt, hc, hsecn, Bool.and_false, Bool.false_eq_true, if_false] at hp
        cases hds : denoteSec lib (.elem t attrs text ks) with
        | none => simp [hds] at hs
        | some s =>
          cases hdss : denoteSecs lib κ xs with
          | none => simp [hds, hdss] at hs
          | some ss' =>
            simp only [hds, hdss, Option.some.injEq] at hs
            subst hs
            rw [hkt, Hs (.elem t attrs text ks) (List.mem_cons_self ..) hc s hds]
            simp only
            rw [ih ⟨st.args, (fmtOf κ).pyName (lowerS t) :: st.extra, st.secs ++ [s], st.props, st.warns⟩
              a ss' ps hk'' ha hdss hp hnd hfree
              (fun y hy => Hs y (List.mem_cons_of_mem _ hy)) (fun y hy => Hp y (List.mem_cons_of_mem _ hy))]
            simp [childNames, hlt, hc, argName]
      · -- a Property
        have hprop : lowerS t = Gen.Format.propertyName := by
          simp only [hc, Bool.not_true, Bool.false_or, Bool.or_eq_true, beq_iff_eq] at hkind
          rcases hkind with h | h
          · exact absurd h hsec
          · exact h
        have hne : Gen.Format.propertyName ≠ Gen.Format.sectionName := by decide
        have hkt : kindOfTag (lowerS t) = .prop := by
          rw [hprop]; decide
        have hsec' : (lowerS t == Gen.Format.sectionName) = false := by simpa using hsec
        rw [denoteSecs] at hs
        simp only [hlt, hc, hsec', Bool.and_false, Bool.false_eq_true, if_false] at hs
        have hsec'' : (lowerS t != Gen.Format.sectionName) = true := by simpa using hsec
        rw [denoteProps] at hp
        simp only [hlt, hc, hsec'', Bool.and_self, if_true] at hp
        cases hdp : denoteProp lib (.elem t attrs text ks) with
        | none => simp [hdp] at hp
        | some p =>
          cases hdps : denoteProps lib κ xs with
          | none => simp [hdp, hdps] at hp
          | some ps' =>
            simp only [hdp, hdps, Option.some.injEq] at hp
            subst hp
            rw [hkt, Hp (.elem t attrs text ks) (List.mem_cons_self ..) hc p hdp]
            simp only
            rw [ih ⟨st.args, (fmtOf κ).pyName (lowerS t) :: st.extra, st.secs, st.props ++ [p], st.warns⟩
              a ss ps' hk'' ha hs hdps hnd hfree
              (fun y hy => Hs y (List.mem_cons_of_mem _ hy)) (fun y hy => Hp y (List.mem_cons_of_mem _ hy))]
            simp [childNames, hlt, hc, argName]
    · have hc0 : isChild κ (lowerS t) = false := by simpa using hc
      have hc' : (readerTags.contains (lowerS t) && (fmtOf κ).mapKeys.contains (lowerS t)) = false := hc0
      simp only [hc', Bool.false_eq_true, if_false]
      rw [leafArgs] at ha
      simp only [hlt, hc0, Bool.false_eq_true, if_false, argName, X.text] at ha
      rw [denoteSecs] at hs
      simp only [hlt, hc0, Bool.false_and, Bool.false_eq_true, if_false] at hs
      rw [denoteProps] at hp
      simp only [hlt, hc0, Bool.false_and, Bool.false_eq_true, if_false] at hp
      cases hv : leafArg ((fmtOf κ).pyName (lowerS t)) text with
      | none => simp [hv] at ha
      | some v =>
        cases hla : leafArgs κ xs with
        | none => simp [hv, hla] at ha
        | some a' =>
          simp only [hv, hla, Option.some.injEq] at ha
          subst ha
          simp only [List.map_cons, List.nodup_cons] at hnd
          have hn0 := hfree ((fmtOf κ).pyName (lowerS t)) (by simp)
          rw [leafStep_leafArg m (fmtOf κ) (lowerS t) text st v hn0 hv]
          simp only
          rw [ih ⟨((fmtOf κ).pyName (lowerS t), v) :: st.args, st.extra, st.secs, st.props, st.warns⟩
            a' ss ps hk'' hla hs hp hnd.2 _
            (fun y hy => Hs y (List.mem_cons_of_mem _ hy)) (fun y hy => Hp y (List.mem_cons_of_mem _ hy))]
          · simp [childNames, hlt, hc0]
          · intro n hn
            have hne : n ≠ (fmtOf κ).pyName (lowerS t) := by
              rintro rfl; exact hnd.1 hn
            have : (n == (fmtOf κ).pyName (lowerS t)) = false := by simpa using hne
            simp only [List.lookup, this]
            exact hfree n (by simp [hn])

theorem appendSecs_free (m : Mode) : ∀ (cs have_ : List SecT) (w : Nat),
    namesFree ((have_ ++ cs).map SecT.effName) = true →
    appendSecs m have_ cs w = .ok (have_ ++ cs, w) := by
  intro cs
  induction cs with
  | nil => intro h w _; simp [appendSecs]
  | cons c cs ih =>
    intro h w hn
    have hnot : (c.effName.isSome && (h.map SecT.effName).contains c.effName) = false := by
      cases hs : c.effName.isSome with
      | false => rfl
      | true =>
        simp only [Bool.true_and, List.contains_eq_mem, decide_eq_false_iff_not]
        intro hm
        simp only [namesFree, decide_eq_true_eq, List.map_append, List.map_cons,
          List.filter_append, List.filter_cons, hs, if_true] at hn
        have := (List.nodup_append.mp hn).2.2
        exact this _ (List.mem_filter.mpr ⟨hm, hs⟩) _ (by simp) rfl
    have := ih (h ++ [c]) w (by simpa using hn)
    rw [appendSecs]
    simp only [hnot, Bool.false_eq_true, if_false, this, List.append_assoc, List.singleton_append]

theorem appendProps_free (m : Mode) : ∀ (cs have_ : List PropT) (w : Nat),
    namesFree ((have_ ++ cs).map PropT.effName) = true →
    appendProps m have_ cs w = .ok (have_ ++ cs, w) := by
  intro cs
  induction cs with
  | nil => intro h w _; simp [appendProps]
  | cons c cs ih =>
    intro h w hn
    have hnot : (c.effName.isSome && (h.map PropT.effName).contains c.effName) = false := by
      cases hs : c.effName.isSome with
      | false => rfl
      | true =>
        simp only [Bool.true_and, List.contains_eq_mem, decide_eq_false_iff_not]
        intro hm
        simp only [namesFree, decide_eq_true_eq, List.map_append, List.map_cons,
          List.filter_append, List.filter_cons, hs, if_true] at hn
        have := (List.nodup_append.mp hn).2.2
        exact this _ (List.mem_filter.mpr ⟨hm, hs⟩) _ (by simp) rfl
    have := ih (h ++ [c]) w (by simpa using hn)
    rw [appendProps]
    simp only [hnot, Bool.false_eq_true, if_false, this, List.append_assoc, List.singleton_append]

/-- the mandatory-argument check against `mandOK` -/
theorem mandatory_of_mandOK (m : Mode) (κ : Kind) (a : Args) (kids : List X) (e : List String)
    (w : Nat) (h : mandOK κ a kids = true) :
    mandatoryLoop m (fmtOf κ) ((a.reverse ++ ([] : Args)).map (fun x => x.1) ++ ((childNames κ kids).reverse ++ e))
      (fmtOf κ).args w = .ok w := by
  apply mandatory_ok
  intro kr hkr hreq
  simp only [mandOK, List.all_eq_true] at h
  have := h kr hkr
  simp only [Bool.or_eq_true, beq_iff_eq, List.contains_eq_mem, decide_eq_true_eq] at this
  rcases this with h0 | hm
  · exact absurd h0 hreq
  · simp only [List.mem_append, List.mem_map] at hm
    simp only [List.append_nil, List.map_reverse, List.mem_append, List.mem_reverse, List.mem_map]
    rcases hm with hm | hm
    · exact Or.inl hm
    · exact Or.inr (Or.inl hm)

/-- **A conformant Property element** is read as the Property it denotes, no warning. -/
theorem prop_denote (m : Mode) (lib : TokLib) (x : X) (p : PropT) (h : denoteProp lib x = some p)
    (tag : String) (w : Nat) : readTag m lib .prop tag x w = .ok (.prop p, w) := by
  obtain ⟨t, attrs, text, kids⟩ := x
  simp only [denoteProp] at h
  by_cases hc : (attrs.isEmpty && kidsKnown .prop kids) = true
  · rw [if_pos hc] at h
    simp only [Bool.and_eq_true, List.isEmpty_iff] at hc
    obtain ⟨hattrs, hknown⟩ := hc
    cases ha : leafArgs .prop kids with
    | none => simp [ha] at h
    | some a =>
      simp only [ha] at h
      by_cases hok : argsOK .prop a kids = true
      · rw [if_pos hok] at h
        simp only [argsOK, Bool.and_eq_true, decide_eq_true_eq] at hok
        cases hcr : createProp lib a with
        | error e => simp [hcr] at h
        | ok p' =>
          simp only [hcr, Option.some.injEq] at h
          subst h
          have hs : denoteSecs lib .prop kids = some [] := by
            clear ha hknown hok hcr
            induction kids with
            | nil => rfl
            | cons y ys ih => rw [denoteSecs]; simp [isChild_prop, ih]
          have hp : denoteProps lib .prop kids = some [] := by
            clear ha hknown hok hcr hs
            induction kids with
            | nil => rfl
            | cons y ys ih => rw [denoteProps]; simp [isChild_prop, ih]
          have hkids := readKids_denote m lib .prop tag kids ⟨[], [], [], [], w⟩ a [] [] hknown ha hs hp
            hok.1 (fun _ _ => rfl)
            (fun y _ hy => by rw [isChild_prop] at hy; cases hy)
            (fun y _ hy => by rw [isChild_prop] at hy; cases hy)
          subst hattrs
          rw [readTag.eq_1]
          simp only [attrLoop, hkids, mandatory_of_mandOK m .prop a kids [] w hok.2]
          rw [createProp_congr lib (a.reverse ++ []) a
            (fun n => by rw [List.append_nil]; exact lookup_reverse_nodup a hok.1 n), hcr]
      · rw [if_neg hok] at h; cases h
  · rw [if_neg hc] at h; cases h

/-- a conformant Section element, given that its child Sections are read as they denote -/
theorem sec_denote_core (m : Mode) (lib : TokLib) (t : String) (attrs : List (String × Str))
    (text : Option Str) (kids : List X)
    (Hkids : ∀ y ∈ kids, ∀ s, denoteSec lib y = some s → ∀ tag w,
      readTag m lib .sec tag y w = .ok (.sec s, w))
    (s : SecT) (h : denoteSec lib (.elem t attrs text kids) = some s) (tag : String) (w : Nat) :
    readTag m lib .sec tag (.elem t attrs text kids) w = .ok (.sec s, w) := by
  rw [denoteSec] at h
  by_cases hc : (attrs.isEmpty && kidsKnown .sec kids) = true
  · rw [if_pos hc] at h
    simp only [Bool.and_eq_true, List.isEmpty_iff] at hc
    obtain ⟨hattrs, hknown⟩ := hc
    cases ha : leafArgs .sec kids with
    | none => simp [ha] at h
    | some a =>
      cases hss : denoteSecs lib .sec kids with
      | none => simp [ha, hss] at h
      | some ss =>
        cases hps : denoteProps lib .sec kids with
        | none => simp [ha, hss, hps] at h
        | some ps =>
          simp only [ha, hss, hps] at h
          by_cases hok : (argsOK .sec a kids && namesFree (ss.map SecT.effName) &&
              namesFree (ps.map PropT.effName)) = true
          · rw [if_pos hok] at h
            simp only [argsOK, Bool.and_eq_true, decide_eq_true_eq] at hok
            obtain ⟨⟨⟨hnd, hmand⟩, hfs⟩, hfp⟩ := hok
            cases hcr : createSec a with
            | error e => simp [hcr] at h
            | ok s0 =>
              obtain ⟨i, n, ty, d, r, l, rp, inc, s1, p1, sc, pc⟩ := s0
              simp only [hcr, Option.some.injEq] at h
              subst h
              have hkids := readKids_denote m lib .sec tag kids ⟨[], [], [], [], w⟩ a ss ps hknown ha
                hss hps hnd (fun _ _ => rfl) (fun y hy _ => Hkids y hy)
                (fun y _ _ p hp => prop_denote m lib y p hp)
              have happS := appendSecs_free m ss [] w (by simpa using hfs)
              have happP := appendProps_free m ps [] w (by simpa using hfp)
              subst hattrs
              rw [readTag.eq_1]
              simp only [attrLoop, hkids, mandatory_of_mandOK m .sec a kids [] w hmand]
              rw [createSec_congr (a.reverse ++ []) a
                (fun n => by rw [List.append_nil]; exact lookup_reverse_nodup a hnd n), hcr]
              simp only [List.nil_append] at happS happP ⊢
              simp only [happS, happP]
          · rw [if_neg hok] at h; cases h
  · rw [if_neg hc] at h; cases h

mutual
/-- **A conformant Section element at any depth** is read as the Section it denotes. -/
theorem sec_denote (m : Mode) (lib : TokLib) : (x : X) → ∀ s, denoteSec lib x = some s →
    ∀ (tag : String) (w : Nat), readTag m lib .sec tag x w = .ok (.sec s, w)
  | .elem t attrs text kids => fun s h tag w =>
    sec_denote_core m lib t attrs text kids (kids_denote m lib kids) s h tag w
theorem kids_denote (m : Mode) (lib : TokLib) : (kids : List X) → ∀ y ∈ kids, ∀ s,
    denoteSec lib y = some s → ∀ (tag : String) (w : Nat),
      readTag m lib .sec tag y w = .ok (.sec s, w)
  | [] => by intro y hy; cases hy
  | x :: xs => by
    intro y hy
    by_cases hyx : y = x
    · rw [hyx]; exact sec_denote m lib x
    · have : y ∈ xs := by
        rcases List.mem_cons.mp hy with h | h
        · exact absurd h hyx
        · exact h
      exact kids_denote m lib xs y this
end

theorem isChild_doc (t : String) (h : isChild .doc t = true) : t = Gen.Format.sectionName := by
  rcases isChild_cases .doc t h with rfl | rfl | rfl
  · revert h; decide
  · decide
  · revert h; decide

theorem denoteProps_doc (lib : TokLib) : ∀ kids : List X, denoteProps lib .doc kids = some [] := by
  intro kids
  induction kids with
  | nil => rfl
  | cons x xs ih =>
    rw [denoteProps]
    by_cases hc : isChild .doc (ltag x) = true
    · have := isChild_doc _ hc
      simp [this, ih]
    · simp [hc, ih]

theorem attrLoop_ok (m : Mode) (w : Nat) : ∀ attrs : List (String × Str),
    attrs.all (fun kv => lowerS kv.1 == "version") = true → attrLoop m "odML" attrs w = .ok w := by
  intro attrs
  induction attrs with
  | nil => intro _; rfl
  | cons kv rest ih =>
    intro h
    obtain ⟨k, v⟩ := kv
    simp only [List.all_cons, Bool.and_eq_true] at h
    simp [attrLoop, h.1, ih h.2]

/-- **`xml_denote`**: the reader applied to a conformant tree returns exactly the document the
    tree denotes, without warnings, in either mode. -/
theorem doc_denote (m : Mode) (lib : TokLib) (x : X) (d : DocT) (h : denote lib x = some d) :
    readXml m lib x = .ok (d, 0) := by
  obtain ⟨tag, attrs, text, kids⟩ := x
  simp only [denote] at h
  by_cases hc : (tag == "odML" && attrs.lookup "version" == some Gen.Format.formatVersion.toList &&
      attrs.all (fun kv => lowerS kv.1 == "version") && kidsKnown .doc kids) = true
  · rw [if_pos hc] at h
    simp only [Bool.and_eq_true, beq_iff_eq] at hc
    obtain ⟨⟨⟨htag, hver⟩, hattrs⟩, hknown⟩ := hc
    cases ha : leafArgs .doc kids with
    | none => simp [ha] at h
    | some a =>
      cases hss : denoteSecs lib .doc kids with
      | none => simp [ha, hss] at h
      | some ss =>
        simp only [ha, hss] at h
        by_cases hok : (argsOK .doc a kids && namesFree (ss.map SecT.effName)) = true
        · rw [if_pos hok] at h
          simp only [argsOK, Bool.and_eq_true, decide_eq_true_eq] at hok
          obtain ⟨⟨hnd, hmand⟩, hfs⟩ := hok
          cases hcr : createDoc lib a with
          | error e => simp [hcr] at h
          | ok d0 =>
            simp only [hcr, Option.some.injEq] at h
            subst h
            have hkids := readKids_denote m lib .doc "odML" kids ⟨[], [], [], [], 0⟩ a ss [] hknown ha
              hss (denoteProps_doc lib kids) hnd (fun _ _ => rfl)
              (fun y _ _ => sec_denote m lib y)
              (fun y _ _ p hp => prop_denote m lib y p hp)
            have happS := appendSecs_free m ss [] 0 (by simpa using hfs)
            subst htag
            unfold readXml
            simp only [bne_self_eq_false, Bool.false_eq_true, if_false, hver]
            rw [readTag.eq_1]
            simp only [attrLoop_ok m 0 attrs hattrs, hkids, mandatory_of_mandOK m .doc a kids [] 0 hmand]
            rw [createDoc_congr lib (a.reverse ++ []) a
              (fun n => by rw [List.append_nil]; exact lookup_reverse_nodup a hnd n), hcr]
            simp only [List.nil_append] at happS ⊢
            simp only [happS]
        · rw [if_neg hok] at h; cases h
  · rw [if_neg hc] at h; cases h

end Xml
