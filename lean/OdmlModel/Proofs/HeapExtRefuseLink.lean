/-
Refusals of the compound operations (property C06), part 3: the link setter.

`x.link = <path of t>` cleans `x` (when a link is stored), merges `t` and, when that merge is
refused, resolves the previous link again if it had been resolved. When nothing is merged anywhere
(`clean()` finds nothing to undo) or `x` has no link yet, the refused assignment leaves the state
it found.
-/
import OdmlModel.Proofs.HeapExtRefuseAll

set_option linter.unusedSimpArgs false
set_option linter.unusedVariables false

namespace Heap.Refuse

theorem liveLoop_noop {σ : Type} (lst : σ → List Nat) (body : σ → Nat → σ × XOut) (t : σ)
    (hb : ∀ o ∈ lst t, body t o = (t, .ok) ∨ body t o = (t, .fuel)) :
    ∀ (fuel i : Nat), liveLoop lst body fuel i t = (t, .ok) ∨ liveLoop lst body fuel i t = (t, .fuel) := by
  intro fuel
  induction fuel with
  | zero => intro i; exact Or.inr rfl
  | succ fuel ih =>
    intro i
    unfold liveLoop
    split
    · exact Or.inl rfl
    · rename_i obj hget
      rcases hb obj (List.mem_of_getElem? hget) with h | h
      · rw [h]; exact ih (i + 1)
      · rw [h]; exact Or.inr rfl

/-- `clean()` where no Section is merged: nothing to undo. -/
theorem cleanAux_noop (O : Oracle) (s : X) (w : WF s.h)
    (hm : ∀ i, i < s.h.size → s.merged i = none) :
    ∀ (fuel x : Nat), x < s.h.size →
      (cleanAux O fuel s x = (s, .ok) ∨ cleanAux O fuel s x = (s, .fuel)) := by
  intro fuel
  induction fuel with
  | zero => intro x _; exact Or.inr rfl
  | succ fuel ih =>
    intro x hx
    have hu : unmergeIfMerged O fuel s x = (s, .ok) := by
      unfold unmergeIfMerged
      rw [hm x hx]
      cases (s.h.node x).kind <;> rfl
    unfold cleanAux
    rw [hu]
    exact liveLoop_noop _ _ s
      (fun o ho => ih o (w.child_lt ((w.memS x o).mp ho).1)) fuel 0

/-- The `_merge` of the model answers `.ok`, `.fuel` or raises ValueError with nothing changed. -/
theorem mergeAux_outcomes (O : Oracle) (fuel : Nat) (s : X) (record : Bool) (dest src : Nat)
    (w : WF s.h) (hn : NoEmptyName s.h)
    (kd : (s.h.node dest).kind = .sec) (ks : (s.h.node src).kind = .sec)
    (nds : ¬ Anc s.h dest src) (nsd : ¬ Anc s.h src dest) :
    (mergeAux O fuel s record dest src).2 = .ok ∨ (mergeAux O fuel s record dest src).2 = .fuel ∨
    mergeAux O fuel s record dest src = (s, .raised .valueError) := by
  cases fuel with
  | zero => exact Or.inr (Or.inl rfl)
  | succ f =>
    rcases mergeAux_cases O f s record dest src with h | h | ⟨h1, h2⟩
    · rw [h]; exact Or.inr (Or.inl rfl)
    · exact Or.inr (Or.inr h)
    · rcases mergeAux_no_raise O f s record dest src w hn kd ks nds nsd h1 h2 with h | h
      · exact Or.inl h
      · exact Or.inr (Or.inl h)

/-- The link setter is all-or-nothing on a Section that has no link yet, and wherever no Section
    is merged. -/
theorem setLinkAux_all_or_nothing (O : Oracle) (fuel : Nat) (s : X) (x t : Nat)
    (w : WF s.h) (hn : NoEmptyName s.h) (hx : x < s.h.size)
    (kx : (s.h.node x).kind = .sec) (kt : (s.h.node t).kind = .sec)
    (nd1 : ¬ Anc s.h x t) (nd2 : ¬ Anc s.h t x)
    (hclean : s.link x = false ∨ ∀ i, i < s.h.size → s.merged i = none) (e : Exc)
    (hr : (setLinkAux O fuel s x (.path (some t))).2 = .raised e) :
    setLinkAux O fuel s x (.path (some t)) = (s, .raised .valueError) := by
  have hres : s.resolved x = false := by
    unfold X.resolved
    rcases hclean with h | h
    · rw [h]; simp
    · rw [h x hx]; simp
  have hcl : cleanIfLinked O fuel s x = (s, .ok) ∨ cleanIfLinked O fuel s x = (s, .fuel) := by
    unfold cleanIfLinked
    split
    · rename_i hl
      rcases hclean with h | h
      · rw [h] at hl; cases hl
      · exact cleanAux_noop O s w h fuel x hx
    · exact Or.inl rfl
  unfold setLinkAux at hr ⊢
  split
  · rename_i hp; rw [hp] at hr; cases hr
  · rename_i p hp
    rw [hp] at hr
    simp only at hr ⊢
    rcases hcl with hc | hc
    · rw [hc] at hr ⊢
      simp only at hr ⊢
      rcases mergeAux_outcomes O fuel s true x t w hn kx kt nd1 nd2 with h | h | h
      · generalize mergeAux O fuel s true x t = r at h hr
        obtain ⟨s2, out⟩ := r
        simp only at h; subst h
        simp only at hr; cases hr
      · generalize mergeAux O fuel s true x t = r at h hr
        obtain ⟨s2, out⟩ := r
        simp only at h; subst h
        simp only at hr; cases hr
      · rw [h]
        simp only [hres, Bool.false_eq_true, if_false]
    · rw [hc] at hr
      simp only at hr; cases hr

end Heap.Refuse
