/-
Helper lemmas for the parent-setter theorems of C14 (`Props/C14.lean`, section 5d).
-/
import OdmlModel.Model.PathMove

namespace PathMove
open PathTree

/-- the (name, type) view of a child list of Sections -/
def kids (l : List Sec) : List Kid := l.map (fun s => ⟨s.name, s.type⟩)

theorem kids_names (l : List Sec) : (kids l).map (·.name) = l.map (·.name) := by
  simp [kids, List.map_map, Function.comp_def]

theorem kids_append (l : List Sec) (x : Sec) : kids (l ++ [x]) = kids l ++ [⟨x.name, x.type⟩] := by
  simp [kids]

theorem nameTaken_false (l : List Kid) (x : Kid) (h : nameTaken l x = false) :
    (l.map (·.name)).contains x.name = false := by
  induction l with
  | nil => simp
  | cons k r ih =>
    simp only [nameTaken, List.any_cons, Bool.or_eq_false_iff] at h
    have h2 := ih (by simpa [nameTaken] using h.2)
    have h1 : k.name ≠ x.name := by simpa using h.1
    simp only [List.map_cons, List.contains_cons, Bool.or_eq_false_iff]
    exact ⟨by simpa using fun e => h1 e.symm, h2⟩

theorem distinct_append_one (l : List Str) (v : Str) (hd : distinct l = true)
    (hc : l.contains v = false) : distinct (l ++ [v]) = true := by
  induction l with
  | nil => simp [distinct]
  | cons n r ih =>
    simp only [distinct, Bool.and_eq_true, Bool.not_eq_true'] at hd
    simp only [List.contains_cons, Bool.or_eq_false_iff] at hc
    have hvn : v ≠ n := by simpa using hc.1
    simp only [List.cons_append, distinct, Bool.and_eq_true, Bool.not_eq_true']
    refine ⟨?_, ih hd.2 hc.2⟩
    cases hm : (r ++ [v]).contains n with
    | false => rfl
    | true =>
      exfalso
      have hmem : n ∈ r ++ [v] := by simpa using hm
      rcases List.mem_append.mp hmem with h | h
      · have : r.contains n = true := by simpa using h
        rw [this] at hd; exact absurd hd.1 (by simp)
      · have e : n = v := by simpa using h
        exact hvn e.symm

theorem distinct_eraseIdx (l : List Str) (i : Nat) (hd : distinct l = true) :
    distinct (l.eraseIdx i) = true := by
  induction l generalizing i with
  | nil => simp [distinct]
  | cons n r ih =>
    simp only [distinct, Bool.and_eq_true, Bool.not_eq_true'] at hd
    cases i with
    | zero => simpa using hd.2
    | succ j =>
      simp only [List.eraseIdx_cons_succ, distinct, Bool.and_eq_true, Bool.not_eq_true']
      refine ⟨?_, ih j hd.2⟩
      cases hm : (r.eraseIdx j).contains n with
      | false => rfl
      | true =>
        exfalso
        have hmem : n ∈ r.eraseIdx j := by simpa using hm
        have : r.contains n = true := by simpa using List.mem_of_mem_eraseIdx hmem
        rw [this] at hd; exact absurd hd.1 (by simp)

theorem map_name_eraseIdx (l : List Kid) (i : Nat) :
    (l.eraseIdx i).map (·.name) = (l.map (·.name)).eraseIdx i := by
  induction l generalizing i with
  | nil => simp
  | cons k r ih =>
    cases i with
    | zero => simp
    | succ j => simp [ih j]

theorem wfList_append_one (l : List Sec) (x : Sec) (hl : wfList l = true) (hx : x.wf = true) :
    wfList (l ++ [x]) = true := by
  induction l with
  | nil => simp [Sec.wf.wfList, hx]
  | cons s r ih =>
    simp only [Sec.wf.wfList, Bool.and_eq_true] at hl
    simp only [List.cons_append, Sec.wf.wfList, Bool.and_eq_true]
    exact ⟨hl.1, ih hl.2⟩

theorem wfList_eraseIdx (l : List Sec) (i : Nat) (hl : wfList l = true) :
    wfList (l.eraseIdx i) = true := by
  induction l generalizing i with
  | nil => simp [Sec.wf.wfList]
  | cons s r ih =>
    simp only [Sec.wf.wfList, Bool.and_eq_true] at hl
    cases i with
    | zero => simpa using hl.2
    | succ j =>
      simp only [List.eraseIdx_cons_succ, Sec.wf.wfList, Bool.and_eq_true]
      exact ⟨hl.1, ih j hl.2⟩

end PathMove
