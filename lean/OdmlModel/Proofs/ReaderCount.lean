/-
C16 — every object of a returned document is the result of one constructor call of its own: the
returned tree has no more objects than `callsTag` lists constructor calls (the calls the harness
replays on the real constructors).
-/
import OdmlModel.Model.Reader
import OdmlModel.Proofs.Reader
import OdmlModel.Proofs.ReaderSpec
import OdmlModel.Proofs.ReaderDenote
import OdmlModel.Proofs.ReaderWF

set_option linter.unusedSimpArgs false
set_option linter.unusedVariables false

namespace Reader

mutual
/-- number of objects in a tree -/
def Obj.count : Obj ν → Nat
  | .mk _ _ _ ps ss => 1 + Obj.countList ps + Obj.countList ss
def Obj.countList : List (Obj ν) → Nat
  | [] => 0
  | o :: rest => Obj.count o + Obj.countList rest
end

theorem countList_append (a b : List (Obj ν)) :
    Obj.countList (a ++ b) = Obj.countList a + Obj.countList b := by
  induction a with
  | nil => simp [Obj.countList]
  | cons x xs ih => simp only [List.cons_append, Obj.countList, ih]; omega

theorem countList_kept_le (eq : ν → ν → Bool) (acc l : List (Obj ν)) :
    Obj.countList (kept eq acc l) ≤ Obj.countList acc + Obj.countList l := by
  induction l generalizing acc with
  | nil => simp [kept, Obj.countList]
  | cons c cs ih =>
    unfold kept
    split
    · have := ih acc
      simp only [Obj.countList]
      omega
    · have := ih (acc ++ [c])
      rw [countList_append] at this
      simp only [Obj.countList] at this ⊢
      omega

theorem countList_split_le (pk : Kind) (cs : List (Obj ν)) :
    Obj.countList (cs.filter (goesTo pk false)) + Obj.countList (cs.filter (goesTo pk true))
      ≤ Obj.countList cs := by
  induction cs with
  | nil => simp [Obj.countList]
  | cons c cs ih =>
    simp only [List.filter_cons]
    by_cases h1 : goesTo pk false c = true
    · have h2 : goesTo pk true c = false := by
        simp only [goesTo, beq_iff_eq] at h1
        simp [goesTo, h1]
      simp only [h1, h2, if_true, Bool.false_eq_true, if_false, Obj.countList]
      omega
    · by_cases h2 : goesTo pk true c = true
      · simp only [h1, h2, if_true, Bool.false_eq_true, if_false, Obj.countList]
        omega
      · simp only [h1, h2, Bool.false_eq_true, if_false, Obj.countList]
        omega

theorem count_keepValid_le (eq : ν → ν → Bool) (k : Kind) (n : Name ν) (b : Bool) (cs : List (Obj ν)) :
    Obj.count (keepValid eq (.mk k n b [] []) cs) ≤ 1 + Obj.countList cs := by
  simp only [keepValid, Obj.kind_mk, Obj.name_mk, Obj.made_mk, Obj.props_mk, Obj.secs_mk, Obj.count]
  have h1 := countList_kept_le eq [] (cs.filter (goesTo k false))
  have h2 := countList_kept_le eq [] (cs.filter (goesTo k true))
  have h3 := countList_split_le k cs
  simp only [Obj.countList] at h1 h2
  omega

theorem kidClass_object_iff (kind : Kind) (t : Str) (k' : Kind) :
    kidClass kind t = .object k' ↔
      (isArgKey kind t = true ∧ kindOfTag t = some k' ∧ inMapKeys kind t = true) := by
  unfold kidClass
  cases h1 : isArgKey kind t <;> cases h2 : kindOfTag t <;> cases h3 : inMapKeys kind t <;> simp

theorem callsKids_cons_elem (g : Guards) (env : Env) (kind : Kind) (t0 : Str) (attrs : List (Str × Str))
    (text : Option Str) (kids rest : List Xml) :
    callsKids g env kind (.elem t0 attrs text kids :: rest)
      = match kidClass kind (Py.lower t0) with
        | .object k' => callsTag g env k' (.elem t0 attrs text kids) ++ callsKids g env kind rest
        | _ => callsKids g env kind rest := by
  rw [callsKids]
  unfold kidClass
  cases h1 : isArgKey kind (Py.lower t0) <;> cases h2 : kindOfTag (Py.lower t0) <;>
    cases h3 : inMapKeys kind (Py.lower t0) <;> simp

theorem callsTag_length (g : Guards) (hg : g.XmlOk) (env : Env) (kind : Kind) (t : Str)
    (a : List (Str × Str)) (tx : Option Str) (ks : List Xml) :
    (callsTag g env kind (.elem t a tx ks)).length = (callsKids g env kind ks).length + 1 := by
  rw [callsTag]
  obtain ⟨st, hst⟩ := Conv.lenient_ok ((parse_conv g hg env .lenient).2 ks kind ⟨[], [], [], 0⟩)
  rw [hst]
  simp

/-- **Every object constructed once**: the returned tree has at most as many objects as the read
    makes constructor calls `fmt.create(**arguments)` (one per object element of the input). -/
theorem denote_count_le_calls (g : Guards) (hg : g.XmlOk) (env : Env) (x : Xml) :
    ∀ (kind : Kind) (insert : Bool), (∃ t a tx ks, x = .elem t a tx ks) →
      Obj.count (denoteTag env kind insert x) ≤ (callsTag g env kind x).length := by
  induction x using Xml.rec
    (motive_2 := fun ks => ∀ (kind : Kind),
      Obj.countList (denoteKids env kind ks) ≤ (callsKids g env kind ks).length) with
  | other k =>
    intro kind insert ⟨t, a, tx, ks, h⟩
    cases h
  | elem t a tx ks ih =>
    intro kind insert _
    rw [callsTag_length g hg]
    simp only [denoteTag, attach]
    obtain ⟨n, b, hc, _⟩ := created_shape env kind (specArgs env kind ks [])
    rw [hc]
    cases insert with
    | true =>
      simp only [if_true]
      have h1 := count_keepValid_le (fun (a b : Str) => a == b) kind n b (denoteKids env kind ks)
      have h2 := ih kind
      omega
    | false =>
      simp [Obj.count, Obj.countList]
  | nil =>
    rename_i kind
    simp [denoteKids, Obj.countList]
  | cons x rest ihx ihr =>
    rename_i kind
    cases x with
    | other k =>
      simp only [denoteKids, callsKids]
      exact ihr kind
    | elem t0 attrs text kids =>
      rw [callsKids_cons_elem]
      cases hc : kidClass kind (Py.lower t0) with
      | object k' =>
        simp only [denoteKids, hc, Obj.countList, List.length_append]
        have h1 := ihx k' (k' != .prop) ⟨_, _, _, _, rfl⟩
        have h2 := ihr kind
        omega
      | arg =>
        simp only [denoteKids, hc]
        exact ihr kind
      | unknown =>
        simp only [denoteKids, hc]
        exact ihr kind

end Reader
