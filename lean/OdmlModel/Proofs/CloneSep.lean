/-
C11 helper lemmas, part 6: separation. A block of new locations that is closed in itself and the
store it was added to never influence each other through editing operations.
-/
import OdmlModel.Proofs.CloneExport
namespace Clone

/-- Everything that exists in `h`. -/
def Old (h : H) : Reg := ⟨fun a => a < h.nN, fun a => a < h.nV, fun a => a < h.nT⟩

/-- Every reference held by an existing object or list points to something that exists
    (no dangling references; part of the well-formedness C03 is about). -/
def Scoped (h : H) : Prop := Closed h (Old h)

/-- Everything except the block `[h, h')`. -/
def NotBlock (h h' : H) : Reg :=
  ⟨fun a => a < h.nN ∨ h'.nN ≤ a, fun a => a < h.nV ∨ h'.nV ≤ a, fun a => a < h.nT ∨ h'.nT ≤ a⟩

/-- The block is unchanged between two stores. -/
def BlockSame (h h' k k' : H) : Prop :=
  (∀ a, h.nN ≤ a → a < h'.nN → k'.node a = k.node a) ∧ (∀ a, h.nV ≤ a → a < h'.nV → k'.vcell a = k.vcell a) ∧
  (∀ a, h.nT ≤ a → a < h'.nT → k'.tcell a = k.tcell a)

theorem st_since {h h' : H} (e : Ext h h') (c : Closed h' (Sn h)) : St (Sn h) h' := ⟨c, future_sn e.1⟩

/-- Edits applied to the new block (and to whatever is created later) never change anything that
    existed before the block was made. -/
theorem later_edits_preserve {h h' : H} (e : Ext h h') (c : Closed h' (Sn h)) (ops : List Op)
    (ho : OpsIn (Sn h) ops) : Below h (run h' ops) := by
  have g := run_good ops h' (st_since e c) ho
  refine ⟨fun a ha => ?_, fun a ha => ?_, fun a ha => ?_⟩
  · rw [g.frame.1 a (by simp only [Sn]; omega), e.2.1 a ha]
  · rw [g.frame.2.1 a (by simp only [Sn]; omega), e.2.2.1 a ha]
  · rw [g.frame.2.2 a (by simp only [Sn]; omega), e.2.2.2 a ha]

theorem st_notBlock {h h' : H} (sc : Scoped h) (e : Ext h h') : St (NotBlock h h') h' := by
  have le : (Old h).le (NotBlock h h') := ⟨fun a ha => Or.inl ha, fun a ha => Or.inl ha, fun a ha => Or.inl ha⟩
  refine ⟨⟨fun a ha hl => ?_, fun a ha hl => ?_⟩,
    ⟨fun a ha => Or.inr ha, fun a ha => Or.inr ha, fun a ha => Or.inr ha⟩⟩
  · rcases ha with ha | ha
    · rw [e.2.1 a ha]; exact (sc.1 a ha ha).mono le
    · omega
  · rcases ha with ha | ha
    · rw [e.2.2.1 a ha]; exact (sc.2 a ha ha).mono le
    · omega

/-- Edits applied to what existed before (and to whatever is created later) never change the block. -/
theorem earlier_edits_preserve {h h' : H} (sc : Scoped h) (e : Ext h h') (ops : List Op)
    (ho : OpsIn (NotBlock h h') ops) : BlockSame h h' h' (run h' ops) := by
  have g := run_good ops h' (st_notBlock sc e) ho
  refine ⟨fun a h1 h2 => ?_, fun a h1 h2 => ?_, fun a h1 h2 => ?_⟩
  · exact g.frame.1 a (by simp only [NotBlock]; omega)
  · exact g.frame.2.1 a (by simp only [NotBlock]; omega)
  · exact g.frame.2.2 a (by simp only [NotBlock]; omega)

theorem scoped_empty : Scoped empty :=
  ⟨fun a ha _ => by simp [Old, empty] at ha, fun a ha _ => by simp [Old, empty] at ha⟩

/-- A closed block of new locations keeps the store free of dangling references. -/
theorem scoped_ext {h h' : H} (sc : Scoped h) (e : Ext h h') (c : Closed h' (rng h h')) : Scoped h' := by
  have m := e.1
  unfold Mono at m
  have l1 : (Old h).le (Old h') :=
    ⟨fun a ha => by simp only [Old] at *; omega, fun a ha => by simp only [Old] at *; omega,
     fun a ha => by simp only [Old] at *; omega⟩
  have l2 : (rng h h').le (Old h') := ⟨fun a ha => ha.2, fun a ha => ha.2, fun a ha => ha.2⟩
  refine ⟨fun a ha hl => ?_, fun a ha hl => ?_⟩
  · by_cases hlt : a < h.nN
    · rw [e.2.1 a hlt]; exact (sc.1 a hlt hlt).mono l1
    · exact (c.1 a ⟨by omega, hl⟩ hl).mono l2
  · by_cases hlt : a < h.nV
    · rw [e.2.2.1 a hlt]; exact (sc.2 a hlt hlt).mono l1
    · exact (c.2 a ⟨by omega, hl⟩ hl).mono l2

theorem dropOnErr_ok {h h' : H} {r : H × Res} {c : Nat} (hd : dropOnErr h r = (h', .ok c)) : r = (h', .ok c) := by
  obtain ⟨h1, res⟩ := r
  cases res with
  | ok c1 => simpa [dropOnErr] using hd
  | err e => simp [dropOnErr] at hd

theorem dropOnErr_err {h : H} {r : H × Res} (hr : ∀ c, r.2 ≠ .ok c) : (dropOnErr h r).1 = h := by
  obtain ⟨h1, res⟩ := r
  cases res with
  | ok c1 => exact absurd rfl (hr c1)
  | err e => rfl

end Clone
