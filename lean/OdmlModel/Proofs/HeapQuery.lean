/-
The `.document` query of `Model/HeapQuery.lean` on a well-formed heap: the walk to the root ends
within `size + 1` rounds (pigeonhole on the handles met), never stops early at a "falsy" parent (a
parent lists its child, so it is not empty), and answers the unique parentless ancestor.
-/
import OdmlModel.Model.HeapQuery
import OdmlModel.Proofs.HeapOps

namespace Heap

/-- On a well-formed heap a parent is never falsy: it lists the child. -/
theorem truthy_parent {h : H} (w : WF h) {c p : Nat} (hp : (h.node c).parent = some p) :
    truthy h p = true := by
  rcases w.kind_of_parent hp with hk | hk
  · have hm : c ∈ (h.node p).secs := (w.memS p c).mpr ⟨hp, hk⟩
    have hne : (h.node p).secs.isEmpty = false := by
      cases hs : (h.node p).secs with
      | nil => rw [hs] at hm; cases hm
      | cons _ _ => rfl
    unfold truthy
    cases (h.node p).kind <;> simp [hne]
  · have hm : c ∈ (h.node p).props := (w.memP p c).mpr ⟨hp, hk⟩
    have hpk := w.parP c p hp hk
    have hne : (h.node p).props.isEmpty = false := by
      cases hs : (h.node p).props with
      | nil => rw [hs] at hm; cases hm
      | cons _ _ => rfl
    unfold truthy
    rw [hpk]; simp [hne]

theorem rootWalk_exact_aux {h : H} (w : WF h) (d : Nat → Nat)
    (hd : ∀ c p, (h.node c).parent = some p → d p < d c) :
    ∀ (fuel cur : Nat) (seen : List Nat), seen.Nodup → (∀ s ∈ seen, s < h.size) →
      (∀ s ∈ seen, d cur < d s) → cur < h.size → h.size + 1 ≤ seen.length + fuel →
      ∃ r, rootWalk h fuel cur = some r ∧ Anc h r cur ∧ (h.node r).parent = none := by
  intro fuel
  induction fuel with
  | zero =>
    intro cur seen hn hb _ _ hlen
    have := length_le_of_nodup_lt hn hb
    omega
  | succ fuel ih =>
    intro cur seen hn hb hdl hc hlen
    simp only [rootWalk]
    cases hp : (h.node cur).parent with
    | none => exact ⟨cur, rfl, Anc.refl _, hp⟩
    | some p =>
      simp only [truthy_parent w hp, if_true]
      have hlt := hd cur p hp
      obtain ⟨r, hr, ha, h0⟩ := ih p (cur :: seen)
        (by
          refine List.nodup_cons.mpr ⟨?_, hn⟩
          intro hm; have := hdl cur hm; omega)
        (by
          intro s hs
          rcases List.mem_cons.mp hs with e | e
          · rw [e]; exact hc
          · exact hb s e)
        (by
          intro s hs
          rcases List.mem_cons.mp hs with e | e
          · rw [e]; exact hlt
          · have := hdl s e; omega)
        (w.parent_lt hp)
        (by simp only [List.length_cons]; omega)
      exact ⟨r, hr, Anc.step hp ha, h0⟩

/-- The walk of `Sectionable.document` ends, at a parentless ancestor. -/
theorem rootWalk_root {h : H} (w : WF h) {c : Nat} (hc : c < h.size) :
    ∃ r, rootWalk h (h.size + 1) c = some r ∧ Anc h r c ∧ (h.node r).parent = none := by
  obtain ⟨d, hd⟩ := w.rank
  exact rootWalk_exact_aux w d hd (h.size + 1) c [] List.nodup_nil (by simp) (by simp) hc (by simp)

/-- Two parentless ancestors of the same object coincide. -/
theorem anc_root_unique {h : H} {a b c : Nat} (ha : Anc h a c) (hb : Anc h b c)
    (ha0 : (h.node a).parent = none) (hb0 : (h.node b).parent = none) : a = b := by
  induction ha with
  | refl =>
    cases hb with
    | refl => rfl
    | step hp _ => rw [ha0] at hp; cases hp
  | step hp _ ih =>
    cases hb with
    | refl => rw [hb0] at hp; cases hp
    | step hp' hb' => rw [hp] at hp'; cases hp'; exact ih hb'

/-- `Sectionable.document` answers `r` exactly when `r` is the root of the parent chain and a
    Document. -/
theorem secDocument_spec {h : H} (w : WF h) {c : Nat} (hc : c < h.size) (r : Nat) :
    secDocument h c = some r ↔
      (Anc h r c ∧ (h.node r).parent = none ∧ (h.node r).kind = .doc) := by
  obtain ⟨r0, hr0, ha0, hp0⟩ := rootWalk_root w hc
  unfold secDocument
  rw [hr0]
  constructor
  · intro hq
    by_cases hk : (h.node r0).kind = .doc
    · simp only [hk, if_true] at hq
      cases hq
      exact ⟨ha0, hp0, hk⟩
    · simp only [hk, if_false] at hq
      cases hq
  · intro ⟨ha, hp, hk⟩
    have e : r = r0 := anc_root_unique ha ha0 hp hp0
    subst e
    simp only [hk, if_true]

/-- `.document` of an object of any kind. -/
theorem document_spec {h : H} (w : WF h) {c : Nat} (hc : c < h.size) (r : Nat) :
    document h c = some r ↔
      (Anc h r c ∧ (h.node r).parent = none ∧ (h.node r).kind = .doc) := by
  unfold document
  cases hk : (h.node c).kind with
  | doc => exact secDocument_spec w hc r
  | sec => exact secDocument_spec w hc r
  | prop =>
    simp only
    cases hp : (h.node c).parent with
    | none =>
      simp only
      constructor
      · intro hq; cases hq
      · intro ⟨ha, _, hkr⟩
        cases ha with
        | refl => rw [hk] at hkr; cases hkr
        | step hp' _ => rw [hp] at hp'; cases hp'
    | some p =>
      simp only
      rw [secDocument_spec w (w.parent_lt hp) r]
      constructor
      · intro ⟨ha, h0, hkr⟩
        exact ⟨Anc.step hp ha, h0, hkr⟩
      · intro ⟨ha, h0, hkr⟩
        cases ha with
        | refl => rw [hk] at hkr; cases hkr
        | step hp' ha' => rw [hp] at hp'; cases hp'; exact ⟨ha', h0, hkr⟩

end Heap
