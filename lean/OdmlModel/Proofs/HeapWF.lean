/-
Well-formedness of the heap (the C03/C04 invariant) and its preservation by the primitive
transformations every editing operation is made of: detach, attach, permute, rename, allocate.
-/
import OdmlModel.Model.Heap
import OdmlModel.Proofs.HeapList

set_option linter.unusedSimpArgs false
set_option linter.unusedVariables false

namespace Heap

/-- The invariant of C03 and of the uniqueness part of C04. -/
structure WF (h : H) : Prop where
  /-- handles that are not allocated are blank -/
  blank : ∀ i, h.size ≤ i → h.node i = default
  /-- a Section is listed in a container's `sections` exactly when it reports it as parent -/
  memS : ∀ p c, c ∈ (h.node p).secs ↔ (h.node c).parent = some p ∧ (h.node c).kind = .sec
  /-- a Property is listed in a Section's `properties` exactly when it reports it as parent -/
  memP : ∀ p c, c ∈ (h.node p).props ↔ (h.node c).parent = some p ∧ (h.node c).kind = .prop
  nodupS : ∀ p, (h.node p).secs.Nodup
  nodupP : ∀ p, (h.node p).props.Nodup
  /-- a Document has no parent; parents are containers of the right kind -/
  docRoot : ∀ c, (h.node c).kind = .doc → (h.node c).parent = none
  parS : ∀ c p, (h.node c).parent = some p → (h.node c).kind = .sec → (h.node p).kind ≠ .prop
  parP : ∀ c p, (h.node c).parent = some p → (h.node c).kind = .prop → (h.node p).kind = .sec
  /-- sibling names are unique (C04) -/
  namesS : ∀ p a b, a ∈ (h.node p).secs → b ∈ (h.node p).secs →
    (h.node a).name = (h.node b).name → a = b
  namesP : ∀ p a b, a ∈ (h.node p).props → b ∈ (h.node p).props →
    (h.node a).name = (h.node b).name → a = b
  /-- no object is its own ancestor: parents have a strictly smaller rank -/
  rank : ∃ d : Nat → Nat, ∀ c p, (h.node c).parent = some p → d p < d c

theorem default_node : (default : Node) = ⟨.doc, "", "", none, [], []⟩ := rfl

namespace WF
variable {h : H}

theorem parent_ne (w : WF h) {c p : Nat} (hp : (h.node c).parent = some p) : p ≠ c := by
  obtain ⟨d, hd⟩ := w.rank
  have := hd c p hp
  intro e; subst e; omega

theorem child_lt (w : WF h) {c p : Nat} (hp : (h.node c).parent = some p) : c < h.size := by
  rcases Nat.lt_or_ge c h.size with h1 | h1
  · exact h1
  · have := w.blank c h1
    rw [this] at hp; simp [default_node] at hp

theorem kind_of_parent (w : WF h) {c p : Nat} (hp : (h.node c).parent = some p) :
    (h.node c).kind = .sec ∨ (h.node c).kind = .prop := by
  cases hk : (h.node c).kind with
  | doc => have := w.docRoot c hk; rw [this] at hp; cases hp
  | sec => exact Or.inl rfl
  | prop => exact Or.inr rfl

theorem parent_lt (w : WF h) {c p : Nat} (hp : (h.node c).parent = some p) : p < h.size := by
  rcases Nat.lt_or_ge p h.size with h1 | h1
  · exact h1
  · have hb := w.blank p h1
    rcases w.kind_of_parent hp with hk | hk
    · have := (w.memS p c).mpr ⟨hp, hk⟩
      rw [hb] at this; simp [default_node] at this
    · have := (w.memP p c).mpr ⟨hp, hk⟩
      rw [hb] at this; simp [default_node] at this

end WF

/-- The empty heap is well-formed. -/
theorem wf_empty : WF empty := by
  refine ⟨fun _ _ => rfl, ?_, ?_, ?_, ?_, ?_, ?_, ?_, ?_, ?_, ⟨fun _ => 0, ?_⟩⟩ <;>
    simp [empty, default_node]

/-! ### Allocation -/

theorem wf_alloc {h : H} (w : WF h) (k : Kind) (name id : String) : WF (alloc h k name id).1 := by
  have hb := w.blank h.size (Nat.le_refl _)
  -- nobody refers to the fresh handle
  have noparent : ∀ c, (h.node c).parent ≠ some h.size := by
    intro c hc
    exact absurd (w.parent_lt hc) (Nat.lt_irrefl _)
  have hnode : ∀ j, j ≠ h.size → (alloc h k name id).1.node j = h.node j := by
    intro j hj; simp [alloc, hj]
  have hnew : (alloc h k name id).1.node h.size =
      ⟨k, if name = "" then id else name, id, none, [], []⟩ := by simp [alloc]
  obtain ⟨d, hd⟩ := w.rank
  constructor
  · intro i hi
    have : i ≠ h.size := by simp [alloc] at hi; omega
    rw [hnode i this]; apply w.blank; simp [alloc] at hi; omega
  · intro p c
    by_cases hp : p = h.size
    · subst hp
      by_cases hc : c = h.size
      · subst hc; simp [hnew]
      · rw [hnode c hc, hnew]; simp; intro h1; exact absurd h1 (noparent c)
    · rw [hnode p hp]
      by_cases hc : c = h.size
      · subst hc; rw [hnew]; simp
        intro hm
        have := ((w.memS p h.size).mp hm).1
        rw [hb] at this; simp [default_node] at this
      · rw [hnode c hc]; exact w.memS p c
  · intro p c
    by_cases hp : p = h.size
    · subst hp
      by_cases hc : c = h.size
      · subst hc; simp [hnew]
      · rw [hnode c hc, hnew]; simp; intro h1; exact absurd h1 (noparent c)
    · rw [hnode p hp]
      by_cases hc : c = h.size
      · subst hc; rw [hnew]; simp
        intro hm
        have := ((w.memP p h.size).mp hm).1
        rw [hb] at this; simp [default_node] at this
      · rw [hnode c hc]; exact w.memP p c
  · intro p
    by_cases hp : p = h.size
    · subst hp; simp [hnew]
    · rw [hnode p hp]; exact w.nodupS p
  · intro p
    by_cases hp : p = h.size
    · subst hp; simp [hnew]
    · rw [hnode p hp]; exact w.nodupP p
  · intro c
    by_cases hc : c = h.size
    · subst hc; simp [hnew]
    · rw [hnode c hc]; exact w.docRoot c
  · intro c p
    by_cases hc : c = h.size
    · subst hc; simp [hnew]
    · rw [hnode c hc]
      intro h1 h2
      have hp : p ≠ h.size := fun e => noparent c (e ▸ h1)
      rw [hnode p hp]; exact w.parS c p h1 h2
  · intro c p
    by_cases hc : c = h.size
    · subst hc; simp [hnew]
    · rw [hnode c hc]
      intro h1 h2
      have hp : p ≠ h.size := fun e => noparent c (e ▸ h1)
      rw [hnode p hp]; exact w.parP c p h1 h2
  · intro p a b
    by_cases hp : p = h.size
    · subst hp; simp [hnew]
    · rw [hnode p hp]
      intro ha hb'
      have ha' : a ≠ h.size := by
        intro e; subst e
        have := ((w.memS p h.size).mp ha).1; rw [hb] at this; simp [default_node] at this
      have hb'' : b ≠ h.size := by
        intro e; subst e
        have := ((w.memS p h.size).mp hb').1; rw [hb] at this; simp [default_node] at this
      rw [hnode a ha', hnode b hb'']; exact w.namesS p a b ha hb'
  · intro p a b
    by_cases hp : p = h.size
    · subst hp; simp [hnew]
    · rw [hnode p hp]
      intro ha hb'
      have ha' : a ≠ h.size := by
        intro e; subst e
        have := ((w.memP p h.size).mp ha).1; rw [hb] at this; simp [default_node] at this
      have hb'' : b ≠ h.size := by
        intro e; subst e
        have := ((w.memP p h.size).mp hb').1; rw [hb] at this; simp [default_node] at this
      rw [hnode a ha', hnode b hb'']; exact w.namesP p a b ha hb'
  · refine ⟨d, ?_⟩
    intro c p
    by_cases hc : c = h.size
    · subst hc; simp [hnew]
    · rw [hnode c hc]; exact hd c p

/-! ### Detach: remove `x` from its parent's lists and clear its parent -/

def detach (h : H) (q x : Nat) : H :=
  upd (upd h q (fun n => { n with secs := n.secs.erase x, props := n.props.erase x })) x
    (fun n => { n with parent := none })

section detach
variable {h : H} {q x : Nat}

theorem detach_size : (detach h q x).size = h.size := rfl

theorem detach_parent (c : Nat) :
    ((detach h q x).node c).parent = if c = x then none else (h.node c).parent := by
  unfold detach upd; dsimp only; (repeat' split) <;> simp_all

theorem detach_kind (c : Nat) : ((detach h q x).node c).kind = (h.node c).kind := by
  unfold detach upd; dsimp only; (repeat' split) <;> simp_all

theorem detach_name (c : Nat) : ((detach h q x).node c).name = (h.node c).name := by
  unfold detach upd; dsimp only; (repeat' split) <;> simp_all

theorem detach_id (c : Nat) : ((detach h q x).node c).id = (h.node c).id := by
  unfold detach upd; dsimp only; (repeat' split) <;> simp_all

theorem detach_secs (p : Nat) :
    ((detach h q x).node p).secs = if p = q then (h.node p).secs.erase x else (h.node p).secs := by
  unfold detach upd; dsimp only; (repeat' split) <;> simp_all

theorem detach_props (p : Nat) :
    ((detach h q x).node p).props = if p = q then (h.node p).props.erase x else (h.node p).props := by
  unfold detach upd; dsimp only; (repeat' split) <;> simp_all

theorem wf_detach (w : WF h) (hx : (h.node x).parent = some q) : WF (detach h q x) := by
  have hqx : q ≠ x := w.parent_ne hx
  obtain ⟨d, hd⟩ := w.rank
  constructor
  · intro i hi
    have hi' : h.size ≤ i := hi
    have h1 : i ≠ x := by have := w.child_lt hx; omega
    have h2 : i ≠ q := by have := w.parent_lt hx; omega
    unfold detach upd; simp [h1, h2]; exact w.blank i hi'
  · intro p c
    rw [detach_secs, detach_parent, detach_kind]
    by_cases hc : c = x
    · subst hc
      simp only [if_true]
      constructor
      · intro hm
        exfalso
        by_cases hp : p = q
        · subst hp; simp only [if_true] at hm
          exact absurd hm (by rw [(w.nodupS p).mem_erase_iff]; simp)
        · simp only [hp, if_false] at hm
          have := ((w.memS p c).mp hm).1
          rw [hx] at this; exact hp (Option.some.inj this).symm
      · intro ⟨h1, _⟩; cases h1
    · simp only [hc, if_false]
      by_cases hp : p = q
      · subst hp; simp only [if_true]
        rw [List.mem_erase_of_ne hc]; exact w.memS p c
      · simp only [hp, if_false]; exact w.memS p c
  · intro p c
    rw [detach_props, detach_parent, detach_kind]
    by_cases hc : c = x
    · subst hc
      simp only [if_true]
      constructor
      · intro hm
        exfalso
        by_cases hp : p = q
        · subst hp; simp only [if_true] at hm
          exact absurd hm (by rw [(w.nodupP p).mem_erase_iff]; simp)
        · simp only [hp, if_false] at hm
          have := ((w.memP p c).mp hm).1
          rw [hx] at this; exact hp (Option.some.inj this).symm
      · intro ⟨h1, _⟩; cases h1
    · simp only [hc, if_false]
      by_cases hp : p = q
      · subst hp; simp only [if_true]
        rw [List.mem_erase_of_ne hc]; exact w.memP p c
      · simp only [hp, if_false]; exact w.memP p c
  · intro p; rw [detach_secs]; split
    · exact (w.nodupS p).erase x
    · exact w.nodupS p
  · intro p; rw [detach_props]; split
    · exact (w.nodupP p).erase x
    · exact w.nodupP p
  · intro c; rw [detach_kind, detach_parent]; intro hk; split
    · rfl
    · exact w.docRoot c hk
  · intro c p; rw [detach_parent, detach_kind, detach_kind]; split
    · intro h1; cases h1
    · exact w.parS c p
  · intro c p; rw [detach_parent, detach_kind, detach_kind]; split
    · intro h1; cases h1
    · exact w.parP c p
  · intro p a b
    rw [detach_secs, detach_name, detach_name]
    intro ha hb
    have ha' : a ∈ (h.node p).secs := by
      split at ha
      · exact List.mem_of_mem_erase ha
      · exact ha
    have hb' : b ∈ (h.node p).secs := by
      split at hb
      · exact List.mem_of_mem_erase hb
      · exact hb
    exact w.namesS p a b ha' hb'
  · intro p a b
    rw [detach_props, detach_name, detach_name]
    intro ha hb
    have ha' : a ∈ (h.node p).props := by
      split at ha
      · exact List.mem_of_mem_erase ha
      · exact ha
    have hb' : b ∈ (h.node p).props := by
      split at hb
      · exact List.mem_of_mem_erase hb
      · exact hb
    exact w.namesP p a b ha' hb'
  · refine ⟨d, ?_⟩
    intro c p; rw [detach_parent]; split
    · intro h1; cases h1
    · exact hd c p

end detach

/-! ### Ancestors -/

/-- `Anc h a c`: `a` is `c` or one of its ancestors. -/
inductive Anc (h : H) : Nat → Nat → Prop
  | refl (c : Nat) : Anc h c c
  | step {a p c : Nat} : (h.node c).parent = some p → Anc h a p → Anc h a c

theorem Anc.of_parent {h : H} {a c p : Nat} (hp : (h.node c).parent = some p) (ha : Anc h a c)
    (hne : a ≠ c) : Anc h a p := by
  cases ha with
  | refl => exact absurd rfl hne
  | step hp' ha' => rw [hp] at hp'; cases hp'; exact ha'

/-- Ranks decrease towards the root, so an ancestor's rank is at most the descendant's. -/
theorem Anc.rank_le {h : H} {d : Nat → Nat} (hd : ∀ c p, (h.node c).parent = some p → d p < d c)
    {a c : Nat} (ha : Anc h a c) : d a ≤ d c := by
  induction ha with
  | refl => exact Nat.le_refl _
  | step hp _ ih => have := hd _ _ hp; omega

/-- The cycle check answers "not met" only if `obj` really is not `cur` or above it. -/
theorem meetsUp_false {h : H} (w : WF h) {fuel : Nat} {cur obj : Nat}
    (hm : meetsUp h fuel (some cur) obj = false) : ¬ Anc h obj cur := by
  induction fuel generalizing cur with
  | zero => simp [meetsUp] at hm
  | succ fuel ih =>
    simp only [meetsUp] at hm
    split at hm
    · cases hm
    · rename_i hne
      intro ha
      cases ha with
      | refl => exact hne rfl
      | step hp ha' =>
        by_cases hk : (h.node cur).kind = .doc
        · have := w.docRoot cur hk; rw [this] at hp; cases hp
        · simp only [hk, if_false, hp] at hm
          exact ih hm ha'

/-- Nothing hangs below an object that is nobody's parent. -/
theorem anc_of_leaf {h : H} {x : Nat} (hleaf : ∀ c, (h.node c).parent ≠ some x) {c : Nat}
    (hac : Anc h x c) : c = x := by
  induction hac with
  | refl => rfl
  | step hp _ ih =>
    rw [ih] at hp
    exact absurd hp (hleaf _)

/-! ### Attach a detached Section `x` to container `p` -/

def attach (h : H) (p x : Nat) (ls lp : List Nat) : H :=
  upd (upd h p (fun n => { n with secs := ls, props := lp })) x
    (fun n => { n with parent := some p })

section attach
variable {h : H} {p x : Nat} {ls lp : List Nat}

theorem attach_size : (attach h p x ls lp).size = h.size := rfl

theorem attach_parent (c : Nat) :
    ((attach h p x ls lp).node c).parent = if c = x then some p else (h.node c).parent := by
  unfold attach upd; dsimp only; (repeat' split) <;> simp_all

theorem attach_kind (c : Nat) : ((attach h p x ls lp).node c).kind = (h.node c).kind := by
  unfold attach upd; dsimp only; (repeat' split) <;> simp_all

theorem attach_name (c : Nat) : ((attach h p x ls lp).node c).name = (h.node c).name := by
  unfold attach upd; dsimp only; (repeat' split) <;> simp_all

theorem attach_id (c : Nat) : ((attach h p x ls lp).node c).id = (h.node c).id := by
  unfold attach upd; dsimp only; (repeat' split) <;> simp_all

theorem attach_secs (q : Nat) :
    ((attach h p x ls lp).node q).secs = if q = p then ls else (h.node q).secs := by
  unfold attach upd; dsimp only; (repeat' split) <;> simp_all

theorem attach_props (q : Nat) :
    ((attach h p x ls lp).node q).props = if q = p then lp else (h.node q).props := by
  unfold attach upd; dsimp only; (repeat' split) <;> simp_all

/-- New rank after hanging the tree below `x` under `p`. -/
theorem attach_rank (w : WF h) (hx : (h.node x).parent = none) (hanc : ¬ Anc h x p) :
    ∃ d' : Nat → Nat, ∀ c q, ((attach h p x ls lp).node c).parent = some q → d' q < d' c := by
  obtain ⟨d, hd⟩ := w.rank
  classical
  refine ⟨fun y => if Anc h x y then d y + d p + 1 else d y, ?_⟩
  intro c q
  rw [attach_parent]
  by_cases hc : c = x
  · subst hc
    simp only [if_true]
    intro hq; cases hq
    simp only [hanc, if_false, Anc.refl, if_true]
    omega
  · simp only [hc, if_false]
    intro hq
    have hlt := hd c q hq
    by_cases ha : Anc h x c
    · have haq : Anc h x q := Anc.of_parent hq ha (fun e => hc e.symm)
      simp only [ha, haq, if_true]; omega
    · have haq : ¬ Anc h x q := fun haq => ha (Anc.step hq haq)
      simp only [ha, haq, if_false]; exact hlt

theorem wf_attachS (w : WF h) (hx : (h.node x).parent = none) (hk : (h.node x).kind = .sec)
    (hpk : (h.node p).kind ≠ .prop) (hanc : ¬ Anc h x p) (hxs : x < h.size) (hps : p < h.size)
    (hnames : ∀ c ∈ (h.node p).secs, (h.node c).name ≠ (h.node x).name)
    (hperm : ls.Perm (x :: (h.node p).secs)) (hlp : lp = (h.node p).props) :
    WF (attach h p x ls lp) := by
  subst hlp
  have hpx : p ≠ x := fun e => hanc (e ▸ Anc.refl _)
  have hxnot : ∀ q, x ∉ (h.node q).secs := by
    intro q hm; have := ((w.memS q x).mp hm).1; rw [hx] at this; cases this
  have hxnotP : ∀ q, x ∉ (h.node q).props := by
    intro q hm; have := ((w.memP q x).mp hm).1; rw [hx] at this; cases this
  constructor
  · intro i hi
    have hi' : h.size ≤ i := hi
    have h1 : i ≠ x := by omega
    have h2 : i ≠ p := by omega
    unfold attach upd; simp [h1, h2]; exact w.blank i hi'
  · intro q c
    rw [attach_secs, attach_parent, attach_kind]
    by_cases hc : c = x
    · subst hc
      simp only [if_true]
      by_cases hq : q = p
      · subst hq; simp only [if_true, hk, and_self, iff_true]
        exact hperm.mem_iff.mpr (List.mem_cons_self)
      · simp only [hq, if_false]
        constructor
        · intro hm; exact absurd hm (hxnot q)
        · intro ⟨h1, _⟩; exact absurd (Option.some.inj h1).symm hq
    · simp only [hc, if_false]
      by_cases hq : q = p
      · subst hq; simp only [if_true]
        rw [hperm.mem_iff, List.mem_cons]
        constructor
        · rintro (h1 | h1)
          · exact absurd h1 hc
          · exact (w.memS q c).mp h1
        · intro h1; exact Or.inr ((w.memS q c).mpr h1)
      · simp only [hq, if_false]; exact w.memS q c
  · intro q c
    rw [attach_props, attach_parent, attach_kind]
    by_cases hc : c = x
    · subst hc
      simp only [if_true, hk]
      constructor
      · intro hm
        split at hm
        · exact absurd hm (hxnotP _)
        · exact absurd hm (hxnotP _)
      · intro ⟨_, h2⟩; cases h2
    · simp only [hc, if_false]
      split
      · rename_i hq; subst hq; exact w.memP q c
      · exact w.memP q c
  · intro q; rw [attach_secs]; split
    · rw [hperm.nodup_iff]; exact List.nodup_cons.mpr ⟨hxnot p, w.nodupS p⟩
    · exact w.nodupS q
  · intro q; rw [attach_props]; split
    · rename_i hq; subst hq; exact w.nodupP q
    · exact w.nodupP q
  · intro c; rw [attach_kind, attach_parent]; intro hkc; split
    · rename_i hc; subst hc; rw [hk] at hkc; cases hkc
    · exact w.docRoot c hkc
  · intro c q; rw [attach_parent, attach_kind, attach_kind]; split
    · intro h1 _; cases h1; exact hpk
    · exact w.parS c q
  · intro c q; rw [attach_parent, attach_kind, attach_kind]; split
    · rename_i hc; subst hc; intro _ h2; rw [hk] at h2; cases h2
    · exact w.parP c q
  · intro q a b
    rw [attach_secs, attach_name, attach_name]
    split
    · rename_i hq; subst hq
      intro ha hb hn
      rw [hperm.mem_iff, List.mem_cons] at ha hb
      rcases ha with ha | ha <;> rcases hb with hb | hb
      · rw [ha, hb]
      · subst ha; exact absurd hn.symm (hnames b hb)
      · subst hb; exact absurd hn (hnames a ha)
      · exact w.namesS q a b ha hb hn
    · exact w.namesS q a b
  · intro q a b
    rw [attach_props, attach_name, attach_name]
    split
    · rename_i hq; subst hq; exact w.namesP q a b
    · exact w.namesP q a b
  · exact attach_rank w hx hanc

theorem wf_attachP (w : WF h) (hx : (h.node x).parent = none) (hk : (h.node x).kind = .prop)
    (hpk : (h.node p).kind = .sec) (hxs : x < h.size) (hps : p < h.size)
    (hnames : ∀ c ∈ (h.node p).props, (h.node c).name ≠ (h.node x).name)
    (hperm : lp.Perm (x :: (h.node p).props)) (hls : ls = (h.node p).secs) :
    WF (attach h p x ls lp) := by
  subst hls
  have hpx : p ≠ x := by intro e; subst e; rw [hk] at hpk; cases hpk
  have hxnot : ∀ q, x ∉ (h.node q).secs := by
    intro q hm; have := ((w.memS q x).mp hm).1; rw [hx] at this; cases this
  have hxnotP : ∀ q, x ∉ (h.node q).props := by
    intro q hm; have := ((w.memP q x).mp hm).1; rw [hx] at this; cases this
  -- a Property has no descendants: it is nobody's parent
  have hleaf : ∀ c, (h.node c).parent ≠ some x := by
    intro c hc
    rcases w.kind_of_parent hc with hkc | hkc
    · have := w.parS c x hc hkc; exact this hk
    · have := w.parP c x hc hkc; rw [hk] at this; cases this
  have hanc : ¬ Anc h x p := fun ha => hpx (anc_of_leaf hleaf ha)
  constructor
  · intro i hi
    have hi' : h.size ≤ i := hi
    have h1 : i ≠ x := by omega
    have h2 : i ≠ p := by omega
    unfold attach upd; simp [h1, h2]; exact w.blank i hi'
  · intro q c
    rw [attach_secs, attach_parent, attach_kind]
    by_cases hc : c = x
    · subst hc
      simp only [if_true, hk]
      constructor
      · intro hm
        split at hm
        · exact absurd hm (hxnot _)
        · exact absurd hm (hxnot _)
      · intro ⟨_, h2⟩; cases h2
    · simp only [hc, if_false]
      split
      · rename_i hq; subst hq; exact w.memS q c
      · exact w.memS q c
  · intro q c
    rw [attach_props, attach_parent, attach_kind]
    by_cases hc : c = x
    · subst hc
      simp only [if_true]
      by_cases hq : q = p
      · subst hq; simp only [if_true, hk, and_self, iff_true]
        exact hperm.mem_iff.mpr (List.mem_cons_self)
      · simp only [hq, if_false]
        constructor
        · intro hm; exact absurd hm (hxnotP q)
        · intro ⟨h1, _⟩; exact absurd (Option.some.inj h1).symm hq
    · simp only [hc, if_false]
      by_cases hq : q = p
      · subst hq; simp only [if_true]
        rw [hperm.mem_iff, List.mem_cons]
        constructor
        · rintro (h1 | h1)
          · exact absurd h1 hc
          · exact (w.memP q c).mp h1
        · intro h1; exact Or.inr ((w.memP q c).mpr h1)
      · simp only [hq, if_false]; exact w.memP q c
  · intro q; rw [attach_secs]; split
    · rename_i hq; subst hq; exact w.nodupS q
    · exact w.nodupS q
  · intro q; rw [attach_props]; split
    · rw [hperm.nodup_iff]; exact List.nodup_cons.mpr ⟨hxnotP p, w.nodupP p⟩
    · exact w.nodupP q
  · intro c; rw [attach_kind, attach_parent]; intro hkc; split
    · rename_i hc; subst hc; rw [hk] at hkc; cases hkc
    · exact w.docRoot c hkc
  · intro c q; rw [attach_parent, attach_kind, attach_kind]; split
    · rename_i hc; subst hc; intro _ h2; rw [hk] at h2; cases h2
    · exact w.parS c q
  · intro c q; rw [attach_parent, attach_kind, attach_kind]; split
    · intro h1 _; cases h1; exact hpk
    · exact w.parP c q
  · intro q a b
    rw [attach_secs, attach_name, attach_name]
    split
    · rename_i hq; subst hq; exact w.namesS q a b
    · exact w.namesS q a b
  · intro q a b
    rw [attach_props, attach_name, attach_name]
    split
    · rename_i hq; subst hq
      intro ha hb hn
      rw [hperm.mem_iff, List.mem_cons] at ha hb
      rcases ha with ha | ha <;> rcases hb with hb | hb
      · rw [ha, hb]
      · subst ha; exact absurd hn.symm (hnames b hb)
      · subst hb; exact absurd hn (hnames a ha)
      · exact w.namesP q a b ha hb hn
    · exact w.namesP q a b
  · exact attach_rank w hx hanc

end attach

/-! ### Permuting a child list (`reorder`) -/

theorem wf_permS {h : H} {p : Nat} {l : List Nat} (w : WF h) (hperm : l.Perm (h.node p).secs) :
    WF (upd h p (fun n => { n with secs := l })) := by
  have hsecs : ∀ q, ((upd h p (fun n => { n with secs := l })).node q).secs =
      if q = p then l else (h.node q).secs := by
    intro q; unfold upd; dsimp only; split <;> simp_all
  have hother : ∀ q, ((upd h p (fun n => { n with secs := l })).node q).parent = (h.node q).parent ∧
      ((upd h p (fun n => { n with secs := l })).node q).kind = (h.node q).kind ∧
      ((upd h p (fun n => { n with secs := l })).node q).name = (h.node q).name ∧
      ((upd h p (fun n => { n with secs := l })).node q).props = (h.node q).props := by
    intro q; unfold upd; dsimp only; split <;> simp_all
  constructor
  · intro i hi
    by_cases hip : i = p
    · subst hip
      have hb := w.blank i hi
      have : l = [] := by
        have := hperm; rw [hb] at this; simpa [default_node] using this
      unfold upd; simp [this, hb, default_node]
    · unfold upd; simp [hip]; exact w.blank i hi
  · intro q c; rw [hsecs, (hother c).1, (hother c).2.1]
    split
    · rename_i hq; subst hq; rw [hperm.mem_iff]; exact w.memS q c
    · exact w.memS q c
  · intro q c; rw [(hother q).2.2.2, (hother c).1, (hother c).2.1]; exact w.memP q c
  · intro q; rw [hsecs]; split
    · rw [hperm.nodup_iff]; exact w.nodupS p
    · exact w.nodupS q
  · intro q; rw [(hother q).2.2.2]; exact w.nodupP q
  · intro c; rw [(hother c).1, (hother c).2.1]; exact w.docRoot c
  · intro c q; rw [(hother c).1, (hother c).2.1, (hother q).2.1]; exact w.parS c q
  · intro c q; rw [(hother c).1, (hother c).2.1, (hother q).2.1]; exact w.parP c q
  · intro q a b; rw [hsecs, (hother a).2.2.1, (hother b).2.2.1]
    split
    · rename_i hq; subst hq; rw [hperm.mem_iff, hperm.mem_iff]; exact w.namesS q a b
    · exact w.namesS q a b
  · intro q a b; rw [(hother q).2.2.2, (hother a).2.2.1, (hother b).2.2.1]; exact w.namesP q a b
  · obtain ⟨d, hd⟩ := w.rank
    exact ⟨d, fun c q => by rw [(hother c).1]; exact hd c q⟩

theorem wf_permP {h : H} {p : Nat} {l : List Nat} (w : WF h) (hperm : l.Perm (h.node p).props) :
    WF (upd h p (fun n => { n with props := l })) := by
  have hprops : ∀ q, ((upd h p (fun n => { n with props := l })).node q).props =
      if q = p then l else (h.node q).props := by
    intro q; unfold upd; dsimp only; split <;> simp_all
  have hother : ∀ q, ((upd h p (fun n => { n with props := l })).node q).parent = (h.node q).parent ∧
      ((upd h p (fun n => { n with props := l })).node q).kind = (h.node q).kind ∧
      ((upd h p (fun n => { n with props := l })).node q).name = (h.node q).name ∧
      ((upd h p (fun n => { n with props := l })).node q).secs = (h.node q).secs := by
    intro q; unfold upd; dsimp only; split <;> simp_all
  constructor
  · intro i hi
    by_cases hip : i = p
    · subst hip
      have hb := w.blank i hi
      have : l = [] := by
        have := hperm; rw [hb] at this; simpa [default_node] using this
      unfold upd; simp [this, hb, default_node]
    · unfold upd; simp [hip]; exact w.blank i hi
  · intro q c; rw [(hother q).2.2.2, (hother c).1, (hother c).2.1]; exact w.memS q c
  · intro q c; rw [hprops, (hother c).1, (hother c).2.1]
    split
    · rename_i hq; subst hq; rw [hperm.mem_iff]; exact w.memP q c
    · exact w.memP q c
  · intro q; rw [(hother q).2.2.2]; exact w.nodupS q
  · intro q; rw [hprops]; split
    · rw [hperm.nodup_iff]; exact w.nodupP p
    · exact w.nodupP q
  · intro c; rw [(hother c).1, (hother c).2.1]; exact w.docRoot c
  · intro c q; rw [(hother c).1, (hother c).2.1, (hother q).2.1]; exact w.parS c q
  · intro c q; rw [(hother c).1, (hother c).2.1, (hother q).2.1]; exact w.parP c q
  · intro q a b; rw [(hother q).2.2.2, (hother a).2.2.1, (hother b).2.2.1]; exact w.namesS q a b
  · intro q a b; rw [hprops, (hother a).2.2.1, (hother b).2.2.1]
    split
    · rename_i hq; subst hq; rw [hperm.mem_iff, hperm.mem_iff]; exact w.namesP q a b
    · exact w.namesP q a b
  · obtain ⟨d, hd⟩ := w.rank
    exact ⟨d, fun c q => by rw [(hother c).1]; exact hd c q⟩

/-! ### Renaming -/

theorem wf_rename {h : H} {x : Nat} {new : String} (w : WF h) (hxs : x < h.size)
    (hS : (h.node x).kind = .sec → ∀ p, (h.node x).parent = some p →
      ∀ c ∈ (h.node p).secs, c ≠ x → (h.node c).name ≠ new)
    (hP : (h.node x).kind = .prop → ∀ p, (h.node x).parent = some p →
      ∀ c ∈ (h.node p).props, c ≠ x → (h.node c).name ≠ new) :
    WF (upd h x (fun n => { n with name := new })) := by
  have hname : ∀ q, ((upd h x (fun n => { n with name := new })).node q).name =
      if q = x then new else (h.node q).name := by
    intro q; unfold upd; dsimp only; split <;> simp_all
  have hother : ∀ q, ((upd h x (fun n => { n with name := new })).node q).parent = (h.node q).parent ∧
      ((upd h x (fun n => { n with name := new })).node q).kind = (h.node q).kind ∧
      ((upd h x (fun n => { n with name := new })).node q).secs = (h.node q).secs ∧
      ((upd h x (fun n => { n with name := new })).node q).props = (h.node q).props := by
    intro q; unfold upd; dsimp only; split <;> simp_all
  constructor
  · intro i hi
    have : i ≠ x := by have : h.size ≤ i := hi; omega
    unfold upd; simp [this]; exact w.blank i hi
  · intro q c; rw [(hother q).2.2.1, (hother c).1, (hother c).2.1]; exact w.memS q c
  · intro q c; rw [(hother q).2.2.2, (hother c).1, (hother c).2.1]; exact w.memP q c
  · intro q; rw [(hother q).2.2.1]; exact w.nodupS q
  · intro q; rw [(hother q).2.2.2]; exact w.nodupP q
  · intro c; rw [(hother c).1, (hother c).2.1]; exact w.docRoot c
  · intro c q; rw [(hother c).1, (hother c).2.1, (hother q).2.1]; exact w.parS c q
  · intro c q; rw [(hother c).1, (hother c).2.1, (hother q).2.1]; exact w.parP c q
  · intro q a b; rw [(hother q).2.2.1, hname, hname]
    intro ha hb
    by_cases hax : a = x <;> by_cases hbx : b = x
    · intro _; rw [hax, hbx]
    · subst hax; simp only [if_true, hbx, if_false]
      intro hn
      have hpar := (w.memS q a).mp ha
      exact absurd hn.symm (hS hpar.2 q hpar.1 b hb hbx)
    · subst hbx; simp only [if_true, hax, if_false]
      intro hn
      have hpar := (w.memS q b).mp hb
      exact absurd hn (hS hpar.2 q hpar.1 a ha hax)
    · simp only [hax, hbx, if_false]; exact w.namesS q a b ha hb
  · intro q a b; rw [(hother q).2.2.2, hname, hname]
    intro ha hb
    by_cases hax : a = x <;> by_cases hbx : b = x
    · intro _; rw [hax, hbx]
    · subst hax; simp only [if_true, hbx, if_false]
      intro hn
      have hpar := (w.memP q a).mp ha
      exact absurd hn.symm (hP hpar.2 q hpar.1 b hb hbx)
    · subst hbx; simp only [if_true, hax, if_false]
      intro hn
      have hpar := (w.memP q b).mp hb
      exact absurd hn (hP hpar.2 q hpar.1 a ha hax)
    · simp only [hax, hbx, if_false]; exact w.namesP q a b ha hb
  · obtain ⟨d, hd⟩ := w.rank
    exact ⟨d, fun c q => by rw [(hother c).1]; exact hd c q⟩

/-! ### Assigning a new id -/

theorem wf_setId {h : H} {x : Nat} {s : String} (w : WF h) (hxs : x < h.size) :
    WF (upd h x (fun n => { n with id := s })) := by
  have hother : ∀ q, ((upd h x (fun n => { n with id := s })).node q).parent = (h.node q).parent ∧
      ((upd h x (fun n => { n with id := s })).node q).kind = (h.node q).kind ∧
      ((upd h x (fun n => { n with id := s })).node q).name = (h.node q).name ∧
      ((upd h x (fun n => { n with id := s })).node q).secs = (h.node q).secs ∧
      ((upd h x (fun n => { n with id := s })).node q).props = (h.node q).props := by
    intro q; unfold upd; dsimp only; split <;> simp_all
  constructor
  · intro i hi
    have : i ≠ x := by have : h.size ≤ i := hi; omega
    unfold upd; simp [this]; exact w.blank i hi
  · intro q c; rw [(hother q).2.2.2.1, (hother c).1, (hother c).2.1]; exact w.memS q c
  · intro q c; rw [(hother q).2.2.2.2, (hother c).1, (hother c).2.1]; exact w.memP q c
  · intro q; rw [(hother q).2.2.2.1]; exact w.nodupS q
  · intro q; rw [(hother q).2.2.2.2]; exact w.nodupP q
  · intro c; rw [(hother c).1, (hother c).2.1]; exact w.docRoot c
  · intro c q; rw [(hother c).1, (hother c).2.1, (hother q).2.1]; exact w.parS c q
  · intro c q; rw [(hother c).1, (hother c).2.1, (hother q).2.1]; exact w.parP c q
  · intro q a b; rw [(hother q).2.2.2.1, (hother a).2.2.1, (hother b).2.2.1]; exact w.namesS q a b
  · intro q a b; rw [(hother q).2.2.2.2, (hother a).2.2.1, (hother b).2.2.1]; exact w.namesP q a b
  · obtain ⟨d, hd⟩ := w.rank
    exact ⟨d, fun c q => by rw [(hother c).1]; exact hd c q⟩

end Heap
