/-
C11 helper lemmas, part 3: the specification of `cloneBody` / `cloneF` on success: nothing that
existed is written, the block of new locations is closed, the copy is the first new object and is
detached.
-/
import OdmlModel.Proofs.CloneFrame
namespace Clone

/-- Facts about the copy `c` while it is being built (relative to the store `b` it was allocated in). -/
structure Pend (b h : H) (c : Nat) : Prop where
  inv : LoopInv b h c
  secs : NodeInS (rng b h) (h.node c)

theorem loopOpt_spec {rec} (hrec : RecSpec rec) (b : H) (c : Nat) (ch : Bool) (l : List Nat) (h h' : H)
    (hl : (if ch = true then cloneLoop rec h c l else (h, none)) = (h', none)) (inv : LoopInv b h c) :
    LoopInv b h' c ∧
      (NodeInS (rng b h) (h.node c) → NodeInS (rng b h') (h'.node c)) ∧
      (PropsIn (rng b h) (h.node c) → PropsIn (rng b h') (h'.node c)) ∧
      (h'.node c).kind = (h.node c).kind ∧ (h'.node c).parent = (h.node c).parent ∧
      (h'.node c).id = (h.node c).id ∧ h'.nextId ≥ h.nextId := by
  cases ch with
  | true => exact cloneLoop_spec hrec b c l h h' (by simpa using hl) inv
  | false =>
    simp only [Bool.false_eq_true, if_false, Prod.mk.injEq, and_true] at hl
    subst hl
    exact ⟨inv, id, id, rfl, rfl, rfl, Nat.le_refl _⟩

theorem loopInv_newId {b h : H} {c : Nat} (inv : LoopInv b h c) : LoopInv b (newId h c) c := by
  refine ⟨ext_newId inv.ext c inv.clo, ⟨fun a ha hl hne => ?_, fun v hv hl => ?_⟩, inv.clo, inv.chi⟩
  · rw [newId_node, if_neg hne]
    exact inv.cex.1 a ha hl hne
  · exact inv.cex.2 v hv hl

theorem loopInv_updN {b h : H} {c : Nat} (inv : LoopInv b h c) (f) : LoopInv b (updN h c f) c := by
  refine ⟨ext_updN inv.ext c f inv.clo, ⟨fun a ha hl hne => ?_, fun v hv hl => ?_⟩, inv.clo, inv.chi⟩
  · rw [updN_other _ _ _ _ hne]
    exact inv.cex.1 a ha hl hne
  · exact inv.cex.2 v hv hl

/-- Everything the specification of a successful clone call says. -/
structure CloneOk (h h' : H) (x c : Nat) : Prop where
  ext : Ext h h'
  closed : Closed h' (rng h h')
  c_eq : c = h.nN
  lt : h.nN < h'.nN
  parent : (h'.node c).parent = none
  kind : (h'.node c).kind = (h.node x).kind

theorem CloneOk.toRec {h h' x c} (s : CloneOk h h' x c) :
    Ext h h' ∧ Closed h' (rng h h') ∧ c = h.nN ∧ h.nN < h'.nN ∧ (h'.node c).parent = none :=
  ⟨s.ext, s.closed, s.c_eq, s.lt, s.parent⟩

theorem cloneBody_spec {rec} (hrec : RecSpec rec) (h : H) (x : Nat) (ch keep : Bool) (h' : H) (c : Nat)
    (hk : (h.node x).kind ≠ .prop) (hb : cloneBody rec h x ch keep = (h', .ok c)) :
    CloneOk h h' x c := by
  unfold cloneBody at hb
  simp only [allocN_ret] at hb
  generalize hh3 : updN (updN (allocN h (h.node x)).1 h.nN (fun n => { n with parent := none })) h.nN
      (fun n => { n with secs := [] }) = h3 at hb
  have n3 : h3.node h.nN = { h.node x with parent := none, secs := [] } := by
    rw [← hh3]; simp [allocN_node]
  have sz3 : h3.nN = h.nN + 1 ∧ h3.nV = h.nV ∧ h3.nT = h.nT := by rw [← hh3]; simp
  have e3 : Ext h h3 := by
    rw [← hh3]; exact ext_updN (ext_updN (ext_allocN h _) _ _ (by simp)) _ _ (by simp)
  have inv3 : LoopInv h h3 h.nN := by
    refine ⟨e3, ⟨fun a ha hl hne => ?_, fun v hv hl => ?_⟩, Nat.le_refl _, by omega⟩
    · have := ha.1; omega
    · have := hv.1; omega
  have s3 : NodeInS (rng h h3) (h3.node h.nN) := by
    rw [n3]
    exact ⟨fun _ p hp => by simp at hp, fun _ c hc => by simp at hc, fun hp => absurd hp hk⟩
  split at hb
  · simp at hb
  · rename_i h4 hl4
    obtain ⟨inv4, ks4, _, kk4, kpar4, _, _⟩ := loopOpt_spec hrec h h.nN ch _ h3 h4 hl4 inv3
    have s4 := ks4 s3
    have kind4 : (h4.node h.nN).kind = (h.node x).kind := by rw [kk4, n3]
    have par4 : (h4.node h.nN).parent = none := by rw [kpar4, n3]
    -- new_id
    generalize hh5 : (if keep = true then h4 else newId h4 h.nN) = h5 at hb
    have inv5 : LoopInv h h5 h.nN := by
      rw [← hh5]; split
      · exact inv4
      · exact loopInv_newId inv4
    have n5 : h5.node h.nN = { h4.node h.nN with id := (h5.node h.nN).id } := by
      rw [← hh5]; split
      · rfl
      · simp [newId_node]
    have r45 : (rng h h4).le (rng h h5) := by
      rw [← hh5]; split
      · exact ⟨fun _ a => a, fun _ a => a, fun _ a => a⟩
      · exact ⟨fun _ a => a, fun _ a => a, fun _ a => a⟩
    have s5 : NodeInS (rng h h5) (h5.node h.nN) := by
      rw [n5]
      exact ⟨fun k p hp => r45.1 _ (s4.1 k p hp), fun k c hc => r45.1 _ (s4.2.1 k c hc),
        fun k c hc => r45.2.1 _ (s4.2.2 k c hc)⟩
    have kind5 : (h5.node h.nN).kind = (h.node x).kind := by rw [n5]; exact kind4
    have par5 : (h5.node h.nN).parent = none := by rw [n5]; exact par4
    split at hb
    · -- Document
      rename_i hdoc
      simp only [Prod.mk.injEq, Res.ok.injEq] at hb
      obtain ⟨rfl, rfl⟩ := hb
      refine ⟨inv5.ext, inv5.cex.close (fun _ _ => nodeIn_of_parts s5 ?_), rfl, inv5.chi, par5, kind5⟩
      intro hs; rw [kind5, hdoc] at hs; cases hs
    · generalize hh6 : updN h5 h.nN (fun n => { n with props := [] }) = h6 at hb
      have inv6 : LoopInv h h6 h.nN := by rw [← hh6]; exact loopInv_updN inv5 _
      have n6 : h6.node h.nN = { h5.node h.nN with props := [] } := by rw [← hh6]; simp
      have s6 : NodeInS (rng h h6) (h6.node h.nN) := by
        rw [n6, ← hh6]; exact s5
      have p6 : PropsIn (rng h h6) (h6.node h.nN) := by
        rw [n6]; intro _ c hc; simp at hc
      split at hb
      · simp at hb
      · rename_i h7 hl7
        simp only [Prod.mk.injEq, Res.ok.injEq] at hb
        obtain ⟨rfl, rfl⟩ := hb
        obtain ⟨inv7, ks7, kp7, kk7, kpar7, _, _⟩ := loopOpt_spec hrec h h.nN ch _ h6 h7 hl7 inv6
        refine ⟨inv7.ext, inv7.cex.close (fun _ _ => nodeIn_of_parts (ks7 s6) (kp7 p6)), rfl, inv7.chi,
          by rw [kpar7, n6]; exact par5, by rw [kk7, n6]; exact kind5⟩

theorem cloneProp_ok (h : H) (x : Nat) (keep : Bool) (hk : (h.node x).kind = .prop) :
    CloneOk h (cloneProp h x keep).1 x (cloneProp h x keep).2 := by
  have s := cloneProp_spec h x keep
  exact ⟨s.ext, cloneProp_closed s hk, s.c_eq, by rw [s.nN]; omega, by rw [s.node],
    by rw [s.node]⟩

theorem cloneF_spec : ∀ (f : Nat) (h : H) (x : Nat) (ch keep : Bool) (h' : H) (c : Nat),
    cloneF f h x ch keep = (h', .ok c) → CloneOk h h' x c := by
  intro f
  induction f with
  | zero => intro h x ch keep h' c hc; simp [cloneF] at hc
  | succ f ih =>
    intro h x ch keep h' c hc
    simp only [cloneF] at hc
    split at hc
    · rename_i hk
      simp only [Prod.mk.injEq, Res.ok.injEq] at hc
      obtain ⟨rfl, rfl⟩ := hc
      exact cloneProp_ok h x keep hk
    · rename_i hk
      exact cloneBody_spec (fun h s h1 sc hr => (ih h s true keep h1 sc hr).toRec) h x ch keep h' c hk hc

theorem cloneF_recSpec (f : Nat) (keep : Bool) : RecSpec (fun h s => cloneF f h s true keep) :=
  fun h s h1 sc hr => (cloneF_spec f h s true keep h1 sc hr).toRec

end Clone
