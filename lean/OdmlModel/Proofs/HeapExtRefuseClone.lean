/-
Refusals of the compound operations (property C06), part 2a: `clone` never raises.

On a well-formed heap without empty names, every `append` that `clone` performs succeeds - the
copy is a new detached object (no cycle), of the kind of its original (right kind of container),
and the copies of earlier children carry the names of their originals, which differ from the name
of the next child because sibling names are unique (`WF.namesS`, `WF.namesP`). So a clone ends
`.ok` (or with the recursion budget used up), its copy has the kind and name of the original, and
the scratch component `orig` of the objects that existed before is untouched.
-/
import OdmlModel.Proofs.HeapExtRefuse

set_option linter.unusedSimpArgs false
set_option linter.unusedVariables false

namespace Heap.Refuse

/-- No allocated object has the empty name (names fall back to the id, a rendered UUID). -/
def NoEmptyName (h : H) : Prop := ∀ i, i < h.size → (h.node i).name ≠ ""

instance (h : H) : Decidable (NoEmptyName h) := by unfold NoEmptyName; infer_instance

theorem anc_trans {h : H} {a b c : Nat} (h1 : Anc h a b) (h2 : Anc h b c) : Anc h a c := by
  induction h2 with
  | refl => exact h1
  | step hp _ ih => exact Anc.step hp ih

/-! ### `append` of a detached object that succeeds -/

theorem step_append_eq {h : H} {p x : Nat} (hps : p < h.size) (hxs : x < h.size) :
    step h (.append p x) = append h p x := by
  unfold step
  have hg : ¬ ((Op.append p x).handles.any (fun i => i ≥ h.size) = true) := by
    simp [Op.handles]; omega
  rw [if_neg hg]

theorem append_sec_ok {h : H} (w : WF h) {p x : Nat} (hps : p < h.size) (hxs : x < h.size)
    (hkx : (h.node x).kind = .sec) (hpp : (h.node p).kind ≠ .prop) (hanc : ¬ Anc h x p)
    (hnm : nameIn h (h.node p).secs (h.node x).name = false) :
    append h p x = (appendedS h p x, .ok) := by
  rw [append_sec_unfold hkx hpp]
  have hcyc : cycleCheck h p x = false := cycleCheck_exact w hps hanc
  simp only [hcyc, Bool.false_eq_true, if_false, hnm]
  have hxp : x ≠ p := fun e => hanc (e ▸ Anc.refl _)
  have hnotp : (h.node x).parent ≠ some p := notp_of_nameS w hkx hnm
  have hup : (upd h p (fun n => { n with secs := n.secs ++ [x] })) =
      (upd h p (fun n => { n with secs := (h.node p).secs ++ [x], props := (h.node p).props })) := by
    refine H.ext' (fun j => ?_) rfl
    unfold upd; dsimp only; split
    · rename_i e; subst e; rfl
    · rfl
  rw [hup, adopt_after_list_update w _ _ hxp hnotp (by rw [hkx]; decide)]
  rfl

theorem append_prop_ok {h : H} (w : WF h) {p x : Nat} (hps : p < h.size) (hxs : x < h.size)
    (hkx : (h.node x).kind = .prop) (hpk : (h.node p).kind = .sec)
    (hnm : nameIn h (h.node p).props (h.node x).name = false) :
    append h p x = (appendedP h p x, .ok) := by
  rw [append_prop_unfold hkx hpk]
  simp only [hnm, Bool.false_eq_true, if_false]
  have hxp : x ≠ p := by intro e; subst e; rw [hkx] at hpk; cases hpk
  have hnotp : (h.node x).parent ≠ some p := notp_of_nameP w hkx hnm
  have hup : (upd h p (fun n => { n with props := n.props ++ [x] })) =
      (upd h p (fun n => { n with secs := (h.node p).secs, props := (h.node p).props ++ [x] })) := by
    refine H.ext' (fun j => ?_) rfl
    unfold upd; dsimp only; split
    · rename_i e; subst e; rfl
    · rfl
  rw [hup, adopt_after_list_update w _ _ hxp hnotp (by rw [hkx]; decide)]
  rfl

/-- A detached Section `x` that is not above `p` and whose name is free in `p`: the public
    `p.append(x)` succeeds and puts it at the end of `p`'s Section list. -/
theorem step_append_sec_ok {h : H} (w : WF h) {p x : Nat} (hps : p < h.size) (hxs : x < h.size)
    (hdet : (h.node x).parent = none)
    (hkx : (h.node x).kind = .sec) (hpp : (h.node p).kind ≠ .prop) (hanc : ¬ Anc h x p)
    (hnm : nameIn h (h.node p).secs (h.node x).name = false) :
    (step h (.append p x)).2 = .ok ∧ Appended h (step h (.append p x)).1 p x ∧
    ((step h (.append p x)).1.node p).secs = (h.node p).secs ++ [x] ∧
    ((step h (.append p x)).1.node p).props = (h.node p).props := by
  rw [step_append_eq hps hxs, append_sec_ok w hps hxs hkx hpp hanc hnm]
  have hxp : x ≠ p := fun e => hanc (e ▸ Anc.refl _)
  have hd : detachIf h x = h := by unfold detachIf; rw [hdet]
  refine ⟨rfl, ?_, ?_, ?_⟩
  · unfold appendedS placedS; rw [hd]; exact attach_appended hxp (Or.inl ⟨rfl, rfl⟩)
  · unfold appendedS placedS; rw [hd]; simp [attach, upd, Ne.symm hxp]
  · unfold appendedS placedS; rw [hd]; simp [attach, upd, Ne.symm hxp]

theorem step_append_prop_ok {h : H} (w : WF h) {p x : Nat} (hps : p < h.size) (hxs : x < h.size)
    (hdet : (h.node x).parent = none)
    (hkx : (h.node x).kind = .prop) (hpk : (h.node p).kind = .sec)
    (hnm : nameIn h (h.node p).props (h.node x).name = false) :
    (step h (.append p x)).2 = .ok ∧ Appended h (step h (.append p x)).1 p x ∧
    ((step h (.append p x)).1.node p).secs = (h.node p).secs ∧
    ((step h (.append p x)).1.node p).props = (h.node p).props ++ [x] := by
  rw [step_append_eq hps hxs, append_prop_ok w hps hxs hkx hpk hnm]
  have hxp : x ≠ p := by intro e; subst e; rw [hkx] at hpk; cases hpk
  have hd : detachIf h x = h := by unfold detachIf; rw [hdet]
  refine ⟨rfl, ?_, ?_, ?_⟩
  · unfold appendedP placedP; rw [hd]; exact attach_appended hxp (Or.inr ⟨rfl, rfl⟩)
  · unfold appendedP placedP; rw [hd]; simp [attach, upd, Ne.symm hxp]
  · unfold appendedP placedP; rw [hd]; simp [attach, upd, Ne.symm hxp]

theorem appended_name {h h' : H} {p x : Nat} (ha : Appended h h' p x) (j : Nat) :
    (h'.node j).name = (h.node j).name ∧ (h'.node j).kind = (h.node j).kind := by
  obtain ⟨_, hne, hoth, hxn, hpn⟩ := ha
  by_cases hjp : j = p
  · subst hjp; rcases hpn with hp | hp <;> rw [hp] <;> exact ⟨rfl, rfl⟩
  · by_cases hjx : j = x
    · subst hjx; rw [hxn]; exact ⟨rfl, rfl⟩
    · rw [hoth j hjp hjx]; exact ⟨rfl, rfl⟩

theorem appended_noEmpty {h h' : H} {p x : Nat} (ha : Appended h h' p x) (hn : NoEmptyName h) :
    NoEmptyName h' := by
  intro i hi
  rw [(appended_name ha i).1]
  exact hn i (by rw [← ha.1]; exact hi)

/-! ### the strengthened invariant of the loops of `clone` -/

/-- While `x` (in the heap `h0` the clone started from, scratch `o0`) is copied into `c`:
    `done` are the children of `x` whose copies have been attached. -/
structure CI (h0 : H) (o0 : Nat → Nat) (x c : Nat) (done : List Nat) (t : X) : Prop where
  base : CloneInv h0.size c h0 t.h
  ne : NoEmptyName t.h
  orig : ∀ i, i < h0.size → t.orig i = o0 i
  kind : (t.h.node c).kind = (h0.node x).kind
  name : (t.h.node c).name = (h0.node x).name
  kids : ∀ m, m ∈ (t.h.node c).secs ∨ m ∈ (t.h.node c).props →
    ∃ k ∈ done, (t.h.node m).name = (h0.node k).name ∧ (t.h.node m).kind = (h0.node k).kind

theorem CI.mono {h0 : H} {o0 : Nat → Nat} {x c : Nat} {done done' : List Nat} {t : X}
    (h : CI h0 o0 x c done t) (hs : ∀ k ∈ done, k ∈ done') : CI h0 o0 x c done' t :=
  ⟨h.base, h.ne, h.orig, h.kind, h.name, fun m hm => by
    obtain ⟨k, hk, h1⟩ := h.kids m hm
    exact ⟨k, hs k hk, h1⟩⟩

/-- What a (sub-)clone of `k` started in `t` guarantees on top of `CloneRes`. -/
structure CR (t : X) (k : Nat) (r : X × Nat × XOut) : Prop where
  ne : NoEmptyName r.1.h
  orig : ∀ i, i < t.h.size → r.1.orig i = t.orig i
  out : r.2.2 = .ok ∨ r.2.2 = .fuel
  root : r.2.2 = .ok → (r.1.h.node r.2.1).kind = (t.h.node k).kind ∧
    (r.1.h.node r.2.1).name = (t.h.node k).name

theorem kidsLoop_full {rec : X → Nat → X × Nat × XOut}
    (hrec0 : ∀ t k, WF t.h → CloneRes t (rec t k))
    (hrec : ∀ t k, WF t.h → NoEmptyName t.h → k < t.h.size → CR t k (rec t k))
    {h0 : H} {o0 : Nat → Nat} {x c : Nat} (w0 : WF h0) (hc : h0.size ≤ c) :
    ∀ (ks done : List Nat) (s : X), CI h0 o0 x c done s →
      (∀ k ∈ ks, k ∉ done) → ks.Nodup →
      (∀ k, k ∈ done ∨ k ∈ ks → (h0.node k).parent = some x) →
      CI h0 o0 x c (done ++ ks) (kidsLoop rec c ks s).1 ∧
      ((kidsLoop rec c ks s).2 = .ok ∨ (kidsLoop rec c ks s).2 = .fuel) := by
  intro ks
  induction ks with
  | nil =>
    intro done s h _ _ _
    rw [List.append_nil]
    exact ⟨h, Or.inl rfl⟩
  | cons k ks ih =>
    intro done s h hnd hnodup hpar
    have hkpar : (h0.node k).parent = some x := hpar k (Or.inr List.mem_cons_self)
    have hk0 : k < h0.size := w0.child_lt hkpar
    have hks : k < s.h.size := Nat.lt_of_lt_of_le hk0 h.base.same.1
    have hnodek : s.h.node k = h0.node k := h.base.same.2 k hk0
    have r0 := hrec0 s k h.base.wf
    have r1 := hrec s k h.base.wf h.ne hks
    obtain ⟨inv1, inv2⟩ := kids_step_inv hrec0 hc s k h.base
    -- the state after the sub-clone
    have hcs : c < s.h.size := h.base.lt
    have hnodec : (rec s k).1.h.node c = s.h.node c := r0.same.2 c hcs
    have ci1 : CI h0 o0 x c done (rec s k).1 := by
      refine ⟨inv1, r1.ne, ?_, ?_, ?_, ?_⟩
      · intro i hi
        rw [r1.orig i (Nat.lt_of_lt_of_le hi h.base.same.1)]; exact h.orig i hi
      · rw [hnodec]; exact h.kind
      · rw [hnodec]; exact h.name
      · intro m hm
        rw [hnodec] at hm
        have hms : m < s.h.size := by
          rcases hm with hm | hm
          · exact h.base.wf.child_lt ((h.base.wf.memS c m).mp hm).1
          · exact h.base.wf.child_lt ((h.base.wf.memP c m).mp hm).1
        rw [r0.same.2 m hms]
        exact h.kids m hm
    have mono1 : ∀ k' ∈ done, k' ∈ done ++ k :: ks := fun k' hk' => List.mem_append_left _ hk'
    unfold kidsLoop
    split
    · rename_i s1 ck heq
      rw [heq] at r0 r1 inv1 inv2 ci1 hnodec
      simp only at r0 r1 inv1 inv2 ci1 hnodec
      have hroot : ck = s.h.size := r0.root
      obtain ⟨hck, hdet⟩ := r0.ok rfl
      obtain ⟨hkk, hkn⟩ := r1.root rfl
      simp only at hck hdet hkk hkn
      rw [hnodek] at hkk hkn
      have w1 : WF s1.h := inv1.wf
      have hc1 : c < s1.h.size := inv1.lt
      have hcck : c ≠ ck := by rw [hroot]; exact Nat.ne_of_lt hcs
      have hanc : ¬ Anc s1.h ck c := by
        intro ha
        cases ha with
        | refl => exact hcck rfl
        | step hp _ => rw [inv1.det] at hp; cases hp
      have hkind0 := w0.kind_of_parent hkpar
      -- the append succeeds
      have happ : (s1.prim (.append c ck)).2 = .ok ∧
          Appended s1.h (s1.prim (.append c ck)).1.h c ck ∧
          (∀ m, m ∈ ((s1.prim (.append c ck)).1.h.node c).secs ∨
                m ∈ ((s1.prim (.append c ck)).1.h.node c).props →
            m = ck ∨ m ∈ (s1.h.node c).secs ∨ m ∈ (s1.h.node c).props) := by
        rcases hkind0 with hks0 | hkp0
        · -- a child Section
          have hkx : (s1.h.node ck).kind = .sec := by rw [hkk]; exact hks0
          have hpp : (s1.h.node c).kind ≠ .prop := by
            rw [ci1.kind]; exact w0.parS k x hkpar hks0
          have hnm : nameIn s1.h (s1.h.node c).secs (s1.h.node ck).name = false := by
            rw [nameIn_false]
            intro m hm hname
            obtain ⟨k', hk', hn', hkd'⟩ := ci1.kids m (Or.inl hm)
            have hmk : (s1.h.node m).kind = .sec := ((w1.memS c m).mp hm).2
            have hk's : k' ∈ (h0.node x).secs :=
              (w0.memS x k').mpr ⟨hpar k' (Or.inl hk'), by rw [← hkd']; exact hmk⟩
            have hk0s : k ∈ (h0.node x).secs := (w0.memS x k).mpr ⟨hkpar, hks0⟩
            have := w0.namesS x k' k hk's hk0s (by rw [← hn', hname, hkn])
            subst this
            exact hnd k' List.mem_cons_self hk'
          obtain ⟨a1, a2, a3, a4⟩ := step_append_sec_ok w1 hc1 hck hdet hkx hpp hanc hnm
          refine ⟨?_, a2, ?_⟩
          · show XOut.ofOutcome (step s1.h (.append c ck)).2 = .ok
            rw [a1]; rfl
          · intro m hm
            rw [prim_h, a3, a4] at hm
            rcases hm with hm | hm
            · rcases List.mem_append.mp hm with h1 | h1
              · exact Or.inr (Or.inl h1)
              · exact Or.inl (by simpa using h1)
            · exact Or.inr (Or.inr hm)
        · -- a child Property
          have hkx : (s1.h.node ck).kind = .prop := by rw [hkk]; exact hkp0
          have hpk : (s1.h.node c).kind = .sec := by
            rw [ci1.kind]; exact w0.parP k x hkpar hkp0
          have hnm : nameIn s1.h (s1.h.node c).props (s1.h.node ck).name = false := by
            rw [nameIn_false]
            intro m hm hname
            obtain ⟨k', hk', hn', hkd'⟩ := ci1.kids m (Or.inr hm)
            have hmk : (s1.h.node m).kind = .prop := ((w1.memP c m).mp hm).2
            have hk's : k' ∈ (h0.node x).props :=
              (w0.memP x k').mpr ⟨hpar k' (Or.inl hk'), by rw [← hkd']; exact hmk⟩
            have hk0s : k ∈ (h0.node x).props := (w0.memP x k).mpr ⟨hkpar, hkp0⟩
            have := w0.namesP x k' k hk's hk0s (by rw [← hn', hname, hkn])
            subst this
            exact hnd k' List.mem_cons_self hk'
          obtain ⟨a1, a2, a3, a4⟩ := step_append_prop_ok w1 hc1 hck hdet hkx hpk hnm
          refine ⟨?_, a2, ?_⟩
          · show XOut.ofOutcome (step s1.h (.append c ck)).2 = .ok
            rw [a1]; rfl
          · intro m hm
            rw [prim_h, a3, a4] at hm
            rcases hm with hm | hm
            · exact Or.inr (Or.inl hm)
            · rcases List.mem_append.mp hm with h1 | h1
              · exact Or.inr (Or.inr h1)
              · exact Or.inl (by simpa using h1)
      obtain ⟨hout, happd, hmem⟩ := happ
      have ci2 : CI h0 o0 x c (done ++ [k]) (s1.prim (.append c ck)).1 := by
        refine ⟨inv2 trivial, appended_noEmpty happd ci1.ne, ?_, ?_, ?_, ?_⟩
        · intro i hi; rw [prim_orig]; exact ci1.orig i hi
        · rw [(appended_name happd c).2]; exact ci1.kind
        · rw [(appended_name happd c).1]; exact ci1.name
        · intro m hm
          rw [(appended_name happd m).1, (appended_name happd m).2]
          rcases hmem m hm with e | hm'
          · subst e
            exact ⟨k, List.mem_append_right _ (List.mem_singleton.mpr rfl), hkn, hkk⟩
          · obtain ⟨k', hk', h1⟩ := ci1.kids m hm'
            exact ⟨k', List.mem_append_left _ hk', h1⟩
      split
      · rename_i s2 heq2
        rw [heq2] at ci2
        have := ih (done ++ [k]) s2 ci2
          (by
            intro k' hk' hd
            rcases List.mem_append.mp hd with h1 | h1
            · exact hnd k' (List.mem_cons_of_mem _ hk') h1
            · have : k' = k := by simpa using h1
              subst this
              exact (List.nodup_cons.mp hnodup).1 hk')
          (List.nodup_cons.mp hnodup).2
          (by
            intro k' hk'
            rcases hk' with h1 | h1
            · rcases List.mem_append.mp h1 with h2 | h2
              · exact hpar k' (Or.inl h2)
              · have : k' = k := by simpa using h2
                subst this; exact hkpar
            · exact hpar k' (Or.inr (List.mem_cons_of_mem _ h1)))
        rw [List.append_assoc] at this
        exact this
      · rename_i s2 o hne heq2
        rw [heq2] at hout
        exact absurd hout hne
    · rename_i s1 ck o hne heq
      rw [heq] at ci1 r1
      refine ⟨ci1.mono mono1, ?_⟩
      rcases r1.out with h1 | h1
      · exact absurd h1 hne
      · exact Or.inr h1

theorem newIdUnless_full {h0 : H} {o0 : Nat → Nat} {x c : Nat} {done : List Nat}
    (hc : h0.size ≤ c) (kid : Bool) (O : Oracle) (s : X) (h : CI h0 o0 x c done s) :
    CI h0 o0 x c done (newIdUnless kid O s c).1 ∧ (newIdUnless kid O s c).2 = .ok := by
  have hb := newIdUnless_spec hc kid O s h.base
  unfold newIdUnless at hb ⊢
  split
  · exact ⟨h, rfl⟩
  · rename_i hk
    rw [if_neg hk] at hb
    have hstep := step_newId s.h c (O.ids c) h.base.lt
    have hnode : ∀ j, ((s.prim (.newId c (some (O.ids c)))).1.h.node j).name = (s.h.node j).name ∧
        ((s.prim (.newId c (some (O.ids c)))).1.h.node j).kind = (s.h.node j).kind ∧
        ((s.prim (.newId c (some (O.ids c)))).1.h.node j).secs = (s.h.node j).secs ∧
        ((s.prim (.newId c (some (O.ids c)))).1.h.node j).props = (s.h.node j).props := by
      intro j
      rw [prim_h, hstep]
      by_cases hj : j = c
      · subst hj; rw [upd_same]; exact ⟨rfl, rfl, rfl, rfl⟩
      · rw [upd_other _ _ _ _ hj]; exact ⟨rfl, rfl, rfl, rfl⟩
    refine ⟨⟨hb, ?_, ?_, ?_, ?_, ?_⟩, ?_⟩
    · intro i hi
      rw [(hnode i).1]
      apply h.ne i
      rw [prim_h, hstep] at hi; exact hi
    · intro i hi; rw [prim_orig]; exact h.orig i hi
    · rw [(hnode c).2.1]; exact h.kind
    · rw [(hnode c).1]; exact h.name
    · intro m hm
      rw [(hnode c).2.2.1, (hnode c).2.2.2] at hm
      rw [(hnode m).1, (hnode m).2.1]
      exact h.kids m hm
    · show XOut.ofOutcome (step s.h (.newId c (some (O.ids c)))).2 = .ok
      rw [hstep]; rfl

theorem copyObj_orig (s : X) (x : Nat) (i : Nat) (hi : i ≠ s.h.size) :
    (copyObj s x).1.orig i = s.orig i := by
  unfold copyObj X.prim
  simp [step_construct_none, XOut.ofOutcome, hi]

/-- `clone` never raises (and what its copy looks like). -/
theorem cloneAux_full (O : Oracle) : ∀ (fuel : Nat) (s : X) (x : Nat) (ch kid : Bool),
    WF s.h → NoEmptyName s.h → x < s.h.size → CR s x (cloneAux O fuel s x ch kid) := by
  intro fuel
  induction fuel with
  | zero =>
    intro s x ch kid w hn hx
    exact ⟨hn, fun _ _ => rfl, Or.inr rfl, fun h => by cases h⟩
  | succ fuel ih =>
    intro s x ch kid w hn hx
    have hrec0 : ∀ (t : X) (k : Nat), WF t.h →
        CloneRes t ((fun t k => cloneAux O fuel t k true kid) t k) :=
      fun t k wt => cloneAux_spec O fuel t k true kid wt
    have hrec : ∀ (t : X) (k : Nat), WF t.h → NoEmptyName t.h → k < t.h.size →
        CR t k ((fun t k => cloneAux O fuel t k true kid) t k) :=
      fun t k wt hnt hk => ih t k true kid wt hnt hk
    obtain ⟨hc, hok, hh⟩ := copyObj_spec s x
    have horig := copyObj_orig s x
    unfold cloneAux
    split
    · rename_i s1 c heq
      rw [heq] at hc hh horig
      simp only at hc hh horig
      subst hc
      have inv1 : CloneInv s.h.size s.h.size s.h s1.h := by
        rw [hh]
        refine ⟨wf_alloc w _ _ _, ⟨by rw [alloc_size]; omega, ?_⟩, by rw [alloc_size]; omega,
          alloc_new_parent _ _ _ _⟩
        intro i hi; exact alloc_other _ _ _ _ (by omega)
      have hnx : (s.h.node x).name ≠ "" := hn x hx
      have hnew : s1.h.node s.h.size = ⟨(s.h.node x).kind, (s.h.node x).name, (s.h.node x).id,
          none, [], []⟩ := by
        rw [hh]; simp [alloc, hnx]
      have ci1 : CI s.h s.orig x s.h.size [] s1 := by
        refine ⟨inv1, ?_, ?_, ?_, ?_, ?_⟩
        · intro i hi
          rw [hh, alloc_size] at hi
          by_cases hi' : i = s.h.size
          · subst hi'; rw [hnew]; exact hnx
          · rw [hh, alloc_other _ _ _ _ hi']; exact hn i (by omega)
        · intro i hi; exact horig i (by omega)
        · rw [hnew]
        · rw [hnew]
        · intro m hm; rw [hnew] at hm; simp at hm
      have hcn : s.h.size ≤ s.h.size := Nat.le_refl _
      have fin : ∀ (t : X) (o : XOut) (done : List Nat), CI s.h s.orig x s.h.size done t →
          (o = .ok ∨ o = .fuel) → CR s x (t, s.h.size, o) :=
        fun t o done ci ho => ⟨ci.ne, ci.orig, ho, fun _ => ⟨ci.kind, ci.name⟩⟩
      have hparS : ∀ k, k ∈ (s.h.node x).secs → (s.h.node k).parent = some x :=
        fun k hk => ((w.memS x k).mp hk).1
      have hparP : ∀ k, k ∈ (s.h.node x).props → (s.h.node k).parent = some x :=
        fun k hk => ((w.memP x k).mp hk).1
      split
      · obtain ⟨h2, o2⟩ := newIdUnless_full hcn kid O s1 ci1
        split
        rename_i s2 o heq2; rw [heq2] at h2 o2; exact fin _ _ _ h2 (Or.inl o2)
      · -- the child Sections
        have hS : CI s.h s.orig x s.h.size (s.h.node x).secs
              (kidsIf ch (fun t k => cloneAux O fuel t k true kid) s.h.size (s.h.node x).secs s1).1 ∧
            ((kidsIf ch (fun t k => cloneAux O fuel t k true kid) s.h.size
                (s.h.node x).secs s1).2 = .ok ∨
             (kidsIf ch (fun t k => cloneAux O fuel t k true kid) s.h.size
                (s.h.node x).secs s1).2 = .fuel) := by
          unfold kidsIf
          split
          · have := kidsLoop_full hrec0 hrec w hcn (s.h.node x).secs [] s1 ci1
              (fun _ _ h => by cases h) (w.nodupS x)
              (fun k hk => by
                rcases hk with h1 | h1
                · cases h1
                · exact hparS k h1)
            simpa using this
          · exact ⟨ci1.mono (fun _ h => by cases h), Or.inl rfl⟩
        obtain ⟨h2, o2⟩ := hS
        split
        · rename_i s2 heq2
          rw [heq2] at h2
          obtain ⟨h3, o3⟩ := newIdUnless_full hcn kid O s2 h2
          split
          · rename_i s3 heq3
            rw [heq3] at h3
            split
            · have h4 := kidsLoop_full hrec0 hrec w hcn (s.h.node x).props (s.h.node x).secs s3 h3
                (fun k hk hk' => by
                  have h1 := ((w.memP x k).mp hk).2
                  have h2 := ((w.memS x k).mp hk').2
                  rw [h1] at h2; cases h2)
                (w.nodupP x)
                (fun k hk => by
                  rcases hk with h1 | h1
                  · exact hparS k h1
                  · exact hparP k h1)
              split
              rename_i s4 o heq4; rw [heq4] at h4; exact fin _ _ _ h4.1 h4.2
            · exact fin _ _ _ h3 (Or.inl rfl)
          · rename_i s3 o hne heq3; rw [heq3] at o3; exact absurd o3 hne
        · rename_i s2 o hne heq2
          rw [heq2] at h2 o2
          rcases o2 with h1 | h1
          · exact absurd h1 hne
          · exact fin _ _ _ h2 (Or.inr h1)
    · rename_i r hne
      exfalso; apply hne; rw [← hok]

end Heap.Refuse
