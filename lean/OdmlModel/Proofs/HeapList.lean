/-
List lemmas behind the heap model: identity index, `del`, Python `insert`, `_reorder`, item set.
-/
import OdmlModel.Model.Heap

set_option linter.unusedSimpArgs false

namespace Heap

theorem indexOf?_none {l : List Nat} {x : Nat} : indexOf? l x = none ↔ x ∉ l := by
  induction l with
  | nil => simp [indexOf?]
  | cons y ys ih =>
    simp only [indexOf?]
    by_cases h : y = x
    · simp [h]
    · simp [h, ih]
      exact fun _ e => h e.symm

theorem indexOf?_some {l : List Nat} {x i : Nat} (h : indexOf? l x = some i) :
    l[i]? = some x ∧ x ∈ l := by
  induction l generalizing i with
  | nil => simp [indexOf?] at h
  | cons y ys ih =>
    simp only [indexOf?] at h
    by_cases hy : y = x
    · simp [hy] at h; subst h; simp [hy]
    · simp [hy] at h
      obtain ⟨j, hj, rfl⟩ := h
      have := ih hj
      simp [this.1, this.2]

theorem indexOf?_of_mem {l : List Nat} {x : Nat} (h : x ∈ l) : ∃ i, indexOf? l x = some i := by
  cases hi : indexOf? l x with
  | none => exact absurd h (indexOf?_none.mp hi)
  | some i => exact ⟨i, rfl⟩

/-- `del l[l.index(x)]` removes the first occurrence of `x`. -/
theorem delAt_indexOf {l : List Nat} {x i : Nat} (h : indexOf? l x = some i) :
    delAt l i = l.erase x := by
  induction l generalizing i with
  | nil => simp [indexOf?] at h
  | cons y ys ih =>
    simp only [indexOf?] at h
    by_cases hy : y = x
    · simp [hy] at h; subst h; simp [delAt, hy]
    · simp [hy] at h
      obtain ⟨j, hj, rfl⟩ := h
      have := ih hj
      simp only [delAt] at this
      simp [delAt, List.eraseIdx_cons_succ, this, List.erase_cons, hy]

/-- Deleting a position that holds `x` gives, up to order, the list without one `x`. -/
theorem cons_eraseIdx_perm {l : List Nat} {j x : Nat} (h : l[j]? = some x) :
    (x :: l.eraseIdx j).Perm l := by
  induction l generalizing j with
  | nil => simp at h
  | cons y ys ih =>
    cases j with
    | zero => simp at h; subst h; simp
    | succ j =>
      simp at h
      have := ih h
      simp only [List.eraseIdx_cons_succ]
      exact (List.Perm.swap y x _).trans (this.cons y)

theorem pyPos_le (len : Nat) (i : Int) : pyPos len i ≤ len := by
  unfold pyPos
  split <;> split <;> omega

theorem pyPos_nonneg {len : Nat} {i : Int} (h : 0 ≤ i) : pyPos len i = min i.toNat len := by
  unfold pyPos
  split
  · omega
  · split <;> omega

theorem pyInsert_perm (l : List Nat) (i : Int) (x : Nat) : (pyInsert l i x).Perm (x :: l) := by
  unfold pyInsert
  have := (List.perm_middle (a := x) (l₁ := l.take (pyPos l.length i)) (l₂ := l.drop (pyPos l.length i)))
  simpa using this

theorem mem_pyInsert {l : List Nat} {i : Int} {x c : Nat} :
    c ∈ pyInsert l i x ↔ c = x ∨ c ∈ l := by
  rw [(pyInsert_perm l i x).mem_iff]; simp

theorem nodup_pyInsert {l : List Nat} {i : Int} {x : Nat} (hx : x ∉ l) (hl : l.Nodup) :
    (pyInsert l i x).Nodup := by
  rw [(pyInsert_perm l i x).nodup_iff]
  exact List.nodup_cons.mpr ⟨hx, hl⟩

/-- Reading the list after an insertion at position `k`. -/
theorem getElem?_insertAt (l : List Nat) (k : Nat) (hk : k ≤ l.length) (x : Nat) (j : Nat) :
    (l.take k ++ x :: l.drop k)[j]? =
      if j < k then l[j]? else if j = k then some x else l[j - 1]? := by
  have hlen : (l.take k).length = k := by simp [List.length_take]; omega
  split
  · rename_i h
    rw [List.getElem?_append_left (by omega)]
    simp [List.getElem?_take, h]
  · rename_i h
    rw [List.getElem?_append_right (by omega), hlen]
    split
    · rename_i h2; subst h2; simp
    · rename_i h2
      have : j - k = (j - k - 1) + 1 := by omega
      rw [this, List.getElem?_cons_succ, List.getElem?_drop]
      congr 1; omega

/-- `_reorder` only permutes the child list. -/
theorem reorderList_perm {l l' : List Nat} {x : Nat} {ni : Int}
    (h : reorderList l x ni = some l') : l'.Perm l := by
  unfold reorderList at h
  cases hi : indexOf? l x with
  | none => simp [hi] at h
  | some old =>
    simp only [hi] at h
    obtain ⟨hget, _⟩ := indexOf?_some hi
    have hlt : old < l.length := by
      rcases Nat.lt_or_ge old l.length with h1 | h1
      · exact h1
      · rw [List.getElem?_eq_none h1] at hget; cases hget
    generalize hnn : (if ni < 0 then (if (l.length : Int) + ni < 0 then 0 else (l.length : Int) + ni) else ni) = nn at h
    have hnn0 : 0 ≤ nn := by subst hnn; split <;> (try split) <;> omega
    generalize hn2 : (if nn > (old : Int) then nn + 1 else nn) = ni2 at h
    have hn20 : 0 ≤ ni2 := by subst hn2; split <;> omega
    have hk := pyPos_nonneg (len := l.length) hn20
    have hkle := pyPos_le l.length ni2
    have key : ∀ j, (pyInsert l ni2 x)[j]? = some x → l' = delAt (pyInsert l ni2 x) j → l'.Perm l := by
      intro j hj he
      have p1 := cons_eraseIdx_perm hj
      have p2 := pyInsert_perm l ni2 x
      rw [he]
      exact List.Perm.cons_inv (p1.trans p2)
    split at h
    · rename_i hlt2
      apply key (old + 1) _ (by simpa using h.symm)
      unfold pyInsert
      rw [getElem?_insertAt l _ hkle]
      have : pyPos l.length ni2 ≤ old := by omega
      simp only [show ¬ (old + 1 < pyPos l.length ni2) by omega, show ¬ (old + 1 = pyPos l.length ni2) by omega]
      simpa using hget
    · rename_i hge
      apply key old _ (by simpa using h.symm)
      unfold pyInsert
      rw [getElem?_insertAt l _ hkle]
      by_cases hko : old < pyPos l.length ni2
      · simp [hko, hget]
      · have : pyPos l.length ni2 = old := by omega
        simp [this]

/-- Replacing one entry. -/
theorem mem_setAt {l : List Nat} {idx r v c : Nat} (hr : l[idx]? = some r) (hl : l.Nodup) :
    c ∈ setAt l idx v ↔ c = v ∨ (c ∈ l ∧ c ≠ r) := by
  induction l generalizing idx with
  | nil => simp at hr
  | cons y ys ih =>
    cases idx with
    | zero =>
      simp at hr; subst hr
      have := List.nodup_cons.mp hl
      simp only [setAt, List.set_cons_zero, List.mem_cons]
      constructor
      · rintro (h | h)
        · exact Or.inl h
        · exact Or.inr ⟨Or.inr h, fun e => this.1 (e ▸ h)⟩
      · rintro (h | ⟨h1 | h1, h2⟩)
        · exact Or.inl h
        · exact absurd h1 h2
        · exact Or.inr h1
    | succ i =>
      simp at hr
      have hn := List.nodup_cons.mp hl
      have := ih hr hn.2
      simp only [setAt] at this
      simp only [setAt, List.set_cons_succ, List.mem_cons, this]
      have hrm : r ∈ ys := List.mem_of_getElem? hr
      constructor
      · rintro (h | h | ⟨h1, h2⟩)
        · subst h; exact Or.inr ⟨Or.inl rfl, fun e => hn.1 (e ▸ hrm)⟩
        · exact Or.inl h
        · exact Or.inr ⟨Or.inr h1, h2⟩
      · rintro (h | ⟨h1 | h1, h2⟩)
        · exact Or.inr (Or.inl h)
        · exact Or.inl h1
        · exact Or.inr (Or.inr ⟨h1, h2⟩)

theorem nodup_setAt {l : List Nat} {idx r v : Nat} (hr : l[idx]? = some r) (hl : l.Nodup)
    (hv : v ∉ l) : (setAt l idx v).Nodup := by
  induction l generalizing idx with
  | nil => simp at hr
  | cons y ys ih =>
    have hn := List.nodup_cons.mp hl
    cases idx with
    | zero =>
      simp only [setAt, List.set_cons_zero]
      exact List.nodup_cons.mpr ⟨fun h => hv (List.mem_cons_of_mem _ h), hn.2⟩
    | succ i =>
      simp at hr
      have hv' : v ∉ ys := fun h => hv (List.mem_cons_of_mem _ h)
      have := ih hr hn.2 hv'
      simp only [setAt] at this
      simp only [setAt, List.set_cons_succ]
      refine List.nodup_cons.mpr ⟨?_, this⟩
      intro hy
      have hm := (mem_setAt (c := y) (v := v) hr hn.2).mp (by simpa [setAt] using hy)
      rcases hm with h | ⟨h, _⟩
      · exact hv (h ▸ List.mem_cons_self)
      · exact hn.1 h

/-- Replacing the entry `r` by `v` is, up to order, `v` plus the list without `r`. -/
theorem setAt_perm {l : List Nat} {idx r v : Nat} (hr : l[idx]? = some r) :
    (setAt l idx v).Perm (v :: l.erase r) := by
  induction l generalizing idx with
  | nil => simp at hr
  | cons y ys ih =>
    cases idx with
    | zero =>
      simp at hr; subst hr
      simp [setAt]
    | succ i =>
      simp at hr
      have := ih hr
      simp only [setAt] at this
      simp only [setAt, List.set_cons_succ]
      by_cases hy : y = r
      · subst hy
        -- the first occurrence of r is the head: erase removes it, but position i+1 also holds r
        simp only [List.erase_cons_head]
        have h2 : (ys.set i v).Perm (v :: ys.erase y) := this
        have h3 : (y :: ys.erase y).Perm ys := List.perm_cons_erase (List.mem_of_getElem? hr) |>.symm
        exact ((h2.cons y).trans (List.Perm.swap v y _)).trans (h3.cons v)
      · rw [List.erase_cons_tail (by simpa using hy)]
        exact (this.cons y).trans (List.Perm.swap v y _)

end Heap
