/-
C11 helper lemmas, part 8: without `keep_id`, *every* object of the copy - at every depth - carries
an id generated during the call (`uuid4`: at or beyond the counter the call started with).
-/
import OdmlModel.Proofs.CloneFields
namespace Clone

/-- Every object a successful call allocates has an id generated during the call. -/
def RecIds (rec : H → Nat → H × Res) : Prop :=
  ∀ h s h1 sc, rec h s = (h1, .ok sc) → ∀ a, h.nN ≤ a → a < h1.nN → h.nextId ≤ (h1.node a).id

theorem attach_id {h h' : H} {c child : Nat} (ha : attach h c child = (h', none)) (a : Nat) :
    (h'.node a).id = (h.node a).id := by
  rw [attach_ok ha, updN_node]
  split
  · simp only [setChildList, updN_node]; split
    · split <;> rfl
    · rfl
  · simp only [setChildList, updN_node]; split
    · split <;> rfl
    · rfl

theorem cloneLoop_ids {rec} (hrec : RecSpec rec) (hid : RecIds rec) (lo lob : Nat) (c : Nat) :
    ∀ (l : List Nat) (h h' : H), cloneLoop rec h c l = (h', none) → c < h.nN → lo ≤ h.nextId →
      (∀ a, lob ≤ a → a < h.nN → a ≠ c → lo ≤ (h.node a).id) →
      (∀ a, lob ≤ a → a < h'.nN → a ≠ c → lo ≤ (h'.node a).id) := by
  intro l
  induction l with
  | nil =>
    intro h h' hl _ _ hyp
    simp only [cloneLoop, Prod.mk.injEq, and_true] at hl
    subst hl; exact hyp
  | cons s rest ih =>
    intro h h' hl hc hlo hyp
    simp only [cloneLoop] at hl
    split at hl
    · simp at hl
    · rename_i h1 sc hr
      split at hl
      · simp at hl
      · rename_i h2 hat
        obtain ⟨e1, _, hsc, _, _⟩ := hrec h s h1 sc hr
        have ids1 := hid h s h1 sc hr
        have m1 := e1.1
        unfold Mono at m1
        have sz2 : h2.nN = h1.nN ∧ h2.nextId = h1.nextId := by rw [attach_ok hat]; simp [setChildList]
        refine ih h2 h' hl (by omega) (by omega) (fun a ha hlt hne => ?_)
        rw [attach_id hat a]
        by_cases hold : a < h.nN
        · rw [e1.2.1 a hold]; exact hyp a ha hold hne
        · have := ids1 a (by omega) (by omega); omega

theorem loopOpt_ids {rec} (hrec : RecSpec rec) (hid : RecIds rec) (lo lob : Nat) (c : Nat) (ch : Bool)
    (l : List Nat) (h h' : H) (hl : (if ch = true then cloneLoop rec h c l else (h, none)) = (h', none))
    (hc : c < h.nN) (hlo : lo ≤ h.nextId) (hyp : ∀ a, lob ≤ a → a < h.nN → a ≠ c → lo ≤ (h.node a).id) :
    ∀ a, lob ≤ a → a < h'.nN → a ≠ c → lo ≤ (h'.node a).id := by
  cases ch with
  | true => exact cloneLoop_ids hrec hid lo lob c l h h' (by simpa using hl) hc hlo hyp
  | false =>
    simp only [Bool.false_eq_true, if_false, Prod.mk.injEq, and_true] at hl
    subst hl; exact hyp

theorem cloneBody_ids {rec} (hrec : RecSpec rec) (hid : RecIds rec) (h : H) (x : Nat) (ch : Bool) (h' : H) (c : Nat)
    (hb : cloneBody rec h x ch false = (h', .ok c)) :
    ∀ a, h.nN ≤ a → a < h'.nN → h.nextId ≤ (h'.node a).id := by
  have root := cloneBody_fields hrec h x ch false h' c hb
  unfold cloneBody at hb
  simp only [allocN_ret, Bool.false_eq_true, if_false] at hb
  generalize hh3 : updN (updN (allocN h (h.node x)).1 h.nN (fun n => { n with parent := none })) h.nN
      (fun n => { n with secs := [] }) = h3 at hb
  have sz3 : h3.nN = h.nN + 1 ∧ h3.nextId = h.nextId := by rw [← hh3]; simp
  split at hb
  · simp at hb
  · rename_i h4 hl4
    have i4 := loopOpt_ids hrec hid h.nextId h.nN h.nN ch _ h3 h4 hl4 (by omega) (by omega)
      (fun a h1 h2 h3' => by omega)
    obtain ⟨_, nx4, nn4⟩ := loopOpt_fields hrec h.nN ch _ h3 h4 (by omega) hl4
    have i5 : ∀ a, h.nN ≤ a → a < (newId h4 h.nN).nN → a ≠ h.nN → h.nextId ≤ ((newId h4 h.nN).node a).id := by
      intro a h1 h2 hne
      rw [newId_node, if_neg hne]; exact i4 a h1 (by simpa using h2) hne
    have close : ∀ h7 : H, (∀ a, h.nN ≤ a → a < h7.nN → a ≠ h.nN → h.nextId ≤ (h7.node a).id) → c = h.nN →
        h' = h7 → ∀ a, h.nN ≤ a → a < h'.nN → h.nextId ≤ (h'.node a).id := by
      intro h7 hyp hc he a h1 h2
      subst he
      by_cases e : a = h.nN
      · rw [e, ← hc]; exact (root.idFresh rfl).1
      · exact hyp a h1 h2 e
    split at hb
    · simp only [Prod.mk.injEq, Res.ok.injEq] at hb
      exact close _ i5 hb.2.symm hb.1.symm
    · generalize hh6 : updN (newId h4 h.nN) h.nN (fun n => { n with props := [] }) = h6 at hb
      have i6 : ∀ a, h.nN ≤ a → a < h6.nN → a ≠ h.nN → h.nextId ≤ (h6.node a).id := by
        intro a h1 h2 hne
        rw [← hh6, updN_other _ _ _ _ hne]; exact i5 a h1 (by rw [← hh6] at h2; simpa using h2) hne
      have sz6 : h6.nN = h4.nN ∧ h6.nextId = h4.nextId + 1 := by rw [← hh6]; simp
      split at hb
      · simp at hb
      · rename_i h7 hl7
        simp only [Prod.mk.injEq, Res.ok.injEq] at hb
        have i7 := loopOpt_ids hrec hid h.nextId h.nN h.nN ch _ h6 h7 hl7 (by omega) (by omega) i6
        exact close _ i7 hb.2.symm hb.1.symm

theorem cloneF_ids : ∀ (f : Nat) (h : H) (x : Nat) (ch : Bool) (h' : H) (c : Nat),
    cloneF f h x ch false = (h', .ok c) → ∀ a, h.nN ≤ a → a < h'.nN → h.nextId ≤ (h'.node a).id := by
  intro f
  induction f with
  | zero => intro h x ch h' c hc; simp [cloneF] at hc
  | succ f ih =>
    intro h x ch h' c hc
    simp only [cloneF] at hc
    split at hc
    · simp only [Prod.mk.injEq, Res.ok.injEq] at hc
      obtain ⟨rfl, rfl⟩ := hc
      have s := cloneProp_spec h x false
      intro a h1 h2
      have : a = (cloneProp h x false).2 := by rw [s.nN] at h2; rw [s.c_eq]; omega
      rw [this, s.node]; simp
    · exact cloneBody_ids (cloneF_recSpec f false) (fun h s h1 sc hr => ih h s true h1 sc hr) h x ch h' c hc

end Clone
