/-
Helper lemmas about M-FS (`Model/FS.lean`): the file-system algebra and the operational
writers against their declarative reading `wouldWrite`.
-/
import OdmlModel.Model.FS

namespace FS

@[simp] theorem write_same (fs : Fs) (p : Path) (b : Bytes) : (fs.write p b) p = some b := by
  simp [Fs.write]

@[simp] theorem write_other (fs : Fs) (p q : Path) (b : Bytes) (h : q ≠ p) :
    (fs.write p b) q = fs q := by
  simp [Fs.write, h]

/-- Truncating and then writing is the same as replacing the content. -/
@[simp] theorem write_write (fs : Fs) (p : Path) (a b : Bytes) :
    (fs.write p a).write p b = fs.write p b := by
  funext q
  by_cases h : q = p <;> simp [Fs.write, h]

theorem openW_ok {Doc} (env : Env Doc) (p : Path) (fs : Fs) (h : env.canOpen p = true) :
    openW env p fs = .ok (fs.write p []) := by
  simp [openW, h]

theorem openW_refused {Doc} (env : Env Doc) (p : Path) (fs : Fs) (h : env.canOpen p = false) :
    openW env p fs = .error .osError := by
  simp [openW, h]

/-- The text an XML save would put into the file. -/
def xmlText {Doc} (env : Env Doc) (d : Doc) : Except Exc Bytes :=
  (env.render .xml d).bind env.decorate

/-- `XMLWriter.write_file`, read declaratively. -/
theorem xml_spec {Doc} (env : Env Doc) (d : Doc) (p : Path) (fs : Fs) (w : Bool) :
    xmlWriterWriteFile env d p fs w =
      match xmlText env d with
      | .error e => (fs, .raised e)
      | .ok text => if env.canOpen p then (fs.write p text, .ok w) else (fs, .raised .osError) := by
  unfold xmlWriterWriteFile xmlText
  cases hr : env.render .xml d with
  | error e => simp [Except.bind]
  | ok data =>
    simp only [Except.bind]
    cases hd : env.decorate data with
    | error e => simp
    | ok text =>
      by_cases hc : env.canOpen p = true
      · simp [openW, hc]
      · simp only [Bool.not_eq_true] at hc
        simp [openW, hc]

/-- The text a save through `ODMLWriter` would put into the file (any backend). -/
def textOf {Doc} (env : Env Doc) (b : Backend) (f : Option (List Char)) (d : Doc) : Except Exc Bytes :=
  match b with
  | .xml => xmlText env d
  | _ => toStr env b f d

theorem wouldWrite_eq {Doc} (env : Env Doc) (b : Backend) (f : Option (List Char)) (d : Doc)
    (p : Path) :
    wouldWrite env b f d p =
      match gate env d with
      | .error _ => none
      | .ok warned =>
        match textOf env b f d with
        | .error _ => none
        | .ok text => if env.canOpen p then some (text, warned) else none := by
  unfold wouldWrite textOf xmlText
  cases gate env d with
  | error e => rfl
  | ok w => cases b <;> rfl

/-- `ODMLWriter.write_file`, read declaratively: the order of effects is gone. -/
theorem odml_spec {Doc} (env : Env Doc) (b : Backend) (f : Option (List Char)) (d : Doc)
    (p : Path) (fs : Fs) :
    odmlWriterWriteFile env b f d p fs =
      match gate env d with
      | .error e => (fs, .raised e)
      | .ok warned =>
        match textOf env b f d with
        | .error e => (fs, .raised e)
        | .ok text =>
          if env.canOpen p then (fs.write p text, .ok warned) else (fs, .raised .osError) := by
  unfold odmlWriterWriteFile
  cases hg : gate env d with
  | error e => rfl
  | ok w =>
    cases b with
    | xml => simp only [xml_spec, textOf]
    | json =>
      simp only [textOf]
      cases toStr env .json f d with
      | error e => rfl
      | ok data =>
        by_cases hc : env.canOpen p = true
        · simp [openW, hc]
        · simp only [Bool.not_eq_true] at hc
          simp [openW, hc]
    | yaml =>
      simp only [textOf]
      cases toStr env .yaml f d with
      | error e => rfl
      | ok data =>
        by_cases hc : env.canOpen p = true
        · simp [openW, hc]
        · simp only [Bool.not_eq_true] at hc
          simp [openW, hc]
    | rdf =>
      simp only [textOf]
      cases toStr env .rdf f d with
      | error e => rfl
      | ok data =>
        by_cases hc : env.canOpen p = true
        · simp [openW, hc]
        · simp only [Bool.not_eq_true] at hc
          simp [openW, hc]

/-- A save that would write does write exactly that, and reports the warning flag. -/
theorem odml_of_wouldWrite_some {Doc} (env : Env Doc) (b : Backend) (f : Option (List Char))
    (d : Doc) (p : Path) (fs : Fs) (t : Bytes) (w : Bool)
    (h : wouldWrite env b f d p = some (t, w)) :
    odmlWriterWriteFile env b f d p fs = (fs.write p t, .ok w) := by
  rw [odml_spec]
  rw [wouldWrite_eq] at h
  cases hg : gate env d with
  | error e => simp [hg] at h
  | ok w' =>
    simp only [hg] at h ⊢
    cases ht : textOf env b f d with
    | error e => simp [ht] at h
    | ok text =>
      simp only [ht] at h ⊢
      by_cases hc : env.canOpen p = true
      · simp only [hc, if_true, Option.some.injEq, Prod.mk.injEq] at h ⊢
        obtain ⟨rfl, rfl⟩ := h
        exact ⟨rfl, rfl⟩
      · simp [hc] at h

/-- A save that would not write raises and leaves the file system as it was. -/
theorem odml_of_wouldWrite_none {Doc} (env : Env Doc) (b : Backend) (f : Option (List Char))
    (d : Doc) (p : Path) (fs : Fs) (h : wouldWrite env b f d p = none) :
    ∃ e, odmlWriterWriteFile env b f d p fs = (fs, .raised e) := by
  rw [odml_spec]
  rw [wouldWrite_eq] at h
  cases hg : gate env d with
  | error e => exact ⟨e, rfl⟩
  | ok w' =>
    simp only [hg] at h ⊢
    cases ht : textOf env b f d with
    | error e => exact ⟨e, rfl⟩
    | ok text =>
      simp only [ht] at h ⊢
      by_cases hc : env.canOpen p = true
      · simp [hc] at h
      · simp only [Bool.not_eq_true] at hc
        exact ⟨.osError, by simp [hc]⟩

/-- `RDFWriter.write_file`, read declaratively. -/
theorem rdfw_spec {Doc} (env : Env Doc) (fmt : List Char) (d : Doc) (p : Path) (fs : Fs) :
    rdfWriterWriteFile env fmt d p fs =
      match getRdfStr env fmt d with
      | .error e => (fs, .raised e)
      | .ok data =>
        match rdfExt fmt with
        | none => (fs, .raised (.other "TypeError"))
        | some _ =>
          if env.canOpen (rdfTarget fmt p) then ((fs.write (rdfTarget fmt p) data), .ok false)
          else (fs, .raised .osError) := by
  unfold rdfWriterWriteFile rdfTarget
  cases getRdfStr env fmt d with
  | error e => rfl
  | ok data =>
    cases hx : rdfExt fmt with
    | none => rfl
    | some ext =>
      simp only []
      by_cases hc : env.canOpen (if hasSub p ext then p else p ++ ext) = true
      · simp [openW, hc]
      · simp only [Bool.not_eq_true] at hc
        simp [openW, hc]

/-- Every format of the table has an extension, so the `str.find(None)` arm is dead. -/
theorem rdfExt_of_known (fmt : List Char) (h : rdfFormatKnown fmt = true) :
    (rdfExt fmt).isSome = true := by
  have hall : Gen.Misc.rdfFormats.all (fun e => !e.2.isEmpty) = true := by decide
  unfold rdfFormatKnown at h
  unfold rdfExt
  generalize Gen.Misc.rdfFormats = tbl at h hall
  induction tbl with
  | nil => simp at h
  | cons e rest ih =>
    simp only [List.any_cons, Bool.or_eq_true] at h
    simp only [List.all_cons, Bool.and_eq_true] at hall
    simp only [List.find?_cons]
    by_cases he : (e.1.toList == fmt) = true
    · simp only [he]
      obtain ⟨k, exts⟩ := e
      cases exts with
      | nil => simp at hall
      | cons x xs => rfl
    · simp only [Bool.not_eq_true] at he
      simp only [he]
      rcases h with h | h
      · simp [he] at h
      · exact ih h hall.2

end FS

namespace FS

/-! ### Fallible writes -/

theorem writeChunks_all_ok {Doc} (env : WEnv Doc) (p : Path) (cs : List Bytes) (acc : Bytes)
    (fs : Fs) (h : ∀ c ∈ cs, env.writeOk c = true) (hacc : fs p = some acc) :
    writeChunks env p cs acc fs = (fs.write p (acc ++ cs.flatten), none) := by
  induction cs generalizing acc fs with
  | nil =>
    simp only [writeChunks, List.flatten_nil, List.append_nil]
    congr 1
    funext q
    by_cases hq : q = p
    · subst hq; simp [hacc]
    · simp [write_other _ _ _ _ hq]
  | cons c cs ih =>
    simp only [writeChunks, h c List.mem_cons_self, if_true]
    rw [ih (acc ++ c) (fs.write p (acc ++ c)) (fun c' hc' => h c' (List.mem_cons_of_mem _ hc'))
          (write_same _ _ _)]
    simp [List.append_assoc]

theorem writeChunks_other {Doc} (env : WEnv Doc) (p : Path) (cs : List Bytes) (acc : Bytes)
    (fs : Fs) (q : Path) (hq : q ≠ p) : (writeChunks env p cs acc fs).1 q = fs q := by
  induction cs generalizing acc fs with
  | nil => rfl
  | cons c cs ih =>
    simp only [writeChunks]
    split
    · rw [ih]; exact write_other fs p q _ hq
    · rfl

theorem writeChunks_fail {Doc} (env : WEnv Doc) (p : Path) (cs : List Bytes) (acc : Bytes)
    (fs : Fs) (e : Exc) (h : (writeChunks env p cs acc fs).2 = some e) :
    ∃ c ∈ cs, env.writeOk c = false := by
  induction cs generalizing acc fs with
  | nil => simp [writeChunks] at h
  | cons c cs ih =>
    simp only [writeChunks] at h
    by_cases hc : env.writeOk c = true
    · simp only [hc, if_true] at h
      obtain ⟨c', hc', hw⟩ := ih _ _ h
      exact ⟨c', List.mem_cons_of_mem _ hc', hw⟩
    · exact ⟨c, List.mem_cons_self, by simpa using hc⟩

/-- With writes that cannot fail, the fallible-write model is the plain one. -/
theorem saveW_eq {Doc} (env : WEnv Doc) (hW : ∀ t, env.writeOk t = true) (b : Backend)
    (f : Option (List Char)) (d : Doc) (p : Path) (fs : Fs) :
    saveW env b f d p fs = odmlWriterWriteFile env.toEnv b f d p fs := by
  rw [odml_spec]
  unfold saveW
  cases hg : gate env.toEnv d with
  | error e => rfl
  | ok w =>
    simp only []
    have key : ∀ (t : Bytes) (cs : List Bytes), cs.flatten = t →
        (match openW env.toEnv p fs with
          | .error e => (fs, Outcome.raised e)
          | .ok fs1 =>
            match writeChunks env p cs [] fs1 with
            | (fs2, none) => (fs2, Outcome.ok w)
            | (fs2, some e) => (fs2, Outcome.raised e)) =
        (if env.canOpen p = true then (fs.write p t, Outcome.ok w) else (fs, Outcome.raised .osError)) := by
      intro t cs hcs
      by_cases hc : env.canOpen p = true
      · simp only [openW, hc, if_true]
        rw [writeChunks_all_ok env p cs [] _ (fun c _ => hW c) (write_same _ _ _)]
        simp [hcs]
      · simp only [Bool.not_eq_true] at hc
        simp [openW, hc]
    cases b with
    | xml =>
      simp only [chunksOf, textOf, xmlText]
      cases hx : (env.render .xml d).bind env.decorate with
      | error e => rfl
      | ok t =>
        simp only [Except.map]
        exact key t _ (by simp [env.split_ok])
    | json =>
      simp only [chunksOf, textOf]
      cases toStr env.toEnv .json f d with
      | error e => rfl
      | ok t => simp only [Except.map]; exact key t _ (by simp)
    | yaml =>
      simp only [chunksOf, textOf]
      cases toStr env.toEnv .yaml f d with
      | error e => rfl
      | ok t => simp only [Except.map]; exact key t _ (by simp)
    | rdf =>
      simp only [chunksOf, textOf]
      cases toStr env.toEnv .rdf f d with
      | error e => rfl
      | ok t => simp only [Except.map]; exact key t _ (by simp)

end FS
