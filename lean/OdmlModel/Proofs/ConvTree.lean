/-
C15, whole-tree composition, part 4: Sections (structural induction over the nested tree) and the
Document.

`readDoc (convertTree fresh x) = content10 fresh x` for every element tree `x` - any depth, any
number of Sections / Properties / values - that satisfies the decidable predicate `ConvWF`.
-/
import OdmlModel.Proofs.ConvProp

namespace Conv
open Conv.Xml

/-! ## The hypothesis: what the composition needs of a 1.0 document -/

/-- A named Property: `PropOK` as a decidable check. -/
def propOKb (p : Xml) : Bool :=
  uniqueTags p.kids uTags &&
  ((sel "dependencyvalue" p.kids).isEmpty || (sel "dependency_value" p.kids).isEmpty) &&
  (valuesOf p).all (fun v => (valueElems v).all (fun d => d.tag != "id" && d.tag != "dependencyvalue"))

/-- The named Property children of a Section (unnamed ones are dropped by the converter). -/
def propsOKb (ks : List Xml) : Bool :=
  (sel "property" ks).all (fun p => (find "name" p.kids).isNone || propOKb p)

/-- A Section has a name, and at most one `name`, `type`, `definition` child. -/
def secOwnOKb (ks : List Xml) : Bool :=
  (find "name" ks).isSome && uniqueTags ks ["name", "type", "definition"]

mutual
/-- A Section element and everything below it in the Section skeleton. -/
def convOK : Xml → Bool
  | .elem _ _ _ ks => secOwnOKb ks && propsOKb ks && convOKKids ks
def convOKKids : List Xml → Bool
  | [] => true
  | k :: ks => (if k.tag = "section" then convOK k else true) && convOKKids ks
end

/-- **Hypothesis of the composition theorem** (decidable).  The root does not already declare
    format version 1.1, and every Section of the skeleton (at any depth) has a name, at most one
    `name` / `type` / `definition` child, and named Properties in which each tag the reader looks
    at occurs at most once, the dependency value is spelled one way, and no value element carries
    an `id` / `dependencyvalue` of its own.  Nothing is asked of root attributes, ids, texts,
    the number or names of siblings, unsupported elements, unnamed or root-level Properties. -/
def ConvWF (x : Xml) : Bool := !encodedValues x && convOKKids x.kids

theorem convOK_parts (k : Xml) (h : convOK k = true) :
    (find "name" k.kids).isSome = true ∧ uniqueTags k.kids ["name", "type", "definition"] = true ∧
    propsOKb k.kids = true ∧ convOKKids k.kids = true := by
  cases k with
  | elem t a x ks =>
    simp only [convOK, secOwnOKb, Bool.and_eq_true] at h
    exact ⟨h.1.1.1, h.1.1.2, h.1.2, h.2⟩

theorem PropOK_of_b (p : Xml) (hn : (find "name" p.kids).isSome = true) (h : propOKb p = true) :
    PropOK p := by
  simp only [propOKb, Bool.and_eq_true, Bool.or_eq_true, List.isEmpty_iff, List.all_eq_true,
    bne_iff_ne, ne_eq] at h
  refine ⟨hn, fun t ht => uniqueTags_le_one h.1.1 ht, h.1.2, ?_⟩
  intro v hv d hd
  exact h.2 v hv d hd

theorem propsOKb_cons (k : Xml) (ks : List Xml) :
    propsOKb (k :: ks) =
      ((if k.tag = "property" then (find "name" k.kids).isNone || propOKb k else true) &&
        propsOKb ks) := by
  unfold propsOKb
  rw [sel_cons]
  by_cases h : k.tag = "property" <;> simp [h]

/-! ## Elements after each pass -/

theorem p3_kids (enc : Bool) (k : Xml) :
    (p3 enc k).1.kids = (p3Kids enc (parentLabel "name" "unnamed" k.kids)
      (parentLabel "type" "untyped" k.kids) k.kids).1 := by
  cases k; simp [p3]

theorem p4_kids_sec (k : Xml) (h : k.tag = "section") :
    (p4 k).1.kids = (secCleanup (pyStr (findText "name" k.kids)) (p4Kids k.kids).1).1 := by
  cases k with
  | elem t a x ks =>
    simp only [tag_elem] at h
    simp [p4, h]

theorem p4_kids_other (k : Xml) (h : k.tag ≠ "section") : (p4 k).1.kids = (p4Kids k.kids).1 := by
  cases k with
  | elem t a x ks =>
    simp only [tag_elem] at h
    simp [p4, h]

theorem p6_eq (fresh : List Char) (d : Nat) (k : Xml) :
    p6 fresh d k = addId fresh (.elem k.tag k.attrs k.text
      (p6Kids fresh (if k.tag = "section" then d + 1 else d) k.kids)) := by
  cases k; rfl

theorem p2_kids (k : Xml) : (p2 k).kids = k.kids := by cases k; rfl
theorem p2_tag (k : Xml) : (p2 k).tag = k.tag := by cases k; rfl
theorem p5_kids (k : Xml) : (p5 k).1.kids = (docCleanup k.kids).1 := by cases k; rfl
theorem p5_tag (k : Xml) : (p5 k).1.tag = k.tag := by cases k; rfl

theorem readSec_eq (e : Xml) :
    readSec e = .mk (lastText "name" e.kids) (lastText "type" e.kids) (lastText "definition" e.kids)
      (lastText "id" e.kids) (readProps e.kids) (readSecs e.kids) := by
  cases e; simp [readSec]

theorem secC10_eq (fresh n : List Char) (k : Xml) :
    secC10 fresh n k = .mk (Py.strip n) (Py.strip (findText "type" k.kids))
      (Py.strip (findText "definition" k.kids)) (id10 fresh k.kids) (props10 fresh [] [] k.kids)
      (secs10 fresh [] [] k.kids) := by
  cases k; simp [secC10]

/-- Reading an element to which `_add_id` has been applied last. -/
theorem sel_addId_elem (t : String) (ht : t ≠ "id") (fresh : List Char) (tg : String)
    (a : List (String × List Char)) (x : List Char) (ks : List Xml) :
    sel t (addId fresh (.elem tg a x ks)).kids = sel t ks := by
  rw [sel_addId_other t ht]; rfl

/-! ## The children of a converted Section -/

/-- The children of a Section after stages 1 - 4 (`n`: the name stage 1 gives it). -/
theorem sec_kids (n : List Char) (k : Xml) (hs : k.tag = "section") :
    ∃ sn sn' st', (p4 (p3 false (rename n (p1 k))).1).1.kids =
      (secCleanup sn (p4Kids (p3Kids false sn' st'
        (setFirstText "name" n (p1Kids true [] [] [] [] k.kids))).1).1).1 := by
  have htag : (p3 false (rename n (p1 k))).1.tag = "section" := by
    rw [p3_tag, rename_tag, p1_tag]; exact hs
  refine ⟨pyStr (findText "name" (p3 false (rename n (p1 k))).1.kids),
    parentLabel "name" "unnamed" (rename n (p1 k)).kids,
    parentLabel "type" "untyped" (rename n (p1 k)).kids, ?_⟩
  rw [p4_kids_sec _ htag, p3_kids, rename_kids, p1_kids]
  simp only [hs, beq_self_eq_true]

theorem sec_tag (n : List Char) (k : Xml) : (p4 (p3 false (rename n (p1 k))).1).1.tag = k.tag := by
  rw [p4_tag, p3_tag, rename_tag, p1_tag]

/-! ## Lists of siblings: Properties -/

theorem props_list (fresh : List Char) (hf : idOf fresh fresh = fresh)
    (hv : ∀ (sn st : List Char) (p : Xml),
      readValues (transformProp false sn st p).1.kids = some (vals10 p))
    (sn st : List Char) (d : Nat) (ks : List Xml) (sm pm : Counter) (sd pd prev : List (List Char))
    (hrep : Rep pm prev) (hok : propsOKb ks = true) :
    ((sel "property" (p1Kids true sm pm sd pd ks)).filterMap (p3Prop false sn st)).map
        (fun q => readProp (iter (addId fresh) (d + 1) q)) = props10 fresh pd prev ks := by
  induction ks generalizing sm pm sd pd prev with
  | nil => simp [p1Kids, sel_nil, props10]
  | cons k ks ihl =>
    rw [propsOKb_cons, Bool.and_eq_true] at hok
    by_cases hs : k.tag = "section"
    · have hnp : ¬ k.tag = "property" := by rw [hs]; decide
      simp only [p1Kids, hs, ↓reduceIte, props10]
      split
      · rw [sel_cons, if_neg (by rw [rename_tag, p1_tag]; exact hnp)]
        exact ihl _ _ _ _ _ hrep hok.2
      · rw [sel_cons, if_neg (by rw [p1_tag]; exact hnp)]
        exact ihl _ _ _ _ _ hrep hok.2
    · by_cases hp : k.tag = "property"
      · cases hfn : find "name" k.kids with
        | none =>
          simp only [p1Kids, hs, ↓reduceIte]
          simp only [hp, Bool.and_true, decide_true, ↓reduceIte, hfn, props10]
          rw [sel_cons, if_pos hp, List.filterMap_cons]
          simp only [p3Prop, hfn, Option.isNone_none, ↓reduceIte]
          exact ihl _ _ _ _ _ hrep hok.2
        | some nm =>
          have hnamed : (find "name" k.kids).isSome = true := by rw [hfn]; rfl
          have hkok : PropOK k := by
            have := hok.1
            rw [if_pos hp, hfn] at this
            exact PropOK_of_b k hnamed (by simpa using this)
          obtain ⟨h1, h2⟩ := bump_spec pm (pd ++ propNames ks) prev nm.text hrep
          simp only [p1Kids, hs, ↓reduceIte]
          simp only [hp, Bool.and_true, decide_true, ↓reduceIte, hfn, props10]
          rw [sel_cons, if_pos (by rw [rename_tag]; exact hp), List.filterMap_cons]
          have hnamed' : (find "name" (rename (bump pm (pd ++ propNames ks) nm.text).2 k).kids).isSome
              = true := by
            rw [rename_kids, find_isSome_setFirstText]; exact hnamed
          have hnn : (find "name" (rename (bump pm (pd ++ propNames ks) nm.text).2 k).kids).isNone
              = false := by
            cases hx : find "name" (rename (bump pm (pd ++ propNames ks) nm.text).2 k).kids with
            | none => rw [hx] at hnamed'; cases hnamed'
            | some _ => rfl
          simp only [p3Prop, hnn, Bool.false_eq_true, ↓reduceIte, List.map_cons]
          rw [readProp_converted fresh hf hv sn st d _ (PropOK_rename _ k hkok),
            findText_name_rename _ k hnamed, propC10_rename, h1,
            ihl _ _ _ _ _ h2 hok.2]
      · simp only [p1Kids, hs, ↓reduceIte, hp, Bool.and_true, decide_false, Bool.false_eq_true, props10]
        rw [sel_cons, if_neg hp]
        exact ihl _ _ _ _ _ hrep hok.2

/-! ## Lists of siblings: Sections -/

/-- The statement of the Section level for one element. -/
def SecStmt (fresh : List Char) (k : Xml) : Prop :=
  k.tag = "section" → convOK k = true → ∀ (d : Nat) (n : List Char),
    readSec (p6 fresh d (p4 (p3 false (rename n (p1 k))).1).1) = secC10 fresh n k

theorem secs_list (fresh : List Char) (d : Nat) (ks : List Xml)
    (ih : ∀ k ∈ ks, SecStmt fresh k) (b : Bool) (sm pm : Counter) (sd pd prev : List (List Char))
    (hrep : Rep sm prev) (hok : convOKKids ks = true) :
    (sel "section" (p1Kids b sm pm sd pd ks)).map
        (fun k => readSec (p6 fresh d (p4 (p3 false k).1).1)) = secs10 fresh sd prev ks := by
  induction ks generalizing sm pm sd pd prev with
  | nil => simp [p1Kids, sel_nil, secs10]
  | cons k ks ihl =>
    have ih' : ∀ k' ∈ ks, SecStmt fresh k' := fun k' hm => ih k' (List.mem_cons_of_mem _ hm)
    simp only [convOKKids, Bool.and_eq_true] at hok
    by_cases hs : k.tag = "section"
    · have hck : convOK k = true := by simpa [hs] using hok.1
      have hnamed : (find "name" k.kids).isSome = true := (convOK_parts k hck).1
      cases hfn : find "name" k.kids with
      | none => rw [hfn] at hnamed; cases hnamed
      | some nm =>
        have hft : findText "name" k.kids = nm.text := by simp [findText, hfn]
        obtain ⟨h1, h2⟩ := bump_spec sm (sd ++ secNames ks) prev nm.text hrep
        simp only [p1Kids, hs, ↓reduceIte, hfn, secs10, hft]
        rw [sel_cons, if_pos (by rw [rename_tag, p1_tag]; exact hs), List.map_cons,
          ih k (by simp) hs hck d _, h1, ihl ih' _ _ _ _ _ h2 hok.2]
    · simp only [p1Kids, hs, ↓reduceIte, secs10]
      split
      · split
        · rw [sel_cons, if_neg (by rw [rename_tag]; exact hs)]
          exact ihl ih' _ _ _ _ _ hrep hok.2
        · rw [sel_cons, if_neg hs]
          exact ihl ih' _ _ _ _ _ hrep hok.2
      · rw [sel_cons, if_neg hs]
        exact ihl ih' _ _ _ _ _ hrep hok.2

/-! ## The Section level -/

theorem section_level (fresh : List Char) (hf : idOf fresh fresh = fresh)
    (hv : ∀ (sn st : List Char) (p : Xml),
      readValues (transformProp false sn st p).1.kids = some (vals10 p)) :
    ∀ k, SecStmt fresh k := by
  apply Xml.ind
  intro t a x ks ih hs hck d n
  obtain ⟨hnamed, huniq, hprops, hkids⟩ := convOK_parts _ hck
  simp only [kids_elem] at hnamed huniq hprops hkids
  obtain ⟨sn, sn', st', hk4⟩ := sec_kids n (.elem t a x ks) hs
  simp only [kids_elem] at hk4
  have htag4 := sec_tag n (.elem t a x ks)
  rw [hs] at htag4
  rw [p6_eq, htag4, if_pos rfl, hk4, readSec_eq, secC10_eq]
  simp only [kids_elem]
  generalize (p4 (p3 false (rename n (p1 (Xml.elem t a x ks)))).1).1.attrs = a'
  generalize (p4 (p3 false (rename n (p1 (Xml.elem t a x ks)))).1).1.text = x'
  -- children of a tag other than section / property / name come through unchanged
  have hplain : ∀ u, u ∈ secKeys → u ≠ "section" → u ≠ "property" → u ≠ "name" →
      sel u (p6Kids fresh (d + 1) (secCleanup sn (p4Kids (p3Kids false sn' st'
        (setFirstText "name" n (p1Kids true [] [] [] [] ks))).1).1).1) = sel u ks := by
    intro u hu h1 h2 h3
    rw [sel_p6Kids_other u h1 h2, sel_secCleanup u hu, sel_p4Kids_other u h1,
      sel_p3Kids_other u h1 h2, sel_setFirstText_other u n _ h3, sel_p1Kids_other u h1 h2]
  have hname : sel "name" (p6Kids fresh (d + 1) (secCleanup sn (p4Kids (p3Kids false sn' st'
        (setFirstText "name" n (p1Kids true [] [] [] [] ks))).1).1).1) =
      sel "name" (setFirstText "name" n (p1Kids true [] [] [] [] ks)) := by
    rw [sel_p6Kids_other _ (by decide) (by decide), sel_secCleanup _ (by decide),
      sel_p4Kids_other _ (by decide), sel_p3Kids_other _ (by decide) (by decide)]
  have hnm : ∃ nm, sel "name" ks = [nm] := by
    have h2 := uniqueTags_le_one huniq (t := "name") (by decide)
    rw [find_eq_head] at hnamed
    match hsn : sel "name" ks, hnamed, h2 with
    | [a], _, _ => exact ⟨a, rfl⟩
    | [], h1, _ => simp at h1
    | _ :: _ :: _, _, h2 => simp at h2
  obtain ⟨nm, hnm⟩ := hnm
  have e_name : lastText "name" (addId fresh (.elem "section" a' x' (p6Kids fresh (d + 1)
      (secCleanup sn (p4Kids (p3Kids false sn' st'
        (setFirstText "name" n (p1Kids true [] [] [] [] ks))).1).1).1))).kids = Py.strip n := by
    rw [lastText_congr (sel_addId_elem _ (by decide) _ _ _ _ _), lastText_eq, hname,
      sel_setFirstText_name n _ nm (by rw [sel_p1Kids_other _ (by decide) (by decide)]; exact hnm)]
    rfl
  have e_plain : ∀ u, u ∈ secKeys → u ≠ "section" → u ≠ "property" → u ≠ "name" → u ≠ "id" →
      (sel u ks).length ≤ 1 →
      lastText u (addId fresh (.elem "section" a' x' (p6Kids fresh (d + 1)
        (secCleanup sn (p4Kids (p3Kids false sn' st'
          (setFirstText "name" n (p1Kids true [] [] [] [] ks))).1).1).1))).kids
        = Py.strip (findText u ks) := by
    intro u hu h1 h2 h3 h4 hle
    rw [lastText_congr (sel_addId_elem _ h4 _ _ _ _ _), lastText_congr (hplain u hu h1 h2 h3),
      lastText_of_le_one u ks hle]
  have e_id : lastText "id" (addId fresh (.elem "section" a' x' (p6Kids fresh (d + 1)
      (secCleanup sn (p4Kids (p3Kids false sn' st'
        (setFirstText "name" n (p1Kids true [] [] [] [] ks))).1).1).1))).kids = id10 fresh ks := by
    rw [lastText_addId]
    simp only [kids_elem]
    unfold id10
    rw [find_congr (hplain "id" (by decide) (by decide) (by decide) (by decide))]
  have e_props : readProps (addId fresh (.elem "section" a' x' (p6Kids fresh (d + 1)
      (secCleanup sn (p4Kids (p3Kids false sn' st'
        (setFirstText "name" n (p1Kids true [] [] [] [] ks))).1).1).1))).kids
        = props10 fresh [] [] ks := by
    rw [readProps_eq, sel_addId_elem _ (by decide), sel_p6Kids_property,
      sel_secCleanup _ (by decide), sel_p4Kids_other _ (by decide), sel_p3Kids_property,
      sel_setFirstText_other _ n _ (by decide), List.map_map]
    exact props_list fresh hf hv sn' st' d ks [] [] [] [] [] rep_nil hprops
  have e_secs : readSecs (addId fresh (.elem "section" a' x' (p6Kids fresh (d + 1)
      (secCleanup sn (p4Kids (p3Kids false sn' st'
        (setFirstText "name" n (p1Kids true [] [] [] [] ks))).1).1).1))).kids
        = secs10 fresh [] [] ks := by
    rw [readSecs_eq, sel_addId_elem _ (by decide), sel_p6Kids_section,
      sel_secCleanup _ (by decide), sel_p4Kids_section, sel_p3Kids_section,
      sel_setFirstText_other _ n _ (by decide), List.map_map, List.map_map, List.map_map]
    exact secs_list fresh (d + 1) ks ih true [] [] [] [] [] rep_nil hkids
  rw [e_name, e_props, e_secs, e_id,
    e_plain "type" (by decide) (by decide) (by decide) (by decide) (by decide)
      (uniqueTags_le_one huniq (by decide)),
    e_plain "definition" (by decide) (by decide) (by decide) (by decide) (by decide)
      (uniqueTags_le_one huniq (by decide))]

/-! ## The Document -/

/-- **Whole-tree composition.**  For every element tree `x` with `ConvWF x` - any depth, any
    number of Sections, Properties and value elements, any names, ids, texts and unsupported
    elements - the document the strict reader extracts from the converted tree is the content
    specification of the source.  `hf`: the fresh id is one `_add_id` leaves alone (the text of a
    `uuid4()`, see `idOf_fresh_of_canonical`); `hv` is `C15.fold_values`. -/
theorem readDoc_convertTree (fresh : List Char) (hf : idOf fresh fresh = fresh)
    (hv : ∀ (sn st : List Char) (p : Xml),
      readValues (transformProp false sn st p).1.kids = some (vals10 p))
    (x : Xml) (hwf : ConvWF x = true) : readDoc (convertTree fresh x) = content10 fresh x := by
  simp only [ConvWF, Bool.and_eq_true, Bool.not_eq_true'] at hwf
  obtain ⟨henc, hkids⟩ := hwf
  have hsec := section_level fresh hf hv
  -- the children of the root after stages 1 - 5
  have h3k : (stage3 x).1.kids = (p3Kids false (parentLabel "name" "unnamed" (p1 x).kids)
      (parentLabel "type" "untyped" (p1 x).kids)
      (p1Kids (x.tag == "section") [] [] [] [] x.kids)).1 := by
    simp only [stage3, henc]
    rw [p3_kids, p2_kids, p1_kids]
  have hsel_id : sel "id" (stage5 x).1.kids = sel "id" x.kids := by
    simp only [stage5, stage4]
    rw [p5_kids, sel_docCleanup _ (by decide)]
    by_cases ht : (stage3 x).1.tag = "section"
    · rw [p4_kids_sec _ ht, sel_secCleanup _ (by decide), sel_p4Kids_other _ (by decide), h3k,
        sel_p3Kids_other _ (by decide) (by decide), sel_p1Kids_other _ (by decide) (by decide)]
    · rw [p4_kids_other _ ht, sel_p4Kids_other _ (by decide), h3k,
        sel_p3Kids_other _ (by decide) (by decide), sel_p1Kids_other _ (by decide) (by decide)]
  have hsel_sec : sel "section" (stage5 x).1.kids =
      (sel "section" (p1Kids (x.tag == "section") [] [] [] [] x.kids)).map
        (fun k => (p4 (p3 false k).1).1) := by
    simp only [stage5, stage4]
    rw [p5_kids, sel_docCleanup _ (by decide)]
    by_cases ht : (stage3 x).1.tag = "section"
    · rw [p4_kids_sec _ ht, sel_secCleanup _ (by decide), sel_p4Kids_section, h3k,
        sel_p3Kids_section, List.map_map]
      rfl
    · rw [p4_kids_other _ ht, sel_p4Kids_section, h3k, sel_p3Kids_section, List.map_map]
      rfl
  unfold convertTree readDoc content10
  rw [p6_eq]
  congr 1
  · rw [lastText_addId]
    simp only [kids_elem]
    unfold id10
    rw [find_congr (sel_p6Kids_other "id" (by decide) (by decide) fresh _ _), find_congr hsel_id]
  · rw [readSecs_eq, sel_addId_elem _ (by decide), sel_p6Kids_section, hsel_sec, List.map_map,
      List.map_map]
    exact secs_list fresh _ x.kids (fun k _ => hsec k) _ [] [] [] [] [] rep_nil hkids

/-- The text of a `uuid4()` is in the form `uuid.UUID` prints: `_add_id` leaves it alone. -/
theorem idOf_fresh_of_canonical (fresh : List Char) (h : parseUuid fresh = some fresh) :
    idOf fresh fresh = fresh := by
  simp [idOf, h]

/-- Any text `uuid.UUID` rejects is left alone as well (the harness uses such markers). -/
theorem idOf_fresh_of_invalid (fresh : List Char) (h : parseUuid fresh = none) :
    idOf fresh fresh = fresh := by
  simp [idOf, h]

end Conv
