/-
Ids along a history: every id text an allocated object carries is one of the id texts some
operation brought in (constructor or `new_id`).  Stated for an arbitrary predicate `P` on id
texts, so that "non-empty" (`NamesNE`) and "canonical UUID string" are instances of one
invariant.  Same proof skeleton as `namesNE_step` in `HeapNames.lean`.
-/
import OdmlModel.Proofs.HeapNames

set_option linter.unusedSimpArgs false
set_option linter.unusedVariables false

namespace Heap

/-- Every allocated object's id satisfies `P`. -/
def IdsSat (P : String → Prop) (h : H) : Prop := ∀ x, x < h.size → P (h.node x).id

/-- The id texts an operation brings in satisfy `P`. -/
def Op.IdsSat (P : String → Prop) : Op → Prop
  | .construct _ _ id _ _ => P id
  | .newId _ (some s) => P s
  | _ => True

theorem IdsSat.of_frame {P : String → Prop} {h h' : H} (w : IdsSat P h) (f : FrameNI h h') :
    IdsSat P h' := by
  intro x hx
  rw [f.1] at hx
  rw [(f.2 x).2]
  exact w x hx

theorem idsSat_empty (P : String → Prop) : IdsSat P empty := by
  intro x hx; exact absurd hx (Nat.not_lt_zero _)

theorem idsSat_alloc {P : String → Prop} {h : H} (w : IdsSat P h) (k : Kind) (name id : String)
    (hid : P id) : IdsSat P (alloc h k name id).1 := by
  intro x hx
  by_cases hxs : x = h.size
  · subst hxs
    simp only [alloc, if_true]
    exact hid
  · have : x < h.size := by simp [alloc] at hx; omega
    simp only [alloc, hxs, if_false]
    exact w x this

theorem idsSat_rename {P : String → Prop} {h : H} (w : IdsSat P h) {x : Nat} (new : String) :
    IdsSat P (rename h x new).1 := by
  rcases rename_result h x new with e | e
  · rw [e]; exact w
  · rw [e]
    intro y hy
    have hy' : y < h.size := hy
    by_cases hyx : y = x
    · subst hyx
      simp only [upd_same]
      exact w y hy'
    · rw [upd_other _ _ _ _ hyx]; exact w y hy'

theorem idsSat_step {P : String → Prop} {h : H} (w : IdsSat P h) (op : Op) (hid : op.IdsSat P) :
    IdsSat P (step h op).1 := by
  unfold step
  by_cases hh : op.handles.any (fun i => i ≥ h.size) = true
  · simp only [hh, if_true]; exact w
  simp only [hh, if_false]
  cases op with
  | construct k name id parent argsOk =>
    unfold construct
    cases argsOk with
    | false => exact w
    | true =>
      have wa := idsSat_alloc w k name id hid
      simp only [Bool.not_true, Bool.false_eq_true, if_false]
      cases k with
      | doc => exact wa
      | sec =>
        cases parent with
        | none => exact wa
        | some p =>
          simp only
          have f := setParent_frame (alloc h .sec name id).1 (alloc h .sec name id).2 (some p)
          cases hs : setParent (alloc h .sec name id).1 (alloc h .sec name id).2 (some p) with
          | mk h2 out =>
            rw [hs] at f
            cases out with
            | ok => exact wa.of_frame f
            | raised e => exact w
      | prop =>
        cases parent with
        | none => exact wa
        | some p =>
          simp only
          have f := setParent_frame (alloc h .prop name id).1 (alloc h .prop name id).2 (some p)
          cases hs : setParent (alloc h .prop name id).1 (alloc h .prop name id).2 (some p) with
          | mk h2 out =>
            rw [hs] at f
            cases out with
            | ok => exact wa.of_frame f
            | raised e => exact w
  | append p x => exact w.of_frame (append_frame h p x)
  | insert p pos x => exact w.of_frame (insert_frame h p pos x)
  | extend p xs => exact w.of_frame (extend_frame h p xs)
  | remove p x => exact w.of_frame (remove_frame h p x)
  | setParent x np => exact w.of_frame (setParent_frame h x np)
  | setItem p s key v => exact w.of_frame (setItem_frame h p s key v)
  | reorder x i => exact w.of_frame (reorder_frame h x i)
  | rename x new => exact idsSat_rename w new
  | newId x idText =>
    show IdsSat P (newId h x idText).1
    unfold newId
    cases idText with
    | none => exact w
    | some s =>
      intro y hy
      have hy' : y < h.size := hy
      by_cases hyx : y = x
      · subst hyx; simp only [upd_same]; exact hid
      · rw [upd_other _ _ _ _ hyx]; exact w y hy'

theorem idsSat_run {P : String → Prop} (ops : List Op) (hid : ∀ op ∈ ops, op.IdsSat P) :
    IdsSat P (run empty ops) := by
  suffices ∀ h, IdsSat P h → IdsSat P (run h ops) from this empty (idsSat_empty P)
  induction ops with
  | nil => intro h w; exact w
  | cons op ops ih =>
    intro h w
    exact ih (fun o ho => hid o (List.mem_cons_of_mem _ ho)) _
      (idsSat_step w op (hid op (List.mem_cons_self)))

end Heap
