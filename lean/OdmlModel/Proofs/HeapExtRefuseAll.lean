/-
Refusals of the compound operations (property C06), part 2d: the loops of `_merge` after the
checks have passed - every recursion finds its own checks passing, every `append` of a copy
succeeds; so `_merge` is all-or-nothing (`mergeAux_all_or_nothing`).
-/
import OdmlModel.Proofs.HeapExtRefuseMerge

set_option linter.unusedSimpArgs false
set_option linter.unusedVariables false

namespace Heap.Refuse

/-! ### `mine = obj.clone(); dest.append(mine)` where the name is free -/

theorem cloneAppend_ok (O : Oracle) (fuel : Nat) (t : X) (dest obj : Nat) (mm : Option Bool)
    (w : WF t.h) (hn : NoEmptyName t.h) (hd : dest < t.h.size) (ho : obj < t.h.size)
    (hcond : ((t.h.node obj).kind = .sec ∧ (t.h.node dest).kind ≠ .prop ∧
        nameIn t.h (t.h.node dest).secs (t.h.node obj).name = false) ∨
      ((t.h.node obj).kind = .prop ∧ (t.h.node dest).kind = .sec ∧
        nameIn t.h (t.h.node dest).props (t.h.node obj).name = false)) :
    ((cloneAppend O fuel t dest obj mm).2 = .ok ∨ (cloneAppend O fuel t dest obj mm).2 = .fuel) ∧
    ((cloneAppend O fuel t dest obj mm).2 = .ok →
      ((cloneAppend O fuel t dest obj mm).1.h.node t.h.size).name = (t.h.node obj).name ∧
      (∀ j, j < t.h.size → j ≠ dest → (cloneAppend O fuel t dest obj mm).1.h.node j = t.h.node j) ∧
      ((t.h.node obj).kind = .sec →
        ((cloneAppend O fuel t dest obj mm).1.h.node dest).secs = (t.h.node dest).secs ++ [t.h.size] ∧
        ((cloneAppend O fuel t dest obj mm).1.h.node dest).props = (t.h.node dest).props) ∧
      ((t.h.node obj).kind = .prop →
        ((cloneAppend O fuel t dest obj mm).1.h.node dest).secs = (t.h.node dest).secs ∧
        ((cloneAppend O fuel t dest obj mm).1.h.node dest).props = (t.h.node dest).props ++ [t.h.size])) := by
  unfold cloneAppend
  have r0 := cloneAux_spec O fuel t obj true false w
  have r1 := cloneAux_full O fuel t obj true false w hn ho
  split
  · rename_i t1 c heq
    rw [heq] at r0 r1
    obtain ⟨hck, hdet⟩ := r0.ok rfl
    have hroot : c = t.h.size := r0.root
    obtain ⟨hkk, hkn⟩ := r1.root rfl
    simp only at hck hdet hkk hkn
    subst hroot
    have w1 : WF t1.h := r0.wf
    have hsame : ∀ j, j < t.h.size → t1.h.node j = t.h.node j := r0.same.2
    have hd1 : dest < t1.h.size := Nat.lt_of_lt_of_le hd r0.same.1
    have hh : ((t1.markCopy t.h.size obj mm).prim (.append dest t.h.size)).1.h =
        (step t1.h (.append dest t.h.size)).1 := by rw [prim_h, markCopy_h]
    have ho2 : ((t1.markCopy t.h.size obj mm).prim (.append dest t.h.size)).2 =
        XOut.ofOutcome (step t1.h (.append dest t.h.size)).2 := by
      show XOut.ofOutcome (step (t1.markCopy t.h.size obj mm).h _).2 = _
      rw [markCopy_h]
    rw [hh, ho2]
    rcases hcond with ⟨hko, hkd, hnm⟩ | ⟨hko, hkd, hnm⟩
    · have hkx : (t1.h.node t.h.size).kind = .sec := by rw [hkk]; exact hko
      have hpp : (t1.h.node dest).kind ≠ .prop := by rw [hsame dest hd]; exact hkd
      have hanc : ¬ Anc t1.h t.h.size dest := by
        intro ha
        have := anc_old w r0.same ha hd
        exact Nat.lt_irrefl _ this
      have hnm1 : nameIn t1.h (t1.h.node dest).secs (t1.h.node t.h.size).name = false := by
        rw [hkn, hsame dest hd, ← hnm]
        apply nameIn_congr
        intro m hm
        exact congrArg Node.name (hsame m (w.child_lt ((w.memS dest m).mp hm).1))
      obtain ⟨a1, a2, a3, a4⟩ := step_append_sec_ok w1 hd1 hck hdet hkx hpp hanc hnm1
      refine ⟨Or.inl (by rw [a1]; rfl), fun _ => ⟨?_, ?_, ?_, ?_⟩⟩
      · rw [(appended_name a2 t.h.size).1]; exact hkn
      · intro j hj hjd
        obtain ⟨_, _, hoth, _, _⟩ := a2
        rw [hoth j hjd (Nat.ne_of_lt hj)]; exact hsame j hj
      · intro _; rw [a3, a4, hsame dest hd]; exact ⟨rfl, rfl⟩
      · intro hk; rw [hko] at hk; cases hk
    · have hkx : (t1.h.node t.h.size).kind = .prop := by rw [hkk]; exact hko
      have hpk : (t1.h.node dest).kind = .sec := by rw [hsame dest hd]; exact hkd
      have hnm1 : nameIn t1.h (t1.h.node dest).props (t1.h.node t.h.size).name = false := by
        rw [hkn, hsame dest hd, ← hnm]
        apply nameIn_congr
        intro m hm
        exact congrArg Node.name (hsame m (w.child_lt ((w.memP dest m).mp hm).1))
      obtain ⟨a1, a2, a3, a4⟩ := step_append_prop_ok w1 hd1 hck hdet hkx hpk hnm1
      refine ⟨Or.inl (by rw [a1]; rfl), fun _ => ⟨?_, ?_, ?_, ?_⟩⟩
      · rw [(appended_name a2 t.h.size).1]; exact hkn
      · intro j hj hjd
        obtain ⟨_, _, hoth, _, _⟩ := a2
        rw [hoth j hjd (Nat.ne_of_lt hj)]; exact hsame j hj
      · intro hk; rw [hko] at hk; cases hk
      · intro _; rw [a3, a4, hsame dest hd]; exact ⟨rfl, rfl⟩
  · rename_i t1 c o hne heq
    rw [heq] at r1
    refine ⟨?_, fun h => absurd h hne⟩
    rcases r1.out with h1 | h1
    · exact absurd h1 hne
    · exact Or.inr h1

/-! ### a loop whose body never raises -/

theorem liveLoop_ok {σ : Type} (lst : σ → List Nat) (body : σ → Nat → σ × XOut)
    (Inv : Nat → σ → Prop)
    (hstep : ∀ i t obj, Inv i t → (lst t)[i]? = some obj →
      ((body t obj).2 = .ok ∨ (body t obj).2 = .fuel) ∧
      ((body t obj).2 = .ok → Inv (i + 1) (body t obj).1)) :
    ∀ (fuel i : Nat) (t : σ), Inv i t →
      ((liveLoop lst body fuel i t).2 = .ok ∨ (liveLoop lst body fuel i t).2 = .fuel) ∧
      ((liveLoop lst body fuel i t).2 = .ok → ∃ j, Inv j (liveLoop lst body fuel i t).1) := by
  intro fuel
  induction fuel with
  | zero => intro i t _; exact ⟨Or.inr rfl, fun h => by cases h⟩
  | succ fuel ih =>
    intro i t h
    unfold liveLoop
    split
    · exact ⟨Or.inl rfl, fun _ => ⟨i, h⟩⟩
    · rename_i obj hget
      obtain ⟨h1, h2⟩ := hstep i t obj h hget
      split
      · rename_i t1 heq
        rw [heq] at h2
        exact ih (i + 1) t1 (h2 rfl)
      · rename_i r hne
        refine ⟨h1, fun hok => ?_⟩
        exact (hne (body t obj).1 (Prod.ext rfl hok)).elim

/-! ### the situation in which `_merge` runs its loops -/

/-- `_merge(dest, src)` is entered in state `s` and its two checks have passed. -/
structure MCtx (O : Oracle) (f : Nat) (s : X) (dest src : Nat) : Prop where
  wf : WF s.h
  ne : NoEmptyName s.h
  kd : (s.h.node dest).kind = .sec
  ks : (s.h.node src).kind = .sec
  nds : ¬ Anc s.h dest src
  nsd : ¬ Anc s.h src dest
  mc : mergeCheck O (f + 1) s dest src = some true
  nc : nameCheck O (f + 1) s dest src = some true

/-- everything at or below the source is as it was -/
theorem MCtx.below_src {O : Oracle} {f : Nat} {s : X} {dest src : Nat} (c : MCtx O f s dest src)
    {t : X} (mf : MF s dest t) (j : Nat) (hj : Anc s.h src j) :
    j < s.h.size ∧ t.h.node j = s.h.node j ∧ t.orig j = s.orig j := by
  have hjn := desc_lt c.wf hj (sec_lt c.wf c.ks)
  have hna : ¬ Anc s.h dest j := by
    intro hd
    rcases anc_chain hd hj with h1 | h1
    · exact c.nds h1
    · exact c.nsd h1
  exact ⟨hjn, mf.out j hjn hna, mf.orig j hjn⟩

/-- The loop over the child Sections of the source, before the entry with index `i`. -/
structure Inv1 (O : Oracle) (s : X) (dest src : Nat) (i : Nat) (t : X) : Prop where
  mf : MF s dest t
  dsecs : ∃ l, (t.h.node dest).secs = (s.h.node dest).secs ++ l ∧
    ∀ c ∈ l, ∃ k o, k < i ∧ (s.h.node src).secs[k]? = some o ∧
      (t.h.node c).name = (s.h.node o).name
  dprops : (t.h.node dest).props = (s.h.node dest).props
  sub : ∀ k o m, i ≤ k → (s.h.node src).secs[k]? = some o → containsS O s dest o = some m →
    ∀ j, Anc s.h m j → t.h.node j = s.h.node j

/-- The loop over the child Properties of the source, before the entry with index `i`. -/
structure Inv2 (s : X) (dest src : Nat) (i : Nat) (t : X) : Prop where
  mf : MF s dest t
  dprops : ∃ l, (t.h.node dest).props = (s.h.node dest).props ++ l ∧
    ∀ c ∈ l, ∃ k o, k < i ∧ (s.h.node src).props[k]? = some o ∧
      (t.h.node c).name = (s.h.node o).name

/-- What the induction over the recursion depth provides for the recursive `_merge`. -/
def NoRaiseAt (O : Oracle) (f : Nat) : Prop :=
  ∀ (t : X) (r : Bool) (d' s' : Nat), WF t.h → NoEmptyName t.h →
    (t.h.node d').kind = .sec → (t.h.node s').kind = .sec →
    ¬ Anc t.h d' s' → ¬ Anc t.h s' d' →
    mergeCheck O f t d' s' = some true → nameCheck O f t d' s' = some true →
    ((mergeAux O (f + 1) t r d' s').2 = .ok ∨ (mergeAux O (f + 1) t r d' s').2 = .fuel)

theorem secBody_step (O : Oracle) (f : Nat) (s : X) (dest src : Nat) (record : Bool)
    (ctx : MCtx O f s dest src) (IH : NoRaiseAt O f)
    (i : Nat) (t : X) (obj : Nat) (inv : Inv1 O s dest src i t)
    (hget : (t.h.node src).secs[i]? = some obj) :
    ∀ r, r = mergeSecBody O (f + 1) (mergeAux O (f + 1)) record dest t obj →
      (r.2 = .ok ∨ r.2 = .fuel) ∧ (r.2 = .ok → Inv1 O s dest src (i + 1) r.1) := by
  intro r hr
  have w := ctx.wf
  have hdn : dest < s.h.size := sec_lt w ctx.kd
  have hsn : src < s.h.size := sec_lt w ctx.ks
  have hle : s.h.size ≤ t.h.size := inv.mf.adds.1
  have hpar : ∀ i, i < s.h.size → (t.h.node i).parent = (s.h.node i).parent :=
    fun i hi => (inv.mf.adds.2 i hi).2.2.2.1
  have hname : ∀ i, i < s.h.size → (t.h.node i).name = (s.h.node i).name :=
    fun i hi => (inv.mf.adds.2 i hi).2.1
  have hsrc_node : t.h.node src = s.h.node src := (ctx.below_src inv.mf src (Anc.refl _)).2.1
  rw [hsrc_node] at hget
  have hobjmem : obj ∈ (s.h.node src).secs := List.mem_of_getElem? hget
  obtain ⟨hobjpar, hobjk⟩ := (w.memS src obj).mp hobjmem
  have hsrc_obj : Anc s.h src obj := Anc.step hobjpar (Anc.refl _)
  obtain ⟨hobjn, hobj_node, hobj_orig⟩ := ctx.below_src inv.mf obj hsrc_obj
  have hold : ∀ m ∈ (s.h.node dest).secs, m < s.h.size ∧
      (t.h.node m).name = (s.h.node m).name ∧ t.orig m = s.orig m := by
    intro m hm
    have hmn := w.child_lt ((w.memS dest m).mp hm).1
    exact ⟨hmn, hname m hmn, inv.mf.orig m hmn⟩
  obtain ⟨l, hl, hlnames⟩ := inv.dsecs
  -- entries of the source's list at different positions have different names
  have hdiff : ∀ k o, (s.h.node src).secs[k]? = some o → k ≠ i →
      (s.h.node o).name ≠ (s.h.node obj).name := by
    intro k o hk hki hnm
    have hom : o ∈ (s.h.node src).secs := List.mem_of_getElem? hk
    have := w.namesS src o obj hom hobjmem hnm
    subst this
    exact hki (nodup_getElem?_inj (w.nodupS src) hk hget)
  have hlneq : ∀ c ∈ l, (t.h.node c).name ≠ (s.h.node obj).name := by
    intro c hc
    obtain ⟨k, o, hk, ho, hn⟩ := hlnames c hc
    rw [hn]; exact hdiff k o ho (Nat.ne_of_lt hk)
  have hcont : containsS O t dest obj = containsS O s dest obj :=
    containsS_ext hl ⟨by rw [hobj_node], hobj_orig⟩ (fun m hm => (hold m hm).2) hlneq
  unfold mergeSecBody at hr
  rw [hcont] at hr
  cases hc : containsS O s dest obj with
  | some mine =>
    rw [hc] at hr
    simp only at hr
    obtain ⟨hmmem, hmname⟩ := containsS_mem hc
    obtain ⟨hmpar, hmk⟩ := (w.memS dest mine).mp hmmem
    have hmn : mine < s.h.size := w.child_lt hmpar
    have hdm : Anc s.h dest mine := Anc.step hmpar (Anc.refl _)
    have agree_mine : AgreeBelow s t mine := by
      intro j hj
      exact ⟨inv.sub i obj mine (Nat.le_refl _) hget hc j hj,
        inv.mf.orig j (desc_lt w hj hmn)⟩
    have agree_obj : AgreeBelow s t obj := by
      intro j hj
      exact (ctx.below_src inv.mf j (anc_trans hsrc_obj hj)).2
    have mc' : mergeCheck O f t mine obj = some true := by
      rw [mergeCheck_congr O f s t mine obj w agree_mine agree_obj]
      have := (mergeCheck_pass ctx.mc).1 obj hobjmem
      unfold mcSec at this
      rw [hc] at this
      exact this
    have nc' : nameCheck O f t mine obj = some true := by
      rw [nameCheck_congr O f s t mine obj w agree_mine agree_obj]
      have := nameCheck_pass ctx.nc obj hobjmem
      unfold ncSec at this
      rw [hc] at this
      exact this
    have hmine_node : t.h.node mine = s.h.node mine := (agree_mine mine (Anc.refl _)).1
    have hna1 : ¬ Anc t.h mine obj := by
      intro ha
      have ha' := (anc_same_parents w hpar hobjn).mp ha
      rcases anc_chain (anc_trans hdm ha') hsrc_obj with h1 | h1
      · exact ctx.nds h1
      · exact ctx.nsd h1
    have hna2 : ¬ Anc t.h obj mine := by
      intro ha
      have ha' := (anc_same_parents w hpar hmn).mp ha
      rcases anc_chain hdm (anc_trans hsrc_obj ha') with h1 | h1
      · exact ctx.nds h1
      · exact ctx.nsd h1
    have hout := IH t (record && !t.resolved mine) mine obj inv.mf.wf inv.mf.ne
      (by rw [hmine_node]; exact hmk) (by rw [hobj_node]; exact hobjk) hna1 hna2 mc' nc'
    have frame := mergeAux_frame O (s0 := t) (d0 := mine) inv.mf.wf (f + 1) t
      (record && !t.resolved mine) mine obj (MF.refl mine inv.mf.wf inv.mf.ne)
      (fun _ => Anc.refl mine)
    rw [← hr] at hout frame
    refine ⟨hout, fun _ => ?_⟩
    -- what lies below `mine` in the later state lay below it at the start
    have hbelow : ∀ j, j < s.h.size → Anc t.h mine j → Anc s.h mine j :=
      fun j hj ha => (anc_same_parents w hpar hj).mp ha
    have hdest_same : r.1.h.node dest = t.h.node dest := by
      apply frame.out dest (Nat.lt_of_lt_of_le hdn hle)
      intro ha
      exact not_anc_parent w hmpar (hbelow dest hdn ha)
    refine ⟨⟨frame.wf, frame.ne, inv.mf.adds.trans (adds_mono frame.adds hle), ?_, ?_⟩, ?_, ?_, ?_⟩
    · intro j hj hna
      rw [frame.out j (Nat.lt_of_lt_of_le hj hle) (fun ha => hna (anc_trans hdm (hbelow j hj ha)))]
      exact inv.mf.out j hj hna
    · intro j hj
      rw [frame.orig j (Nat.lt_of_lt_of_le hj hle)]; exact inv.mf.orig j hj
    · refine ⟨l, by rw [hdest_same]; exact hl, fun c hc' => ?_⟩
      obtain ⟨k, o, hk, ho, hn⟩ := hlnames c hc'
      have hcm : c ∈ (t.h.node dest).secs := by rw [hl]; exact List.mem_append_right _ hc'
      have hct : c < t.h.size := inv.mf.wf.child_lt ((inv.mf.wf.memS dest c).mp hcm).1
      exact ⟨k, o, Nat.lt_succ_of_lt hk, ho, by rw [(frame.adds.2 c hct).2.1]; exact hn⟩
    · rw [hdest_same]; exact inv.dprops
    · intro k o m hk ho hcm j hj
      obtain ⟨hm'mem, hm'name⟩ := containsS_mem hcm
      obtain ⟨hm'par, _⟩ := (w.memS dest m).mp hm'mem
      have hjn : j < s.h.size := desc_lt w hj (w.child_lt hm'par)
      have hne : mine ≠ m := by
        intro e
        subst e
        exact hdiff k o ho (by omega) (by rw [hm'name, ← hmname])
      rw [frame.out j (Nat.lt_of_lt_of_le hjn hle)
        (fun ha => siblings_disjoint w hmpar hm'par hne (hbelow j hjn ha) hj)]
      exact inv.sub k o m (by omega) ho hcm j hj
  | none =>
    rw [hc] at hr
    simp only at hr
    have hnm : nameIn s.h (s.h.node dest).secs (s.h.node obj).name = false := by
      have := nameCheck_pass ctx.nc obj hobjmem
      unfold ncSec at this
      rw [hc] at this
      simpa using this
    have hdt : dest < t.h.size := Nat.lt_of_lt_of_le hdn hle
    have hot : obj < t.h.size := Nat.lt_of_lt_of_le hobjn hle
    have hkd : (t.h.node dest).kind = .sec := by rw [(inv.mf.adds.2 dest hdn).1]; exact ctx.kd
    have hnmt : nameIn t.h (t.h.node dest).secs (t.h.node obj).name = false := by
      rw [nameIn_false, hl, hobj_node]
      intro c hc'
      rcases List.mem_append.mp hc' with h1 | h1
      · rw [(hold c h1).2.1]; exact (nameIn_false.mp hnm) c h1
      · exact hlneq c h1
    obtain ⟨hout, hfacts⟩ := cloneAppend_ok O (f + 1) t dest obj (some record) inv.mf.wf inv.mf.ne
      hdt hot (Or.inl ⟨by rw [hobj_node]; exact hobjk, by rw [hkd]; decide, hnmt⟩)
    have mf' := cloneAppend_frame O (f + 1) w t dest obj (some record) inv.mf
      (fun _ => Anc.refl dest) hot
    rw [← hr] at hout hfacts mf'
    refine ⟨hout, fun hok => ?_⟩
    obtain ⟨f1, f2, f3, _⟩ := hfacts hok
    obtain ⟨f3a, f3b⟩ := f3 (by rw [hobj_node]; exact hobjk)
    refine ⟨mf', ?_, ?_, ?_⟩
    · refine ⟨l ++ [t.h.size], by rw [f3a, hl, List.append_assoc], fun c hc' => ?_⟩
      rcases List.mem_append.mp hc' with h1 | h1
      · obtain ⟨k, o, hk, ho, hn⟩ := hlnames c h1
        have hcm : c ∈ (t.h.node dest).secs := by rw [hl]; exact List.mem_append_right _ h1
        have hcp := ((inv.mf.wf.memS dest c).mp hcm).1
        have hct : c < t.h.size := inv.mf.wf.child_lt hcp
        have hcd : c ≠ dest := Ne.symm (inv.mf.wf.parent_ne hcp)
        exact ⟨k, o, Nat.lt_succ_of_lt hk, ho, by rw [f2 c hct hcd]; exact hn⟩
      · have : c = t.h.size := by simpa using h1
        subst this
        exact ⟨i, obj, Nat.lt_succ_self i, hget, by rw [f1, hobj_node]⟩
    · rw [f3b]; exact inv.dprops
    · intro k o m hk ho hcm j hj
      obtain ⟨hm'mem, _⟩ := containsS_mem hcm
      obtain ⟨hm'par, _⟩ := (w.memS dest m).mp hm'mem
      have hjn : j < s.h.size := desc_lt w hj (w.child_lt hm'par)
      have hjd : j ≠ dest := by
        intro e; subst e; exact not_anc_parent w hm'par hj
      rw [f2 j (Nat.lt_of_lt_of_le hjn hle) hjd]
      exact inv.sub k o m (by omega) ho hcm j hj

theorem propBody_step (O : Oracle) (f : Nat) (s : X) (dest src : Nat)
    (ctx : MCtx O f s dest src)
    (i : Nat) (t : X) (obj : Nat) (inv : Inv2 s dest src i t)
    (hget : (t.h.node src).props[i]? = some obj) :
    ∀ r, r = mergePropBody O (f + 1) dest t obj →
      (r.2 = .ok ∨ r.2 = .fuel) ∧ (r.2 = .ok → Inv2 s dest src (i + 1) r.1) := by
  intro r hr
  have w := ctx.wf
  have hdn : dest < s.h.size := sec_lt w ctx.kd
  have hle : s.h.size ≤ t.h.size := inv.mf.adds.1
  have hname : ∀ i, i < s.h.size → (t.h.node i).name = (s.h.node i).name :=
    fun i hi => (inv.mf.adds.2 i hi).2.1
  have hsrc_node : t.h.node src = s.h.node src := (ctx.below_src inv.mf src (Anc.refl _)).2.1
  rw [hsrc_node] at hget
  have hobjmem : obj ∈ (s.h.node src).props := List.mem_of_getElem? hget
  obtain ⟨hobjpar, hobjk⟩ := (w.memP src obj).mp hobjmem
  have hsrc_obj : Anc s.h src obj := Anc.step hobjpar (Anc.refl _)
  obtain ⟨hobjn, hobj_node, hobj_orig⟩ := ctx.below_src inv.mf obj hsrc_obj
  have hold : ∀ m ∈ (s.h.node dest).props, m < s.h.size ∧
      (t.h.node m).name = (s.h.node m).name ∧ t.orig m = s.orig m := by
    intro m hm
    have hmn := w.child_lt ((w.memP dest m).mp hm).1
    exact ⟨hmn, hname m hmn, inv.mf.orig m hmn⟩
  obtain ⟨l, hl, hlnames⟩ := inv.dprops
  have hdiff : ∀ k o, (s.h.node src).props[k]? = some o → k ≠ i →
      (s.h.node o).name ≠ (s.h.node obj).name := by
    intro k o hk hki hnm
    have hom : o ∈ (s.h.node src).props := List.mem_of_getElem? hk
    have := w.namesP src o obj hom hobjmem hnm
    subst this
    exact hki (nodup_getElem?_inj (w.nodupP src) hk hget)
  have hlneq : ∀ c ∈ l, (t.h.node c).name ≠ (s.h.node obj).name := by
    intro c hc
    obtain ⟨k, o, hk, ho, hn⟩ := hlnames c hc
    rw [hn]; exact hdiff k o ho (Nat.ne_of_lt hk)
  have hcont : containsP t dest obj = containsP s dest obj :=
    containsP_ext hl (by rw [hobj_node]) (fun m hm => (hold m hm).2.1) hlneq
  have hnext : Inv2 s dest src (i + 1) t :=
    ⟨inv.mf, l, hl, fun c hc => by
      obtain ⟨k, o, hk, ho, hn⟩ := hlnames c hc
      exact ⟨k, o, Nat.lt_succ_of_lt hk, ho, hn⟩⟩
  unfold mergePropBody at hr
  rw [hcont] at hr
  cases hc : containsP s dest obj with
  | some mine =>
    rw [hc] at hr
    simp only at hr
    obtain ⟨hmmem, _⟩ := containsP_mem hc
    have hok : O.propOk (t.orig mine) (t.orig obj) = true := by
      rw [(hold mine hmmem).2.2, hobj_orig]
      have := (mergeCheck_pass ctx.mc).2 obj hobjmem
      unfold mcProp at this
      rw [hc] at this
      simpa using this
    rw [if_pos hok] at hr
    rw [hr]
    exact ⟨Or.inl rfl, fun _ => hnext⟩
  | none =>
    rw [hc] at hr
    simp only at hr
    have hdt : dest < t.h.size := Nat.lt_of_lt_of_le hdn hle
    have hot : obj < t.h.size := Nat.lt_of_lt_of_le hobjn hle
    have hkd : (t.h.node dest).kind = .sec := by rw [(inv.mf.adds.2 dest hdn).1]; exact ctx.kd
    have hnone : ∀ m ∈ (s.h.node dest).props, (s.h.node m).name ≠ (s.h.node obj).name := by
      unfold containsP at hc
      rw [List.find?_eq_none] at hc
      intro m hm e
      have := hc m hm
      simp at this
      exact this e.symm
    have hnmt : nameIn t.h (t.h.node dest).props (t.h.node obj).name = false := by
      rw [nameIn_false, hl, hobj_node]
      intro c hc'
      rcases List.mem_append.mp hc' with h1 | h1
      · rw [(hold c h1).2.1]; exact hnone c h1
      · exact hlneq c h1
    obtain ⟨hout, hfacts⟩ := cloneAppend_ok O (f + 1) t dest obj none inv.mf.wf inv.mf.ne
      hdt hot (Or.inr ⟨by rw [hobj_node]; exact hobjk, hkd, hnmt⟩)
    have mf' := cloneAppend_frame O (f + 1) w t dest obj none inv.mf
      (fun _ => Anc.refl dest) hot
    rw [← hr] at hout hfacts mf'
    refine ⟨hout, fun hok => ?_⟩
    obtain ⟨f1, f2, _, f4⟩ := hfacts hok
    obtain ⟨_, f4b⟩ := f4 (by rw [hobj_node]; exact hobjk)
    refine ⟨mf', l ++ [t.h.size], by rw [f4b, hl, List.append_assoc], fun c hc' => ?_⟩
    rcases List.mem_append.mp hc' with h1 | h1
    · obtain ⟨k, o, hk, ho, hn⟩ := hlnames c h1
      have hcm : c ∈ (t.h.node dest).props := by rw [hl]; exact List.mem_append_right _ h1
      have hcp := ((inv.mf.wf.memP dest c).mp hcm).1
      have hct : c < t.h.size := inv.mf.wf.child_lt hcp
      have hcd : c ≠ dest := Ne.symm (inv.mf.wf.parent_ne hcp)
      exact ⟨k, o, Nat.lt_succ_of_lt hk, ho, by rw [f2 c hct hcd]; exact hn⟩
    · have : c = t.h.size := by simpa using h1
      subst this
      exact ⟨i, obj, Nat.lt_succ_self i, hget, by rw [f1, hobj_node]⟩

/-- (2) Once `merge_check` and `_merge_name_check` have passed, `_merge` does not raise: it
    completes, or the recursion / loop budget of the model is used up. -/
theorem mergeAux_no_raise (O : Oracle) : ∀ (f : Nat), NoRaiseAt O f := by
  intro f
  induction f with
  | zero =>
    intro t r d' s' _ _ _ _ _ _ mc _
    have : mergeCheck O 0 t d' s' = none := rfl
    rw [this] at mc; cases mc
  | succ f ih =>
    intro t record dest src w hn kd ks nds nsd mc nc
    have ctx : MCtx O f t dest src := ⟨w, hn, kd, ks, nds, nsd, mc, nc⟩
    unfold mergeAux
    rw [mc]
    simp only
    rw [nc]
    simp only
    have inv0 : Inv1 O t dest src 0 t :=
      ⟨MF.refl dest w hn, ⟨[], by simp, fun c hc => by cases hc⟩, rfl, fun _ _ _ _ _ _ _ _ => rfl⟩
    obtain ⟨o1, i1⟩ := liveLoop_ok (fun u : X => (u.h.node src).secs)
      (mergeSecBody O (f + 1) (mergeAux O (f + 1)) record dest) (Inv1 O t dest src)
      (fun i u obj inv hget => secBody_step O f t dest src record ctx ih i u obj inv hget _ rfl)
      (f + 1) 0 t inv0
    split
    · rename_i s1 heq
      rw [heq] at i1
      obtain ⟨j, invj⟩ := i1 rfl
      have inv20 : Inv2 t dest src 0 s1 :=
        ⟨invj.mf, [], by rw [invj.dprops, List.append_nil], fun c hc => by cases hc⟩
      obtain ⟨o2, _⟩ := liveLoop_ok (fun u : X => (u.h.node src).props)
        (mergePropBody O (f + 1) dest) (Inv2 t dest src)
        (fun i u obj inv hget => propBody_step O f t dest src ctx i u obj inv hget _ rfl)
        (f + 1) 0 s1 inv20
      split
      · exact Or.inl rfl
      · rename_i r hne
        rcases o2 with h | h
        · exact (hne _ (Prod.ext rfl h)).elim
        · exact Or.inr h
    · rename_i r hne
      rcases o1 with h | h
      · exact (hne _ (Prod.ext rfl h)).elim
      · exact Or.inr h

/-- `_merge` is all-or-nothing: when it raises, the state is the one it was entered in. -/
theorem mergeAux_all_or_nothing (O : Oracle) (fuel : Nat) (s : X) (record : Bool) (dest src : Nat)
    (w : WF s.h) (hn : NoEmptyName s.h)
    (kd : (s.h.node dest).kind = .sec) (ks : (s.h.node src).kind = .sec)
    (nds : ¬ Anc s.h dest src) (nsd : ¬ Anc s.h src dest) (e : Exc)
    (hr : (mergeAux O fuel s record dest src).2 = .raised e) :
    mergeAux O fuel s record dest src = (s, .raised .valueError) := by
  cases fuel with
  | zero => cases hr
  | succ f =>
    rcases mergeAux_cases O f s record dest src with h | h | ⟨h1, h2⟩
    · rw [h] at hr; cases hr
    · exact h
    · rcases mergeAux_no_raise O f s record dest src w hn kd ks nds nsd h1 h2 with h | h
      · rw [h] at hr; cases hr
      · rw [h] at hr; cases hr

end Heap.Refuse
