/-
C16 — specification of what the XML reader returns, and the proof that the model computes it.

`Proofs/Reader.lean` shows that the reader ends with a value or a ParserException (`Conv`). This file
says *which* value: for every input tree

* `denoteTag`   — the valid parts of the input: every Section / Property element becomes an object
                  (created from its argument elements; the default object when the constructor
                  refuses them), and is attached to its parent unless the parent cannot hold that
                  sort or an earlier kept sibling of its sort has its name (`keepValid`);
* `tagProblems` — the number of problems of the input (what `self.error` is called for);
* `tagRepeats`  — the number of "given multiple times" warnings (a warning in both modes).

`parseTag_spec`: with the guards of the fixed code, for every tree, mode, `Env`, warning count

    parseTag g env m kind insert tag x w
      = outcome m (tagProblems ..) (denoteTag .., w + tagProblems .. + tagRepeats ..)

i.e. lenient mode returns exactly the valid parts and one warning per problem, strict mode returns the
same if there is no problem and raises ParserException otherwise. Proved by mutual structural
induction over `Xml` / `List Xml`, any depth.
-/
import OdmlModel.Model.Reader
import OdmlModel.Proofs.Reader

set_option linter.unusedSimpArgs false
set_option linter.unusedVariables false

namespace Reader

/-! ## How a computation that met `p` problems ends -/

/-- `p` calls of `self.error`: ParserException in strict mode if there was one, the value otherwise. -/
def outcome (m : Mode) (p : Nat) (a : α) : Except Err α :=
  if m = .strict ∧ p ≠ 0 then .error .parserException else .ok a

theorem outcome_zero (m : Mode) (a : α) : outcome m 0 a = .ok a := by
  simp [outcome]

theorem outcome_lenient (p : Nat) (a : α) : outcome .lenient p a = .ok a := by
  simp [outcome]

theorem outcome_strict_pos (p : Nat) (a : α) (h : p ≠ 0) :
    outcome .strict p a = .error .parserException := by
  simp [outcome, h]

theorem pure_eq_outcome (m : Mode) (a : α) : (pure a : Except Err α) = outcome m 0 a := by
  simp [outcome]; rfl

theorem raiseOrWarn_eq_outcome (m : Mode) (w : Nat) : raiseOrWarn m w = outcome m 1 (w + 1) := by
  cases m <;> simp [raiseOrWarn, outcome]

/-- sequencing: the problems add up -/
theorem outcome_bind (m : Mode) (p q : Nat) (a : α) (b : β) (f : α → Except Err β)
    (h : f a = outcome m q b) : (outcome m p a >>= f) = outcome m (p + q) b := by
  cases m with
  | lenient =>
    simp only [outcome_lenient] at *
    exact h
  | strict =>
    by_cases hp : p = 0
    · subst hp
      simp only [outcome_zero, Nat.zero_add]
      exact h
    · rw [outcome_strict_pos p a hp, outcome_strict_pos (p + q) b (by omega)]
      rfl

theorem outcome_congr (m : Mode) {p p' : Nat} {a a' : α} (hp : p = p') (ha : a = a') :
    outcome m p a = outcome m p' a' := by
  subst hp; subst ha; rfl

/-! ## The loops of `parse_tag` that do not recurse -/

/-- attributes the reader objects to: everything but `version` on the `odML` root -/
def attrProblems (tag : Str) : List (Str × Str) → Nat
  | [] => 0
  | (k, _) :: rest =>
    (if Py.lower k == "version".toList && tag == "odML".toList then 0 else 1) + attrProblems tag rest

theorem attrLoop_spec (m : Mode) (tag : Str) (attrs : List (Str × Str)) (w : Nat) :
    attrLoop m tag attrs w = outcome m (attrProblems tag attrs) (w + attrProblems tag attrs) := by
  induction attrs generalizing w with
  | nil => simp only [attrLoop, attrProblems, Nat.add_zero]; exact pure_eq_outcome m w
  | cons p rest ih =>
    obtain ⟨k, v⟩ := p
    unfold attrLoop
    by_cases hk : (Py.lower k == "version".toList && tag == "odML".toList) = true
    · simp only [hk, if_true, attrProblems, Nat.zero_add]
      exact ih w
    · simp only [hk, attrProblems, Bool.false_eq_true, if_false]
      rw [raiseOrWarn_eq_outcome]
      refine (outcome_bind m 1 _ _ _ _ (ih (w + 1))).trans (outcome_congr m rfl ?_)
      omega

/-- mandatory arguments that are not among the collected ones -/
def mandatoryMissing (kind : Kind) (present : List Str) : List (String × Nat) → Nat
  | [] => 0
  | (k, req) :: rest =>
    (if req != 0 && !(present.contains (mapName kind k.toList)) then 1 else 0)
      + mandatoryMissing kind present rest

theorem checkMandatory_spec (m : Mode) (kind : Kind) (present : List Str) (tbl : List (String × Nat))
    (w : Nat) :
    checkMandatory m kind present tbl w
      = outcome m (mandatoryMissing kind present tbl) (w + mandatoryMissing kind present tbl) := by
  induction tbl generalizing w with
  | nil => simp only [checkMandatory, mandatoryMissing, Nat.add_zero]; exact pure_eq_outcome m w
  | cons p rest ih =>
    obtain ⟨k, req⟩ := p
    unfold checkMandatory
    by_cases hk : (req != 0 && !(present.contains (mapName kind k.toList))) = true
    · simp only [hk, if_true, mandatoryMissing]
      rw [raiseOrWarn_eq_outcome]
      refine (outcome_bind m 1 _ _ _ _ (ih (w + 1))).trans (outcome_congr m rfl ?_)
      omega
    · simp only [hk, mandatoryMissing, Bool.false_eq_true, if_false]
      rw [pure_eq_outcome m w]
      refine (outcome_bind m 0 _ _ _ _ (ih w)).trans (outcome_congr m (by omega) ?_)
      omega

/-! ## Which children an object keeps -/

/-- The children of one sort a parent keeps: in input order, every one whose name no earlier kept
    sibling (or child the parent already had) carries. -/
def kept (eq : ν → ν → Bool) (acc : List (Obj ν)) : List (Obj ν) → List (Obj ν)
  | [] => acc
  | c :: cs => if clash eq c.name acc then kept eq acc cs else kept eq (acc ++ [c]) cs

/-- the number of those that are left out -/
def dropped (eq : ν → ν → Bool) (acc : List (Obj ν)) : List (Obj ν) → Nat
  | [] => 0
  | c :: cs => if clash eq c.name acc then dropped eq acc cs + 1 else dropped eq (acc ++ [c]) cs

/-- `c` goes to the Section list (`true`) / Property list (`false`) of a parent of kind `pk` -/
def goesTo (pk : Kind) (slot : Bool) (c : Obj ν) : Bool := slotOf pk c.kind == some slot

/-- a parent of kind `pk` cannot hold `c` at all -/
def noSlot (pk : Kind) (c : Obj ν) : Bool := slotOf pk c.kind == none

/-- The object with the valid ones of the parsed children attached. -/
def keepValid (eq : ν → ν → Bool) (base : Obj ν) (cs : List (Obj ν)) : Obj ν :=
  .mk base.kind base.name base.made
    (kept eq base.props (cs.filter (goesTo base.kind false)))
    (kept eq base.secs (cs.filter (goesTo base.kind true)))

/-- The number of parsed children that are not attached. -/
def refusedCount (eq : ν → ν → Bool) (base : Obj ν) (cs : List (Obj ν)) : Nat :=
  (cs.filter (noSlot base.kind)).length
    + dropped eq base.props (cs.filter (goesTo base.kind false))
    + dropped eq base.secs (cs.filter (goesTo base.kind true))

theorem Obj.eta (o : Obj ν) : Obj.mk o.kind o.name o.made o.props o.secs = o := by
  cases o; rfl

@[simp] theorem Obj.kind_mk (k : Kind) (n : Name ν) (b : Bool) (p s : List (Obj ν)) :
    (Obj.mk k n b p s).kind = k := rfl
@[simp] theorem Obj.name_mk (k : Kind) (n : Name ν) (b : Bool) (p s : List (Obj ν)) :
    (Obj.mk k n b p s).name = n := rfl
@[simp] theorem Obj.made_mk (k : Kind) (n : Name ν) (b : Bool) (p s : List (Obj ν)) :
    (Obj.mk k n b p s).made = b := rfl
@[simp] theorem Obj.props_mk (k : Kind) (n : Name ν) (b : Bool) (p s : List (Obj ν)) :
    (Obj.mk k n b p s).props = p := rfl
@[simp] theorem Obj.secs_mk (k : Kind) (n : Name ν) (b : Bool) (p s : List (Obj ν)) :
    (Obj.mk k n b p s).secs = s := rfl

theorem keepValid_nil (eq : ν → ν → Bool) (base : Obj ν) : keepValid eq base [] = base := by
  simp [keepValid, kept, Obj.eta]

theorem keepValid_cons_ok {eq : ν → ν → Bool} {base c o : Obj ν} (cs : List (Obj ν))
    (h : appendObj eq base c = .ok o) :
    keepValid eq base (c :: cs) = keepValid eq o cs ∧
    refusedCount eq base (c :: cs) = refusedCount eq o cs := by
  unfold appendObj at h
  cases hs : slotOf base.kind c.kind with
  | none => rw [hs] at h; cases h
  | some b =>
    rw [hs] at h
    cases b with
    | true =>
      by_cases hc : clash eq c.name base.secs = true
      · simp [hc] at h
      · simp only [hc] at h
        cases h
        simp [keepValid, refusedCount, goesTo, noSlot, hs, List.filter_cons, kept, dropped, hc]
    | false =>
      by_cases hc : clash eq c.name base.props = true
      · simp [hc] at h
      · simp only [hc] at h
        cases h
        simp [keepValid, refusedCount, goesTo, noSlot, hs, List.filter_cons, kept, dropped, hc]

theorem keepValid_cons_error {eq : ν → ν → Bool} {base c : Obj ν} {l : Leak} (cs : List (Obj ν))
    (h : appendObj eq base c = .error l) :
    keepValid eq base (c :: cs) = keepValid eq base cs ∧
    refusedCount eq base (c :: cs) = refusedCount eq base cs + 1 := by
  unfold appendObj at h
  cases hs : slotOf base.kind c.kind with
  | none =>
    simp [keepValid, refusedCount, goesTo, noSlot, hs, List.filter_cons]
    omega
  | some b =>
    rw [hs] at h
    cases b with
    | true =>
      by_cases hc : clash eq c.name base.secs = true
      · simp [keepValid, refusedCount, goesTo, noSlot, hs, List.filter_cons, kept, dropped, hc]
        omega
      · simp [hc] at h
    | false =>
      by_cases hc : clash eq c.name base.props = true
      · simp [keepValid, refusedCount, goesTo, noSlot, hs, List.filter_cons, kept, dropped, hc]
        omega
      · simp [hc] at h

theorem insertChildren_eq (g : Guards) (hg : g.guardAppend = true) (m : Mode) (obj : Obj Str)
    (cs : List (Obj Str)) (w : Nat) :
    insertChildren g m obj cs w
      = outcome m (refusedCount (· == ·) obj cs)
          (keepValid (· == ·) obj cs, w + refusedCount (· == ·) obj cs) := by
  induction cs generalizing obj w with
  | nil =>
    simp only [insertChildren, keepValid_nil]
    have : refusedCount (fun (a b : Str) => a == b) obj [] = 0 := by simp [refusedCount, dropped]
    rw [this]
    exact pure_eq_outcome m _
  | cons c cs ih =>
    unfold insertChildren
    cases ha : appendObj (fun (a b : Str) => a == b) obj c with
    | ok obj' =>
      obtain ⟨h1, h2⟩ := keepValid_cons_ok cs ha
      simp only [h1, h2]
      exact ih obj' w
    | error l =>
      obtain ⟨h1, h2⟩ := keepValid_cons_error cs ha
      simp only [h1, h2, hg, if_true]
      rw [raiseOrWarn_eq_outcome]
      refine (outcome_bind m 1 _ _ _ _ (ih obj (w + 1))).trans (outcome_congr m (by omega) ?_)
      congr 1
      omega

end Reader
