/-
C15, whole-tree composition, part 3: the Property level.

For a named, well-formed 1.0 Property `p` (`PropOK`): what the strict reader extracts from the
converted Property - `_handle_properties` (value loop, lifting, clean-up) followed by one or more
runs of `_add_id` - is `propC10`, the content specification of `p`.  The point the per-stage
theorems left open is closed here: every tag the reader looks at occurs at most once among the
children of the converted Property (`transformProp_le_one`), so that the reader's "last child
wins" picks the element the converter's "first occurrence wins" has put there.
-/
import OdmlModel.Proofs.ConvSel
import OdmlModel.Proofs.ConvUuid

namespace Conv
open Conv.Xml

theorem find_none_sel_nil {t : String} {ks : List Xml} (h : find t ks = none) : sel t ks = [] := by
  rw [find_eq_head] at h
  cases hs : sel t ks with
  | nil => rfl
  | cons a as => rw [hs] at h; cases h

theorem find_some_of_sel {t : String} {ks : List Xml} {k : Xml} {r : List Xml}
    (h : sel t ks = k :: r) : find t ks = some k := by
  rw [find_eq_head, h]; rfl

/-! ## `_handle_value` seen through `sel` -/

/-- A lifted element is appended only when the Property has no child of that tag yet. -/
theorem sel_append_leaf_le_one (t m : String) (x : List Char) (cur : List Xml)
    (hf : find m cur = none) (h : (sel t cur).length ≤ 1) :
    (sel t (cur ++ [leaf m x])).length ≤ 1 := by
  rw [sel_append, sel_single]
  simp only [leaf, tag_elem]
  by_cases hm : m = t
  · subst hm; rw [find_none_sel_nil hf]; simp
  · simpa [hm] using h

theorem sel_append_leaf_other (t m : String) (x : List Char) (cur : List Xml) (hm : m ≠ t) :
    sel t (cur ++ [leaf m x]) = sel t cur := by
  rw [sel_append, sel_single]; simp [leaf, hm]

theorem look_of_prop (d : Xml) (hp : d.tag ∈ propKeys) : look d = d.tag := by
  unfold look; rw [vm_keys_not_prop _ hp]; rfl

theorem look_of_vm (d : Xml) (m : String) (h : versionMap.lookup d.tag = some m) : look d = m := by
  unfold look; rw [h]; rfl

/-- `_handle_value` never makes a second child of a tag. -/
theorem hve_le_one (pid : PropId) (t : String) (ds cur : List Xml) (log : Log)
    (h : (sel t cur).length ≤ 1) : (sel t (handleValueElems pid ds cur log).1).length ≤ 1 := by
  induction ds generalizing cur log with
  | nil => exact h
  | cons d ds ih =>
    simp only [handleValueElems]
    have hlook : (versionMap.lookup d.tag).getD d.tag = look d := rfl
    rw [hlook]
    cases hce : find (look d) cur with
    | some ce => exact ih _ _ h
    | none =>
      simp only
      by_cases hp : d.tag ∈ propKeys
      · rw [look_of_prop d hp] at hce
        simp only [hp, ↓reduceIte]
        split <;> exact ih _ _ (sel_append_leaf_le_one t _ _ _ hce h)
      · simp only [hp, ↓reduceIte]
        cases hvm : versionMap.lookup d.tag with
        | none => exact ih _ _ h
        | some m =>
          rw [look_of_vm d m hvm] at hce
          simp only
          split <;> exact ih _ _ (sel_append_leaf_le_one t _ _ _ hce h)

/-- A tag no value attribute is exported under is left alone by `_handle_value`. -/
theorem hve_sel_same (pid : PropId) (t : String) (ds cur : List Xml) (log : Log)
    (h : ∀ d ∈ ds, target d ≠ some t) : sel t (handleValueElems pid ds cur log).1 = sel t cur := by
  induction ds generalizing cur log with
  | nil => rfl
  | cons d ds ih =>
    have hd' : ∀ d' ∈ ds, target d' ≠ some t := fun d' hm => h d' (List.mem_cons_of_mem _ hm)
    have hd := h d (by simp)
    simp only [handleValueElems]
    split
    · exact ih _ _ hd'
    · by_cases hp : d.tag ∈ propKeys
      · have hdt : d.tag ≠ t := by
          intro e; subst e; apply hd; simp [target, hp]
        simp only [hp, ↓reduceIte]
        split <;> rw [ih _ _ hd', sel_append_leaf_other t _ _ _ hdt]
      · simp only [hp, ↓reduceIte]
        split
        · rename_i m hvm
          have hmt : m ≠ t := by
            intro e; apply hd; simp [target, hp, hvm, e]
          split <;> rw [ih _ _ hd', sel_append_leaf_other t _ _ _ hmt]
        · exact ih _ _ hd'

theorem valueLoop_le_one (pid : PropId) (t : String) (ht : t ≠ "value") (vals : List Xml)
    (s : VState) (h : (sel t s.cur).length ≤ 1) : (sel t (valueLoop pid vals s).cur).length ≤ 1 := by
  induction vals generalizing s with
  | nil => exact h
  | cons v vs ih =>
    simp only [valueLoop]
    apply ih
    simp only
    rw [sel_removeFirst_other t "value" ht]
    exact hve_le_one pid t _ _ _ h

theorem valueLoop_sel_same (pid : PropId) (t : String) (ht : t ≠ "value") (vals : List Xml)
    (s : VState) (h : ∀ v ∈ vals, ∀ d ∈ valueElems v, target d ≠ some t) :
    sel t (valueLoop pid vals s).cur = sel t s.cur := by
  induction vals generalizing s with
  | nil => rfl
  | cons v vs ih =>
    simp only [valueLoop]
    rw [ih _ (fun v' hm => h v' (List.mem_cons_of_mem _ hm))]
    simp only
    rw [sel_removeFirst_other t "value" ht, hve_sel_same pid t _ _ _ (h v (by simp))]

/-! ## Targets of the lifting -/

theorem vm_target_mem (s m : String) (h : versionMap.lookup s = some m) :
    m = "value_origin" ∨ m = "type" := by
  simp only [versionMap, List.lookup] at h
  split at h
  · cases h; exact Or.inl rfl
  · split at h
    · cases h; exact Or.inr rfl
    · cases h

/-- Apart from `value_origin` and `type`, an attribute is exported under its own tag only. -/
theorem target_own (d : Xml) (t : String) (h1 : t ≠ "value_origin") (h2 : t ≠ "type")
    (h : target d = some t) : d.tag = t := by
  unfold target at h
  split at h
  · simpa using h
  · rcases vm_target_mem _ _ h with e | e
    · exact absurd e h1
    · exact absurd e h2

theorem target_in_propKeys (d : Xml) (t : String) (h : target d = some t) : t ∈ propKeys := by
  unfold target at h
  split at h
  · rename_i hp
    simp only [Option.some.injEq] at h
    exact h ▸ hp
  · rcases vm_target_mem _ _ h with e | e <;> subst e <;> decide

/-! ## The last loop of `_handle_properties` seen through `sel` -/

theorem sel_propCleanup (pid : PropId) (t : String) (ht : t ∈ propKeys) (ht1 : t ≠ "dependencyvalue")
    (ks : List Xml) : sel t (propCleanup pid ks).1 = sel t ks := by
  have hdv : "dependency_value" ∉ propKeys := by decide
  have htd : t ≠ "dependency_value" := by intro e; subst e; exact hdv ht
  induction ks with
  | nil => rfl
  | cons k ks ih =>
    simp only [propCleanup]
    by_cases hk : k.tag = t
    · have hr : respell k.tag = k.tag := respell_ne _ (by rw [hk]; exact htd)
      rw [hr, hk, if_pos ht, sel_cons, sel_cons, if_pos hk, if_pos (by simp), ih, ← hk, elem_eta]
    · have hr : respell k.tag ≠ t := by
        unfold respell; split
        · exact fun e => ht1 e.symm
        · exact hk
      split
      · rw [sel_cons, sel_cons, if_neg hk, if_neg (by simpa using hr), ih]
      · rw [sel_cons, if_neg hk, ih]

/-- The children that end up under the tag `dependencyvalue`: both spellings. -/
def dvSel (ks : List Xml) : List Xml :=
  ks.filter (fun k => k.tag == "dependencyvalue" || k.tag == "dependency_value")

def respellElem (k : Xml) : Xml := .elem (respell k.tag) k.attrs k.text k.kids

theorem sel_propCleanup_dv (pid : PropId) (ks : List Xml) :
    sel "dependencyvalue" (propCleanup pid ks).1 = (dvSel ks).map respellElem := by
  have hdvk : "dependencyvalue" ∈ propKeys := by decide
  induction ks with
  | nil => rfl
  | cons k ks ih =>
    simp only [propCleanup, dvSel, List.filter_cons]
    by_cases h1 : k.tag = "dependencyvalue"
    · have hr : respell k.tag = "dependencyvalue" := by rw [h1]; decide
      rw [hr, if_pos hdvk, sel_cons, if_pos (by simp)]
      simp only [h1, beq_self_eq_true, Bool.true_or, ↓reduceIte, List.map_cons, respellElem]
      rw [ih]; rfl
    · by_cases h2 : k.tag = "dependency_value"
      · have hr : respell k.tag = "dependencyvalue" := by rw [h2]; decide
        rw [hr, if_pos hdvk, sel_cons, if_pos (by simp)]
        simp only [h2, beq_self_eq_true, Bool.or_true, ↓reduceIte, List.map_cons, respellElem]
        rw [ih]; rfl
      · have hr : respell k.tag = k.tag := respell_ne _ h2
        have hb : (k.tag == "dependencyvalue" || k.tag == "dependency_value") = false := by
          simp [h1, h2]
        rw [hr, hb]
        simp only [Bool.false_eq_true, ↓reduceIte]
        split
        · rw [sel_cons, if_neg (by simpa using h1), ih]; rfl
        · rw [ih]; rfl

theorem dvSel_of_no_underscore (ks : List Xml) (h : sel "dependency_value" ks = []) :
    dvSel ks = sel "dependencyvalue" ks := by
  unfold dvSel sel
  apply List.filter_congr
  intro k hk
  have : k.tag ≠ "dependency_value" := by
    intro e
    have : k ∈ sel "dependency_value" ks := mem_sel.2 ⟨hk, e⟩
    rw [h] at this; cases this
  simp [this]

theorem dvSel_of_no_plain (ks : List Xml) (h : sel "dependencyvalue" ks = []) :
    dvSel ks = sel "dependency_value" ks := by
  unfold dvSel sel
  apply List.filter_congr
  intro k hk
  have : k.tag ≠ "dependencyvalue" := by
    intro e
    have : k ∈ sel "dependencyvalue" ks := mem_sel.2 ⟨hk, e⟩
    rw [h] at this; cases this
  simp [this]

theorem dvSel_append_value (ks : List Xml) (x : List Char) :
    dvSel (ks ++ [leaf "value" x]) = dvSel ks := by
  simp [dvSel, List.filter_append, leaf]

/-! ## The text the reader takes from a list of same-tag children -/

def lastTextL (l : List Xml) : List Char :=
  match l.getLast? with
  | some k => Py.strip k.text
  | none => []

theorem lastText_eq (t : String) (ks : List Xml) : lastText t ks = lastTextL (sel t ks) := by
  unfold lastText lastTextL; rw [findLast_eq_getLast]
  cases (sel t ks).getLast? <;> rfl

theorem lastTextL_map_respell (l : List Xml) : lastTextL (l.map respellElem) = lastTextL l := by
  unfold lastTextL
  rw [List.getLast?_map]
  cases l.getLast? <;> rfl

theorem lastTextL_le_one (l : List Xml) (h : l.length ≤ 1) :
    lastTextL l = match l.head? with
      | some k => Py.strip k.text
      | none => [] := by
  match l, h with
  | [], _ => rfl
  | [a], _ => rfl
  | _ :: _ :: _, h => simp at h

/-! ## The converted Property -/

/-- The state after the loop over the value elements of `p`. -/
def loopState (sn st : List Char) (p : Xml) : VState :=
  valueLoop ⟨sn, st, pyStr (findText "name" p.kids)⟩ (valuesOf p)
    { cur := p.kids, vals := [], log := [] }

theorem transformProp_kids (enc : Bool) (sn st : List Char) (p : Xml) :
    (transformProp enc sn st p).1.kids =
      (propCleanup ⟨sn, st, pyStr (findText "name" p.kids)⟩
        (if (loopState sn st p).vals ≠ [] then
           (loopState sn st p).cur ++ [leaf "value" (mainText enc (loopState sn st p).vals)]
         else (loopState sn st p).cur)).1 := rfl

theorem sel_transformProp (enc : Bool) (sn st : List Char) (p : Xml) (t : String)
    (ht : t ∈ propKeys) (h1 : t ≠ "dependencyvalue") (h2 : t ≠ "value") :
    sel t (transformProp enc sn st p).1.kids = sel t (loopState sn st p).cur := by
  rw [transformProp_kids, sel_propCleanup _ t ht h1]
  split
  · exact sel_append_leaf_other t _ _ _ (fun e => h2 e.symm)
  · rfl

/-- **The lifted element is the only one of its tag.**  Every tag that occurs at most once among
    the children of the 1.0 Property occurs at most once among those of the converted one. -/
theorem transformProp_le_one (enc : Bool) (sn st : List Char) (p : Xml) (t : String)
    (ht : t ∈ propKeys) (h1 : t ≠ "dependencyvalue") (h2 : t ≠ "value")
    (hu : (sel t p.kids).length ≤ 1) : (sel t (transformProp enc sn st p).1.kids).length ≤ 1 := by
  rw [sel_transformProp enc sn st p t ht h1 h2]
  exact valueLoop_le_one _ t h2 _ _ hu

/-- First occurrence wins (the statement of `C15.lift_first_wins`). -/
theorem transformProp_find (enc : Bool) (sn st : List Char) (p : Xml) (t : String)
    (ht : t ∈ propKeys) (h1 : t ≠ "dependencyvalue") (h2 : t ≠ "value") :
    find t (transformProp enc sn st p).1.kids =
      match find t p.kids with
      | some k => some k
      | none => firstLift t ((valuesOf p).flatMap valueElems) := by
  rw [find_congr (sel_transformProp enc sn st p t ht h1 h2)]
  exact valueLoop_find _ t h2 (valuesOf p) { cur := p.kids, vals := [], log := [] }

/-- The exported attribute is the first one whose 1.1 name is `t` (as `C15.firstLift_spec`). -/
theorem firstLift_text (t : String) (ht : t ∈ propKeys) (ds : List Xml) :
    (firstLift t ds).map Xml.text =
      (ds.map (fun d => (map11 d.tag, if isBinary d.tag d.text then "text".toList else d.text))).lookup t := by
  have hf : "filename" ∉ propKeys := by decide
  have hd : "dtype" ∉ propKeys := by decide
  induction ds with
  | nil => rfl
  | cons d ds ih =>
    simp only [firstLift, List.map_cons, List.lookup]
    have key : (target d = some t) ↔ map11 d.tag = t := by
      unfold target map11
      by_cases h1 : d.tag = "filename"
      · simp [h1, hf, versionMap, List.lookup]
      · by_cases h2 : d.tag = "dtype"
        · simp [h2, hd, versionMap, List.lookup]
        · have hb1 : (d.tag == "filename") = false := by simpa using h1
          have hb2 : (d.tag == "dtype") = false := by simpa using h2
          simp only [h1, h2, ↓reduceIte, versionMap, List.lookup, hb1, hb2]
          constructor
          · intro h; split at h
            · simpa using h
            · cases h
          · intro h; subst h; simp [ht]
    by_cases hm : map11 d.tag = t
    · have hb : (t == map11 d.tag) = true := by simp [hm]
      rw [if_pos (key.2 hm), hb]
      simp [leaf, fixText]
    · have hb : (t == map11 d.tag) = false := by simp; exact fun e => hm e.symm
      rw [if_neg (fun h => hm (key.1 h)), hb]
      exact ih

theorem valueAttrs10_eq (p : Xml) :
    valueAttrs10 p = ((valuesOf p).flatMap valueElems).map
      (fun d => (map11 d.tag, if isBinary d.tag d.text then "text".toList else d.text)) := by
  unfold valueAttrs10
  rw [List.map_flatMap]

/-- **Attributes kept on the values.**  The reader finds under `t` what the specification says:
    the Property's own element, else the first value attribute with that 1.1 name. -/
theorem lastText_transformProp (enc : Bool) (sn st : List Char) (p : Xml) (t : String)
    (ht : t ∈ propKeys) (h1 : t ≠ "dependencyvalue") (h2 : t ≠ "value")
    (hu : (sel t p.kids).length ≤ 1) :
    lastText t (transformProp enc sn st p).1.kids = attr10 t p := by
  rw [lastText_of_le_one t _ (transformProp_le_one enc sn st p t ht h1 h2 hu)]
  unfold findText attr10
  rw [transformProp_find enc sn st p t ht h1 h2, valueAttrs10_eq, ← firstLift_text t ht]
  cases find t p.kids with
  | some k => rfl
  | none =>
    simp only
    cases firstLift t (List.flatMap valueElems (valuesOf p)) with
    | some l => rfl
    | none => simp [strip_nil]

/-! ## Well-formed named Properties -/

/-- The tags the reader looks at (and the 1.0 spelling of the dependency value). -/
def uTags : List String :=
  ["name", "unit", "uncertainty", "type", "value_origin", "definition", "reference", "dependency",
   "dependencyvalue", "dependency_value", "id"]

/-- What the composition needs of a named 1.0 Property: each tag the reader looks at occurs at
    most once among its children, the dependency value is not given in both spellings, and no
    value element carries an `id` or a `dependencyvalue` of its own. -/
structure PropOK (p : Xml) : Prop where
  named : (find "name" p.kids).isSome = true
  uniq : ∀ t ∈ uTags, (sel t p.kids).length ≤ 1
  notBoth : sel "dependencyvalue" p.kids = [] ∨ sel "dependency_value" p.kids = []
  vals : ∀ v ∈ valuesOf p, ∀ d ∈ valueElems v, d.tag ≠ "id" ∧ d.tag ≠ "dependencyvalue"

theorem PropOK.no_target (p : Xml) (h : PropOK p) (t : String)
    (ht : t = "id" ∨ t = "dependencyvalue" ∨ t = "dependency_value") :
    ∀ v ∈ valuesOf p, ∀ d ∈ valueElems v, target d ≠ some t := by
  intro v hv d hd htg
  have hvd := h.vals v hv d hd
  rcases ht with e | e | e
  · subst e; exact hvd.1 (target_own d _ (by decide) (by decide) htg)
  · subst e; exact hvd.2 (target_own d _ (by decide) (by decide) htg)
  · subst e
    have : "dependency_value" ∈ propKeys := target_in_propKeys d _ htg
    revert this; decide

theorem sel_loopState_same (sn st : List Char) (p : Xml) (h : PropOK p) (t : String)
    (ht : t = "id" ∨ t = "dependencyvalue" ∨ t = "dependency_value") :
    sel t (loopState sn st p).cur = sel t p.kids := by
  have hne : t ≠ "value" := by rcases ht with e | e | e <;> subst e <;> decide
  exact valueLoop_sel_same _ t hne _ _ (h.no_target p t ht)

theorem sel_id_transformProp (enc : Bool) (sn st : List Char) (p : Xml) (h : PropOK p) :
    sel "id" (transformProp enc sn st p).1.kids = sel "id" p.kids := by
  rw [sel_transformProp enc sn st p "id" (by decide) (by decide) (by decide)]
  exact sel_loopState_same sn st p h "id" (Or.inl rfl)

/-- The dependency value, in either spelling of the source. -/
theorem lastText_dv_transformProp (enc : Bool) (sn st : List Char) (p : Xml) (h : PropOK p) :
    lastText "dependencyvalue" (transformProp enc sn st p).1.kids =
      (match find "dependency_value" p.kids with
       | some k => Py.strip k.text
       | none => attr10 "dependencyvalue" p) := by
  have hdv := sel_loopState_same sn st p h "dependencyvalue" (Or.inr (Or.inl rfl))
  have hd_v := sel_loopState_same sn st p h "dependency_value" (Or.inr (Or.inr rfl))
  have hcur : dvSel (if (loopState sn st p).vals ≠ [] then
           (loopState sn st p).cur ++ [leaf "value" (mainText enc (loopState sn st p).vals)]
         else (loopState sn st p).cur) = dvSel (loopState sn st p).cur := by
    split
    · exact dvSel_append_value _ _
    · rfl
  rw [lastText_eq, transformProp_kids, sel_propCleanup_dv, lastTextL_map_respell, hcur]
  have hlift : firstLift "dependencyvalue" ((valuesOf p).flatMap valueElems) = none := by
    generalize hds : (valuesOf p).flatMap valueElems = ds
    have hall : ∀ d ∈ ds, target d ≠ some "dependencyvalue" := by
      intro d hd
      rw [← hds, List.mem_flatMap] at hd
      obtain ⟨v, hv, hdv'⟩ := hd
      exact h.no_target p _ (Or.inr (Or.inl rfl)) v hv d hdv'
    clear hds
    induction ds with
    | nil => rfl
    | cons d ds ih =>
      simp only [firstLift]
      rw [if_neg (hall d (by simp))]
      exact ih (fun d' hm => hall d' (List.mem_cons_of_mem _ hm))
  have hattr : attr10 "dependencyvalue" p = lastTextL (sel "dependencyvalue" p.kids) := by
    rw [lastTextL_le_one _ (h.uniq _ (by decide)), ← find_eq_head]
    unfold attr10
    cases find "dependencyvalue" p.kids with
    | some k => rfl
    | none =>
      simp only
      rw [valueAttrs10_eq, ← firstLift_text _ (by decide), hlift]
      rfl
  rcases h.notBoth with hn | hn
  · -- no `dependencyvalue` child: the 1.0 spelling, if any
    rw [dvSel_of_no_plain _ (hdv.trans hn), hd_v, lastTextL_le_one _ (h.uniq _ (by decide)),
      ← find_eq_head]
    cases hf : find "dependency_value" p.kids with
    | some k => rfl
    | none =>
      simp only
      rw [hattr, hn]; rfl
  · rw [dvSel_of_no_underscore _ (hd_v.trans hn), hdv]
    have : find "dependency_value" p.kids = none := by rw [find_eq_head, hn]; rfl
    rw [this]
    exact hattr.symm

/-! ## `_add_id`, once per enclosing Section -/

theorem iter_addId_sel_other (t : String) (ht : t ≠ "id") (fresh : List Char) (n : Nat) (e : Xml) :
    sel t (iter (addId fresh) n e).kids = sel t e.kids := by
  induction n generalizing e with
  | zero => rfl
  | succ n ih => simp only [iter]; rw [ih, sel_addId_other t ht]

theorem idRes_stable (fresh : List Char) (hf : idOf fresh fresh = fresh) (ks : List Xml) :
    idOf fresh (idRes fresh ks) = idRes fresh ks := by
  unfold idRes
  cases find "id" ks with
  | some k => exact idOf_idem fresh k.text hf
  | none => exact hf

theorem iter_addId_sel_id_fixed (fresh r : List Char) (hr : idOf fresh r = r) (n : Nat) (e : Xml)
    (h : sel "id" e.kids = [leaf "id" r]) : sel "id" (iter (addId fresh) n e).kids = [leaf "id" r] := by
  induction n generalizing e with
  | zero => exact h
  | succ n ih =>
    simp only [iter]
    apply ih
    rw [sel_addId_id, h]
    have : idRes fresh e.kids = r := by
      unfold idRes
      rw [find_some_of_sel h]
      simpa [leaf] using hr
    rw [this]; rfl

/-- However often `_add_id` runs on an element with at most one `id` child (at least once), it
    leaves exactly one `id` child: the id of the first run. -/
theorem iter_addId_sel_id (fresh : List Char) (hf : idOf fresh fresh = fresh) (n : Nat) (e : Xml)
    (h : (sel "id" e.kids).length ≤ 1) :
    sel "id" (iter (addId fresh) (n + 1) e).kids = [leaf "id" (idRes fresh e.kids)] := by
  simp only [iter]
  apply iter_addId_sel_id_fixed fresh _ (idRes_stable fresh hf e.kids)
  rw [sel_addId_id]
  have : (sel "id" e.kids).drop 1 = [] := by
    match hs : sel "id" e.kids, h with
    | [], _ => rfl
    | [a], _ => rfl
    | _ :: _ :: _, h => simp at h
  rw [this]; rfl

theorem id10_eq (fresh : List Char) (ks : List Xml) : id10 fresh ks = Py.strip (idRes fresh ks) := by
  unfold id10 idRes
  cases find "id" ks <;> rfl

/-- `C15.add_id_spec` in terms of `sel`. -/
theorem lastText_addId (fresh : List Char) (e : Xml) :
    lastText "id" (addId fresh e).kids = id10 fresh e.kids := by
  rw [lastText_eq, sel_addId_id, id10_eq]
  simp [lastTextL, leaf]

/-! ## The Property level of the composition -/

/-- **Property level.**  What the strict reader extracts from a converted named Property - after
    `_handle_properties` and any positive number of `_add_id` runs - is the content the
    specification assigns to the 1.0 Property.  `hv` is `C15.fold_values` (values in order). -/
theorem readProp_converted (fresh : List Char) (hf : idOf fresh fresh = fresh)
    (hv : ∀ (sn st : List Char) (p : Xml),
      readValues (transformProp false sn st p).1.kids = some (vals10 p))
    (sn st : List Char) (n : Nat) (p : Xml) (h : PropOK p) :
    readProp (iter (addId fresh) (n + 1) (transformProp false sn st p).1) =
      propC10 fresh (findText "name" p.kids) p := by
  have hsel : ∀ t, t ≠ "id" →
      sel t (iter (addId fresh) (n + 1) (transformProp false sn st p).1).kids =
        sel t (transformProp false sn st p).1.kids :=
    fun t ht => iter_addId_sel_other t ht fresh (n + 1) _
  have hattr : ∀ t, t ∈ propKeys → t ≠ "dependencyvalue" → t ≠ "value" → t ≠ "id" → t ∈ uTags →
      lastText t (iter (addId fresh) (n + 1) (transformProp false sn st p).1).kids = attr10 t p := by
    intro t ht h1 h2 h3 h4
    rw [lastText_congr (hsel t h3)]
    exact lastText_transformProp false sn st p t ht h1 h2 (h.uniq t h4)
  have hname : attr10 "name" p = Py.strip (findText "name" p.kids) := by
    unfold attr10 findText
    have := h.named
    cases hfn : find "name" p.kids with
    | some k => rfl
    | none => rw [hfn] at this; cases this
  have hid : lastText "id" (iter (addId fresh) (n + 1) (transformProp false sn st p).1).kids =
      id10 fresh p.kids := by
    have hle : (sel "id" (transformProp false sn st p).1.kids).length ≤ 1 := by
      rw [sel_id_transformProp false sn st p h]; exact h.uniq _ (by decide)
    rw [lastText_eq, iter_addId_sel_id fresh hf n _ hle, id10_eq]
    have : idRes fresh (transformProp false sn st p).1.kids = idRes fresh p.kids := by
      unfold idRes
      rw [find_congr (sel_id_transformProp false sn st p h)]
    rw [this]
    simp [lastTextL, leaf]
  unfold readProp propC10
  rw [hattr "name" (by decide) (by decide) (by decide) (by decide) (by decide), hname,
    readValues_congr (hsel "value" (by decide)), hv,
    hattr "unit" (by decide) (by decide) (by decide) (by decide) (by decide),
    hattr "uncertainty" (by decide) (by decide) (by decide) (by decide) (by decide),
    hattr "type" (by decide) (by decide) (by decide) (by decide) (by decide),
    hattr "value_origin" (by decide) (by decide) (by decide) (by decide) (by decide),
    hattr "definition" (by decide) (by decide) (by decide) (by decide) (by decide),
    hattr "reference" (by decide) (by decide) (by decide) (by decide) (by decide),
    hattr "dependency" (by decide) (by decide) (by decide) (by decide) (by decide),
    lastText_congr (hsel "dependencyvalue" (by decide)), lastText_dv_transformProp false sn st p h,
    hid]
  cases find "dependency_value" p.kids <;> rfl

/-! ## Stage 1 gives the Property its name; nothing else the specification reads changes -/

theorem PropOK_rename (n : List Char) (p : Xml) (h : PropOK p) : PropOK (rename n p) := by
  have hs : ∀ t, t ≠ "name" → sel t (rename n p).kids = sel t p.kids :=
    fun t ht => sel_rename_other t n p ht
  have hnm : ∃ nm, sel "name" p.kids = [nm] := by
    have h1 := h.named
    have h2 := h.uniq "name" (by decide)
    rw [find_eq_head] at h1
    match hsn : sel "name" p.kids, h1, h2 with
    | [a], _, _ => exact ⟨a, rfl⟩
    | [], h1, _ => simp at h1
    | _ :: _ :: _, _, h2 => simp at h2
  obtain ⟨nm, hnm⟩ := hnm
  refine ⟨?_, ?_, ?_, ?_⟩
  · rw [rename_kids, find_isSome_setFirstText]; exact h.named
  · intro t ht
    by_cases hn : t = "name"
    · subst hn
      rw [rename_kids, sel_setFirstText_name n _ nm hnm]; simp
    · rw [hs t hn]; exact h.uniq t ht
  · rw [hs _ (by decide), hs _ (by decide)]; exact h.notBoth
  · have : valuesOf (rename n p) = valuesOf p := hs "value" (by decide)
    rw [this]; exact h.vals

theorem findText_name_rename (n : List Char) (p : Xml) (h : (find "name" p.kids).isSome = true) :
    findText "name" (rename n p).kids = n := by
  rw [rename_kids]; exact findText_setFirstText "name" n _ h

theorem propC10_rename (fresh y n : List Char) (p : Xml) :
    propC10 fresh y (rename n p) = propC10 fresh y p := by
  have hs : ∀ t, t ≠ "name" → sel t (rename n p).kids = sel t p.kids :=
    fun t ht => sel_rename_other t n p ht
  have hvo : valuesOf (rename n p) = valuesOf p := hs "value" (by decide)
  have hva : valueAttrs10 (rename n p) = valueAttrs10 p := by unfold valueAttrs10; rw [hvo]
  have hat : ∀ t, t ≠ "name" → attr10 t (rename n p) = attr10 t p := by
    intro t ht
    unfold attr10
    rw [find_congr (hs t ht), hva]
  unfold propC10
  rw [hat "unit" (by decide), hat "uncertainty" (by decide), hat "type" (by decide),
    hat "value_origin" (by decide), hat "definition" (by decide), hat "reference" (by decide),
    hat "dependency" (by decide), hat "dependencyvalue" (by decide),
    find_congr (hs "dependency_value" (by decide))]
  unfold vals10 id10
  rw [hvo, find_congr (hs "id" (by decide))]

end Conv
