/-
Whole-document XML round trip, part 2: the `<value>` text.

* csv reading of unquoted fields (`readFirst_rawFields`: what `odml_tuple_export` writes);
* `strip_idem'`, `fromCsv_toCsv`, `strip_toCsv`;
* `tuple_count_pos`: a valid lower-case `n-tuple` dtype has n >= 1;
* `value_facts`: the `<value>` text of a well-formed, representable Property (n-tuples and every
  other dtype) is not blank, is read by `from_csv` and re-typed by the `values` setter;
* what the constructors make of the collected id / name / uncertainty / cardinality arguments.
-/
import OdmlModel.Proofs.XmlRound
import OdmlModel.Props.C09
set_option linter.unusedSimpArgs false

namespace Py.Csv

/-- a field that is written without csv quoting and still read back as one field: not empty,
    does not start with the quote character, free of delimiter and line breaks -/
def RawField (f : List Char) : Prop :=
  (∃ c cs, f = c :: cs ∧ (c == '"') = false) ∧ ∀ c ∈ f, (c == ',') = false ∧ isNl c = false

theorem isNl_false {c : Char} (h : isNl c = false) : (c == '\n') = false ∧ (c == '\r') = false := by
  simpa [isNl] using h

theorem run_inField_raw (dn : Option (List (List Char))) (acc : List (List Char)) (f : List Char) :
    ∀ (pre k : List Char), (∀ c ∈ f, (c == ',') = false ∧ isNl c = false) →
      run ⟨.inField, pre, acc⟩ true dn (f ++ k) = run ⟨.inField, pre ++ f, acc⟩ true dn k := by
  induction f with
  | nil => intro pre k _; simp
  | cons c cs ih =>
    intro pre k h
    obtain ⟨h1, h2⟩ := h c (by simp)
    have h3 := (isNl_false h2).1
    have := ih (pre ++ [c]) k (fun c' hc' => h c' (by simp [hc']))
    simp [run, step, h1, h2, h3, RS.add, this]

theorem run_rawField_comma (dn : Option (List (List Char))) (acc : List (List Char))
    (f rest : List Char) (mid : Bool) (hf : RawField f) :
    run ⟨.startField, [], acc⟩ mid dn (f ++ ',' :: rest) =
      run ⟨.startField, [], acc ++ [f]⟩ true dn rest := by
  obtain ⟨⟨c, cs, rfl, hq⟩, hp⟩ := hf
  obtain ⟨h1, h2⟩ := hp c (by simp)
  have h3 := (isNl_false h2).1
  have h4 := (isNl_false h2).2
  have := run_inField_raw dn acc cs [c] (',' :: rest) (fun c' hc' => hp c' (by simp [hc']))
  simp [run, step, stepStartField, h1, h2, h3, h4, hq, RS.add, this, RS.save, isNl]

theorem run_rawField_end (dn : Option (List (List Char))) (acc : List (List Char))
    (f : List Char) (mid : Bool) (hf : RawField f) :
    run ⟨.startField, [], acc⟩ mid dn f = .ok (dn.getD (acc ++ [f])) := by
  obtain ⟨⟨c, cs, rfl, hq⟩, hp⟩ := hf
  obtain ⟨h1, h2⟩ := hp c (by simp)
  have h3 := (isNl_false h2).1
  have h4 := (isNl_false h2).2
  have := run_inField_raw dn acc cs [c] [] (fun c' hc' => hp c' (by simp [hc']))
  simp only [List.append_nil] at this
  simp [run, step, stepStartField, h1, h2, h3, h4, hq, RS.add, this, RS.save, eol, isNl]

theorem run_rawFields (dn : Option (List (List Char))) (fs : List (List Char)) :
    ∀ acc mid, fs ≠ [] → (∀ f ∈ fs, RawField f) →
      run ⟨.startField, [], acc⟩ mid dn (Xml.intercal [','] fs) = .ok (dn.getD (acc ++ fs)) := by
  induction fs with
  | nil => intro acc mid h; exact absurd rfl h
  | cons f fs ih =>
    intro acc mid _ hall
    cases fs with
    | nil => simpa [Xml.intercal] using run_rawField_end dn acc f mid (hall f (by simp))
    | cons g gs =>
      have := ih (acc ++ [f]) true (by simp) (fun x hx => hall x (by simp [hx]))
      simp only [Xml.intercal, List.append_assoc, List.singleton_append] at this ⊢
      rw [run_rawField_comma _ _ _ _ _ (hall f (by simp)), this]

theorem intercal_head (f : List Char) (fs : List (List Char)) (c : Char) (cs : List Char)
    (h : f = c :: cs) : ∃ t, Xml.intercal [','] (f :: fs) = c :: t := by
  subst h
  cases fs with
  | nil => exact ⟨cs, rfl⟩
  | cons g gs => exact ⟨cs ++ [','] ++ Xml.intercal [','] (g :: gs), by simp [Xml.intercal]⟩

/-- unquoted fields joined by commas are read back as they are -/
theorem readFirst_rawFields (fs : List (List Char)) (hne : fs ≠ []) (hall : ∀ f ∈ fs, RawField f) :
    readFirst (Xml.intercal [','] fs) = .ok fs ∧ Xml.intercal [','] fs ≠ [] := by
  cases fs with
  | nil => exact absurd rfl hne
  | cons f gs =>
    obtain ⟨⟨c, cs, hf, hq⟩, hp⟩ := hall f (by simp)
    obtain ⟨t, ht⟩ := intercal_head f gs c cs hf
    have hc := (hp c (by simp [hf])).2
    constructor
    · unfold readFirst
      rw [RS.init, run_startRecord]
      · simpa using run_rawFields none (f :: gs) [] false (by simp) hall
      · intro c' hc'; rw [ht] at hc'; simp at hc'; subst hc'; exact hc
      · rw [ht]; simp
    · rw [ht]; simp

end Py.Csv

namespace Xml
open Py Py.Csv

/-! ### `strip` is idempotent -/

theorem lstrip_idem' (s : List Char) : lstrip (lstrip s) = lstrip s := by
  induction s with
  | nil => rfl
  | cons a t ih =>
    by_cases ha : isSpace a = true
    · simp [lstrip, ha, ih]
    · have : lstrip (a :: t) = a :: t := by simp [lstrip, ha]
      rw [this, this]

theorem lstrip_append_nonspace' {a : Char} (ha : isSpace a = false) :
    ∀ (l : List Char), lstrip (l ++ [a]) = lstrip l ++ [a] := by
  intro l
  induction l with
  | nil => simp [lstrip, ha]
  | cons b t ih =>
    by_cases hb : isSpace b = true
    · simp [lstrip, hb, ih]
    · simp [lstrip, hb]

theorem strip_idem' (s : List Char) : strip (strip s) = strip s := by
  unfold strip
  have key : ∀ t : List Char, lstrip t = t → lstrip (rstrip t) = rstrip t := by
    intro t ht
    cases t with
    | nil => rfl
    | cons a t' =>
      have ha : isSpace a = false := by
        by_cases h : isSpace a = true
        · exfalso
          have h2 : lstrip (a :: t') = lstrip t' := by simp [lstrip, h]
          rw [h2] at ht
          have hl : (lstrip t').length ≤ t'.length := by
            clear ht h2
            induction t' with
            | nil => simp [lstrip]
            | cons b u ih => unfold lstrip; split <;> simp <;> omega
          rw [ht] at hl; simp at hl; omega
        · simpa using h
      unfold rstrip
      simp only [List.reverse_cons, lstrip_append_nonspace' ha, List.reverse_append,
        List.reverse_singleton, List.singleton_append]
      exact lstrip_of_head ha
  have h1 : lstrip (rstrip (lstrip s)) = rstrip (lstrip s) := key _ (lstrip_idem' s)
  rw [h1]
  unfold rstrip
  simp only [List.reverse_reverse, lstrip_idem']

/-! ### the `<value>` text (copies of the statements of `Props/C01.lean` §1–§2, needed below it) -/

theorem fromCsv_toCsv (vs : List (List Char)) : fromCsv (toCsv vs) = .ok (vs.map strip) := by
  simp only [toCsv, dropLast2_writeRow]
  generalize vs.map strip = uv
  match uv with
  | [] => simp [rowBody, joinFields, fromCsv]
  | [s] =>
    simp only
    split
    · rename_i hc
      simp only [Bool.and_eq_true, Bool.not_eq_true', List.isEmpty_eq_false_iff] at hc
      have hne : s ≠ [] := hc.1
      simp [fromCsv, hne, hc.2]
    · by_cases hs : s = []
      · subst hs; decide
      · have hb : rowBody [s] ≠ [] := by
          have : ([s] == [[]]) = false := by simp [hs]
          simp only [rowBody, this, joinFields, Bool.false_eq_true, ↓reduceIte]
          unfold renderField
          split
          · simp
          · exact hs
        exact fromCsv_wrap [s] (by simp) hb
  | f :: g :: gs => exact fromCsv_wrap _ (by simp) (rowBody_ne_nil_of_two f g gs)

theorem toCsv_nil : toCsv [] = [] := by decide

/-- the text of a non-empty value list is not blank -/
theorem strip_toCsv (vs : List (List Char)) (h : vs ≠ []) : (strip (toCsv vs)).isEmpty = false := by
  have wrap : ∀ b : List Char, (strip ('[' :: (b ++ [']']))).isEmpty = false := by
    intro b; rw [strip_of_ends '[' ']' b (by decide) (by decide)]; rfl
  simp only [toCsv]
  match hv : vs.map strip with
  | [] => simp at hv; exact absurd hv h
  | [s] =>
    simp only
    split
    · rename_i hc
      simp only [Bool.and_eq_true, Bool.not_eq_true'] at hc
      obtain ⟨v, hv'⟩ : ∃ v, s = strip v := by
        cases vs with
        | nil => simp at hv
        | cons v vs' => simp at hv; exact ⟨v, hv.1.symm⟩
      rw [hv', strip_idem', ← hv']; exact hc.1
    · exact wrap _
  | f :: g :: gs => exact wrap _


theorem lookup_some_mem {β} : ∀ (l : List (String × β)) (a : String) (v : β),
    l.lookup a = some v → a ∈ l.map (·.1) := by
  intro l a v h
  by_cases hm : a ∈ l.map (·.1)
  · exact hm
  · rw [lookup_none_of_not_mem l a hm] at h; cases h

theorem natOfDigits_foldl_ge (cs : List Char) : ∀ a : Nat,
    a ≤ cs.foldl (fun acc c => 10 * acc + (c.toNat - 48)) a := by
  induction cs with
  | nil => intro a; simp
  | cons c cs ih => intro a; simp only [List.foldl_cons]; have := ih (10 * a + (c.toNat - 48)); omega

theorem endsWith_split {suf : String} {d : Str} (h : endsWith suf d = true) :
    ∃ pre, d = pre ++ suf.toList := by
  obtain ⟨pre, hp⟩ := List.isSuffixOf_iff_suffix.mp h
  exact ⟨pre, hp.symm⟩

theorem span_loop_eq {α} (p : α → Bool) : ∀ (l acc : List α),
    List.span.loop p l acc = (acc.reverse ++ l.takeWhile p, l.dropWhile p) := by
  intro l
  induction l with
  | nil => intro acc; simp [List.span.loop]
  | cons a as ih =>
    intro acc
    by_cases h : p a = true
    · simp [List.span.loop, h, ih, List.takeWhile_cons, List.dropWhile_cons]
    · simp [List.span.loop, h, List.takeWhile_cons, List.dropWhile_cons]

theorem span_eq' {α} (p : α → Bool) (l : List α) : l.span p = (l.takeWhile p, l.dropWhile p) := by
  simp [List.span, span_loop_eq]

theorem of_mem_takeWhile {α} (p : α → Bool) (c : α) : ∀ (l : List α), c ∈ l.takeWhile p → p c = true := by
  intro l
  induction l with
  | nil => simp
  | cons a as ih =>
    by_cases h : p a = true
    · simp only [List.takeWhile_cons, h, if_true, List.mem_cons]
      rintro (rfl | h'); exact h; exact ih h'
    · simp [List.takeWhile_cons, h]

theorem tuple_count_pos (d : Str) (hv : validType (some d) = true) (hl : lower d = d)
    (he : endsWith "-tuple" d = true) : 0 < natOfDigits (d.take (d.length - 6)) := by
  obtain ⟨pre, hd⟩ := endsWith_split he
  have htake : d.take (d.length - 6) = pre := by
    rw [hd]; simp
  rw [htake]
  simp only [validType, hl, Bool.or_eq_true] at hv
  rcases hv with hv | hv
  · exfalso
    have hk1 : ∀ k ∈ Gen.DTypes.dtypeMap.map (·.1), endsWith "-tuple" k.toList = false := by decide
    have hk2 : ∀ k ∈ Gen.DTypes.members.map (·.1), endsWith "-tuple" k.toList = false := by decide
    cases hlk : Gen.DTypes.dtypeMap.lookup (String.ofList d) with
    | some v =>
      have := hk1 _ (lookup_some_mem _ _ _ hlk)
      simp [he] at this
    | none =>
      rw [hlk] at hv
      simp only [Option.getD_none, List.contains_iff_mem] at hv
      have := hk2 _ hv
      simp [he] at this
  · simp only [tupleName, span_eq', Bool.and_eq_true, Bool.not_eq_true',
      bne_iff_ne, ne_eq, beq_iff_eq] at hv
    obtain ⟨⟨h1, h2⟩, h3⟩ := hv
    have hsplit : d = d.takeWhile Char.isDigit ++ "-tuple".toList := by
      rw [← h3]; exact (List.takeWhile_append_dropWhile).symm
    have hpre : pre = d.takeWhile Char.isDigit := by
      have : pre ++ "-tuple".toList = d.takeWhile Char.isDigit ++ "-tuple".toList := by
        rw [← hd, ← hsplit]
      exact List.append_cancel_right this
    rw [hpre]
    cases hds : d.takeWhile Char.isDigit with
    | nil => rw [hds] at h1; simp at h1
    | cons c cs =>
      rw [hds] at h2
      have hc0 : c ≠ '0' := by simpa using h2
      have hcd : c.isDigit = true := by
        have : c ∈ d.takeWhile Char.isDigit := by rw [hds]; simp
        exact of_mem_takeWhile _ _ _ this
      have hb := isDigit_bounds hcd
      have hne : c.toNat ≠ 48 := by
        intro h
        have h' : c = Char.ofNat c.toNat := (Char.ofNat_toNat c).symm
        rw [h] at h'
        exact hc0 (h'.trans (by decide))
      have := natOfDigits_foldl_ge cs (10 * 0 + (c.toNat - 48))
      simp only [natOfDigits, List.foldl_cons]
      omega


/-- the text `odml_tuple_export` writes for one value -/
def tupleText (v : Val) : Str := '(' :: (intercal [';'] (tupleItems v) ++ [')'])

theorem mem_intercal (sep : Str) (c : Char) : ∀ (xs : List Str), c ∈ intercal sep xs →
    c ∈ sep ∨ ∃ x ∈ xs, c ∈ x := by
  intro xs
  induction xs with
  | nil => simp [intercal]
  | cons x xs ih =>
    cases xs with
    | nil => intro h; exact Or.inr ⟨x, by simp, by simpa [intercal] using h⟩
    | cons y ys =>
      intro h
      simp only [intercal, List.mem_append] at h
      rcases h with (h | h) | h
      · exact Or.inr ⟨x, by simp, h⟩
      · exact Or.inl h
      · rcases ih h with h' | ⟨z, hz, hc⟩
        · exact Or.inl h'
        · exact Or.inr ⟨z, by simp [hz], hc⟩

theorem rawField_tupleText (xs : List Str) (h : xs.all itemRepr = true) :
    RawField (tupleText (.tuple xs)) := by
  refine ⟨⟨'(', _, rfl, by decide⟩, ?_⟩
  intro c hc
  simp only [tupleText, tupleItems, List.mem_cons, List.mem_append, List.mem_singleton, List.not_mem_nil, or_false] at hc
  rcases hc with rfl | hc | rfl
  · decide
  · rcases mem_intercal _ _ _ hc with h' | ⟨x, hx, hcx⟩
    · have : c = ';' := by simpa using h'
      subst this; decide
    · have hx' := List.all_eq_true.mp h x hx
      simp only [itemRepr, Bool.not_eq_true', List.any_eq_false, Bool.or_eq_true, beq_iff_eq,
        not_or] at hx'
      obtain ⟨⟨h1, h2⟩, h3⟩ := hx' c hcx
      simp [isNl, h1, h2, h3]
  · decide

/-- a value of an n-tuple Property is an n-tuple -/
theorem tuple_of_valOk (lib : TokLib) (d : Str) (v : Val) (he : endsWith "-tuple" d = true)
    (h : valOk lib d v = true) :
    ∃ xs, v = .tuple xs ∧ xs.length = natOfDigits (d.take (d.length - 6)) ∧ xs.all itemOk = true := by
  have hno : ∀ s : String, endsWith "-tuple" s.toList = false → String.ofList d ≠ s := by
    intro s hs heq
    rw [ofList_eq heq, hs] at he; cases he
  cases v with
  | str s => simp [valOk, he] at h
  | int i =>
    simp only [valOk, beq_iff_eq] at h
    exact absurd h (hno _ (by decide))
  | bool b =>
    simp only [valOk, beq_iff_eq] at h
    exact absurd h (hno _ (by decide))
  | tok t =>
    simp only [valOk, tokKinds, List.contains_cons, List.contains_nil, Bool.or_false,
      Bool.and_eq_true, Bool.or_eq_true, beq_iff_eq] at h
    rcases h.1 with h1 | h1 | h1 | h1 <;> exact absurd h1 (hno _ (by decide))
  | tuple xs =>
    simp only [valOk, Bool.and_eq_true, beq_iff_eq] at h
    exact ⟨xs, rfl, h.1.2, h.2⟩
  | nul => simp [valOk] at h

theorem tupleGet_tupleText (xs : List Str) (hne : xs ≠ []) (h : xs.all itemOk = true) :
    tupleGet (tupleText (.tuple xs)) xs.length = .ok (.tuple xs) := by
  apply tupleGet_export xs hne
  · intro x hx
    have := List.all_eq_true.mp h x hx
    simp only [itemOk, Bool.and_eq_true, beq_iff_eq] at this
    exact this.1
  · intro x hx c hc
    have := List.all_eq_true.mp h x hx
    simp only [itemOk, Bool.and_eq_true, Bool.not_eq_true'] at this
    have h2 := this.2
    simp only [List.contains_eq_mem, decide_eq_false_iff_not] at h2
    simp only [beq_eq_false_iff_ne, ne_eq]
    rintro rfl; exact h2 hc

def propLower (p : PropT) : Bool :=
  match p.dtype with
  | none => true
  | some d => lower d == d

/-- **The `<value>` element of a well-formed, representable Property**: either the text is empty
    (no values) or it is not blank, `from_csv` reads it, and the `values` setter re-types what
    was read to the trimmed values under the same dtype. -/
theorem value_facts (lib : TokLib) (d : Str) (vals : List Val) (hval : validType (some d) = true)
    (hl : lower d = d) (hok : ∀ v ∈ vals, valOk lib d v = true)
    (hrep : vals.all valRepr = true) (hne : vals ≠ []) (p : PropT) (hp1 : p.dtype = some d)
    (hp2 : p.values = vals) :
    ∃ vs, (strip (valueText p)).isEmpty = false ∧ fromCsv (valueText p) = .ok vs ∧
      loadValues lib (some d) vs = .ok (some d, vals.map trimVal) := by
  by_cases he : endsWith "-tuple" d = true
  · -- n-tuples
    have hcount := tuple_count_pos d hval hl he
    have hvt : valueText p = '[' :: (intercal [','] (vals.map tupleText) ++ [']']) := by
      have : vals.isEmpty = false := by cases vals <;> simp_all
      simp only [valueText, hp1, hp2, he, this, tupleExport, Bool.not_false, Bool.and_self, if_true]
      rfl
    have hall : ∀ v ∈ vals, ∃ xs, v = .tuple xs ∧ xs.length = natOfDigits (d.take (d.length - 6)) ∧
        xs.all itemOk = true := fun v hv => tuple_of_valOk lib d v he (hok v hv)
    have hraw : ∀ f ∈ vals.map tupleText, RawField f := by
      intro f hf
      obtain ⟨v, hv, rfl⟩ := List.mem_map.mp hf
      obtain ⟨xs, rfl, _, _⟩ := hall v hv
      exact rawField_tupleText xs (by simpa [valRepr] using List.all_eq_true.mp hrep _ hv)
    obtain ⟨hread, hnn⟩ := readFirst_rawFields (vals.map tupleText) (by simpa using hne) hraw
    refine ⟨vals.map tupleText, ?_, ?_, ?_⟩
    · rw [hvt, strip_of_ends '[' ']' _ (by decide) (by decide)]; rfl
    · rw [hvt]
      unfold fromCsv
      rw [bracketed_wrap, slice1m1_wrap]
      simp [hnn, hread]
    · have hmap : ∀ vs : List Val, (∀ v ∈ vs, v ∈ vals) →
          mapExcept (fun t => tupleGet t (natOfDigits (d.take (d.length - 6)))) (vs.map tupleText)
            = .ok (vs.map trimVal) := by
        intro vs
        induction vs with
        | nil => intro _; rfl
        | cons v vs ih =>
          intro hsub
          obtain ⟨xs, rfl, hlen, hitems⟩ := hall v (hsub v (by simp))
          have hxs : xs ≠ [] := by
            intro h; subst h; simp at hlen; omega
          have h1 := tupleGet_tupleText xs hxs hitems
          rw [hlen] at h1
          have h2 := ih (fun w hw => hsub w (by simp [hw]))
          simp only [List.map_cons, mapExcept, h1, h2, trimVal]
      cases hv : vals with
      | nil => exact absurd hv hne
      | cons v0 rest =>
        have := hmap vals (fun v hv => hv)
        rw [hv] at this
        simp only [List.map_cons] at this
        simp only [List.map_cons, loadValues, he, if_true, this]
  · -- every other dtype
    have he' : endsWith "-tuple" d = false := by simpa using he
    have hvt : valueText p = toCsv (vals.map valStr) := by
      simp [valueText, hp1, hp2, he']
    refine ⟨(vals.map valStr).map strip, ?_, ?_, ?_⟩
    · rw [hvt]; exact strip_toCsv _ (by simpa using hne)
    · rw [hvt]; exact fromCsv_toCsv _
    · have key : ∀ vs : List Val, (∀ v ∈ vs, valOk lib d v = true) →
          mapExcept (getTyped lib d) ((vs.map valStr).map strip) = .ok (vs.map trimVal) := by
        intro vs
        induction vs with
        | nil => intro _; rfl
        | cons v vs ih =>
          intro hv
          have h1 : getTyped lib d (strip (valStr v)) = .ok (trimVal v) := by
            have h := hv v (by simp)
            cases v with
            | str s =>
              simp only [valOk, he', Bool.not_false, Bool.true_and] at h
              simpa [valStr, trimVal] using getTyped_str lib d s h
            | int i => simpa [valStr, trimVal] using getTyped_int lib d i (by simpa [valOk] using h)
            | bool b => simpa [trimVal] using getTyped_bool lib d b (by simpa [valOk] using h)
            | tok t =>
              simp only [valOk, Bool.and_eq_true] at h
              simpa [valStr, trimVal] using getTyped_tok lib d t h.1 h.2
            | tuple xs => simp [valOk, he'] at h
            | nul => simp [valOk] at h
          have h2 := ih (fun w hw => hv w (by simp [hw]))
          simp only [List.map_cons, mapExcept, h1, h2]
      cases hv : vals with
      | nil => exact absurd hv hne
      | cons v vs =>
        have := key vals hok
        rw [hv] at this
        simp only [List.map_cons] at this
        simp only [List.map_cons, loadValues, he', this]
        simp

/-! ### the constructor arguments of one element -/

theorem getText_of_map (a : Args) (n : String) (o : Option Str)
    (h : a.lookup n = o.map textArg) : getText a n = normText o := by
  cases o with
  | none => simp [getText, h, normText]
  | some s => simp [getText, h, textArg]

theorem getText_of_some (a : Args) (n : String) (s : Str)
    (h : a.lookup n = some (textArg s)) : getText a n = normText (some s) :=
  getText_of_map a n (some s) h

theorem stored_of_cardOk' (p : Option Int × Option Int) (h : cardOk (some p) = true) :
    C09.Stored (some p) := by
  obtain ⟨a, b⟩ := p
  cases a <;> cases b <;> simp [cardOk] at h <;>
    simp [C09.Stored, Card.Normal, Card.Strong] <;> omega

theorem loadCard_of_map (a : Args) (n : String) (c : Card.Card) (hc : cardOk c = true)
    (h : a.lookup n = c.map cardArg) : loadCard a n = some c := by
  cases c with
  | none => simp [loadCard, h]
  | some q =>
    have hs := stored_of_cardOk' q hc
    have h1 := C09.persist_text q hs
    have h2 : Card.formatCard (cardAsIn (some q)) = .ok (some q) := C09.stored_fixpoint (some q) hs
    simp [loadCard, h, cardArg, h1, h2]

theorem idOk_facts (i : Option Str) (h : idOk i = true) :
    loadId (normText (some (shown i))) = i := by
  cases i with
  | none => simp [idOk] at h
  | some s =>
    simp only [idOk, Bool.and_eq_true, beq_iff_eq] at h
    have hne : s.isEmpty = false := by
      have := h.1
      simp only [canonicalUuid, Bool.and_eq_true, beq_iff_eq] at this
      cases s with
      | nil => simp at this
      | cons c cs => rfl
    simp [shown, normText, hne, h.2, loadId, h.1]

theorem name_facts (n i : Option Str) (h1 : n.isSome = true) (h2 : nameRepr n = true) :
    loadName (normText (some (shown (n <|> i)))) = n.map strip := by
  cases n with
  | none => simp at h1
  | some s =>
    simp only [nameRepr, Bool.not_eq_true'] at h2
    have hne : s.isEmpty = false := ne_nil_of_strip h2
    simp [shown, normText, hne, loadName, h2]

theorem unc_facts (u : Option Unc) (h : uncRepr u = true) :
    (normText (u.map (·.text))).map (fun t => (⟨false, t⟩ : Unc)) = normUnc u := by
  cases u with
  | none => rfl
  | some u =>
    obtain ⟨b, t⟩ := u
    simp only [uncRepr, Bool.not_eq_true'] at h
    subst h
    by_cases ht : t.isEmpty = true <;> simp [normText, normUnc, ht]

end Xml
