/-
Helper lemmas for C09 (text form of cardinalities).
-/
import OdmlModel.Model.Card
import OdmlModel.Proofs.Str

namespace Card
open Py

/-- The text of one bound: either `None` or a run of digits. -/
inductive BoundText : List Char → Prop
  | none : BoundText "None".toList
  | digits (n : Nat) : BoundText (natToDigits n)

theorem renderBound_boundText (a : Option Int) (h : ∀ x, a = some x → 0 ≤ x) :
    BoundText (renderBound a) := by
  cases a with
  | none => exact .none
  | some i =>
    have := h i rfl
    cases i with
    | ofNat n => exact .digits n
    | negSucc n => omega

theorem BoundText.no_comma {s : List Char} (h : BoundText s) : ∀ c ∈ s, (c == ',') = false := by
  cases h with
  | none => decide
  | digits n =>
    intro c hc
    exact isDigit_ne_comma (Nat.isDigit_of_mem_toDigits (by decide) (by decide) hc)

theorem BoundText.strip {s : List Char} (h : BoundText s) : strip s = s := by
  cases h with
  | none => decide
  | digits n => exact strip_digits (natToDigits_all_digit n)

theorem BoundText.lstrip {s : List Char} (h : BoundText s) : lstrip s = s := by
  cases h with
  | none => decide
  | digits n => exact lstrip_digits (natToDigits_all_digit n)

theorem BoundText.ne_nil {s : List Char} (h : BoundText s) : s ≠ [] := by
  cases h with
  | none => decide
  | digits n => exact natToDigits_ne_nil n

theorem BoundText.last_not_space {s : List Char} (h : BoundText s) :
    ∀ c, s.getLast? = some c → isSpace c = false := by
  cases h with
  | none => intro c hc; simp at hc; subst hc; decide
  | digits n =>
    intro c hc
    have : c ∈ natToDigits n := List.mem_of_getLast? hc
    exact isDigit_not_space (Nat.isDigit_of_mem_toDigits (by decide) (by decide) this)

/-- `(" " ++ s).strip() = s` for a bound text. -/
theorem BoundText.strip_space_cons {s : List Char} (h : BoundText s) : Py.strip (' ' :: s) = s := by
  have h1 : Py.lstrip (' ' :: s) = s := by
    have : isSpace ' ' = true := by decide
    simp [Py.lstrip, this, h.lstrip]
  have := h.strip
  simp only [Py.strip, h1]
  simpa [Py.strip, h.lstrip] using this

theorem none_not_digitStr : isDigitStr "None".toList = false := by decide

theorem none_not_digitStr' : isDigitStr ['N', 'o', 'n', 'e'] = false := by decide

theorem digits_ne_none (n : Nat) : (natToDigits n == "None".toList) = false := by
  have h := natToDigits_all_digit n
  rcases Decidable.em (natToDigits n = "None".toList) with e | e
  · rw [e] at h; exact absurd h (by decide)
  · simpa using e

/-- The text between the parentheses splits into exactly the two bound texts. -/
theorem split_inner {ra rb : List Char} (ha : BoundText ra) (hb : BoundText rb) :
    splitOn ',' (ra ++ [',', ' '] ++ rb) = [ra, ' ' :: rb] := by
  have : ra ++ [',', ' '] ++ rb = ra ++ ',' :: (' ' :: rb) := by simp
  rw [this, splitOn_append_sep _ _ _ ha.no_comma]
  have hs : ∀ c ∈ ' ' :: rb, (c == ',') = false := by
    intro c hc
    rcases List.mem_cons.mp hc with rfl | hc
    · decide
    · exact hb.no_comma c hc
  rw [splitOn_no_sep _ _ hs]

/-- `strip()[1:-1]` of the rendered text is the inner text. -/
theorem strip_slice_render (ra rb : List Char) :
    slice1m1 (Py.strip (['('] ++ ra ++ [',', ' '] ++ rb ++ [')'])) = ra ++ [',', ' '] ++ rb := by
  have hl : Py.lstrip (['('] ++ ra ++ [',', ' '] ++ rb ++ [')']) =
      '(' :: (ra ++ [',', ' '] ++ rb ++ [')']) := by
    have : isSpace '(' = false := by decide
    simp [Py.lstrip, this]
  have hr : Py.lstrip ((ra ++ [',', ' '] ++ rb ++ [')']).reverse ++ ['(']) =
      (ra ++ [',', ' '] ++ rb ++ [')']).reverse ++ ['('] := by
    have : isSpace ')' = false := by decide
    simp [Py.lstrip, this]
  simp only [Py.strip, Py.rstrip, hl, List.reverse_cons, hr]
  have : ((ra ++ [',', ' '] ++ rb ++ [')']).reverse ++ ['(']).reverse =
      '(' :: ((ra ++ [',', ' '] ++ rb) ++ [')']) := by simp
  rw [this]
  simp only [slice1m1, List.drop_succ_cons, List.drop_zero, List.dropLast_concat]

/-- A non-negative `int` is falsy exactly when it is 0 (`bool ⊂ int`). -/
theorem nonneg_truthy {a : In} {x : Int} (h : nonnegInt a = some x) :
    0 ≤ x ∧ a.truthy = (x != 0) := by
  unfold nonnegInt at h
  cases a <;> simp [In.asInt] at h
  · rename_i b; cases b <;> simp_all [In.truthy] <;> subst h <;> simp
  · rename_i i; obtain ⟨h1, rfl⟩ := h; simp [In.truthy, h1]

end Card
