/-
Helper lemmas for C09 (text form of cardinalities).
-/
import OdmlModel.Model.Card
import OdmlModel.Model.CardObj
import OdmlModel.Proofs.Str

namespace Card
open Py

/-- The text of one bound: either `None` or a run of digits. -/
inductive BoundText : List Char → Prop
  | none : BoundText "None".toList
  | digits (n : Nat) : BoundText (natToDigits n)

theorem renderBound_boundText (a : Option Int) (h : ∀ x, a = some x → 0 ≤ x) :
    BoundText (renderBound a) := by
  cases a with
  | none => exact .none
  | some i =>
    have := h i rfl
    cases i with
    | ofNat n => exact .digits n
    | negSucc n => omega

theorem BoundText.no_comma {s : List Char} (h : BoundText s) : ∀ c ∈ s, (c == ',') = false := by
  cases h with
  | none => decide
  | digits n =>
    intro c hc
    exact isDigit_ne_comma (Nat.isDigit_of_mem_toDigits (by decide) (by decide) hc)

theorem BoundText.strip {s : List Char} (h : BoundText s) : strip s = s := by
  cases h with
  | none => decide
  | digits n => exact strip_digits (natToDigits_all_digit n)

theorem BoundText.lstrip {s : List Char} (h : BoundText s) : lstrip s = s := by
  cases h with
  | none => decide
  | digits n => exact lstrip_digits (natToDigits_all_digit n)

theorem BoundText.ne_nil {s : List Char} (h : BoundText s) : s ≠ [] := by
  cases h with
  | none => decide
  | digits n => exact natToDigits_ne_nil n

theorem BoundText.last_not_space {s : List Char} (h : BoundText s) :
    ∀ c, s.getLast? = some c → isSpace c = false := by
  cases h with
  | none => intro c hc; simp at hc; subst hc; decide
  | digits n =>
    intro c hc
    have : c ∈ natToDigits n := List.mem_of_getLast? hc
    exact isDigit_not_space (Nat.isDigit_of_mem_toDigits (by decide) (by decide) this)

/-- `(" " ++ s).strip() = s` for a bound text. -/
theorem BoundText.strip_space_cons {s : List Char} (h : BoundText s) : Py.strip (' ' :: s) = s := by
  have h1 : Py.lstrip (' ' :: s) = s := by
    have : isSpace ' ' = true := by decide
    simp [Py.lstrip, this, h.lstrip]
  have := h.strip
  simp only [Py.strip, h1]
  simpa [Py.strip, h.lstrip] using this

theorem none_not_digitStr : isDigitStr "None".toList = false := by decide

theorem none_not_digitStr' : isDigitStr ['N', 'o', 'n', 'e'] = false := by decide

theorem digits_ne_none (n : Nat) : (natToDigits n == "None".toList) = false := by
  have h := natToDigits_all_digit n
  rcases Decidable.em (natToDigits n = "None".toList) with e | e
  · rw [e] at h; exact absurd h (by decide)
  · simpa using e

/-- The text between the parentheses splits into exactly the two bound texts. -/
theorem split_inner {ra rb : List Char} (ha : BoundText ra) (hb : BoundText rb) :
    splitOn ',' (ra ++ [',', ' '] ++ rb) = [ra, ' ' :: rb] := by
  have : ra ++ [',', ' '] ++ rb = ra ++ ',' :: (' ' :: rb) := by simp
  rw [this, splitOn_append_sep _ _ _ ha.no_comma]
  have hs : ∀ c ∈ ' ' :: rb, (c == ',') = false := by
    intro c hc
    rcases List.mem_cons.mp hc with rfl | hc
    · decide
    · exact hb.no_comma c hc
  rw [splitOn_no_sep _ _ hs]

/-- `strip()[1:-1]` of the rendered text is the inner text. -/
theorem strip_slice_render (ra rb : List Char) :
    slice1m1 (Py.strip (['('] ++ ra ++ [',', ' '] ++ rb ++ [')'])) = ra ++ [',', ' '] ++ rb := by
  have hl : Py.lstrip (['('] ++ ra ++ [',', ' '] ++ rb ++ [')']) =
      '(' :: (ra ++ [',', ' '] ++ rb ++ [')']) := by
    have : isSpace '(' = false := by decide
    simp [Py.lstrip, this]
  have hr : Py.lstrip ((ra ++ [',', ' '] ++ rb ++ [')']).reverse ++ ['(']) =
      (ra ++ [',', ' '] ++ rb ++ [')']).reverse ++ ['('] := by
    have : isSpace ')' = false := by decide
    simp [Py.lstrip, this]
  simp only [Py.strip, Py.rstrip, hl, List.reverse_cons, hr]
  have : ((ra ++ [',', ' '] ++ rb ++ [')']).reverse ++ ['(']).reverse =
      '(' :: ((ra ++ [',', ' '] ++ rb) ++ [')']) := by simp
  rw [this]
  simp only [slice1m1, List.drop_succ_cons, List.drop_zero, List.dropLast_concat]

/-- A non-negative `int` is falsy exactly when it is 0 (`bool ⊂ int`). -/
theorem nonneg_truthy {a : In} {x : Int} (h : nonnegInt a = some x) :
    0 ≤ x ∧ a.truthy = (x != 0) := by
  unfold nonnegInt at h
  cases a <;> simp [In.asInt] at h
  · rename_i b; cases b <;> simp_all [In.truthy] <;> subst h <;> simp
  · rename_i i; obtain ⟨h1, rfl⟩ := h; simp [In.truthy, h1]

/-! ### The stored objects (`Model/CardObj.lean`) -/

theorem nonneg_asInt {a : In} {x : Int} (h : nonnegInt a = some x) : a.asInt = some x := by
  unfold nonnegInt at h
  cases ha : a.asInt with
  | none => simp [ha] at h
  | some i =>
    simp only [ha] at h
    split at h
    · simpa using h
    · cases h

theorem pyInt_keepsValue : KeepsValue pyInt := by
  intro v i h; simp [pyInt, h, PyBound.val]

theorem asGiven_keepsValue : KeepsValue asGiven := by
  intro v i h
  cases v <;> simp [In.asInt] at h <;> simp [asGiven, PyBound.val, h]

theorem pyInt_exact (v : In) : (pyInt v).exact = true := by
  unfold pyInt; split <;> rfl

theorem unboolAtom_truthy (a : In) : a.unboolAtom.truthy = a.truthy := by
  cases a <;> simp [In.unboolAtom, In.truthy]
  rename_i b; cases b <;> simp

theorem unboolAtom_asInt (a : In) : a.unboolAtom.asInt = a.asInt := by
  cases a <;> simp [In.unboolAtom, In.asInt]

theorem unboolAtom_nonneg (a : In) : nonnegInt a.unboolAtom = nonnegInt a := by
  simp [nonnegInt, unboolAtom_asInt]

theorem unboolAtom_pyInt (a : In) : pyInt a.unboolAtom = pyInt a := by
  simp [pyInt, unboolAtom_asInt]


theorem formatCardObj_pair (conv : In → PyBound) (t : Bool) (a b : In) :
    formatCardObj conv (.seq t [a, b]) =
      if !a.truthy && !b.truthy then .ok none
      else
        match nonnegInt a, nonnegInt b with
        | some x, some y =>
          if y ≥ x then .ok (some (conv a, conv b))
          else if !a.truthy then .ok (some (.nul, conv b))
          else if !b.truthy then .ok (some (conv a, .nul))
          else .valueError
        | none, some _ => if !a.truthy then .ok (some (.nul, conv b)) else .valueError
        | some _, none => if !b.truthy then .ok (some (conv a, .nul)) else .valueError
        | none, none => .valueError := by
  have ht : (In.seq t [a, b]).truthy = true := rfl
  unfold formatCardObj
  simp only [ht, Bool.not_true, Bool.false_eq_true, ↓reduceIte]
  rfl

theorem formatCardObj_other (conv : In → PyBound) (v : In) (h : ∀ t a b, v ≠ .seq t [a, b]) :
    formatCardObj conv v =
      if !v.truthy then .ok none
      else match v.asInt with
        | some i => if i > 0 then .ok (some (.nul, conv v)) else .valueError
        | none => .valueError := by
  unfold formatCardObj
  split
  · rfl
  · split
    · exact absurd rfl (h _ _ _)
    · rfl

theorem formatCard_pair (t : Bool) (a b : In) :
    formatCard (.seq t [a, b]) =
      if !a.truthy && !b.truthy then .ok none
      else
        match nonnegInt a, nonnegInt b with
        | some x, some y =>
          if y ≥ x then .ok (some (some x, some y))
          else if !a.truthy then .ok (some (none, some y))
          else if !b.truthy then .ok (some (some x, none))
          else .valueError
        | none, some y => if !a.truthy then .ok (some (none, some y)) else .valueError
        | some x, none => if !b.truthy then .ok (some (some x, none)) else .valueError
        | none, none => .valueError := by
  have ht : (In.seq t [a, b]).truthy = true := rfl
  unfold formatCard
  simp only [ht, Bool.not_true, Bool.false_eq_true, ↓reduceIte]
  rfl

theorem formatCard_other (v : In) (h : ∀ t a b, v ≠ .seq t [a, b]) :
    formatCard v =
      if !v.truthy then .ok none
      else match v.asInt with
        | some i => if i > 0 then .ok (some (none, some i)) else .valueError
        | none => .valueError := by
  unfold formatCard
  split
  · rfl
  · split
    · exact absurd rfl (h _ _ _)
    · rfl

theorem exact_render {a : PyBound} (h : a.exact = true) : renderPyBound a = renderBound a.val := by
  cases a <;> simp [PyBound.exact] at h <;> rfl

theorem exact_din {a : PyBound} (h : a.exact = true) : dinOfPyBound a = dinOfBound a.val := by
  cases a <;> simp [PyBound.exact] at h <;> rfl

theorem fmt_obj_exact (v : In) (a b : PyBound) (h : formatCardObj pyInt v = .ok (some (a, b))) :
    a.exact = true ∧ b.exact = true := by
  have hn : PyBound.nul.exact = true := rfl
  by_cases hs : ∃ t x y, v = .seq t [x, y]
  · obtain ⟨t, x, y, rfl⟩ := hs
    rw [formatCardObj_pair] at h
    split at h
    · cases h
    · split at h <;> (repeat' split at h) <;> simp at h <;>
        (obtain ⟨rfl, rfl⟩ := h; simp [pyInt_exact, hn])
  · have hs' : ∀ t x y, v ≠ .seq t [x, y] := fun t x y h => hs ⟨t, x, y, h⟩
    rw [formatCardObj_other pyInt v hs'] at h
    (repeat' split at h) <;> simp at h <;> (obtain ⟨rfl, rfl⟩ := h; simp [pyInt_exact, hn])

theorem fmt_obj_unbool (v : In) : formatCardObj pyInt v.unbool = formatCardObj pyInt v := by
  cases v with
  | seq t xs =>
    match xs with
    | [] => rfl
    | [a] => simp [In.unbool, formatCardObj, In.truthy, In.asInt]
    | [a, b] =>
      simp only [In.unbool, List.map_cons, List.map_nil]
      rw [formatCardObj_pair, formatCardObj_pair]
      simp only [unboolAtom_truthy, unboolAtom_nonneg, unboolAtom_pyInt]
    | a :: b :: c :: r => simp [In.unbool, formatCardObj, In.truthy, In.asInt]
  | bool b => cases b <;> decide
  | nul => rfl
  | int i => rfl
  | float z => rfl
  | str s => rfl
  | other t => rfl

end Card
