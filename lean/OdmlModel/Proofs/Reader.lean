/-
Helper lemmas for C16 (`Props/C16.lean`).

`Conv m r` — "every way `r` ends other than with a value is a ParserException, and only in strict
mode" — is the invariant carried through the reader: it gives totality (no `.leak`) and
"lenient never raises" at once.
-/
import OdmlModel.Model.Reader

set_option linter.unusedSimpArgs false

namespace Reader

/-- A computation of the reader only ends with ParserException, and only in strict mode. -/
def Conv (m : Mode) (r : Except Err α) : Prop :=
  ∀ e, r = .error e → e = .parserException ∧ m = .strict

theorem Conv.pure (m : Mode) (a : α) : Conv m (Pure.pure a : Except Err α) := by
  intro e h; cases h

theorem Conv.ok (m : Mode) (a : α) : Conv m (Except.ok a : Except Err α) := by
  intro e h; cases h

theorem Conv.bind {m : Mode} {x : Except Err α} {f : α → Except Err β}
    (hx : Conv m x) (hf : ∀ a, x = .ok a → Conv m (f a)) : Conv m (x >>= f) := by
  intro e h
  cases x with
  | error e' =>
    have h' : (Except.error e' : Except Err β) = .error e := h
    cases h'
    exact hx _ rfl
  | ok a =>
    have h' : f a = .error e := h
    exact hf a rfl e h'

theorem Conv.raiseOrWarn (m : Mode) (w : Nat) : Conv m (raiseOrWarn m w) := by
  intro e h
  cases m <;> simp [Reader.raiseOrWarn] at h
  exact ⟨h.symm, rfl⟩

/-- In lenient mode a `Conv` computation yields a value. -/
theorem Conv.lenient_ok {r : Except Err α} (h : Conv .lenient r) : ∃ a, r = .ok a := by
  cases r with
  | ok a => exact ⟨a, rfl⟩
  | error e => exact absurd (h e rfl).2 (by decide)

theorem Conv.no_leak {m : Mode} {r : Except Err α} (h : Conv m r) (c : Leak) : r ≠ .error (.leak c) := by
  intro he
  have := (h _ he).1
  cases this

/-! ### XML reader, fixed guards -/

theorem attrLoop_conv (m : Mode) (tag : Str) (attrs : List (Str × Str)) (w : Nat) :
    Conv m (attrLoop m tag attrs w) := by
  induction attrs generalizing w with
  | nil => exact Conv.pure _ _
  | cons p rest ih =>
    obtain ⟨k, v⟩ := p
    unfold attrLoop
    split
    · exact ih w
    · exact Conv.bind (Conv.raiseOrWarn m w) (fun a _ => ih a)

theorem checkMandatory_conv (m : Mode) (kind : Kind) (present : List Str) (tbl : List (String × Nat))
    (w : Nat) : Conv m (checkMandatory m kind present tbl w) := by
  induction tbl generalizing w with
  | nil => exact Conv.pure _ _
  | cons p rest ih =>
    obtain ⟨k, req⟩ := p
    unfold checkMandatory
    refine Conv.bind ?_ (fun a _ => ih a)
    split
    · exact Conv.raiseOrWarn m w
    · exact Conv.pure _ _

theorem insertChildren_conv (g : Guards) (hg : g.guardAppend = true) (m : Mode) (obj : Obj Str)
    (cs : List (Obj Str)) (w : Nat) : Conv m (insertChildren g m obj cs w) := by
  induction cs generalizing obj w with
  | nil => exact Conv.pure _ _
  | cons c cs ih =>
    unfold insertChildren
    split
    · exact ih _ w
    · simp only [hg, if_true]
      exact Conv.bind (Conv.raiseOrWarn m w) (fun a _ => ih obj a)

theorem finishTag_conv (g : Guards) (hg : g.guardAppend = true) (env : Env) (m : Mode) (kind : Kind)
    (insert : Bool) (st : Loop) : Conv m (finishTag g env m kind insert st) := by
  unfold finishTag
  refine Conv.bind (checkMandatory_conv _ _ _ _ _) (fun w1 _ => ?_)
  refine Conv.bind ?_ (fun p _ => ?_)
  · split
    · exact Conv.bind (Conv.raiseOrWarn m w1) (fun _ _ => Conv.pure _ _)
    · exact Conv.pure _ _
  · split
    · exact insertChildren_conv g hg m _ _ _
    · exact Conv.pure _ _

theorem argStep_conv (g : Guards) (hcsv : g.guardCsv = true) (hdec : g.decimalCard = true)
    (env : Env) (m : Mode) (kind : Kind) (t : Str) (text : Option Str) (st : Loop) :
    Conv m (argStep g env m kind t text st) := by
  unfold argStep
  simp only [hcsv, hdec, if_true, Bool.not_true, Bool.false_and]
  split
  · split
    · exact Conv.bind (Conv.raiseOrWarn m _) (fun _ _ => Conv.pure _ _)
    · exact Conv.pure _ _
  · split
    · split
      · rename_i h; cases h
      · exact Conv.pure _ _
    · exact Conv.pure _ _

/-- The guards the XML tree reader needs. -/
def Guards.XmlOk (g : Guards) : Prop :=
  g.skipNonElem = true ∧ g.guardAppend = true ∧ g.guardCsv = true ∧ g.decimalCard = true

theorem Guards.fixed_xmlOk : Guards.fixed.XmlOk := ⟨rfl, rfl, rfl, rfl⟩

theorem parse_conv (g : Guards) (hg : g.XmlOk) (env : Env) (m : Mode) :
    (∀ (x : Xml) (kind : Kind) (insert : Bool) (tag : Str) (w : Nat),
      (∃ t a tx ks, x = .elem t a tx ks) → Conv m (parseTag g env m kind insert tag x w)) ∧
    (∀ (ks : List Xml) (kind : Kind) (st : Loop), Conv m (parseKids g env m kind ks st)) := by
  obtain ⟨h1, h2, h3, h4⟩ := hg
  have key : ∀ x : Xml,
      (∀ (kind : Kind) (insert : Bool) (tag : Str) (w : Nat),
        (∃ t a tx ks, x = .elem t a tx ks) → Conv m (parseTag g env m kind insert tag x w)) := by
    intro x
    induction x using Xml.rec
      (motive_2 := fun ks => ∀ (kind : Kind) (st : Loop), Conv m (parseKids g env m kind ks st)) with
    | elem t a tx ks ih =>
      intro kind insert tag w _
      unfold parseTag
      refine Conv.bind (attrLoop_conv _ _ _ _) (fun w0 _ => ?_)
      refine Conv.bind (ih kind _) (fun st _ => ?_)
      exact finishTag_conv g h2 env m kind insert st
    | other k =>
      intro kind insert tag w ⟨t, a, tx, ks, h⟩
      cases h
    | nil =>
      unfold parseKids
      exact Conv.pure _ _
    | cons x rest ihx ihr =>
      cases x with
      | other k =>
        unfold parseKids
        simp only [h1, if_true]
        exact ihr _ _
      | elem t0 attrs text kids =>
        unfold parseKids
        simp only
        split
        · split
          · refine Conv.bind (ihx _ _ _ _ ⟨_, _, _, _, rfl⟩) (fun p _ => ?_)
            exact ihr _ _
          · refine Conv.bind (argStep_conv g h3 h4 env m _ _ _ _) (fun st' _ => ?_)
            exact ihr _ st'
        · refine Conv.bind (Conv.raiseOrWarn m _) (fun w1 _ => ?_)
          refine Conv.bind (Conv.raiseOrWarn m _) (fun w2 _ => ?_)
          exact ihr _ _
  refine ⟨fun x => key x, ?_⟩
  intro ks
  induction ks with
  | nil => intro kind st; unfold parseKids; exact Conv.pure _ _
  | cons x rest ihr =>
    intro kind st
    cases x with
    | other k =>
      unfold parseKids
      simp only [h1, if_true]
      exact ihr kind st
    | elem t0 attrs text kids =>
      unfold parseKids
      simp only
      split
      · split
        · refine Conv.bind (key _ _ _ _ _ ⟨_, _, _, _, rfl⟩) (fun p _ => ?_)
          exact ihr kind _
        · refine Conv.bind (argStep_conv g h3 h4 env m kind _ _ _) (fun st' _ => ?_)
          exact ihr kind st'
      · refine Conv.bind (Conv.raiseOrWarn m _) (fun w1 _ => ?_)
        refine Conv.bind (Conv.raiseOrWarn m _) (fun w2 _ => ?_)
        exact ihr kind _

end Reader

namespace Reader

/-! ### Dictionary reader, fixed guards -/

theorem validAttr_str_conv (m : Mode) (kind : Kind) (k : Str) (w : Nat) :
    Conv m (validAttr m kind (.str k) w) := by
  simp only [validAttr]
  split
  · exact Conv.pure _ _
  · exact Conv.bind (Conv.raiseOrWarn m w) (fun _ _ => Conv.pure _ _)

theorem propPairs_conv (m : Mode) (kvs : List (Str × J)) (a : DArgs) (w : Nat) :
    Conv m (propPairs m kvs a w) := by
  induction kvs generalizing a w with
  | nil => exact Conv.pure _ _
  | cons p rest ih =>
    obtain ⟨k, v⟩ := p
    unfold propPairs
    refine Conv.bind (validAttr_str_conv _ _ _ _) (fun q _ => ?_)
    obtain ⟨attr, w'⟩ := q
    cases attr with
    | none => exact ih _ _
    | some key => exact ih _ _

theorem parseProp_conv (g : Guards) (hs : g.shapeChecks = true) (env : DEnv) (m : Mode) (entry : J)
    (acc : List (Obj J)) (w : Nat) : Conv m (parseProp g env m entry acc w) := by
  unfold parseProp
  cases entry with
  | obj kvs =>
    simp only [hs, J.isDict, Bool.not_true, Bool.and_false]
    refine Conv.bind (propPairs_conv _ _ _ _) (fun q _ => ?_)
    obtain ⟨attrs, w1⟩ := q
    simp only
    split
    · exact Conv.bind (Conv.raiseOrWarn m w1) (fun _ _ => Conv.pure _ _)
    · exact Conv.pure _ _
  | _ =>
    simp only [hs, J.isDict, Bool.not_false, Bool.and_true, if_true]
    exact Conv.bind (Conv.raiseOrWarn m w) (fun _ _ => Conv.pure _ _)

theorem parsePropList_conv (g : Guards) (hs : g.shapeChecks = true) (env : DEnv) (m : Mode)
    (l : List J) (acc : List (Obj J)) (w : Nat) : Conv m (parsePropList g env m l acc w) := by
  induction l generalizing acc w with
  | nil => exact Conv.pure _ _
  | cons e rest ih =>
    unfold parsePropList
    refine Conv.bind (parseProp_conv g hs env m e acc w) (fun q _ => ?_)
    exact ih _ _

theorem parseProps_conv (g : Guards) (hs : g.shapeChecks = true) (env : DEnv) (m : Mode) (pl : J)
    (w : Nat) : Conv m (parseProps g env m pl w) := by
  unfold parseProps
  cases pl with
  | arr xs =>
    simp only [hs, J.isList, Bool.not_true, Bool.and_false]
    exact Conv.bind (by intro e h; cases h) (fun items _ => parsePropList_conv g hs env m items [] w)
  | _ =>
    simp only [hs, J.isList, Bool.not_false, Bool.and_true, if_true]
    exact Conv.bind (Conv.raiseOrWarn m w) (fun _ _ => Conv.pure _ _)

theorem insertEach_conv (m : Mode) (obj : Obj J) (cs : List (Obj J)) (w : Nat) :
    Conv m (insertEach m obj cs w) := by
  induction cs generalizing obj w with
  | nil => exact Conv.pure _ _
  | cons c cs ih =>
    unfold insertEach
    split
    · exact ih _ w
    · exact Conv.bind (Conv.raiseOrWarn m w) (fun a _ => ih obj a)

theorem finishSec_conv (g : Guards) (hp : g.perChildAppend = true) (env : DEnv) (m : Mode)
    (attrs : DArgs) (props secs acc : List (Obj J)) (w : Nat) :
    Conv m (finishSec g env m attrs props secs acc w) := by
  unfold finishSec
  split
  · exact Conv.bind (Conv.raiseOrWarn m w) (fun _ _ => Conv.pure _ _)
  · simp only [hp, if_true]
    exact Conv.bind (insertEach_conv m _ _ w) (fun _ _ => Conv.pure _ _)

/-- The guards the dictionary reader needs. -/
def Guards.DictOk (g : Guards) : Prop :=
  g.rootIsDict = true ∧ g.guardDocCreate = true ∧ g.guardDocAppend = true ∧
  g.shapeChecks = true ∧ g.perChildAppend = true

theorem Guards.fixed_dictOk : Guards.fixed.DictOk := ⟨rfl, rfl, rfl, rfl, rfl⟩

theorem secPairs_step_conv (g : Guards) (hs : g.shapeChecks = true) (env : DEnv) (m : Mode)
    (k : Str) (v : J) (rest : List (Str × J))
    (hv : ∀ w, Conv m (parseSections g env m v w))
    (hr : ∀ st, Conv m (secPairs g env m rest st)) (st : SecLoop) :
    Conv m (secPairs g env m ((k, v) :: rest) st) := by
  unfold secPairs
  refine Conv.bind (validAttr_str_conv _ _ _ _) (fun q _ => ?_)
  obtain ⟨attr, w'⟩ := q
  cases attr with
  | none => exact hr _
  | some key =>
    simp only
    split
    · exact Conv.bind (parseProps_conv g hs env m v w') (fun _ _ => hr _)
    · split
      · exact Conv.bind (hv w') (fun _ _ => hr _)
      · exact hr _

theorem parseSecList_step_conv (g : Guards) (hs : g.shapeChecks = true) (hp : g.perChildAppend = true)
    (env : DEnv) (m : Mode) (x : J) (rest : List J)
    (hx : ∀ kvs, x = .obj kvs → ∀ st, Conv m (secPairs g env m kvs st))
    (hr : ∀ acc w, Conv m (parseSecList g env m rest acc w)) (acc : List (Obj J)) (w : Nat) :
    Conv m (parseSecList g env m (x :: rest) acc w) := by
  cases x with
  | obj kvs =>
    unfold parseSecList
    refine Conv.bind (hx kvs rfl _) (fun st _ => ?_)
    refine Conv.bind (finishSec_conv g hp env m _ _ _ _ _) (fun q _ => ?_)
    exact hr _ _
  | null => unfold parseSecList; simp only [hs, if_true]
            exact Conv.bind (Conv.raiseOrWarn m w) (fun _ _ => hr _ _)
  | bool b => unfold parseSecList; simp only [hs, if_true]
              exact Conv.bind (Conv.raiseOrWarn m w) (fun _ _ => hr _ _)
  | num i => unfold parseSecList; simp only [hs, if_true]
             exact Conv.bind (Conv.raiseOrWarn m w) (fun _ _ => hr _ _)
  | flt r => unfold parseSecList; simp only [hs, if_true]
             exact Conv.bind (Conv.raiseOrWarn m w) (fun _ _ => hr _ _)
  | str s => unfold parseSecList; simp only [hs, if_true]
             exact Conv.bind (Conv.raiseOrWarn m w) (fun _ _ => hr _ _)
  | arr ys => unfold parseSecList; simp only [hs, if_true]
              exact Conv.bind (Conv.raiseOrWarn m w) (fun _ _ => hr _ _)

theorem parseSections_nonarr_conv (g : Guards) (hs : g.shapeChecks = true) (env : DEnv) (m : Mode)
    (v : J) (hv : ∀ xs, v ≠ .arr xs) (w : Nat) : Conv m (parseSections g env m v w) := by
  cases v with
  | arr xs => exact absurd rfl (hv xs)
  | null => unfold parseSections; simp only [hs, if_true]
            exact Conv.bind (Conv.raiseOrWarn m w) (fun _ _ => Conv.pure _ _)
  | bool b => unfold parseSections; simp only [hs, if_true]
              exact Conv.bind (Conv.raiseOrWarn m w) (fun _ _ => Conv.pure _ _)
  | num i => unfold parseSections; simp only [hs, if_true]
             exact Conv.bind (Conv.raiseOrWarn m w) (fun _ _ => Conv.pure _ _)
  | flt r => unfold parseSections; simp only [hs, if_true]
             exact Conv.bind (Conv.raiseOrWarn m w) (fun _ _ => Conv.pure _ _)
  | str s => unfold parseSections; simp only [hs, if_true]
             exact Conv.bind (Conv.raiseOrWarn m w) (fun _ _ => Conv.pure _ _)
  | obj kvs => unfold parseSections; simp only [hs, if_true]
               exact Conv.bind (Conv.raiseOrWarn m w) (fun _ _ => Conv.pure _ _)

/-- The two facts carried through the induction over a JSON-like value. -/
def SecConv (g : Guards) (env : DEnv) (m : Mode) (v : J) : Prop :=
  (∀ w, Conv m (parseSections g env m v w)) ∧
  (∀ kvs, v = .obj kvs → ∀ st, Conv m (secPairs g env m kvs st))

theorem secConv_all (g : Guards) (hg : g.DictOk) (env : DEnv) (m : Mode) (v : J) : SecConv g env m v := by
  obtain ⟨_, _, _, hs, hp⟩ := hg
  refine J.rec (motive_1 := fun v => SecConv g env m v)
    (motive_2 := fun xs => ∀ acc w, Conv m (parseSecList g env m xs acc w))
    (motive_3 := fun kvs => ∀ st, Conv m (secPairs g env m kvs st))
    (motive_4 := fun p => SecConv g env m p.2)
    ?_ ?_ ?_ ?_ ?_ ?_ ?_ ?_ ?_ ?_ ?_ ?_ v
  · exact ⟨parseSections_nonarr_conv g hs env m _ (by intro xs h; cases h), by intro kvs h; cases h⟩
  · intro b
    exact ⟨parseSections_nonarr_conv g hs env m _ (by intro xs h; cases h), by intro kvs h; cases h⟩
  · intro i
    exact ⟨parseSections_nonarr_conv g hs env m _ (by intro xs h; cases h), by intro kvs h; cases h⟩
  · intro r
    exact ⟨parseSections_nonarr_conv g hs env m _ (by intro xs h; cases h), by intro kvs h; cases h⟩
  · intro s
    exact ⟨parseSections_nonarr_conv g hs env m _ (by intro xs h; cases h), by intro kvs h; cases h⟩
  · intro xs ih
    refine ⟨?_, by intro kvs h; cases h⟩
    intro w
    unfold parseSections
    exact ih [] w
  · intro kvs ih
    refine ⟨parseSections_nonarr_conv g hs env m _ (by intro xs h; cases h), ?_⟩
    intro kvs' h st
    cases h
    exact ih st
  · intro acc w
    unfold parseSecList
    exact Conv.pure _ _
  · intro x rest ihx ihr acc w
    exact parseSecList_step_conv g hs hp env m x rest ihx.2 ihr acc w
  · intro st
    unfold secPairs
    exact Conv.pure _ _
  · intro p rest ihp ihr st
    obtain ⟨k, v⟩ := p
    exact secPairs_step_conv g hs env m k v rest ihp.1 ihr st
  · intro k v ih
    exact ih

theorem parseSections_conv (g : Guards) (hg : g.DictOk) (env : DEnv) (m : Mode) (v : J) (w : Nat) :
    Conv m (parseSections g env m v w) := (secConv_all g hg env m v).1 w

theorem docPairs_conv (g : Guards) (hg : g.DictOk) (env : DEnv) (m : Mode) (kvs : List (Str × J))
    (st : DocLoop) : Conv m (docPairs g env m kvs st) := by
  induction kvs generalizing st with
  | nil => unfold docPairs; exact Conv.pure _ _
  | cons p rest ih =>
    obtain ⟨k, v⟩ := p
    unfold docPairs
    refine Conv.bind (validAttr_str_conv _ _ _ _) (fun q _ => ?_)
    obtain ⟨attr, w'⟩ := q
    cases attr with
    | none => exact ih _
    | some key =>
      simp only
      split
      · exact Conv.bind (parseSections_conv g hg env m v w') (fun _ _ => ih _)
      · exact ih _

theorem insertDocSecs_conv (g : Guards) (hg : g.guardDocAppend = true) (m : Mode) (doc : Obj J)
    (cs : List (Obj J)) (w : Nat) : Conv m (insertDocSecs g m doc cs w) := by
  induction cs generalizing doc w with
  | nil => exact Conv.pure _ _
  | cons c cs ih =>
    unfold insertDocSecs
    split
    · exact ih _ w
    · simp only [hg, if_true]
      exact Conv.bind (Conv.raiseOrWarn m w) (fun a _ => ih doc a)

theorem readDoc_conv (g : Guards) (hg : g.DictOk) (env : DEnv) (m : Mode) (kvs : List (Str × J)) :
    Conv m (readDoc g env m (.obj kvs)) := by
  have hg' := hg
  obtain ⟨_, hc, ha, _, _⟩ := hg'
  unfold readDoc
  refine Conv.bind (docPairs_conv g hg env m kvs _) (fun st _ => ?_)
  refine Conv.bind ?_ (fun p _ => insertDocSecs_conv g ha m _ _ _)
  simp only [hc, if_true]
  split
  · exact Conv.bind (Conv.raiseOrWarn m _) (fun _ _ => Conv.pure _ _)
  · exact Conv.pure _ _

theorem lookupKey_of_any (key : Str) (kvs : List (Str × J)) (h : kvs.any (fun p => p.1 == key) = true) :
    ∃ v, lookupKey key kvs = some v := by
  induction kvs with
  | nil => simp at h
  | cons p rest ih =>
    unfold lookupKey
    by_cases hp : (p.1 == key) = true
    · exact ⟨p.2, by simp [List.find?, hp]⟩
    · have hr : rest.any (fun p => p.1 == key) = true := by
        simp only [List.any_cons, Bool.or_eq_true] at h
        cases h with
        | inl h => exact absurd h hp
        | inr h => exact h
      obtain ⟨v, hv⟩ := ih hr
      refine ⟨v, ?_⟩
      unfold lookupKey at hv
      simp only [List.find?, hp]
      exact hv

theorem lookupKey_any (key : Str) (kvs : List (Str × J)) (v : J) (h : lookupKey key kvs = some v) :
    kvs.any (fun p => p.1 == key) = true := by
  unfold lookupKey at h
  cases hf : kvs.find? (fun p => p.1 == key) with
  | none => rw [hf] at h; cases h
  | some p =>
    have := List.find?_some hf
    have hm := List.mem_of_find?_eq_some hf
    exact List.any_eq_true.mpr ⟨p, hm, this⟩

/-- With the root checks, the verdict of `to_odml` is never a leak and an accepted `Document`
    entry is a dictionary. -/
theorem dictVerdict_fixed (g : Guards) (hr : g.rootIsDict = true) (x : J) :
    (∀ l, dictVerdict g x ≠ .leak l) ∧ (∀ d, dictVerdict g x = .ok d → ∃ kvs, d = .obj kvs) := by
  unfold dictVerdict
  generalize "Document".toList = kd
  generalize "odml-version".toList = kv
  generalize Gen.Format.formatVersion.toList = ver
  cases x with
  | obj top =>
    simp only [hr, J.isDict, Bool.not_true, Bool.and_false, pyInStr, pyGet, pyGetItem]
    cases h1 : top.any (fun p => p.1 == kd) with
    | false => simp
    | true =>
      cases h2 : top.any (fun p => p.1 == kv) with
      | false => simp
      | true =>
        obtain ⟨dv, hdv⟩ := lookupKey_of_any kd top h1
        by_cases hb : (!J.beq ((lookupKey kv top).getD J.null) (J.str ver)) = true
        · simp [hb]
        · cases dv with
          | obj kvs => simp [hb, hdv, J.isDict]
          | _ => simp [hb, hdv, J.isDict]
  | _ => simp [hr, J.isDict]

end Reader

namespace Reader

/-! ### What insertion keeps, and that it keeps sibling names unique -/

/-- Python `==` on two object names; a fresh uuid equals nothing. -/
def nameClash (eq : ν → ν → Bool) (a b : Name ν) : Bool :=
  match a, b with
  | .given x, .given y => eq x y
  | _, _ => false

theorem clash_eq_any (eq : ν → ν → Bool) (n : Name ν) (l : List (Obj ν)) :
    clash eq n l = l.any (fun o => nameClash eq o.name n) := by
  cases n with
  | fresh =>
    simp only [clash]
    induction l with
    | nil => rfl
    | cons o rest ih =>
      simp only [List.any_cons, ← ih]
      cases o.name <;> simp [nameClash]
  | given a =>
    simp only [clash]
    congr 1
    funext o
    cases o.name <;> simp [nameClash]

/-- No two objects of the list have clashing names. -/
def Uniq (eq : ν → ν → Bool) (l : List (Obj ν)) : Prop :=
  l.Pairwise (fun a b => nameClash eq a.name b.name = false)

theorem Uniq.snoc {eq : ν → ν → Bool} {l : List (Obj ν)} {c : Obj ν} (h : Uniq eq l)
    (hc : clash eq c.name l = false) : Uniq eq (l ++ [c]) := by
  unfold Uniq
  rw [List.pairwise_append]
  refine ⟨h, List.pairwise_singleton _ _, ?_⟩
  intro a ha b hb
  simp only [List.mem_singleton] at hb
  subst hb
  rw [clash_eq_any] at hc
  have := List.any_eq_false.mp hc a ha
  simpa using this

/-- Both child lists of the object have unique names. -/
def UniqKids (eq : ν → ν → Bool) (o : Obj ν) : Prop := Uniq eq o.props ∧ Uniq eq o.secs

theorem appendObj_uniq {eq : ν → ν → Bool} {p c o : Obj ν} (hp : UniqKids eq p)
    (h : appendObj eq p c = .ok o) : UniqKids eq o := by
  obtain ⟨h1, h2⟩ := hp
  unfold appendObj at h
  cases hs : slotOf p.kind c.kind with
  | none => rw [hs] at h; cases h
  | some b =>
    rw [hs] at h
    cases b with
    | true =>
      by_cases hc : clash eq c.name p.secs = true
      · simp [hc] at h
      · simp only [hc] at h
        cases h
        exact ⟨h1, Uniq.snoc h2 (by simpa using hc)⟩
    | false =>
      by_cases hc : clash eq c.name p.props = true
      · simp [hc] at h
      · simp only [hc] at h
        cases h
        exact ⟨Uniq.snoc h1 (by simpa using hc), h2⟩

/-- `append` only adds: earlier children stay. -/
theorem appendObj_mono {eq : ν → ν → Bool} {p c o : Obj ν} (h : appendObj eq p c = .ok o) :
    (∀ x ∈ p.props, x ∈ o.props) ∧ (∀ x ∈ p.secs, x ∈ o.secs) ∧ (c ∈ o.props ∨ c ∈ o.secs) ∧
    o.kind = p.kind := by
  unfold appendObj at h
  cases hs : slotOf p.kind c.kind with
  | none => rw [hs] at h; cases h
  | some b =>
    rw [hs] at h
    cases b with
    | true =>
      by_cases hc : clash eq c.name p.secs = true
      · simp [hc] at h
      · simp only [hc] at h
        cases h
        simp [Obj.props, Obj.secs, Obj.kind]
        try (intro x hx; exact Or.inl hx)
    | false =>
      by_cases hc : clash eq c.name p.props = true
      · simp [hc] at h
      · simp only [hc] at h
        cases h
        simp [Obj.props, Obj.secs, Obj.kind]
        try (intro x hx; exact Or.inl hx)

/-- A refused child: a kept sibling of its sort carries its name, or the parent cannot hold
    children of that sort. -/
def Refused (eq : ν → ν → Bool) (o c : Obj ν) : Prop :=
  clash eq c.name o.secs = true ∨ clash eq c.name o.props = true ∨ slotOf o.kind c.kind = none

theorem appendObj_error {eq : ν → ν → Bool} {p c : Obj ν} {l : Leak} (h : appendObj eq p c = .error l) :
    Refused eq p c := by
  unfold appendObj at h
  cases hs : slotOf p.kind c.kind with
  | none => exact Or.inr (Or.inr hs)
  | some b =>
    rw [hs] at h
    cases b with
    | true =>
      by_cases hc : clash eq c.name p.secs = true
      · exact Or.inl hc
      · simp [hc] at h
    | false =>
      by_cases hc : clash eq c.name p.props = true
      · exact Or.inr (Or.inl hc)
      · simp [hc] at h

theorem clash_mono {eq : ν → ν → Bool} {n : Name ν} {l l' : List (Obj ν)} (hs : ∀ x ∈ l, x ∈ l')
    (h : clash eq n l = true) : clash eq n l' = true := by
  rw [clash_eq_any] at *
  obtain ⟨x, hx, hc⟩ := List.any_eq_true.mp h
  exact List.any_eq_true.mpr ⟨x, hs x hx, hc⟩

theorem Refused.mono {eq : ν → ν → Bool} {o o' c : Obj ν}
    (hp : ∀ x ∈ o.props, x ∈ o'.props) (hs : ∀ x ∈ o.secs, x ∈ o'.secs) (hk : o'.kind = o.kind)
    (h : Refused eq o c) : Refused eq o' c := by
  rcases h with h | h | h
  · exact Or.inl (clash_mono hs h)
  · exact Or.inr (Or.inl (clash_mono hp h))
  · exact Or.inr (Or.inr (by rw [hk]; exact h))

/-- Generic statement about an insertion loop `ins` that appends what `appendObj` accepts and
    goes on after a refusal: unique names are preserved, earlier children stay, and every child
    is kept or refused (in the sense above) by the final object. -/
theorem insertChildren_spec (g : Guards) (m : Mode) (obj : Obj Str) (cs : List (Obj Str)) (w : Nat)
    (o : Obj Str) (w' : Nat) (h : insertChildren g m obj cs w = .ok (o, w')) (hu : UniqKids (· == ·) obj) :
    UniqKids (· == ·) o ∧ (∀ x ∈ obj.props, x ∈ o.props) ∧ (∀ x ∈ obj.secs, x ∈ o.secs) ∧
    o.kind = obj.kind ∧
    (∀ c ∈ cs, c ∈ o.props ∨ c ∈ o.secs ∨ Refused (· == ·) o c) := by
  induction cs generalizing obj w with
  | nil =>
    unfold insertChildren at h
    cases h
    exact ⟨hu, fun _ hx => hx, fun _ hx => hx, rfl, by intro c hc; cases hc⟩
  | cons c cs ih =>
    unfold insertChildren at h
    split at h
    · rename_i obj' ha
      obtain ⟨u, kp, ks, kk, kc⟩ := ih obj' w h (appendObj_uniq hu ha)
      obtain ⟨mp, ms, mc, mk⟩ := appendObj_mono ha
      refine ⟨u, fun x hx => kp x (mp x hx), fun x hx => ks x (ms x hx), by rw [kk, mk], ?_⟩
      intro x hx
      cases hx with
      | head =>
        rcases mc with mc | mc
        · exact Or.inl (kp _ mc)
        · exact Or.inr (Or.inl (ks _ mc))
      | tail _ hx => exact kc x hx
    · rename_i l ha
      split at h
      · cases hr : raiseOrWarn m w with
        | error e => rw [hr] at h; cases h
        | ok w1 =>
          rw [hr] at h
          obtain ⟨u, kp, ks, kk, kc⟩ := ih obj w1 h hu
          refine ⟨u, kp, ks, kk, ?_⟩
          intro x hx
          cases hx with
          | head => exact Or.inr (Or.inr (Refused.mono kp ks kk (appendObj_error ha)))
          | tail _ hx => exact kc x hx
      · cases h

theorem insertEach_spec (m : Mode) (obj : Obj J) (cs : List (Obj J)) (w : Nat)
    (o : Obj J) (w' : Nat) (h : insertEach m obj cs w = .ok (o, w')) (hu : UniqKids J.pyEq obj) :
    UniqKids J.pyEq o ∧ (∀ x ∈ obj.props, x ∈ o.props) ∧ (∀ x ∈ obj.secs, x ∈ o.secs) ∧
    o.kind = obj.kind ∧
    (∀ c ∈ cs, c ∈ o.props ∨ c ∈ o.secs ∨ Refused J.pyEq o c) := by
  induction cs generalizing obj w with
  | nil =>
    unfold insertEach at h
    cases h
    exact ⟨hu, fun _ hx => hx, fun _ hx => hx, rfl, by intro c hc; cases hc⟩
  | cons c cs ih =>
    unfold insertEach at h
    split at h
    · rename_i obj' ha
      obtain ⟨u, kp, ks, kk, kc⟩ := ih obj' w h (appendObj_uniq hu ha)
      obtain ⟨mp, ms, mc, mk⟩ := appendObj_mono ha
      refine ⟨u, fun x hx => kp x (mp x hx), fun x hx => ks x (ms x hx), by rw [kk, mk], ?_⟩
      intro x hx
      cases hx with
      | head =>
        rcases mc with mc | mc
        · exact Or.inl (kp _ mc)
        · exact Or.inr (Or.inl (ks _ mc))
      | tail _ hx => exact kc x hx
    · rename_i l ha
      cases hr : raiseOrWarn m w with
      | error e => rw [hr] at h; cases h
      | ok w1 =>
        rw [hr] at h
        obtain ⟨u, kp, ks, kk, kc⟩ := ih obj w1 h hu
        refine ⟨u, kp, ks, kk, ?_⟩
        intro x hx
        cases hx with
        | head => exact Or.inr (Or.inr (Refused.mono kp ks kk (appendObj_error ha)))
        | tail _ hx => exact kc x hx

end Reader

namespace Reader

/-! ### Stack need of the XML reader -/

/-- three frames per level of element nesting, at most -/
theorem stack_le_depth :
    (∀ (x : Xml) (kind : Kind), stackTag kind x ≤ 3 * Xml.depth x) ∧
    (∀ (ks : List Xml) (kind : Kind), stackKids kind ks ≤ 3 * Xml.depthList ks) := by
  have key : ∀ x : Xml, ∀ kind : Kind, stackTag kind x ≤ 3 * Xml.depth x := by
    intro x
    induction x using Xml.rec
      (motive_2 := fun ks => ∀ kind : Kind, stackKids kind ks ≤ 3 * Xml.depthList ks) with
    | elem t a tx ks ih =>
      intro kind
      have h := ih kind
      simp only [stackTag, Xml.depth, framesPerObject]
      omega
    | other k =>
      intro kind
      simp [stackTag]
    | nil =>
      rename_i kind
      simp [stackKids]
    | cons x rest ihx ihr =>
      rename_i kind
      have hr := ihr kind
      cases x with
      | other k =>
        simp only [stackKids, Xml.depthList, Xml.depth]
        omega
      | elem t0 attrs text kids =>
        simp only [stackKids, Xml.depthList]
        split
        · rename_i k' _ _ _
          have hx := ihx k'
          omega
        · omega
  refine ⟨key, ?_⟩
  intro ks
  induction ks with
  | nil => intro kind; simp [stackKids]
  | cons x rest ihr =>
    intro kind
    have hr := ihr kind
    cases x with
    | other k =>
      simp only [stackKids, Xml.depthList, Xml.depth]
      omega
    | elem t0 attrs text kids =>
      simp only [stackKids, Xml.depthList]
      split
      · rename_i k' _ _ _
        have hx := key (.elem t0 attrs text kids) k'
        omega
      · omega

end Reader
