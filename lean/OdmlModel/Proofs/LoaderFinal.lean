/-
M-Loader (C18): for caller programs without `refresh`, every key requested by a completed
`load` or `deferred_load` is in the table, or cannot be published (unfetchable, or an unparsable
template), or still has a loader thread; and a loader thread that has exited has published its
root key (or it cannot be published).  In a final state this gives "every requested resource is
loaded or failed".
-/
import OdmlModel.Model.Loader
import OdmlModel.Proofs.Loader
import OdmlModel.Proofs.LoaderProgress

set_option linter.unusedSimpArgs false
set_option linter.unusedVariables false

namespace Loader

/-- `_load(k)` publishes nothing: the fetch fails, or a template cannot be parsed. -/
def Unpub (g : Url → Res) (k : Key) : Prop :=
  g k.url = .missing ∨ (g k.url = .garbage ∧ k.tpl = true)

/-- The key is in the table, or can never be. -/
def Done (g : Url → Res) (sh : Shared) (k : Key) : Prop :=
  (sh.loaded k).isSome = true ∨ Unpub g k

def NotClear (f : Frame) : Prop := ∀ k, f ≠ .clear k

def NoRefreshOp (op : Op) : Prop := ∀ k, op ≠ .refresh k

theorem body_notClear (f : Frame) (h : IsBody f) : NotClear f := by
  intro k hk; subst hk; exact h

theorem done_mono (g : Url → Res) (sh sh' : Shared) (k : Key)
    (hm : ∀ k v, sh.loaded k = some v → sh'.loaded k = some v) (h : Done g sh k) : Done g sh' k := by
  rcases h with h | h
  · left
    cases hv : sh.loaded k with
    | none => rw [hv] at h; cases h
    | some v => rw [hm k v hv]; rfl
  · right; exact h

theorem beginLoad_ret (g : Url → Res) (sh : Shared) (k : Key) (sh' : Shared) (v : Val)
    (hb : beginLoad g sh k = (sh', .ret v)) : Unpub g k := by
  unfold beginLoad at hb
  have hr := fetch_res g sh k
  generalize fetch g sh k = p at hb hr
  obtain ⟨sh1, r⟩ := p
  simp only at hb hr
  subst hr
  cases hg : g k.url with
  | missing => left; exact hg
  | garbage =>
    simp only [hg] at hb
    split at hb
    · rename_i ht; right; exact ⟨hg, ht⟩
    · simp at hb
  | doc incs => simp [hg] at hb

/-- A frame that returns has its key in the table, unless the key cannot be published. -/
theorem topStep_ret_done (g : Url → Res) (sh : Shared) (ntid : Nat) (f : Frame) (hnd : NotDefer f)
    (sh' : Shared) (v : Val) (sp : Option Key) (hs : topStep g sh ntid f = (sh', .ret v, sp)) :
    Done g sh' f.key := by
  cases f with
  | start k =>
    simp only [topStep] at hs
    generalize hb : beginLoad g sh k = p at hs
    obtain ⟨s, n⟩ := p
    simp only [Prod.mk.injEq] at hs
    obtain ⟨rfl, rfl, _⟩ := hs
    right; exact beginLoad_ret g sh k _ _ hb
  | load k =>
    simp only [topStep] at hs
    cases hl : sh.loaded k with
    | some v' =>
      simp only [hl, Prod.mk.injEq] at hs
      obtain ⟨rfl, _, _⟩ := hs
      left; simp [Frame.key, hl]
    | none =>
      cases hlg : sh.loading k with
      | some t => simp [hl, hlg] at hs
      | none =>
        simp only [hl, hlg] at hs
        generalize hb : beginLoad g sh k = p at hs
        obtain ⟨s, n⟩ := p
        simp only [Prod.mk.injEq] at hs
        obtain ⟨rfl, rfl, _⟩ := hs
        right; exact beginLoad_ret g sh k _ _ hb
  | join k t => simp [topStep] at hs
  | pop k => simp [topStep] at hs
  | fin k todo acc id aw =>
    cases aw with
    | true => simp [topStep] at hs
    | false =>
      cases todo with
      | nil => simp [topStep] at hs
      | cons u todo =>
        simp only [topStep] at hs
        generalize deferSection sh ntid (tkey u) = p at hs
        obtain ⟨s, spw⟩ := p
        simp at hs
  | pub k v' =>
    simp only [topStep] at hs
    cases hl : sh.loaded k with
    | some v'' =>
      simp only [hl, Prod.mk.injEq] at hs
      obtain ⟨rfl, _, _⟩ := hs
      left; simp [Frame.key, hl]
    | none =>
      simp only [hl, Prod.mk.injEq] at hs
      obtain ⟨rfl, _, _⟩ := hs
      left; simp [Frame.key]
  | defer k => exact absurd rfl (hnd k)
  | clear k => simp [topStep] at hs

theorem deferSection_known (sh : Shared) (ntid : Nat) (k : Key) :
    (sh.loaded k).isSome = true ∨ ((deferSection sh ntid k).1.loading k).isSome = true := by
  unfold deferSection
  split
  · rename_i h
    rcases h with h | h
    · left; exact h
    · right; exact h
  · right; simp

theorem topStep_defer (g : Url → Res) (sh : Shared) (ntid : Nat) (k : Key) :
    ∃ sh' sp, topStep g sh ntid (.defer k) = (sh', .ret none, sp) ∧ sh'.loaded = sh.loaded ∧
      ((sh.loaded k).isSome = true ∨ (sh'.loading k).isSome = true) := by
  simp only [topStep]
  have h1 := deferSection_known sh ntid k
  have h2 : (deferSection sh ntid k).1.loaded = sh.loaded := by
    unfold deferSection; split <;> rfl
  generalize deferSection sh ntid k = p at h1 h2
  obtain ⟨s, spw⟩ := p
  exact ⟨s, spw, rfl, h2, h1⟩

/-- No transition puts a `clear` frame on a stack. -/
theorem topStep_notClear (g : Url → Res) (sh : Shared) (ntid : Nat) (f : Frame) (hf : NotClear f)
    (sh' : Shared) (fs : List Frame) (sp : Option Key)
    (hs : topStep g sh ntid f = (sh', .cont fs, sp)) : ∀ x ∈ fs, NotClear x := by
  cases f with
  | start k =>
    simp only [topStep] at hs
    generalize hb : beginLoad g sh k = p at hs
    obtain ⟨s, n⟩ := p
    simp only [Prod.mk.injEq] at hs
    obtain ⟨rfl, rfl, _⟩ := hs
    exact fun x hx => body_notClear x (beginLoad_body g sh k _ _ hb x hx)
  | load k =>
    simp only [topStep] at hs
    cases hl : sh.loaded k with
    | some v => simp [hl] at hs
    | none =>
      cases hlg : sh.loading k with
      | some t =>
        simp only [hl, hlg, Prod.mk.injEq, Next.cont.injEq] at hs
        obtain ⟨_, rfl, _⟩ := hs
        intro x hx; simp at hx; subst hx; intro k' h; cases h
      | none =>
        simp only [hl, hlg] at hs
        generalize hb : beginLoad g sh k = p at hs
        obtain ⟨s, n⟩ := p
        simp only [Prod.mk.injEq] at hs
        obtain ⟨rfl, rfl, _⟩ := hs
        exact fun x hx => body_notClear x (beginLoad_body g sh k _ _ hb x hx)
  | join k t =>
    simp only [topStep, Prod.mk.injEq, Next.cont.injEq] at hs
    obtain ⟨_, rfl, _⟩ := hs
    intro x hx; simp at hx; subst hx; intro k' h; cases h
  | pop k =>
    simp only [topStep, Prod.mk.injEq, Next.cont.injEq] at hs
    obtain ⟨_, rfl, _⟩ := hs
    intro x hx; simp at hx; subst hx; intro k' h; cases h
  | fin k todo acc id aw =>
    cases aw with
    | true =>
      simp only [topStep, Prod.mk.injEq, Next.cont.injEq] at hs
      obtain ⟨_, rfl, _⟩ := hs
      intro x hx; simp at hx; subst hx; intro k' h; cases h
    | false =>
      cases todo with
      | nil =>
        simp only [topStep, Prod.mk.injEq, Next.cont.injEq] at hs
        obtain ⟨_, rfl, _⟩ := hs
        intro x hx; simp at hx; subst hx
        exact body_notClear _ (advance_body _ _ _ _)
      | cons u todo =>
        simp only [topStep] at hs
        generalize deferSection sh ntid (tkey u) = p at hs
        obtain ⟨s, spw⟩ := p
        simp only [Prod.mk.injEq, Next.cont.injEq] at hs
        obtain ⟨_, rfl, _⟩ := hs
        intro x hx
        simp at hx
        rcases hx with rfl | rfl <;> (intro k' h; cases h)
  | pub k v =>
    simp only [topStep] at hs
    cases hl : sh.loaded k <;> simp [hl] at hs
  | defer k =>
    simp only [topStep] at hs
    generalize deferSection sh ntid k = p at hs
    obtain ⟨s, spw⟩ := p
    simp at hs
  | clear k => exact absurd rfl (hf k)

theorem applyNext_mem (nx : Next) (rest st : List Frame) (bottom : Option Val)
    (ha : applyNext nx rest = some (st, bottom)) :
    (∀ x ∈ st, x ∈ rest ∨ (∃ fs, nx = .cont fs ∧ x ∈ fs) ∨ IsBody x) ∧
    (∀ v, bottom = some v → nx = .ret v ∧ rest = [] ∧ st = []) := by
  cases nx with
  | cont fs =>
    simp only [applyNext, Option.some.injEq, Prod.mk.injEq] at ha
    obtain ⟨rfl, rfl⟩ := ha
    refine ⟨?_, by intro v h; cases h⟩
    intro x hx
    rcases List.mem_append.mp hx with h | h
    · right; left; exact ⟨fs, rfl, h⟩
    · left; exact h
  | ret v =>
    cases rest with
    | nil =>
      simp only [applyNext, Option.some.injEq, Prod.mk.injEq] at ha
      obtain ⟨rfl, rfl⟩ := ha
      exact ⟨(by intro x hx; simp at hx), (by intro v' h; cases h; exact ⟨rfl, rfl, rfl⟩)⟩
    | cons f' r =>
      cases f' with
      | fin k todo acc id aw =>
        cases todo with
        | nil => simp [applyNext, deliver] at ha
        | cons u todo =>
          cases aw with
          | false => simp [applyNext, deliver] at ha
          | true =>
            simp only [applyNext, deliver, Option.map_some, Option.some.injEq, Prod.mk.injEq] at ha
            obtain ⟨rfl, rfl⟩ := ha
            refine ⟨?_, by intro v' h; cases h⟩
            intro x hx
            simp only [List.mem_cons] at hx
            rcases hx with rfl | hx
            · right; right; exact advance_body _ _ _ _
            · left; simp [hx]
      | _ => simp [applyNext, deliver] at ha

/-- Start frame of an operation. -/
def opFrame : Op → Frame
  | .load k => .load k
  | .deferred k => .defer k
  | .refresh k => .clear k

theorem finishOp_shape (s : State) (v : Val) (op : Op) (rest : List Op) (hp : s.prog = op :: rest) :
    (finishOp s v).threads = s.threads ∧ (finishOp s v).sh.loaded = s.sh.loaded ∧
    (finishOp s v).results = ⟨op, v, s.sh.epoch⟩ :: s.results ∧ (finishOp s v).prog = rest ∧
    (finishOp s v).caller = (match rest with | [] => [] | o :: _ => [opFrame o]) := by
  unfold finishOp
  simp only [hp]
  cases op <;> cases rest with
  | nil => simp [startOp]
  | cons o r => cases o <;> simp [startOp, opFrame]

structure Inv4 (g : Url → Res) (s : State) : Prop where
  progNR : ∀ op ∈ s.prog, NoRefreshOp op
  callerNC : ∀ f ∈ s.caller, NotClear f
  thrNC : ∀ th ∈ s.threads, ∀ f ∈ th.stack, NotClear f
  finished : ∀ th ∈ s.threads, th.stack = [] → Done g s.sh th.root
  resDone : ∀ r ∈ s.results, ∀ k, (r.op = .load k ∨ r.op = .deferred k) →
    Done g s.sh k ∨ ∃ t, ThrRef s.threads k t
  deferBot : ∀ k rest, s.prog = .deferred k :: rest → s.caller = [.defer k]

theorem init_inv4 (g : Url → Res) (cache0 : Url → CacheSt) (prog : List Op)
    (hnr : ∀ op ∈ prog, NoRefreshOp op) : Inv4 g (init cache0 prog) := by
  unfold init startOp
  cases prog with
  | nil =>
    refine ⟨by simp, by simp, by simp, by simp, by simp, by simp⟩
  | cons op rest =>
    cases op with
    | load k =>
      refine ⟨hnr, ?_, by simp, by simp, by simp, by simp⟩
      intro f hf; simp at hf; subst hf; intro k' h; cases h
    | deferred k =>
      refine ⟨hnr, ?_, by simp, by simp, by simp, ?_⟩
      · intro f hf; simp at hf; subst hf; intro k' h; cases h
      · intro k' r h; simp at h; obtain ⟨rfl, _⟩ := h; rfl
    | refresh k => exact absurd rfl (hnr _ (by simp) k)

theorem step_inv4 (g : Url → Res) (rank : Url → Nat) (cache0 : Url → CacheSt) (h : Acyclic g rank)
    (s : State) (hi : Inv g rank cache0 s) (hp : InvP s) (h4 : Inv4 g s) (t : Nat) :
    Inv4 g (step g s t) := by
  unfold step
  split
  · split
    · exact h4
    · rename_i f rest hstk
      generalize hts : topStep g s.sh (s.threads.length + 1) f = p
      obtain ⟨sh', nx, sp⟩ := p
      simp only
      cases ha : applyNext nx rest with
      | none =>
        simp only
        exact ⟨h4.progNR, h4.callerNC, h4.thrNC, h4.finished, h4.resDone, h4.deferBot⟩
      | some q =>
        obtain ⟨st, bottom⟩ := q
        -- the old stack of the picked thread
        have hold : StackOK g rank (f :: rest) ∧ (∀ x ∈ f :: rest, NotClear x) := by
          cases t with
          | zero =>
            simp only [stackOf] at hstk
            rw [← hstk]; exact ⟨hi.callerSt, h4.callerNC⟩
          | succ i =>
            simp only [stackOf] at hstk
            cases hth : s.threads[i]? with
            | none => simp [hth] at hstk
            | some th =>
              simp only [hth] at hstk
              rw [← hstk]
              exact ⟨hi.thrSt th (List.mem_of_getElem? hth), h4.thrNC th (List.mem_of_getElem? hth)⟩
        obtain ⟨hstack, hnc⟩ := hold
        have hfnc : NotClear f := hnc f (by simp)
        have tf := topStep_facts g rank h s.sh _ f hi.table (hstack.1 f (by simp)) sh' nx sp hts
        have hmono := (tf.mono hfnc).2
        obtain ⟨hmidQ, hne⟩ := mid_invQ g rank cache0 h s hi hp.toInvQ t f rest hstk sh' nx sp hts st bottom ha
        obtain ⟨hmem, hbot⟩ := applyNext_mem nx rest st bottom ha
        have hstnc : ∀ x ∈ st, NotClear x := by
          intro x hx
          rcases hmem x hx with h1 | ⟨fs, rfl, h1⟩ | h1
          · exact hnc x (by simp [h1])
          · exact topStep_notClear g s.sh _ f hfnc sh' fs sp hts x h1
          · exact body_notClear x h1
        have hshared : (spawnThread (setStack { s with sh := sh' } t st) sp).sh = sh' := by
          cases sp <;> cases t <;> rfl
        have hres : (spawnThread (setStack { s with sh := sh' } t st) sp).results = s.results := by
          cases sp <;> cases t <;> rfl
        have hprog : (spawnThread (setStack { s with sh := sh' } t st) sp).prog = s.prog := by
          cases sp <;> cases t <;> rfl
        have hthreads := spawn_threads s sh' t st sp
        -- everything except `deferBot`, for the state before the caller's bookkeeping
        have m_callerNC : ∀ x ∈ (spawnThread (setStack { s with sh := sh' } t st) sp).caller, NotClear x := by
          cases t with
          | zero =>
            have : (spawnThread (setStack { s with sh := sh' } 0 st) sp).caller = st := by
              cases sp <;> rfl
            rw [this]; exact hstnc
          | succ i =>
            have : (spawnThread (setStack { s with sh := sh' } (i + 1) st) sp).caller = s.caller := by
              cases sp <;> rfl
            rw [this]; exact h4.callerNC
        have m_thrNC : ∀ th ∈ (spawnThread (setStack { s with sh := sh' } t st) sp).threads,
            ∀ x ∈ th.stack, NotClear x := by
          rw [hthreads]
          intro th hth
          unfold threadsAfter at hth
          rcases List.mem_append.mp hth with h1 | h1
          · cases t with
            | zero => exact h4.thrNC th h1
            | succ i =>
              rcases mem_setThr _ _ _ _ h1 with h2 | h2
              · exact h4.thrNC th h2
              · rw [h2]; exact hstnc
          · cases sp with
            | none => simp at h1
            | some k =>
              simp at h1
              subst h1
              intro x hx
              simp at hx
              subst hx
              intro k' hk'; cases hk'
        have m_finished : ∀ th ∈ (spawnThread (setStack { s with sh := sh' } t st) sp).threads,
            th.stack = [] → Done g sh' th.root := by
          rw [hthreads]
          intro th hth hemp
          unfold threadsAfter at hth
          rcases List.mem_append.mp hth with h1 | h1
          · have hkeep : th ∈ s.threads → Done g sh' th.root := fun hm =>
              done_mono g s.sh sh' _ hmono (h4.finished th hm hemp)
            cases t with
            | zero => exact hkeep h1
            | succ i =>
              rcases getElem?_setThr _ _ _ _ h1 with h2 | ⟨th0, hth0, rfl⟩
              · exact hkeep h2
              · -- the picked thread has exited: its bottom frame returned
                simp only at hemp
                subst hemp
                cases bottom with
                | none => exact absurd rfl (hne rfl)
                | some v =>
                  obtain ⟨rfl, rfl, _⟩ := hbot v rfl
                  simp only [stackOf, hth0] at hstk
                  have hb := hp.thrBot th0 (List.mem_of_getElem? hth0) f (by rw [hstk]; rfl)
                  have hnd : NotDefer f := by
                    intro k hk; subst hk; exact hb.2
                  have := topStep_ret_done g s.sh _ f hnd sh' v sp hts
                  rw [hb.1] at this
                  exact this
          · cases sp with
            | none => simp at h1
            | some k => simp at h1; subst h1; simp at hemp
        have m_resDone : ∀ r ∈ s.results, ∀ k, (r.op = .load k ∨ r.op = .deferred k) →
            Done g sh' k ∨ ∃ j, ThrRef (threadsAfter s.threads t st sp) k j := by
          intro r hr k hk
          rcases h4.resDone r hr k hk with h1 | ⟨j, h1⟩
          · left; exact done_mono g s.sh sh' _ hmono h1
          · right; exact ⟨j, thrRef_after _ _ _ _ _ _ h1⟩
        have hkeepDefer : t ≠ 0 → ∀ k r, s.prog = .deferred k :: r →
            (spawnThread (setStack { s with sh := sh' } t st) sp).caller = [.defer k] := by
          intro ht k r hpr
          cases t with
          | zero => exact absurd rfl ht
          | succ i =>
            have : (spawnThread (setStack { s with sh := sh' } (i + 1) st) sp).caller = s.caller := by
              cases sp <;> rfl
            rw [this]; exact h4.deferBot k r hpr
        have mk : (∀ k r, s.prog = .deferred k :: r →
            (spawnThread (setStack { s with sh := sh' } t st) sp).caller = [.defer k]) →
            Inv4 g (spawnThread (setStack { s with sh := sh' } t st) sp) := by
          intro hd
          refine ⟨by rw [hprog]; exact h4.progNR, m_callerNC, m_thrNC, ?_, ?_, by rw [hprog]; exact hd⟩
          · rw [hshared]; exact m_finished
          · rw [hres, hshared, hthreads]; exact m_resDone
        cases bottom with
        | none =>
          simp only
          apply mk
          cases t with
          | succ i => exact hkeepDefer (by simp)
          | zero =>
            intro k r hpr
            -- the caller's `deferred_load` frame returns at once: `bottom` would be `some`
            have hc := h4.deferBot k r hpr
            simp only [stackOf] at hstk
            rw [hc] at hstk
            cases hstk
            obtain ⟨sh2, sp2, h1, _, _⟩ := topStep_defer g s.sh (s.threads.length + 1) k
            rw [h1] at hts
            cases hts
            simp [applyNext] at ha
        | some v =>
          cases t with
          | succ i => simp only; exact mk (hkeepDefer (by simp))
          | zero =>
            simp only
            obtain ⟨rfl, rfl, rfl⟩ := hbot v rfl
            simp only [stackOf] at hstk
            obtain ⟨op, rest', hpr, _⟩ := hi.callerBot f (by rw [hstk]; rfl)
            have hpr1 : (spawnThread (setStack { s with sh := sh' } 0 []) sp).prog = op :: rest' := by
              rw [hprog, hpr]
            obtain ⟨f1, f2, f3, f4, f5⟩ := finishOp_shape _ v op rest' hpr1
            have hnr : ∀ o ∈ rest', NoRefreshOp o := fun o ho => h4.progNR o (by rw [hpr]; simp [ho])
            refine ⟨by rw [f4]; exact hnr, ?_, by rw [f1]; exact m_thrNC, ?_, ?_, ?_⟩
            · rw [f5]
              cases rest' with
              | nil => intro x hx; simp at hx
              | cons o r =>
                intro x hx
                simp at hx
                subst hx
                cases o with
                | load k => intro k' hh; cases hh
                | deferred k => intro k' hh; cases hh
                | refresh k => exact absurd rfl (hnr _ (by simp) k)
            · rw [f1]
              intro th hth hemp
              have := m_finished th hth hemp
              rcases this with h1 | h1
              · left; rw [f2, hshared]; exact h1
              · right; exact h1
            · rw [f3, f1, hthreads]
              intro r hr k hk
              have hdone' : ∀ k', Done g sh' k' →
                  Done g (finishOp (spawnThread (setStack { s with sh := sh' } 0 []) sp) v).sh k' := by
                intro k' hd
                rcases hd with h1 | h1
                · left; rw [f2, hshared]; exact h1
                · right; exact h1
              simp only [List.mem_cons] at hr
              rcases hr with rfl | hr
              · simp only at hk
                rcases hk with rfl | rfl
                · -- a completed `load k`
                  obtain ⟨op', rs', hp', hop'⟩ := hi.callerBot f (by rw [hstk]; rfl)
                  rw [hpr] at hp'
                  cases hp'
                  obtain ⟨hk1, hnd⟩ := hop' k rfl
                  have := topStep_ret_done g s.sh _ f hnd sh' v sp hts
                  rw [hk1] at this
                  left; exact hdone' k this
                · -- a completed `deferred_load k`
                  have hc := h4.deferBot k rest' hpr
                  rw [hc] at hstk
                  cases hstk
                  obtain ⟨sh2, sp2, h1, h2, h3⟩ := topStep_defer g s.sh (s.threads.length + 1) k
                  rw [h1] at hts
                  cases hts
                  rcases h3 with h3 | h3
                  · left
                    apply hdone'
                    left; rw [h2]; exact h3
                  · right
                    cases hl : sh'.loading k with
                    | none => rw [hl] at h3; cases h3
                    | some j =>
                      have := hmidQ.loadingThr k j (by rw [hshared]; exact hl)
                      rw [hthreads] at this
                      exact ⟨j, this⟩
              · rcases m_resDone r (by rw [← hres]; exact hr) k hk with h1 | h1
                · left; exact hdone' k h1
                · right; exact h1
            · rw [f4, f5]
              intro k r hh
              subst hh
              rfl
  · exact h4

theorem runSched_inv4 (g : Url → Res) (rank : Url → Nat) (cache0 : Url → CacheSt)
    (h : Acyclic g rank) (sched : List Nat) :
    ∀ s, Inv g rank cache0 s → InvP s → Inv4 g s → Inv4 g (runSched g s sched) := by
  induction sched with
  | nil => intro s _ _ h4; exact h4
  | cons t ts ih =>
    intro s hi hp h4
    exact ih _ (step_inv g rank cache0 h s hi t) (step_invP g rank cache0 h s hi hp t)
      (step_inv4 g rank cache0 h s hi hp h4 t)

end Loader
