/-
Helper lemmas for C02 (dictionary writer / reader).
-/
import OdmlModel.Model.Dict
import OdmlModel.Model.DictDoc

namespace Dict
open Py

/-! ## The writers, unrolled over the regenerated format tables -/

@[simp] theorem emit_str (k s : String) : emit k (.str s) = [(k, .str s)] := rfl
theorem emit_null (k : String) : emit k .null = [] := rfl
theorem emit_set {k : String} {v : J} (h : v.isSet = true) : emit k v = [(k, v)] := by simp [emit, h]

theorem writeProp_eq (p : Prp) : writeProp p = .obj (
    [("id", J.str p.id)] ++ emit "name" p.name ++ [("value", propValueJ p)] ++
    emit "unit" p.unit ++ emit "definition" p.definition ++ emit "dependency" p.dependency ++
    emit "dependencyvalue" p.dependencyValue ++ emit "uncertainty" p.uncertainty ++
    emit "reference" p.reference ++ emit "type" (optStrJ p.dtype) ++
    emit "value_origin" p.valueOrigin ++ emit "val_cardinality" (cardJ p.valCard)) := by
  simp [writeProp, Gen.Format.propertyArgs, writePropKey, mapKey, Gen.Format.propertyMap,
    List.lookup, propAttr]

theorem writeSec_eq (id : String) (name type d r l rp inc : J) (sc pc : Card.Card)
    (props : List Prp) (secs : List Sec) :
    writeSec (.mk id name type d r l rp inc sc pc props secs) = .obj (
      [("id", J.str id)] ++ emit "type" type ++ emit "name" name ++ emit "definition" d ++
      emit "reference" r ++ emit "link" l ++ emit "repository" rp ++
      [("sections", J.arr (writeSecs secs))] ++ emit "include" inc ++
      [("properties", J.arr (props.map writeProp))] ++
      emit "sec_cardinality" (cardJ sc) ++ emit "prop_cardinality" (cardJ pc)) := by
  simp [writeSec, Gen.Format.sectionArgs, mapKey, Gen.Format.sectionMap, List.lookup, secAttr,
    Sec.id, Sec.name, Sec.type, Sec.definition, Sec.reference, Sec.link,
    Sec.repository, Sec.incl, Sec.secCard, Sec.propCard]

theorem writeDoc_eq (d : Doc) : writeDoc d = .obj (
    [("id", J.str d.id)] ++ emit "version" d.version ++ emit "author" d.author ++
    emit "date" d.date ++ [("sections", J.arr (writeSecs d.secs))] ++
    emit "repository" d.repository) := by
  simp [writeDoc, Gen.Format.documentArgs, mapKey, Gen.Format.documentMap, List.lookup, docAttr]

/-! ## Layout of the written dictionary -/

theorem nodupKeys_iff (l : List String) : nodupKeys l = true ↔ l.Nodup := by
  induction l with
  | nil => simp [nodupKeys]
  | cons k r ih => simp [nodupKeys, ih, List.nodup_cons]

@[simp] theorem keysOf_append (a b : List (String × J)) : keysOf (a ++ b) = keysOf a ++ keysOf b := by
  simp [keysOf]

@[simp] theorem keysOf_cons (kv : String × J) (b : List (String × J)) :
    keysOf (kv :: b) = kv.1 :: keysOf b := rfl

theorem keysOf_emit_sublist (k : String) (v : J) : (keysOf (emit k v)).Sublist [k] := by
  unfold emit; split <;> simp [keysOf]

theorem all_emit (f : String × J → Bool) (k : String) (v : J) (h : f (k, v) = true) :
    (emit k v).all f = true := by
  unfold emit; split <;> simp [h]

theorem all_emit_key (g : String → Bool) (k : String) (v : J) (h : g k = true) :
    (emit k v).all (fun kv => g kv.1) = true := by
  unfold emit; split <;> simp [h]

theorem all_single_key (g : String → Bool) (k : String) (v : J) (h : g k = true) :
    [(k, v)].all (fun kv => g kv.1) = true := by simp [h]

theorem nodupKeys_of_sublist {l L : List String} (h : l.Sublist L) (hL : L.Nodup) :
    nodupKeys l = true := (nodupKeys_iff l).2 (hL.sublist h)

theorem layoutProp_write (p : Prp) : layoutProp (writeProp p) = true := by
  rw [writeProp_eq]
  simp only [layoutProp, Bool.and_eq_true]
  constructor
  · simp only [List.all_append, Bool.and_eq_true]
    refine ⟨⟨⟨⟨⟨⟨⟨⟨⟨⟨⟨?_, ?_⟩, ?_⟩, ?_⟩, ?_⟩, ?_⟩, ?_⟩, ?_⟩, ?_⟩, ?_⟩, ?_⟩, ?_⟩ <;>
      first | (apply all_emit_key; decide) | (apply all_single_key; decide)
  · apply nodupKeys_of_sublist (L := ["id"] ++ ["name"] ++ ["value"] ++ ["unit"] ++ ["definition"] ++
        ["dependency"] ++ ["dependencyvalue"] ++ ["uncertainty"] ++ ["reference"] ++ ["type"] ++
        ["value_origin"] ++ ["val_cardinality"])
    · simp only [keysOf_append]
      refine List.Sublist.append (List.Sublist.append (List.Sublist.append (List.Sublist.append
        (List.Sublist.append (List.Sublist.append (List.Sublist.append (List.Sublist.append
        (List.Sublist.append (List.Sublist.append (List.Sublist.append ?_ ?_) ?_) ?_) ?_) ?_) ?_)
        ?_) ?_) ?_) ?_) ?_ <;>
        first | exact keysOf_emit_sublist _ _ | exact List.Sublist.refl _
    · decide

theorem layoutProps_write (ps : List Prp) : layoutProps (.arr (ps.map writeProp)) = true := by
  simp [layoutProps, layoutProp_write]

theorem layoutSecKvs_append (a b : List (String × J)) :
    layoutSecKvs (a ++ b) = (layoutSecKvs a && layoutSecKvs b) := by
  induction a with
  | nil => simp [layoutSecKvs]
  | cons kv r ih =>
    obtain ⟨k, v⟩ := kv
    simp [layoutSecKvs, ih, Bool.and_assoc]

theorem layoutSecKvs_emit (k : String) (v : J)
    (hv : isValidAttr Gen.Format.sectionArgs Gen.Format.sectionMap k = true)
    (h1 : (k == "sections") = false) (h2 : (k == "properties") = false) :
    layoutSecKvs (emit k v) = true := by
  unfold emit; split <;> simp [layoutSecKvs, hv, h1, h2]

theorem layoutDocKvs_append (a b : List (String × J)) :
    layoutDocKvs (a ++ b) = (layoutDocKvs a && layoutDocKvs b) := by
  induction a with
  | nil => simp [layoutDocKvs]
  | cons kv r ih =>
    obtain ⟨k, v⟩ := kv
    simp [layoutDocKvs, ih, Bool.and_assoc]

theorem layoutDocKvs_emit (k : String) (v : J)
    (hv : isValidAttr Gen.Format.documentArgs Gen.Format.documentMap k = true)
    (h1 : (k == "sections") = false) :
    layoutDocKvs (emit k v) = true := by
  unfold emit; split <;> simp [layoutDocKvs, hv, h1]

theorem layoutSecKvs_single (k : String) (v : J)
    (hv : isValidAttr Gen.Format.sectionArgs Gen.Format.sectionMap k = true)
    (hc : (if k == "sections" then layoutSecsJ v
           else if k == "properties" then layoutProps v else true) = true) :
    layoutSecKvs [(k, v)] = true := by
  simp only [layoutSecKvs, hv, hc, Bool.and_self]

theorem layoutDocKvs_single (k : String) (v : J)
    (hv : isValidAttr Gen.Format.documentArgs Gen.Format.documentMap k = true)
    (hc : (if k == "sections" then layoutSecsJ v else true) = true) :
    layoutDocKvs [(k, v)] = true := by
  simp only [layoutDocKvs, hv, hc, Bool.and_self]

mutual
theorem layoutSec_write : (s : Sec) → layoutSec (writeSec s) = true
  | .mk id name type d r l rp inc sc pc props secs => by
    rw [writeSec_eq]
    simp only [layoutSec, Bool.and_eq_true]
    constructor
    · simp only [layoutSecKvs_append, Bool.and_eq_true]
      have hs : layoutSecsJ (J.arr (writeSecs secs)) = true := by
        simp only [layoutSecsJ]; exact layoutSecList_write secs
      have hp := layoutProps_write props
      refine ⟨⟨⟨⟨⟨⟨⟨⟨⟨⟨⟨?_, ?_⟩, ?_⟩, ?_⟩, ?_⟩, ?_⟩, ?_⟩, ?_⟩, ?_⟩, ?_⟩, ?_⟩, ?_⟩ <;>
        first
        | (apply layoutSecKvs_emit <;> decide)
        | (apply layoutSecKvs_single; decide; simp [hs, hp])
    · apply nodupKeys_of_sublist (L := ["id"] ++ ["type"] ++ ["name"] ++ ["definition"] ++
          ["reference"] ++ ["link"] ++ ["repository"] ++ ["sections"] ++ ["include"] ++
          ["properties"] ++ ["sec_cardinality"] ++ ["prop_cardinality"])
      · simp only [keysOf_append]
        refine List.Sublist.append (List.Sublist.append (List.Sublist.append (List.Sublist.append
          (List.Sublist.append (List.Sublist.append (List.Sublist.append (List.Sublist.append
          (List.Sublist.append (List.Sublist.append (List.Sublist.append ?_ ?_) ?_) ?_) ?_) ?_) ?_)
          ?_) ?_) ?_) ?_) ?_ <;>
          first | exact keysOf_emit_sublist _ _ | exact List.Sublist.refl _
      · decide
theorem layoutSecList_write : (l : List Sec) → layoutSecList (writeSecs l) = true
  | [] => rfl
  | s :: r => by
    simp only [writeSecs, layoutSecList, layoutSec_write s, layoutSecList_write r, Bool.and_self]
end

theorem layoutOK_write (d : Doc) : layoutOK (wrap (writeDoc d)) = true := by
  rw [writeDoc_eq]
  simp only [wrap, layoutOK, Bool.and_eq_true]
  refine ⟨⟨by decide, ?_⟩, ?_⟩
  · simp only [layoutDocKvs_append, Bool.and_eq_true]
    have hs : layoutSecsJ (J.arr (writeSecs d.secs)) = true := by
      simp only [layoutSecsJ]; exact layoutSecList_write d.secs
    refine ⟨⟨⟨⟨⟨?_, ?_⟩, ?_⟩, ?_⟩, ?_⟩, ?_⟩ <;>
      first
      | (apply layoutDocKvs_emit <;> decide)
      | (apply layoutDocKvs_single; decide; simp [hs])
  · apply nodupKeys_of_sublist (L := ["id"] ++ ["version"] ++ ["author"] ++ ["date"] ++
        ["sections"] ++ ["repository"])
    · simp only [keysOf_append]
      refine List.Sublist.append (List.Sublist.append (List.Sublist.append (List.Sublist.append
        (List.Sublist.append ?_ ?_) ?_) ?_) ?_) ?_ <;>
        first | exact keysOf_emit_sublist _ _ | exact List.Sublist.refl _
    · decide

end Dict
