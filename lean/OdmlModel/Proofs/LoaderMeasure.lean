/-
Termination measure of M-Loader (C18: "no call blocks forever").

`phi1` = remaining structural work: every frame carries the cost of everything it can still
cause (a `_load` of `u` costs `body u` = 2 + Σ over its includes of (one `deferred_load` step +
a possibly spawned loader thread + one `load`)); operations of the caller's program that have
not begun carry the cost of their first frame.  `phi2` = position of the `load` frames in the
cycle  load -(loading set)-> join -> pop -> load  (the only transitions that leave `phi1`
unchanged).  `mu = 4 * phi1² + phi2` strictly decreases with every step of an enabled thread.
-/
import OdmlModel.Model.Loader
import OdmlModel.Proofs.Loader
import OdmlModel.Proofs.LoaderProgress

set_option linter.unusedSimpArgs false
set_option linter.unusedVariables false

namespace Loader

/-! ## Cost of loading a resource -/

def bodyF (g : Url → Res) : Nat → Url → Nat
  | 0, _ => 1
  | n + 1, u =>
    match g u with
    | .doc incs => 2 + (incs.map fun v => 3 + 2 * bodyF g n v).sum
    | _ => 1

/-- Cost of one execution of `_load(u)`. -/
def body (g : Url → Res) (rank : Url → Nat) (u : Url) : Nat := bodyF g (rank u + 1) u

/-- Cost of resolving one include `u`: the `deferred_load` step, the loader thread it may start,
    and the `load`. -/
def cost (g : Url → Res) (rank : Url → Nat) (u : Url) : Nat := 3 + 2 * body g rank u

def todoW (g : Url → Res) (rank : Url → Nat) (todo : List Url) : Nat := (todo.map (cost g rank)).sum

theorem bodyF_mono (g : Url → Res) (rank : Url → Nat) (h : Acyclic g rank) :
    ∀ n m u, rank u < n → rank u < m → bodyF g n u = bodyF g m u := by
  intro n
  induction n with
  | zero => intro m u hn; omega
  | succ n ih =>
    intro m u hn hm
    cases m with
    | zero => omega
    | succ m =>
      simp only [bodyF]
      cases hg : g u with
      | missing => rfl
      | garbage => rfl
      | doc incs =>
        simp only
        have : (incs.map fun v => 3 + 2 * bodyF g n v) = (incs.map fun v => 3 + 2 * bodyF g m v) := by
          apply List.map_congr_left
          intro v hv
          have := h u incs v hg hv
          rw [ih m v (by omega) (by omega)]
        rw [this]

theorem body_doc (g : Url → Res) (rank : Url → Nat) (h : Acyclic g rank) (u : Url)
    (incs : List Url) (hu : g u = .doc incs) : body g rank u = 2 + todoW g rank incs := by
  unfold body todoW
  simp only [bodyF, hu]
  have : (incs.map fun v => 3 + 2 * bodyF g (rank u) v) = incs.map (cost g rank) := by
    apply List.map_congr_left
    intro v hv
    have := h u incs v hu hv
    simp only [cost, body]
    rw [bodyF_mono g rank h (rank u) (rank v + 1) v (by omega) (by omega)]
  rw [this]

theorem body_pos (g : Url → Res) (rank : Url → Nat) (u : Url) : 1 ≤ body g rank u := by
  unfold body
  simp only [bodyF]
  split <;> omega

/-! ## Weights of frames -/

/-- Remaining structural work of a frame. -/
def w (g : Url → Res) (rank : Url → Nat) : Frame → Nat
  | .start k => 1 + body g rank k.url
  | .load k => 1 + body g rank k.url
  | .join k _ => 1 + body g rank k.url
  | .pop k => 1 + body g rank k.url
  | .fin _ todo _ _ false => 2 + todoW g rank todo
  | .fin _ todo _ _ true => 2 + todoW g rank todo.tail
  | .pub _ _ => 1
  | .defer k => 2 + body g rank k.url
  | .clear k => 2 + body g rank k.url

/-- Position in the cycle load -> join -> pop -> load. -/
def c2 (sh : Shared) : Frame → Nat
  | .load k => if (sh.loading k).isSome then 3 else 0
  | .join _ _ => 2
  | .pop _ => 1
  | _ => 0

def wop (g : Url → Res) (rank : Url → Nat) : Op → Nat
  | .load k => w g rank (.load k)
  | .deferred k => w g rank (.defer k)
  | .refresh k => w g rank (.clear k)

theorem w_pos (g : Url → Res) (rank : Url → Nat) (f : Frame) : 1 ≤ w g rank f := by
  cases f with
  | fin k todo acc id aw => cases aw <;> simp [w] <;> omega
  | _ => simp [w] <;> omega

theorem c2_le (g : Url → Res) (rank : Url → Nat) (sh : Shared) (f : Frame) :
    c2 sh f ≤ 3 * w g rank f := by
  have := w_pos g rank f
  cases f <;> simp only [c2] <;> first | omega | (split <;> omega)

theorem w_advance (g : Url → Res) (rank : Url → Nat) (k : Key) (todo : List Url) (acc : List Tree)
    (id : Nat) : w g rank (advance k todo acc id) ≤ 2 + todoW g rank todo := by
  cases todo <;> simp [advance, w, todoW]

/-! ## Sums over stacks and thread lists, for an arbitrary frame weight -/

def sumF (c : Frame → Nat) (st : List Frame) : Nat := (st.map c).sum

def thrF (c : Frame → Nat) (ts : List Thr) : Nat := (ts.map fun th => sumF c th.stack).sum

def totF (c : Frame → Nat) (s : State) : Nat := sumF c s.caller + thrF c s.threads

def spawnF (c : Frame → Nat) : Option Key → Nat
  | none => 0
  | some k => c (.start k)

@[simp] theorem sumF_nil (c : Frame → Nat) : sumF c [] = 0 := rfl
@[simp] theorem sumF_cons (c : Frame → Nat) (f : Frame) (st : List Frame) :
    sumF c (f :: st) = c f + sumF c st := by simp [sumF]
theorem sumF_append (c : Frame → Nat) (a b : List Frame) :
    sumF c (a ++ b) = sumF c a + sumF c b := by simp [sumF]
@[simp] theorem thrF_nil (c : Frame → Nat) : thrF c [] = 0 := rfl
@[simp] theorem thrF_cons (c : Frame → Nat) (th : Thr) (ts : List Thr) :
    thrF c (th :: ts) = sumF c th.stack + thrF c ts := by simp [thrF]
theorem thrF_append (c : Frame → Nat) (a b : List Thr) :
    thrF c (a ++ b) = thrF c a + thrF c b := by simp [thrF]

theorem sumF_mono (c c' : Frame → Nat) (hm : ∀ x, c' x ≤ c x) (st : List Frame) :
    sumF c' st ≤ sumF c st := by
  induction st with
  | nil => simp
  | cons f st ih => have := hm f; simp; omega

theorem thrF_mono (c c' : Frame → Nat) (hm : ∀ x, c' x ≤ c x) (ts : List Thr) :
    thrF c' ts ≤ thrF c ts := by
  induction ts with
  | nil => simp
  | cons th ts ih => have := sumF_mono c c' hm th.stack; simp; omega

theorem thrF_setThr (c c' : Frame → Nat) (hm : ∀ x, c' x ≤ c x) (st : List Frame) :
    ∀ (ts : List Thr) (i : Nat) (th : Thr), ts[i]? = some th →
      thrF c' (setThr ts i st) + sumF c th.stack ≤ thrF c ts + sumF c' st := by
  intro ts
  induction ts with
  | nil => intro i th h; simp at h
  | cons hd tl ih =>
    intro i th h
    cases i with
    | zero =>
      simp at h
      subst h
      have := thrF_mono c c' hm tl
      simp [setThr]
      omega
    | succ i =>
      simp at h
      have := ih i th h
      have := sumF_mono c c' hm hd.stack
      simp [setThr]
      omega

def callerAfter (c : List Frame) (t : Nat) (st : List Frame) : List Frame :=
  match t with
  | 0 => st
  | _ + 1 => c

theorem spawn_caller (s : State) (sh' : Shared) (t : Nat) (st : List Frame) (sp : Option Key) :
    (spawnThread (setStack { s with sh := sh' } t st) sp).caller = callerAfter s.caller t st := by
  cases sp <;> cases t <;> rfl

/-- Replacing the stack `f :: rest` of the picked thread by `st` and starting the thread `sp`,
    while the weight function shrinks from `c` to `c'`. -/
theorem tot_replace (c c' : Frame → Nat) (hm : ∀ x, c' x ≤ c x) (s : State) (sh' : Shared) (t : Nat)
    (f : Frame) (rest st : List Frame) (sp : Option Key) (hstk : stackOf s t = f :: rest) :
    totF c' (spawnThread (setStack { s with sh := sh' } t st) sp) + sumF c (f :: rest) ≤
      totF c s + sumF c' st + spawnF c' sp := by
  have hsp : ∀ ts : List Thr, thrF c' (threadsAfter ts 0 st sp) = thrF c' ts + spawnF c' sp := by
    intro ts
    unfold threadsAfter
    rw [thrF_append]
    cases sp <;> simp [spawnF]
  have hsp' : ∀ (ts : List Thr) (i : Nat),
      thrF c' (threadsAfter ts (i + 1) st sp) = thrF c' (setThr ts i st) + spawnF c' sp := by
    intro ts i
    unfold threadsAfter
    rw [thrF_append]
    cases sp <;> simp [spawnF]
  unfold totF
  rw [spawn_threads s sh' t st sp, spawn_caller s sh' t st sp]
  cases t with
  | zero =>
    simp only [stackOf] at hstk
    rw [hsp]
    simp only [callerAfter]
    rw [hstk]
    have := thrF_mono c c' hm s.threads
    omega
  | succ i =>
    simp only [stackOf] at hstk
    cases hth : s.threads[i]? with
    | none => simp [hth] at hstk
    | some th =>
      simp only [hth] at hstk
      rw [hsp']
      simp only [callerAfter]
      have h1 := thrF_setThr c c' hm st s.threads i th hth
      rw [hstk] at h1
      have h2 := sumF_mono c c' hm s.caller
      omega

/-! ## The measure -/

def progW (g : Url → Res) (rank : Url → Nat) (ops : List Op) : Nat := (ops.map (wop g rank)).sum

/-- Remaining structural work of a state. -/
def phi1 (g : Url → Res) (rank : Url → Nat) (s : State) : Nat :=
  totF (w g rank) s + progW g rank (s.prog.drop 1)

/-- Remaining turns in the load/join/pop cycle. -/
def phi2 (s : State) : Nat := totF (c2 s.sh) s

/-- The termination measure. -/
def mu (g : Url → Res) (rank : Url → Nat) (s : State) : Nat :=
  4 * (phi1 g rank s * phi1 g rank s) + phi2 s

theorem phi2_le (g : Url → Res) (rank : Url → Nat) (s : State) : phi2 s ≤ 3 * phi1 g rank s := by
  unfold phi2 phi1 totF
  have h1 : ∀ st, sumF (c2 s.sh) st ≤ 3 * sumF (w g rank) st := by
    intro st
    induction st with
    | nil => simp
    | cons f st ih => have := c2_le g rank s.sh f; simp; omega
  have h2 : ∀ ts, thrF (c2 s.sh) ts ≤ 3 * thrF (w g rank) ts := by
    intro ts
    induction ts with
    | nil => simp
    | cons th ts ih => have := h1 th.stack; simp; omega
  have := h1 s.caller
  have := h2 s.threads
  omega

theorem mu_lt_of_phi1 (g : Url → Res) (rank : Url → Nat) (s s' : State)
    (h : phi1 g rank s' < phi1 g rank s) : mu g rank s' < mu g rank s := by
  unfold mu
  have h2 := phi2_le g rank s'
  generalize phi1 g rank s' = a at *
  generalize phi1 g rank s = b at *
  have h3 : (a + 1) * (a + 1) ≤ b * b := Nat.mul_le_mul h h
  have h4 : (a + 1) * (a + 1) = a * a + 2 * a + 1 := by
    simp only [Nat.add_mul, Nat.mul_add, Nat.mul_one, Nat.one_mul]; omega
  omega

theorem mu_lt_of_phi2 (g : Url → Res) (rank : Url → Nat) (s s' : State)
    (h1 : phi1 g rank s' ≤ phi1 g rank s) (h2 : phi2 s' < phi2 s) : mu g rank s' < mu g rank s := by
  unfold mu
  have := Nat.mul_le_mul h1 h1
  omega

/-! ## One transition of the top frame -/

theorem beginLoad_dec (g : Url → Res) (rank : Url → Nat) (h : Acyclic g rank) (sh : Shared) (k : Key)
    (sh' : Shared) (fs : List Frame) (hb : beginLoad g sh k = (sh', .cont fs)) :
    sumF (w g rank) fs < 1 + body g rank k.url := by
  unfold beginLoad at hb
  have hr := fetch_res g sh k
  generalize fetch g sh k = p at hb hr
  obtain ⟨sh1, r⟩ := p
  simp only at hb hr
  subst hr
  have hpos := body_pos g rank k.url
  cases hg : g k.url with
  | missing => simp [hg] at hb
  | garbage =>
    simp only [hg] at hb
    split at hb
    · simp at hb
    · simp only [Prod.mk.injEq, Next.cont.injEq] at hb
      obtain ⟨_, rfl⟩ := hb
      simp [w]
      omega
  | doc incs =>
    simp only [hg, Prod.mk.injEq, Next.cont.injEq] at hb
    obtain ⟨_, rfl⟩ := hb
    have := w_advance g rank k incs [] sh1.nextId
    rw [body_doc g rank h k.url incs hg]
    simp
    omega

theorem deferSection_spawn (sh : Shared) (ntid : Nat) (k : Key) (sh' : Shared) (sp : Option Key)
    (hd : deferSection sh ntid k = (sh', sp)) : sp = none ∨ sp = some k := by
  unfold deferSection at hd
  split at hd
  · simp only [Prod.mk.injEq] at hd; left; exact hd.2.symm
  · simp only [Prod.mk.injEq] at hd; right; exact hd.2.symm

/-- Local decrease: either the structural work of the picked stack (plus a started thread)
    strictly decreases, or it stays and the frame moves on in the load/join/pop cycle while no
    frame anywhere moves back. -/
def LocalDec (g : Url → Res) (rank : Url → Nat) (sh sh' : Shared) (f : Frame) (nx : Next)
    (sp : Option Key) : Prop :=
  (∀ v, nx = .ret v → spawnF (w g rank) sp < w g rank f) ∧
  (∀ fs, nx = .cont fs →
    sumF (w g rank) fs + spawnF (w g rank) sp < w g rank f ∨
    (sp = none ∧ sumF (w g rank) fs = w g rank f ∧ sumF (c2 sh') fs < c2 sh f ∧
      ∀ x, c2 sh' x ≤ c2 sh x))

theorem topStep_dec (g : Url → Res) (rank : Url → Nat) (h : Acyclic g rank) (sh : Shared)
    (ntid : Nat) (f : Frame) (hf : ¬ IsAwait f) (sh' : Shared) (nx : Next) (sp : Option Key)
    (hs : topStep g sh ntid f = (sh', nx, sp)) : LocalDec g rank sh sh' f nx sp := by
  cases f with
  | start k =>
    simp only [topStep] at hs
    generalize hb : beginLoad g sh k = p at hs
    obtain ⟨s, n⟩ := p
    simp only [Prod.mk.injEq] at hs
    obtain ⟨rfl, rfl, rfl⟩ := hs
    refine ⟨?_, ?_⟩
    · intro v _; simp only [spawnF, w]; omega
    · intro fs hfs
      subst hfs
      left
      have := beginLoad_dec g rank h sh k _ _ hb
      simp [spawnF, w]
      omega
  | load k =>
    simp only [topStep] at hs
    cases hl : sh.loaded k with
    | some v =>
      simp only [hl, Prod.mk.injEq] at hs
      obtain ⟨rfl, rfl, rfl⟩ := hs
      exact ⟨(by intro v _; simp only [spawnF, w]; omega), (by intro fs hfs; cases hfs)⟩
    | none =>
      cases hlg : sh.loading k with
      | some t =>
        simp only [hl, hlg, Prod.mk.injEq] at hs
        obtain ⟨rfl, rfl, rfl⟩ := hs
        refine ⟨(by intro v hv; cases hv), ?_⟩
        intro fs hfs
        cases hfs
        right
        refine ⟨rfl, by simp [w], by simp [c2, hlg], fun x => Nat.le_refl _⟩
      | none =>
        simp only [hl, hlg] at hs
        generalize hb : beginLoad g sh k = p at hs
        obtain ⟨s, n⟩ := p
        simp only [Prod.mk.injEq] at hs
        obtain ⟨rfl, rfl, rfl⟩ := hs
        refine ⟨?_, ?_⟩
        · intro v _; simp only [spawnF, w]; omega
        · intro fs hfs
          subst hfs
          left
          have := beginLoad_dec g rank h sh k _ _ hb
          simp [spawnF, w]
          omega
  | join k t =>
    simp only [topStep, Prod.mk.injEq] at hs
    obtain ⟨rfl, rfl, rfl⟩ := hs
    refine ⟨(by intro v hv; cases hv), ?_⟩
    intro fs hfs
    cases hfs
    right
    exact ⟨rfl, by simp [w], by simp [c2], fun x => Nat.le_refl _⟩
  | pop k =>
    simp only [topStep, Prod.mk.injEq] at hs
    obtain ⟨rfl, rfl, rfl⟩ := hs
    refine ⟨(by intro v hv; cases hv), ?_⟩
    intro fs hfs
    cases hfs
    right
    refine ⟨rfl, by simp [w], by simp [c2], ?_⟩
    intro x
    cases x with
    | load k' =>
      simp only [c2]
      by_cases hkk : k' = k
      · subst hkk; simp
      · simp only [upd_other _ _ _ _ hkk]; exact Nat.le_refl _
    | _ => simp [c2]
  | fin k todo acc id aw =>
    cases aw with
    | true => exact absurd trivial hf
    | false =>
      cases todo with
      | nil =>
        simp only [topStep, Prod.mk.injEq] at hs
        obtain ⟨rfl, rfl, rfl⟩ := hs
        refine ⟨(by intro v hv; cases hv), ?_⟩
        intro fs hfs
        cases hfs
        left
        simp [advance, w, spawnF, todoW]
      | cons u todo =>
        simp only [topStep] at hs
        generalize hd : deferSection sh ntid (tkey u) = p at hs
        obtain ⟨s, spw⟩ := p
        simp only [Prod.mk.injEq] at hs
        obtain ⟨rfl, rfl, rfl⟩ := hs
        refine ⟨(by intro v hv; cases hv), ?_⟩
        intro fs hfs
        cases hfs
        left
        rcases deferSection_spawn sh ntid (tkey u) _ _ hd with rfl | rfl
        · simp [w, spawnF, todoW, cost, tkey]; omega
        · simp [w, spawnF, todoW, cost, tkey]; omega
  | pub k v =>
    simp only [topStep] at hs
    cases hl : sh.loaded k with
    | some v' =>
      simp only [hl, Prod.mk.injEq] at hs
      obtain ⟨rfl, rfl, rfl⟩ := hs
      exact ⟨(by intro v _; simp only [spawnF, w]; omega), (by intro fs hfs; cases hfs)⟩
    | none =>
      simp only [hl, Prod.mk.injEq] at hs
      obtain ⟨rfl, rfl, rfl⟩ := hs
      exact ⟨(by intro v _; simp only [spawnF, w]; omega), (by intro fs hfs; cases hfs)⟩
  | defer k =>
    simp only [topStep] at hs
    generalize hd : deferSection sh ntid k = p at hs
    obtain ⟨s, spw⟩ := p
    simp only [Prod.mk.injEq] at hs
    obtain ⟨rfl, rfl, rfl⟩ := hs
    refine ⟨?_, by intro fs hfs; cases hfs⟩
    intro v _
    rcases deferSection_spawn sh ntid k _ _ hd with rfl | rfl
    · simp only [w, spawnF]; omega
    · simp only [w, spawnF]; omega
  | clear k =>
    simp only [topStep, Prod.mk.injEq] at hs
    obtain ⟨rfl, rfl, rfl⟩ := hs
    refine ⟨(by intro v hv; cases hv), ?_⟩
    intro fs hfs
    cases hfs
    left
    simp [w, spawnF]

/-- A return never adds work to the frames below. -/
theorem applyNext_ret_le (g : Url → Res) (rank : Url → Nat) (v : Val) (rest st : List Frame)
    (bottom : Option Val) (ha : applyNext (.ret v) rest = some (st, bottom)) :
    sumF (w g rank) st ≤ sumF (w g rank) rest := by
  cases rest with
  | nil =>
    simp only [applyNext, Option.some.injEq, Prod.mk.injEq] at ha
    obtain ⟨rfl, _⟩ := ha
    simp
  | cons f' r =>
    cases f' with
    | fin k todo acc id aw =>
      cases todo with
      | nil => simp [applyNext, deliver] at ha
      | cons u todo =>
        cases aw with
        | false => simp [applyNext, deliver] at ha
        | true =>
          simp only [applyNext, deliver, Option.map_some, Option.some.injEq, Prod.mk.injEq] at ha
          obtain ⟨rfl, _⟩ := ha
          have := w_advance g rank k todo (v.content :: acc) id
          simp only [sumF_cons, List.tail_cons]
          have hw : w g rank (.fin k (u :: todo) acc id true) = 2 + todoW g rank todo := rfl
          rw [hw]
          omega
    | _ => simp [applyNext, deliver] at ha

/-! ## The caller's bookkeeping does not add work -/

theorem startOp_phi1 (g : Url → Res) (rank : Url → Nat) (s : State) (hc : s.caller = []) :
    totF (w g rank) (startOp s) + progW g rank ((startOp s).prog.drop 1) =
      thrF (w g rank) s.threads + progW g rank s.prog := by
  unfold startOp
  rw [hc]
  cases hp : s.prog with
  | nil => simp [totF, hc, hp, progW]
  | cons op rest =>
    cases op <;> simp [totF, progW, wop] <;> omega

theorem finishOp_phi1 (g : Url → Res) (rank : Url → Nat) (s : State) (v : Val) (hc : s.caller = []) :
    phi1 g rank (finishOp s v) ≤ phi1 g rank s := by
  unfold finishOp
  cases hp : s.prog with
  | nil => simp
  | cons op rest =>
    have key : ∀ sh2 : Shared,
        phi1 g rank (startOp ⟨sh2, [], rest, ⟨op, v, s.sh.epoch⟩ :: s.results, s.threads⟩) ≤
        phi1 g rank s := by
      intro sh2
      unfold phi1
      rw [startOp_phi1 g rank _ rfl]
      simp [totF, hc, hp]
    cases op with
    | load k => exact key _
    | deferred k => exact key _
    | refresh k => exact key _

/-! ## Every step of an enabled thread decreases the measure -/

theorem step_dec (g : Url → Res) (rank : Url → Nat) (cache0 : Url → CacheSt) (h : Acyclic g rank)
    (s : State) (hi : Inv g rank cache0 s) (h2 : Inv2 s) (t : Nat) (hen : enabled s t = true) :
    mu g rank (step g s t) < mu g rank s := by
  unfold step
  rw [if_pos hen]
  cases hstk : stackOf s t with
  | nil => simp [enabled, hstk] at hen
  | cons f rest =>
    simp only
    have hstack : StackOK g rank (f :: rest) ∧ TopAct (f :: rest) := by
      cases t with
      | zero =>
        simp only [stackOf] at hstk
        rw [← hstk]; exact ⟨hi.callerSt, h2.callerAct⟩
      | succ i =>
        simp only [stackOf] at hstk
        cases hth : s.threads[i]? with
        | none => simp [hth] at hstk
        | some th =>
          simp only [hth] at hstk
          rw [← hstk]
          exact ⟨hi.thrSt th (List.mem_of_getElem? hth), h2.thrAct th (List.mem_of_getElem? hth)⟩
    obtain ⟨hst, hact⟩ := hstack
    have hf : ¬ IsAwait f := hact f rest rfl
    generalize hts : topStep g s.sh (s.threads.length + 1) f = p
    obtain ⟨sh', nx, sp⟩ := p
    have tf := topStep_facts g rank h s.sh _ f hi.table (hst.1 f (by simp)) sh' nx sp hts
    obtain ⟨st, bottom, ha, _⟩ := applyNext_act g rank s.sh _ f rest hf hst.2 sh' nx sp hts tf
    obtain ⟨hret, hcont⟩ := topStep_dec g rank h s.sh _ f hf sh' nx sp hts
    simp only [ha]
    have hprog : (spawnThread (setStack { s with sh := sh' } t st) sp).prog = s.prog := by
      cases sp <;> cases t <;> rfl
    have hsh : (spawnThread (setStack { s with sh := sh' } t st) sp).sh = sh' := by
      cases sp <;> cases t <;> rfl
    have hrepl := tot_replace (w g rank) (w g rank) (fun _ => Nat.le_refl _) s sh' t f rest st sp hstk
    -- the state before the caller's bookkeeping
    have hmid : mu g rank (spawnThread (setStack { s with sh := sh' } t st) sp) < mu g rank s ∧
        phi1 g rank (spawnThread (setStack { s with sh := sh' } t st) sp) ≤ phi1 g rank s ∧
        (bottom ≠ none →
          phi1 g rank (spawnThread (setStack { s with sh := sh' } t st) sp) < phi1 g rank s) := by
      have hstrict : sumF (w g rank) st + spawnF (w g rank) sp < sumF (w g rank) (f :: rest) →
          phi1 g rank (spawnThread (setStack { s with sh := sh' } t st) sp) < phi1 g rank s := by
        intro hlt
        unfold phi1
        rw [hprog]
        omega
      cases nx with
      | ret v =>
        have h1 := hret v rfl
        have h2' := applyNext_ret_le g rank v rest st bottom ha
        have : phi1 g rank (spawnThread (setStack { s with sh := sh' } t st) sp) < phi1 g rank s :=
          hstrict (by simp; omega)
        exact ⟨mu_lt_of_phi1 g rank _ _ this, Nat.le_of_lt this, fun _ => this⟩
      | cont fs =>
        simp only [applyNext, Option.some.injEq, Prod.mk.injEq] at ha
        obtain ⟨rfl, rfl⟩ := ha
        rcases hcont fs rfl with hlt | ⟨rfl, hweq, hclt, hmono⟩
        · have : phi1 g rank (spawnThread (setStack { s with sh := sh' } t (fs ++ rest)) sp) <
              phi1 g rank s := hstrict (by rw [sumF_append]; simp; omega)
          exact ⟨mu_lt_of_phi1 g rank _ _ this, Nat.le_of_lt this, fun _ => this⟩
        · have hle : phi1 g rank (spawnThread (setStack { s with sh := sh' } t (fs ++ rest)) none) ≤
              phi1 g rank s := by
            unfold phi1
            rw [hprog]
            rw [sumF_append] at hrepl
            simp [spawnF] at hrepl
            omega
          have hrepl2 := tot_replace (c2 s.sh) (c2 sh') hmono s sh' t f rest (fs ++ rest) none hstk
          have hlt2 : phi2 (spawnThread (setStack { s with sh := sh' } t (fs ++ rest)) none) < phi2 s := by
            unfold phi2
            rw [hsh]
            rw [sumF_append] at hrepl2
            have := sumF_mono (c2 s.sh) (c2 sh') hmono rest
            simp [spawnF] at hrepl2
            omega
          exact ⟨mu_lt_of_phi2 g rank _ _ hle hlt2, hle, fun hb => absurd rfl hb⟩
    cases bottom with
    | none => simp only; exact hmid.1
    | some v =>
      cases t with
      | succ i => simp only; exact hmid.1
      | zero =>
        simp only
        obtain ⟨_, _, hbv⟩ := stack_step g rank h s.sh sh' f rest nx sp _ hst tf st (some v) ha
        obtain ⟨_, _, rfl⟩ := hbv v rfl
        have hc0 : (spawnThread (setStack { s with sh := sh' } 0 []) sp).caller = [] := by
          cases sp <;> rfl
        have h3 := finishOp_phi1 g rank _ v hc0
        have h4 := hmid.2.2 (by simp)
        exact mu_lt_of_phi1 g rank _ _ (by omega)

/-! ## Schedules -/

/-- Number of effective steps (picks of an enabled thread) of a schedule. -/
def effSteps (g : Url → Res) (s : State) : List Nat → Nat
  | [] => 0
  | t :: ts => (if enabled s t then 1 else 0) + effSteps g (step g s t) ts

theorem step_not_enabled (g : Url → Res) (s : State) (t : Nat) (hen : enabled s t = false) :
    step g s t = s := by
  unfold step
  simp [hen]

theorem effSteps_bound (g : Url → Res) (rank : Url → Nat) (cache0 : Url → CacheSt)
    (h : Acyclic g rank) (sched : List Nat) :
    ∀ s, Inv g rank cache0 s → Inv2 s →
      effSteps g s sched + mu g rank (runSched g s sched) ≤ mu g rank s := by
  induction sched with
  | nil => intro s _ _; simp [effSteps, runSched]
  | cons t ts ih =>
    intro s hi h2
    have := ih (step g s t) (step_inv g rank cache0 h s hi t) (step_inv2 g rank cache0 h s hi h2 t)
    simp only [effSteps, runSched]
    by_cases hen : enabled s t = true
    · have := step_dec g rank cache0 h s hi h2 t hen
      simp only [hen, if_true]
      omega
    · have hen' : enabled s t = false := by simpa using hen
      rw [step_not_enabled g s t hen'] at this ⊢
      simp only [hen', Bool.false_eq_true, if_false]
      omega

theorem mu_init (g : Url → Res) (rank : Url → Nat) (cache0 : Url → CacheSt) (prog : List Op) :
    mu g rank (init cache0 prog) = 4 * (progW g rank prog * progW g rank prog) := by
  unfold mu
  have h1 : phi1 g rank (init cache0 prog) = progW g rank prog := by
    unfold phi1 init
    rw [startOp_phi1 g rank _ rfl]
    simp
  have h2 : phi2 (init cache0 prog) = 0 := by
    unfold phi2 init startOp
    cases prog with
    | nil => simp [totF]
    | cons op rest => cases op <;> simp [totF, c2, initShared]
  rw [h1, h2]
  omega

theorem step_mu_le (g : Url → Res) (rank : Url → Nat) (cache0 : Url → CacheSt) (h : Acyclic g rank)
    (s : State) (hi : Inv g rank cache0 s) (h2 : Inv2 s) (t : Nat) :
    mu g rank (step g s t) ≤ mu g rank s := by
  by_cases hen : enabled s t = true
  · exact Nat.le_of_lt (step_dec g rank cache0 h s hi h2 t hen)
  · have hen' : enabled s t = false := by simpa using hen
    rw [step_not_enabled g s t hen']
    exact Nat.le_refl _

theorem runSched_append (g : Url → Res) (l : List Nat) (t : Nat) :
    ∀ s, runSched g s (l ++ [t]) = step g (runSched g s l) t := by
  induction l with
  | nil => intro s; rfl
  | cons a l ih => intro s; simp only [List.cons_append, runSched]; exact ih _

/-! ## Final states -/

theorem allDone_not_enabled (s : State) (hd : allDone s = true) (t : Nat) : enabled s t = false := by
  simp only [allDone, Bool.and_eq_true, List.isEmpty_iff, List.all_eq_true] at hd
  obtain ⟨⟨hc, _⟩, hth⟩ := hd
  cases t with
  | zero => simp [enabled, stackOf, hc]
  | succ i =>
    cases hi : s.threads[i]? with
    | none => simp [enabled, stackOf, hi]
    | some th =>
      have := hth th (List.mem_of_getElem? hi)
      simp [enabled, stackOf, hi, this]

/-- The operations completed so far (oldest first) followed by the rest of the program. -/
def trace (s : State) : List Op := (s.results.reverse.map fun r => r.op) ++ s.prog

theorem startOp_trace (s : State) : (startOp s).results = s.results ∧ (startOp s).prog = s.prog := by
  unfold startOp
  split <;> exact ⟨rfl, rfl⟩

theorem finishOp_trace (s : State) (v : Val) : trace (finishOp s v) = trace s := by
  unfold finishOp
  cases hp : s.prog with
  | nil => simp only
  | cons op rest =>
    simp only
    unfold trace
    rw [(startOp_trace _).1, (startOp_trace _).2, hp]
    simp

theorem step_trace (g : Url → Res) (s : State) (t : Nat) : trace (step g s t) = trace s := by
  unfold step
  split
  · split
    · rfl
    · rename_i f rest hstk
      generalize topStep g s.sh (s.threads.length + 1) f = p
      obtain ⟨sh', nx, sp⟩ := p
      simp only
      cases applyNext nx rest with
      | none => rfl
      | some q =>
        obtain ⟨st, bottom⟩ := q
        have h1 : trace (spawnThread (setStack { s with sh := sh' } t st) sp) = trace s := by
          cases sp <;> cases t <;> rfl
        cases bottom with
        | none => exact h1
        | some v =>
          cases t with
          | succ i => exact h1
          | zero => simp only; rw [finishOp_trace]; exact h1
  · rfl

theorem runSched_trace (g : Url → Res) (sched : List Nat) :
    ∀ s, trace (runSched g s sched) = trace s := by
  induction sched with
  | nil => intro s; rfl
  | cons t ts ih => intro s; simp only [runSched]; rw [ih, step_trace]

theorem init_trace (cache0 : Url → CacheSt) (prog : List Op) : trace (init cache0 prog) = prog := by
  unfold trace init
  rw [(startOp_trace _).1, (startOp_trace _).2]
  simp

end Loader
