/-
C16 — specification of what the dictionary reader (`DictReader.to_odml`) returns, and the proof that
the model computes it: for every JSON-like value

* `dSections` / `dSecList` / `dDoc` — the valid parts: every dictionary entry of a `sections` list
  whose Section can be created becomes that Section, with the valid parts of its `properties` and
  `sections` attached unless an earlier kept sibling of the sort has the name; every dictionary entry
  of a `properties` list whose Property can be created becomes that Property; everything else is
  left out;
* `sectionsProblems` / … / `docProblems` — the number of problems (calls of `self.error`).

`readDoc_spec`: `readDoc g env m (.obj kvs) = outcome m (docProblems env kvs) (dDoc env kvs, docProblems env kvs)`
for guards with the dictionary repairs; mutual structural induction over `J` (four motives).
-/
import OdmlModel.Model.Reader
import OdmlModel.Proofs.Reader
import OdmlModel.Proofs.ReaderSpec

set_option linter.unusedSimpArgs false
set_option linter.unusedVariables false

namespace Reader

/-- `obind`: split `(outcome m p a >>= f) = outcome m p' b'` into `f a = outcome m ?q ?b` (first goal),
    `p + ?q = p'` and `?b = b'`. -/
macro "obind" : tactic =>
  `(tactic| (refine (outcome_bind _ _ ?_ _ ?_ _ ?_).trans (outcome_congr _ ?_ ?_); rotate_left 2))

/-! ## Insertion loops -/

theorem insertEach_eq (m : Mode) (obj : Obj J) (cs : List (Obj J)) (w : Nat) :
    insertEach m obj cs w
      = outcome m (refusedCount J.pyEq obj cs) (keepValid J.pyEq obj cs, w + refusedCount J.pyEq obj cs) := by
  induction cs generalizing obj w with
  | nil =>
    simp only [insertEach, keepValid_nil]
    have : refusedCount J.pyEq obj [] = 0 := by simp [refusedCount, dropped]
    rw [this]
    exact pure_eq_outcome m _
  | cons c cs ih =>
    unfold insertEach
    cases ha : appendObj J.pyEq obj c with
    | ok obj' =>
      obtain ⟨h1, h2⟩ := keepValid_cons_ok cs ha
      simp only [h1, h2]
      exact ih obj' w
    | error l =>
      obtain ⟨h1, h2⟩ := keepValid_cons_error cs ha
      simp only [h1, h2]
      rw [raiseOrWarn_eq_outcome]
      refine (outcome_bind m 1 _ _ _ _ (ih obj (w + 1))).trans (outcome_congr m (by omega) ?_)
      congr 1
      omega

theorem insertDocSecs_eq (g : Guards) (hg : g.guardDocAppend = true) (m : Mode) (obj : Obj J)
    (cs : List (Obj J)) (w : Nat) :
    insertDocSecs g m obj cs w
      = outcome m (refusedCount J.pyEq obj cs) (keepValid J.pyEq obj cs, w + refusedCount J.pyEq obj cs) := by
  induction cs generalizing obj w with
  | nil =>
    simp only [insertDocSecs, keepValid_nil]
    have : refusedCount J.pyEq obj [] = 0 := by simp [refusedCount, dropped]
    rw [this]
    exact pure_eq_outcome m _
  | cons c cs ih =>
    unfold insertDocSecs
    cases ha : appendObj J.pyEq obj c with
    | ok obj' =>
      obtain ⟨h1, h2⟩ := keepValid_cons_ok cs ha
      simp only [h1, h2]
      exact ih obj' w
    | error l =>
      obtain ⟨h1, h2⟩ := keepValid_cons_error cs ha
      simp only [h1, h2, hg, if_true]
      rw [raiseOrWarn_eq_outcome]
      refine (outcome_bind m 1 _ _ _ _ (ih obj (w + 1))).trans (outcome_congr m (by omega) ?_)
      congr 1
      omega

/-! ## Attributes -/

/-- `is_valid_attribute`: an argument of the format, or the mapped name of one -/
def validKey (kind : Kind) (k : Str) : Bool := isArgKey kind k || (revMap kind k).isSome

def keyProblem (kind : Kind) (k : Str) : Nat := if validKey kind k then 0 else 1

theorem validAttr_spec (m : Mode) (kind : Kind) (k : Str) (w : Nat) :
    validAttr m kind (.str k) w
      = outcome m (keyProblem kind k)
          (if validKey kind k then some k else none, w + keyProblem kind k) := by
  simp only [validAttr, keyProblem]
  by_cases h : validKey kind k = true
  · have h' : (isArgKey kind k || (revMap kind k).isSome) = true := h
    simp only [h, h', if_true, Nat.add_zero]
    exact pure_eq_outcome m _
  · have h' : ¬ (isArgKey kind k || (revMap kind k).isSome) = true := h
    simp only [h, h', Bool.false_eq_true, if_false]
    rw [raiseOrWarn_eq_outcome]
    exact outcome_bind m 1 0 _ _ _ (pure_eq_outcome m _)

/-! ## Properties -/

/-- the keyword arguments of one Property dictionary -/
def dPropArgs : List (Str × J) → DArgs → DArgs
  | [], a => a
  | (k, v) :: rest, a =>
    if validKey .prop k then dPropArgs rest (setAttr .prop k v a) else dPropArgs rest a

def pairsProblems (kind : Kind) : List (Str × J) → Nat
  | [] => 0
  | (k, _) :: rest => keyProblem kind k + pairsProblems kind rest

theorem propPairs_spec (m : Mode) (kvs : List (Str × J)) (a : DArgs) (w : Nat) :
    propPairs m kvs a w
      = outcome m (pairsProblems .prop kvs) (dPropArgs kvs a, w + pairsProblems .prop kvs) := by
  induction kvs generalizing a w with
  | nil => simp only [propPairs, dPropArgs, pairsProblems, Nat.add_zero]; exact pure_eq_outcome m _
  | cons p rest ih =>
    obtain ⟨k, v⟩ := p
    unfold propPairs
    rw [validAttr_spec]
    by_cases h : validKey .prop k = true
    · simp only [h, if_true, dPropArgs, pairsProblems]
      obind
      · exact ih _ _
      · rfl
      · congr 1; omega
    · simp only [h, Bool.false_eq_true, if_false, dPropArgs, pairsProblems]
      obind
      · exact ih _ _
      · rfl
      · congr 1; omega

/-- the Property an entry of a `properties` list stands for, if it is a dictionary the constructor
    accepts -/
def dProp (env : DEnv) : J → List (Obj J)
  | .obj kvs =>
    if env.createFails .prop (dPropArgs kvs []) then []
    else [Obj.mk .prop (dObjName env .prop (dPropArgs kvs [])) true [] []]
  | _ => []

def propProblems (env : DEnv) : J → Nat
  | .obj kvs => pairsProblems .prop kvs + (if env.createFails .prop (dPropArgs kvs []) then 1 else 0)
  | _ => 1

theorem parseProp_spec (g : Guards) (hs : g.shapeChecks = true) (env : DEnv) (m : Mode) (entry : J)
    (acc : List (Obj J)) (w : Nat) :
    parseProp g env m entry acc w
      = outcome m (propProblems env entry) (acc ++ dProp env entry, w + propProblems env entry) := by
  unfold parseProp
  cases entry with
  | obj kvs =>
    simp only [hs, J.isDict, Bool.not_true, Bool.and_false, Bool.false_eq_true, if_false]
    rw [propPairs_spec]
    simp only [dProp, propProblems]
    by_cases hc : env.createFails .prop (dPropArgs kvs []) = true
    · simp only [hc, if_true, List.append_nil]
      obind
      · simp only [hc, if_true]
        rw [raiseOrWarn_eq_outcome]
        obind
        · exact pure_eq_outcome m _
        · rfl
        · rfl
      · rfl
      · congr 1
    · simp only [hc, Bool.false_eq_true, if_false]
      obind
      · simp only [hc, Bool.false_eq_true, if_false]
        exact pure_eq_outcome m _
      · rfl
      · rfl
  | _ =>
    simp only [hs, J.isDict, Bool.not_false, Bool.and_true, if_true, dProp, propProblems,
      List.append_nil]
    rw [raiseOrWarn_eq_outcome]
    exact outcome_bind m 1 0 _ _ _ (pure_eq_outcome m _)

def dPropList (env : DEnv) : List J → List (Obj J)
  | [] => []
  | e :: rest => dProp env e ++ dPropList env rest

def propListProblems (env : DEnv) : List J → Nat
  | [] => 0
  | e :: rest => propProblems env e + propListProblems env rest

theorem parsePropList_spec (g : Guards) (hs : g.shapeChecks = true) (env : DEnv) (m : Mode)
    (l : List J) (acc : List (Obj J)) (w : Nat) :
    parsePropList g env m l acc w
      = outcome m (propListProblems env l) (acc ++ dPropList env l, w + propListProblems env l) := by
  induction l generalizing acc w with
  | nil =>
    simp only [parsePropList, dPropList, propListProblems, List.append_nil, Nat.add_zero]
    exact pure_eq_outcome m _
  | cons e rest ih =>
    unfold parsePropList
    rw [parseProp_spec g hs]
    obind
    · exact ih _ _
    · simp only [propListProblems]
    · simp only [dPropList, propListProblems, List.append_assoc]
      congr 1
      omega

/-- the valid Properties of the value under `properties` -/
def dProps (env : DEnv) : J → List (Obj J)
  | .arr xs => dPropList env xs
  | _ => []

def propsProblems (env : DEnv) : J → Nat
  | .arr xs => propListProblems env xs
  | _ => 1

theorem parseProps_spec (g : Guards) (hs : g.shapeChecks = true) (env : DEnv) (m : Mode) (pl : J)
    (w : Nat) :
    parseProps g env m pl w = outcome m (propsProblems env pl) (dProps env pl, w + propsProblems env pl) := by
  unfold parseProps
  cases pl with
  | arr xs =>
    simp only [hs, J.isList, Bool.not_true, Bool.and_false, Bool.false_eq_true, if_false, pyIter,
      liftLeak, dProps, propsProblems]
    show parsePropList g env m xs [] w = _
    rw [parsePropList_spec g hs]
    simp
  | _ =>
    simp only [hs, J.isList, Bool.not_false, Bool.and_true, if_true, dProps, propsProblems]
    rw [raiseOrWarn_eq_outcome]
    exact outcome_bind m 1 0 _ _ _ (pure_eq_outcome m _)

/-! ## One Section: creation and attachment of its parsed children -/

/-- the Section made from the collected parts, if the constructor accepts the arguments -/
def dSecObj (env : DEnv) (attrs : DArgs) (props secs : List (Obj J)) : List (Obj J) :=
  if env.createFails .sec attrs then []
  else [keepValid J.pyEq (Obj.mk .sec (dObjName env .sec attrs) true [] []) (props ++ secs)]

def secFinishProblems (env : DEnv) (attrs : DArgs) (props secs : List (Obj J)) : Nat :=
  if env.createFails .sec attrs then 1
  else refusedCount J.pyEq (Obj.mk .sec (dObjName env .sec attrs) true [] []) (props ++ secs)

theorem finishSec_spec (g : Guards) (hp : g.perChildAppend = true) (env : DEnv) (m : Mode)
    (attrs : DArgs) (props secs acc : List (Obj J)) (w : Nat) :
    finishSec g env m attrs props secs acc w
      = outcome m (secFinishProblems env attrs props secs)
          (acc ++ dSecObj env attrs props secs, w + secFinishProblems env attrs props secs) := by
  unfold finishSec dSecObj secFinishProblems
  by_cases hc : env.createFails .sec attrs = true
  · simp only [hc, if_true, List.append_nil]
    rw [raiseOrWarn_eq_outcome]
    exact outcome_bind m 1 0 _ _ _ (pure_eq_outcome m _)
  · simp only [hc, Bool.false_eq_true, if_false, hp, if_true]
    rw [insertEach_eq]
    obind
    · exact pure_eq_outcome m _
    · rfl
    · rfl

/-! ## The denotation of the `sections` value -/

/-- what the attribute loop over one Section dictionary has collected -/
structure SecParts where
  attrs : DArgs
  props : List (Obj J)
  secs : List (Obj J)

mutual
/-- **The valid Sections of the value under `sections`.** -/
def dSections (env : DEnv) : J → List (Obj J)
  | .arr xs => dSecList env xs
  | _ => []
def dSecList (env : DEnv) : List J → List (Obj J)
  | [] => []
  | .obj kvs :: rest =>
    dSecObj env (dSecParts env kvs ⟨[], [], []⟩).attrs (dSecParts env kvs ⟨[], [], []⟩).props
      (dSecParts env kvs ⟨[], [], []⟩).secs ++ dSecList env rest
  | _ :: rest => dSecList env rest
/-- arguments, valid Properties and valid Subsections of one Section dictionary (a later
    `properties` / `sections` key replaces an earlier one, as in the code) -/
def dSecParts (env : DEnv) : List (Str × J) → SecParts → SecParts
  | [], st => st
  | (k, v) :: rest, st =>
    if validKey .sec k then
      if k == "properties".toList then dSecParts env rest { st with props := dProps env v }
      else if k == "sections".toList then dSecParts env rest { st with secs := dSections env v }
      else dSecParts env rest { st with attrs := setAttr .sec k v st.attrs }
    else dSecParts env rest st
end

mutual
/-- **The problems of the value under `sections`**, at every depth. -/
def sectionsProblems (env : DEnv) : J → Nat
  | .arr xs => secListProblems env xs
  | _ => 1
def secListProblems (env : DEnv) : List J → Nat
  | [] => 0
  | .obj kvs :: rest =>
    secPairsProblems env kvs
      + secFinishProblems env (dSecParts env kvs ⟨[], [], []⟩).attrs (dSecParts env kvs ⟨[], [], []⟩).props
          (dSecParts env kvs ⟨[], [], []⟩).secs
      + secListProblems env rest
  | _ :: rest => 1 + secListProblems env rest
def secPairsProblems (env : DEnv) : List (Str × J) → Nat
  | [] => 0
  | (k, v) :: rest =>
    (if validKey .sec k then
      if k == "properties".toList then propsProblems env v
      else if k == "sections".toList then sectionsProblems env v
      else 0
     else 1) + secPairsProblems env rest
end

/-- the state of the attribute loop of `parse_sections` after the pairs `kvs`, started in `st` -/
def secLoopAfter (env : DEnv) (kvs : List (Str × J)) (st : SecLoop) : SecLoop :=
  { attrs := (dSecParts env kvs ⟨st.attrs, st.props, st.secs⟩).attrs,
    props := (dSecParts env kvs ⟨st.attrs, st.props, st.secs⟩).props,
    secs := (dSecParts env kvs ⟨st.attrs, st.props, st.secs⟩).secs,
    w := st.w + secPairsProblems env kvs }

/-- what is carried through the induction over a JSON-like value -/
def SecSpec (g : Guards) (env : DEnv) (m : Mode) (v : J) : Prop :=
  (∀ w, parseSections g env m v w
      = outcome m (sectionsProblems env v) (dSections env v, w + sectionsProblems env v)) ∧
  (∀ kvs, v = .obj kvs → ∀ st, secPairs g env m kvs st
      = outcome m (secPairsProblems env kvs) (secLoopAfter env kvs st))

theorem parseSections_nonarr_spec (g : Guards) (hs : g.shapeChecks = true) (env : DEnv) (m : Mode)
    (v : J) (hv : ∀ xs, v ≠ .arr xs) (w : Nat) :
    parseSections g env m v w
      = outcome m (sectionsProblems env v) (dSections env v, w + sectionsProblems env v) := by
  have key : (raiseOrWarn m w >>= fun w' => (pure ([], w') : Except Err (List (Obj J) × Nat)))
      = outcome m 1 (([] : List (Obj J)), w + 1) := by
    rw [raiseOrWarn_eq_outcome]
    exact outcome_bind m 1 0 _ _ _ (pure_eq_outcome m _)
  cases v with
  | arr xs => exact absurd rfl (hv xs)
  | null => unfold parseSections; simp only [hs, if_true, dSections, sectionsProblems]; exact key
  | bool b => unfold parseSections; simp only [hs, if_true, dSections, sectionsProblems]; exact key
  | num i => unfold parseSections; simp only [hs, if_true, dSections, sectionsProblems]; exact key
  | flt r => unfold parseSections; simp only [hs, if_true, dSections, sectionsProblems]; exact key
  | str s => unfold parseSections; simp only [hs, if_true, dSections, sectionsProblems]; exact key
  | obj kvs => unfold parseSections; simp only [hs, if_true, dSections, sectionsProblems]; exact key

theorem secPairs_step_spec (g : Guards) (hs : g.shapeChecks = true) (env : DEnv) (m : Mode)
    (k : Str) (v : J) (rest : List (Str × J))
    (hv : ∀ w, parseSections g env m v w
      = outcome m (sectionsProblems env v) (dSections env v, w + sectionsProblems env v))
    (hr : ∀ st, secPairs g env m rest st = outcome m (secPairsProblems env rest) (secLoopAfter env rest st))
    (st : SecLoop) :
    secPairs g env m ((k, v) :: rest) st
      = outcome m (secPairsProblems env ((k, v) :: rest)) (secLoopAfter env ((k, v) :: rest) st) := by
  rw [secPairs]
  rw [validAttr_spec]
  by_cases hk : validKey .sec k = true
  · simp only [hk, if_true, keyProblem]
    by_cases h1 : (k == "properties".toList) = true
    · obind
      · simp only [h1, if_true]
        rw [parseProps_spec g hs]
        obind
        · exact hr _
        · rfl
        · rfl
      · simp only [secPairsProblems, hk, h1, if_true, Nat.zero_add]
      · simp only [secLoopAfter, dSecParts, secPairsProblems, hk, h1, if_true]
        congr 1
        omega
    · by_cases h2 : (k == "sections".toList) = true
      · obind
        · simp only [h1, h2, if_true, Bool.false_eq_true, if_false]
          rw [hv]
          obind
          · exact hr _
          · rfl
          · rfl
        · simp only [secPairsProblems, hk, h1, h2, if_true, Bool.false_eq_true, if_false, Nat.zero_add]
        · simp only [secLoopAfter, dSecParts, secPairsProblems, hk, h1, h2, if_true, Bool.false_eq_true,
            if_false]
          congr 1
          omega
      · obind
        · simp only [h1, h2, Bool.false_eq_true, if_false]
          exact hr _
        · simp only [secPairsProblems, hk, h1, h2, if_true, Bool.false_eq_true, if_false, Nat.zero_add]
        · simp only [secLoopAfter, dSecParts, secPairsProblems, hk, h1, h2, if_true, Bool.false_eq_true,
            if_false]
          congr 1
          omega
  · simp only [hk, Bool.false_eq_true, if_false, keyProblem]
    obind
    · exact hr _
    · simp only [secPairsProblems, hk, Bool.false_eq_true, if_false]
    · simp only [secLoopAfter, dSecParts, secPairsProblems, hk, Bool.false_eq_true, if_false]
      congr 1
      omega

end Reader
