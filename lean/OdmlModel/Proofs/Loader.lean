/-
Helper lemmas for M-Loader (C18): the specification `resolve`, the per-frame and per-stack
invariants and what one transition of the top frame guarantees.
-/
import OdmlModel.Model.Loader

set_option linter.unusedSimpArgs false
set_option linter.unusedVariables false

namespace Loader

@[simp] theorem upd_same {α β : Type} [DecidableEq α] (f : α → β) (a : α) (b : β) :
    upd f a b a = b := by simp [upd]

theorem upd_other {α β : Type} [DecidableEq α] (f : α → β) (a x : α) (b : β) (h : x ≠ a) :
    upd f a b x = f x := by simp [upd, h]

/-! ## The specification -/

theorem resolveF_mono (g : Url → Res) (rank : Url → Nat) (h : Acyclic g rank) :
    ∀ n m u, rank u < n → rank u < m → resolveF g n u = resolveF g m u := by
  intro n
  induction n with
  | zero => intro m u hn; omega
  | succ n ih =>
    intro m u hn hm
    cases m with
    | zero => omega
    | succ m =>
      simp only [resolveF]
      cases hg : g u with
      | missing => rfl
      | garbage => rfl
      | doc incs =>
        simp only [Tree.node.injEq, true_and]
        apply List.map_congr_left
        intro v hv
        have := h u incs v hg hv
        exact ih m v (by omega) (by omega)

/-- `resolve` is "parse the resource and resolve every include, in document order". -/
theorem resolve_doc (g : Url → Res) (rank : Url → Nat) (h : Acyclic g rank) (u : Url)
    (incs : List Url) (hu : g u = .doc incs) :
    resolve g rank u = .node u (incs.map (resolve g rank)) := by
  unfold resolve
  have h1 : resolveF g (rank u + 1) u = .node u (incs.map (resolveF g (rank u))) := by
    simp [resolveF, hu]
  rw [h1]
  congr 1
  apply List.map_congr_left
  intro v hv
  have := h u incs v hu hv
  exact resolveF_mono g rank h (rank u) (rank v + 1) v (by omega) (by omega)

theorem resolve_missing (g : Url → Res) (rank : Url → Nat) (u : Url) (hu : g u = .missing) :
    resolve g rank u = .fail := by
  simp [resolve, resolveF, hu]

theorem resolve_garbage (g : Url → Res) (rank : Url → Nat) (u : Url) (hu : g u = .garbage) :
    resolve g rank u = .fail := by
  simp [resolve, resolveF, hu]

/-! ## Frame and stack invariants -/

def NotDefer (f : Frame) : Prop := ∀ k, f ≠ .defer k

/-- Thread-local data agree with the deterministic `_load` program. -/
def FrameOK (g : Url → Res) (rank : Url → Nat) : Frame → Prop
  | .fin k todo acc _ _ =>
    ∃ done, g k.url = .doc (done ++ todo) ∧ acc = (done.map (resolve g rank)).reverse ∧ todo ≠ []
  | .pub k v => v.content = resolve g rank k.url
  | _ => True

/-- Every frame above another one is the `load` of the include the lower frame waits for. -/
def Links : List Frame → Prop
  | [] => True
  | [_] => True
  | f :: f' :: rest =>
    (∃ k u todo acc id, f' = .fin k (u :: todo) acc id true ∧ f.key = tkey u ∧ NotDefer f)
      ∧ Links (f' :: rest)

def StackOK (g : Url → Res) (rank : Url → Nat) (st : List Frame) : Prop :=
  (∀ f ∈ st, FrameOK g rank f) ∧ Links st

/-- Every published entry is the specified content. -/
def TableOK (g : Url → Res) (rank : Url → Nat) (sh : Shared) : Prop :=
  ∀ k v, sh.loaded k = some v → v.content = resolve g rank k.url

/-- The bottom frame of a stack works for key `k` and is not a bare `deferred_load`. -/
def BotOK (st : List Frame) (k : Key) : Prop :=
  ∀ f, st.getLast? = some f → f.key = k ∧ NotDefer f

theorem advance_ok (g : Url → Res) (rank : Url → Nat) (h : Acyclic g rank) (k : Key)
    (done todo : List Url) (acc : List Tree) (id : Nat)
    (hg : g k.url = .doc (done ++ todo)) (hacc : acc = (done.map (resolve g rank)).reverse) :
    FrameOK g rank (advance k todo acc id) := by
  cases todo with
  | nil =>
    simp only [advance, FrameOK, Val.content]
    rw [resolve_doc g rank h k.url _ hg]
    simp [hacc]
  | cons u t =>
    simp only [advance, FrameOK]
    exact ⟨done, hg, hacc, by simp⟩

theorem advance_key (k : Key) (todo : List Url) (acc : List Tree) (id : Nat) :
    (advance k todo acc id).key = k ∧ NotDefer (advance k todo acc id) := by
  cases todo <;> simp [advance, Frame.key, NotDefer]

/-! ## cache_load -/

theorem fetch_res (g : Url → Res) (sh : Shared) (k : Key) : (fetch g sh k).2 = g k.url := by
  unfold fetch
  split
  · rfl
  · split <;> simp_all

theorem fetch_shared (g : Url → Res) (sh : Shared) (k : Key) :
    (fetch g sh k).1.loaded = sh.loaded ∧ (fetch g sh k).1.loading = sh.loading ∧
    (fetch g sh k).1.epoch = sh.epoch ∧ (fetch g sh k).1.nextId = sh.nextId ∧
    (fetch g sh k).1.err = sh.err ∧ (fetch g sh k).1.reload = sh.reload := by
  unfold fetch
  split
  · simp
  · split <;> simp

/-- A failed fetch never creates or overwrites a cache file (nor does any other fetch touch the
    file of an unfetchable URL). -/
theorem fetch_cache (g : Url → Res) (sh : Shared) (k : Key) (u : Url) (hu : g u = .missing) :
    (fetch g sh k).1.cache u = sh.cache u ∧ (fetch g sh k).1.wcount u = sh.wcount u := by
  unfold fetch
  split
  · simp
  · split
    · simp
    · rename_i r hr
      have hne : u ≠ k.url := by
        intro he
        subst he
        cases hk : g k.url <;> simp_all
      simp [upd_other _ _ _ _ hne]

/-! ## One transition of the top frame -/

/-- What a transition of the top frame `f` guarantees. -/
structure TopFacts (g : Url → Res) (rank : Url → Nat) (sh sh' : Shared) (f : Frame) (nx : Next)
    (sp : Option Key) (ntid : Nat) : Prop where
  table : TableOK g rank sh'
  cache : ∀ u, g u = .missing → sh'.cache u = sh.cache u ∧ sh'.wcount u = sh.wcount u
  cont : ∀ fs, nx = .cont fs →
    (∃ f1, fs = [f1] ∧ FrameOK g rank f1 ∧ f1.key = f.key ∧ NotDefer f1) ∨
    (∃ k u todo acc id, f = .fin k (u :: todo) acc id false ∧
      fs = [.load (tkey u), .fin k (u :: todo) acc id true])
  ret : ∀ v, nx = .ret v → NotDefer f →
    v.content = resolve g rank f.key.url ∧ ∀ o, v = some o → sh'.loaded f.key = some (some o)
  mono : (∀ k, f ≠ .clear k) →
    sh'.epoch = sh.epoch ∧ ∀ k v, sh.loaded k = some v → sh'.loaded k = some v
  epochle : sh.epoch ≤ sh'.epoch
  errSame : (∀ k todo acc id, f ≠ .fin k todo acc id true) → sh'.err = sh.err
  spawned : ∀ k, sp = some k → sh'.loading k = some ntid
  loadingOld : ∀ k t, sh'.loading k = some t → sh.loading k = some t ∨ (sp = some k ∧ t = ntid)

theorem beginLoad_facts (g : Url → Res) (rank : Url → Nat) (h : Acyclic g rank) (sh : Shared)
    (k : Key) (f : Frame) (hk : f.key = k) (ntid : Nat) (ht : TableOK g rank sh)
    (sh' : Shared) (nx : Next) (hb : beginLoad g sh k = (sh', nx)) :
    TopFacts g rank sh sh' f nx none ntid ∧ (∀ v, nx = .ret v → v = none) ∧
      sh'.loaded = sh.loaded ∧ sh'.loading = sh.loading := by
  unfold beginLoad at hb
  have hr := fetch_res g sh k
  have hs := fetch_shared g sh k
  have hc := fetch_cache g sh k
  generalize fetch g sh k = p at hb hr hs hc
  obtain ⟨sh1, r⟩ := p
  simp only at hb hr hs hc
  obtain ⟨hl, hlg, he, hn, herr, hrl⟩ := hs
  subst hr
  cases hg : g k.url with
  | missing =>
    simp only [hg, Prod.mk.injEq] at hb
    obtain ⟨rfl, rfl⟩ := hb
    refine ⟨⟨?_, hc, ?_, ?_, ?_, ?_, ?_, ?_, ?_⟩, ?_, hl, hlg⟩
    · intro k' v hv; rw [hl] at hv; exact ht k' v hv
    · intro fs hfs; cases hfs
    · intro v hv _
      cases hv
      refine ⟨?_, by intro o ho; cases ho⟩
      rw [hk, resolve_missing g rank _ hg]; rfl
    · intro _; exact ⟨he, by intro k' v hv; rw [hl]; exact hv⟩
    · omega
    · intro _; exact herr
    · intro k' hk'; cases hk'
    · intro k' t ht'; left; rw [hlg] at ht'; exact ht'
    · intro v hv; cases hv; rfl
  | garbage =>
    simp only [hg] at hb
    by_cases htpl : k.tpl = true
    · simp only [htpl, if_true, Prod.mk.injEq] at hb
      obtain ⟨rfl, rfl⟩ := hb
      refine ⟨⟨?_, hc, ?_, ?_, ?_, ?_, ?_, ?_, ?_⟩, ?_, hl, hlg⟩
      · intro k' v hv; rw [hl] at hv; exact ht k' v hv
      · intro fs hfs; cases hfs
      · intro v hv _
        cases hv
        refine ⟨?_, by intro o ho; cases ho⟩
        rw [hk, resolve_garbage g rank _ hg]; rfl
      · intro _; exact ⟨he, by intro k' v hv; rw [hl]; exact hv⟩
      · omega
      · intro _; exact herr
      · intro k' hk'; cases hk'
      · intro k' t ht'; left; rw [hlg] at ht'; exact ht'
      · intro v hv; cases hv; rfl
    · simp only [htpl, Bool.false_eq_true, if_false, Prod.mk.injEq] at hb
      obtain ⟨rfl, rfl⟩ := hb
      refine ⟨⟨?_, hc, ?_, ?_, ?_, ?_, ?_, ?_, ?_⟩, ?_, hl, hlg⟩
      · intro k' v hv; rw [hl] at hv; exact ht k' v hv
      · intro fs hfs
        left
        cases hfs
        refine ⟨_, rfl, ?_, hk.symm, by simp [NotDefer]⟩
        simp only [FrameOK, Val.content]
        rw [resolve_garbage g rank _ hg]
      · intro v hv; cases hv
      · intro _; exact ⟨he, by intro k' v hv; rw [hl]; exact hv⟩
      · omega
      · intro _; exact herr
      · intro k' hk'; cases hk'
      · intro k' t ht'; left; rw [hlg] at ht'; exact ht'
      · intro v hv; cases hv
  | doc incs =>
    simp only [hg, Prod.mk.injEq] at hb
    obtain ⟨rfl, rfl⟩ := hb
    refine ⟨⟨?_, hc, ?_, ?_, ?_, ?_, ?_, ?_, ?_⟩, ?_, hl, hlg⟩
    · intro k' v hv; simp only [hl] at hv; exact ht k' v hv
    · intro fs hfs
      left
      cases hfs
      refine ⟨_, rfl, ?_, ?_, ?_⟩
      · exact advance_ok g rank h k [] incs [] _ (by simpa using hg) (by simp)
      · rw [(advance_key k incs [] _).1, hk]
      · exact (advance_key k incs [] _).2
    · intro v hv; cases hv
    · intro _; exact ⟨he, by intro k' v hv; simp only [hl]; exact hv⟩
    · simp only; omega
    · intro _; exact herr
    · intro k' hk'; cases hk'
    · intro k' t ht'; left; simp only [hlg] at ht'; exact ht'
    · intro v hv; cases hv

theorem deferSection_facts (sh : Shared) (ntid : Nat) (k : Key) (sh' : Shared) (sp : Option Key)
    (hd : deferSection sh ntid k = (sh', sp)) :
    sh'.loaded = sh.loaded ∧ sh'.cache = sh.cache ∧ sh'.wcount = sh.wcount ∧ sh'.epoch = sh.epoch ∧
    sh'.err = sh.err ∧
    (∀ k', sp = some k' → sh'.loading k' = some ntid) ∧
    (∀ k' t, sh'.loading k' = some t → sh.loading k' = some t ∨ (sp = some k' ∧ t = ntid)) := by
  unfold deferSection at hd
  split at hd
  · simp only [Prod.mk.injEq] at hd
    obtain ⟨rfl, rfl⟩ := hd
    refine ⟨rfl, rfl, rfl, rfl, rfl, ?_, ?_⟩
    · intro k' hk'; cases hk'
    · intro k' t ht; left; exact ht
  · simp only [Prod.mk.injEq] at hd
    obtain ⟨rfl, rfl⟩ := hd
    refine ⟨rfl, rfl, rfl, rfl, rfl, ?_, ?_⟩
    · intro k' hk'; cases hk'; simp
    · intro k' t ht
      by_cases hkk : k' = k
      · subst hkk
        simp at ht
        right; exact ⟨rfl, ht.symm⟩
      · left
        simpa [upd_other _ _ _ _ hkk] using ht

theorem topStep_facts (g : Url → Res) (rank : Url → Nat) (h : Acyclic g rank) (sh : Shared)
    (ntid : Nat) (f : Frame) (ht : TableOK g rank sh) (hf : FrameOK g rank f)
    (sh' : Shared) (nx : Next) (sp : Option Key) (hs : topStep g sh ntid f = (sh', nx, sp)) :
    TopFacts g rank sh sh' f nx sp ntid := by
  cases f with
  | start k =>
    simp only [topStep] at hs
    generalize hb : beginLoad g sh k = p at hs
    obtain ⟨s, n⟩ := p
    simp only [Prod.mk.injEq] at hs
    obtain ⟨rfl, rfl, rfl⟩ := hs
    exact (beginLoad_facts g rank h sh k (.start k) rfl ntid ht _ _ hb).1
  | load k =>
    simp only [topStep] at hs
    cases hl : sh.loaded k with
    | some v =>
      simp only [hl, Prod.mk.injEq] at hs
      obtain ⟨rfl, rfl, rfl⟩ := hs
      refine ⟨ht, by intro u _; exact ⟨rfl, rfl⟩, ?_, ?_, ?_, ?_, ?_, ?_, ?_⟩
      · intro fs hfs; cases hfs
      · intro v' hv _
        cases hv
        exact ⟨ht k v hl, by intro o ho; subst ho; exact hl⟩
      · intro _; exact ⟨rfl, by intro k' v' hv; exact hv⟩
      · omega
      · intro _; rfl
      · intro k' hk'; cases hk'
      · intro k' t ht'; left; exact ht'
    | none =>
      cases hlg : sh.loading k with
      | some t =>
        simp only [hl, hlg, Prod.mk.injEq] at hs
        obtain ⟨rfl, rfl, rfl⟩ := hs
        refine ⟨ht, by intro u _; exact ⟨rfl, rfl⟩, ?_, ?_, ?_, ?_, ?_, ?_, ?_⟩
        · intro fs hfs
          left
          cases hfs
          exact ⟨_, rfl, trivial, rfl, by simp [NotDefer]⟩
        · intro v hv; cases hv
        · intro _; exact ⟨rfl, by intro k' v' hv; exact hv⟩
        · omega
        · intro _; rfl
        · intro k' hk'; cases hk'
        · intro k' t' ht'; left; exact ht'
      | none =>
        simp only [hl, hlg] at hs
        generalize hb : beginLoad g sh k = p at hs
        obtain ⟨s, n⟩ := p
        simp only [Prod.mk.injEq] at hs
        obtain ⟨rfl, rfl, rfl⟩ := hs
        exact (beginLoad_facts g rank h sh k (.load k) rfl ntid ht _ _ hb).1
  | join k t =>
    simp only [topStep, Prod.mk.injEq] at hs
    obtain ⟨rfl, rfl, rfl⟩ := hs
    refine ⟨ht, by intro u _; exact ⟨rfl, rfl⟩, ?_, ?_, ?_, ?_, ?_, ?_, ?_⟩
    · intro fs hfs
      left
      cases hfs
      exact ⟨_, rfl, trivial, rfl, by simp [NotDefer]⟩
    · intro v hv; cases hv
    · intro _; exact ⟨rfl, by intro k' v' hv; exact hv⟩
    · omega
    · intro _; rfl
    · intro k' hk'; cases hk'
    · intro k' t' ht'; left; exact ht'
  | pop k =>
    simp only [topStep, Prod.mk.injEq] at hs
    obtain ⟨rfl, rfl, rfl⟩ := hs
    refine ⟨ht, by intro u _; exact ⟨rfl, rfl⟩, ?_, ?_, ?_, ?_, ?_, ?_, ?_⟩
    · intro fs hfs
      left
      cases hfs
      exact ⟨_, rfl, trivial, rfl, by simp [NotDefer]⟩
    · intro v hv; cases hv
    · intro _; exact ⟨rfl, by intro k' v' hv; exact hv⟩
    · simp
    · intro _; rfl
    · intro k' hk'; cases hk'
    · intro k' t' ht'
      left
      by_cases hkk : k' = k
      · subst hkk; simp at ht'
      · simpa [upd_other _ _ _ _ hkk] using ht'
  | fin k todo acc id aw =>
    cases aw with
    | true =>
      simp only [topStep, Prod.mk.injEq] at hs
      obtain ⟨rfl, rfl, rfl⟩ := hs
      refine ⟨ht, by intro u _; exact ⟨rfl, rfl⟩, ?_, ?_, ?_, ?_, ?_, ?_, ?_⟩
      · intro fs hfs
        left
        cases hfs
        exact ⟨_, rfl, hf, rfl, by simp [NotDefer]⟩
      · intro v hv; cases hv
      · intro _; exact ⟨rfl, by intro k' v' hv; exact hv⟩
      · simp
      · intro hne; exact absurd rfl (hne k todo acc id)
      · intro k' hk'; cases hk'
      · intro k' t' ht'; left; exact ht'
    | false =>
      cases todo with
      | nil =>
        obtain ⟨done, _, _, hne⟩ := hf
        exact absurd rfl hne
      | cons u todo =>
        simp only [topStep] at hs
        generalize hd : deferSection sh ntid (tkey u) = p at hs
        obtain ⟨s, spw⟩ := p
        simp only [Prod.mk.injEq] at hs
        obtain ⟨rfl, rfl, rfl⟩ := hs
        obtain ⟨hl, hc, hw, he, herr, hsp, hold⟩ := deferSection_facts sh ntid (tkey u) _ _ hd
        refine ⟨?_, ?_, ?_, ?_, ?_, ?_, ?_, hsp, hold⟩
        · intro k' v hv; rw [hl] at hv; exact ht k' v hv
        · intro u' _; rw [hc, hw]; exact ⟨rfl, rfl⟩
        · intro fs hfs
          right
          cases hfs
          exact ⟨k, u, todo, acc, id, rfl, rfl⟩
        · intro v hv; cases hv
        · intro _; exact ⟨he, by intro k' v' hv; rw [hl]; exact hv⟩
        · omega
        · intro _; exact herr
  | pub k v =>
    simp only [topStep] at hs
    cases hl : sh.loaded k with
    | some v' =>
      simp only [hl, Prod.mk.injEq] at hs
      obtain ⟨rfl, rfl, rfl⟩ := hs
      refine ⟨ht, by intro u _; exact ⟨rfl, rfl⟩, ?_, ?_, ?_, ?_, ?_, ?_, ?_⟩
      · intro fs hfs; cases hfs
      · intro v'' hv _
        cases hv
        exact ⟨ht k v' hl, by intro o ho; subst ho; exact hl⟩
      · intro _; exact ⟨rfl, by intro k' v'' hv; exact hv⟩
      · omega
      · intro _; rfl
      · intro k' hk'; cases hk'
      · intro k' t ht'; left; exact ht'
    | none =>
      simp only [hl, Prod.mk.injEq] at hs
      obtain ⟨rfl, rfl, rfl⟩ := hs
      refine ⟨?_, by intro u _; exact ⟨rfl, rfl⟩, ?_, ?_, ?_, ?_, ?_, ?_, ?_⟩
      · intro k' v' hv
        by_cases hkk : k' = k
        · subst hkk
          simp at hv
          subst hv
          exact hf
        · simp only [upd_other _ _ _ _ hkk] at hv
          exact ht k' v' hv
      · intro fs hfs; cases hfs
      · intro v' hv _
        cases hv
        exact ⟨hf, by intro o ho; subst ho; simp [Frame.key]⟩
      · intro _
        refine ⟨rfl, ?_⟩
        intro k' v' hv
        by_cases hkk : k' = k
        · subst hkk; rw [hl] at hv; cases hv
        · simpa [upd_other _ _ _ _ hkk] using hv
      · simp
      · intro _; rfl
      · intro k' hk'; cases hk'
      · intro k' t ht'; left; exact ht'
  | defer k =>
    simp only [topStep] at hs
    generalize hd : deferSection sh ntid k = p at hs
    obtain ⟨s, spw⟩ := p
    simp only [Prod.mk.injEq] at hs
    obtain ⟨rfl, rfl, rfl⟩ := hs
    obtain ⟨hl, hc, hw, he, herr, hsp, hold⟩ := deferSection_facts sh ntid k _ _ hd
    refine ⟨?_, ?_, ?_, ?_, ?_, ?_, ?_, hsp, hold⟩
    · intro k' v hv; rw [hl] at hv; exact ht k' v hv
    · intro u' _; rw [hc, hw]; exact ⟨rfl, rfl⟩
    · intro fs hfs; cases hfs
    · intro v hv hnd; exact absurd rfl (hnd k)
    · intro _; exact ⟨he, by intro k' v' hv; rw [hl]; exact hv⟩
    · omega
    · intro _; exact herr
  | clear k =>
    simp only [topStep, Prod.mk.injEq] at hs
    obtain ⟨rfl, rfl, rfl⟩ := hs
    refine ⟨?_, by intro u _; exact ⟨rfl, rfl⟩, ?_, ?_, ?_, ?_, ?_, ?_, ?_⟩
    · intro k' v hv
      simp only at hv
      split at hv
      · exact ht k' v hv
      · cases hv
    · intro fs hfs
      left
      cases hfs
      exact ⟨_, rfl, trivial, rfl, by simp [NotDefer]⟩
    · intro v hv; cases hv
    · intro hne; exact absurd rfl (hne k)
    · simp
    · intro _; rfl
    · intro k' hk'; cases hk'
    · intro k' t ht'; left; exact ht'

theorem topStep_clear (g : Url → Res) (sh : Shared) (ntid : Nat) (k : Key)
    (sh' : Shared) (nx : Next) (sp : Option Key)
    (hs : topStep g sh ntid (.clear k) = (sh', nx, sp)) : sh'.epoch = sh.epoch + 1 := by
  simp only [topStep, Prod.mk.injEq] at hs
  obtain ⟨rfl, _, _⟩ := hs
  rfl

/-! ## One transition of a whole stack -/

theorem links_replace (f f1 : Frame) (rest : List Frame) (hl : Links (f :: rest))
    (hk : f1.key = f.key) (hn : NotDefer f1) : Links (f1 :: rest) := by
  cases rest with
  | nil => trivial
  | cons f' r =>
    obtain ⟨⟨k, u, todo, acc, id, hf', hku, _⟩, hr⟩ := hl
    exact ⟨⟨k, u, todo, acc, id, hf', by rw [hk]; exact hku, hn⟩, hr⟩

theorem links_tail (f : Frame) (rest : List Frame) (hl : Links (f :: rest)) : Links rest := by
  cases rest with
  | nil => trivial
  | cons f' r => exact hl.2

theorem getLast_cons_cons {α : Type} (a b : α) (l : List α) :
    (a :: b :: l).getLast? = (b :: l).getLast? := by
  simp [List.getLast?_cons_cons]

theorem stack_step (g : Url → Res) (rank : Url → Nat) (h : Acyclic g rank) (sh sh' : Shared)
    (f : Frame) (rest : List Frame) (nx : Next) (sp : Option Key) (ntid : Nat)
    (hst : StackOK g rank (f :: rest)) (tf : TopFacts g rank sh sh' f nx sp ntid)
    (st : List Frame) (bottom : Option Val) (ha : applyNext nx rest = some (st, bottom)) :
    StackOK g rank st ∧ (∀ k, BotOK (f :: rest) k → BotOK st k) ∧
      (∀ v, bottom = some v → rest = [] ∧ nx = .ret v ∧ st = []) := by
  obtain ⟨hfr, hlk⟩ := hst
  have hf : FrameOK g rank f := hfr f (by simp)
  have hrest : ∀ x ∈ rest, FrameOK g rank x := fun x hx => hfr x (by simp [hx])
  cases nx with
  | cont fs =>
    simp only [applyNext, Option.some.injEq, Prod.mk.injEq] at ha
    obtain ⟨rfl, rfl⟩ := ha
    refine ⟨?_, ?_, by intro v hv; cases hv⟩
    · rcases tf.cont fs rfl with ⟨f1, rfl, hf1, hk1, hn1⟩ | ⟨k, u, todo, acc, id, rfl, rfl⟩
      · refine ⟨?_, links_replace f f1 rest hlk hk1 hn1⟩
        intro x hx
        simp only [List.cons_append, List.nil_append, List.mem_cons] at hx
        rcases hx with rfl | hx
        · exact hf1
        · exact hrest x hx
      · refine ⟨?_, ?_⟩
        · intro x hx
          simp only [List.cons_append, List.nil_append, List.mem_cons] at hx
          rcases hx with rfl | rfl | hx
          · trivial
          · exact hf
          · exact hrest x hx
        · refine ⟨⟨k, u, todo, acc, id, rfl, rfl, by simp [NotDefer]⟩, ?_⟩
          exact links_replace _ _ rest hlk rfl (by simp [NotDefer])
    · intro k hb
      rcases tf.cont fs rfl with ⟨f1, rfl, hf1, hk1, hn1⟩ | ⟨k', u, todo, acc, id, rfl, rfl⟩
      · cases rest with
        | nil =>
          intro x hx
          simp at hx
          subst hx
          have := hb f (by simp)
          exact ⟨by rw [hk1]; exact this.1, hn1⟩
        | cons f' r =>
          intro x hx
          simp only [List.cons_append, List.nil_append, getLast_cons_cons] at hx
          exact hb x (by simpa [getLast_cons_cons] using hx)
      · cases rest with
        | nil =>
          intro x hx
          simp at hx
          subst hx
          have := hb (.fin k' (u :: todo) acc id false) (by simp)
          exact ⟨this.1, by simp [NotDefer]⟩
        | cons f' r =>
          intro x hx
          simp only [List.cons_append, List.nil_append, getLast_cons_cons] at hx
          exact hb x (by simpa [getLast_cons_cons] using hx)
  | ret v =>
    cases rest with
    | nil =>
      simp only [applyNext, Option.some.injEq, Prod.mk.injEq] at ha
      obtain ⟨rfl, rfl⟩ := ha
      refine ⟨⟨by intro x hx; simp at hx, trivial⟩, ?_, ?_⟩
      · intro k _ x hx; simp at hx
      · intro v' hv'; cases hv'; exact ⟨rfl, rfl, rfl⟩
    | cons f' r =>
      obtain ⟨⟨k, u, todo, acc, id, rfl, hku, hnd⟩, hr⟩ := hlk
      simp only [applyNext, deliver, Option.map_some, Option.some.injEq, Prod.mk.injEq] at ha
      obtain ⟨rfl, rfl⟩ := ha
      have hv := (tf.ret v rfl hnd).1
      rw [hku] at hv
      have hf' : FrameOK g rank (.fin k (u :: todo) acc id true) := hrest _ (by simp)
      obtain ⟨done, hg, hacc, _⟩ := hf'
      have hadv : FrameOK g rank (advance k todo (v.content :: acc) id) := by
        apply advance_ok g rank h k (done ++ [u]) todo
        · simpa using hg
        · simp [hacc, hv, tkey]
      refine ⟨⟨?_, ?_⟩, ?_, by intro v' hv'; cases hv'⟩
      · intro x hx
        simp only [List.mem_cons] at hx
        rcases hx with rfl | hx
        · exact hadv
        · exact hrest x (by simp [hx])
      · exact links_replace _ _ r hr (advance_key k todo _ id).1 (advance_key k todo _ id).2
      · intro k' hb
        cases r with
        | nil =>
          intro x hx
          simp at hx
          subst hx
          have := hb (.fin k (u :: todo) acc id true) (by simp)
          exact ⟨by rw [(advance_key k todo _ id).1]; exact this.1, (advance_key k todo _ id).2⟩
        | cons f'' r' =>
          intro x hx
          simp only [getLast_cons_cons] at hx
          exact hb x (by simpa [getLast_cons_cons] using hx)

/-! ## The global invariant -/

structure Inv (g : Url → Res) (rank : Url → Nat) (cache0 : Url → CacheSt) (s : State) : Prop where
  table : TableOK g rank s.sh
  callerSt : StackOK g rank s.caller
  thrSt : ∀ th ∈ s.threads, StackOK g rank th.stack
  callerBot : ∀ f, s.caller.getLast? = some f →
    ∃ op rest, s.prog = op :: rest ∧ ∀ k, op = .load k → f.key = k ∧ NotDefer f
  res : ∀ r ∈ s.results, ∀ k, r.op = .load k → r.val.content = resolve g rank k.url
  resEpoch : ∀ r ∈ s.results, r.epoch ≤ s.sh.epoch
  resCached : ∀ r ∈ s.results, ∀ k o, r.op = .load k → r.val = some o →
    r.epoch = s.sh.epoch → s.sh.loaded k = some (some o)
  resSame : ∀ r ∈ s.results, ∀ r' ∈ s.results, ∀ k o o', r.op = .load k → r'.op = .load k →
    r.val = some o → r'.val = some o' → r.epoch = r'.epoch → o = o'
  cache : ∀ u, g u = .missing → s.sh.cache u = cache0 u ∧ s.sh.wcount u = 0

theorem mem_setThr (ts : List Thr) (i : Nat) (st : List Frame) (x : Thr) (hx : x ∈ setThr ts i st) :
    x ∈ ts ∨ x.stack = st := by
  induction ts generalizing i with
  | nil => simp [setThr] at hx
  | cons th ts ih =>
    cases i with
    | zero =>
      simp only [setThr, List.mem_cons] at hx
      rcases hx with rfl | hx
      · right; rfl
      · left; simp [hx]
    | succ i =>
      simp only [setThr, List.mem_cons] at hx
      rcases hx with rfl | hx
      · left; simp
      · rcases ih i hx with h | h
        · left; simp [h]
        · right; exact h

theorem startOp_inv (g : Url → Res) (rank : Url → Nat) (cache0 : Url → CacheSt) (s : State)
    (hi : Inv g rank cache0 s) (hc : s.caller = []) : Inv g rank cache0 (startOp s) := by
  unfold startOp
  rw [hc]
  cases hp : s.prog with
  | nil => simp only; exact hi
  | cons op rest =>
    cases op with
    | load k =>
      simp only
      refine { hi with callerSt := ?_, callerBot := ?_ }
      · exact ⟨by intro f hf; simp at hf; subst hf; trivial, trivial⟩
      · intro f hf
        simp at hf
        subst hf
        refine ⟨_, _, rfl, ?_⟩
        intro k' hk'
        cases hk'
        exact ⟨rfl, by simp [NotDefer]⟩
    | deferred k =>
      simp only
      refine { hi with callerSt := ?_, callerBot := ?_ }
      · exact ⟨by intro f hf; simp at hf; subst hf; trivial, trivial⟩
      · intro f hf
        refine ⟨_, _, rfl, ?_⟩
        intro k' hk'
        cases hk'
    | refresh k =>
      simp only
      refine { table := hi.table, callerSt := ?_, thrSt := hi.thrSt, callerBot := ?_, res := hi.res,
               resEpoch := hi.resEpoch, resCached := hi.resCached, resSame := hi.resSame,
               cache := hi.cache }
      · exact ⟨by intro f hf; simp at hf; subst hf; trivial, trivial⟩
      · intro f hf
        refine ⟨_, _, rfl, ?_⟩
        intro k' hk'
        cases hk'

theorem init_inv (g : Url → Res) (rank : Url → Nat) (cache0 : Url → CacheSt) (prog : List Op) :
    Inv g rank cache0 (init cache0 prog) := by
  unfold init
  apply startOp_inv
  · refine ⟨?_, ?_, ?_, ?_, ?_, ?_, ?_, ?_, ?_⟩
    · intro k v hv; simp [initShared] at hv
    · exact ⟨by intro f hf; simp at hf, trivial⟩
    · intro th hth; simp at hth
    · intro f hf; simp at hf
    · intro r hr; simp at hr
    · intro r hr; simp at hr
    · intro r hr; simp at hr
    · intro r hr; simp at hr
    · intro u _; simp [initShared]
  · rfl

/-- The state after the picked thread's transition, before the caller's bookkeeping. -/
theorem mid_inv (g : Url → Res) (rank : Url → Nat) (cache0 : Url → CacheSt) (h : Acyclic g rank)
    (s : State) (hi : Inv g rank cache0 s) (t : Nat) (f : Frame) (rest : List Frame)
    (hstk : stackOf s t = f :: rest) (sh' : Shared) (nx : Next) (sp : Option Key)
    (hts : topStep g s.sh (s.threads.length + 1) f = (sh', nx, sp))
    (st : List Frame) (bottom : Option Val) (ha : applyNext nx rest = some (st, bottom)) :
    Inv g rank cache0 (spawnThread (setStack { s with sh := sh' } t st) sp) ∧
    (∀ v, bottom = some v → t = 0 → st = [] ∧ ∀ op rs k, s.prog = op :: rs → op = .load k →
      v.content = resolve g rank k.url ∧ ∀ o, v = some o → sh'.loaded k = some (some o)) := by
  have hstack : StackOK g rank (f :: rest) := by
    cases t with
    | zero => simp only [stackOf] at hstk; rw [← hstk]; exact hi.callerSt
    | succ i =>
      simp only [stackOf] at hstk
      cases hth : s.threads[i]? with
      | none => simp [hth] at hstk
      | some th =>
        simp only [hth] at hstk
        rw [← hstk]
        exact hi.thrSt th (List.mem_of_getElem? hth)
  have tf := topStep_facts g rank h s.sh _ f hi.table (hstack.1 f (by simp)) sh' nx sp hts
  obtain ⟨hst', hbot, hbv⟩ := stack_step g rank h s.sh sh' f rest nx sp _ hstack tf st bottom ha
  have hspawn : ∀ th ∈ (spawnThread (setStack { s with sh := sh' } t st) sp).threads,
      StackOK g rank th.stack := by
    intro th hth
    have hbase : ∀ th ∈ (setStack { s with sh := sh' } t st).threads, StackOK g rank th.stack := by
      intro th hth
      cases t with
      | zero => exact hi.thrSt th hth
      | succ i =>
        rcases mem_setThr _ _ _ _ hth with h1 | h1
        · exact hi.thrSt th h1
        · rw [h1]; exact hst'
    cases sp with
    | none => exact hbase th hth
    | some k =>
      simp only [spawnThread, List.mem_append, List.mem_singleton] at hth
      rcases hth with h1 | rfl
      · exact hbase th h1
      · exact ⟨by intro x hx; simp at hx; subst hx; trivial, trivial⟩
  have hshared : (spawnThread (setStack { s with sh := sh' } t st) sp).sh = sh' := by
    cases sp <;> cases t <;> rfl
  have hres : (spawnThread (setStack { s with sh := sh' } t st) sp).results = s.results := by
    cases sp <;> cases t <;> rfl
  have hprog : (spawnThread (setStack { s with sh := sh' } t st) sp).prog = s.prog := by
    cases sp <;> cases t <;> rfl
  have hcaller : (spawnThread (setStack { s with sh := sh' } t st) sp).caller =
      (match t with | 0 => st | _ + 1 => s.caller) := by
    cases sp <;> cases t <;> rfl
  refine ⟨⟨?_, ?_, hspawn, ?_, ?_, ?_, ?_, ?_, ?_⟩, ?_⟩
  rotate_right
  · intro v hv ht0
    subst ht0
    obtain ⟨rfl, rfl, rfl⟩ := hbv v hv
    refine ⟨rfl, ?_⟩
    intro op rs k hp hop
    simp only [stackOf] at hstk
    obtain ⟨op', rs', hp', hop'⟩ := hi.callerBot f (by rw [hstk]; rfl)
    rw [hp] at hp'
    cases hp'
    obtain ⟨hk, hnd⟩ := hop' k hop
    have := tf.ret v rfl hnd
    rw [hk] at this
    exact this
  · rw [hshared]; exact tf.table
  · rw [hcaller]
    cases t with
    | zero => exact hst'
    | succ i => exact hi.callerSt
  · rw [hcaller, hprog]
    cases t with
    | zero =>
      intro x hx
      simp only [stackOf] at hstk
      cases hlast : (f :: rest).getLast? with
      | none => simp at hlast
      | some b =>
        obtain ⟨op, rs, hp, hop⟩ := hi.callerBot b (by rw [hstk]; exact hlast)
        refine ⟨op, rs, hp, ?_⟩
        intro k hk
        have hb : BotOK (f :: rest) k := by
          intro y hy
          rw [hlast] at hy
          cases hy
          exact hop k hk
        exact hbot k hb x hx
    | succ i => exact hi.callerBot
  · rw [hres]; exact hi.res
  · rw [hres, hshared]
    intro r hr
    have := hi.resEpoch r hr
    have := tf.epochle
    omega
  · rw [hres, hshared]
    intro r hr k o hop hv he
    by_cases hclr : ∃ k', f = .clear k'
    · obtain ⟨k', rfl⟩ := hclr
      have := topStep_clear g s.sh _ k' sh' nx sp hts
      have := hi.resEpoch r hr
      omega
    · have hm := tf.mono (by intro k' hk'; exact hclr ⟨k', hk'⟩)
      exact hm.2 k _ (hi.resCached r hr k o hop hv (by rw [he, hm.1]))
  · rw [hres]; exact hi.resSame
  · rw [hshared]
    intro u hu
    have h1 := tf.cache u hu
    have h2 := hi.cache u hu
    exact ⟨by rw [h1.1]; exact h2.1, by rw [h1.2]; exact h2.2⟩

theorem finish_core (g : Url → Res) (rank : Url → Nat) (cache0 : Url → CacheSt) (s : State)
    (hi : Inv g rank cache0 s) (v : Val) (op : Op) (rest : List Op) (hp : s.prog = op :: rest)
    (hv : ∀ k, op = .load k →
      v.content = resolve g rank k.url ∧ ∀ o, v = some o → s.sh.loaded k = some (some o))
    (sh2 : Shared) (hl : sh2.loaded = s.sh.loaded) (he : sh2.epoch = s.sh.epoch)
    (hca : sh2.cache = s.sh.cache) (hw : sh2.wcount = s.sh.wcount) :
    Inv g rank cache0 (startOp ⟨sh2, [], rest, ⟨op, v, s.sh.epoch⟩ :: s.results, s.threads⟩) := by
  apply startOp_inv
  · refine ⟨?_, ?_, hi.thrSt, ?_, ?_, ?_, ?_, ?_, ?_⟩
    · intro k x hx; simp only [hl] at hx; exact hi.table k x hx
    · exact ⟨by intro f hf; simp at hf, trivial⟩
    · intro f hf; simp at hf
    · intro r hr k hop
      simp only [List.mem_cons] at hr
      rcases hr with rfl | hr
      · exact (hv k hop).1
      · exact hi.res r hr k hop
    · intro r hr
      simp only [List.mem_cons] at hr
      simp only [he]
      rcases hr with rfl | hr
      · exact Nat.le_refl _
      · exact hi.resEpoch r hr
    · intro r hr k o hop hval hep
      simp only [List.mem_cons] at hr
      simp only [hl]
      simp only [he] at hep
      rcases hr with rfl | hr
      · exact (hv k hop).2 o hval
      · exact hi.resCached r hr k o hop hval hep
    · intro r hr r' hr' k o o' hop hop' hval hval' hep
      simp only [List.mem_cons] at hr hr'
      rcases hr with rfl | hr <;> rcases hr' with rfl | hr'
      · rw [hval] at hval'; cases hval'; rfl
      · have h1 := (hv k hop).2 o hval
        have h2 := hi.resCached r' hr' k o' hop' hval' (by rw [← hep])
        rw [h1] at h2; cases h2; rfl
      · have h1 := (hv k hop').2 o' hval'
        have h2 := hi.resCached r hr k o hop hval (by rw [hep])
        rw [h1] at h2; cases h2; rfl
      · exact hi.resSame r hr r' hr' k o o' hop hop' hval hval' hep
    · intro u hu; simp only [hca, hw]; exact hi.cache u hu
  · rfl

theorem finishOp_inv (g : Url → Res) (rank : Url → Nat) (cache0 : Url → CacheSt) (s : State)
    (hi : Inv g rank cache0 s) (v : Val)
    (hv : ∀ op rs k, s.prog = op :: rs → op = .load k →
      v.content = resolve g rank k.url ∧ ∀ o, v = some o → s.sh.loaded k = some (some o)) :
    Inv g rank cache0 (finishOp s v) := by
  unfold finishOp
  cases hp : s.prog with
  | nil => simp only; exact hi
  | cons op rest =>
    cases op with
    | load k =>
      simp only
      exact finish_core g rank cache0 s hi v _ rest hp (fun k' hk' => hv _ rest k' hp hk') _ rfl rfl rfl rfl
    | deferred k =>
      simp only
      exact finish_core g rank cache0 s hi v _ rest hp (fun k' hk' => hv _ rest k' hp hk') _ rfl rfl rfl rfl
    | refresh k =>
      simp only
      exact finish_core g rank cache0 s hi v _ rest hp (fun k' hk' => hv _ rest k' hp hk') _ rfl rfl rfl rfl

theorem step_inv (g : Url → Res) (rank : Url → Nat) (cache0 : Url → CacheSt) (h : Acyclic g rank)
    (s : State) (hi : Inv g rank cache0 s) (t : Nat) :
    Inv g rank cache0 (step g s t) := by
  unfold step
  split
  · split
    · exact hi
    · rename_i f rest hstk
      generalize hts : topStep g s.sh (s.threads.length + 1) f = p
      obtain ⟨sh', nx, sp⟩ := p
      simp only
      cases ha : applyNext nx rest with
      | none =>
        simp only
        exact ⟨hi.table, hi.callerSt, hi.thrSt, hi.callerBot, hi.res, hi.resEpoch, hi.resCached,
               hi.resSame, hi.cache⟩
      | some q =>
        obtain ⟨st, bottom⟩ := q
        obtain ⟨hmid, hbot⟩ := mid_inv g rank cache0 h s hi t f rest hstk sh' nx sp hts st bottom ha
        cases bottom with
        | none => simp only; exact hmid
        | some v =>
          cases t with
          | succ i => simp only; exact hmid
          | zero =>
            simp only
            obtain ⟨hst, hv⟩ := hbot v rfl rfl
            apply finishOp_inv g rank cache0 _ hmid
            intro op rs k hp hop
            have hp' : s.prog = op :: rs := by
              rw [← hp]; cases sp <;> rfl
            have := hv op rs k hp' hop
            have hsh : (spawnThread (setStack { s with sh := sh' } 0 st) sp).sh = sh' := by
              cases sp <;> rfl
            rw [hsh]
            exact this
  · exact hi

theorem runSched_inv (g : Url → Res) (rank : Url → Nat) (cache0 : Url → CacheSt)
    (h : Acyclic g rank) (sched : List Nat) :
    ∀ s, Inv g rank cache0 s → Inv g rank cache0 (runSched g s sched) := by
  induction sched with
  | nil => intro s hi; exact hi
  | cons t ts ih => intro s hi; exact ih _ (step_inv g rank cache0 h s hi t)

/-! ## No error state is reachable -/

def IsAwait : Frame → Prop
  | .fin _ _ _ _ true => True
  | _ => False

/-- The frame on top of a stack is never one that waits for a callee. -/
def TopAct (st : List Frame) : Prop := ∀ f rest, st = f :: rest → ¬ IsAwait f

theorem advance_act (k : Key) (todo : List Url) (acc : List Tree) (id : Nat) :
    ¬ IsAwait (advance k todo acc id) := by
  cases todo <;> simp [advance, IsAwait]

theorem beginLoad_act (g : Url → Res) (sh : Shared) (k : Key) (sh' : Shared) (fs : List Frame)
    (hb : beginLoad g sh k = (sh', .cont fs)) : ∀ f1 r, fs = f1 :: r → ¬ IsAwait f1 := by
  unfold beginLoad at hb
  generalize fetch g sh k = p at hb
  obtain ⟨sh1, r⟩ := p
  cases r with
  | missing => simp at hb
  | garbage =>
    simp only at hb
    split at hb
    · simp at hb
    · simp only [Prod.mk.injEq, Next.cont.injEq] at hb
      obtain ⟨_, rfl⟩ := hb
      intro f1 r h
      cases h
      simp [IsAwait]
  | doc incs =>
    simp only [Prod.mk.injEq, Next.cont.injEq] at hb
    obtain ⟨_, rfl⟩ := hb
    intro f1 r h
    cases h
    exact advance_act _ _ _ _

theorem topStep_act (g : Url → Res) (sh : Shared) (ntid : Nat) (f : Frame) (hf : ¬ IsAwait f)
    (sh' : Shared) (fs : List Frame) (sp : Option Key)
    (hs : topStep g sh ntid f = (sh', .cont fs, sp)) : ∀ f1 r, fs = f1 :: r → ¬ IsAwait f1 := by
  cases f with
  | start k =>
    simp only [topStep] at hs
    generalize hb : beginLoad g sh k = p at hs
    obtain ⟨s, n⟩ := p
    simp only [Prod.mk.injEq] at hs
    obtain ⟨rfl, rfl, _⟩ := hs
    exact beginLoad_act g sh k _ _ hb
  | load k =>
    simp only [topStep] at hs
    cases hl : sh.loaded k with
    | some v => simp [hl] at hs
    | none =>
      cases hlg : sh.loading k with
      | some t =>
        simp only [hl, hlg, Prod.mk.injEq, Next.cont.injEq] at hs
        obtain ⟨_, rfl, _⟩ := hs
        intro f1 r h; cases h; simp [IsAwait]
      | none =>
        simp only [hl, hlg] at hs
        generalize hb : beginLoad g sh k = p at hs
        obtain ⟨s, n⟩ := p
        simp only [Prod.mk.injEq] at hs
        obtain ⟨rfl, rfl, _⟩ := hs
        exact beginLoad_act g sh k _ _ hb
  | join k t =>
    simp only [topStep, Prod.mk.injEq, Next.cont.injEq] at hs
    obtain ⟨_, rfl, _⟩ := hs
    intro f1 r h; cases h; simp [IsAwait]
  | pop k =>
    simp only [topStep, Prod.mk.injEq, Next.cont.injEq] at hs
    obtain ⟨_, rfl, _⟩ := hs
    intro f1 r h; cases h; simp [IsAwait]
  | fin k todo acc id aw =>
    cases aw with
    | true => exact absurd trivial hf
    | false =>
      cases todo with
      | nil =>
        simp only [topStep, Prod.mk.injEq, Next.cont.injEq] at hs
        obtain ⟨_, rfl, _⟩ := hs
        intro f1 r h; cases h; exact advance_act _ _ _ _
      | cons u todo =>
        simp only [topStep] at hs
        generalize deferSection sh ntid (tkey u) = p at hs
        obtain ⟨s, spw⟩ := p
        simp only [Prod.mk.injEq, Next.cont.injEq] at hs
        obtain ⟨_, rfl, _⟩ := hs
        intro f1 r h; cases h; simp [IsAwait]
  | pub k v =>
    simp only [topStep] at hs
    cases hl : sh.loaded k <;> simp [hl] at hs
  | defer k =>
    simp only [topStep] at hs
    generalize deferSection sh ntid k = p at hs
    obtain ⟨s, spw⟩ := p
    simp at hs
  | clear k =>
    simp only [topStep, Prod.mk.injEq, Next.cont.injEq] at hs
    obtain ⟨_, rfl, _⟩ := hs
    intro f1 r h; cases h; simp [IsAwait]

theorem applyNext_act (g : Url → Res) (rank : Url → Nat) (sh : Shared) (ntid : Nat) (f : Frame)
    (rest : List Frame) (hf : ¬ IsAwait f) (hl : Links (f :: rest)) (sh' : Shared) (nx : Next)
    (sp : Option Key) (hs : topStep g sh ntid f = (sh', nx, sp))
    (tf : TopFacts g rank sh sh' f nx sp ntid) :
    ∃ st bottom, applyNext nx rest = some (st, bottom) ∧ TopAct st := by
  cases nx with
  | cont fs =>
    refine ⟨fs ++ rest, none, rfl, ?_⟩
    intro f1 r h
    rcases tf.cont fs rfl with ⟨f0, rfl, _⟩ | ⟨k, u, todo, acc, id, _, rfl⟩
    · simp only [List.cons_append, List.nil_append, List.cons.injEq] at h
      obtain ⟨rfl, _⟩ := h
      exact topStep_act g sh ntid f hf sh' _ sp hs _ [] rfl
    · simp only [List.cons_append, List.nil_append, List.cons.injEq] at h
      obtain ⟨rfl, _⟩ := h
      simp [IsAwait]
  | ret v =>
    cases rest with
    | nil => exact ⟨[], some v, rfl, by intro f1 r h; cases h⟩
    | cons f' r =>
      obtain ⟨⟨k, u, todo, acc, id, rfl, _, _⟩, _⟩ := hl
      refine ⟨advance k todo (v.content :: acc) id :: r, none, rfl, ?_⟩
      intro f1 r' h
      cases h
      exact advance_act _ _ _ _

/-- The part of the invariant that excludes the model's error transitions. -/
structure Inv2 (s : State) : Prop where
  callerAct : TopAct s.caller
  thrAct : ∀ th ∈ s.threads, TopAct th.stack
  noErr : s.sh.err = false

theorem startOp_inv2 (s : State) (hi : Inv2 s) (hc : s.caller = []) : Inv2 (startOp s) := by
  unfold startOp
  rw [hc]
  cases hp : s.prog with
  | nil => simp only; exact hi
  | cons op rest =>
    cases op with
    | load k =>
      exact ⟨(by intro f r h; cases h; simp [IsAwait]), hi.thrAct, hi.noErr⟩
    | deferred k =>
      exact ⟨(by intro f r h; cases h; simp [IsAwait]), hi.thrAct, hi.noErr⟩
    | refresh k =>
      exact ⟨(by intro f r h; cases h; simp [IsAwait]), hi.thrAct, hi.noErr⟩

theorem finishOp_inv2 (s : State) (hi : Inv2 s) (v : Val) : Inv2 (finishOp s v) := by
  unfold finishOp
  cases hp : s.prog with
  | nil => simp only; exact hi
  | cons op rest =>
    cases op with
    | load k =>
      simp only
      exact startOp_inv2 _ ⟨(by intro f r h; cases h), hi.thrAct, hi.noErr⟩ rfl
    | deferred k =>
      simp only
      exact startOp_inv2 _ ⟨(by intro f r h; cases h), hi.thrAct, hi.noErr⟩ rfl
    | refresh k =>
      simp only
      exact startOp_inv2 _ ⟨(by intro f r h; cases h), hi.thrAct, hi.noErr⟩ rfl

theorem init_inv2 (cache0 : Url → CacheSt) (prog : List Op) : Inv2 (init cache0 prog) := by
  unfold init
  apply startOp_inv2
  · exact ⟨(by intro f r h; cases h), (by intro th hth; simp at hth), rfl⟩
  · rfl

theorem step_inv2 (g : Url → Res) (rank : Url → Nat) (cache0 : Url → CacheSt) (h : Acyclic g rank)
    (s : State) (hi : Inv g rank cache0 s) (h2 : Inv2 s) (t : Nat) : Inv2 (step g s t) := by
  unfold step
  split
  · split
    · exact h2
    · rename_i f rest hstk
      have hstack : StackOK g rank (f :: rest) ∧ TopAct (f :: rest) := by
        cases t with
        | zero =>
          simp only [stackOf] at hstk
          rw [← hstk]; exact ⟨hi.callerSt, h2.callerAct⟩
        | succ i =>
          simp only [stackOf] at hstk
          cases hth : s.threads[i]? with
          | none => simp [hth] at hstk
          | some th =>
            simp only [hth] at hstk
            rw [← hstk]
            exact ⟨hi.thrSt th (List.mem_of_getElem? hth), h2.thrAct th (List.mem_of_getElem? hth)⟩
      obtain ⟨hst, hact⟩ := hstack
      have hf : ¬ IsAwait f := hact f rest rfl
      generalize hts : topStep g s.sh (s.threads.length + 1) f = p
      obtain ⟨sh', nx, sp⟩ := p
      have tf := topStep_facts g rank h s.sh _ f hi.table (hst.1 f (by simp)) sh' nx sp hts
      obtain ⟨st, bottom, ha, hta⟩ := applyNext_act g rank s.sh _ f rest hf hst.2 sh' nx sp hts tf
      have herr : sh'.err = false := by
        rw [tf.errSame (by intro k todo acc id he; subst he; exact hf trivial)]
        exact h2.noErr
      simp only [ha]
      have hmid : Inv2 (spawnThread (setStack { s with sh := sh' } t st) sp) := by
        have hbase : Inv2 (setStack { s with sh := sh' } t st) := by
          cases t with
          | zero => exact ⟨hta, h2.thrAct, herr⟩
          | succ i =>
            refine ⟨h2.callerAct, ?_, herr⟩
            intro th hth
            rcases mem_setThr _ _ _ _ hth with h1 | h1
            · exact h2.thrAct th h1
            · rw [h1]; exact hta
        cases sp with
        | none => exact hbase
        | some k =>
          refine ⟨hbase.callerAct, ?_, hbase.noErr⟩
          intro th hth
          simp only [spawnThread, List.mem_append, List.mem_singleton] at hth
          rcases hth with h1 | rfl
          · exact hbase.thrAct th h1
          · intro f1 r h1; cases h1; simp [IsAwait]
      cases bottom with
      | none => simp only; exact hmid
      | some v =>
        cases t with
        | succ i => simp only; exact hmid
        | zero => simp only; exact finishOp_inv2 _ hmid v
  · exact h2

theorem runSched_inv2 (g : Url → Res) (rank : Url → Nat) (cache0 : Url → CacheSt)
    (h : Acyclic g rank) (sched : List Nat) :
    ∀ s, Inv g rank cache0 s → Inv2 s → Inv2 (runSched g s sched) := by
  induction sched with
  | nil => intro s _ h2; exact h2
  | cons t ts ih =>
    intro s hi h2
    exact ih _ (step_inv g rank cache0 h s hi t) (step_inv2 g rank cache0 h s hi h2 t)

end Loader
