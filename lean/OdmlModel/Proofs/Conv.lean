/-
Helper lemmas for the model of the version converter (C15).
-/
import OdmlModel.Model.Conv
import OdmlModel.Proofs.Str

namespace Conv
open Xml

@[simp] theorem tag_elem (t a x k) : (Xml.elem t a x k).tag = t := rfl
@[simp] theorem attrs_elem (t a x k) : (Xml.elem t a x k).attrs = a := rfl
@[simp] theorem text_elem (t a x k) : (Xml.elem t a x k).text = x := rfl
@[simp] theorem kids_elem (t a x k) : (Xml.elem t a x k).kids = k := rfl

/-! ## csv.reader on plain fields -/

/-- A character a plain value may contain. -/
def plainChar (c : Char) : Bool := c != ',' && c != '"' && c != '\n' && c != '\r'

theorem plainText_iff (s : List Char) : plainText s = s.all plainChar := rfl

theorem csvRun_inField_plain (f rest fld : List Char) (acc : List (List Char))
    (first : Option (List (List Char))) (hf : f.all plainChar = true) :
    csvRun ⟨.inField, fld, acc⟩ first (f ++ rest) = csvRun ⟨.inField, fld ++ f, acc⟩ first rest := by
  induction f generalizing fld with
  | nil => simp
  | cons c cs ih =>
    simp only [List.all_cons, Bool.and_eq_true] at hf
    obtain ⟨hc, hcs⟩ := hf
    simp only [plainChar, Bool.and_eq_true, bne_iff_ne, ne_eq] at hc
    obtain ⟨⟨⟨h1, h2⟩, h3⟩, h4⟩ := hc
    have hnl : isNl c = false := by simp [isNl, h3, h4]
    have hcomma : (c == ',') = false := by simp [h1]
    have hn : (c == '\n') = false := by simp [h3]
    simp only [List.cons_append, csvRun, csvChar, hnl, hcomma, hn, Bool.false_eq_true, ↓reduceIte,
      Csv.add]
    rw [ih _ hcs]
    simp

theorem csvRun_start_plain (c : Char) (rest : List Char) (acc : List (List Char))
    (first : Option (List (List Char))) (st : CsvSt) (hst : st = .startField ∨ st = .startRecord)
    (hc : plainChar c = true) :
    csvRun ⟨st, [], acc⟩ first (c :: rest) = csvRun ⟨.inField, [c], acc⟩ first rest := by
  simp only [plainChar, Bool.and_eq_true, bne_iff_ne, ne_eq] at hc
  obtain ⟨⟨⟨h1, h2⟩, h3⟩, h4⟩ := hc
  have hnl : isNl c = false := by simp [isNl, h3, h4]
  have hcomma : (c == ',') = false := by simp [h1]
  have hq : (c == '"') = false := by simp [h2]
  have hn : (c == '\n') = false := by simp [h3]
  rcases hst with rfl | rfl <;>
    simp [csvRun, csvChar, hnl, hcomma, hq, hn, Csv.add]

theorem csvRun_inField_comma (rest fld : List Char) (acc : List (List Char))
    (first : Option (List (List Char))) :
    csvRun ⟨.inField, fld, acc⟩ first (',' :: rest) = csvRun ⟨.startField, [], acc ++ [fld]⟩ first rest := by
  simp [csvRun, csvChar, isNl, Csv.save]

/-- `,v2,v3…` after the first field -/
def tailOf (vs : List (List Char)) : List Char := vs.flatMap (fun v => ',' :: v)

theorem tailOf_snoc (vs : List (List Char)) (v : List Char) :
    tailOf (vs ++ [v]) = tailOf vs ++ ',' :: v := by
  simp [tailOf, List.flatMap_append]

theorem csvRun_tail (vs : List (List Char)) (fld : List Char) (acc : List (List Char))
    (hp : ∀ v ∈ vs, v.all plainChar = true) (hne : ∀ v ∈ vs, v ≠ []) :
    csvRun ⟨.inField, fld, acc⟩ none (tailOf vs) = some (acc ++ fld :: vs) := by
  induction vs generalizing fld acc with
  | nil => simp [tailOf, csvRun, csvEol, Csv.save]
  | cons v vs ih =>
    have hv := hp v (by simp)
    have hvne := hne v (by simp)
    cases v with
    | nil => exact absurd rfl hvne
    | cons c f =>
      simp only [List.all_cons, Bool.and_eq_true] at hv
      have : tailOf ((c :: f) :: vs) = ',' :: c :: (f ++ tailOf vs) := by simp [tailOf]
      rw [this, csvRun_inField_comma, csvRun_start_plain c _ _ _ _ (Or.inl rfl) hv.1,
        csvRun_inField_plain f _ _ _ _ hv.2,
        ih _ _ (fun v hv => hp v (by simp [hv])) (fun v hv => hne v (by simp [hv]))]
      simp

/-- csv.reader gives back the plain, non-empty fields that were joined with commas. -/
theorem csvRun_joined (v : List Char) (vs : List (List Char)) (hv : v.all plainChar = true) (hvne : v ≠ [])
    (hp : ∀ w ∈ vs, w.all plainChar = true) (hne : ∀ w ∈ vs, w ≠ []) :
    csvRun csvInit none (v ++ tailOf vs) = some (v :: vs) := by
  cases v with
  | nil => exact absurd rfl hvne
  | cons c f =>
    simp only [List.all_cons, Bool.and_eq_true] at hv
    simp only [csvInit, List.cons_append]
    rw [csvRun_start_plain c _ _ _ _ (Or.inr rfl) hv.1, csvRun_inField_plain f _ _ _ _ hv.2,
      csvRun_tail vs _ _ hp hne]
    simp

/-! ## The value loop: texts -/

/-- The text state of the value loop depends on the value texts only. -/
def foldAll (m : List Char) (b : Bool) : List (List Char) → List Char × Bool
  | [] => (m, b)
  | t :: ts => foldAll (foldText m b t).1 (foldText m b t).2 ts

theorem valueLoop_text (pid : PropId) (vals : List Xml) (s : VState) :
    ((valueLoop pid vals s).main, (valueLoop pid vals s).multi)
      = foldAll s.main s.multi (vals.map Xml.text) := by
  induction vals generalizing s with
  | nil => simp [valueLoop, foldAll]
  | cons v vs ih => simp only [valueLoop, List.map_cons, foldAll]; rw [ih]

/-- Stripped, non-blank texts. -/
def stripped (ts : List (List Char)) : List (List Char) :=
  ts.filterMap (fun t => if Py.strip t = [] then none else some (Py.strip t))

theorem strip_nil : Py.strip [] = [] := by decide

theorem tailOf_cons (v : List Char) (vs : List (List Char)) :
    tailOf (v :: vs) = ',' :: v ++ tailOf vs := by simp [tailOf]

theorem foldAll_nonempty (m : List Char) (b : Bool) (ts : List (List Char)) (hm : m ≠ [])
    (hg : ∀ t ∈ ts, t = [] ∨ Py.strip t ≠ []) :
    foldAll m b ts = (m ++ tailOf (stripped ts), b || !(stripped ts).isEmpty) := by
  induction ts generalizing m b with
  | nil => simp [foldAll, stripped, tailOf]
  | cons t ts ih =>
    have ht := hg t (by simp)
    have hg' : ∀ t ∈ ts, t = [] ∨ Py.strip t ≠ [] := fun t h => hg t (by simp [h])
    rcases ht with rfl | ht
    · simp only [foldAll, foldText]
      simp only [ne_eq, not_true_eq_false, ↓reduceIte]
      rw [ih m b hm hg']
      simp [stripped, strip_nil]
    · have htne : t ≠ [] := by intro h; subst h; exact ht strip_nil
      simp only [foldAll, foldText, ne_eq, htne, not_false_eq_true, ↓reduceIte, hm]
      rw [ih _ _ (by simp) hg']
      have : stripped (t :: ts) = Py.strip t :: stripped ts := by simp [stripped, ht]
      rw [this, tailOf_cons]
      simp

theorem foldAll_empty (b : Bool) (ts : List (List Char))
    (hg : ∀ t ∈ ts, t = [] ∨ Py.strip t ≠ []) :
    foldAll [] b ts =
      match stripped ts with
      | [] => ([], b)
      | v :: vs => (v ++ tailOf vs, b || !vs.isEmpty) := by
  induction ts generalizing b with
  | nil => simp [foldAll, stripped]
  | cons t ts ih =>
    have ht := hg t (by simp)
    have hg' : ∀ t ∈ ts, t = [] ∨ Py.strip t ≠ [] := fun t h => hg t (by simp [h])
    rcases ht with rfl | ht
    · simp only [foldAll, foldText, ne_eq, not_true_eq_false, ↓reduceIte]
      rw [ih b hg']
      simp [stripped, strip_nil]
    · have htne : t ≠ [] := by intro h; subst h; exact ht strip_nil
      have : stripped (t :: ts) = Py.strip t :: stripped ts := by simp [stripped, ht]
      simp only [foldAll, foldText, ne_eq, htne, not_false_eq_true, ↓reduceIte, not_true_eq_false]
      rw [foldAll_nonempty _ _ _ ht hg', this]

theorem fromCsv_bracket (m : List Char) (hm : m ≠ []) :
    fromCsv ('[' :: (m ++ [']'])) = csvRun csvInit none m := by
  have hlast : ('[' :: (m ++ [']'])).getLast? = some ']' := by
    have : ('[' :: (m ++ [']'])) = ('[' :: m) ++ [']'] := rfl
    rw [this, List.getLast?_concat]
  have hslice : Py.slice1m1 ('[' :: (m ++ [']'])) = m := by
    simp [Py.slice1m1]
  unfold fromCsv
  rw [hlast, hslice]
  simp [hm]

/-- What the strict reader gets back from the text the converter writes, for plain values. -/
theorem fromCsv_mainText (v : List Char) (vs : List (List Char))
    (hv : plainText v = true) (hvne : v ≠ []) (hp : ∀ w ∈ vs, plainText w = true)
    (hne : ∀ w ∈ vs, w ≠ []) (hb : vs = [] → bracketed v = false) :
    fromCsv (mainText (v ++ tailOf vs) (!vs.isEmpty)) = some (v :: vs) := by
  cases vs with
  | nil =>
    have hb' := hb rfl
    simp only [tailOf, List.flatMap_nil, List.append_nil, List.isEmpty_nil, Bool.not_true, mainText,
      Bool.false_eq_true, ↓reduceIte, fromCsv, hvne]
    simp only [bracketed] at hb'
    simp [hb']
  | cons w ws =>
    have hmain : v ++ tailOf (w :: ws) ≠ [] := by simp [hvne]
    simp only [List.isEmpty_cons, Bool.not_false, mainText, ↓reduceIte]
    show fromCsv ('[' :: ((v ++ tailOf (w :: ws)) ++ [']'])) = _
    rw [fromCsv_bracket _ hmain]
    exact csvRun_joined v (w :: ws) hv hvne hp hne

/-! ## strip -/

theorem lstrip_eq_nil_iff (s : List Char) : Py.lstrip s = [] ↔ s.all Py.isSpace = true := by
  induction s with
  | nil => simp [Py.lstrip]
  | cons c cs ih =>
    by_cases hc : Py.isSpace c = true
    · simp [Py.lstrip, hc, ih]
    · simp [Py.lstrip, hc]

theorem lstrip_all_of_ne (s : List Char) (h : Py.lstrip s ≠ []) :
    (Py.lstrip s).all Py.isSpace = false := by
  induction s with
  | nil => simp [Py.lstrip] at h
  | cons c cs ih =>
    by_cases hc : Py.isSpace c = true
    · simp only [Py.lstrip, hc, ↓reduceIte] at h ⊢; exact ih h
    · simp [Py.lstrip, hc]

theorem strip_eq_nil_iff (s : List Char) : Py.strip s = [] ↔ s.all Py.isSpace = true := by
  unfold Py.strip Py.rstrip
  rw [List.reverse_eq_nil_iff, lstrip_eq_nil_iff, List.all_reverse]
  constructor
  · intro h
    by_cases hl : Py.lstrip s = []
    · exact (lstrip_eq_nil_iff s).1 hl
    · rw [lstrip_all_of_ne s hl] at h; cases h
  · intro h
    rw [(lstrip_eq_nil_iff s).2 h]; rfl

/-- A stripped non-empty text contains a character that is not white space. -/
theorem strip_not_all_space (t : List Char) (h : Py.strip t ≠ []) :
    (Py.strip t).all Py.isSpace = false := by
  unfold Py.strip Py.rstrip at h ⊢
  rw [List.all_reverse]
  apply lstrip_all_of_ne
  intro h'
  apply h
  rw [h']; rfl

theorem strip_ne_nil_of_part (a v b : List Char) (hv : v.all Py.isSpace = false) :
    Py.strip (a ++ v ++ b) ≠ [] := by
  intro h
  rw [strip_eq_nil_iff] at h
  simp only [List.all_append, Bool.and_eq_true] at h
  rw [h.1.2] at hv
  cases hv

/-! ## The last loop of `_handle_properties` and the reader -/

theorem propCleanup_append (pid : PropId) (a b : List Xml) :
    (propCleanup pid (a ++ b)).1 = (propCleanup pid a).1 ++ (propCleanup pid b).1 := by
  induction a with
  | nil => simp [propCleanup]
  | cons k ks ih =>
    simp only [List.cons_append, propCleanup]
    split <;> simp [ih]

theorem value_in_propKeys : "value" ∈ propKeys := by decide

theorem propCleanup_value (pid : PropId) (x : List Char) :
    (propCleanup pid [leaf "value" x]).1 = [leaf "value" x] := by
  have h : "value" ∈ propKeys := value_in_propKeys
  have h2 : respell "value" = "value" := by decide
  simp [propCleanup, leaf, h, h2]

theorem findLast_concat (t : String) (ks : List Xml) (k : Xml) (h : k.tag = t) :
    findLast t (ks ++ [k]) = some k := by
  simp [findLast, find, h]

/-! ## Numeric suffixes -/

theorem sep_split_inj (x y p q : List Char) (hx : '-' ∉ x) (hy : '-' ∉ y)
    (h : x ++ '-' :: p = y ++ '-' :: q) : x = y ∧ p = q := by
  induction x generalizing y with
  | nil =>
    cases y with
    | nil => simpa using h
    | cons c y' =>
      simp only [List.nil_append, List.cons_append, List.cons.injEq] at h
      exact absurd h.1.symm (by intro hc; apply hy; simp [hc])
  | cons c x' ih =>
    cases y with
    | nil =>
      simp only [List.nil_append, List.cons_append, List.cons.injEq] at h
      exact absurd h.1 (by intro hc; apply hx; simp [hc])
    | cons c' y' =>
      simp only [List.cons_append, List.cons.injEq] at h
      have := ih y' (by intro hm; apply hx; simp [hm]) (by intro hm; apply hy; simp [hm]) h.2
      exact ⟨by rw [h.1, this.1], this.2⟩

theorem dash_not_in_digits (k : Nat) : '-' ∉ Py.natToDigits k := by
  intro h
  have hall := Py.natToDigits_all_digit k
  simp only [List.all_eq_true] at hall
  have := Py.isDigit_bounds (hall _ h)
  simp at this

theorem natToDigits_inj {j k : Nat} (h : Py.natToDigits j = Py.natToDigits k) : j = k := by
  have := congrArg Py.natOfDigits h
  simpa [Py.natOfDigits_natToDigits] using this

/-- Different (name, number) pairs give different suffixed names. -/
theorem suffix_inj {a b : List Char} {j k : Nat} (h : suffix a j = suffix b k) : a = b ∧ j = k := by
  unfold suffix at h
  have h' := congrArg List.reverse h
  simp only [List.reverse_append, List.reverse_cons, List.append_assoc, List.singleton_append] at h'
  have := sep_split_inj _ _ _ _ (by simpa using dash_not_in_digits j)
    (by simpa using dash_not_in_digits k) h'
  exact ⟨by simpa using this.2, natToDigits_inj (by simpa using this.1)⟩

/-- The names a group of siblings gets (specification): `prev` are the earlier siblings. -/
def names10 (prev : List (List Char)) : List (List Char) → List (List Char)
  | [] => []
  | n :: rest => name10 prev n :: names10 (n :: prev) rest

/-- Where a converted name comes from. -/
theorem mem_names10 {y : List Char} {prev ns : List (List Char)} (h : y ∈ names10 prev ns) :
    (y ∈ ns ∧ prev.count y = 0) ∨
    (∃ m ∈ ns, ∃ k, prev.count m < k ∧ k ≤ prev.count m + ns.count m ∧ y = suffix m k) := by
  induction ns generalizing prev with
  | nil => simp [names10] at h
  | cons n rest ih =>
    simp only [names10, List.mem_cons] at h
    rcases h with h | h
    · by_cases hc : prev.count n = 0
      · left; simp [h, name10, hc]
      · right
        refine ⟨n, by simp, prev.count n + 1, by omega, ?_, by simp [h, name10, hc]⟩
        simp
    · rcases ih h with ⟨h1, h2⟩ | ⟨m, hm, k, h1, h2, h3⟩
      · left
        refine ⟨by simp [h1], ?_⟩
        rw [List.count_cons] at h2; omega
      · right
        refine ⟨m, by simp [hm], k, ?_, ?_, h3⟩
        · rw [List.count_cons] at h1; omega
        · rw [List.count_cons] at h1 h2 ⊢; split <;> simp_all <;> omega

/-- Sibling names are unique after suffixing, for any number of clashes, as long as no sibling
    is literally called like a suffixed name the converter can produce. -/
theorem names10_nodup (all : List (List Char)) (L : Nat)
    (H : ∀ a ∈ all, ∀ k, k ≤ L → suffix a k ∉ all) (ns prev : List (List Char))
    (hp : ∀ x ∈ prev, x ∈ all) (hn : ∀ x ∈ ns, x ∈ all)
    (hL : ∀ a, prev.count a + ns.count a ≤ L) : (names10 prev ns).Nodup := by
  induction ns generalizing prev with
  | nil => simp [names10]
  | cons n rest ih =>
    simp only [names10, List.nodup_cons]
    have hnall : n ∈ all := hn n (by simp)
    have hL' : ∀ a, (n :: prev).count a + rest.count a ≤ L := by
      intro a; have := hL a; rw [List.count_cons] at this ⊢; split <;> simp_all <;> omega
    refine ⟨?_, ih (n :: prev) (by intro x hx; simp at hx; rcases hx with rfl | hx; exact hnall; exact hp x hx)
      (fun x hx => hn x (by simp [hx])) hL'⟩
    intro hmem
    rcases mem_names10 hmem with ⟨h1, h2⟩ | ⟨m, hm, k, h1, h2, h3⟩
    · -- the later one keeps its own name
      by_cases hc : prev.count n = 0
      · simp only [name10, hc, ↓reduceIte] at h2
        simp at h2
      · simp only [name10, hc, ↓reduceIte] at h1
        have hle : prev.count n + 1 ≤ L := by
          have := hL n; simp at this; omega
        exact H n hnall _ hle (hn _ (by simp [h1]))
    · have hkL : k ≤ L := by have := hL' m; omega
      have hmall : m ∈ all := hn m (by simp [hm])
      by_cases hc : prev.count n = 0
      · simp only [name10, hc, ↓reduceIte] at h3
        exact H m hmall k hkL (h3 ▸ hnall)
      · simp only [name10, hc, ↓reduceIte] at h3
        obtain ⟨hnm, hk⟩ := suffix_inj h3
        subst hnm
        simp at h1
        omega

/-! ## `_change_entity_name` (occurrence map) against the specification (counting) -/

/-- The names `_change_entity_name` hands out to a run of siblings, starting from map `m`. -/
def bumpAll (m : Counter) : List (List Char) → List (List Char)
  | [] => []
  | n :: rest => (bump m n).2 :: bumpAll (bump m n).1 rest

/-- The map records, per name, the number of earlier siblings with that name. -/
def Rep (m : Counter) (prev : List (List Char)) : Prop :=
  ∀ a, m.lookup a = if prev.count a = 0 then none else some (prev.count a)

theorem lookup_setCount (m : Counter) (n a : List Char) (v : Nat) :
    (setCount n v m).lookup a = if a = n then some v else m.lookup a := by
  induction m with
  | nil =>
    by_cases h : a = n
    · simp [setCount, List.lookup, h]
    · have hb : (a == n) = false := by simpa using h
      simp [setCount, List.lookup, h, hb]
  | cons e rest ih =>
    obtain ⟨n', c'⟩ := e
    by_cases hn : n' = n
    · subst hn
      by_cases h : a = n'
      · simp [setCount, List.lookup, h]
      · have hb : (a == n') = false := by simpa using h
        simp [setCount, List.lookup, h, hb]
    · by_cases h : a = n
      · subst h
        have hne : (a == n') = false := by simp; exact fun h => hn h.symm
        simp [setCount, hn, List.lookup, hne, ih]
      · by_cases h2 : a = n'
        · subst h2; simp [setCount, hn, List.lookup]
        · have hne : (a == n') = false := by simp [h2]
          simp [setCount, hn, List.lookup, hne, ih, h]

theorem bump_spec (m : Counter) (prev : List (List Char)) (n : List Char) (h : Rep m prev) :
    (bump m n).2 = name10 prev n ∧ Rep (bump m n).1 (n :: prev) := by
  have hn := h n
  by_cases hc : prev.count n = 0
  · simp only [hc, ↓reduceIte] at hn
    refine ⟨by simp [bump, hn, name10, hc], ?_⟩
    intro a
    simp only [bump, hn]
    by_cases ha : a = n
    · subst ha; simp [List.lookup, hc]
    · have hne : (a == n) = false := by simp [ha]
      have hne' : (n == a) = false := by simp; exact fun h => ha h.symm
      simp [List.lookup, hne, h a, List.count_cons, hne']
  · simp only [hc, ↓reduceIte] at hn
    refine ⟨by simp [bump, hn, name10, hc], ?_⟩
    intro a
    simp only [bump, hn, lookup_setCount]
    by_cases ha : a = n
    · subst ha; simp
    · have hne' : (n == a) = false := by simp; exact fun h => ha h.symm
      simp [ha, h a, List.count_cons, hne']

theorem bumpAll_eq_names10 (m : Counter) (prev ns : List (List Char)) (h : Rep m prev) :
    bumpAll m ns = names10 prev ns := by
  induction ns generalizing m prev with
  | nil => rfl
  | cons n rest ih =>
    obtain ⟨h1, h2⟩ := bump_spec m prev n h
    simp only [bumpAll, names10, h1]
    rw [ih _ _ h2]

theorem rep_nil : Rep [] [] := by intro a; simp [List.lookup]

theorem noSuffixClash_H (ns : List (List Char)) (h : noSuffixClash ns = true) :
    ∀ a ∈ ns, ∀ k, k ≤ ns.length → suffix a k ∉ ns := by
  intro a ha k hk
  simp only [noSuffixClash, List.all_eq_true, List.mem_range, Bool.not_eq_eq_eq_not, Bool.not_true,
    List.contains_eq_mem, decide_eq_false_iff_not] at h
  exact h a ha k (by omega)

/-! ## Stage 1 on a group of siblings -/

theorem p1_tag (k : Xml) : (p1 k).tag = k.tag := by cases k; simp [p1, Xml.tag]
theorem p1_kids (k : Xml) : (p1 k).kids = p1Kids (k.tag == "section") [] [] k.kids := by
  cases k; simp [p1, Xml.kids, Xml.tag]
theorem rename_tag (n : List Char) (k : Xml) : (rename n k).tag = k.tag := by
  cases k; simp [rename, Xml.tag]
theorem rename_kids (n : List Char) (k : Xml) :
    (rename n k).kids = setFirstText "name" n k.kids := by cases k; simp [rename, Xml.kids]

theorem find_isSome_p1Kids (t : String) (b : Bool) (sm pm : Counter) (ks : List Xml) :
    (find t (p1Kids b sm pm ks)).isSome = (find t ks).isSome := by
  induction ks generalizing sm pm with
  | nil => simp [p1Kids]
  | cons k ks ih =>
    simp only [p1Kids]
    split
    · split <;> simp [find, rename_tag, p1_tag, ih] <;> split <;> simp [ih]
    · split
      · split <;> simp [find, rename_tag, ih] <;> split <;> simp [ih]
      · simp only [find]; split <;> simp [ih]

theorem findText_setFirstText (t : String) (n : List Char) (ks : List Xml)
    (h : (find t ks).isSome = true) : findText t (setFirstText t n ks) = n := by
  induction ks with
  | nil => simp [find] at h
  | cons k ks ih =>
    by_cases hk : k.tag = t
    · simp [setFirstText, hk, findText, find]
    · simp only [find, hk, ↓reduceIte] at h
      have := ih h
      simp only [findText] at this
      simp [setFirstText, hk, findText, find, this]

theorem find_isSome_setFirstText (t : String) (n : List Char) (ks : List Xml) :
    (find t (setFirstText t n ks)).isSome = (find t ks).isSome := by
  induction ks with
  | nil => simp [setFirstText]
  | cons k ks ih =>
    by_cases hk : k.tag = t
    · simp [setFirstText, hk, find]
    · simp [setFirstText, hk, find, ih]

theorem secNames_cons (k : Xml) (ks : List Xml) :
    secNames (k :: ks) =
      if k.tag = "section" then findText "name" k.kids :: secNames ks else secNames ks := by
  by_cases h : k.tag = "section" <;> simp [secNames, List.filter_cons, h]

/-- The Section children of any node come out of stage 1 with the names the occurrence map
    hands out, in order. -/
theorem secNames_p1Kids (b : Bool) (sm pm : Counter) (ks : List Xml)
    (hn : ∀ k ∈ ks, k.tag = "section" → (find "name" k.kids).isSome = true) :
    secNames (p1Kids b sm pm ks) = bumpAll sm (secNames ks) := by
  induction ks generalizing sm pm with
  | nil => simp [p1Kids, secNames, bumpAll]
  | cons k ks ih =>
    have hn' : ∀ k ∈ ks, k.tag = "section" → (find "name" k.kids).isSome = true :=
      fun k hk => hn k (by simp [hk])
    by_cases hs : k.tag = "section"
    · have hk := hn k (by simp) hs
      cases hf : find "name" k.kids with
      | none => simp [hf] at hk
      | some nm =>
        have hft : findText "name" k.kids = nm.text := by simp [findText, hf]
        simp only [p1Kids, hs, ↓reduceIte, hf]
        rw [secNames_cons, secNames_cons]
        simp only [rename_tag, p1_tag, hs, ↓reduceIte, bumpAll, hft, rename_kids, p1_kids]
        rw [findText_setFirstText _ _ _ (by rw [find_isSome_p1Kids]; simp [hf]), ih _ _ hn']
    · have hs' : ¬ (k.tag = "section") := hs
      simp only [p1Kids, hs, ↓reduceIte]
      rw [secNames_cons]
      simp only [hs, ↓reduceIte]
      split
      · split
        · rw [secNames_cons]; simp only [rename_tag, hs, ↓reduceIte]; exact ih _ _ hn'
        · rw [secNames_cons]; simp only [hs, ↓reduceIte]; exact ih _ _ hn'
      · rw [secNames_cons]; simp only [hs, ↓reduceIte]; exact ih _ _ hn'

theorem propNames_cons (k : Xml) (ks : List Xml) :
    propNames (k :: ks) =
      if k.tag = "property" ∧ (find "name" k.kids).isSome = true
      then findText "name" k.kids :: propNames ks else propNames ks := by
  by_cases h : k.tag = "property" <;> by_cases h2 : (find "name" k.kids).isSome = true <;>
    simp [propNames, List.filter_cons, h, h2]

/-- The named Property children of a Section come out of stage 1 with the names the occurrence
    map hands out, in order. -/
theorem propNames_p1Kids (sm pm : Counter) (ks : List Xml) :
    propNames (p1Kids true sm pm ks) = bumpAll pm (propNames ks) := by
  induction ks generalizing sm pm with
  | nil => simp [p1Kids, propNames, bumpAll]
  | cons k ks ih =>
    by_cases hs : k.tag = "section"
    · have hnp : ¬ (k.tag = "property") := by rw [hs]; decide
      simp only [p1Kids, hs, ↓reduceIte]
      rw [propNames_cons k ks]
      simp only [hnp, false_and, ↓reduceIte]
      split
      · rw [propNames_cons]; simp only [rename_tag, p1_tag, hnp, false_and, ↓reduceIte]; exact ih _ _
      · rw [propNames_cons]; simp only [p1_tag, hnp, false_and, ↓reduceIte]; exact ih _ _
    · by_cases hp : k.tag = "property"
      · simp only [p1Kids, hs, ↓reduceIte]
        simp only [hp, Bool.and_true, decide_true, ↓reduceIte]
        cases hf : find "name" k.kids with
        | none =>
          simp only
          rw [propNames_cons, propNames_cons]
          simp [hf, ih]
        | some nm =>
          have hft : findText "name" k.kids = nm.text := by simp [findText, hf]
          simp only
          rw [propNames_cons, propNames_cons]
          simp only [rename_tag, hp, rename_kids, find_isSome_setFirstText, hf, Option.isSome_some,
            and_self, ↓reduceIte, bumpAll, hft]
          rw [findText_setFirstText _ _ _ (by simp [hf]), ih]
      · simp only [p1Kids, hs, ↓reduceIte]
        simp only [hp, Bool.and_true, decide_false, Bool.false_eq_true, ↓reduceIte]
        rw [propNames_cons, propNames_cons]
        simp [hp, ih]

/-! ## `_handle_value`: first occurrence wins -/

/-- The 1.1 tag under which `_handle_value` would export a value attribute, if at all. -/
def target (d : Xml) : Option String :=
  if d.tag ∈ propKeys then some d.tag else versionMap.lookup d.tag

def look (d : Xml) : String := (versionMap.lookup d.tag).getD d.tag

def fixText (d : Xml) : List Char := if isBinary d.tag d.text then "text".toList else d.text

/-- First element of `ds` exported under tag `t`. -/
def firstLift (t : String) : List Xml → Option Xml
  | [] => none
  | d :: ds => if target d = some t then some (leaf t (fixText d)) else firstLift t ds

theorem vm_keys_not_prop (s : String) (h : s ∈ propKeys) : versionMap.lookup s = none := by
  have h1 : "filename" ∉ propKeys := by decide
  have h2 : "dtype" ∉ propKeys := by decide
  have hf : s ≠ "filename" := by intro e; subst e; exact h1 h
  have hd : s ≠ "dtype" := by intro e; subst e; exact h2 h
  have hb1 : (s == "filename") = false := by simpa using hf
  have hb2 : (s == "dtype") = false := by simpa using hd
  simp [versionMap, List.lookup, hb1, hb2]

theorem target_look (d : Xml) (m : String) (h : target d = some m) : look d = m := by
  unfold target at h
  unfold look
  split at h
  · rename_i hp
    simp only [Option.some.injEq] at h
    rw [vm_keys_not_prop _ hp]; simpa using h
  · rw [h]; rfl

theorem find_append_single (t : String) (ks : List Xml) (k : Xml) :
    find t (ks ++ [k]) = match find t ks with
      | some x => some x
      | none => if k.tag = t then some k else none := by
  induction ks with
  | nil => simp [find]
  | cons a as ih =>
    simp only [List.cons_append, find]
    split
    · rfl
    · exact ih

theorem hve_find (pid : PropId) (t : String) (ds cur : List Xml) (log : Log) :
    find t (handleValueElems pid ds cur log).1 =
      match find t cur with
      | some k => some k
      | none => firstLift t ds := by
  induction ds generalizing cur log with
  | nil => simp only [handleValueElems, firstLift]; split <;> simp_all
  | cons d ds ih =>
    simp only [handleValueElems]
    have hlook : (versionMap.lookup d.tag).getD d.tag = look d := rfl
    rw [hlook]
    cases hce : find (look d) cur with
    | some ce =>
      simp only
      rw [ih]
      cases hft : find t cur with
      | some k => rfl
      | none =>
        simp only [firstLift]
        split
        · rename_i htg
          rw [target_look d t htg, hft] at hce
          cases hce
        · rfl
    | none =>
      simp only
      by_cases hp : d.tag ∈ propKeys
      · have htg : target d = some d.tag := by simp [target, hp]
        have hl : look d = d.tag := target_look d _ htg
        simp only [hp, ↓reduceIte]
        split
        · rename_i hb
          rw [ih, find_append_single]
          cases hft : find t cur with
          | some k => rfl
          | none =>
            simp only [leaf, tag_elem, firstLift, htg, Option.some.injEq, fixText, hb, ↓reduceIte]
            by_cases hdt : d.tag = t
            · subst hdt; simp
            · simp [hdt]
        · rename_i hb
          rw [ih, find_append_single]
          cases hft : find t cur with
          | some k => rfl
          | none =>
            simp only [leaf, tag_elem, firstLift, htg, Option.some.injEq, fixText, hb]
            by_cases hdt : d.tag = t
            · subst hdt; simp
            · simp [hdt]
      · simp only [hp, ↓reduceIte]
        cases hvm : versionMap.lookup d.tag with
        | none =>
          simp only
          have htg : target d = none := by simp [target, hp, hvm]
          rw [ih]
          cases hft : find t cur with
          | some k => rfl
          | none => simp [firstLift, htg]
        | some m =>
          simp only
          have htg : target d = some m := by simp [target, hp, hvm]
          split
          · rename_i hb
            rw [ih, find_append_single]
            cases hft : find t cur with
            | some k => rfl
            | none =>
              simp only [leaf, tag_elem, firstLift, htg, Option.some.injEq, fixText, hb, ↓reduceIte]
              by_cases hdt : m = t
              · subst hdt; simp
              · simp [hdt]
          · rename_i hb
            rw [ih, find_append_single]
            cases hft : find t cur with
            | some k => rfl
            | none =>
              simp only [leaf, tag_elem, firstLift, htg, Option.some.injEq, fixText, hb]
              by_cases hdt : m = t
              · subst hdt; simp
              · simp [hdt]

theorem find_removeFirst (t r : String) (h : t ≠ r) (ks : List Xml) :
    find t (removeFirst r ks) = find t ks := by
  induction ks with
  | nil => rfl
  | cons k ks ih =>
    simp only [removeFirst]
    split
    · rename_i hk
      have : k.tag ≠ t := by rw [hk]; exact fun e => h e.symm
      simp [find, this]
    · simp only [find]; split
      · rfl
      · exact ih

theorem firstLift_append (t : String) (a b : List Xml) :
    firstLift t (a ++ b) = match firstLift t a with
      | some x => some x
      | none => firstLift t b := by
  induction a with
  | nil => simp [firstLift]
  | cons d ds ih =>
    simp only [List.cons_append, firstLift]
    split
    · rfl
    · exact ih

theorem valueLoop_find (pid : PropId) (t : String) (ht : t ≠ "value") (vals : List Xml) (s : VState) :
    find t (valueLoop pid vals s).cur =
      match find t s.cur with
      | some k => some k
      | none => firstLift t (vals.flatMap valueElems) := by
  induction vals generalizing s with
  | nil => simp only [valueLoop, List.flatMap_nil, firstLift]; split <;> simp_all
  | cons v vs ih =>
    simp only [valueLoop, List.flatMap_cons]
    rw [ih, find_removeFirst t "value" ht, hve_find, firstLift_append]
    cases find t s.cur <;> rfl

theorem elem_eta (k : Xml) : Xml.elem k.tag k.attrs k.text k.kids = k := by cases k; rfl

theorem respell_ne (s : String) (h : s ≠ "dependency_value") : respell s = s := by
  simp [respell, h]

theorem propCleanup_find (pid : PropId) (t : String) (ht : t ∈ propKeys) (ht1 : t ≠ "dependencyvalue")
    (ks : List Xml) : find t (propCleanup pid ks).1 = find t ks := by
  have hdv : "dependency_value" ∉ propKeys := by decide
  have htd : t ≠ "dependency_value" := by intro e; subst e; exact hdv ht
  induction ks with
  | nil => rfl
  | cons k ks ih =>
    simp only [propCleanup]
    by_cases hk : k.tag = t
    · have hr : respell k.tag = k.tag := respell_ne _ (by rw [hk]; exact htd)
      rw [hr, hk, if_pos ht]
      simp only [find, tag_elem, ↓reduceIte, hk]
      rw [← hk, elem_eta]
    · have hr : respell k.tag ≠ t := by
        unfold respell; split
        · exact fun e => ht1 e.symm
        · exact hk
      split
      · simp only [find, tag_elem, hr, ↓reduceIte, hk]; exact ih
      · simp only [find, hk, ↓reduceIte]; exact ih


/-! ## `vals10` in terms of `stripped` -/

theorem vals10_eq_stripped (p : Xml) : vals10 p = stripped ((valuesOf p).map Xml.text) := by
  simp [vals10, stripped, List.filterMap_map, Function.comp_def]

theorem mem_stripped {w : List Char} {ts : List (List Char)} (h : w ∈ stripped ts) :
    ∃ t, w = Py.strip t ∧ w ≠ [] := by
  simp only [stripped, List.mem_filterMap] at h
  obtain ⟨t, _, ht⟩ := h
  by_cases hs : Py.strip t = []
  · simp [hs] at ht
  · simp only [hs, ↓reduceIte, Option.some.injEq] at ht
    exact ⟨t, ht.symm, ht ▸ hs⟩


end Conv
