/-
Helper lemmas for the model of the version converter (C15).
-/
import OdmlModel.Model.Conv
import OdmlModel.Proofs.Str
import OdmlModel.Proofs.Csv

/-! ## to_csv / from_csv (the lemmas of C01, `Proofs/Csv.lean`) -/

namespace Xml
open Py Py.Csv

/-- `from_csv` restores every list of values `to_csv` has written, up to the trimming `to_csv`
    does (the statement of `C01.csv_roundtrip`, proved here from the same lemmas so that C15 does
    not depend on the theorems of C01). -/
theorem fromCsv_toCsv_conv (vs : List (List Char)) : fromCsv (toCsv vs) = .ok (vs.map strip) := by
  simp only [toCsv, dropLast2_writeRow]
  generalize vs.map strip = uv
  match uv with
  | [] => simp [rowBody, joinFields, fromCsv]
  | [s] =>
    simp only
    split
    · rename_i hc
      simp only [Bool.and_eq_true, Bool.not_eq_true', List.isEmpty_eq_false_iff] at hc
      have hne : s ≠ [] := hc.1
      simp [fromCsv, hne, hc.2]
    · by_cases hs : s = []
      · subst hs; decide
      · have hb : rowBody [s] ≠ [] := by
          have : ([s] == [[]]) = false := by simp [hs]
          simp only [rowBody, this, joinFields, Bool.false_eq_true, ↓reduceIte]
          unfold renderField
          split
          · simp
          · exact hs
        exact fromCsv_wrap [s] (by simp) hb
  | f :: g :: gs => exact fromCsv_wrap _ (by simp) (rowBody_ne_nil_of_two f g gs)

end Xml

namespace Conv
open Conv.Xml

@[simp] theorem tag_elem (t a x k) : (Xml.elem t a x k).tag = t := rfl
@[simp] theorem attrs_elem (t a x k) : (Xml.elem t a x k).attrs = a := rfl
@[simp] theorem text_elem (t a x k) : (Xml.elem t a x k).text = x := rfl
@[simp] theorem kids_elem (t a x k) : (Xml.elem t a x k).kids = k := rfl

/-! ## The value loop: the collected texts -/

theorem strip_nil : Py.strip [] = [] := by decide

/-- A text holds a value iff it is not blank. -/
theorem collect_eq (vals : List (List Char)) (t : List Char) :
    collect vals t = if Py.strip t ≠ [] then vals ++ [t] else vals := by
  unfold collect
  by_cases ht : t = []
  · subst ht; simp [strip_nil]
  · simp [ht]

/-- The collected texts depend on the value texts only: the non-blank ones, in order. -/
theorem valueLoop_vals (pid : PropId) (vals : List Xml) (s : VState) :
    (valueLoop pid vals s).vals =
      s.vals ++ (vals.map Xml.text).filter (fun t => decide (Py.strip t ≠ [])) := by
  induction vals generalizing s with
  | nil => simp [valueLoop]
  | cons v vs ih =>
    simp only [valueLoop, List.map_cons, List.filter_cons]
    rw [ih]
    simp only [collect_eq]
    by_cases h : Py.strip v.text = [] <;> simp [h]

/-- Stripped, non-blank texts. -/
def stripped (ts : List (List Char)) : List (List Char) :=
  ts.filterMap (fun t => if Py.strip t = [] then none else some (Py.strip t))

theorem map_strip_filter (ts : List (List Char)) :
    (ts.filter (fun t => decide (Py.strip t ≠ []))).map Py.strip = stripped ts := by
  induction ts with
  | nil => rfl
  | cons t ts ih =>
    by_cases h : Py.strip t = []
    · simp [stripped, h] at ih ⊢; exact ih
    · simp [stripped, h] at ih ⊢; exact ih

/-- What the strict reader gets back from the text the converter writes. -/
theorem fromCsv_mainText (ws : List (List Char)) :
    fromCsv (mainText false ws) = some (ws.map Py.strip) := by
  simp [fromCsv, mainText, _root_.Xml.fromCsv_toCsv_conv]

/-! ## strip -/

theorem lstrip_eq_nil_iff (s : List Char) : Py.lstrip s = [] ↔ s.all Py.isSpace = true := by
  induction s with
  | nil => simp [Py.lstrip]
  | cons c cs ih =>
    by_cases hc : Py.isSpace c = true
    · simp [Py.lstrip, hc, ih]
    · simp [Py.lstrip, hc]

theorem lstrip_all_of_ne (s : List Char) (h : Py.lstrip s ≠ []) :
    (Py.lstrip s).all Py.isSpace = false := by
  induction s with
  | nil => simp [Py.lstrip] at h
  | cons c cs ih =>
    by_cases hc : Py.isSpace c = true
    · simp only [Py.lstrip, hc, ↓reduceIte] at h ⊢; exact ih h
    · simp [Py.lstrip, hc]

theorem strip_eq_nil_iff (s : List Char) : Py.strip s = [] ↔ s.all Py.isSpace = true := by
  unfold Py.strip Py.rstrip
  rw [List.reverse_eq_nil_iff, lstrip_eq_nil_iff, List.all_reverse]
  constructor
  · intro h
    by_cases hl : Py.lstrip s = []
    · exact (lstrip_eq_nil_iff s).1 hl
    · rw [lstrip_all_of_ne s hl] at h; cases h
  · intro h
    rw [(lstrip_eq_nil_iff s).2 h]; rfl

/-- A stripped non-empty text contains a character that is not white space. -/
theorem strip_not_all_space (t : List Char) (h : Py.strip t ≠ []) :
    (Py.strip t).all Py.isSpace = false := by
  unfold Py.strip Py.rstrip at h ⊢
  rw [List.all_reverse]
  apply lstrip_all_of_ne
  intro h'
  apply h
  rw [h']; rfl

theorem strip_ne_nil_of_part (a v b : List Char) (hv : v.all Py.isSpace = false) :
    Py.strip (a ++ v ++ b) ≠ [] := by
  intro h
  rw [strip_eq_nil_iff] at h
  simp only [List.all_append, Bool.and_eq_true] at h
  rw [h.1.2] at hv
  cases hv

/-- The text written for a non-empty list of non-blank values is not blank (so the reader
    does not skip the element). -/
theorem strip_mainText_ne_nil (ws : List (List Char)) (hne : ws ≠ [])
    (hv : ∀ w ∈ ws, Py.strip w ≠ []) : Py.strip (mainText false ws) ≠ [] := by
  have h := _root_.Xml.fromCsv_toCsv_conv ws
  simp only [mainText, Bool.false_eq_true, ↓reduceIte]
  generalize _root_.Xml.toCsv ws = t at h
  unfold _root_.Xml.fromCsv at h
  split at h
  · -- empty text: read as no value
    cases ws with
    | nil => exact absurd rfl hne
    | cons w ws => simp at h
  · split at h
    · -- bracketed: starts with '['
      rename_i hb
      cases t with
      | nil => simp [_root_.Xml.bracketed] at hb
      | cons c cs =>
        have hc : c = '[' := by
          simp only [_root_.Xml.bracketed, List.head?_cons, Bool.and_eq_true, beq_iff_eq,
            Option.some.injEq] at hb
          exact hb.1
        subst hc
        have := strip_ne_nil_of_part [] ['['] cs (by decide)
        simpa using this
    · -- a single value, written as it is (stripped)
      cases ws with
      | nil => exact absurd rfl hne
      | cons w ws =>
        simp only [List.map_cons, Except.ok.injEq, List.cons.injEq] at h
        have hw := hv w (by simp)
        rw [h.1]
        have := strip_ne_nil_of_part [] (Py.strip w) [] (strip_not_all_space w hw)
        simpa using this

/-! ## The last loop of `_handle_properties` and the reader -/

theorem propCleanup_append (pid : PropId) (a b : List Xml) :
    (propCleanup pid (a ++ b)).1 = (propCleanup pid a).1 ++ (propCleanup pid b).1 := by
  induction a with
  | nil => simp [propCleanup]
  | cons k ks ih =>
    simp only [List.cons_append, propCleanup]
    split <;> simp [ih]

theorem value_in_propKeys : "value" ∈ propKeys := by decide

theorem propCleanup_value (pid : PropId) (x : List Char) :
    (propCleanup pid [leaf "value" x]).1 = [leaf "value" x] := by
  have h : "value" ∈ propKeys := value_in_propKeys
  have h2 : respell "value" = "value" := by decide
  simp [propCleanup, leaf, h, h2]

theorem findLast_concat (t : String) (ks : List Xml) (k : Xml) (h : k.tag = t) :
    findLast t (ks ++ [k]) = some k := by
  simp [findLast, find, h]

/-! ## Numeric suffixes -/

theorem sep_split_inj (x y p q : List Char) (hx : '-' ∉ x) (hy : '-' ∉ y)
    (h : x ++ '-' :: p = y ++ '-' :: q) : x = y ∧ p = q := by
  induction x generalizing y with
  | nil =>
    cases y with
    | nil => simpa using h
    | cons c y' =>
      simp only [List.nil_append, List.cons_append, List.cons.injEq] at h
      exact absurd h.1.symm (by intro hc; apply hy; simp [hc])
  | cons c x' ih =>
    cases y with
    | nil =>
      simp only [List.nil_append, List.cons_append, List.cons.injEq] at h
      exact absurd h.1 (by intro hc; apply hx; simp [hc])
    | cons c' y' =>
      simp only [List.cons_append, List.cons.injEq] at h
      have := ih y' (by intro hm; apply hx; simp [hm]) (by intro hm; apply hy; simp [hm]) h.2
      exact ⟨by rw [h.1, this.1], this.2⟩

theorem dash_not_in_digits (k : Nat) : '-' ∉ Py.natToDigits k := by
  intro h
  have hall := Py.natToDigits_all_digit k
  simp only [List.all_eq_true] at hall
  have := Py.isDigit_bounds (hall _ h)
  simp at this

theorem natToDigits_inj {j k : Nat} (h : Py.natToDigits j = Py.natToDigits k) : j = k := by
  have := congrArg Py.natOfDigits h
  simpa [Py.natOfDigits_natToDigits] using this

/-- Different (name, number) pairs give different suffixed names. -/
theorem suffix_inj {a b : List Char} {j k : Nat} (h : suffix a j = suffix b k) : a = b ∧ j = k := by
  unfold suffix at h
  have h' := congrArg List.reverse h
  simp only [List.reverse_append, List.reverse_cons, List.append_assoc, List.singleton_append] at h'
  have := sep_split_inj _ _ _ _ (by simpa using dash_not_in_digits j)
    (by simpa using dash_not_in_digits k) h'
  exact ⟨by simpa using this.2, natToDigits_inj (by simpa using this.1)⟩

/-! ## The next free suffix -/

theorem nextFree_ge (n : List Char) (used : List (List Char)) (fuel k : Nat) :
    k ≤ nextFree n used fuel k := by
  induction fuel generalizing k with
  | zero => simp [nextFree]
  | succ f ih =>
    simp only [nextFree]
    split
    · have := ih (k + 1); omega
    · exact Nat.le_refl k

/-- With the first candidate free, it is taken (the behaviour before the repair). -/
theorem nextFree_of_free (n : List Char) (used : List (List Char)) (fuel k : Nat)
    (h : suffix n k ∉ used) : nextFree n used fuel k = k := by
  cases fuel with
  | zero => rfl
  | succ f => simp [nextFree, h]

theorem nextFree_free_aux (n : List Char) (used : List (List Char)) (fuel : Nat) :
    ∀ (used' : List (List Char)) (k : Nat), used'.length ≤ fuel →
      (∀ j, k ≤ j → (suffix n j ∈ used ↔ suffix n j ∈ used')) →
      suffix n (nextFree n used fuel k) ∉ used := by
  induction fuel with
  | zero =>
    intro used' k hl hiff
    have : used' = [] := List.eq_nil_of_length_eq_zero (by omega)
    subst this
    simp only [nextFree]
    intro hm
    have := (hiff k (Nat.le_refl k)).1 hm
    simp at this
  | succ f ih =>
    intro used' k hl hiff
    simp only [nextFree]
    split
    · rename_i hm
      have hm' : suffix n k ∈ used' := (hiff k (Nat.le_refl k)).1 hm
      apply ih (used'.erase (suffix n k)) (k + 1)
      · rw [List.length_erase_of_mem hm']
        have : 0 < used'.length := List.length_pos_of_mem hm'
        omega
      · intro j hj
        have hne : suffix n j ≠ suffix n k := by
          intro e
          have := (suffix_inj e).2
          omega
        rw [hiff j (by omega), List.mem_erase_of_ne hne]
    · assumption

/-- The loop of `_change_entity_name` ends with a name no other sibling has. -/
theorem nextFree_free (n : List Char) (used : List (List Char)) (k : Nat) :
    suffix n (nextFree n used used.length k) ∉ used :=
  nextFree_free_aux n used used.length used k (Nat.le_refl _) (fun _ _ => Iff.rfl)

/-! ## Sibling names: the specification -/

/-- The names a group of siblings gets (specification): `prev` are the source names of the
    earlier siblings, `done` the names they got. -/
def names10 (done prev : List (List Char)) : List (List Char) → List (List Char)
  | [] => []
  | n :: rest =>
    name10 (done ++ rest) prev n :: names10 (done ++ [name10 (done ++ rest) prev n]) (n :: prev) rest

/-- A renamed sibling never gets the name of another sibling; one that keeps its name is the
    first with that name. -/
theorem name10_not_in_done (done rest prev : List (List Char)) (n : List Char)
    (hb : n ∈ done → prev.count n ≠ 0) : name10 (done ++ rest) prev n ∉ done := by
  unfold name10
  split
  · rename_i hc; exact fun h => hb h hc
  · intro h
    exact nextFree_free n (done ++ rest) _ (List.mem_append_left _ h)

theorem name10_not_in_rest (done rest prev : List (List Char)) (n : List Char)
    (hc : prev.count n ≠ 0) : name10 (done ++ rest) prev n ∉ rest := by
  unfold name10
  rw [if_neg hc]
  intro h
  exact nextFree_free n (done ++ rest) _ (List.mem_append_right _ h)

/-- **Sibling names are unique after suffixing**, for any names and any number of clashes.
    Invariant: the names handed out so far are pairwise different, and a later sibling whose
    source name is among them is not the first with that name. -/
theorem names10_nodup (ns done prev : List (List Char)) (ha : done.Nodup)
    (hb : ∀ x ∈ ns, x ∈ done → prev.count x ≠ 0) : (done ++ names10 done prev ns).Nodup := by
  induction ns generalizing done prev with
  | nil => simpa [names10] using ha
  | cons n rest ih =>
    simp only [names10]
    have hy : name10 (done ++ rest) prev n ∉ done :=
      name10_not_in_done done rest prev n (hb n (by simp))
    have ha' : (done ++ [name10 (done ++ rest) prev n]).Nodup := by
      rw [List.nodup_append]
      refine ⟨ha, by simp, ?_⟩
      intro a ha1 b hb1
      simp only [List.mem_singleton] at hb1
      subst hb1
      intro e; subst e; exact hy ha1
    have hb' : ∀ x ∈ rest, x ∈ done ++ [name10 (done ++ rest) prev n] → (n :: prev).count x ≠ 0 := by
      intro x hx hmem
      simp only [List.mem_append, List.mem_singleton] at hmem
      rcases hmem with hd | he
      · have := hb x (by simp [hx]) hd
        rw [List.count_cons]; split <;> omega
      · by_cases hc : prev.count n = 0
        · have : x = n := by rw [he]; simp [name10, hc]
          subst this
          simp
        · exact absurd (he ▸ hx) (name10_not_in_rest done rest prev n hc)
    have := ih (done ++ [name10 (done ++ rest) prev n]) (n :: prev) ha' hb'
    simpa [List.append_assoc] using this

/-- The names before the repair: the k-th sibling with a name already used gets `-k`. -/
def name10Legacy (prev : List (List Char)) (n : List Char) : List Char :=
  if prev.count n = 0 then n else suffix n (prev.count n + 1)

def names10Legacy (prev : List (List Char)) : List (List Char) → List (List Char)
  | [] => []
  | n :: rest => name10Legacy prev n :: names10Legacy (n :: prev) rest

/-- Where the number of the occurrence gives a free name, it is the one taken. -/
theorem name10_default (used prev : List (List Char)) (n : List Char)
    (h : suffix n (prev.count n + 1) ∉ used) : name10 used prev n = name10Legacy prev n := by
  unfold name10 name10Legacy
  split
  · rfl
  · rw [nextFree_of_free _ _ _ _ h]

/-! ## `_change_entity_name` (occurrence map) against the specification (counting) -/

/-- The names `_change_entity_name` hands out to a run of siblings, starting from map `m`;
    `done` are the names the earlier siblings have got. -/
def bumpAll (m : Counter) (done : List (List Char)) : List (List Char) → List (List Char)
  | [] => []
  | n :: rest =>
    (bump m (done ++ rest) n).2 ::
      bumpAll (bump m (done ++ rest) n).1 (done ++ [(bump m (done ++ rest) n).2]) rest

/-- The map records, per name, the number of earlier siblings with that name. -/
def Rep (m : Counter) (prev : List (List Char)) : Prop :=
  ∀ a, m.lookup a = if prev.count a = 0 then none else some (prev.count a)

theorem lookup_setCount (m : Counter) (n a : List Char) (v : Nat) :
    (setCount n v m).lookup a = if a = n then some v else m.lookup a := by
  induction m with
  | nil =>
    by_cases h : a = n
    · simp [setCount, List.lookup, h]
    · have hb : (a == n) = false := by simpa using h
      simp [setCount, List.lookup, h, hb]
  | cons e rest ih =>
    obtain ⟨n', c'⟩ := e
    by_cases hn : n' = n
    · subst hn
      by_cases h : a = n'
      · simp [setCount, List.lookup, h]
      · have hb : (a == n') = false := by simpa using h
        simp [setCount, List.lookup, h, hb]
    · by_cases h : a = n
      · subst h
        have hne : (a == n') = false := by simp; exact fun h => hn h.symm
        simp [setCount, hn, List.lookup, hne, ih]
      · by_cases h2 : a = n'
        · subst h2; simp [setCount, hn, List.lookup]
        · have hne : (a == n') = false := by simp [h2]
          simp [setCount, hn, List.lookup, hne, ih, h]

theorem bump_spec (m : Counter) (used prev : List (List Char)) (n : List Char) (h : Rep m prev) :
    (bump m used n).2 = name10 used prev n ∧ Rep (bump m used n).1 (n :: prev) := by
  have hn := h n
  by_cases hc : prev.count n = 0
  · simp only [hc, ↓reduceIte] at hn
    refine ⟨by simp [bump, hn, name10, hc], ?_⟩
    intro a
    simp only [bump, hn]
    by_cases ha : a = n
    · subst ha; simp [List.lookup, hc]
    · have hne : (a == n) = false := by simp [ha]
      have hne' : (n == a) = false := by simp; exact fun h => ha h.symm
      simp [List.lookup, hne, h a, List.count_cons, hne']
  · simp only [hc, ↓reduceIte] at hn
    refine ⟨by simp [bump, hn, name10, hc], ?_⟩
    intro a
    simp only [bump, hn, lookup_setCount]
    by_cases ha : a = n
    · subst ha; simp
    · have hne' : (n == a) = false := by simp; exact fun h => ha h.symm
      simp [ha, h a, List.count_cons, hne']

theorem bumpAll_eq_names10 (m : Counter) (done prev ns : List (List Char)) (h : Rep m prev) :
    bumpAll m done ns = names10 done prev ns := by
  induction ns generalizing m done prev with
  | nil => rfl
  | cons n rest ih =>
    obtain ⟨h1, h2⟩ := bump_spec m (done ++ rest) prev n h
    simp only [bumpAll, names10, h1]
    rw [ih _ _ _ h2]

theorem rep_nil : Rep [] [] := by intro a; simp [List.lookup]

/-! ## Stage 1 on a group of siblings -/

theorem p1_tag (k : Xml) : (p1 k).tag = k.tag := by cases k; simp [p1, Xml.tag]
theorem p1_kids (k : Xml) : (p1 k).kids = p1Kids (k.tag == "section") [] [] [] [] k.kids := by
  cases k; simp [p1, Xml.kids, Xml.tag]
theorem rename_tag (n : List Char) (k : Xml) : (rename n k).tag = k.tag := by
  cases k; simp [rename, Xml.tag]
theorem rename_kids (n : List Char) (k : Xml) :
    (rename n k).kids = setFirstText "name" n k.kids := by cases k; simp [rename, Xml.kids]

theorem find_isSome_p1Kids (t : String) (b : Bool) (sm pm : Counter) (sd pd : List (List Char))
    (ks : List Xml) : (find t (p1Kids b sm pm sd pd ks)).isSome = (find t ks).isSome := by
  induction ks generalizing sm pm sd pd with
  | nil => simp [p1Kids]
  | cons k ks ih =>
    simp only [p1Kids]
    split
    · split <;> simp [find, rename_tag, p1_tag, ih] <;> split <;> simp [ih]
    · split
      · split <;> simp [find, rename_tag, ih] <;> split <;> simp [ih]
      · simp only [find]; split <;> simp [ih]

theorem findText_setFirstText (t : String) (n : List Char) (ks : List Xml)
    (h : (find t ks).isSome = true) : findText t (setFirstText t n ks) = n := by
  induction ks with
  | nil => simp [find] at h
  | cons k ks ih =>
    by_cases hk : k.tag = t
    · simp [setFirstText, hk, findText, find]
    · simp only [find, hk, ↓reduceIte] at h
      have := ih h
      simp only [findText] at this
      simp [setFirstText, hk, findText, find, this]

theorem find_isSome_setFirstText (t : String) (n : List Char) (ks : List Xml) :
    (find t (setFirstText t n ks)).isSome = (find t ks).isSome := by
  induction ks with
  | nil => simp [setFirstText]
  | cons k ks ih =>
    by_cases hk : k.tag = t
    · simp [setFirstText, hk, find]
    · simp [setFirstText, hk, find, ih]

theorem secNames_cons (k : Xml) (ks : List Xml) :
    secNames (k :: ks) =
      if k.tag = "section" ∧ (find "name" k.kids).isSome = true
      then findText "name" k.kids :: secNames ks else secNames ks := by
  by_cases h : k.tag = "section" <;> by_cases h2 : (find "name" k.kids).isSome = true <;>
    simp [secNames, List.filter_cons, h, h2]

/-- The named Section children of any node come out of stage 1 with the names the occurrence
    map hands out, in order. -/
theorem secNames_p1Kids (b : Bool) (sm pm : Counter) (sd pd : List (List Char)) (ks : List Xml) :
    secNames (p1Kids b sm pm sd pd ks) = bumpAll sm sd (secNames ks) := by
  induction ks generalizing sm pm sd pd with
  | nil => simp [p1Kids, secNames, bumpAll]
  | cons k ks ih =>
    by_cases hs : k.tag = "section"
    · cases hf : find "name" k.kids with
      | none =>
        simp only [p1Kids, hs, ↓reduceIte, hf]
        rw [secNames_cons, secNames_cons]
        have h1 : (find "name" (p1 k).kids).isSome = false := by
          rw [p1_kids, find_isSome_p1Kids]; simp [hf]
        simp only [p1_tag, hs, h1, hf, Option.isSome_none, Bool.false_eq_true, and_false, ↓reduceIte]
        exact ih _ _ _ _
      | some nm =>
        have hft : findText "name" k.kids = nm.text := by simp [findText, hf]
        have h1 : (find "name" (p1 k).kids).isSome = true := by
          rw [p1_kids, find_isSome_p1Kids]; simp [hf]
        simp only [p1Kids, hs, ↓reduceIte, hf]
        rw [secNames_cons, secNames_cons]
        simp only [rename_tag, p1_tag, hs, rename_kids, find_isSome_setFirstText, h1, hf,
          Option.isSome_some, and_self, ↓reduceIte, bumpAll, hft]
        rw [findText_setFirstText _ _ _ h1, ih]
    · simp only [p1Kids, hs, ↓reduceIte]
      rw [secNames_cons]
      simp only [hs, false_and, ↓reduceIte]
      split
      · split
        · rw [secNames_cons]; simp only [rename_tag, hs, false_and, ↓reduceIte]; exact ih _ _ _ _
        · rw [secNames_cons]; simp only [hs, false_and, ↓reduceIte]; exact ih _ _ _ _
      · rw [secNames_cons]; simp only [hs, false_and, ↓reduceIte]; exact ih _ _ _ _

theorem propNames_cons (k : Xml) (ks : List Xml) :
    propNames (k :: ks) =
      if k.tag = "property" ∧ (find "name" k.kids).isSome = true
      then findText "name" k.kids :: propNames ks else propNames ks := by
  by_cases h : k.tag = "property" <;> by_cases h2 : (find "name" k.kids).isSome = true <;>
    simp [propNames, List.filter_cons, h, h2]

/-- The named Property children of a Section come out of stage 1 with the names the occurrence
    map hands out, in order. -/
theorem propNames_p1Kids (sm pm : Counter) (sd pd : List (List Char)) (ks : List Xml) :
    propNames (p1Kids true sm pm sd pd ks) = bumpAll pm pd (propNames ks) := by
  induction ks generalizing sm pm sd pd with
  | nil => simp [p1Kids, propNames, bumpAll]
  | cons k ks ih =>
    by_cases hs : k.tag = "section"
    · have hnp : ¬ (k.tag = "property") := by rw [hs]; decide
      simp only [p1Kids, hs, ↓reduceIte]
      rw [propNames_cons k ks]
      simp only [hnp, false_and, ↓reduceIte]
      split
      · rw [propNames_cons]; simp only [rename_tag, p1_tag, hnp, false_and, ↓reduceIte]; exact ih _ _ _ _
      · rw [propNames_cons]; simp only [p1_tag, hnp, false_and, ↓reduceIte]; exact ih _ _ _ _
    · by_cases hp : k.tag = "property"
      · simp only [p1Kids, hs, ↓reduceIte]
        simp only [hp, Bool.and_true, decide_true, ↓reduceIte]
        cases hf : find "name" k.kids with
        | none =>
          simp only
          rw [propNames_cons, propNames_cons]
          simp [hf, ih]
        | some nm =>
          have hft : findText "name" k.kids = nm.text := by simp [findText, hf]
          simp only
          rw [propNames_cons, propNames_cons]
          simp only [rename_tag, hp, rename_kids, find_isSome_setFirstText, hf, Option.isSome_some,
            and_self, ↓reduceIte, bumpAll, hft]
          rw [findText_setFirstText _ _ _ (by simp [hf]), ih]
      · simp only [p1Kids, hs, ↓reduceIte]
        simp only [hp, Bool.and_true, decide_false, Bool.false_eq_true, ↓reduceIte]
        rw [propNames_cons, propNames_cons]
        simp [hp, ih]

/-! ## `_handle_value`: first occurrence wins -/

/-- The 1.1 tag under which `_handle_value` would export a value attribute, if at all. -/
def target (d : Xml) : Option String :=
  if d.tag ∈ propKeys then some d.tag else versionMap.lookup d.tag

def look (d : Xml) : String := (versionMap.lookup d.tag).getD d.tag

def fixText (d : Xml) : List Char := if isBinary d.tag d.text then "text".toList else d.text

/-- First element of `ds` exported under tag `t`. -/
def firstLift (t : String) : List Xml → Option Xml
  | [] => none
  | d :: ds => if target d = some t then some (leaf t (fixText d)) else firstLift t ds

theorem vm_keys_not_prop (s : String) (h : s ∈ propKeys) : versionMap.lookup s = none := by
  have h1 : "filename" ∉ propKeys := by decide
  have h2 : "dtype" ∉ propKeys := by decide
  have hf : s ≠ "filename" := by intro e; subst e; exact h1 h
  have hd : s ≠ "dtype" := by intro e; subst e; exact h2 h
  have hb1 : (s == "filename") = false := by simpa using hf
  have hb2 : (s == "dtype") = false := by simpa using hd
  simp [versionMap, List.lookup, hb1, hb2]

theorem target_look (d : Xml) (m : String) (h : target d = some m) : look d = m := by
  unfold target at h
  unfold look
  split at h
  · rename_i hp
    simp only [Option.some.injEq] at h
    rw [vm_keys_not_prop _ hp]; simpa using h
  · rw [h]; rfl

theorem find_append_single (t : String) (ks : List Xml) (k : Xml) :
    find t (ks ++ [k]) = match find t ks with
      | some x => some x
      | none => if k.tag = t then some k else none := by
  induction ks with
  | nil => simp [find]
  | cons a as ih =>
    simp only [List.cons_append, find]
    split
    · rfl
    · exact ih

theorem hve_find (pid : PropId) (t : String) (ds cur : List Xml) (log : Log) :
    find t (handleValueElems pid ds cur log).1 =
      match find t cur with
      | some k => some k
      | none => firstLift t ds := by
  induction ds generalizing cur log with
  | nil => simp only [handleValueElems, firstLift]; split <;> simp_all
  | cons d ds ih =>
    simp only [handleValueElems]
    have hlook : (versionMap.lookup d.tag).getD d.tag = look d := rfl
    rw [hlook]
    cases hce : find (look d) cur with
    | some ce =>
      simp only
      rw [ih]
      cases hft : find t cur with
      | some k => rfl
      | none =>
        simp only [firstLift]
        split
        · rename_i htg
          rw [target_look d t htg, hft] at hce
          cases hce
        · rfl
    | none =>
      simp only
      by_cases hp : d.tag ∈ propKeys
      · have htg : target d = some d.tag := by simp [target, hp]
        have hl : look d = d.tag := target_look d _ htg
        simp only [hp, ↓reduceIte]
        split
        · rename_i hb
          rw [ih, find_append_single]
          cases hft : find t cur with
          | some k => rfl
          | none =>
            simp only [leaf, tag_elem, firstLift, htg, Option.some.injEq, fixText, hb, ↓reduceIte]
            by_cases hdt : d.tag = t
            · subst hdt; simp
            · simp [hdt]
        · rename_i hb
          rw [ih, find_append_single]
          cases hft : find t cur with
          | some k => rfl
          | none =>
            simp only [leaf, tag_elem, firstLift, htg, Option.some.injEq, fixText, hb]
            by_cases hdt : d.tag = t
            · subst hdt; simp
            · simp [hdt]
      · simp only [hp, ↓reduceIte]
        cases hvm : versionMap.lookup d.tag with
        | none =>
          simp only
          have htg : target d = none := by simp [target, hp, hvm]
          rw [ih]
          cases hft : find t cur with
          | some k => rfl
          | none => simp [firstLift, htg]
        | some m =>
          simp only
          have htg : target d = some m := by simp [target, hp, hvm]
          split
          · rename_i hb
            rw [ih, find_append_single]
            cases hft : find t cur with
            | some k => rfl
            | none =>
              simp only [leaf, tag_elem, firstLift, htg, Option.some.injEq, fixText, hb, ↓reduceIte]
              by_cases hdt : m = t
              · subst hdt; simp
              · simp [hdt]
          · rename_i hb
            rw [ih, find_append_single]
            cases hft : find t cur with
            | some k => rfl
            | none =>
              simp only [leaf, tag_elem, firstLift, htg, Option.some.injEq, fixText, hb]
              by_cases hdt : m = t
              · subst hdt; simp
              · simp [hdt]

theorem find_removeFirst (t r : String) (h : t ≠ r) (ks : List Xml) :
    find t (removeFirst r ks) = find t ks := by
  induction ks with
  | nil => rfl
  | cons k ks ih =>
    simp only [removeFirst]
    split
    · rename_i hk
      have : k.tag ≠ t := by rw [hk]; exact fun e => h e.symm
      simp [find, this]
    · simp only [find]; split
      · rfl
      · exact ih

theorem firstLift_append (t : String) (a b : List Xml) :
    firstLift t (a ++ b) = match firstLift t a with
      | some x => some x
      | none => firstLift t b := by
  induction a with
  | nil => simp [firstLift]
  | cons d ds ih =>
    simp only [List.cons_append, firstLift]
    split
    · rfl
    · exact ih

theorem valueLoop_find (pid : PropId) (t : String) (ht : t ≠ "value") (vals : List Xml) (s : VState) :
    find t (valueLoop pid vals s).cur =
      match find t s.cur with
      | some k => some k
      | none => firstLift t (vals.flatMap valueElems) := by
  induction vals generalizing s with
  | nil => simp only [valueLoop, List.flatMap_nil, firstLift]; split <;> simp_all
  | cons v vs ih =>
    simp only [valueLoop, List.flatMap_cons]
    rw [ih, find_removeFirst t "value" ht, hve_find, firstLift_append]
    cases find t s.cur <;> rfl

theorem elem_eta (k : Xml) : Xml.elem k.tag k.attrs k.text k.kids = k := by cases k; rfl

theorem respell_ne (s : String) (h : s ≠ "dependency_value") : respell s = s := by
  simp [respell, h]

theorem propCleanup_find (pid : PropId) (t : String) (ht : t ∈ propKeys) (ht1 : t ≠ "dependencyvalue")
    (ks : List Xml) : find t (propCleanup pid ks).1 = find t ks := by
  have hdv : "dependency_value" ∉ propKeys := by decide
  have htd : t ≠ "dependency_value" := by intro e; subst e; exact hdv ht
  induction ks with
  | nil => rfl
  | cons k ks ih =>
    simp only [propCleanup]
    by_cases hk : k.tag = t
    · have hr : respell k.tag = k.tag := respell_ne _ (by rw [hk]; exact htd)
      rw [hr, hk, if_pos ht]
      simp only [find, tag_elem, ↓reduceIte, hk]
      rw [← hk, elem_eta]
    · have hr : respell k.tag ≠ t := by
        unfold respell; split
        · exact fun e => ht1 e.symm
        · exact hk
      split
      · simp only [find, tag_elem, hr, ↓reduceIte, hk]; exact ih
      · simp only [find, hk, ↓reduceIte]; exact ih


/-! ## No 1.0 value element is left behind -/

def isV (k : Xml) : Bool := k.tag == "value"

theorem find_none_iff (t : String) (ks : List Xml) : find t ks = none ↔ ∀ k ∈ ks, k.tag ≠ t := by
  induction ks with
  | nil => simp [find]
  | cons k ks ih =>
    by_cases hk : k.tag = t
    · simp [find, hk]
    · simp [find, hk, ih]

theorem findLast_none_of_find (t : String) (ks : List Xml) (h : find t ks = none) :
    findLast t ks = none := by
  unfold findLast
  rw [find_none_iff] at h ⊢
  intro k hk
  exact h k (List.mem_reverse.1 hk)

theorem versionMap_target_ne_value (s m : String) (h : versionMap.lookup s = some m) :
    m ≠ "value" := by
  simp only [versionMap, List.lookup] at h
  split at h
  · cases h; decide
  · split at h
    · cases h; decide
    · cases h

theorem valueElems_ne_value (v : Xml) : ∀ d ∈ valueElems v, d.tag ≠ "value" := by
  intro d hd
  simp only [valueElems, List.mem_filter, bne_iff_ne, ne_eq] at hd
  exact hd.2

/-- `_handle_value` adds no `value` child to the Property. -/
theorem hve_filter_value (pid : PropId) (ds cur : List Xml) (log : Log)
    (hd : ∀ d ∈ ds, d.tag ≠ "value") :
    (handleValueElems pid ds cur log).1.filter isV = cur.filter isV := by
  induction ds generalizing cur log with
  | nil => rfl
  | cons d ds ih =>
    have hd' : ∀ d' ∈ ds, d'.tag ≠ "value" := fun d' h => hd d' (List.mem_cons_of_mem _ h)
    have hdt : d.tag ≠ "value" := hd d (by simp)
    simp only [handleValueElems]
    split
    · exact ih _ _ hd'
    · split
      · split <;> (rw [ih _ _ hd']; simp [List.filter_append, isV, leaf, hdt])
      · split
        · rename_i m hm
          have hm' : m ≠ "value" := versionMap_target_ne_value _ _ hm
          split <;> (rw [ih _ _ hd']; simp [List.filter_append, isV, leaf, hm'])
        · exact ih _ _ hd'

theorem removeFirst_filter_value (ks : List Xml) :
    (removeFirst "value" ks).filter isV = (ks.filter isV).drop 1 := by
  induction ks with
  | nil => rfl
  | cons k ks ih =>
    by_cases hk : k.tag = "value"
    · simp [removeFirst, hk, isV, List.filter_cons]
    · have hb : isV k = false := by simp [isV, hk]
      simp only [removeFirst, hk, ↓reduceIte, List.filter_cons, hb, Bool.false_eq_true]
      exact ih

/-- Every round of the value loop removes one `value` child. -/
theorem valueLoop_filter_value (pid : PropId) (vals : List Xml) (s : VState) :
    (valueLoop pid vals s).cur.filter isV = (s.cur.filter isV).drop vals.length := by
  induction vals generalizing s with
  | nil => simp [valueLoop]
  | cons v vs ih =>
    simp only [valueLoop]
    rw [ih]
    simp only [removeFirst_filter_value, hve_filter_value _ _ _ _ (valueElems_ne_value v),
      List.drop_drop, List.length_cons]
    congr 1
    omega

/-- After the loop over all value elements of a Property no `value` child is left. -/
theorem valueLoop_no_value (pid : PropId) (p : Xml) (vals0 : List (List Char)) (log : Log) :
    find "value" (valueLoop pid (valuesOf p) { cur := p.kids, vals := vals0, log := log }).cur = none := by
  rw [find_none_iff]
  have h := valueLoop_filter_value pid (valuesOf p) { cur := p.kids, vals := vals0, log := log }
  have hv : valuesOf p = p.kids.filter isV := rfl
  simp only [hv, List.drop_length] at h
  intro k hk hkt
  have : k ∈ List.filter isV (valueLoop pid (List.filter isV p.kids)
      { cur := p.kids, vals := vals0, log := log }).cur := by
    rw [hv] at hk
    exact List.mem_filter.2 ⟨hk, by simp [isV, hkt]⟩
  rw [h] at this
  cases this

/-! ## `vals10` in terms of `stripped` -/

theorem vals10_eq_stripped (p : Xml) : vals10 p = stripped ((valuesOf p).map Xml.text) := by
  simp [vals10, stripped, List.filterMap_map, Function.comp_def]

theorem mem_stripped {w : List Char} {ts : List (List Char)} (h : w ∈ stripped ts) :
    ∃ t, w = Py.strip t ∧ w ≠ [] := by
  simp only [stripped, List.mem_filterMap] at h
  obtain ⟨t, _, ht⟩ := h
  by_cases hs : Py.strip t = []
  · simp [hs] at ht
  · simp only [hs, ↓reduceIte, Option.some.injEq] at ht
    exact ⟨t, ht.symm, ht ▸ hs⟩


end Conv
