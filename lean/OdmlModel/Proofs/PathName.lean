/-
Helper lemmas for the name-setter theorems of C14 (`Props/C14.lean`, section 5c).
-/
import OdmlModel.Model.PathName

namespace PathName
open PathTree

theorem distinct_set (l : List Str) (i : Nat) (v : Str) (hd : distinct l = true)
    (hc : l.contains v = false) : distinct (l.set i v) = true := by
  induction l generalizing i with
  | nil => simp [distinct]
  | cons n r ih =>
    simp only [distinct, Bool.and_eq_true, Bool.not_eq_true'] at hd
    have hc' : r.contains v = false ∧ v ≠ n := by
      simp [List.contains_cons] at hc
      constructor
      · simpa using hc.2
      · exact hc.1
    cases i with
    | zero =>
      simp only [List.set_cons_zero, distinct, Bool.and_eq_true, Bool.not_eq_true']
      exact ⟨hc'.1, hd.2⟩
    | succ j =>
      simp only [List.set_cons_succ, distinct, Bool.and_eq_true, Bool.not_eq_true']
      refine ⟨?_, ih j hd.2 hc'.1⟩
      cases hm : (r.set j v).contains n with
      | false => rfl
      | true =>
        exfalso
        have hmem : n ∈ r.set j v := by simpa using hm
        rcases List.mem_or_eq_of_mem_set hmem with h | h
        · have : r.contains n = true := by simpa using h
          rw [this] at hd; exact absurd hd.1 (by simp)
        · exact hc'.2 h.symm


theorem all_plain_set (l : List Str) (i : Nat) (v : Str) (hl : l.all plainName = true)
    (hv : plainName v = true) : (l.set i v).all plainName = true := by
  rw [List.all_eq_true] at hl ⊢
  intro x hx
  rcases List.mem_or_eq_of_mem_set hx with h | h
  · exact hl x h
  · rw [h]; exact hv


end PathName
