/-
C11 helper lemmas, part 12: the dicts `_merged_attrs` (address space `dcell`, Node field `mattrs`).

`clone()` is `copy.copy`: the copy of a Section holds the ADDRESS of the dict of the original. Two
relations describe what an operation does to the dicts:
  `DSame h h'`   no dict is allocated or written, every object's record address is the class-level
                 dict (0) or one an object of `h` holds              (all operations but three)
  `DFrame h h'`  no dict that exists in `h` is written; new ones may be allocated, and an object's record
                 address is 0, one an object of `h` holds, or a new one (newObj, merge, unmerge)
`step_dframe` / `run_dframe` is the frame lemma of the fourth address space for every operation and
every run; `DScoped` (every record address is allocated) is an invariant of every run.
-/
import OdmlModel.Proofs.CloneChain
namespace Clone

/-- The record address of every object of `h'` is the class-level dict or one an object of `h` holds. -/
def MFrom (h h' : H) : Prop := ∀ a, (h'.node a).mattrs = 0 ∨ ∃ b, (h'.node a).mattrs = (h.node b).mattrs

/-- No dict is allocated, no dict is written, no record address is invented. -/
structure DSame (h h' : H) : Prop where
  dcell : h'.dcell = h.dcell
  nD : h'.nD = h.nD
  addr : MFrom h h'

theorem DSame.refl (h : H) : DSame h h := ⟨rfl, rfl, fun a => Or.inr ⟨a, rfl⟩⟩

theorem DSame.trans {a b c : H} (h1 : DSame a b) (h2 : DSame b c) : DSame a c :=
  ⟨h2.dcell.trans h1.dcell, h2.nD.trans h1.nD, fun x => by
    rcases h2.addr x with e | ⟨y, e⟩
    · exact Or.inl e
    · rcases h1.addr y with e' | ⟨z, e'⟩
      · exact Or.inl (e.trans e')
      · exact Or.inr ⟨z, e.trans e'⟩⟩

theorem dsame_of_node {h h' : H} (hn : h'.node = h.node) (hd : h'.dcell = h.dcell) (hD : h'.nD = h.nD) :
    DSame h h' := ⟨hd, hD, fun a => Or.inr ⟨a, by rw [hn]⟩⟩

theorem dsame_updN (h : H) (i : Nat) (f : Node → Node) (hf : ∀ n : Node, (f n).mattrs = n.mattrs) :
    DSame h (updN h i f) :=
  ⟨rfl, rfl, fun a => Or.inr ⟨a, by
    rw [updN_node]; split
    · exact hf _
    · rfl⟩⟩

theorem dsame_newId (h : H) (x : Nat) : DSame h (newId h x) :=
  ⟨rfl, rfl, fun a => Or.inr ⟨a, by rw [newId_node]; split <;> rfl⟩⟩

theorem dsame_allocN (h : H) (n : Node) (hn : n.mattrs = 0 ∨ ∃ b, n.mattrs = (h.node b).mattrs) :
    DSame h (allocN h n).1 :=
  ⟨rfl, rfl, fun a => by
    rw [allocN_node]; split
    · exact hn
    · exact Or.inr ⟨a, rfl⟩⟩

theorem dsame_allocV (h : H) (l : List Item) : DSame h (allocV h l).1 := dsame_of_node rfl rfl rfl
theorem dsame_allocT (h : H) (l : List String) : DSame h (allocT h l).1 := dsame_of_node rfl rfl rfl
theorem dsame_updV (h : H) (i f) : DSame h (updV h i f) := dsame_of_node rfl rfl rfl
theorem dsame_updT (h : H) (i f) : DSame h (updT h i f) := dsame_of_node rfl rfl rfl

theorem dsame_fst {h a : H} {e : Option Err} (g : DSame h a) : DSame h (a, e).1 := g

/-! ### Values -/

theorem dsame_convertItems (src : List Item) : ∀ h, DSame h (convertItems h src).1 := by
  induction src with
  | nil => intro h; exact DSame.refl h
  | cons it rest ih =>
    intro h
    cases it with
    | atom s => simp only [convertItems]; exact ih h
    | ref t => simp only [convertItems]; exact (dsame_allocT h _).trans (ih _)

theorem dsame_litItems (src : List Lit) : ∀ h, DSame h (litItems h src).1 := by
  induction src with
  | nil => intro h; exact DSame.refl h
  | cons it rest ih =>
    intro h
    cases it with
    | atom s => simp only [litItems]; exact ih h
    | tup xs => simp only [litItems]; exact (dsame_allocT h _).trans (ih _)

theorem dsame_bindVals (h : H) (p : Nat) (l : List Item) :
    DSame h (updN (allocV h l).1 p (fun n => { n with vals := some (allocV h l).2 })) :=
  (dsame_allocV h l).trans (dsame_updN _ _ _ (fun _ => rfl))

theorem dsame_setValuesItems (h : H) (p : Nat) (src : List Item) : DSame h (setValuesItems h p src) := by
  cases src with
  | nil => exact dsame_bindVals h p []
  | cons it rest =>
    have r := dsame_convertItems (it :: rest) h
    simp only [setValuesItems]
    generalize convertItems h (it :: rest) = cv at r
    obtain ⟨h1, items⟩ := cv
    exact r.trans (dsame_bindVals h1 p items)

theorem dsame_setValuesLits (h : H) (p : Nat) (src : List Lit) : DSame h (setValuesLits h p src) := by
  cases src with
  | nil => exact dsame_bindVals h p []
  | cons it rest =>
    have r := dsame_litItems (it :: rest) h
    simp only [setValuesLits]
    generalize litItems h (it :: rest) = cv at r
    obtain ⟨h1, items⟩ := cv
    exact r.trans (dsame_bindVals h1 p items)

theorem dsame_getValues (h : H) (p : Nat) : DSame h (getValues h p).1 := by
  have r := dsame_convertItems (valsOf h p) h
  simp only [getValues]
  generalize convertItems h (valsOf h p) = cv at r
  obtain ⟨h1, items⟩ := cv
  exact r.trans (dsame_allocV h1 items)

theorem dsame_newList (h : H) (vs : List Lit) : DSame h (newList h vs).1 := by
  have r := dsame_litItems vs h
  simp only [newList]
  generalize litItems h vs = cv at r
  obtain ⟨h1, items⟩ := cv
  exact r.trans (dsame_allocV h1 items)

theorem dsame_litUpd (h : H) (v : Lit) (c : Nat) (f : List Item → List Item → List Item) :
    DSame h (updV (litItems h [v]).1 c (f (litItems h [v]).2)) :=
  (dsame_litItems [v] h).trans (dsame_updV _ _ _)

theorem dsame_setAttr (h : H) (x i : Nat) (v : String) : DSame h (setAttr h x i v) :=
  dsame_updN _ _ _ (fun _ => rfl)

theorem dsame_setDtype (h : H) (p : Nat) (v : String) : DSame h (setDtype h p v) := by
  unfold setDtype
  exact (dsame_setAttr h p 0 v).trans (dsame_setValuesItems _ _ _)

theorem dsame_appendValue (h : H) (p : Nat) (v : Lit) : DSame h (appendValue h p v) := by
  unfold appendValue
  split
  · exact DSame.refl h
  · split
    · exact dsame_setValuesLits h p [v]
    · exact dsame_litUpd h v _ (fun items l => l ++ items)

theorem dsame_setValueAt (h : H) (p i : Nat) (v : Lit) : DSame h (setValueAt h p i v).1 := by
  unfold setValueAt
  split
  · exact DSame.refl h
  · split
    · exact DSame.refl h
    · exact dsame_litUpd h v _ (fun items l => match items with | it :: _ => l.set i it | [] => l)

theorem dsame_listAppend (h : H) (c : Nat) (v : Lit) : DSame h (listAppend h c v) :=
  dsame_litUpd h v c (fun items l => l ++ items)

theorem dsame_listSet (h : H) (c i : Nat) (v : Lit) : DSame h (listSet h c i v).1 := by
  unfold listSet
  split
  · exact DSame.refl h
  · exact dsame_litUpd h v c (fun items l => match items with | it :: _ => l.set i it | [] => l)

theorem dsame_listDel (h : H) (c i : Nat) : DSame h (listDel h c i).1 := by
  unfold listDel
  split
  · exact DSame.refl h
  · exact dsame_fst (dsame_updV h c _)

theorem dsame_listInnerSet (h : H) (c i j : Nat) (s : String) : DSame h (listInnerSet h c i j s).1 := by
  unfold listInnerSet
  split
  · split
    · exact DSame.refl h
    · exact dsame_fst (dsame_updT h _ _)
  · exact DSame.refl h
  · exact DSame.refl h

theorem dsame_valueInnerSet (h : H) (p i j : Nat) (s : String) : DSame h (valueInnerSet h p i j s).1 := by
  unfold valueInnerSet
  split
  · exact DSame.refl h
  · split
    · exact DSame.refl h
    · exact dsame_listInnerSet h _ i j s

/-! ### Structure -/

theorem dsame_setChildList (h : H) (p : Nat) (b : Bool) (f : List Nat → List Nat) :
    DSame h (setChildList h p b f) := by
  unfold setChildList
  exact dsame_updN _ _ _ (fun n => by split <;> rfl)

theorem dsame_setParent (h : H) (x : Nat) (q : Option Nat) :
    DSame h (updN h x (fun n => { n with parent := q })) := dsame_updN _ _ _ (fun _ => rfl)

theorem dsame_updAttrs (h : H) (x : Nat) (g : List String → List String) :
    DSame h (updN h x (fun n => { n with attrs := g n.attrs })) := dsame_updN _ _ _ (fun _ => rfl)

theorem dsame_updMerged (h : H) (x : Nat) (m : Option Nat) :
    DSame h (updN h x (fun n => { n with merged := m })) := dsame_updN _ _ _ (fun _ => rfl)

theorem dsame_attach (h : H) (c child : Nat) : DSame h (attach h c child).1 := by
  unfold attach
  simp only
  split
  · exact DSame.refl h
  · exact (dsame_setChildList h c _ _).trans (dsame_setParent _ _ _)

theorem dsame_removeChild {h h' : H} {q x : Nat} (hr : removeChild h q x = some h') : DSame h h' := by
  unfold removeChild at hr
  split at hr
  · cases hr
  · split at hr
    · cases hr
    · simp only at hr
      split at hr
      · cases hr
      · simp only [Option.some.injEq] at hr
        subst hr
        exact (dsame_setChildList h q _ _).trans (dsame_setParent _ _ _)

theorem dsame_remove (h : H) (p x : Nat) : DSame h (remove h p x).1 := by
  unfold remove
  split
  · exact DSame.refl h
  · split
    · rename_i h1 hr; exact dsame_removeChild hr
    · exact DSame.refl h

theorem dsame_ite {h : H} {c : Prop} [Decidable c] {a b : H × Option Err} (ha : DSame h a.1) (hb : DSame h b.1) :
    DSame h (if c then a else b).1 := by
  split <;> assumption

theorem dsame_rename (h : H) (x : Nat) (new : String) : DSame h (rename h x new).1 := by
  unfold rename
  split
  · exact DSame.refl h
  · split
    · exact DSame.refl h
    · simp only
      exact dsame_ite (DSame.refl h) (dsame_fst (dsame_updN h x _ (fun _ => rfl)))

theorem dsame_append (h : H) (p x : Nat) : DSame h (append h p x).1 := by
  unfold append
  split
  · exact DSame.refl h
  · exact DSame.refl h
  · exact DSame.refl h
  · simp only
    split
    · exact DSame.refl h
    · split
      · exact DSame.refl h
      · have g1 := dsame_setChildList h p ((h.node x).kind != .prop) (fun l => l ++ [x])
        split
        · exact g1.trans (dsame_setParent _ _ _)
        · split
          · exact g1.trans (dsame_setParent _ _ _)
          · split
            · exact g1
            · rename_i h2 hrm
              exact g1.trans ((dsame_removeChild hrm).trans (dsame_setParent _ _ _))

/-! ### clone / export_leaf: the copy holds the address of the original's dict, no dict is made -/

theorem dsame_cloneProp (h : H) (x : Nat) (keep : Bool) : DSame h (cloneProp h x keep).1 := by
  simp only [cloneProp]
  have g1 : DSame h (allocN h (h.node x)).1 := dsame_allocN h _ (Or.inr ⟨x, rfl⟩)
  have g2 := g1.trans (dsame_setParent (allocN h (h.node x)).1 (allocN h (h.node x)).2 none)
  have g3 := g2.trans (dsame_setValuesItems _ (allocN h (h.node x)).2
    (valsOf (updN (allocN h (h.node x)).1 (allocN h (h.node x)).2 (fun n => { n with parent := none })) x))
  split
  · exact g3
  · exact g3.trans (dsame_newId _ _)

theorem dsame_cloneLoop {rec : H → Nat → H × Res} (hrec : ∀ h s, DSame h (rec h s).1) (c : Nat) :
    ∀ (l : List Nat) (h : H), DSame h (cloneLoop rec h c l).1 := by
  intro l
  induction l with
  | nil => intro h; exact DSame.refl h
  | cons s rest ih =>
    intro h
    have r := hrec h s
    simp only [cloneLoop]
    generalize rec h s = rs at r
    obtain ⟨h1, res⟩ := rs
    cases res with
    | err e => exact r
    | ok sc =>
      simp only
      have a := dsame_attach h1 c sc
      generalize attach h1 c sc = at1 at a
      obtain ⟨h2, oe⟩ := at1
      cases oe with
      | some e => exact r.trans a
      | none => exact (r.trans a).trans (ih h2)

theorem dsame_loopOpt {rec : H → Nat → H × Res} (hrec : ∀ h s, DSame h (rec h s).1) (c : Nat) (ch : Bool)
    (l : List Nat) (h : H) : DSame h (if ch = true then cloneLoop rec h c l else (h, none)).1 := by
  split
  · exact dsame_cloneLoop hrec c l h
  · exact DSame.refl h

theorem dsame_cloneBody {rec : H → Nat → H × Res} (hrec : ∀ h s, DSame h (rec h s).1) (h : H) (x : Nat)
    (ch keep : Bool) : DSame h (cloneBody rec h x ch keep).1 := by
  unfold cloneBody
  simp only [allocN_ret]
  generalize hh3 : updN (updN (allocN h (h.node x)).1 h.nN (fun n => { n with parent := none })) h.nN
      (fun n => { n with secs := [] }) = h3
  have g3 : DSame h h3 := by
    rw [← hh3]
    exact ((dsame_allocN h _ (Or.inr ⟨x, rfl⟩)).trans (dsame_setParent _ _ _)).trans
      (dsame_updN _ _ _ (fun _ => rfl))
  have l4 := dsame_loopOpt hrec h.nN ch (h3.node x).secs h3
  generalize (if ch = true then cloneLoop rec h3 h.nN (h3.node x).secs else (h3, none)) = r4 at l4
  obtain ⟨h4, o4⟩ := r4
  cases o4 with
  | some e => exact g3.trans l4
  | none =>
    simp only
    have g4 := g3.trans l4
    have g5 : DSame h (if keep = true then h4 else newId h4 h.nN) := by
      split
      · exact g4
      · exact g4.trans (dsame_newId _ _)
    generalize (if keep = true then h4 else newId h4 h.nN) = h5 at g5
    split
    · exact g5
    · have g6 : DSame h (updN h5 h.nN (fun n => { n with props := [] })) :=
        g5.trans (dsame_updN _ _ _ (fun _ => rfl))
      generalize updN h5 h.nN (fun n => { n with props := [] }) = h6 at g6
      have l7 := dsame_loopOpt hrec h.nN ch (h6.node x).props h6
      generalize (if ch = true then cloneLoop rec h6 h.nN (h6.node x).props else (h6, none)) = r7 at l7
      obtain ⟨h7, o7⟩ := r7
      cases o7 with
      | some e => exact g6.trans l7
      | none => exact g6.trans l7

theorem dsame_cloneF : ∀ (f : Nat) (h : H) (x : Nat) (ch keep : Bool), DSame h (cloneF f h x ch keep).1 := by
  intro f
  induction f with
  | zero => intro h x ch keep; exact DSame.refl h
  | succ f ih =>
    intro h x ch keep
    simp only [cloneF]
    split
    · exact dsame_cloneProp h x keep
    · exact dsame_cloneBody (fun h s => ih h s true keep) h x ch keep

theorem dsame_dropOnErr {h : H} (r : H × Res) (g : DSame h r.1) : DSame h (dropOnErr h r).1 := by
  obtain ⟨h', res⟩ := r
  cases res with
  | ok c => exact g
  | err e => exact DSame.refl h

theorem dsame_clone (h : H) (x : Nat) (ch keep : Bool) : DSame h (clone h x ch keep).1 :=
  dsame_dropOnErr _ (dsame_cloneF _ h x ch keep)

theorem dsame_exportLoop : ∀ (fuel : Nat) (h : H) (self curr child : Nat),
    DSame h (exportLoop fuel h self curr child).1 := by
  intro fuel
  induction fuel with
  | zero => intro h self curr child; exact DSame.refl h
  | succ fuel ih =>
    intro h self curr child
    simp only [exportLoop]
    have g1 := dsame_cloneF 1 h curr false true
    generalize cloneF 1 h curr false true = r1 at g1
    obtain ⟨h1, res1⟩ := r1
    cases res1 with
    | err e => exact g1
    | ok par =>
      simp only
      have g2 : DSame h1 (if curr ≠ self then attach h1 par child else (h1, none)).1 := by
        split
        · exact dsame_attach h1 par child
        · exact DSame.refl h1
      generalize (if curr ≠ self then attach h1 par child else (h1, none)) = r2 at g2
      obtain ⟨h2, o2⟩ := r2
      cases o2 with
      | some e => exact g1.trans g2
      | none =>
        simp only
        have g3 : DSame h2 (if (h2.node curr).kind = .sec then
            cloneLoop (fun h p => cloneF 1 h p true true) h2 par (h2.node curr).props else (h2, none)).1 := by
          split
          · exact dsame_cloneLoop (fun h s => dsame_cloneF 1 h s true true) par _ h2
          · exact DSame.refl h2
        generalize (if (h2.node curr).kind = .sec then
            cloneLoop (fun h p => cloneF 1 h p true true) h2 par (h2.node curr).props else (h2, none)) = r3 at g3
        obtain ⟨h3, o3⟩ := r3
        have g13 := g1.trans (g2.trans g3)
        cases o3 with
        | some e => exact g13
        | none =>
          simp only
          split
          · exact g13
          · exact g13.trans (ih h3 self _ par)

theorem dsame_exportLeaf (h : H) (x : Nat) : DSame h (exportLeaf h x).1 := by
  unfold exportLeaf
  apply dsame_dropOnErr
  unfold exportLeafF
  split
  · split
    · exact dsame_exportLoop _ h _ _ _
    · exact dsame_cloneProp h x true
  · exact dsame_exportLoop _ h _ _ _

/-! ### The operations that bind a dict: `Section(…)`, merge, unmerge -/

/-- No dict that exists is written; an object's record address is the class-level dict, one an object
    held before, or a dict made since. -/
structure DFrame (h h' : H) : Prop where
  mono : h.nD ≤ h'.nD
  same : ∀ d, d < h.nD → h'.dcell d = h.dcell d
  addr : ∀ a, (h'.node a).mattrs = 0 ∨ (∃ b, (h'.node a).mattrs = (h.node b).mattrs) ∨
    (h.nD ≤ (h'.node a).mattrs ∧ (h'.node a).mattrs < h'.nD)

theorem DSame.frame {h h' : H} (g : DSame h h') : DFrame h h' :=
  ⟨by rw [g.nD]; exact Nat.le_refl _, fun d _ => by rw [g.dcell], fun a => by
    rcases g.addr a with e | e
    · exact Or.inl e
    · exact Or.inr (Or.inl e)⟩

theorem DFrame.refl (h : H) : DFrame h h := (DSame.refl h).frame

theorem DFrame.trans {a b c : H} (h1 : DFrame a b) (h2 : DFrame b c) : DFrame a c := by
  have m1 := h1.mono
  have m2 := h2.mono
  refine ⟨by omega, fun d hd => by rw [h2.same d (by omega), h1.same d hd], fun x => ?_⟩
  rcases h2.addr x with e | ⟨y, e⟩ | ⟨e1, e2⟩
  · exact Or.inl e
  · rcases h1.addr y with e' | ⟨z, e'⟩ | ⟨e1, e2⟩
    · exact Or.inl (e.trans e')
    · exact Or.inr (Or.inl ⟨z, e.trans e'⟩)
    · exact Or.inr (Or.inr ⟨by omega, by omega⟩)
  · exact Or.inr (Or.inr ⟨by omega, e2⟩)

theorem dframe_allocD (h : H) (l : List (Nat × String)) : DFrame h (allocD h l).1 :=
  ⟨by simp, fun d hd => by rw [allocD_dcell, if_neg (by omega)], fun a => Or.inr (Or.inl ⟨a, rfl⟩)⟩

/-- Writing INTO a dict made since `h0` keeps the dicts of `h0` intact. -/
theorem dframe_updD {h0 h : H} (g : DFrame h0 h) (i : Nat) (f) (hi : h0.nD ≤ i) : DFrame h0 (updD h i f) :=
  ⟨g.mono, fun d hd => by rw [updD_dcell, if_neg (by omega)]; exact g.same d hd, g.addr⟩

/-- Binding an object to a dict made since `h0`. -/
theorem dframe_bind {h0 h : H} (g : DFrame h0 h) (x d : Nat) (hd : h0.nD ≤ d ∧ d < h.nD) :
    DFrame h0 (updN h x (fun n => { n with mattrs := d })) :=
  ⟨g.mono, g.same, fun a => by
    rw [updN_node]; split
    · exact Or.inr (Or.inr hd)
    · exact g.addr a⟩

theorem dframe_initRecord (h : H) (x : Nat) : DFrame h (initRecord h x) := by
  unfold initRecord
  exact dframe_bind (dframe_allocD h []) x h.nD ⟨Nat.le_refl _, by simp⟩

theorem dframe_newObj (h : H) (k : Kind) (name : String) (attrs : List String) (vals : List Lit) :
    DFrame h (newObj h k name attrs vals).1 := by
  unfold newObj
  simp only
  have g0 : DSame h { h with nextId := h.nextId + 1 } := dsame_of_node rfl rfl rfl
  have g1 := g0.trans (dsame_allocN { h with nextId := h.nextId + 1 }
    (Node.mk k name h.nextId attrs none [] [] none none 0) (Or.inl rfl))
  split
  · exact (g1.trans (dsame_setValuesLits _ _ vals)).frame
  · split
    · exact g1.frame.trans (dframe_initRecord _ _)
    · exact g1.frame

theorem fillAttr_nD (h : H) (x s d k : Nat) : (fillAttr h x s d k).nD = h.nD := by
  unfold fillAttr; split <;> rfl

theorem dframe_fillAttr {h0 h : H} (g : DFrame h0 h) (x s d k : Nat) (hd : h0.nD ≤ d) :
    DFrame h0 (fillAttr h x s d k) := by
  unfold fillAttr
  split
  · rename_i v _ _
    exact dframe_updD (g.trans (dsame_updAttrs h x (fun l => l.set k v)).frame) _ _ hd
  · exact g

theorem dframe_takeBack (x : Nat) : ∀ (l : List (Nat × String)) (h : H), DSame h (takeBack h x l) := by
  intro l
  induction l with
  | nil => intro h; exact DSame.refl h
  | cons kv rest ih =>
    intro h
    obtain ⟨k, v⟩ := kv
    simp only [takeBack]
    split
    · exact (dsame_updAttrs h x (fun l => l.set k "None")).trans (ih _)
    · exact ih h

theorem dframe_mergeAttrs (h : H) (x s : Nat) (record : Bool) : DFrame h (mergeAttrs h x s record) := by
  unfold mergeAttrs
  simp only [allocD_ret]
  have g1 := dframe_allocD h (recOf h x)
  have g2 := dframe_fillAttr g1 x s h.nD defAttr (Nat.le_refl _)
  have g3 := dframe_fillAttr g2 x s h.nD refAttr (Nat.le_refl _)
  have n3 : (fillAttr (fillAttr (allocD h (recOf h x)).1 x s h.nD defAttr) x s h.nD refAttr).nD = h.nD + 1 := by
    rw [fillAttr_nD, fillAttr_nD]; rfl
  cases record with
  | false => simpa using g3
  | true =>
    simp only [if_true]
    have g4 := dframe_bind g3 x h.nD ⟨Nat.le_refl _, by rw [n3]; omega⟩
    exact g4.trans (dsame_updMerged _ x (some s)).frame

theorem dframe_unmergeAttrs (h : H) (x : Nat) : DFrame h (unmergeAttrs h x) := by
  unfold unmergeAttrs
  simp only [allocD_ret]
  have g1 := (dframe_takeBack x (recOf h x) h).frame
  have g2 := g1.trans (dframe_allocD (takeBack h x (recOf h x)) [])
  have hD : (takeBack h x (recOf h x)).nD = h.nD := (dframe_takeBack x (recOf h x) h).nD
  have g3 := dframe_bind g2 x (takeBack h x (recOf h x)).nD ⟨by omega, by simp⟩
  exact g3.trans (dsame_updMerged _ x none).frame

/-! ### Every operation, every run -/

theorem dframe_optErr {h : H} {r : H × Option Err} (g : DFrame h r.1) : DFrame h (optErr r).1 := by
  obtain ⟨h', o⟩ := r
  cases o <;> exact g

/-- The frame lemma of the dicts: whatever the operation and its arguments, no dict that exists is
    written - every write binds a new one. -/
theorem step_dframe (h : H) (op : Op) : DFrame h (step h op).1 := by
  unfold step
  split
  · exact DFrame.refl h
  · split
    · exact DFrame.refl h
    · cases op with
      | clone x ch keep => exact (dsame_clone h x ch keep).frame
      | exportLeaf x => exact (dsame_exportLeaf h x).frame
      | getValues p => exact (dsame_getValues h p).frame
      | setValuesFrom p c => exact (dsame_setValuesItems h p _).frame
      | setValuesLits p vs => exact (dsame_setValuesLits h p vs).frame
      | appendValue p v => exact (dsame_appendValue h p v).frame
      | setValueAt p i v => exact dframe_optErr (dsame_setValueAt h p i v).frame
      | setDtype p v => exact (dsame_setDtype h p v).frame
      | newList vs => exact (dsame_newList h vs).frame
      | listAppend c v => exact (dsame_listAppend h c v).frame
      | listSet c i v => exact dframe_optErr (dsame_listSet h c i v).frame
      | listDel c i => exact dframe_optErr (dsame_listDel h c i).frame
      | listInnerSet c i j s => exact dframe_optErr (dsame_listInnerSet h c i j s).frame
      | valueInnerSet p i j s => exact dframe_optErr (dsame_valueInnerSet h p i j s).frame
      | newObj k name attrs vals => exact dframe_newObj h k name attrs vals
      | append p x => exact dframe_optErr (dsame_append h p x).frame
      | remove p x => exact dframe_optErr (dsame_remove h p x).frame
      | rename x new => exact dframe_optErr (dsame_rename h x new).frame
      | setAttr x i v => exact (dsame_setAttr h x i v).frame
      | newId x => exact (dsame_newId h x).frame
      | mergeAttrs x s record =>
        apply dframe_optErr
        unfold mergeOp
        split
        · exact DFrame.refl h
        · exact dframe_mergeAttrs h x s record
      | unmergeAttrs x =>
        apply dframe_optErr
        unfold unmergeOp
        split
        · exact DFrame.refl h
        · exact dframe_unmergeAttrs h x

theorem run_dframe : ∀ (ops : List Op) (h : H), DFrame h (run h ops) := by
  intro ops
  induction ops with
  | nil => intro h; exact DFrame.refl h
  | cons op rest ih =>
    intro h
    have g := (step_dframe h op).trans (ih (step h op).1)
    simpa only [run, List.foldl_cons] using g

/-- Every record address is that of a dict that exists (cell 0 is the class attribute). -/
def DScoped (h : H) : Prop := 0 < h.nD ∧ ∀ a, (h.node a).mattrs < h.nD

theorem dscoped_empty : DScoped empty := ⟨by decide, fun _ => by show (default : Node).mattrs < 1; decide⟩

theorem DFrame.scoped {h h' : H} (g : DFrame h h') (s : DScoped h) : DScoped h' := by
  have m := g.mono
  refine ⟨by have := s.1; omega, fun a => ?_⟩
  rcases g.addr a with e | ⟨b, e⟩ | ⟨_, e⟩
  · rw [e]; have := s.1; omega
  · rw [e]; have := s.2 b; omega
  · exact e

theorem run_empty_dscoped (ops : List Op) : DScoped (run empty ops) := (run_dframe ops empty).scoped dscoped_empty

/-- What a record holds after a run, for an object the run did not write and whose dict existed. -/
theorem recOf_run {h : H} (ops : List Op) (a : Nat) (ha : (h.node a).mattrs < h.nD)
    (hn : (run h ops).node a = h.node a) : recOf (run h ops) a = recOf h a := by
  unfold recOf
  rw [hn]
  exact (run_dframe ops h).same _ ha

/-! ### What unmerge does to the attributes is a function of the attributes and of the record -/

def attrOf (as : List String) (k : Nat) : Option String :=
  match as[k]? with
  | some v => if v = "None" then none else some v
  | none => none

theorem ownAttr_eq (h : H) (x k : Nat) : ownAttr h x k = attrOf (h.node x).attrs k := rfl

/-- `takeBack` on the attribute list alone. -/
def takeBackL : List String → List (Nat × String) → List String
  | as, [] => as
  | as, (k, v) :: rest => takeBackL (if attrOf as k = some v then as.set k "None" else as) rest

theorem takeBack_node (x : Nat) : ∀ (l : List (Nat × String)) (h : H),
    (takeBack h x l).node x = { h.node x with attrs := takeBackL (h.node x).attrs l } := by
  intro l
  induction l with
  | nil => intro h; rfl
  | cons kv rest ih =>
    intro h
    obtain ⟨k, v⟩ := kv
    by_cases hc : attrOf (h.node x).attrs k = some v
    · simp only [takeBack, takeBackL, ownAttr_eq, hc, if_true]
      rw [ih]; simp [updN_same]
    · simp only [takeBack, takeBackL, ownAttr_eq, hc, if_false]
      rw [ih]

/-- The attributes a Section has after `unmerge`: those it had, with what the record holds taken back. -/
theorem unmergeAttrs_attrs (h : H) (x : Nat) :
    ((unmergeAttrs h x).node x).attrs = takeBackL (h.node x).attrs (recOf h x) := by
  unfold unmergeAttrs
  simp only [updN_same, allocD_node, takeBack_node]

/-! ### What merge does to the attributes and to the record is a function of the two attribute lists and of the record -/

def fillL (as ts : List String) (k : Nat) : List String :=
  match attrOf as k, attrOf ts k with
  | none, some v => as.set k v
  | _, _ => as

def fillR (r : List (Nat × String)) (as ts : List String) (k : Nat) : List (Nat × String) :=
  match attrOf as k, attrOf ts k with
  | none, some v => dictSet r k v
  | _, _ => r

theorem fillAttr_spec (h : H) (x s d k : Nat) (hne : s ≠ x) :
    (fillAttr h x s d k).node x = { h.node x with attrs := fillL (h.node x).attrs (h.node s).attrs k } ∧
    (fillAttr h x s d k).node s = h.node s ∧
    (fillAttr h x s d k).dcell d = fillR (h.dcell d) (h.node x).attrs (h.node s).attrs k := by
  cases hx : attrOf (h.node x).attrs k <;> cases hs : attrOf (h.node s).attrs k <;>
    simp [fillAttr, fillL, fillR, ownAttr_eq, hx, hs, updN_same, updN_other _ _ _ _ hne, updD_dcell]

/-- The attributes and the record a Section has after `merge` (recorded, merged Section without children). -/
theorem mergeAttrs_spec (h : H) (x s : Nat) (hne : s ≠ x) :
    ((mergeAttrs h x s true).node x).attrs =
      fillL (fillL (h.node x).attrs (h.node s).attrs defAttr) (h.node s).attrs refAttr ∧
    recOf (mergeAttrs h x s true) x =
      fillR (fillR (recOf h x) (h.node x).attrs (h.node s).attrs defAttr)
        (fillL (h.node x).attrs (h.node s).attrs defAttr) (h.node s).attrs refAttr := by
  obtain ⟨a1, a2, a3⟩ := fillAttr_spec (allocD h (recOf h x)).1 x s h.nD defAttr hne
  obtain ⟨b1, b2, b3⟩ := fillAttr_spec (fillAttr (allocD h (recOf h x)).1 x s h.nD defAttr) x s h.nD refAttr hne
  have d0 : (allocD h (recOf h x)).1.dcell h.nD = recOf h x := by simp [allocD_dcell]
  simp only [recOf, allocD_node] at a1 a2 a3 b1 b2 b3 d0
  simp only [mergeAttrs, allocD_ret, if_true, recOf, updN_same, updN_dcell]
  rw [b1, b3, a1, a2, a3, d0]
  exact ⟨rfl, rfl⟩

end Clone
