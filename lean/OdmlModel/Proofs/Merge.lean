/-
Helper lemmas about `Model/Merge.lean` (child-list lookups are stable under the steps of the
merge loops; `merge` keeps name and type; what a successful loop leaves behind).
-/
import OdmlModel.Model.Merge

set_option linter.unusedSimpArgs false
set_option linter.unusedVariables false

namespace Merge
variable {V : Type}

/-! ## Lists -/

theorem find?_replaceFirst_other {α : Type} (p q : α → Bool) (x : α) (l : List α)
    (hpq : ∀ y, p y = true → q y = false) (hx : q x = false) :
    (replaceFirst p x l).find? q = l.find? q := by
  induction l with
  | nil => rfl
  | cons y ys ih =>
    unfold replaceFirst
    by_cases hp : p y = true
    · simp [hp, List.find?, hx, hpq y hp]
    · simp [hp, List.find?, ih]

theorem find?_replaceFirst_same {α : Type} (p : α → Bool) (x y0 : α) (l : List α)
    (hf : l.find? p = some y0) (hx : p x = true) :
    (replaceFirst p x l).find? p = some x := by
  induction l with
  | nil => simp at hf
  | cons y ys ih =>
    unfold replaceFirst
    by_cases hp : p y = true
    · simp [hp, List.find?, hx]
    · have : ys.find? p = some y0 := by simpa [List.find?, hp] using hf
      simp [hp, List.find?, ih this]

theorem any_replaceFirst_other {α : Type} (p q : α → Bool) (x : α) (l : List α)
    (hpq : ∀ y, p y = true → q y = false) (hx : q x = false) :
    (replaceFirst p x l).any q = l.any q := by
  induction l with
  | nil => rfl
  | cons y ys ih =>
    unfold replaceFirst
    by_cases hp : p y = true
    · simp [hp, hx, hpq y hp]
    · simp [hp, ih]

theorem getElem?_replaceFirst_other {α : Type} (p : α → Bool) (x c : α) (l : List α) (i : Nat)
    (hi : l[i]? = some c) (hc : p c = false) : (replaceFirst p x l)[i]? = some c := by
  induction l generalizing i with
  | nil => simp at hi
  | cons y ys ih =>
    unfold replaceFirst
    cases i with
    | zero =>
      simp at hi; subst hi
      simp [hc]
    | succ j =>
      simp at hi
      by_cases hp : p y = true
      · simp [hp, hi]
      · simp [hp, ih j hi]

theorem length_replaceFirst {α : Type} (p : α → Bool) (x : α) (l : List α) :
    (replaceFirst p x l).length = l.length := by
  induction l with
  | nil => rfl
  | cons y ys ih => unfold replaceFirst; split <;> simp [ih]

theorem getElem?_append_left' {α : Type} (l : List α) (c x : α) (i : Nat)
    (hi : l[i]? = some c) : (l ++ [x])[i]? = some c := by
  have : i < l.length := by
    rcases Nat.lt_or_ge i l.length with h | h
    · exact h
    · simp [List.getElem?_eq_none h] at hi
  simp [List.getElem?_append_left this, hi]

/-! ## Lookups are boolean-equality based: spell the matching facts out -/

theorem secMatch_iff (n t : Str) (c : Sec V) : secMatch n t c = true ↔ c.name = n ∧ c.type = t := by
  simp [secMatch]

theorem findSec_some {l : List (Sec V)} {n t : Str} {c : Sec V} (h : findSec l n t = some c) :
    c ∈ l ∧ c.name = n ∧ c.type = t := by
  unfold findSec at h
  exact ⟨List.mem_of_find?_eq_some h, (secMatch_iff n t c).1 (List.find?_some h)⟩

theorem findProp_some {l : List (PropT V)} {n : Str} {p : PropT V} (h : findProp l n = some p) :
    p ∈ l ∧ p.name = n := by
  unfold findProp at h
  exact ⟨List.mem_of_find?_eq_some h, by simpa using List.find?_some h⟩

theorem findSec_none_iff (l : List (Sec V)) (n t : Str) :
    findSec l n t = none ↔ ∀ c ∈ l, ¬ (c.name = n ∧ c.type = t) := by
  unfold findSec
  simp [List.find?_eq_none, secMatch]

theorem findProp_none_iff (l : List (PropT V)) (n : Str) :
    findProp l n = none ↔ propNameIn l n = false := by
  unfold findProp propNameIn
  simp [List.find?_eq_none]

theorem secNameIn_false_iff (l : List (Sec V)) (n : Str) :
    secNameIn l n = false ↔ ∀ c ∈ l, c.name ≠ n := by
  unfold secNameIn; simp

theorem secNameIn_cons (o : Sec V) (os : List (Sec V)) (n : Str) :
    secNameIn (o :: os) n = (o.name == n || secNameIn os n) := by
  simp [secNameIn]


theorem propNameIn_cons (o : PropT V) (os : List (PropT V)) (n : Str) :
    propNameIn (o :: os) n = (o.name == n || propNameIn os n) := by
  simp [propNameIn]

@[simp] theorem cloneMerged_name (r : Ref) (o : Sec V) : (cloneMerged r o).name = o.name := rfl
@[simp] theorem cloneMerged_type (r : Ref) (o : Sec V) : (cloneMerged r o).type = o.type := rfl
@[simp] theorem cloneMerged_props (r : Ref) (o : Sec V) : (cloneMerged r o).props = o.props := rfl
@[simp] theorem cloneMerged_secs (r : Ref) (o : Sec V) : (cloneMerged r o).secs = o.secs := rfl

theorem findSec_append_other (l : List (Sec V)) (c : Sec V) (n t : Str) (h : c.name ≠ n) :
    findSec (l ++ [c]) n t = findSec l n t := by
  unfold findSec
  have : secMatch n t c = false := by simp [secMatch]; intro h1; exact absurd h1 h
  rw [List.find?_append]; simp [List.find?, this]

theorem findSec_append_new (l : List (Sec V)) (c : Sec V) (h : findSec l c.name c.type = none) :
    findSec (l ++ [c]) c.name c.type = some c := by
  unfold findSec at *
  rw [List.find?_append, h]; simp [List.find?, secMatch]

theorem secNameIn_append (l : List (Sec V)) (c : Sec V) (n : Str) :
    secNameIn (l ++ [c]) n = (secNameIn l n || c.name == n) := by
  simp [secNameIn]

theorem findProp_append_other (l : List (PropT V)) (c : PropT V) (n : Str) (h : c.name ≠ n) :
    findProp (l ++ [c]) n = findProp l n := by
  unfold findProp
  have : (c.name == n) = false := by simpa using h
  rw [List.find?_append]; simp [List.find?, this]

theorem findProp_append_new (l : List (PropT V)) (c : PropT V) (h : findProp l c.name = none) :
    findProp (l ++ [c]) c.name = some c := by
  unfold findProp at *
  rw [List.find?_append, h]; simp [List.find?]

theorem findSec_replace_other (l : List (Sec V)) (m' : Sec V) (n0 t0 n t : Str)
    (hm : m'.name = n0) (hn : n0 ≠ n) :
    findSec (replaceFirst (secMatch n0 t0) m' l) n t = findSec l n t := by
  unfold findSec
  apply find?_replaceFirst_other
  · intro y hy
    have := (secMatch_iff _ _ _).1 hy
    simp [secMatch]; intro h1; exact absurd (this.1 ▸ h1) hn
  · simp [secMatch, hm]; intro h1; exact absurd h1 hn

theorem secNameIn_replace_other (l : List (Sec V)) (m' : Sec V) (n0 t0 n : Str)
    (hm : m'.name = n0) (hn : n0 ≠ n) :
    secNameIn (replaceFirst (secMatch n0 t0) m' l) n = secNameIn l n := by
  unfold secNameIn
  apply any_replaceFirst_other
  · intro y hy
    have := (secMatch_iff _ _ _).1 hy
    simp; intro h1; exact hn (this.1 ▸ h1)
  · simp [hm]; exact hn

theorem findSec_replace_same (l : List (Sec V)) (m' mine : Sec V) (n t : Str)
    (hf : findSec l n t = some mine) (hm : m'.name = n) (ht : m'.type = t) :
    findSec (replaceFirst (secMatch n t) m' l) n t = some m' := by
  unfold findSec at *
  exact find?_replaceFirst_same _ _ _ _ hf ((secMatch_iff _ _ _).2 ⟨hm, ht⟩)

theorem findProp_replace_other (l : List (PropT V)) (m' : PropT V) (n0 n : Str)
    (hm : m'.name = n0) (hn : n0 ≠ n) :
    findProp (replaceFirst (fun p => p.name == n0) m' l) n = findProp l n := by
  unfold findProp
  apply find?_replaceFirst_other
  · intro y hy
    simp at hy; simp; intro h1; exact hn (hy ▸ h1)
  · simp [hm]; exact hn

theorem findProp_replace_same (l : List (PropT V)) (m' mine : PropT V) (n : Str)
    (hf : findProp l n = some mine) (hm : m'.name = n) :
    findProp (replaceFirst (fun p => p.name == n) m' l) n = some m' := by
  unfold findProp at *
  exact find?_replaceFirst_same _ _ _ _ hf (by simp [hm])

/-! ## `merge` keeps name and type -/

theorem setValues_name (cv : Conv V) (p : PropT V) (nv : List V) :
    (setValues cv p nv).1.name = p.name := by
  unfold setValues
  cases nv with
  | nil => rfl
  | cons v vs => simp only; (repeat' split) <;> rfl

theorem extend_name (cv : Conv V) (p : PropT V) (obj : List V) (k : Bool) :
    (extend cv p obj k).1.name = p.name := by
  unfold extend
  split
  · exact setValues_name cv p obj
  · (repeat' split) <;> rfl

theorem propMerge_name (cv : Conv V) (k : Bool) (d s : PropT V) :
    (propMerge cv k d s).1.name = d.name := by
  unfold propMerge
  split
  · rfl
  · rw [extend_name]; rfl

theorem merge_name_type (cv : Conv V) (k : Bool) (r : Ref) (d s : Sec V) :
    (merge cv k r d s).1.name = d.name ∧ (merge cv k r d s).1.type = d.type := by
  cases s with
  | mk sa sp ss =>
    unfold merge
    (repeat' split) <;> simp [Sec.name, Sec.type]

theorem merge_fst_name {cv : Conv V} {k : Bool} {r : Ref} {d s m' : Sec V} {out : Outcome}
    (h : merge cv k r d s = (m', out)) : m'.name = d.name ∧ m'.type = d.type := by
  have := merge_name_type cv k r d s
  rw [h] at this; exact this

theorem propMerge_fst_name {cv : Conv V} {k : Bool} {d s m' : PropT V} {out : Outcome}
    (h : propMerge cv k d s = (m', out)) : m'.name = d.name := by
  have := propMerge_name cv k d s
  rw [h] at this; exact this

/-! ## The record flag of a merge (`Ref.record`, `Ref.eff`, `Ref.pick`) -/

theorem Ref.pick_on {α : Type} (r : Ref) (h : r.record = true) (x y : α) : r.pick x y = x := by
  simp [Ref.pick, h]

theorem Ref.pick_off {α : Type} (r : Ref) (h : r.record = false) (x y : α) : r.pick x y = y := by
  simp [Ref.pick, h]

theorem resolved_of_not_merged (a : SecAttrs) (h : a.merged = none) : a.resolved = false := by
  simp [SecAttrs.resolved, h]

/-- a merge that is to be recorded, into a Section whose link / include is not resolved: the flag
    stays on and the reference is handed on as it is -/
theorem Ref.eff_on (r : Ref) (a : SecAttrs) (hr : r.record = true) (ha : a.resolved = false) :
    r.eff a = r := by
  cases r; simp_all [Ref.eff]

theorem Ref.eff_record_on (r : Ref) (a : SecAttrs) (hr : r.record = true) (ha : a.resolved = false) :
    (r.eff a).record = true := by rw [Ref.eff_on r a hr ha]; exact hr

/-- into a Section whose link / include is resolved nothing is recorded -/
theorem Ref.eff_record_off (r : Ref) (a : SecAttrs) (ha : a.resolved = true) :
    (r.eff a).record = false := by simp [Ref.eff, ha]

/-! ## Lookups of other names are not affected by the loops -/

theorem mergeSecs_find_other (cv : Conv V) (k : Bool) (os : List (Sec V)) :
    ∀ (r : Ref) (dsecs : List (Sec V)) (n t : Str), secNameIn os n = false →
      findSec (mergeSecs cv k r dsecs os).1 n t = findSec dsecs n t ∧
      secNameIn (mergeSecs cv k r dsecs os).1 n = secNameIn dsecs n := by
  induction os with
  | nil => intro r dsecs n t _; unfold mergeSecs; exact ⟨rfl, rfl⟩
  | cons o os ih =>
    intro r dsecs n t hn
    rw [secNameIn_cons] at hn
    simp only [Bool.or_eq_false_iff, beq_eq_false_iff_ne, ne_eq] at hn
    obtain ⟨hon, hos⟩ := hn
    unfold mergeSecs
    split
    · rename_i mine hf
      split
      · rename_i m' e hm
        have hm' : m'.name = o.name := (merge_fst_name hm).1.trans (findSec_some hf).2.1
        exact ⟨findSec_replace_other _ _ _ _ _ _ hm' hon, secNameIn_replace_other _ _ _ _ _ hm' hon⟩
      · rename_i m' hm
        have hm' : m'.name = o.name := (merge_fst_name hm).1.trans (findSec_some hf).2.1
        have := ih r (replaceFirst (secMatch o.name o.type) m' dsecs) n t hos
        rw [this.1, this.2]
        exact ⟨findSec_replace_other _ _ _ _ _ _ hm' hon, secNameIn_replace_other _ _ _ _ _ hm' hon⟩
    · split
      · exact ⟨rfl, rfl⟩
      · have := ih r (dsecs ++ [cloneMerged (r.child o.name) o]) n t hos
        rw [this.1, this.2]
        refine ⟨findSec_append_other _ _ _ _ (by simpa using hon), ?_⟩
        rw [secNameIn_append]; simp; intro h1; exact absurd h1 hon

theorem mergeProps_find_other (cv : Conv V) (k : Bool) (os : List (PropT V)) :
    ∀ (dprops : List (PropT V)) (n : Str), propNameIn os n = false →
      findProp (mergeProps cv k dprops os).1 n = findProp dprops n := by
  induction os with
  | nil => intro dprops n _; unfold mergeProps; rfl
  | cons o os ih =>
    intro dprops n hn
    rw [propNameIn_cons] at hn
    simp only [Bool.or_eq_false_iff, beq_eq_false_iff_ne, ne_eq] at hn
    obtain ⟨hon, hos⟩ := hn
    unfold mergeProps
    split
    · rename_i mine hf
      split
      · rename_i m' e hm
        have hm' : m'.name = o.name := (propMerge_fst_name hm).trans (findProp_some hf).2
        exact findProp_replace_other _ _ _ _ hm' hon
      · rename_i m' hm
        have hm' : m'.name = o.name := (propMerge_fst_name hm).trans (findProp_some hf).2
        rw [ih _ n hos]
        exact findProp_replace_other _ _ _ _ hm' hon
    · split
      · rfl
      · rw [ih _ n hos]
        exact findProp_append_other _ _ _ hon

/-! ## The recursive checks, pointwise -/

theorem mergeCheckProps_ok_iff (cv : Conv V) (k : Bool) (dprops os : List (PropT V)) :
    mergeCheckProps cv k dprops os = .ok ↔
      ∀ o ∈ os, ∀ mine, findProp dprops o.name = some mine → propMergeCheck cv k mine o = .ok := by
  induction os with
  | nil => simp [mergeCheckProps]
  | cons o os ih =>
    unfold mergeCheckProps
    split
    · rename_i mine hf
      split
      · rename_i e he
        simp only [reduceCtorEq, false_iff]
        intro h
        have := h o (List.mem_cons_self ..) mine hf
        rw [he] at this; cases this
      · rename_i he
        rw [ih]
        constructor
        · intro h o' ho' mine' hf'
          rcases List.mem_cons.1 ho' with rfl | ho'
          · rw [hf] at hf'; cases hf'; exact he
          · exact h o' ho' mine' hf'
        · intro h o' ho'; exact h o' (List.mem_cons_of_mem _ ho')
    · rename_i hf
      rw [ih]
      constructor
      · intro h o' ho' mine' hf'
        rcases List.mem_cons.1 ho' with rfl | ho'
        · rw [hf] at hf'; cases hf'
        · exact h o' ho' mine' hf'
      · intro h o' ho'; exact h o' (List.mem_cons_of_mem _ ho')

theorem mergeCheckSecs_ok_iff (cv : Conv V) (k : Bool) (dsecs os : List (Sec V)) :
    mergeCheckSecs cv k dsecs os = .ok ↔
      ∀ o ∈ os, ∀ mine, findSec dsecs o.name o.type = some mine → mergeCheck cv k mine o = .ok := by
  induction os with
  | nil => simp [mergeCheckSecs]
  | cons o os ih =>
    unfold mergeCheckSecs
    split
    · rename_i mine hf
      split
      · rename_i e he
        simp only [reduceCtorEq, false_iff]
        intro h
        have := h o (List.mem_cons_self ..) mine hf
        rw [he] at this; cases this
      · rename_i he
        rw [ih]
        constructor
        · intro h o' ho' mine' hf'
          rcases List.mem_cons.1 ho' with rfl | ho'
          · rw [hf] at hf'; cases hf'; exact he
          · exact h o' ho' mine' hf'
        · intro h o' ho'; exact h o' (List.mem_cons_of_mem _ ho')
    · rename_i hf
      rw [ih]
      constructor
      · intro h o' ho' mine' hf'
        rcases List.mem_cons.1 ho' with rfl | ho'
        · rw [hf] at hf'; cases hf'
        · exact h o' ho' mine' hf'
      · intro h o' ho'; exact h o' (List.mem_cons_of_mem _ ho')

theorem typeClashSecs_false_iff (dsecs os : List (Sec V)) :
    typeClashSecs dsecs os = false ↔
      ∀ o ∈ os, (∀ mine, findSec dsecs o.name o.type = some mine → typeClash mine o = false) ∧
                (findSec dsecs o.name o.type = none → secNameIn dsecs o.name = false) := by
  induction os with
  | nil => simp [typeClashSecs]
  | cons o os ih =>
    unfold typeClashSecs
    rw [Bool.or_eq_false_iff, ih]
    constructor
    · rintro ⟨h1, h2⟩ o' ho'
      rcases List.mem_cons.1 ho' with rfl | ho'
      · constructor
        · intro mine hf; rw [hf] at h1; exact h1
        · intro hf; rw [hf] at h1; exact h1
      · exact h2 o' ho'
    · intro h
      refine ⟨?_, fun o' ho' => h o' (List.mem_cons_of_mem _ ho')⟩
      have := h o (List.mem_cons_self ..)
      split
      · rename_i mine hf; exact this.1 mine hf
      · rename_i hf; exact this.2 hf

theorem typedSecs_iff (os : List (Sec V)) : typedSecs os = true ↔ ∀ o ∈ os, typedSec o = true := by
  induction os with
  | nil => simp [typedSecs]
  | cons o os ih => unfold typedSecs; simp [ih]

theorem wfSecs_cons (cv : Conv V) (o : Sec V) (os : List (Sec V)) :
    wfSecs cv (o :: os) = true ↔ wfSec cv o = true ∧ secNameIn os o.name = false ∧ wfSecs cv os = true := by
  rw [wfSecs]; simp [and_assoc]

/-! ## A passed check predicts a merge that does not raise -/

theorem validate_sublist (cv : Conv V) (dt : Option DType) (l l' : List V)
    (h : validate cv dt l = true) (hs : ∀ v ∈ l', v ∈ l) : validate cv dt l' = true := by
  unfold validate at *
  simp only [List.all_eq_true] at *
  intro v hv; exact h v (hs v hv)

theorem toAdd_subset (cv : Conv V) (own src : List V) : ∀ v ∈ toAdd cv own src, v ∈ src := by
  intro v hv; unfold toAdd at hv; exact (List.mem_filter.1 hv).1

theorem toAdd_nil_own (cv : Conv V) (src : List V) : toAdd cv [] src = src := by
  unfold toAdd; simp

/-- after a passed `merge_check`, `Property.merge` does not raise -/
theorem propMerge_ok (cv : Conv V) (k : Bool) (d s : PropT V)
    (hck : propMergeCheck cv k d s = .ok) (hty : typedProp d = true) (hh : propHomog cv s = true) :
    (propMerge cv k d s).2 = .ok := by
  have hval : validate cv d.dtype s.values = true := by
    unfold propMergeCheck at hck
    by_cases h : validate cv d.dtype s.values = true
    · exact h
    · simp [h] at hck
  unfold propMerge
  rw [hck]
  simp only
  unfold extend
  have hv1 : (fillProp d s).values = d.values := rfl
  have hd1 : (fillProp d s).dtype = d.dtype := rfl
  rw [hv1, hd1]
  by_cases he : d.values.isEmpty = true
  · simp only [he, if_true]
    have hnil : d.values = [] := by simpa using he
    rw [hnil, toAdd_nil_own]
    unfold setValues
    cases hs : s.values with
    | nil => rfl
    | cons v0 vs =>
      simp only
      have : validate cv (dtypeFor cv (fillProp d s) v0) (v0 :: vs) = true := by
        unfold dtypeFor
        rw [hd1]
        cases hdt : d.dtype with
        | none =>
          simp only
          unfold propHomog at hh
          rw [hs] at hh
          exact hh
        | some t =>
          simp only
          rw [hdt, hs] at hval
          exact hval
      simp [this]
  · simp only [he]
    cases hdt : d.dtype with
    | none =>
      unfold typedProp at hty
      simp [hdt] at hty
      simp [hty] at he
    | some t =>
      simp only
      have h1 : extendRefuses cv t (toAdd cv d.values s.values) false = false := by
        unfold extendRefuses; split <;> simp
      have h2 : validate cv (some t) (toAdd cv d.values s.values) = true := by
        rw [hdt] at hval
        exact validate_sublist cv _ _ _ hval (toAdd_subset cv _ _)
      simp [h1, h2]

theorem namesNodup_cons (n : Str) (r : List Str) :
    namesNodup (n :: r) = true ↔ (¬ n ∈ r) ∧ namesNodup r = true := by
  rw [namesNodup]; simp

theorem mergeProps_ok (cv : Conv V) (k : Bool) (os : List (PropT V)) :
    ∀ dprops : List (PropT V), namesNodup (os.map (·.name)) = true →
      (∀ o ∈ os, propHomog cv o = true) →
      (∀ o ∈ os, ∀ mine, findProp dprops o.name = some mine →
        propMergeCheck cv k mine o = .ok ∧ typedProp mine = true) →
      (mergeProps cv k dprops os).2 = .ok := by
  induction os with
  | nil => intro dprops _ _ _; unfold mergeProps; rfl
  | cons o os ih =>
    intro dprops hnd hh hck
    rw [List.map_cons, namesNodup_cons] at hnd
    obtain ⟨hno, hnd⟩ := hnd
    have hne : ∀ o' ∈ os, o.name ≠ o'.name := by
      intro o' ho' he
      exact hno (he ▸ List.mem_map_of_mem (f := (·.name)) ho')
    have hh' : ∀ o' ∈ os, propHomog cv o' = true := fun o' ho' => hh o' (List.mem_cons_of_mem _ ho')
    unfold mergeProps
    split
    · rename_i mine hf
      have hm := hck o (List.mem_cons_self ..) mine hf
      have hok := propMerge_ok cv k mine o hm.1 hm.2 (hh o (List.mem_cons_self ..))
      split
      · rename_i m' e he
        rw [he] at hok; cases hok
      · rename_i m' he
        have hm' : m'.name = o.name := (propMerge_fst_name he).trans (findProp_some hf).2
        apply ih _ hnd hh'
        intro o' ho' mine' hf'
        rw [findProp_replace_other _ _ _ _ hm' (hne o' ho')] at hf'
        exact hck o' (List.mem_cons_of_mem _ ho') mine' hf'
    · rename_i hf
      have : propNameIn dprops o.name = false := (findProp_none_iff _ _).1 hf
      simp only [this]
      apply ih _ hnd hh'
      intro o' ho' mine' hf'
      rw [findProp_append_other _ _ _ (hne o' ho')] at hf'
      exact hck o' (List.mem_cons_of_mem _ ho') mine' hf'

theorem wfSec_mk (cv : Conv V) (a : SecAttrs) (ps : List (PropT V)) (ss : List (Sec V)) :
    wfSec cv (.mk a ps ss) = true ↔
      namesNodup (ps.map (·.name)) = true ∧ (∀ p ∈ ps, propHomog cv p = true) ∧ wfSecs cv ss = true := by
  rw [wfSec]; simp [and_assoc]

theorem typedSec_iff (d : Sec V) :
    typedSec d = true ↔ (∀ p ∈ d.props, typedProp p = true) ∧ (∀ c ∈ d.secs, typedSec c = true) := by
  cases d with
  | mk a ps ss => rw [typedSec, Bool.and_eq_true, typedSecs_iff]; simp

mutual
theorem merge_ok_of_check (cv : Conv V) (k : Bool) :
    ∀ (s : Sec V) (r : Ref) (d : Sec V), wfSec cv s = true → typedSec d = true →
      typeClash d s = false → mergeCheck cv k d s = .ok → (merge cv k r d s).2 = .ok
  | .mk sa sp ss, r, d, hwf, hty, hcl, hck => by
    rw [wfSec_mk] at hwf
    obtain ⟨hnd, hh, hwfs⟩ := hwf
    have hty' := (typedSec_iff d).1 hty
    have hck' := hck
    unfold mergeCheck at hck'
    split at hck'
    · cases hck'
    · split at hck'
      · cases hck'
      · rename_i hcs
        have hcl0 := hcl
        rw [typeClash, typeClashSecs_false_iff] at hcl
        rw [mergeCheckSecs_ok_iff] at hcs
        rw [mergeCheckProps_ok_iff] at hck'
        unfold merge
        rw [hck]
        simp only [hcl0, Bool.false_eq_true, if_false]
        have h1 := mergeSecs_ok_of_check cv k ss (r.eff d.attrs) d.secs hwfs
          (fun o ho mine hf => ⟨hty'.2 mine (findSec_some hf).1, (hcl o ho).1 mine hf, hcs o ho mine hf⟩)
          (fun o ho hf => (hcl o ho).2 hf)
        have h2 := mergeProps_ok cv k sp d.props hnd hh
          (fun o ho mine hf => ⟨hck' o ho mine hf, hty'.1 mine (findProp_some hf).1⟩)
        split
        · rename_i secs' e he; rw [he] at h1; cases h1
        · split
          · rename_i props' e he; rw [he] at h2; cases h2
          · rfl
theorem mergeSecs_ok_of_check (cv : Conv V) (k : Bool) :
    ∀ (os : List (Sec V)) (r : Ref) (dsecs : List (Sec V)), wfSecs cv os = true →
      (∀ o ∈ os, ∀ mine, findSec dsecs o.name o.type = some mine →
        typedSec mine = true ∧ typeClash mine o = false ∧ mergeCheck cv k mine o = .ok) →
      (∀ o ∈ os, findSec dsecs o.name o.type = none → secNameIn dsecs o.name = false) →
      (mergeSecs cv k r dsecs os).2 = .ok
  | [], r, dsecs, _, _, _ => by unfold mergeSecs; rfl
  | o :: os, r, dsecs, hwf, hm, hn => by
    rw [wfSecs_cons] at hwf
    obtain ⟨hwo, hno, hwos⟩ := hwf
    have hne : ∀ o' ∈ os, o.name ≠ o'.name := by
      intro o' ho' he
      exact (secNameIn_false_iff _ _).1 hno o' ho' he.symm
    unfold mergeSecs
    split
    · rename_i mine hf
      have hmo := hm o (List.mem_cons_self ..) mine hf
      have hok := merge_ok_of_check cv k o (r.child o.name) mine hwo hmo.1 hmo.2.1 hmo.2.2
      split
      · rename_i m' e he; rw [he] at hok; cases hok
      · rename_i m' he
        have hm' : m'.name = o.name := (merge_fst_name he).1.trans (findSec_some hf).2.1
        apply mergeSecs_ok_of_check cv k os r _ hwos
        · intro o' ho' mine' hf'
          rw [findSec_replace_other _ _ _ _ _ _ hm' (hne o' ho')] at hf'
          exact hm o' (List.mem_cons_of_mem _ ho') mine' hf'
        · intro o' ho' hf'
          rw [findSec_replace_other _ _ _ _ _ _ hm' (hne o' ho')] at hf'
          rw [secNameIn_replace_other _ _ _ _ _ hm' (hne o' ho')]
          exact hn o' (List.mem_cons_of_mem _ ho') hf'
    · rename_i hf
      have hni := hn o (List.mem_cons_self ..) hf
      simp only [hni]
      apply mergeSecs_ok_of_check cv k os r _ hwos
      · intro o' ho' mine' hf'
        rw [findSec_append_other _ _ _ _ (by simpa using hne o' ho')] at hf'
        exact hm o' (List.mem_cons_of_mem _ ho') mine' hf'
      · intro o' ho' hf'
        rw [findSec_append_other _ _ _ _ (by simpa using hne o' ho')] at hf'
        rw [secNameIn_append]
        have := hn o' (List.mem_cons_of_mem _ ho') hf'
        simp [this]; exact hne o' ho'
end


theorem propMergeCheck_raised (cv : Conv V) (k : Bool) (d s : PropT V) (e : Exc)
    (h : propMergeCheck cv k d s = .raised e) : e = .valueError := by
  unfold propMergeCheck at h
  (repeat' split at h) <;> first | (cases h; rfl) | cases h

theorem mergeCheckProps_raised (cv : Conv V) (k : Bool) (dprops os : List (PropT V)) (e : Exc)
    (h : mergeCheckProps cv k dprops os = .raised e) : e = .valueError := by
  induction os with
  | nil => cases h
  | cons o os ih =>
    unfold mergeCheckProps at h
    split at h
    · split at h
      · rename_i e' he
        injection h with h; subst h
        exact propMergeCheck_raised cv k _ _ _ he
      · exact ih h
    · exact ih h

mutual
theorem mergeCheck_raised (cv : Conv V) (k : Bool) :
    ∀ (s d : Sec V) (e : Exc), mergeCheck cv k d s = .raised e → e = .valueError
  | .mk sa sp ss, d, e, h => by
    unfold mergeCheck at h
    split at h
    · injection h with h; exact h.symm
    · split at h
      · rename_i e' he
        injection h with h; subst h
        exact mergeCheckSecs_raised cv k ss d.secs _ he
      · exact mergeCheckProps_raised cv k _ _ _ h
theorem mergeCheckSecs_raised (cv : Conv V) (k : Bool) :
    ∀ (os dsecs : List (Sec V)) (e : Exc), mergeCheckSecs cv k dsecs os = .raised e → e = .valueError
  | [], dsecs, e, h => by cases h
  | o :: os, dsecs, e, h => by
    unfold mergeCheckSecs at h
    split at h
    · split at h
      · rename_i mine hf e' he
        injection h with h; subst h
        exact mergeCheck_raised cv k o _ _ he
      · exact mergeCheckSecs_raised cv k os dsecs e h
    · exact mergeCheckSecs_raised cv k os dsecs e h
end

/-! ## Strict conflicts -/

theorem propMergeCheck_strict_ok (cv : Conv V) (d s : PropT V)
    (h : propMergeCheck cv true d s = .ok) : propConflict d s = false := by
  unfold propMergeCheck at h
  (repeat' split at h) <;> simp_all

theorem propsConflict_false (cv : Conv V) (dprops os : List (PropT V))
    (h : mergeCheckProps cv true dprops os = .ok) : propsConflict dprops os = false := by
  rw [mergeCheckProps_ok_iff] at h
  induction os with
  | nil => rfl
  | cons o os ih =>
    unfold propsConflict
    rw [Bool.or_eq_false_iff]
    refine ⟨?_, ih (fun o' ho' => h o' (List.mem_cons_of_mem _ ho'))⟩
    split
    · rename_i mine hf
      exact propMergeCheck_strict_ok cv _ _ (h o (List.mem_cons_self ..) mine hf)
    · rfl

mutual
theorem treeConflict_false (cv : Conv V) :
    ∀ (s d : Sec V), mergeCheck cv true d s = .ok → treeConflict d s = false
  | .mk sa sp ss, d, h => by
    unfold mergeCheck at h
    split at h
    · cases h
    · rename_i hsc
      split at h
      · cases h
      · rename_i hcs
        unfold treeConflict
        simp only [Bool.true_and, Bool.not_eq_true] at hsc
        rw [hsc, propsConflict_false cv _ _ h, secsConflict_false cv ss d.secs hcs]
        rfl
theorem secsConflict_false (cv : Conv V) :
    ∀ (os dsecs : List (Sec V)), mergeCheckSecs cv true dsecs os = .ok → secsConflict dsecs os = false
  | [], dsecs, h => by rfl
  | o :: os, dsecs, h => by
    unfold mergeCheckSecs at h
    unfold secsConflict
    split at h
    · rename_i mine hf
      split at h
      · cases h
      · rename_i hm
        rw [treeConflict_false cv o mine hm, secsConflict_false cv os dsecs h]; rfl
    · rename_i hf
      rw [secsConflict_false cv os dsecs h]; rfl
end

/-- a conflict anywhere makes the strict check raise `ValueError` -/
theorem mergeCheck_conflict (cv : Conv V) (d s : Sec V) (h : treeConflict d s = true) :
    mergeCheck cv true d s = .raised .valueError := by
  cases hc : mergeCheck cv true d s with
  | ok => rw [treeConflict_false cv s d hc] at h; cases h
  | raised e => rw [mergeCheck_raised cv true s d e hc]

/-! ## The name clash: refused up front by `_merge_name_check` -/

theorem typeClashSecs_congr (l l' os : List (Sec V))
    (h : ∀ o ∈ os, findSec l' o.name o.type = findSec l o.name o.type ∧
                   secNameIn l' o.name = secNameIn l o.name) :
    typeClashSecs l' os = typeClashSecs l os := by
  induction os with
  | nil => rfl
  | cons o os ih =>
    unfold typeClashSecs
    rw [(h o (List.mem_cons_self ..)).1, (h o (List.mem_cons_self ..)).2,
        ih (fun o' ho' => h o' (List.mem_cons_of_mem _ ho'))]

/-- no source sub-Section name is used in the destination: nothing can clash -/
theorem typeClashSecs_disjoint (dsecs os : List (Sec V))
    (h : ∀ o ∈ os, secNameIn dsecs o.name = false) : typeClashSecs dsecs os = false := by
  rw [typeClashSecs_false_iff]
  intro o ho
  refine ⟨?_, fun _ => h o ho⟩
  intro mine hf
  have hm := findSec_some hf
  have := (secNameIn_false_iff _ _).1 (h o ho) mine hm.1
  exact absurd hm.2.1 this

/-- a raising `merge` is one of the two up-front refusals -/
theorem merge_of_check_raised (cv : Conv V) (k : Bool) (r : Ref) (d s : Sec V) (e : Exc)
    (hck : mergeCheck cv k d s = .raised e) : merge cv k r d s = (d, .raised e) := by
  cases s with
  | mk sa sp ss => unfold merge; rw [hck]

theorem merge_of_clash (cv : Conv V) (k : Bool) (r : Ref) (d s : Sec V)
    (hck : mergeCheck cv k d s = .ok) (hcl : typeClash d s = true) :
    merge cv k r d s = (d, .raised .valueError) := by
  cases s with
  | mk sa sp ss => unfold merge; rw [hck]; simp only [hcl, if_true]

/-! ## One step of the loops -/

theorem mergeSecs_cons_ok (cv : Conv V) (k : Bool) (r : Ref) (dsecs os : List (Sec V))
    (o mine m' : Sec V) (hf : findSec dsecs o.name o.type = some mine)
    (hm : merge cv k (r.child o.name) mine o = (m', .ok)) :
    mergeSecs cv k r dsecs (o :: os) =
      mergeSecs cv k r (replaceFirst (secMatch o.name o.type) m' dsecs) os := by
  rw [mergeSecs]; simp only [hf, hm]

theorem mergeSecs_cons_raised (cv : Conv V) (k : Bool) (r : Ref) (dsecs os : List (Sec V))
    (o mine m' : Sec V) (e : Exc) (hf : findSec dsecs o.name o.type = some mine)
    (hm : merge cv k (r.child o.name) mine o = (m', .raised e)) :
    mergeSecs cv k r dsecs (o :: os) =
      (replaceFirst (secMatch o.name o.type) m' dsecs, .raised e) := by
  rw [mergeSecs]; simp only [hf, hm]

theorem mergeSecs_cons_new (cv : Conv V) (k : Bool) (r : Ref) (dsecs os : List (Sec V))
    (o : Sec V) (hf : findSec dsecs o.name o.type = none) (hn : secNameIn dsecs o.name = false) :
    mergeSecs cv k r dsecs (o :: os) =
      mergeSecs cv k r (dsecs ++ [cloneMerged (r.child o.name) o]) os := by
  rw [mergeSecs]; simp [hf, hn]

theorem mergeSecs_cons_clash (cv : Conv V) (k : Bool) (r : Ref) (dsecs os : List (Sec V))
    (o : Sec V) (hf : findSec dsecs o.name o.type = none) (hn : secNameIn dsecs o.name = true) :
    mergeSecs cv k r dsecs (o :: os) = (dsecs, .raised .keyError) := by
  rw [mergeSecs]; simp [hf, hn]

theorem mergeProps_cons_ok (cv : Conv V) (k : Bool) (dprops os : List (PropT V))
    (o mine m' : PropT V) (hf : findProp dprops o.name = some mine)
    (hm : propMerge cv k mine o = (m', .ok)) :
    mergeProps cv k dprops (o :: os) =
      mergeProps cv k (replaceFirst (fun p => p.name == o.name) m' dprops) os := by
  rw [mergeProps]; simp only [hf, hm]

theorem mergeProps_cons_raised (cv : Conv V) (k : Bool) (dprops os : List (PropT V))
    (o mine m' : PropT V) (e : Exc) (hf : findProp dprops o.name = some mine)
    (hm : propMerge cv k mine o = (m', .raised e)) :
    mergeProps cv k dprops (o :: os) =
      (replaceFirst (fun p => p.name == o.name) m' dprops, .raised e) := by
  rw [mergeProps]; simp only [hf, hm]

theorem mergeProps_cons_new (cv : Conv V) (k : Bool) (dprops os : List (PropT V))
    (o : PropT V) (hf : findProp dprops o.name = none) :
    mergeProps cv k dprops (o :: os) = mergeProps cv k (dprops ++ [o]) os := by
  have : propNameIn dprops o.name = false := (findProp_none_iff _ _).1 hf
  rw [mergeProps]; simp [hf, this]

/-! ## What a successful loop leaves behind -/

theorem mergeSecs_result (cv : Conv V) (k : Bool) (os : List (Sec V)) :
    ∀ (r : Ref) (dsecs : List (Sec V)), wfSecs cv os = true →
      (mergeSecs cv k r dsecs os).2 = .ok → ∀ o ∈ os,
      (∀ mine, findSec dsecs o.name o.type = some mine →
        findSec (mergeSecs cv k r dsecs os).1 o.name o.type =
          some (merge cv k (r.child o.name) mine o).1 ∧
        (merge cv k (r.child o.name) mine o).2 = .ok) ∧
      (findSec dsecs o.name o.type = none →
        findSec (mergeSecs cv k r dsecs os).1 o.name o.type =
          some (cloneMerged (r.child o.name) o)) := by
  induction os with
  | nil => intro r dsecs _ _ o ho; cases ho
  | cons o0 os ih =>
    intro r dsecs hwf hok o ho
    rw [wfSecs_cons] at hwf
    obtain ⟨hwo, hno, hwos⟩ := hwf
    have hne : ∀ o' ∈ os, o0.name ≠ o'.name := by
      intro o' ho' he
      exact (secNameIn_false_iff _ _).1 hno o' ho' he.symm
    cases hf0 : findSec dsecs o0.name o0.type with
    | some mine0 =>
      cases he : merge cv k (r.child o0.name) mine0 o0 with
      | mk m' out =>
        cases out with
        | raised e => rw [mergeSecs_cons_raised cv k r dsecs os o0 mine0 m' e hf0 he] at hok; cases hok
        | ok =>
          rw [mergeSecs_cons_ok cv k r dsecs os o0 mine0 m' hf0 he] at hok ⊢
          have hm' := merge_fst_name he
          have hmn : m'.name = o0.name := hm'.1.trans (findSec_some hf0).2.1
          have hmt : m'.type = o0.type := hm'.2.trans (findSec_some hf0).2.2
          rcases List.mem_cons.1 ho with rfl | ho'
          · constructor
            · intro mine hf
              rw [hf0] at hf; cases hf
              rw [(mergeSecs_find_other cv k os r _ _ _ hno).1,
                  findSec_replace_same _ _ _ _ _ hf0 hmn hmt, he]
              exact ⟨rfl, rfl⟩
            · intro hf; rw [hf0] at hf; cases hf
          · have := ih r _ hwos hok o ho'
            rw [findSec_replace_other _ _ _ _ _ _ hmn (hne o ho')] at this
            exact this
    | none =>
      cases hni : secNameIn dsecs o0.name with
      | true => rw [mergeSecs_cons_clash cv k r dsecs os o0 hf0 hni] at hok; cases hok
      | false =>
        rw [mergeSecs_cons_new cv k r dsecs os o0 hf0 hni] at hok ⊢
        rcases List.mem_cons.1 ho with rfl | ho'
        · constructor
          · intro mine hf; rw [hf0] at hf; cases hf
          · intro _
            rw [(mergeSecs_find_other cv k os r _ _ _ hno).1]
            exact findSec_append_new dsecs (cloneMerged (r.child o.name) o) hf0
        · have := ih r _ hwos hok o ho'
          rw [findSec_append_other _ _ _ _ (by simpa using hne o ho')] at this
          exact this

theorem mergeProps_result (cv : Conv V) (k : Bool) (os : List (PropT V)) :
    ∀ (dprops : List (PropT V)), namesNodup (os.map (·.name)) = true →
      (mergeProps cv k dprops os).2 = .ok → ∀ o ∈ os,
      (∀ mine, findProp dprops o.name = some mine →
        findProp (mergeProps cv k dprops os).1 o.name = some (propMerge cv k mine o).1 ∧
        (propMerge cv k mine o).2 = .ok) ∧
      (findProp dprops o.name = none →
        findProp (mergeProps cv k dprops os).1 o.name = some o) := by
  induction os with
  | nil => intro dprops _ _ o ho; cases ho
  | cons o0 os ih =>
    intro dprops hnd hok o ho
    rw [List.map_cons, namesNodup_cons] at hnd
    obtain ⟨hno, hnd⟩ := hnd
    have hne : ∀ o' ∈ os, o0.name ≠ o'.name := by
      intro o' ho' he
      exact hno (he ▸ List.mem_map_of_mem (f := (·.name)) ho')
    have hno' : propNameIn os o0.name = false := by
      unfold propNameIn; simp; intro x hx he; exact hne x hx he.symm
    cases hf0 : findProp dprops o0.name with
    | some mine0 =>
      cases he : propMerge cv k mine0 o0 with
      | mk m' out =>
        cases out with
        | raised e => rw [mergeProps_cons_raised cv k dprops os o0 mine0 m' e hf0 he] at hok; cases hok
        | ok =>
          rw [mergeProps_cons_ok cv k dprops os o0 mine0 m' hf0 he] at hok ⊢
          have hmn : m'.name = o0.name := (propMerge_fst_name he).trans (findProp_some hf0).2
          rcases List.mem_cons.1 ho with rfl | ho'
          · constructor
            · intro mine hf
              rw [hf0] at hf; cases hf
              rw [mergeProps_find_other cv k os _ _ hno', findProp_replace_same _ _ _ _ hf0 hmn, he]
              exact ⟨rfl, rfl⟩
            · intro hf; rw [hf0] at hf; cases hf
          · have := ih _ hnd hok o ho'
            rw [findProp_replace_other _ _ _ _ hmn (hne o ho')] at this
            exact this
    | none =>
      rw [mergeProps_cons_new cv k dprops os o0 hf0] at hok ⊢
      rcases List.mem_cons.1 ho with rfl | ho'
      · constructor
        · intro mine hf; rw [hf0] at hf; cases hf
        · intro _
          rw [mergeProps_find_other cv k os _ _ hno']
          exact findProp_append_new dprops o hf0
      · have := ih _ hnd hok o ho'
        rw [findProp_append_other _ _ _ (hne o ho')] at this
        exact this

/-- shape of a successful `merge` -/
theorem merge_ok_shape (cv : Conv V) (k : Bool) (r : Ref) (d s : Sec V)
    (h : (merge cv k r d s).2 = .ok) :
    mergeCheck cv k d s = .ok ∧
    (mergeSecs cv k (r.eff d.attrs) d.secs s.secs).2 = .ok ∧ (mergeProps cv k d.props s.props).2 = .ok ∧
    (merge cv k r d s).1 =
      .mk { d.attrs with definition := fillText d.attrs.definition s.attrs.definition
                         reference := fillText d.attrs.reference s.attrs.reference
                         filledDef := (r.eff d.attrs).pick
                           (recFill d.attrs.definition s.attrs.definition d.attrs.filledDef)
                           d.attrs.filledDef
                         filledRef := (r.eff d.attrs).pick
                           (recFill d.attrs.reference s.attrs.reference d.attrs.filledRef)
                           d.attrs.filledRef
                         merged := (r.eff d.attrs).pick (some r) d.attrs.merged }
          (mergeProps cv k d.props s.props).1 (mergeSecs cv k (r.eff d.attrs) d.secs s.secs).1 := by
  cases s with
  | mk sa sp ss =>
    unfold merge at h ⊢
    split at h
    · cases h
    · rename_i hck
      simp only [hck]
      split at h
      · cases h
      · rename_i hcl
        simp only [hcl, Bool.false_eq_true, if_false]
        split at h
        · cases h
        · rename_i secs' hs
          split at h
          · cases h
          · rename_i props' hp
            simp only [hs, hp, Sec.secs_mk, Sec.props_mk, Sec.attrs_mk]
            exact ⟨trivial, trivial, trivial, trivial⟩

/-- a successful `merge` passed the name check -/
theorem merge_ok_no_clash (cv : Conv V) (k : Bool) (r : Ref) (d s : Sec V)
    (h : (merge cv k r d s).2 = .ok) : typeClash d s = false := by
  cases hcl : typeClash d s with
  | false => rfl
  | true =>
    cases hck : mergeCheck cv k d s with
    | ok => rw [merge_of_clash cv k r d s hck hcl] at h; cases h
    | raised e => rw [merge_of_check_raised cv k r d s e hck] at h; cases h

/-! ## Children the source lacks stay where they are, whatever the outcome -/

theorem mergeSecs_keeps (cv : Conv V) (k : Bool) (os : List (Sec V)) :
    ∀ (r : Ref) (dsecs : List (Sec V)) (i : Nat) (c : Sec V), dsecs[i]? = some c →
      (∀ o ∈ os, ¬ (o.name = c.name ∧ o.type = c.type)) →
      (mergeSecs cv k r dsecs os).1[i]? = some c := by
  induction os with
  | nil => intro r dsecs i c hi _; unfold mergeSecs; exact hi
  | cons o os ih =>
    intro r dsecs i c hi hno
    have hc : secMatch o.name o.type c = false := by
      have := hno o (List.mem_cons_self ..)
      simp [secMatch]; intro h1 h2; exact this ⟨h1.symm, h2.symm⟩
    have hno' : ∀ o' ∈ os, ¬ (o'.name = c.name ∧ o'.type = c.type) :=
      fun o' ho' => hno o' (List.mem_cons_of_mem _ ho')
    unfold mergeSecs
    split
    · split
      · exact getElem?_replaceFirst_other _ _ _ _ _ hi hc
      · exact ih r _ i c (getElem?_replaceFirst_other _ _ _ _ _ hi hc) hno'
    · split
      · exact hi
      · exact ih r _ i c (getElem?_append_left' _ _ _ _ hi) hno'

theorem mergeProps_keeps (cv : Conv V) (k : Bool) (os : List (PropT V)) :
    ∀ (dprops : List (PropT V)) (i : Nat) (c : PropT V), dprops[i]? = some c →
      (∀ o ∈ os, o.name ≠ c.name) → (mergeProps cv k dprops os).1[i]? = some c := by
  induction os with
  | nil => intro dprops i c hi _; unfold mergeProps; exact hi
  | cons o os ih =>
    intro dprops i c hi hno
    have hc : (fun p : PropT V => p.name == o.name) c = false := by
      have := hno o (List.mem_cons_self ..)
      simp; intro h1; exact this h1.symm
    have hno' : ∀ o' ∈ os, o'.name ≠ c.name := fun o' ho' => hno o' (List.mem_cons_of_mem _ ho')
    unfold mergeProps
    split
    · split
      · exact getElem?_replaceFirst_other _ _ _ _ _ hi hc
      · exact ih _ i c (getElem?_replaceFirst_other _ _ _ _ _ hi hc) hno'
    · split
      · exact hi
      · exact ih _ i c (getElem?_append_left' _ _ _ _ hi) hno'

/-- the child lists of the result of `merge`, whatever the outcome -/
theorem merge_lists (cv : Conv V) (k : Bool) (r : Ref) (d s : Sec V) :
    ((merge cv k r d s).1.secs = d.secs ∨
      (merge cv k r d s).1.secs = (mergeSecs cv k (r.eff d.attrs) d.secs s.secs).1) ∧
    ((merge cv k r d s).1.props = d.props ∨
      (merge cv k r d s).1.props = (mergeProps cv k d.props s.props).1) := by
  cases s with
  | mk sa sp ss =>
    unfold merge
    split
    · exact ⟨Or.inl rfl, Or.inl rfl⟩
    · split
      · exact ⟨Or.inl rfl, Or.inl rfl⟩
      · split
        · rename_i hs; simp [hs]
        · rename_i hs
          split
          · rename_i hp; simp [hs, hp]
          · rename_i hp; simp [hs, hp]

/-! ## Values and attributes of a merged Property -/

/-- element-wise relation between two lists of the same length -/
inductive Forall2 {α β : Type} (R : α → β → Prop) : List α → List β → Prop
  | nil : Forall2 R [] []
  | cons {a b l l'} : R a b → Forall2 R l l' → Forall2 R (a :: l) (b :: l')

theorem validate_forall2 (cv : Conv V) (dt : Option DType) (l : List V)
    (h : validate cv dt l = true) :
    Forall2 (fun v w => cv.get dt v = some w) l (l.filterMap (cv.get dt)) := by
  induction l with
  | nil => exact Forall2.nil
  | cons v vs ih =>
    unfold validate at h ih
    simp only [List.all_cons, Bool.and_eq_true] at h
    cases hg : cv.get dt v with
    | none => rw [hg] at h; simp at h
    | some w =>
      rw [List.filterMap_cons, hg]
      exact Forall2.cons hg (ih h.2)

theorem setValues_ok (cv : Conv V) (p p' : PropT V) (nv : List V)
    (h : setValues cv p nv = (p', .ok)) :
    p'.values = nv.filterMap (cv.get p'.dtype) ∧ validate cv p'.dtype nv = true ∧
    (p'.dtype = p.dtype ∨ (p.dtype = none ∧ ∃ v0 vs, nv = v0 :: vs ∧ p'.dtype = some (cv.infer v0))) ∧
    p'.name = p.name ∧ p'.unit = p.unit ∧ p'.uncertainty = p.uncertainty ∧
    p'.definition = p.definition ∧ p'.reference = p.reference ∧ p'.origin = p.origin := by
  cases nv with
  | nil =>
    simp only [setValues] at h
    cases h
    simp [validate]
  | cons v0 vs =>
    simp only [setValues] at h
    split at h
    · cases h
    · rename_i hval
      cases h
      simp only [Bool.not_eq_true, Bool.not_eq_false'] at hval
      refine ⟨rfl, hval, ?_, rfl, rfl, rfl, rfl, rfl, rfl⟩
      simp only [dtypeFor]
      cases hdt : p.dtype with
      | none => exact Or.inr ⟨rfl, v0, vs, rfl, rfl⟩
      | some t => exact Or.inl rfl

theorem extend_ok (cv : Conv V) (p p' : PropT V) (obj : List V) (k : Bool)
    (h : extend cv p obj k = (p', .ok)) :
    p'.values = p.values ++ obj.filterMap (cv.get p'.dtype) ∧ validate cv p'.dtype obj = true ∧
    (p'.dtype = p.dtype ∨
      (p.dtype = none ∧ p.values = [] ∧ ∃ v0 vs, obj = v0 :: vs ∧ p'.dtype = some (cv.infer v0))) ∧
    p'.name = p.name ∧ p'.unit = p.unit ∧ p'.uncertainty = p.uncertainty ∧
    p'.definition = p.definition ∧ p'.reference = p.reference ∧ p'.origin = p.origin := by
  unfold extend at h
  by_cases he : p.values.isEmpty = true
  · rw [if_pos he] at h
    have hnil : p.values = [] := by simpa using he
    have := setValues_ok cv p p' obj h
    rw [hnil, List.nil_append]
    refine ⟨this.1, this.2.1, ?_, this.2.2.2⟩
    rcases this.2.2.1 with h1 | ⟨h1, h2⟩
    · exact Or.inl h1
    · exact Or.inr ⟨h1, rfl, h2⟩
  · rw [if_neg he] at h
    cases hdt : p.dtype with
    | none => rw [hdt] at h; cases h
    | some t =>
      rw [hdt] at h; simp only at h
      by_cases hr : extendRefuses cv t obj k = true
      · rw [if_pos hr] at h; cases h
      · rw [if_neg hr] at h
        by_cases hval : (!validate cv (some t) obj) = true
        · rw [if_pos hval] at h; cases h
        · rw [if_neg hval] at h
          cases h
          simp only [Bool.not_eq_true, Bool.not_eq_false'] at hval
          simp only [hdt]
          exact ⟨trivial, hval, Or.inl trivial, trivial, trivial, trivial, trivial, trivial, trivial⟩

theorem propMerge_spec (cv : Conv V) (k : Bool) (d s d' : PropT V)
    (h : propMerge cv k d s = (d', .ok)) :
    d'.values = d.values ++ (toAdd cv d.values s.values).filterMap (cv.get d'.dtype) ∧
    validate cv d'.dtype (toAdd cv d.values s.values) = true ∧
    (d'.dtype = d.dtype ∨
      (d.dtype = none ∧ d.values = [] ∧ ∃ v0 vs, s.values = v0 :: vs ∧ d'.dtype = some (cv.infer v0))) ∧
    d'.name = d.name ∧
    d'.unit = fillText d.unit s.unit ∧ d'.uncertainty = fillOpt d.uncertainty s.uncertainty ∧
    d'.definition = fillText d.definition s.definition ∧
    d'.reference = fillText d.reference s.reference ∧ d'.origin = fillText d.origin s.origin := by
  unfold propMerge at h
  split at h
  · cases h
  · have := extend_ok cv _ _ _ _ h
    have hv1 : (fillProp d s).values = d.values := rfl
    have hd1 : (fillProp d s).dtype = d.dtype := rfl
    rw [hv1, hd1] at this
    refine ⟨this.1, this.2.1, ?_, this.2.2.2⟩
    rcases this.2.2.1 with h1 | ⟨h1, h2, v0, vs, h3, h4⟩
    · exact Or.inl h1
    · refine Or.inr ⟨h1, h2, v0, vs, ?_, h4⟩
      rw [h2, toAdd_nil_own] at h3; exact h3

/-- a set attribute is kept by `fillText` / `fillOpt`, an unset one is taken from the source -/
theorem fillText_some (a : Str) (b : Option Str) : fillText (some a) b = some a := rfl
theorem fillText_none (b : Str) (hb : b ≠ []) : fillText none (some b) = some b := by
  unfold fillText; cases b with
  | nil => exact absurd rfl hb
  | cons c cs => rfl
theorem fillText_none_none : fillText none none = none := rfl
theorem fillOpt_some {α : Type} (a : α) (b : Option α) : fillOpt (some a) b = some a := rfl
theorem fillOpt_none {α : Type} (b : Option α) : fillOpt none b = b := rfl

/-! ## Completeness -/

theorem mergeProps_names (cv : Conv V) (k : Bool) (os : List (PropT V)) :
    ∀ (dprops : List (PropT V)), (mergeProps cv k dprops os).2 = .ok →
      (∀ n, propNameIn dprops n = true → propNameIn (mergeProps cv k dprops os).1 n = true) ∧
      (∀ o ∈ os, propNameIn (mergeProps cv k dprops os).1 o.name = true) := by
  induction os with
  | nil => intro dprops _; unfold mergeProps; exact ⟨fun n h => h, fun o ho => by cases ho⟩
  | cons o0 os ih =>
    intro dprops hok
    cases hf0 : findProp dprops o0.name with
    | some mine0 =>
      cases he : propMerge cv k mine0 o0 with
      | mk m' out =>
        cases out with
        | raised e => rw [mergeProps_cons_raised cv k dprops os o0 mine0 m' e hf0 he] at hok; cases hok
        | ok =>
          rw [mergeProps_cons_ok cv k dprops os o0 mine0 m' hf0 he] at hok ⊢
          have hmn : m'.name = o0.name := (propMerge_fst_name he).trans (findProp_some hf0).2
          have hkeep : ∀ n, propNameIn dprops n = true →
              propNameIn (replaceFirst (fun p => p.name == o0.name) m' dprops) n = true := by
            intro n hn
            by_cases hnn : o0.name = n
            · subst hnn
              have := findProp_replace_same _ _ _ _ hf0 hmn
              cases hx : propNameIn (replaceFirst (fun p => p.name == o0.name) m' dprops) o0.name with
              | true => rfl
              | false => rw [← findProp_none_iff, this] at hx; cases hx
            · unfold propNameIn at hn ⊢
              rw [any_replaceFirst_other _ _ _ _ _ _]
              · exact hn
              · intro y hy; simp at hy; simp; intro h1; exact hnn (hy ▸ h1)
              · simp [hmn]; exact hnn
          have := ih _ hok
          refine ⟨fun n hn => this.1 n (hkeep n hn), ?_⟩
          intro o ho
          rcases List.mem_cons.1 ho with rfl | ho'
          · apply this.1; apply hkeep
            cases hx : propNameIn dprops o.name with
            | true => rfl
            | false => rw [← findProp_none_iff, hf0] at hx; cases hx
          · exact this.2 o ho'
    | none =>
      rw [mergeProps_cons_new cv k dprops os o0 hf0] at hok ⊢
      have := ih _ hok
      have hkeep : ∀ n, propNameIn dprops n = true → propNameIn (dprops ++ [o0]) n = true := by
        intro n hn; unfold propNameIn at *; simp at *; exact Or.inl hn
      refine ⟨fun n hn => this.1 n (hkeep n hn), ?_⟩
      intro o ho
      rcases List.mem_cons.1 ho with rfl | ho'
      · apply this.1; unfold propNameIn; simp
      · exact this.2 o ho'

/-! ## Completeness, recursively -/

theorem findSec_self (cv : Conv V) (ss : List (Sec V)) (hwf : wfSecs cv ss = true) :
    ∀ o ∈ ss, findSec ss o.name o.type = some o := by
  induction ss with
  | nil => intro o ho; cases ho
  | cons o0 os ih =>
    intro o ho
    rw [wfSecs_cons] at hwf
    obtain ⟨_, hno, hwos⟩ := hwf
    rcases List.mem_cons.1 ho with rfl | ho'
    · unfold findSec; simp [List.find?, secMatch]
    · have hne : o0.name ≠ o.name := fun he => (secNameIn_false_iff _ _).1 hno o ho' he.symm
      have : secMatch o.name o.type o0 = false := by
        simp [secMatch]; intro h1; exact absurd h1 hne
      unfold findSec; rw [List.find?_cons, this]
      exact ih hwos o ho'

theorem coversList_iff (rs os : List (Sec V)) :
    CoversList rs os ↔ ∀ o ∈ os, ∃ c, findSec rs o.name o.type = some c ∧ Covers c o := by
  induction os with
  | nil => simp [CoversList]
  | cons o os ih => rw [CoversList, ih]; simp

mutual
theorem covers_same (cv : Conv V) :
    ∀ (s r : Sec V), wfSec cv s = true → r.props = s.props → r.secs = s.secs → Covers r s
  | .mk sa sp ss, r, hwf, hp, hs => by
    rw [wfSec_mk] at hwf
    unfold Covers
    simp only [Sec.props_mk, Sec.secs_mk] at hp hs
    rw [hp, hs]
    refine ⟨?_, coversList_self cv ss ss hwf.2.2 (fun o ho => findSec_self cv ss hwf.2.2 o ho)⟩
    intro p hp'
    unfold propNameIn; simp; exact ⟨p, hp', rfl⟩
theorem coversList_self (cv : Conv V) :
    ∀ (os rs : List (Sec V)), wfSecs cv os = true →
      (∀ o ∈ os, findSec rs o.name o.type = some o) → CoversList rs os
  | [], rs, _, _ => by unfold CoversList; trivial
  | o :: os, rs, hwf, hf => by
    rw [wfSecs_cons] at hwf
    unfold CoversList
    exact ⟨⟨o, hf o (List.mem_cons_self ..), covers_same cv o o hwf.1 rfl rfl⟩,
           coversList_self cv os rs hwf.2.2 (fun o' ho' => hf o' (List.mem_cons_of_mem _ ho'))⟩
end

mutual
theorem merge_covers (cv : Conv V) (k : Bool) :
    ∀ (s : Sec V) (r : Ref) (d : Sec V), wfSec cv s = true → (merge cv k r d s).2 = .ok →
      Covers (merge cv k r d s).1 s
  | .mk sa sp ss, r, d, hwf, hok => by
    have hsh := merge_ok_shape cv k r d (.mk sa sp ss) hok
    rw [wfSec_mk] at hwf
    rw [hsh.2.2.2]
    unfold Covers
    simp only [Sec.props_mk, Sec.secs_mk] at hsh ⊢
    exact ⟨(mergeProps_names cv k sp d.props hsh.2.2.1).2,
           mergeSecs_covers cv k ss (r.eff d.attrs) d.secs hwf.2.2 hsh.2.1⟩
theorem mergeSecs_covers (cv : Conv V) (k : Bool) :
    ∀ (os : List (Sec V)) (r : Ref) (dsecs : List (Sec V)), wfSecs cv os = true →
      (mergeSecs cv k r dsecs os).2 = .ok → CoversList (mergeSecs cv k r dsecs os).1 os
  | [], r, dsecs, _, _ => by unfold CoversList; trivial
  | o :: os, r, dsecs, hwf, hok => by
    have hres := mergeSecs_result cv k (o :: os) r dsecs hwf hok o (List.mem_cons_self ..)
    rw [wfSecs_cons] at hwf
    obtain ⟨hwo, hno, hwos⟩ := hwf
    unfold CoversList
    constructor
    · cases hf : findSec dsecs o.name o.type with
      | some mine =>
        obtain ⟨h1, h2⟩ := hres.1 mine hf
        exact ⟨_, h1, merge_covers cv k o (r.child o.name) mine hwo h2⟩
      | none =>
        exact ⟨_, hres.2 hf, covers_same cv o _ hwo rfl rfl⟩
    · cases hf : findSec dsecs o.name o.type with
      | some mine =>
        cases he : merge cv k (r.child o.name) mine o with
        | mk m' out =>
          cases out with
          | raised e => rw [mergeSecs_cons_raised cv k r dsecs os o mine m' e hf he] at hok; cases hok
          | ok =>
            rw [mergeSecs_cons_ok cv k r dsecs os o mine m' hf he] at hok ⊢
            exact mergeSecs_covers cv k os r _ hwos hok
      | none =>
        cases hni : secNameIn dsecs o.name with
        | true => rw [mergeSecs_cons_clash cv k r dsecs os o hf hni] at hok; cases hok
        | false =>
          rw [mergeSecs_cons_new cv k r dsecs os o hf hni] at hok ⊢
          exact mergeSecs_covers cv k os r _ hwos hok
end

end Merge
