/-
Helper lemmas for C10 (RDF export / import).  Property theorems are in `Props/C10.lean`.
-/
import OdmlModel.Model.Rdf
import OdmlModel.Proofs.Str

set_option linter.unusedSimpArgs false
set_option linter.unusedVariables false
set_option linter.unusedSectionVars false

namespace Rdf
open List

/-! ## 1. Generic list facts -/

theorem flatMap_perm_left {α β} {f g : α → List β} :
    ∀ (l : List α), (∀ a ∈ l, (f a).Perm (g a)) → (l.flatMap f).Perm (l.flatMap g)
  | [], _ => by simp
  | a :: l, h => by
    simp only [flatMap_cons]
    exact (h a (by simp)).append (flatMap_perm_left l (fun b hb => h b (by simp [hb])))

theorem flatMap_append_perm {α β} (f g : α → List β) :
    ∀ (l : List α), (l.flatMap (fun a => f a ++ g a)).Perm (l.flatMap f ++ l.flatMap g)
  | [] => by simp
  | a :: l => by
    simp only [flatMap_cons]
    have ih := flatMap_append_perm f g l
    -- (f a ++ g a) ++ X  ~  (f a ++ F) ++ (g a ++ G)
    have h1 : ((f a ++ g a) ++ l.flatMap (fun a => f a ++ g a)).Perm
        ((f a ++ g a) ++ (l.flatMap f ++ l.flatMap g)) := (Perm.refl _).append ih
    refine h1.trans ?_
    have h2 : (g a ++ (l.flatMap f ++ l.flatMap g)).Perm (l.flatMap f ++ (g a ++ l.flatMap g)) := by
      rw [← append_assoc, ← append_assoc]
      exact perm_append_comm.append (Perm.refl _)
    simpa [append_assoc] using (Perm.refl (f a)).append h2

/-- Only one element of the list contributes. -/
theorem flatMap_single {α β γ} {f : α → List β} {l : List α} {a : α} (key : α → γ)
    (nd : (l.map key).Nodup) (ha : a ∈ l) (h : ∀ b ∈ l, key b ≠ key a → f b = []) :
    l.flatMap f = f a := by
  obtain ⟨s, t, rfl⟩ := append_of_mem ha
  simp only [map_append, map_cons] at nd
  have nd' := nodup_append.mp nd
  have hs : ∀ b ∈ s, f b = [] := by
    intro b hb
    apply h b (by simp [hb])
    intro e
    exact nd'.2.2 (key b) (mem_map_of_mem hb) (key a) (by simp) e
  have ht : ∀ b ∈ t, f b = [] := by
    intro b hb
    apply h b (by simp [hb])
    intro e
    have := (nodup_cons.mp nd'.2.1).1
    exact this (e ▸ mem_map_of_mem hb)
  simp only [flatMap_append, flatMap_cons]
  have e1 : s.flatMap f = [] := by simpa [flatMap_eq_nil_iff] using hs
  have e2 : t.flatMap f = [] := by simpa [flatMap_eq_nil_iff] using ht
  simp [e1, e2]

theorem flatMap_none {α β} {f : α → List β} {l : List α} (h : ∀ b ∈ l, f b = []) :
    l.flatMap f = [] := by simpa [flatMap_eq_nil_iff] using h

/-! ## 2. `objects`, `seqPairs` -/

theorem objects_append (g h : Graph) (s p : Term) :
    objects (g ++ h) s p = objects g s p ++ objects h s p := by
  simp [objects]

theorem objects_nil (s p : Term) : objects [] s p = [] := rfl

theorem objects_cons (t : Triple) (g : Graph) (s p : Term) :
    objects (t :: g) s p = (if t.s = s ∧ t.p = p then [t.o] else []) ++ objects g s p := by
  by_cases h : t.s = s ∧ t.p = p
  · simp [objects, filter_cons, h.1, h.2]
  · have : (t.s == s && t.p == p) = false := by
      simp only [Bool.and_eq_false_imp, beq_iff_eq, beq_eq_false_iff_ne]
      intro e; exact fun e2 => h ⟨e, e2⟩
    simp [objects, filter_cons, this, h]

theorem objects_flatMap {α} (l : List α) (f : α → Graph) (s p : Term) :
    objects (l.flatMap f) s p = l.flatMap (fun a => objects (f a) s p) := by
  induction l with
  | nil => rfl
  | cons a l ih => simp [flatMap_cons, objects_append, ih]

/-- Permutation invariance of the graph lookup. -/
theorem objects_perm {g g' : Graph} (h : g'.Perm g) (s p : Term) :
    (objects g' s p).Perm (objects g s p) :=
  (h.filter _).map _

theorem objects_eq_nil {g : Graph} {s p : Term} (h : ∀ t ∈ g, ¬ (t.s = s ∧ t.p = p)) :
    objects g s p = [] := by
  induction g with
  | nil => rfl
  | cons t g ih =>
    rw [objects_cons, if_neg (h t (by simp)), ih (fun u hu => h u (by simp [hu]))]; rfl

theorem seqPairs_append (g h : Graph) (s : Term) :
    seqPairs (g ++ h) s = seqPairs g s ++ seqPairs h s := by
  simp [seqPairs]

theorem seqPairs_flatMap {α} (l : List α) (f : α → Graph) (s : Term) :
    seqPairs (l.flatMap f) s = l.flatMap (fun a => seqPairs (f a) s) := by
  induction l with
  | nil => rfl
  | cons a l ih => simp [flatMap_cons, seqPairs_append, ih]

theorem seqPairs_perm {g g' : Graph} (h : g'.Perm g) (s : Term) :
    (seqPairs g' s).Perm (seqPairs g s) :=
  (h.filter _).filterMap _

theorem seqPairs_eq_nil {g : Graph} {s : Term} (h : ∀ t ∈ g, t.s = s → liIndex t.p = none) :
    seqPairs g s = [] := by
  induction g with
  | nil => rfl
  | cons t g ih =>
    have ih' := ih (fun u hu => h u (by simp [hu]))
    unfold seqPairs at ih' ⊢
    by_cases e : t.s = s
    · have := h t (by simp) e
      simp [filter_cons, e, this, ih']
    · have : (t.s == s) = false := by simpa using e
      simp [filter_cons, this, ih']

/-! ## 3. `mapE` -/

/-- Pointwise relation of two lists (core has no `Forall₂`). -/
inductive All2 {α β} (R : α → β → Prop) : List α → List β → Prop
  | nil : All2 R [] []
  | cons {a b as bs} : R a b → All2 R as bs → All2 R (a :: as) (b :: bs)

theorem mapE_perm {α β ε} {f : α → Except ε β} {l₁ l₂ : List α} (h : l₁.Perm l₂) :
    ∀ r₂, mapE f l₂ = .ok r₂ → ∃ r₁, mapE f l₁ = .ok r₁ ∧ r₁.Perm r₂ := by
  induction h with
  | nil =>
    intro r h
    simp only [mapE, Except.ok.injEq] at h
    subst h
    exact ⟨[], rfl, Perm.refl _⟩
  | cons a _ ih =>
    intro r h
    simp only [mapE] at h ⊢
    cases ha : f a with
    | error e => simp [ha] at h
    | ok b =>
      simp only [ha] at h
      rename_i l₁ l₂ _
      cases hl : mapE f l₂ with
      | error e => simp [hl] at h
      | ok bs =>
        simp only [hl] at h
        obtain ⟨r₁, e₁, p₁⟩ := ih bs hl
        refine ⟨b :: r₁, by simp [e₁], ?_⟩
        cases h
        exact p₁.cons b
  | swap a b l =>
    intro r h
    simp only [mapE] at h ⊢
    cases ha : f a with
    | error e => simp [ha] at h
    | ok a' =>
      cases hb : f b with
      | error e => simp [ha, hb] at h
      | ok b' =>
        cases hl : mapE f l with
        | error e => simp [ha, hb, hl] at h
        | ok bs =>
          simp only [ha, hb, hl] at h
          cases h
          exact ⟨_, rfl, Perm.swap _ _ _⟩
  | trans _ _ ih₁ ih₂ =>
    intro r h
    obtain ⟨r', e', p'⟩ := ih₂ r h
    obtain ⟨r'', e'', p''⟩ := ih₁ r' e'
    exact ⟨r'', e'', p''.trans p'⟩

theorem mapE_map_ok {α β γ ε} {f : α → Except ε β} {k : γ → α} {R : γ → β → Prop} :
    ∀ (l : List γ), (∀ c ∈ l, ∃ b, f (k c) = .ok b ∧ R c b) →
      ∃ bs, mapE f (l.map k) = .ok bs ∧ All2 R l bs
  | [], _ => ⟨[], rfl, All2.nil⟩
  | c :: l, h => by
    obtain ⟨b, hb, rb⟩ := h c (by simp)
    obtain ⟨bs, hbs, rbs⟩ := mapE_map_ok l (fun d hd => h d (by simp [hd]))
    exact ⟨b :: bs, by simp [mapE, hb, hbs], All2.cons rb rbs⟩

/-! ## 4. Strings -/

theorem afterHash_append (pre rest : Str) (h : '#' ∉ pre) :
    afterHash (pre ++ '#' :: rest) = some rest := by
  induction pre with
  | nil => simp [afterHash]
  | cons c cs ih =>
    have hc : c ≠ '#' := fun e => h (by simp [e])
    have hcs : '#' ∉ cs := fun e => h (by simp [e])
    simp [afterHash, hc, ih hcs]

theorem afterHash_ns (id : Str) : afterHash (ns ++ id) = some id := by
  have e : ns = "https://g-node.org/odml-rdf".toList ++ ['#'] := by decide
  rw [e, append_assoc]
  exact afterHash_append _ _ (by decide)

theorem node_inj {a b : Str} (h : node a = node b) : a = b := by
  simp only [node, Term.iri.injEq] at h
  exact append_cancel_left h

theorem stripPrefix_append (p s : Str) : stripPrefix p (p ++ s) = some s := by
  induction p with
  | nil => cases s <;> rfl
  | cons c cs ih => simp [stripPrefix, ih]

theorem isDigit_toDigits (n : Nat) : Py.isDigitStr (Py.natToDigits n) = true := by
  have h : ∀ c ∈ Nat.toDigits 10 n, c.isDigit = true := by
    intro c hc
    exact Nat.isDigit_of_mem_toDigits (by omega) (by omega) hc
  have ne : Nat.toDigits 10 n ≠ [] := by
    intro e
    have := congrArg List.length e
    have h2 := Nat.length_toDigits_pos (b := 10) (n := n)
    simp at this
  simp only [Py.isDigitStr, Py.natToDigits, Bool.and_eq_true, Bool.not_eq_true', all_eq_true]
  refine ⟨?_, h⟩
  cases h3 : Nat.toDigits 10 n with
  | nil => exact absurd h3 ne
  | cons _ _ => rfl

/-! ## 5. The exported graph, object by object

`ownDoc`, `ownSec`, `saveProperty` are the triples the writer emits for one object itself (its
type, its set attributes, the links to its children, its value sequence); the exported graph is
a permutation of the union of these over all objects (`export_flat`). -/

def secLink (n pred : Term) (c : SecT) : Triple := ⟨n, pred, node c.id⟩
def propLink (n pred : Term) (p : PropT) : Triple := ⟨n, pred, node p.id⟩

def secStep (cfg : Cfg) (n : Term) (a : Attrs) (ps : List PropT) (ss : List SecT)
    (kp : String × String) : Graph :=
  if kp.1 == "id" then []
  else if kp.1 == "sections" then saveSecList cfg n (.iri kp.2.toList) ss
  else if kp.1 == "properties" then savePropList n (.iri kp.2.toList) ps
  else saveSecAttr n a kp

def ownSecStep (n : Term) (a : Attrs) (ps : List PropT) (ss : List SecT)
    (kp : String × String) : Graph :=
  if kp.1 == "id" then []
  else if kp.1 == "sections" then ss.map (secLink n (.iri kp.2.toList))
  else if kp.1 == "properties" then ps.map (propLink n (.iri kp.2.toList))
  else saveSecAttr n a kp

/-- The triples of a Section node itself. -/
def ownSec (cfg : Cfg) : SecT → Graph
  | .mk id a ps ss =>
    sectionTypeTriples cfg (node id) a ++
      Gen.Format.sectionRdfMap.flatMap (ownSecStep (node id) a ps ss)

def docHead (d : DocT) : Graph :=
  [⟨node d.id, rdfType, .iri Gen.Format.documentRdfType.toList⟩, ⟨hub, hasDocument, node d.id⟩,
   ⟨node d.id, hasFileName, .lit (d.origin.getD noneStr) []⟩]

def docStep (cfg : Cfg) (d : DocT) (kp : String × String) : Graph :=
  if kp.1 == "id" then []
  else if kp.1 == "sections" then saveSecList cfg (node d.id) (.iri kp.2.toList) d.secs
  else saveDocAttr (node d.id) d.attrs kp

def ownDocStep (d : DocT) (kp : String × String) : Graph :=
  if kp.1 == "id" then []
  else if kp.1 == "sections" then d.secs.map (secLink (node d.id) (.iri kp.2.toList))
  else saveDocAttr (node d.id) d.attrs kp

/-- The triples of a Document node itself. -/
def ownDoc (d : DocT) : Graph := docHead d ++ Gen.Format.documentRdfMap.flatMap (ownDocStep d)

/-- The union of the per-object triples. -/
def flatSecs (cfg : Cfg) (l : List SecT) : Graph :=
  l.flatMap (ownSec cfg) ++ l.flatMap (fun s => s.props.flatMap saveProperty)

def flatGraph (cfg : Cfg) (ds : List DocT) : Graph :=
  ds.flatMap ownDoc ++ flatSecs cfg (docSecs ds)

theorem saveSection_eq (cfg : Cfg) (id : Str) (a : Attrs) (ps : List PropT) (ss : List SecT) :
    saveSection cfg (.mk id a ps ss) =
      sectionTypeTriples cfg (node id) a ++
        Gen.Format.sectionRdfMap.flatMap (secStep cfg (node id) a ps ss) := by
  rw [saveSection]; rfl

theorem saveDocument_eq (cfg : Cfg) (d : DocT) :
    saveDocument cfg d = docHead d ++ Gen.Format.documentRdfMap.flatMap (docStep cfg d) := rfl

theorem saveSecList_perm (cfg : Cfg) (n pred : Term) :
    ∀ ss : List SecT, (saveSecList cfg n pred ss).Perm
      (ss.map (secLink n pred) ++ ss.flatMap (saveSection cfg))
  | [] => by simp [saveSecList]
  | s :: ss => by
    have ih := saveSecList_perm cfg n pred ss
    simp only [saveSecList, map_cons, flatMap_cons]
    have h1 : ((⟨n, pred, node s.id⟩ :: saveSection cfg s) ++ saveSecList cfg n pred ss).Perm
        ((⟨n, pred, node s.id⟩ :: saveSection cfg s) ++
          (ss.map (secLink n pred) ++ ss.flatMap (saveSection cfg))) := (Perm.refl _).append ih
    refine h1.trans ?_
    simp only [cons_append, secLink]
    refine Perm.cons _ ?_
    rw [← append_assoc, ← append_assoc]
    exact perm_append_comm.append (Perm.refl _)

theorem savePropList_perm (n pred : Term) :
    ∀ ps : List PropT, (savePropList n pred ps).Perm
      (ps.map (propLink n pred) ++ ps.flatMap saveProperty)
  | [] => by simp [savePropList]
  | p :: ps => by
    have ih := savePropList_perm n pred ps
    simp only [savePropList, map_cons, flatMap_cons] at ih ⊢
    have h1 : ((⟨n, pred, node p.id⟩ :: saveProperty p) ++
          ps.flatMap (fun p => ⟨n, pred, node p.id⟩ :: saveProperty p)).Perm
        ((⟨n, pred, node p.id⟩ :: saveProperty p) ++
          (ps.map (propLink n pred) ++ ps.flatMap saveProperty)) := (Perm.refl _).append ih
    refine h1.trans ?_
    simp only [cons_append, propLink]
    refine Perm.cons _ ?_
    rw [← append_assoc, ← append_assoc]
    exact perm_append_comm.append (Perm.refl _)

/-- What the generated tables must provide (all decidable; discharged by `decide` on the
    regenerated tables in `Props/C10.lean`). -/
structure KeysOK (tbl : List (String × String)) : Prop where
  keysNodup : (tbl.map (·.1)).Nodup
  predsNodup : (tbl.map (·.2)).Nodup

def kidsS (cfg : Cfg) (ss : List SecT) (kp : String × String) : Graph :=
  if kp.1 == "sections" then ss.flatMap (saveSection cfg) else []
def kidsP (ps : List PropT) (kp : String × String) : Graph :=
  if kp.1 == "properties" then ps.flatMap saveProperty else []

theorem secStep_perm (cfg : Cfg) (n : Term) (a : Attrs) (ps : List PropT) (ss : List SecT)
    (kp : String × String) :
    (secStep cfg n a ps ss kp).Perm (ownSecStep n a ps ss kp ++ (kidsS cfg ss kp ++ kidsP ps kp)) := by
  unfold secStep ownSecStep kidsS kidsP
  by_cases h1 : kp.1 = "id"
  · simp [h1]
  · by_cases h2 : kp.1 = "sections"
    · simp only [h2]
      simpa using saveSecList_perm cfg n (.iri kp.2.toList) ss
    · by_cases h3 : kp.1 = "properties"
      · simp only [h3]
        simpa using savePropList_perm n (.iri kp.2.toList) ps
      · simp [h1, h2, h3]

theorem docStep_perm (cfg : Cfg) (d : DocT) (kp : String × String) :
    (docStep cfg d kp).Perm (ownDocStep d kp ++ kidsS cfg d.secs kp) := by
  unfold docStep ownDocStep kidsS
  by_cases h1 : kp.1 = "id"
  · simp [h1]
  · by_cases h2 : kp.1 = "sections"
    · simp only [h2]
      simpa using saveSecList_perm cfg (node d.id) (.iri kp.2.toList) d.secs
    · simp [h1, h2]

theorem kidsS_flat (cfg : Cfg) (ss : List SecT) {tbl : List (String × String)} (ok : KeysOK tbl)
    {pred : String} (h : ("sections", pred) ∈ tbl) :
    tbl.flatMap (kidsS cfg ss) = ss.flatMap (saveSection cfg) := by
  rw [flatMap_single (·.1) ok.keysNodup h]
  · simp [kidsS]
  · intro b _ hb
    have : b.1 ≠ "sections" := hb
    simp [kidsS, this]

theorem kidsP_flat (ps : List PropT) {tbl : List (String × String)} (ok : KeysOK tbl)
    {pred : String} (h : ("properties", pred) ∈ tbl) :
    tbl.flatMap (kidsP ps) = ps.flatMap saveProperty := by
  rw [flatMap_single (·.1) ok.keysNodup h]
  · simp [kidsP]
  · intro b _ hb
    have : b.1 ≠ "properties" := hb
    simp [kidsP, this]

theorem allSecsL_cons (s : SecT) (r : List SecT) : allSecsL (s :: r) = allSecs s ++ allSecsL r := by
  rw [allSecsL]

theorem flatSecs_append (cfg : Cfg) (l₁ l₂ : List SecT) :
    (flatSecs cfg (l₁ ++ l₂)).Perm (flatSecs cfg l₁ ++ flatSecs cfg l₂) := by
  unfold flatSecs
  simp only [flatMap_append]
  refine perm_iff_count.mpr (fun a => ?_)
  simp only [count_append]; omega

/-- What the Section table must provide. -/
structure SecTableOK : Prop where
  keys : KeysOK Gen.Format.sectionRdfMap
  secs : ∃ p, ("sections", p) ∈ Gen.Format.sectionRdfMap
  props : ∃ p, ("properties", p) ∈ Gen.Format.sectionRdfMap

mutual
theorem flatten_sec (cfg : Cfg) (ok : SecTableOK) :
    ∀ s : SecT, (saveSection cfg s).Perm (flatSecs cfg (allSecs s))
  | .mk id a ps ss => by
    have ih := flatten_secs cfg ok ss
    obtain ⟨p1, h1⟩ := ok.secs
    obtain ⟨p2, h2⟩ := ok.props
    rw [saveSection_eq]
    have e1 : (Gen.Format.sectionRdfMap.flatMap (secStep cfg (node id) a ps ss)).Perm
        (Gen.Format.sectionRdfMap.flatMap (ownSecStep (node id) a ps ss) ++
          (ss.flatMap (saveSection cfg) ++ ps.flatMap saveProperty)) := by
      refine (flatMap_perm_left _ (fun kp _ => secStep_perm cfg (node id) a ps ss kp)).trans ?_
      refine (flatMap_append_perm _ _ _).trans ?_
      refine (Perm.refl _).append ?_
      refine (flatMap_append_perm _ _ _).trans ?_
      rw [kidsS_flat cfg ss ok.keys h1, kidsP_flat ps ok.keys h2]
    have e2 := ((Perm.refl (sectionTypeTriples cfg (node id) a)).append
      (e1.trans ((Perm.refl _).append (ih.append (Perm.refl _)))))
    refine e2.trans ?_
    rw [allSecs]
    unfold flatSecs
    simp only [flatMap_cons, ownSec, SecT.props]
    refine perm_iff_count.mpr (fun t => ?_)
    simp only [count_append]; omega
theorem flatten_secs (cfg : Cfg) (ok : SecTableOK) :
    ∀ ss : List SecT, (ss.flatMap (saveSection cfg)).Perm (flatSecs cfg (allSecsL ss))
  | [] => by simp [allSecsL, flatSecs]
  | s :: r => by
    have h1 := flatten_sec cfg ok s
    have h2 := flatten_secs cfg ok r
    rw [allSecsL_cons, flatMap_cons]
    exact (h1.append h2).trans (flatSecs_append cfg _ _).symm
end

/-- What the Document table must provide. -/
structure DocTableOK : Prop where
  keys : KeysOK Gen.Format.documentRdfMap
  secs : ∃ p, ("sections", p) ∈ Gen.Format.documentRdfMap

theorem flatten_doc (cfg : Cfg) (okS : SecTableOK) (okD : DocTableOK) (d : DocT) :
    (saveDocument cfg d).Perm (ownDoc d ++ flatSecs cfg (allSecsL d.secs)) := by
  obtain ⟨p1, h1⟩ := okD.secs
  rw [saveDocument_eq]
  have e1 : (Gen.Format.documentRdfMap.flatMap (docStep cfg d)).Perm
      (Gen.Format.documentRdfMap.flatMap (ownDocStep d) ++ d.secs.flatMap (saveSection cfg)) := by
    refine (flatMap_perm_left _ (fun kp _ => docStep_perm cfg d kp)).trans ?_
    refine (flatMap_append_perm _ _ _).trans ?_
    rw [kidsS_flat cfg d.secs okD.keys h1]
  unfold ownDoc
  rw [append_assoc]
  exact (Perm.refl _).append (e1.trans ((Perm.refl _).append (flatten_secs cfg okS d.secs)))

theorem allSecsL_append (l₁ l₂ : List SecT) : allSecsL (l₁ ++ l₂) = allSecsL l₁ ++ allSecsL l₂ := by
  induction l₁ with
  | nil => simp [allSecsL]
  | cons s r ih => simp [allSecsL_cons, ih]

/-- **Shape of the exported graph**: it is, up to order, the union over all objects of the
    triples of that object alone. -/
theorem export_flat (cfg : Cfg) (okS : SecTableOK) (okD : DocTableOK) :
    ∀ ds : List DocT, (exportRdf cfg ds).Perm (flatGraph cfg ds)
  | [] => by simp [exportRdf, flatGraph, docSecs, allSecsL, flatSecs]
  | d :: ds => by
    have ih := export_flat cfg okS okD ds
    unfold exportRdf flatGraph docSecs at ih ⊢
    simp only [flatMap_cons, allSecsL_append]
    refine ((flatten_doc cfg okS okD d).append ih).trans ?_
    refine Perm.trans ?_ ((Perm.refl _).append (flatSecs_append cfg _ _).symm)
    refine perm_iff_count.mpr (fun t => ?_)
    simp only [count_append]; omega

/-! ## 6. Which subjects and predicates the triples of one object have -/

theorem hub_eq : hub = node hubName := rfl

/-- Shape of a triple emitted for the object with node `n`: it is either a triple of `n` with
    predicate `pred`, or its subject is a fresh node / the Hub. -/
def StepShape (n pred : Term) (t : Triple) : Prop :=
  (t.s = n ∧ t.p = pred) ∨ (∃ u, t.s = .tnode u) ∨ (∃ u, t.s = .seqn u) ∨ (t.s = hub ∧ t.p = hasTerminology)

theorem shape_saveRepositoryNode {n pred : Term} {url : Str} {t : Triple}
    (h : t ∈ saveRepositoryNode n pred url) : StepShape n pred t := by
  simp only [saveRepositoryNode, mem_cons, mem_nil_iff, or_false] at h
  rcases h with rfl | rfl | rfl
  · exact .inr (.inl ⟨_, rfl⟩)
  · exact .inr (.inr (.inr ⟨rfl, rfl⟩))
  · exact .inl ⟨rfl, rfl⟩

theorem shape_saveSecAttr {n : Term} {a : Attrs} {kp : String × String} {t : Triple}
    (h : t ∈ saveSecAttr n a kp) : StepShape n (.iri kp.2.toList) t := by
  unfold saveSecAttr at h
  split at h
  · simp at h
  · split at h
    · simp at h
    · split at h
      · exact shape_saveRepositoryNode h
      · simp only [mem_cons, mem_nil_iff, or_false] at h; subst h; exact .inl ⟨rfl, rfl⟩

theorem shape_saveDocAttr {n : Term} {a : Attrs} {kp : String × String} {t : Triple}
    (h : t ∈ saveDocAttr n a kp) : StepShape n (.iri kp.2.toList) t := by
  unfold saveDocAttr at h
  split at h
  · simp at h
  · split at h
    · simp at h
    · split at h
      · exact shape_saveRepositoryNode h
      · split at h <;>
          (simp only [mem_cons, mem_nil_iff, or_false] at h; subst h; exact .inl ⟨rfl, rfl⟩)

theorem shape_ownSecStep {n : Term} {a : Attrs} {ps : List PropT} {ss : List SecT}
    {kp : String × String} {t : Triple} (h : t ∈ ownSecStep n a ps ss kp) :
    StepShape n (.iri kp.2.toList) t := by
  unfold ownSecStep at h
  split at h
  · simp at h
  · split at h
    · simp only [mem_map, secLink] at h; obtain ⟨c, _, rfl⟩ := h; exact .inl ⟨rfl, rfl⟩
    · split at h
      · simp only [mem_map, propLink] at h; obtain ⟨c, _, rfl⟩ := h; exact .inl ⟨rfl, rfl⟩
      · exact shape_saveSecAttr h

theorem shape_ownDocStep {d : DocT} {kp : String × String} {t : Triple}
    (h : t ∈ ownDocStep d kp) : StepShape (node d.id) (.iri kp.2.toList) t := by
  unfold ownDocStep at h
  split at h
  · simp at h
  · split at h
    · simp only [mem_map, secLink] at h; obtain ⟨c, _, rfl⟩ := h; exact .inl ⟨rfl, rfl⟩
    · exact shape_saveDocAttr h

theorem mem_seqItems {seq : Term} {t : Triple} : ∀ {k : Nat} {vs : List Lit},
    t ∈ seqItems seq k vs → t.s = seq
  | _, [], h => by simp [seqItems] at h
  | k, v :: vs, h => by
    simp only [seqItems, mem_cons] at h
    rcases h with rfl | h
    · rfl
    · exact mem_seqItems h

theorem shape_savePropertyKey {p : PropT} {kp : String × String} {t : Triple}
    (h : t ∈ savePropertyKey p kp) : StepShape (node p.id) (.iri kp.2.toList) t := by
  unfold savePropertyKey at h
  simp only at h
  split at h
  · split at h
    · simp at h
    · simp only [saveValues, mem_cons] at h
      rcases h with rfl | rfl | h
      · exact .inr (.inr (.inl ⟨_, rfl⟩))
      · exact .inl ⟨rfl, rfl⟩
      · exact .inr (.inr (.inl ⟨_, mem_seqItems h⟩))
  · split at h
    · simp at h
    · split at h
      · simp at h
      · split at h
        · simp only [mem_cons, mem_nil_iff, or_false] at h; subst h; exact .inl ⟨rfl, rfl⟩
        · simp at h

/-- A step with another predicate contributes nothing to a lookup at `(n, q)`. -/
theorem objects_quiet {g : Graph} {n pred n' q : Term} (sh : ∀ t ∈ g, StepShape n pred t)
    (hn : ∃ j, n' = node j ∧ j ≠ hubName) (h : n ≠ n' ∨ pred ≠ q) : objects g n' q = [] := by
  obtain ⟨j, rfl, hj⟩ := hn
  apply objects_eq_nil
  intro t ht ⟨e1, e2⟩
  rcases sh t ht with ⟨a, b⟩ | ⟨u, hu⟩ | ⟨u, hu⟩ | ⟨a, _⟩
  · rcases h with h | h
    · exact h (a.symm.trans e1)
    · exact h (b.symm.trans e2)
  · rw [hu] at e1; simp [node] at e1
  · rw [hu] at e1; simp [node] at e1
  · rw [a, hub_eq] at e1; exact hj (node_inj e1).symm

theorem liIndex_li (k : Nat) : liIndex (li k) = some (some k) := by
  simp [liIndex, li, stripPrefix_append, Py.isDigitStr_natToDigits, Py.natOfDigits_natToDigits]

theorem liIndex_rdfType : liIndex rdfType = none := by decide
theorem liIndex_subClassOf : liIndex rdfsSubClassOf = none := by decide

/-! ## 7. Lookups inside the triples of one object -/

/-- What a table must provide for the lookups: distinct keys and predicates, and no predicate
    is `rdf:type`, `rdfs:subClassOf`, `hasDocument` or `hasTerminology`-as-seen-from-the-Hub. -/
structure TableOK (tbl : List (String × String)) : Prop where
  keys : KeysOK tbl
  notMeta : ∀ kp ∈ tbl, Term.iri kp.2.toList ≠ rdfType ∧ Term.iri kp.2.toList ≠ rdfsSubClassOf ∧
    Term.iri kp.2.toList ≠ hasDocument ∧ Term.iri kp.2.toList ≠ hasFileName

theorem iri_ne_of_ne {a b : String} (h : a ≠ b) : Term.iri a.toList ≠ Term.iri b.toList := by
  intro e
  simp only [Term.iri.injEq] at e
  exact h (String.toList_inj.mp e)

/-- Lookup in a table-driven block of triples: only the entry with the queried predicate counts. -/
theorem objects_table {tbl : List (String × String)} (ok : KeysOK tbl) {step : String × String → Graph}
    {n : Term} {kp : String × String} (hkp : kp ∈ tbl) {j : Str} (hn : n = node j) (hj : j ≠ hubName)
    (sh : ∀ kp' ∈ tbl, ∀ t ∈ step kp', StepShape n (.iri kp'.2.toList) t) :
    objects (tbl.flatMap step) n (.iri kp.2.toList) = objects (step kp) n (.iri kp.2.toList) := by
  rw [objects_flatMap]
  apply flatMap_single (·.2) ok.predsNodup hkp
  intro b hb hne
  exact objects_quiet (sh b hb) ⟨j, hn, hj⟩ (.inr (iri_ne_of_ne hne))

def attrObjs (chk : PyVal → Bool) (conv : String → PyVal → Term) (a : Attrs) (k : String) : List Term :=
  match a.lookup k with
  | some v => if chk v then [conv k v] else []
  | none => []

def propConv (_k : String) (v : PyVal) : Term := v.toLit
def secConv (k : String) (v : PyVal) : Term := if k == "repository" then .tnode v.lex else v.toLit
def docConv (k : String) (v : PyVal) : Term :=
  if k == "repository" then .tnode v.lex else if k == "date" then v.toDateLit else v.toLit

theorem objects_single (n p o : Term) : objects [⟨n, p, o⟩] n p = [o] := by
  simp [objects]

theorem objects_saveRepositoryNode (n pred : Term) (url : Str) {j : Str} (hn : n = node j)
    (hj : j ≠ hubName) : objects (saveRepositoryNode n pred url) n pred = [.tnode url] := by
  subst hn
  have h1 : ¬ (Term.tnode url = node j ∧ rdfType = pred) := by simp [node]
  have h2 : ¬ (hub = node j ∧ hasTerminology = pred) := by
    intro ⟨e, _⟩; rw [hub_eq] at e; exact hj (node_inj e).symm
  simp [saveRepositoryNode, objects_cons, h1, h2, objects_nil]

theorem objects_saveSecAttr (n : Term) (a : Attrs) (kp : String × String) {j : Str}
    (hn : n = node j) (hj : j ≠ hubName) :
    objects (saveSecAttr n a kp) n (.iri kp.2.toList) = attrObjs PyVal.truthy secConv a kp.1 := by
  unfold saveSecAttr attrObjs secConv
  cases a.lookup kp.1 with
  | none => rfl
  | some v =>
    simp only
    cases v.truthy with
    | false => rfl
    | true =>
      simp only [Bool.not_true, Bool.false_eq_true, if_false, if_true]
      split
      · exact objects_saveRepositoryNode n _ _ hn hj
      · exact objects_single _ _ _

theorem objects_saveDocAttr (n : Term) (a : Attrs) (kp : String × String) {j : Str}
    (hn : n = node j) (hj : j ≠ hubName) :
    objects (saveDocAttr n a kp) n (.iri kp.2.toList) = attrObjs PyVal.truthy docConv a kp.1 := by
  unfold saveDocAttr attrObjs docConv
  cases a.lookup kp.1 with
  | none => rfl
  | some v =>
    simp only
    cases v.truthy with
    | false => rfl
    | true =>
      simp only [Bool.not_true, Bool.false_eq_true, if_false, if_true]
      split
      · exact objects_saveRepositoryNode n _ _ hn hj
      · split <;> exact objects_single _ _ _

theorem objects_links {α} (n pred : Term) (l : List α) (idf : α → Str) :
    objects (l.map (fun c => (⟨n, pred, node (idf c)⟩ : Triple))) n pred = l.map (fun c => node (idf c)) := by
  induction l with
  | nil => rfl
  | cons c l ih => simp [objects_cons, ih]

/-- The value pairs `(1, v₁), (2, v₂), …` a value sequence must contain. -/
def pairs : Nat → List Lit → List (Option (Nat × Term))
  | _, [] => []
  | k, v :: vs => some (k, v.toTerm) :: pairs (k + 1) vs

theorem seqPairs_seqItems (seq : Term) : ∀ (k : Nat) (vs : List Lit),
    seqPairs (seqItems seq k vs) seq = pairs k vs
  | _, [] => rfl
  | k, v :: vs => by
    have ih := seqPairs_seqItems seq (k + 1) vs
    unfold seqPairs at ih ⊢
    simp [seqItems, filter_cons, liIndex_li, pairs, ih]

theorem seqPairs_saveValues (n pred : Term) (pid : Str) (vs : List Lit) (hn : ∃ j, n = node j) :
    seqPairs (saveValues n pred pid vs) (.seqn pid) = pairs 1 vs := by
  obtain ⟨j, rfl⟩ := hn
  have ih := seqPairs_seqItems (.seqn pid) 1 vs
  unfold seqPairs at ih ⊢
  simp [saveValues, filter_cons, liIndex_rdfType, node, ih]

theorem objects_saveValues (n pred : Term) (pid : Str) (vs : List Lit) (hn : ∃ j, n = node j) :
    objects (saveValues n pred pid vs) n pred = [.seqn pid] := by
  obtain ⟨j, rfl⟩ := hn
  have : objects (seqItems (.seqn pid) 1 vs) (node j) pred = [] := by
    apply objects_eq_nil
    intro t ht ⟨e, _⟩
    rw [mem_seqItems ht] at e
    simp [node] at e
  have h1 : ¬ (Term.seqn pid = node j ∧ rdfType = pred) := by simp [node]
  simp only [saveValues, objects_cons, this, h1, if_false, and_self, if_true]
  rfl

/-! ## 8. The lookups the reader performs, on the triples of the object itself -/

theorem objects_headless {t : Triple} {g : Graph} {n q : Term} (h : ¬ (t.s = n ∧ t.p = q)) :
    objects (t :: g) n q = objects g n q := by
  rw [objects_cons, if_neg h]; rfl

theorem own_prop_attr (ok : TableOK Gen.Format.propertyRdfMap) (p : PropT) (hid : p.id ≠ hubName)
    {kp : String × String} (hkp : kp ∈ Gen.Format.propertyRdfMap) (h1 : kp.1 ≠ "id")
    (h2 : kp.1 ≠ "value") :
    objects (saveProperty p) (node p.id) (.iri kp.2.toList) =
      attrObjs PyVal.isSet propConv p.attrs kp.1 := by
  unfold saveProperty
  rw [objects_headless (by intro ⟨_, e⟩; exact (ok.notMeta kp hkp).1 e.symm)]
  rw [objects_table ok.keys hkp rfl hid (fun kp' _ t ht => shape_savePropertyKey ht)]
  unfold savePropertyKey attrObjs propConv
  simp only [beq_iff_eq, h1, h2, if_false]
  cases p.attrs.lookup kp.1 with
  | none => rfl
  | some v =>
    simp only
    cases v.isSet with
    | false => rfl
    | true => exact objects_single _ _ _

theorem own_prop_value (ok : TableOK Gen.Format.propertyRdfMap) (p : PropT) (hid : p.id ≠ hubName)
    {vp : String} (hkp : ("value", vp) ∈ Gen.Format.propertyRdfMap) :
    objects (saveProperty p) (node p.id) (.iri vp.toList) =
      (if p.values.isEmpty then [] else [.seqn p.id]) := by
  unfold saveProperty
  rw [objects_headless (by intro ⟨_, e⟩; exact (ok.notMeta _ hkp).1 e.symm)]
  rw [objects_table ok.keys hkp rfl hid (fun kp' _ t ht => shape_savePropertyKey ht)]
  unfold savePropertyKey
  simp only [beq_self_eq_true, if_true]
  split
  · rfl
  · exact objects_saveValues _ _ _ _ ⟨_, rfl⟩

theorem savePropertyKey_subject {p : PropT} {kp : String × String} (h : kp.1 ≠ "value")
    {t : Triple} (ht : t ∈ savePropertyKey p kp) : t.s = node p.id := by
  unfold savePropertyKey at ht
  simp only [beq_iff_eq, h, if_false] at ht
  split at ht
  · simp at ht
  · split at ht
    · simp at ht
    · split at ht
      · simp only [mem_cons, mem_nil_iff, or_false] at ht; subst ht; rfl
      · simp at ht

theorem own_prop_seq (ok : TableOK Gen.Format.propertyRdfMap) (p : PropT)
    {vp : String} (hkp : ("value", vp) ∈ Gen.Format.propertyRdfMap) :
    seqPairs (saveProperty p) (.seqn p.id) = pairs 1 p.values := by
  unfold saveProperty
  have h0 : seqPairs ((⟨node p.id, rdfType, .iri Gen.Format.propertyRdfType.toList⟩ : Triple) ::
      Gen.Format.propertyRdfMap.flatMap (savePropertyKey p)) (.seqn p.id) =
      seqPairs (Gen.Format.propertyRdfMap.flatMap (savePropertyKey p)) (.seqn p.id) := by
    simp [seqPairs, filter_cons, node]
  rw [h0, seqPairs_flatMap, flatMap_single (·.1) ok.keys.keysNodup hkp]
  · unfold savePropertyKey
    simp only [beq_self_eq_true, if_true]
    split
    · rename_i h
      have : p.values = [] := by simpa using h
      simp [this, pairs, seqPairs]
    · exact seqPairs_saveValues _ _ _ _ ⟨_, rfl⟩
  · intro b _ hb
    apply seqPairs_eq_nil
    intro t ht e
    rw [savePropertyKey_subject hb ht] at e
    simp [node] at e

theorem typeTriples_quiet (cfg : Cfg) (n : Term) (a : Attrs) (n' q : Term)
    (h1 : q ≠ rdfType) (h2 : q ≠ rdfsSubClassOf) : objects (sectionTypeTriples cfg n a) n' q = [] := by
  apply objects_eq_nil
  intro t ht ⟨_, e⟩
  unfold sectionTypeTriples at ht
  split at ht <;> simp only [mem_cons, mem_nil_iff, or_false] at ht
  · rcases ht with rfl | rfl | rfl | rfl
    · exact h1 e.symm
    · exact h1 e.symm
    · exact h2 e.symm
    · exact h1 e.symm
  · subst ht; exact h1 e.symm

theorem own_sec_lookup (cfg : Cfg) (ok : TableOK Gen.Format.sectionRdfMap) (id : Str) (a : Attrs)
    (ps : List PropT) (ss : List SecT) (hid : id ≠ hubName)
    {kp : String × String} (hkp : kp ∈ Gen.Format.sectionRdfMap) :
    objects (ownSec cfg (.mk id a ps ss)) (node id) (.iri kp.2.toList) =
      objects (ownSecStep (node id) a ps ss kp) (node id) (.iri kp.2.toList) := by
  unfold ownSec
  rw [objects_append, typeTriples_quiet _ _ _ _ _ (ok.notMeta kp hkp).1 (ok.notMeta kp hkp).2.1,
    nil_append, objects_table ok.keys hkp rfl hid (fun kp' _ t ht => shape_ownSecStep ht)]

theorem own_sec_attr (cfg : Cfg) (ok : TableOK Gen.Format.sectionRdfMap) (id : Str) (a : Attrs)
    (ps : List PropT) (ss : List SecT) (hid : id ≠ hubName)
    {kp : String × String} (hkp : kp ∈ Gen.Format.sectionRdfMap) (h1 : kp.1 ≠ "id")
    (h2 : kp.1 ≠ "sections") (h3 : kp.1 ≠ "properties") :
    objects (ownSec cfg (.mk id a ps ss)) (node id) (.iri kp.2.toList) =
      attrObjs PyVal.truthy secConv a kp.1 := by
  rw [own_sec_lookup cfg ok id a ps ss hid hkp]
  unfold ownSecStep
  simp only [beq_iff_eq, h1, h2, h3, if_false]
  exact objects_saveSecAttr _ _ _ rfl hid

theorem own_sec_secs (cfg : Cfg) (ok : TableOK Gen.Format.sectionRdfMap) (id : Str) (a : Attrs)
    (ps : List PropT) (ss : List SecT) (hid : id ≠ hubName)
    {pred : String} (hkp : ("sections", pred) ∈ Gen.Format.sectionRdfMap) :
    objects (ownSec cfg (.mk id a ps ss)) (node id) (.iri pred.toList) = ss.map (fun c => node c.id) := by
  rw [own_sec_lookup cfg ok id a ps ss hid hkp]
  unfold ownSecStep secLink
  simp only [beq_iff_eq, if_true, show ¬ ("sections" = "id") by decide, if_false]
  exact objects_links _ _ ss (·.id)

theorem own_sec_props (cfg : Cfg) (ok : TableOK Gen.Format.sectionRdfMap) (id : Str) (a : Attrs)
    (ps : List PropT) (ss : List SecT) (hid : id ≠ hubName)
    {pred : String} (hkp : ("properties", pred) ∈ Gen.Format.sectionRdfMap) :
    objects (ownSec cfg (.mk id a ps ss)) (node id) (.iri pred.toList) = ps.map (fun c => node c.id) := by
  rw [own_sec_lookup cfg ok id a ps ss hid hkp]
  unfold ownSecStep propLink
  simp only [beq_iff_eq, if_true, show ¬ ("properties" = "id") by decide,
    show ¬ ("properties" = "sections") by decide, if_false]
  exact objects_links _ _ ps (·.id)

theorem own_doc_lookup (ok : TableOK Gen.Format.documentRdfMap) (d : DocT) (hid : d.id ≠ hubName)
    {kp : String × String} (hkp : kp ∈ Gen.Format.documentRdfMap) :
    objects (ownDoc d) (node d.id) (.iri kp.2.toList) =
      objects (ownDocStep d kp) (node d.id) (.iri kp.2.toList) := by
  unfold ownDoc docHead
  have m := ok.notMeta kp hkp
  rw [cons_append, cons_append, cons_append, nil_append,
    objects_headless (by intro ⟨_, e⟩; exact m.1 e.symm),
    objects_headless (by intro ⟨_, e⟩; exact m.2.2.1 e.symm),
    objects_headless (by intro ⟨_, e⟩; exact m.2.2.2 e.symm),
    objects_table ok.keys hkp rfl hid (fun kp' _ t ht => shape_ownDocStep ht)]

theorem own_doc_attr (ok : TableOK Gen.Format.documentRdfMap) (d : DocT) (hid : d.id ≠ hubName)
    {kp : String × String} (hkp : kp ∈ Gen.Format.documentRdfMap) (h1 : kp.1 ≠ "id")
    (h2 : kp.1 ≠ "sections") :
    objects (ownDoc d) (node d.id) (.iri kp.2.toList) = attrObjs PyVal.truthy docConv d.attrs kp.1 := by
  rw [own_doc_lookup ok d hid hkp]
  unfold ownDocStep
  simp only [beq_iff_eq, h1, h2, if_false]
  exact objects_saveDocAttr _ _ _ rfl hid

theorem own_doc_secs (ok : TableOK Gen.Format.documentRdfMap) (d : DocT) (hid : d.id ≠ hubName)
    {pred : String} (hkp : ("sections", pred) ∈ Gen.Format.documentRdfMap) :
    objects (ownDoc d) (node d.id) (.iri pred.toList) = d.secs.map (fun c => node c.id) := by
  rw [own_doc_lookup ok d hid hkp]
  unfold ownDocStep secLink
  simp only [beq_iff_eq, if_true, show ¬ ("sections" = "id") by decide, if_false]
  exact objects_links _ _ d.secs (·.id)

/-! ## 9. Triples of other objects do not interfere -/

/-- Every triple of the block belongs to the object with id `i` (or is a class triple, or hangs
    off a fresh node / the Hub). -/
def Owns (i : Str) (g : Graph) : Prop :=
  ∀ t ∈ g, t.p = rdfType ∨ t.p = rdfsSubClassOf ∨ (∃ u, t.s = .tnode u) ∨
    (t.s = hub ∧ (t.p = hasTerminology ∨ t.p = hasDocument)) ∨ t.s = node i ∨ t.s = .seqn i

theorem owns_of_shape {i : Str} {pred : Term} {t : Triple} (h : StepShape (node i) pred t)
    (hseq : ∀ u, t.s = .seqn u → u = i) :
    t.p = rdfType ∨ t.p = rdfsSubClassOf ∨ (∃ u, t.s = .tnode u) ∨
      (t.s = hub ∧ (t.p = hasTerminology ∨ t.p = hasDocument)) ∨ t.s = node i ∨ t.s = .seqn i := by
  rcases h with ⟨a, _⟩ | h | ⟨u, hu⟩ | ⟨a, b⟩
  · exact .inr (.inr (.inr (.inr (.inl a))))
  · exact .inr (.inr (.inl h))
  · have := hseq u hu; subst this; exact .inr (.inr (.inr (.inr (.inr hu))))
  · exact .inr (.inr (.inr (.inl ⟨a, .inl b⟩)))

theorem savePropertyKey_seq {p : PropT} {kp : String × String} {t : Triple}
    (ht : t ∈ savePropertyKey p kp) (u : Str) (hu : t.s = .seqn u) : u = p.id := by
  by_cases h : kp.1 = "value"
  · unfold savePropertyKey at ht
    simp only [h, beq_self_eq_true, if_true] at ht
    split at ht
    · simp at ht
    · simp only [saveValues, mem_cons] at ht
      rcases ht with rfl | rfl | ht
      · simpa using hu.symm
      · simp [node] at hu
      · have := mem_seqItems ht; rw [this] at hu; simpa using hu.symm
  · rw [savePropertyKey_subject h ht] at hu; simp [node] at hu

theorem owns_saveProperty (p : PropT) : Owns p.id (saveProperty p) := by
  intro t ht
  unfold saveProperty at ht
  simp only [mem_cons, mem_flatMap] at ht
  rcases ht with rfl | ⟨kp, _, h⟩
  · exact .inl rfl
  · exact owns_of_shape (shape_savePropertyKey h) (savePropertyKey_seq h)

theorem no_seq_of_attr {n : Term} {a : Attrs} {kp : String × String} {t : Triple} {u : Str}
    (hn : ∃ j, n = node j) :
    (t ∈ saveSecAttr n a kp ∨ t ∈ saveDocAttr n a kp) → t.s ≠ .seqn u := by
  obtain ⟨j, rfl⟩ := hn
  intro h e
  rcases h with h | h
  · unfold saveSecAttr at h
    split at h
    · simp at h
    · split at h
      · simp at h
      · split at h
        · simp only [saveRepositoryNode, mem_cons, mem_nil_iff, or_false] at h
          rcases h with rfl | rfl | rfl <;> simp [node, hub] at e
        · simp only [mem_cons, mem_nil_iff, or_false] at h; subst h; simp [node] at e
  · unfold saveDocAttr at h
    split at h
    · simp at h
    · split at h
      · simp at h
      · split at h
        · simp only [saveRepositoryNode, mem_cons, mem_nil_iff, or_false] at h
          rcases h with rfl | rfl | rfl <;> simp [node, hub] at e
        · split at h <;>
            (simp only [mem_cons, mem_nil_iff, or_false] at h; subst h; simp [node] at e)

theorem owns_ownSec (cfg : Cfg) (s : SecT) : Owns s.id (ownSec cfg s) := by
  obtain ⟨id, a, ps, ss⟩ := s
  intro t ht
  unfold ownSec at ht
  simp only [mem_append, mem_flatMap] at ht
  rcases ht with ht | ⟨kp, _, h⟩
  · unfold sectionTypeTriples at ht
    split at ht <;> simp only [mem_cons, mem_nil_iff, or_false] at ht
    · rcases ht with rfl | rfl | rfl | rfl
      · exact .inl rfl
      · exact .inl rfl
      · exact .inr (.inl rfl)
      · exact .inl rfl
    · subst ht; exact .inl rfl
  · refine owns_of_shape (shape_ownSecStep h) ?_
    intro u hu
    exfalso
    unfold ownSecStep at h
    split at h
    · simp at h
    · split at h
      · simp only [mem_map, secLink] at h; obtain ⟨c, _, rfl⟩ := h; simp [node] at hu
      · split at h
        · simp only [mem_map, propLink] at h; obtain ⟨c, _, rfl⟩ := h; simp [node] at hu
        · exact no_seq_of_attr ⟨_, rfl⟩ (.inl h) hu

theorem owns_ownDoc (d : DocT) : Owns d.id (ownDoc d) := by
  intro t ht
  unfold ownDoc docHead at ht
  simp only [mem_append, mem_cons, mem_nil_iff, or_false, mem_flatMap] at ht
  rcases ht with (rfl | rfl | rfl) | ⟨kp, _, h⟩
  · exact .inl rfl
  · exact .inr (.inr (.inr (.inl ⟨rfl, .inr rfl⟩)))
  · exact .inr (.inr (.inr (.inr (.inl rfl))))
  · refine owns_of_shape (shape_ownDocStep h) ?_
    intro u hu
    exfalso
    unfold ownDocStep at h
    split at h
    · simp at h
    · split at h
      · simp only [mem_map, secLink] at h; obtain ⟨c, _, rfl⟩ := h; simp [node] at hu
      · exact no_seq_of_attr ⟨_, rfl⟩ (.inr h) hu

/-- A predicate the reader asks for at a node: none of the bookkeeping predicates. -/
def DataPred (q : Term) : Prop :=
  q ≠ rdfType ∧ q ≠ rdfsSubClassOf

theorem owns_objects_nil {i j : Str} {g : Graph} {q : Term} (h : Owns i g) (hij : j ≠ i)
    (hj : j ≠ hubName) (hq : DataPred q) : objects g (node j) q = [] := by
  apply objects_eq_nil
  intro t ht ⟨e1, e2⟩
  rcases h t ht with a | a | ⟨u, a⟩ | ⟨a, _⟩ | a | a
  · exact hq.1 (e2.symm.trans a)
  · exact hq.2 (e2.symm.trans a)
  · rw [a] at e1; simp [node] at e1
  · rw [a, hub_eq] at e1; exact hj (node_inj e1).symm
  · rw [a] at e1; exact hij (node_inj e1).symm
  · rw [a] at e1; simp [node] at e1

theorem owns_seqPairs_nil {i j : Str} {g : Graph} (h : Owns i g) (hij : j ≠ i) :
    seqPairs g (.seqn j) = [] := by
  apply seqPairs_eq_nil
  intro t ht e
  rcases h t ht with a | a | ⟨u, a⟩ | ⟨a, _⟩ | a | a
  · rw [a]; exact liIndex_rdfType
  · rw [a]; exact liIndex_subClassOf
  · rw [a] at e; simp at e
  · rw [a] at e; simp [hub] at e
  · rw [a] at e; simp [node] at e
  · rw [a] at e; simp only [Term.seqn.injEq] at e; exact absurd e.symm hij

theorem foreign_objects_nil {α} (l : List α) (f : α → Graph) (idf : α → Str)
    (h : ∀ a ∈ l, Owns (idf a) (f a)) {j : Str} (hj : ∀ a ∈ l, j ≠ idf a) (hh : j ≠ hubName)
    {q : Term} (hq : DataPred q) : objects (l.flatMap f) (node j) q = [] := by
  rw [objects_flatMap]
  exact flatMap_none (fun a ha => owns_objects_nil (h a ha) (hj a ha) hh hq)

theorem foreign_seqPairs_nil {α} (l : List α) (f : α → Graph) (idf : α → Str)
    (h : ∀ a ∈ l, Owns (idf a) (f a)) {j : Str} (hj : ∀ a ∈ l, j ≠ idf a) :
    seqPairs (l.flatMap f) (.seqn j) = [] := by
  rw [seqPairs_flatMap]
  exact flatMap_none (fun a ha => owns_seqPairs_nil (h a ha) (hj a ha))

theorem home_objects {α} (l : List α) (f : α → Graph) (idf : α → Str)
    (h : ∀ a ∈ l, Owns (idf a) (f a)) (nd : (l.map idf).Nodup) {a : α} (ha : a ∈ l)
    (hh : idf a ≠ hubName) {q : Term} (hq : DataPred q) :
    objects (l.flatMap f) (node (idf a)) q = objects (f a) (node (idf a)) q := by
  rw [objects_flatMap]
  exact flatMap_single idf nd ha (fun b hb hne => owns_objects_nil (h b hb) (Ne.symm hne) hh hq)

theorem home_seqPairs {α} (l : List α) (f : α → Graph) (idf : α → Str)
    (h : ∀ a ∈ l, Owns (idf a) (f a)) (nd : (l.map idf).Nodup) {a : α} (ha : a ∈ l) :
    seqPairs (l.flatMap f) (.seqn (idf a)) = seqPairs (f a) (.seqn (idf a)) := by
  rw [seqPairs_flatMap]
  exact flatMap_single idf nd ha (fun b hb hne => owns_seqPairs_nil (h b hb) (Ne.symm hne))

/-! ## 10. What every lookup of the reader returns on (any permutation of) the exported graph -/

/-- Ids are unique over all Documents, Sections and Properties (and none is the word "Hub"). -/
def WFDocs (ds : List DocT) : Prop := (hubName :: allIds ds).Nodup

structure TablesOK : Prop where
  doc : TableOK Gen.Format.documentRdfMap
  sec : TableOK Gen.Format.sectionRdfMap
  prop : TableOK Gen.Format.propertyRdfMap
  docSecs : ∃ p, ("sections", p) ∈ Gen.Format.documentRdfMap
  secSecs : ∃ p, ("sections", p) ∈ Gen.Format.sectionRdfMap
  secProps : ∃ p, ("properties", p) ∈ Gen.Format.sectionRdfMap
  propValue : ∃ p, ("value", p) ∈ Gen.Format.propertyRdfMap
  docId : (Gen.Format.documentRdfMap.lookup "id").isSome
  secId : (Gen.Format.sectionRdfMap.lookup "id").isSome
  propId : (Gen.Format.propertyRdfMap.lookup "id").isSome
  propNoDate : "date" ∉ Gen.Format.propertyRdfMap.map (·.1)
  secNoDate : "date" ∉ Gen.Format.sectionRdfMap.map (·.1)
  secNoUnc : "uncertainty" ∉ Gen.Format.sectionRdfMap.map (·.1)
  docNoUnc : "uncertainty" ∉ Gen.Format.documentRdfMap.map (·.1)

theorem TablesOK.secOK (t : TablesOK) : SecTableOK := ⟨t.sec.keys, t.secSecs, t.secProps⟩
theorem TablesOK.docOK (t : TablesOK) : DocTableOK := ⟨t.doc.keys, t.docSecs⟩

/-- The answers to all graph lookups the reader makes, for the documents `ds`. -/
structure Facts (g : Graph) (ds : List DocT) : Prop where
  hubDocs : (objects g hub hasDocument).Perm (ds.map (fun d => node d.id))
  docAttr : ∀ d ∈ ds, ∀ kp ∈ Gen.Format.documentRdfMap, kp.1 ≠ "id" → kp.1 ≠ "sections" →
    (objects g (node d.id) (.iri kp.2.toList)).Perm (attrObjs PyVal.truthy docConv d.attrs kp.1)
  docKids : ∀ d ∈ ds, ∀ pred, ("sections", pred) ∈ Gen.Format.documentRdfMap →
    (objects g (node d.id) (.iri pred.toList)).Perm (d.secs.map (fun c => node c.id))
  secAttr : ∀ s ∈ docSecs ds, ∀ kp ∈ Gen.Format.sectionRdfMap, kp.1 ≠ "id" → kp.1 ≠ "sections" →
    kp.1 ≠ "properties" →
    (objects g (node s.id) (.iri kp.2.toList)).Perm (attrObjs PyVal.truthy secConv s.attrs kp.1)
  secKids : ∀ s ∈ docSecs ds, ∀ pred, ("sections", pred) ∈ Gen.Format.sectionRdfMap →
    (objects g (node s.id) (.iri pred.toList)).Perm (s.subs.map (fun c => node c.id))
  secPropKids : ∀ s ∈ docSecs ds, ∀ pred, ("properties", pred) ∈ Gen.Format.sectionRdfMap →
    (objects g (node s.id) (.iri pred.toList)).Perm (s.props.map (fun c => node c.id))
  propAttr : ∀ p ∈ docProps ds, ∀ kp ∈ Gen.Format.propertyRdfMap, kp.1 ≠ "id" → kp.1 ≠ "value" →
    (objects g (node p.id) (.iri kp.2.toList)).Perm (attrObjs PyVal.isSet propConv p.attrs kp.1)
  propValue : ∀ p ∈ docProps ds, ∀ pred, ("value", pred) ∈ Gen.Format.propertyRdfMap →
    (objects g (node p.id) (.iri pred.toList)).Perm (if p.values.isEmpty then [] else [.seqn p.id])
  propSeq : ∀ p ∈ docProps ds, (seqPairs g (.seqn p.id)).Perm (pairs 1 p.values)

/-- The facts do not depend on the order of the triple list. -/
theorem Facts.perm {g g' : Graph} {ds : List DocT} (f : Facts g ds) (h : g'.Perm g) : Facts g' ds where
  hubDocs := (objects_perm h _ _).trans f.hubDocs
  docAttr := fun d hd kp hk a b => (objects_perm h _ _).trans (f.docAttr d hd kp hk a b)
  docKids := fun d hd p hp => (objects_perm h _ _).trans (f.docKids d hd p hp)
  secAttr := fun s hs kp hk a b c => (objects_perm h _ _).trans (f.secAttr s hs kp hk a b c)
  secKids := fun s hs p hp => (objects_perm h _ _).trans (f.secKids s hs p hp)
  secPropKids := fun s hs p hp => (objects_perm h _ _).trans (f.secPropKids s hs p hp)
  propAttr := fun p hp kp hk a b => (objects_perm h _ _).trans (f.propAttr p hp kp hk a b)
  propValue := fun p hp q hq => (objects_perm h _ _).trans (f.propValue p hp q hq)
  propSeq := fun p hp => (seqPairs_perm h _).trans (f.propSeq p hp)

theorem flatMap_flatMap' {α β γ} (l : List α) (f : α → List β) (g : β → List γ) :
    l.flatMap (fun a => (f a).flatMap g) = (l.flatMap f).flatMap g := by
  induction l with
  | nil => rfl
  | cons a l ih => simp [flatMap_cons, flatMap_append, ih]

theorem flatGraph_eq (cfg : Cfg) (ds : List DocT) :
    flatGraph cfg ds = ds.flatMap ownDoc ++ ((docSecs ds).flatMap (ownSec cfg) ++
      (docProps ds).flatMap saveProperty) := by
  unfold flatGraph flatSecs docProps
  rw [flatMap_flatMap']

theorem dataPred_of {tbl : List (String × String)} (ok : TableOK tbl) {kp : String × String}
    (h : kp ∈ tbl) : DataPred (.iri kp.2.toList) := ⟨(ok.notMeta kp h).1, (ok.notMeta kp h).2.1⟩

section wf
variable {ds : List DocT} (wf : WFDocs ds)
include wf

theorem wf_doc_ne_hub {d : DocT} (hd : d ∈ ds) : d.id ≠ hubName := by
  have := (nodup_cons.mp wf).1
  intro e; apply this; rw [← e]; simp [allIds]; exact .inl ⟨d, hd, rfl⟩
theorem wf_sec_ne_hub {s : SecT} (hs : s ∈ docSecs ds) : s.id ≠ hubName := by
  have := (nodup_cons.mp wf).1
  intro e; apply this; rw [← e]; simp [allIds]; exact .inr (.inl ⟨s, hs, rfl⟩)
theorem wf_prop_ne_hub {p : PropT} (hp : p ∈ docProps ds) : p.id ≠ hubName := by
  have := (nodup_cons.mp wf).1
  intro e; apply this; rw [← e]; simp [allIds]; exact .inr (.inr ⟨p, hp, rfl⟩)
theorem wf_docs_nodup : (ds.map (·.id)).Nodup :=
  (nodup_append.mp (nodup_cons.mp wf).2).1
theorem wf_secs_nodup : ((docSecs ds).map (·.id)).Nodup :=
  (nodup_append.mp (nodup_append.mp (nodup_cons.mp wf).2).2.1).1
theorem wf_props_nodup : ((docProps ds).map (·.id)).Nodup :=
  (nodup_append.mp (nodup_append.mp (nodup_cons.mp wf).2).2.1).2.1
theorem wf_doc_sec {d : DocT} (hd : d ∈ ds) {s : SecT} (hs : s ∈ docSecs ds) : d.id ≠ s.id :=
  (nodup_append.mp (nodup_cons.mp wf).2).2.2 d.id (mem_map_of_mem hd) s.id
    (mem_append_left _ (mem_map_of_mem hs))
theorem wf_doc_prop {d : DocT} (hd : d ∈ ds) {p : PropT} (hp : p ∈ docProps ds) : d.id ≠ p.id :=
  (nodup_append.mp (nodup_cons.mp wf).2).2.2 d.id (mem_map_of_mem hd) p.id
    (mem_append_right _ (mem_map_of_mem hp))
theorem wf_sec_prop {s : SecT} (hs : s ∈ docSecs ds) {p : PropT} (hp : p ∈ docProps ds) : s.id ≠ p.id :=
  (nodup_append.mp (nodup_append.mp (nodup_cons.mp wf).2).2.1).2.2 s.id (mem_map_of_mem hs) p.id
    (mem_map_of_mem hp)

end wf

theorem rdfType_ne_hasDocument : rdfType ≠ hasDocument := by decide
theorem hasFileName_ne_hasDocument : hasFileName ≠ hasDocument := by decide

theorem shape_not_hubdoc {n pred : Term} {t : Triple} (h : StepShape n pred t)
    (hp : pred ≠ hasDocument) : ¬ (t.s = hub ∧ t.p = hasDocument) := by
  intro ⟨e1, e2⟩
  rcases h with ⟨_, b⟩ | ⟨u, a⟩ | ⟨u, a⟩ | ⟨_, b⟩
  · exact hp (b.symm.trans e2)
  · rw [a] at e1; simp [hub] at e1
  · rw [a] at e1; simp [hub] at e1
  · rw [b] at e2; revert e2; decide

theorem hubdoc_ownSec (cfg : Cfg) (ok : TableOK Gen.Format.sectionRdfMap) (s : SecT) :
    objects (ownSec cfg s) hub hasDocument = [] := by
  obtain ⟨id, a, ps, ss⟩ := s
  unfold ownSec
  rw [objects_append, typeTriples_quiet _ _ _ _ _ (by decide) (by decide), nil_append]
  apply objects_eq_nil
  intro t ht
  simp only [mem_flatMap] at ht
  obtain ⟨kp, hkp, h⟩ := ht
  exact shape_not_hubdoc (shape_ownSecStep h) (ok.notMeta kp hkp).2.2.1

theorem hubdoc_saveProperty (ok : TableOK Gen.Format.propertyRdfMap) (p : PropT) :
    objects (saveProperty p) hub hasDocument = [] := by
  unfold saveProperty
  rw [objects_headless (by intro ⟨_, e⟩; exact rdfType_ne_hasDocument e)]
  apply objects_eq_nil
  intro t ht
  simp only [mem_flatMap] at ht
  obtain ⟨kp, hkp, h⟩ := ht
  exact shape_not_hubdoc (shape_savePropertyKey h) (ok.notMeta kp hkp).2.2.1

theorem hubdoc_ownDoc (ok : TableOK Gen.Format.documentRdfMap) (d : DocT) (hid : d.id ≠ hubName) :
    objects (ownDoc d) hub hasDocument = [node d.id] := by
  unfold ownDoc docHead
  have h0 : objects (Gen.Format.documentRdfMap.flatMap (ownDocStep d)) hub hasDocument = [] := by
    apply objects_eq_nil
    intro t ht
    simp only [mem_flatMap] at ht
    obtain ⟨kp, hkp, h⟩ := ht
    exact shape_not_hubdoc (shape_ownDocStep h) (ok.notMeta kp hkp).2.2.1
  rw [cons_append, cons_append, cons_append, nil_append,
    objects_headless (by intro ⟨_, e⟩; exact rdfType_ne_hasDocument e),
    objects_cons, if_pos ⟨rfl, rfl⟩,
    objects_headless (by intro ⟨_, e⟩; exact hasFileName_ne_hasDocument e), h0]
  rfl

section flat
variable (cfg : Cfg) {ds : List DocT} (wf : WFDocs ds)
include wf

theorem flat_at_doc {d : DocT} (hd : d ∈ ds) {q : Term} (hq : DataPred q) :
    objects (flatGraph cfg ds) (node d.id) q = objects (ownDoc d) (node d.id) q := by
  rw [flatGraph_eq, objects_append, objects_append,
    home_objects ds ownDoc (·.id) (fun a _ => owns_ownDoc a) (wf_docs_nodup wf) hd (wf_doc_ne_hub wf hd) hq,
    foreign_objects_nil (docSecs ds) (ownSec cfg) (·.id) (fun a _ => owns_ownSec cfg a)
      (fun s hs => wf_doc_sec wf hd hs) (wf_doc_ne_hub wf hd) hq,
    foreign_objects_nil (docProps ds) saveProperty (·.id) (fun a _ => owns_saveProperty a)
      (fun p hp => wf_doc_prop wf hd hp) (wf_doc_ne_hub wf hd) hq]
  simp

theorem flat_at_sec {s : SecT} (hs : s ∈ docSecs ds) {q : Term} (hq : DataPred q) :
    objects (flatGraph cfg ds) (node s.id) q = objects (ownSec cfg s) (node s.id) q := by
  rw [flatGraph_eq, objects_append, objects_append,
    home_objects (docSecs ds) (ownSec cfg) (·.id) (fun a _ => owns_ownSec cfg a) (wf_secs_nodup wf) hs
      (wf_sec_ne_hub wf hs) hq,
    foreign_objects_nil ds ownDoc (·.id) (fun a _ => owns_ownDoc a)
      (fun d hd => (wf_doc_sec wf hd hs).symm) (wf_sec_ne_hub wf hs) hq,
    foreign_objects_nil (docProps ds) saveProperty (·.id) (fun a _ => owns_saveProperty a)
      (fun p hp => wf_sec_prop wf hs hp) (wf_sec_ne_hub wf hs) hq]
  simp

theorem flat_at_prop {p : PropT} (hp : p ∈ docProps ds) {q : Term} (hq : DataPred q) :
    objects (flatGraph cfg ds) (node p.id) q = objects (saveProperty p) (node p.id) q := by
  rw [flatGraph_eq, objects_append, objects_append,
    home_objects (docProps ds) saveProperty (·.id) (fun a _ => owns_saveProperty a) (wf_props_nodup wf) hp
      (wf_prop_ne_hub wf hp) hq,
    foreign_objects_nil ds ownDoc (·.id) (fun a _ => owns_ownDoc a)
      (fun d hd => (wf_doc_prop wf hd hp).symm) (wf_prop_ne_hub wf hp) hq,
    foreign_objects_nil (docSecs ds) (ownSec cfg) (·.id) (fun a _ => owns_ownSec cfg a)
      (fun s hs => (wf_sec_prop wf hs hp).symm) (wf_prop_ne_hub wf hp) hq]
  simp

theorem flat_seq_at_prop {p : PropT} (hp : p ∈ docProps ds) :
    seqPairs (flatGraph cfg ds) (.seqn p.id) = seqPairs (saveProperty p) (.seqn p.id) := by
  rw [flatGraph_eq, seqPairs_append, seqPairs_append,
    home_seqPairs (docProps ds) saveProperty (·.id) (fun a _ => owns_saveProperty a) (wf_props_nodup wf) hp,
    foreign_seqPairs_nil ds ownDoc (·.id) (fun a _ => owns_ownDoc a)
      (fun d hd => (wf_doc_prop wf hd hp).symm),
    foreign_seqPairs_nil (docSecs ds) (ownSec cfg) (·.id) (fun a _ => owns_ownSec cfg a)
      (fun s hs => (wf_sec_prop wf hs hp).symm)]
  simp

theorem flat_hub (ok : TablesOK) :
    objects (flatGraph cfg ds) hub hasDocument = ds.map (fun d => node d.id) := by
  rw [flatGraph_eq, objects_append, objects_append, objects_flatMap, objects_flatMap, objects_flatMap,
    flatMap_none (fun s _ => hubdoc_ownSec cfg ok.sec s),
    flatMap_none (fun p _ => hubdoc_saveProperty ok.prop p)]
  simp only [append_nil]
  have : ∀ l : List DocT, (∀ d ∈ l, d ∈ ds) →
      l.flatMap (fun d => objects (ownDoc d) hub hasDocument) = l.map (fun d => node d.id) := by
    intro l
    induction l with
    | nil => intro _; rfl
    | cons d l ih =>
      intro h
      rw [flatMap_cons, hubdoc_ownDoc ok.doc d (wf_doc_ne_hub wf (h d (by simp))),
        ih (fun e he => h e (by simp [he]))]
      rfl
  exact this ds (fun _ h => h)

/-- All reader lookups on the flat graph. -/
theorem facts_flat (ok : TablesOK) : Facts (flatGraph cfg ds) ds where
  hubDocs := by rw [flat_hub cfg wf ok]
  docAttr := fun d hd kp hk a b => by
    rw [flat_at_doc cfg wf hd (dataPred_of ok.doc hk), own_doc_attr ok.doc d (wf_doc_ne_hub wf hd) hk a b]
  docKids := fun d hd p hp => by
    rw [flat_at_doc cfg wf hd (dataPred_of ok.doc hp), own_doc_secs ok.doc d (wf_doc_ne_hub wf hd) hp]
  secAttr := fun s hs kp hk a b c => by
    obtain ⟨id, at', ps, ss⟩ := s
    rw [flat_at_sec cfg wf hs (dataPred_of ok.sec hk)]
    exact (own_sec_attr cfg ok.sec id at' ps ss (wf_sec_ne_hub wf hs) hk a b c) ▸ Perm.refl _
  secKids := fun s hs p hp => by
    obtain ⟨id, at', ps, ss⟩ := s
    rw [flat_at_sec cfg wf hs (dataPred_of ok.sec hp)]
    exact (own_sec_secs cfg ok.sec id at' ps ss (wf_sec_ne_hub wf hs) hp) ▸ Perm.refl _
  secPropKids := fun s hs p hp => by
    obtain ⟨id, at', ps, ss⟩ := s
    rw [flat_at_sec cfg wf hs (dataPred_of ok.sec hp)]
    exact (own_sec_props cfg ok.sec id at' ps ss (wf_sec_ne_hub wf hs) hp) ▸ Perm.refl _
  propAttr := fun p hp kp hk a b => by
    rw [flat_at_prop cfg wf hp (dataPred_of ok.prop hk), own_prop_attr ok.prop p (wf_prop_ne_hub wf hp) hk a b]
  propValue := fun p hp q hq => by
    rw [flat_at_prop cfg wf hp (dataPred_of ok.prop hq), own_prop_value ok.prop p (wf_prop_ne_hub wf hp) hq]
  propSeq := fun p hp => by
    obtain ⟨vp, hv⟩ := ok.propValue
    rw [flat_seq_at_prop cfg wf hp, own_prop_seq ok.prop p hv]

/-- All reader lookups on any permutation of the exported graph. -/
theorem facts_export (ok : TablesOK) {g : Graph} (h : g.Perm (exportRdf cfg ds)) : Facts g ds :=
  (facts_flat cfg wf ok).perm (h.trans (export_flat cfg ok.secOK ok.docOK ds))

end flat

/-! ## 11. Equality of documents up to the order of siblings; what can be represented -/

/-- Comparison of one attribute.  `strict`: equal Python values.  Otherwise the uncertainty is
    compared as text only (`0.5` vs `'0.5'`). -/
def valEq (strict : Bool) (k : String) (a b : Option PyVal) : Prop :=
  if !strict && k == "uncertainty" then a.map PyVal.lex = b.map PyVal.lex else a = b

def attrsEq (strict : Bool) (a b : Attrs) : Prop :=
  ∀ k ∈ cmpKeys, valEq strict k (a.lookup k) (b.lookup k)

def propEquiv (strict : Bool) (p q : PropT) : Prop :=
  p.id = q.id ∧ attrsEq strict p.attrs q.attrs ∧ p.values = q.values

mutual
/-- Same id, same attributes, same values in order, children equal as multisets. -/
def secEquiv (strict : Bool) : SecT → SecT → Prop
  | .mk id a ps ss, t =>
    id = t.id ∧ attrsEq strict a t.attrs ∧
    (∃ mid, t.props.Perm mid ∧ All2 (propEquiv strict) ps mid) ∧
    (∃ mid, t.subs.Perm mid ∧ secsEquiv strict ss mid)
def secsEquiv (strict : Bool) : List SecT → List SecT → Prop
  | [], [] => True
  | s :: r, t :: u => secEquiv strict s t ∧ secsEquiv strict r u
  | [], _ :: _ => False
  | _ :: _, [] => False
end

def docEquiv (strict : Bool) (d e : DocT) : Prop :=
  d.id = e.id ∧ attrsEq strict d.attrs e.attrs ∧ ∃ mid, e.secs.Perm mid ∧ secsEquiv strict d.secs mid

/-- One imported document per exported document, in any order. -/
def docsEquiv (strict : Bool) (ds es : List DocT) : Prop :=
  ∃ mid, es.Perm mid ∧ All2 (docEquiv strict) ds mid

/-- The attribute dictionary only has keys of the RDF map, with representable values. -/
def AttrsRepr (tbl : List (String × String)) (a : Attrs) : Prop :=
  ∀ k v, a.lookup k = some v →
    k ∈ (plainKeys tbl).map (·.1) ∧ (k ∈ cmpKeys → reprVal k v = true)

theorem perm_small {α} {l m : List α} (h : l.Perm m) (hm : m.length ≤ 1) : l = m := by
  match m, hm with
  | [], _ => exact perm_nil.mp h
  | [a], _ => exact perm_singleton.mp h

theorem attrObjs_small (chk : PyVal → Bool) (conv : String → PyVal → Term) (a : Attrs) (k : String) :
    (attrObjs chk conv a k).length ≤ 1 := by
  unfold attrObjs
  split
  · split <;> simp
  · simp

theorem lookup_filterMap_mem {F : String × String → Option PyVal} :
    ∀ (l : List (String × String)), (l.map (·.1)).Nodup → ∀ kp ∈ l,
      (l.filterMap (fun kp => (F kp).map (fun v => (kp.1, v)))).lookup kp.1 = F kp
  | [], _, _, h => by simp at h
  | x :: l, nd, kp, h => by
    simp only [map_cons, nodup_cons] at nd
    simp only [mem_cons] at h
    rcases h with rfl | h
    · cases hF : F kp with
      | some v => simp [filterMap_cons, hF, List.lookup]
      | none =>
        simp only [filterMap_cons, hF, Option.map_none]
        -- the key does not occur further on
        have : ∀ (l' : List (String × String)), kp.1 ∉ l'.map (·.1) →
            (l'.filterMap (fun kp => (F kp).map (fun v => (kp.1, v)))).lookup kp.1 = none := by
          intro l'
          induction l' with
          | nil => intro _; rfl
          | cons y l' ih =>
            intro hn
            simp only [map_cons, mem_cons, not_or] at hn
            cases hy : F y with
            | none => simpa [filterMap_cons, hy] using ih hn.2
            | some w =>
              have : (kp.1 == y.1) = false := by simpa using hn.1
              simpa [filterMap_cons, hy, List.lookup, this] using ih hn.2
        exact this l nd.1
    · have hne : kp.1 ≠ x.1 := by
        intro e; exact nd.1 (e ▸ mem_map_of_mem h)
      have ih := lookup_filterMap_mem (F := F) l nd.2 kp h
      cases hx : F x with
      | none => simpa [filterMap_cons, hx] using ih
      | some w =>
        have : (kp.1 == x.1) = false := by simpa using hne
        simpa [filterMap_cons, hx, List.lookup, this] using ih

theorem lookup_filterMap_not_mem {F : String × String → Option PyVal} {k : String} :
    ∀ (l : List (String × String)), k ∉ l.map (·.1) →
      (l.filterMap (fun kp => (F kp).map (fun v => (kp.1, v)))).lookup k = none
  | [], _ => rfl
  | y :: l, hn => by
    simp only [map_cons, mem_cons, not_or] at hn
    have ih := lookup_filterMap_not_mem (F := F) l hn.2
    cases hy : F y with
    | none => simpa [filterMap_cons, hy] using ih
    | some w =>
      have : (k == y.1) = false := by simpa using hn.1
      simpa [filterMap_cons, hy, List.lookup, this] using ih

/-- `readAttrs` written with an `Option`-valued function. -/
theorem readAttrs_eq (g : Graph) (uri : Term) (tbl : List (String × String)) :
    readAttrs g uri tbl = (plainKeys tbl).filterMap (fun kp =>
      ((objects g uri (.iri kp.2.toList)).head?.map (importAttr kp.1)).map (fun v => (kp.1, v))) := by
  unfold readAttrs
  congr 1
  funext kp
  cases objects g uri (.iri kp.2.toList) <;> rfl

theorem plainKeys_nodup {tbl : List (String × String)} (ok : KeysOK tbl) :
    ((plainKeys tbl).map (·.1)).Nodup :=
  ok.keysNodup.sublist ((filter_sublist).map _)

theorem readAttrs_equiv {tbl : List (String × String)} (ok : KeysOK tbl) (chk : PyVal → Bool)
    (conv : String → PyVal → Term) (g : Graph) (uri : Term) (a : Attrs)
    (facts : ∀ kp ∈ plainKeys tbl, (objects g uri (.iri kp.2.toList)).Perm (attrObjs chk conv a kp.1))
    (repr : AttrsRepr tbl a)
    (hconv : ∀ k v, k ∈ tbl.map (·.1) → k ∈ cmpKeys → reprVal k v = true →
      chk v = true ∧ valEq false k (some v) (some (importAttr k (conv k v)))) :
    attrsEq false a (readAttrs g uri tbl) := by
  intro k hk
  rw [readAttrs_eq]
  by_cases hmem : k ∈ (plainKeys tbl).map (·.1)
  · obtain ⟨kp, hkp, rfl⟩ := mem_map.mp hmem
    rw [lookup_filterMap_mem _ (plainKeys_nodup ok) kp hkp]
    rw [perm_small (facts kp hkp) (attrObjs_small _ _ _ _)]
    unfold attrObjs
    cases hl : a.lookup kp.1 with
    | none => simp [valEq]
    | some v =>
      have hr := (repr kp.1 v hl).2 hk
      obtain ⟨c1, c2⟩ := hconv kp.1 v (mem_map_of_mem (mem_filter.mp hkp).1) hk hr
      simp only [c1, if_true, head?_cons, Option.map_some]
      exact c2
  · rw [lookup_filterMap_not_mem _ hmem]
    cases hl : a.lookup k with
    | none => simp [valEq]
    | some v => exact absurd (repr k v hl).1 hmem

theorem pyStrOf_typed (s dt : Str) (h : (dt == xsdBoolean) = false) : pyStrOf (.lit s dt) = s := by
  unfold pyStrOf
  simp only [h, Bool.false_eq_true, if_false]

theorem plain_ne_boolean : (([] : Str) == xsdBoolean) = false := by decide
theorem double_ne_boolean : (xsdDouble == xsdBoolean) = false := by decide
theorem date_ne_boolean : (xsdDate == xsdBoolean) = false := by decide

theorem pyStrOf_plain (s : Str) : pyStrOf (.lit s []) = s := pyStrOf_typed s [] plain_ne_boolean

theorem ne_repository {k : String} (hk : k ∈ cmpKeys) : (k == "repository") = false := by
  simp only [cmpKeys, mem_cons, mem_nil_iff, or_false] at hk
  rcases hk with rfl | rfl | rfl | rfl | rfl | rfl | rfl | rfl | rfl | rfl | rfl <;> decide

theorem hconv_prop (k : String) (v : PyVal) (hk : k ∈ cmpKeys) (hr : reprVal k v = true)
    (hd : k ≠ "date") :
    PyVal.isSet v = true ∧ valEq false k (some v) (some (importAttr k (propConv k v))) := by
  have hd' : (k == "date") = false := by simpa using hd
  cases v with
  | str s =>
    simp only [reprVal, Bool.and_eq_true, Bool.not_eq_true'] at hr
    refine ⟨by simpa [PyVal.isSet] using hr.1, ?_⟩
    simp only [propConv, PyVal.toLit, importAttr, hd', pyStrOf_plain]
    unfold valEq; split <;> rfl
  | float r =>
    simp only [reprVal, beq_iff_eq] at hr
    subst hr
    refine ⟨rfl, ?_⟩
    simp [valEq, propConv, PyVal.toLit, importAttr, PyVal.lex, pyStrOf_typed _ _ double_ne_boolean]
  | date d => simp [reprVal, hd'] at hr
  | int i => simp [reprVal] at hr

theorem hconv_sec (k : String) (v : PyVal) (hk : k ∈ cmpKeys) (hr : reprVal k v = true)
    (hd : k ≠ "date") (hu : k ≠ "uncertainty") :
    PyVal.truthy v = true ∧ valEq false k (some v) (some (importAttr k (secConv k v))) := by
  have hd' : (k == "date") = false := by simpa using hd
  cases v with
  | str s =>
    simp only [reprVal, Bool.and_eq_true, Bool.not_eq_true'] at hr
    refine ⟨by simpa [PyVal.truthy] using hr.1, ?_⟩
    simp only [secConv, ne_repository hk, PyVal.toLit, importAttr, hd', pyStrOf_plain]
    unfold valEq; split <;> rfl
  | float r => simp [reprVal, hu] at hr
  | date d => simp [reprVal, hd'] at hr
  | int i => simp [reprVal] at hr

theorem hconv_doc (k : String) (v : PyVal) (hk : k ∈ cmpKeys) (hr : reprVal k v = true)
    (hu : k ≠ "uncertainty") :
    PyVal.truthy v = true ∧ valEq false k (some v) (some (importAttr k (docConv k v))) := by
  have hu' : (k == "uncertainty") = false := by simpa using hu
  cases v with
  | str s =>
    simp only [reprVal, Bool.and_eq_true, Bool.not_eq_true', bne_iff_ne, ne_eq] at hr
    have hd' : (k == "date") = false := by simpa using hr.2
    refine ⟨by simpa [PyVal.truthy] using hr.1, ?_⟩
    simp only [docConv, ne_repository hk, PyVal.toLit, importAttr, hd', pyStrOf_plain]
    simp [valEq, hu', pyStrOf_plain]
  | float r => simp [reprVal, hu] at hr
  | date d =>
    simp only [reprVal, beq_iff_eq] at hr
    subst hr
    refine ⟨rfl, ?_⟩
    simp [valEq, docConv, PyVal.toDateLit, importAttr, pyStrOf_typed _ _ date_ne_boolean]
  | int i => simp [reprVal] at hr

/-! ## 12. The reader on a graph with the expected lookups -/

theorem lookup_of_mem {k v : String} : ∀ {tbl : List (String × String)},
    (tbl.map (·.1)).Nodup → (k, v) ∈ tbl → tbl.lookup k = some v
  | [], _, h => by simp at h
  | x :: l, nd, h => by
    simp only [map_cons, nodup_cons] at nd
    simp only [mem_cons] at h
    rcases h with rfl | h
    · simp [List.lookup]
    · have hne : (k == x.1) = false := by
        have : k ≠ x.1 := fun e => nd.1 (e ▸ mem_map_of_mem (f := (·.1)) h)
        simpa using this
      obtain ⟨x1, x2⟩ := x
      simp only at hne
      simp [List.lookup, hne, lookup_of_mem nd.2 h]

theorem readId_node (id : Str) {tbl : List (String × String)} (h : (tbl.lookup "id").isSome) :
    readId (node id) tbl = .ok id := by
  unfold readId
  cases hl : tbl.lookup "id" with
  | none => simp [hl] at h
  | some p => simp [node, afterHash_ns]

/-- `(k, v₁), (k+1, v₂), …` -/
def enum : Nat → List Lit → List (Nat × Term)
  | _, [] => []
  | k, v :: vs => (k, v.toTerm) :: enum (k + 1) vs

theorem pairs_eq (k : Nat) (vs : List Lit) : pairs k vs = (enum k vs).map some := by
  induction vs generalizing k with
  | nil => rfl
  | cons v vs ih => simp [pairs, enum, ih]

theorem enum_lb : ∀ (k : Nat) (vs : List Lit), ∀ x ∈ enum k vs, k ≤ x.1
  | _, [], _, h => by simp [enum] at h
  | k, v :: vs, x, h => by
    simp only [enum, mem_cons] at h
    rcases h with rfl | h
    · exact Nat.le_refl _
    · exact Nat.le_of_succ_le (enum_lb (k + 1) vs x h)

theorem enum_sorted : ∀ (k : Nat) (vs : List Lit), (enum k vs).Pairwise (fun a b => a.1 < b.1)
  | _, [] => Pairwise.nil
  | k, v :: vs => by
    simp only [enum, pairwise_cons]
    exact ⟨fun x hx => enum_lb (k + 1) vs x hx, enum_sorted (k + 1) vs⟩

theorem enum_snd (k : Nat) (vs : List Lit) : (enum k vs).map (·.2) = vs.map Lit.toTerm := by
  induction vs generalizing k with
  | nil => rfl
  | cons v vs ih => simp [enum, ih]

theorem allSome_map_some {α} (m : List α) : allSome (m.map some) = some m := by
  induction m with
  | nil => rfl
  | cons a m ih => simp [allSome, ih]

theorem eq_map_some_of_perm {α} {l : List (Option α)} {m : List α} (h : l.Perm (m.map some)) :
    l = (l.filterMap id).map some ∧ (l.filterMap id).Perm m := by
  constructor
  · have : ∀ x ∈ l, ∃ a, x = some a := by
      intro x hx
      have := (h.mem_iff).mp hx
      simp only [mem_map] at this
      obtain ⟨a, _, e⟩ := this
      exact ⟨a, e.symm⟩
    clear h
    induction l with
    | nil => rfl
    | cons x l ih =>
      obtain ⟨a, rfl⟩ := this x (by simp)
      simp only [filterMap_cons, id, map_cons]
      congr 1
      exact ih (fun y hy => this y (by simp [hy]))
  · have := h.filterMap id
    simpa [filterMap_map] using this

/-- Sorting a permutation of a strictly increasing list gives that list. -/
theorem sort_unique {ps m : List (Nat × Term)} (h : ps.Perm m)
    (sorted : m.Pairwise (fun a b => a.1 < b.1)) : ps.mergeSort leIdx = m := by
  have hs : (ps.mergeSort leIdx).Pairwise (fun a b => leIdx a b = true) :=
    pairwise_mergeSort (le := leIdx)
      (fun a b c h1 h2 => by simp only [leIdx, decide_eq_true_eq] at *; omega)
      (fun a b => by simp only [leIdx, Bool.or_eq_true, decide_eq_true_eq]; omega) ps
  have hm : m.Pairwise (fun a b => leIdx a b = true) :=
    sorted.imp (fun h => by simp only [leIdx, decide_eq_true_eq]; omega)
  have hp : (ps.mergeSort leIdx).Perm m := (mergeSort_perm ps leIdx).trans h
  refine Perm.eq_of_pairwise ?_ hs hm hp
  intro a b ha hb h1 h2
  simp only [leIdx, decide_eq_true_eq] at h1 h2
  have e : a.1 = b.1 := by omega
  have ha' : a ∈ m := hp.mem_iff.mp ha
  -- two members of a strictly increasing list with the same key are the same
  have : ∀ (l : List (Nat × Term)), l.Pairwise (fun a b => a.1 < b.1) → a ∈ l → b ∈ l → a = b := by
    intro l hl
    induction hl with
    | nil => intro h; simp at h
    | cons hx _ ih =>
      rename_i x l'
      intro h1 h2
      simp only [mem_cons] at h1 h2
      rcases h1 with rfl | h1 <;> rcases h2 with rfl | h2
      · rfl
      · have := hx b h2; omega
      · have := hx a h1; omega
      · exact ih h1 h2
  exact this m sorted ha' hb

theorem termToLit_toTerm (v : Lit) : termToLit v.toTerm = v := rfl

theorem readSeq_ok {g : Graph} {seq : Term} {vs : List Lit} (h : (seqPairs g seq).Perm (pairs 1 vs)) :
    ∃ ts, readSeq g seq = .ok ts ∧ ts.map termToLit = vs := by
  rw [pairs_eq] at h
  obtain ⟨e1, e2⟩ := eq_map_some_of_perm h
  unfold readSeq
  rw [e1, allSome_map_some]
  refine ⟨_, rfl, ?_⟩
  rw [sort_unique e2 (enum_sorted 1 vs), enum_snd, map_map]
  simp [Function.comp_def, termToLit_toTerm]

/-- What a Property must satisfy to survive the RDF route. -/
def PropRepr (p : PropT) : Prop :=
  AttrsRepr Gen.Format.propertyRdfMap p.attrs ∧ (p.attrs.lookup "name").isSome

theorem hasName_of_equiv {a b : Attrs} (h : attrsEq false a b) (hn : (a.lookup "name").isSome) :
    hasName b = true := by
  have := h "name" (by decide)
  simp only [valEq, Bool.not_false, Bool.true_and, show ("name" == "uncertainty") = false by decide,
    Bool.false_eq_true, if_false] at this
  rw [hasName, ← this]; exact hn

theorem mem_plainKeys {tbl : List (String × String)} {kp : String × String} (h : kp ∈ plainKeys tbl) :
    kp ∈ tbl ∧ kp.1 ≠ "id" ∧ kp.1 ≠ "sections" ∧ kp.1 ≠ "properties" ∧ kp.1 ≠ "value" := by
  simp only [plainKeys, mem_filter, Bool.not_eq_true', Bool.or_eq_false_iff, beq_eq_false_iff_ne] at h
  exact ⟨h.1, h.2.1.1.1, h.2.1.1.2, h.2.1.2, h.2.2⟩

theorem parseProperty_ok (ok : TablesOK) {g : Graph} {ds : List DocT} (f : Facts g ds) {p : PropT}
    (hp : p ∈ docProps ds) (r : PropRepr p) :
    ∃ q, parseProperty g (node p.id) = .ok q ∧ propEquiv false p q := by
  obtain ⟨vp, hv⟩ := ok.propValue
  have hattr : attrsEq false p.attrs (readAttrs g (node p.id) Gen.Format.propertyRdfMap) := by
    apply readAttrs_equiv ok.prop.keys PyVal.isSet propConv g _ p.attrs
    · intro kp hkp
      obtain ⟨m1, m2, _, _, m5⟩ := mem_plainKeys hkp
      exact f.propAttr p hp kp m1 m2 m5
    · exact r.1
    · intro k v hmem hk hr
      exact hconv_prop k v hk hr (fun e => ok.propNoDate (e ▸ hmem))
  have hname := hasName_of_equiv hattr r.2
  unfold parseProperty
  rw [readId_node _ ok.propId]
  simp only [childObjects, lookup_of_mem ok.prop.keys.keysNodup hv]
  have hval := f.propValue p hp vp hv
  by_cases he : p.values = []
  · simp only [he, isEmpty_nil, if_true] at hval
    rw [perm_nil.mp hval]
    simp only [hname, if_true]
    exact ⟨_, rfl, rfl, hattr, he⟩
  · have : p.values.isEmpty = false := by simpa using he
    simp only [this, Bool.false_eq_true, if_false] at hval
    rw [perm_singleton.mp hval]
    obtain ⟨ts, e1, e2⟩ := readSeq_ok (f.propSeq p hp)
    simp only [e1, hname, if_true]
    exact ⟨_, rfl, rfl, hattr, e2.symm⟩

mutual
/-- Nesting depth of a Section. -/
def depth : SecT → Nat
  | .mk _ _ _ ss => depthL ss + 1
def depthL : List SecT → Nat
  | [] => 0
  | s :: r => max (depth s) (depthL r)
end

/-- What a Section must satisfy to survive the RDF route. -/
def SecRepr (s : SecT) : Prop :=
  AttrsRepr Gen.Format.sectionRdfMap s.attrs ∧ (s.attrs.lookup "name").isSome ∧
    (s.attrs.lookup "type").isSome

def Good (ds : List DocT) (x : SecT) : Prop :=
  x ∈ docSecs ds ∧ SecRepr x ∧ ∀ p ∈ x.props, PropRepr p

theorem withDefaultType_id {a b : Attrs} (h : attrsEq false a b) (ht : (a.lookup "type").isSome) :
    withDefaultType b = b := by
  have := h "type" (by decide)
  simp only [valEq, Bool.not_false, Bool.true_and, show ("type" == "uncertainty") = false by decide,
    Bool.false_eq_true, if_false] at this
  unfold withDefaultType
  rw [← this, if_pos ht]

theorem mem_allSecs_self (s : SecT) : s ∈ allSecs s := by
  obtain ⟨id, a, ps, ss⟩ := s
  rw [allSecs]; simp

theorem allSecs_sub (id : Str) (a : Attrs) (ps : List PropT) (ss : List SecT) :
    ∀ x ∈ allSecsL ss, x ∈ allSecs (.mk id a ps ss) := by
  intro x hx; rw [allSecs]; simp [hx]

section reader
variable (ok : TablesOK) {g : Graph} {ds : List DocT} (f : Facts g ds)
include ok f

theorem parseProps_ok (s : SecT) (hs : Good ds s) :
    ∃ qs, mapE (parseProperty g) (s.props.map (fun p => node p.id)) = .ok qs ∧
      All2 (propEquiv false) s.props qs := by
  apply mapE_map_ok (f := parseProperty g) (k := fun p : PropT => node p.id) (R := propEquiv false)
  intro p hp
  have hmem : p ∈ docProps ds := by
    unfold docProps
    exact mem_flatMap.mpr ⟨s, hs.1, hp⟩
  exact parseProperty_ok ok f hmem (hs.2.2 p hp)

mutual
theorem parseSection_ok :
    ∀ (s : SecT), (∀ x ∈ allSecs s, Good ds x) → ∀ fuel, depth s ≤ fuel →
      ∃ t, parseSection g fuel (node s.id) = .ok t ∧ secEquiv false s t
  | .mk id a ps ss, H, fuel, hf => by
    have hself : Good ds (.mk id a ps ss) := H _ (mem_allSecs_self _)
    obtain ⟨p1, h1⟩ := ok.secSecs
    obtain ⟨p2, h2⟩ := ok.secProps
    cases fuel with
    | zero => rw [depth] at hf; omega
    | succ fuel =>
      rw [depth] at hf
      obtain ⟨ts, hts, ets⟩ := parseSections_ok ss (fun x hx => H x (allSecs_sub id a ps ss x hx)) fuel
        (by omega)
      obtain ⟨qs, hqs, eqs⟩ := parseProps_ok ok f _ hself
      have hattr : attrsEq false a (readAttrs g (node id) Gen.Format.sectionRdfMap) := by
        apply readAttrs_equiv ok.sec.keys PyVal.truthy secConv g _ a
        · intro kp hkp
          obtain ⟨m1, m2, m3, m4, _⟩ := mem_plainKeys hkp
          exact f.secAttr _ hself.1 kp m1 m2 m3 m4
        · exact hself.2.1.1
        · intro k v hmem hk hr
          exact hconv_sec k v hk hr (fun e => ok.secNoDate (e ▸ hmem)) (fun e => ok.secNoUnc (e ▸ hmem))
      have hname := hasName_of_equiv hattr hself.2.1.2.1
      obtain ⟨r1, er1, pr1⟩ := mapE_perm (f.secKids _ hself.1 p1 h1) ts hts
      obtain ⟨r2, er2, pr2⟩ := mapE_perm (f.secPropKids _ hself.1 p2 h2) qs hqs
      unfold parseSection
      rw [readId_node _ ok.secId]
      simp only [childObjects, lookup_of_mem ok.sec.keys.keysNodup h1,
        lookup_of_mem ok.sec.keys.keysNodup h2]
      simp only [SecT.id, SecT.subs, SecT.props] at er1 er2
      simp only [SecT.id, er1, er2, hname, if_true, withDefaultType_id hattr hself.2.1.2.2]
      refine ⟨_, rfl, ?_⟩
      simp only [secEquiv, SecT.id, SecT.attrs, SecT.props, SecT.subs, true_and]
      exact ⟨hattr, ⟨qs, pr2, eqs⟩, ⟨ts, pr1, ets⟩⟩
theorem parseSections_ok :
    ∀ (ss : List SecT), (∀ x ∈ allSecsL ss, Good ds x) → ∀ fuel, depthL ss ≤ fuel →
      ∃ ts, mapE (parseSection g fuel) (ss.map (fun c => node c.id)) = .ok ts ∧ secsEquiv false ss ts
  | [], _, _, _ => ⟨[], rfl, by simp [secsEquiv]⟩
  | s :: r, H, fuel, hf => by
    rw [depthL] at hf
    obtain ⟨t, ht, et⟩ := parseSection_ok s (fun x hx => H x (by rw [allSecsL_cons]; simp [hx])) fuel
      (by omega)
    obtain ⟨ts, hts, ets⟩ := parseSections_ok r (fun x hx => H x (by rw [allSecsL_cons]; simp [hx])) fuel
      (by omega)
    refine ⟨t :: ts, ?_, ?_⟩
    · simp [mapE, ht, hts]
    · simp only [secsEquiv]; exact ⟨et, ets⟩
end

end reader

/-! ## 13. Documents; fuel -/

mutual
theorem depth_le_count : ∀ s : SecT, depth s ≤ (allSecs s).length
  | .mk id a ps ss => by
    rw [depth, allSecs]
    have := depthL_le_count ss
    simp only [length_cons]; omega
theorem depthL_le_count : ∀ ss : List SecT, depthL ss ≤ (allSecsL ss).length
  | [] => by simp [depthL]
  | s :: r => by
    rw [depthL, allSecsL_cons, length_append]
    have h1 := depth_le_count s
    have h2 := depthL_le_count r
    omega
end

theorem mem_docSecs_of_doc {ds : List DocT} {d : DocT} (hd : d ∈ ds) {x : SecT}
    (hx : x ∈ allSecsL d.secs) : x ∈ docSecs ds := by
  obtain ⟨l1, l2, rfl⟩ := append_of_mem hd
  unfold docSecs
  simp only [flatMap_append, flatMap_cons, allSecsL_append, mem_append]
  exact .inr (.inl hx)

theorem count_doc_le {ds : List DocT} {d : DocT} (hd : d ∈ ds) :
    (allSecsL d.secs).length ≤ (docSecs ds).length := by
  obtain ⟨l1, l2, rfl⟩ := append_of_mem hd
  unfold docSecs
  simp only [flatMap_append, flatMap_cons, allSecsL_append, length_append]
  omega

theorem ownSec_length_pos (cfg : Cfg) (s : SecT) : 1 ≤ (ownSec cfg s).length := by
  obtain ⟨id, a, ps, ss⟩ := s
  unfold ownSec
  rw [length_append]
  have : 1 ≤ (sectionTypeTriples cfg (node id) a).length := by
    unfold sectionTypeTriples; split <;> simp
  omega

theorem length_flatMap_ge {α β} (l : List α) (f : α → List β) (h : ∀ a ∈ l, 1 ≤ (f a).length) :
    l.length ≤ (l.flatMap f).length := by
  induction l with
  | nil => simp
  | cons a l ih =>
    simp only [flatMap_cons, length_cons, length_append]
    have := h a (by simp)
    have := ih (fun b hb => h b (by simp [hb]))
    omega

theorem secs_le_flat (cfg : Cfg) (ds : List DocT) : (docSecs ds).length ≤ (flatGraph cfg ds).length := by
  rw [flatGraph_eq]
  simp only [length_append]
  have := length_flatMap_ge (docSecs ds) (ownSec cfg) (fun s _ => ownSec_length_pos cfg s)
  omega

def DocRepr (d : DocT) : Prop := AttrsRepr Gen.Format.documentRdfMap d.attrs

/-- **RdfRepr**: what a document set must satisfy so that the RDF route can represent it:
    attributes are non-empty strings (the Document date a date, the uncertainty a float) under
    keys of the RDF maps; every Section has a name and a type, every Property a name. -/
structure RdfRepr (ds : List DocT) : Prop where
  docs : ∀ d ∈ ds, DocRepr d
  secs : ∀ s ∈ docSecs ds, SecRepr s
  props : ∀ p ∈ docProps ds, PropRepr p

theorem good_of_repr {ds : List DocT} (r : RdfRepr ds) {x : SecT} (hx : x ∈ docSecs ds) : Good ds x :=
  ⟨hx, r.secs x hx, fun p hp => r.props p (mem_flatMap.mpr ⟨x, hx, hp⟩)⟩

theorem parseDocument_ok (ok : TablesOK) {g : Graph} {ds : List DocT} (f : Facts g ds)
    (r : RdfRepr ds) {d : DocT} (hd : d ∈ ds) (fuel : Nat) (hf : (docSecs ds).length ≤ fuel) :
    ∃ e, parseDocument g fuel (node d.id) = .ok e ∧ docEquiv false d e := by
  obtain ⟨p1, h1⟩ := ok.docSecs
  have hattr : attrsEq false d.attrs (readAttrs g (node d.id) Gen.Format.documentRdfMap) := by
    apply readAttrs_equiv ok.doc.keys PyVal.truthy docConv g _ d.attrs
    · intro kp hkp
      obtain ⟨m1, m2, m3, _, _⟩ := mem_plainKeys hkp
      exact f.docAttr d hd kp m1 m2 m3
    · exact r.docs d hd
    · intro k v hmem hk hr
      exact hconv_doc k v hk hr (fun e => ok.docNoUnc (e ▸ hmem))
  obtain ⟨ts, hts, ets⟩ := parseSections_ok ok f d.secs
    (fun x hx => good_of_repr r (mem_docSecs_of_doc hd hx)) fuel
    (by have := depthL_le_count d.secs; have := count_doc_le hd; omega)
  obtain ⟨r1, er1, pr1⟩ := mapE_perm (f.docKids d hd p1 h1) ts hts
  unfold parseDocument
  rw [readId_node _ ok.docId]
  simp only [childObjects, lookup_of_mem ok.doc.keys.keysNodup h1, er1]
  exact ⟨_, rfl, rfl, hattr, ts, pr1, ets⟩

theorem importRdf_ok (ok : TablesOK) {g : Graph} {ds : List DocT} (f : Facts g ds)
    (r : RdfRepr ds) (hlen : (docSecs ds).length ≤ g.length) :
    ∃ es, importRdf g = .ok es ∧ docsEquiv false ds es := by
  obtain ⟨es, h1, h2⟩ := mapE_map_ok (f := parseDocument g (g.length + 1))
    (k := fun d : DocT => node d.id) (R := docEquiv false) ds
    (fun d hd => parseDocument_ok ok f r hd _ (by omega))
  obtain ⟨r1, er1, pr1⟩ := mapE_perm f.hubDocs es h1
  exact ⟨r1, er1, es, pr1, h2⟩

/-- Round trip, for every permutation of the exported triple list (uncertainty as text). -/
theorem roundtrip_lax (ok : TablesOK) (cfg : Cfg) {ds : List DocT} (wf : WFDocs ds) (r : RdfRepr ds)
    {g : Graph} (h : g.Perm (exportRdf cfg ds)) :
    ∃ es, importRdf g = .ok es ∧ docsEquiv false ds es := by
  apply importRdf_ok ok (facts_export cfg wf ok h) r
  have := secs_le_flat cfg ds
  have e := (h.trans (export_flat cfg ok.secOK ok.docOK ds)).length_eq
  omega

/-! ## 14. From text equality of the uncertainty to full equality when there is none -/

theorem attrsEq_strict {a b : Attrs} (h : attrsEq false a b) (hu : a.lookup "uncertainty" = none) :
    attrsEq true a b := by
  intro k hk
  have := h k hk
  unfold valEq at this ⊢
  by_cases e : k = "uncertainty"
  · subst e
    simp only [Bool.not_false, Bool.true_and, beq_self_eq_true, if_true, hu, Option.map_none] at this
    simp only [Bool.not_true, Bool.false_and, Bool.false_eq_true, if_false, hu]
    cases hb : b.lookup "uncertainty" with
    | none => rfl
    | some v => simp [hb] at this
  · have e' : (k == "uncertainty") = false := by simpa using e
    simpa [e'] using this

theorem all2_strict {ps qs : List PropT} (h : All2 (propEquiv false) ps qs)
    (hu : ∀ p ∈ ps, p.attrs.lookup "uncertainty" = none) : All2 (propEquiv true) ps qs := by
  induction h with
  | nil => exact All2.nil
  | cons hab _ ih =>
    exact All2.cons ⟨hab.1, attrsEq_strict hab.2.1 (hu _ (by simp)), hab.2.2⟩
      (ih (fun p hp => hu p (by simp [hp])))

/-- No uncertainty on the Section (it has no such attribute anyway) nor on its Properties. -/
def NoUnc (x : SecT) : Prop :=
  x.attrs.lookup "uncertainty" = none ∧ ∀ p ∈ x.props, p.attrs.lookup "uncertainty" = none

mutual
theorem secEquiv_strict : ∀ (s t : SecT), (∀ x ∈ allSecs s, NoUnc x) →
    secEquiv false s t → secEquiv true s t
  | .mk id a ps ss, t, hu, h => by
    simp only [secEquiv] at h ⊢
    obtain ⟨h1, h2, ⟨m1, p1, e1⟩, ⟨m2, p2, e2⟩⟩ := h
    have hself := hu _ (mem_allSecs_self _)
    simp only [NoUnc, SecT.props, SecT.attrs] at hself
    exact ⟨h1, attrsEq_strict h2 hself.1, ⟨m1, p1, all2_strict e1 hself.2⟩,
      ⟨m2, p2, secsEquiv_strict ss m2 (fun x hx => hu x (allSecs_sub id a ps ss x hx)) e2⟩⟩
theorem secsEquiv_strict : ∀ (ss ts : List SecT), (∀ x ∈ allSecsL ss, NoUnc x) →
    secsEquiv false ss ts → secsEquiv true ss ts
  | [], [], _, _ => by simp [secsEquiv]
  | s :: r, t :: u, hu, h => by
    simp only [secsEquiv] at h ⊢
    exact ⟨secEquiv_strict s t (fun x hx => hu x (by rw [allSecsL_cons]; simp [hx])) h.1,
      secsEquiv_strict r u (fun x hx => hu x (by rw [allSecsL_cons]; simp [hx])) h.2⟩
  | [], _ :: _, _, h => by simp [secsEquiv] at h
  | _ :: _, [], _, h => by simp [secsEquiv] at h
end

theorem docsEquiv_strict {ds es : List DocT} (h : docsEquiv false ds es)
    (hd : ∀ d ∈ ds, d.attrs.lookup "uncertainty" = none) (hs : ∀ x ∈ docSecs ds, NoUnc x) :
    docsEquiv true ds es := by
  obtain ⟨mid, p, e⟩ := h
  refine ⟨mid, p, ?_⟩
  have : ∀ (l m : List DocT), All2 (docEquiv false) l m → (∀ d ∈ l, d ∈ ds) →
      All2 (docEquiv true) l m := by
    intro l m hlm
    induction hlm with
    | nil => intro _; exact All2.nil
    | cons hab _ ih =>
      intro hsub
      rename_i a b as bs _
      obtain ⟨e1, e2, mid', p', e3⟩ := hab
      have ha : a ∈ ds := hsub a (by simp)
      refine All2.cons ⟨e1, attrsEq_strict e2 (hd a ha), mid', p', ?_⟩
        (ih (fun d hd' => hsub d (by simp [hd'])))
      exact secsEquiv_strict _ _ (fun x hx => hs x (mem_docSecs_of_doc ha hx)) e3
  exact this ds mid e (fun _ h => h)

/-! ## 15. Decidable forms of the hypotheses (evaluated by the driver, used for examples) -/

theorem mem_of_lookup {k : String} {v : PyVal} : ∀ {a : Attrs}, a.lookup k = some v → (k, v) ∈ a
  | [], h => by simp [List.lookup] at h
  | (k', v') :: a, h => by
    simp only [List.lookup] at h
    by_cases e : k = k'
    · subst e; simp at h; subst h; simp
    · have : (k == k') = false := by simpa using e
      simp only [this] at h
      exact mem_cons_of_mem _ (mem_of_lookup h)

theorem attrsRepr_of_B {tbl : List (String × String)} {a : Attrs} (h : attrsReprB tbl a = true) :
    AttrsRepr tbl a := by
  intro k v hl
  have hm := mem_of_lookup hl
  simp only [attrsReprB, all_eq_true, Bool.and_eq_true, Bool.or_eq_true, Bool.not_eq_true',
    contains_iff_mem] at h
  obtain ⟨h1, h2⟩ := h (k, v) hm
  refine ⟨by simpa using h1, ?_⟩
  intro hk
  rcases h2 with h2 | h2
  · simp only at h2
    have : cmpKeys.contains k = true := by simpa using hk
    rw [this] at h2; cases h2
  · exact h2

theorem rdfRepr_of_B {ds : List DocT} (h : rdfReprB ds = true) : RdfRepr ds := by
  simp only [rdfReprB, Bool.and_eq_true, all_eq_true] at h
  refine ⟨fun d hd => attrsRepr_of_B (h.1.1 d hd), fun s hs => ?_, fun p hp => ?_⟩
  · have := h.1.2 s hs
    simp only [secReprB, Bool.and_eq_true] at this
    exact ⟨attrsRepr_of_B this.1.1, this.1.2, this.2⟩
  · have := h.2 p hp
    simp only [propReprB, Bool.and_eq_true] at this
    exact ⟨attrsRepr_of_B this.1, this.2⟩

theorem wfDocs_of_B {ds : List DocT} (h : wfDocsB ds = true) : WFDocs ds := by
  simpa [wfDocsB, WFDocs] using h


/-! ## 16. Only the Hub has `hasDocument` triples -/

/-- The predicate of a triple emitted in the step for table entry with predicate `pred`. -/
def PredShape (pred : Term) (t : Triple) : Prop :=
  t.p = pred ∨ t.p = rdfType ∨ t.p = hasTerminology ∨ ∃ k, t.p = li k

theorem rdfNs_ne_ns (x y : Str) : rdfNs ++ x ≠ ns ++ y := by
  have e1 : rdfNs = 'h' :: 't' :: 't' :: 'p' :: ':' :: rdfNs.drop 5 := by decide
  have e2 : ns = 'h' :: 't' :: 't' :: 'p' :: 's' :: ns.drop 5 := by decide
  rw [e1, e2]; simp

theorem li_ne_hasDocument (k : Nat) : li k ≠ hasDocument := by
  intro e
  simp only [li, hasDocument, Term.iri.injEq, liPrefix, append_assoc] at e
  exact rdfNs_ne_ns _ _ e

theorem hasTerminology_ne_hasDocument : hasTerminology ≠ hasDocument := by decide

theorem predShape_not_hasDocument {pred : Term} {t : Triple} (h : PredShape pred t)
    (hp : pred ≠ hasDocument) : t.p ≠ hasDocument := by
  intro e
  rcases h with a | a | a | ⟨k, a⟩
  · exact hp (a.symm.trans e)
  · exact rdfType_ne_hasDocument (a.symm.trans e)
  · exact hasTerminology_ne_hasDocument (a.symm.trans e)
  · exact li_ne_hasDocument k (a.symm.trans e)

theorem pred_saveRepositoryNode {n pred : Term} {url : Str} {t : Triple}
    (h : t ∈ saveRepositoryNode n pred url) : PredShape pred t := by
  simp only [saveRepositoryNode, mem_cons, mem_nil_iff, or_false] at h
  rcases h with rfl | rfl | rfl
  · exact .inr (.inl rfl)
  · exact .inr (.inr (.inl rfl))
  · exact .inl rfl

theorem pred_saveSecAttr {n : Term} {a : Attrs} {kp : String × String} {t : Triple}
    (h : t ∈ saveSecAttr n a kp) : PredShape (.iri kp.2.toList) t := by
  unfold saveSecAttr at h
  split at h
  · simp at h
  · split at h
    · simp at h
    · split at h
      · exact pred_saveRepositoryNode h
      · simp only [mem_cons, mem_nil_iff, or_false] at h; subst h; exact .inl rfl

theorem pred_saveDocAttr {n : Term} {a : Attrs} {kp : String × String} {t : Triple}
    (h : t ∈ saveDocAttr n a kp) : PredShape (.iri kp.2.toList) t := by
  unfold saveDocAttr at h
  split at h
  · simp at h
  · split at h
    · simp at h
    · split at h
      · exact pred_saveRepositoryNode h
      · split at h <;> (simp only [mem_cons, mem_nil_iff, or_false] at h; subst h; exact .inl rfl)

theorem pred_ownSecStep {n : Term} {a : Attrs} {ps : List PropT} {ss : List SecT}
    {kp : String × String} {t : Triple} (h : t ∈ ownSecStep n a ps ss kp) :
    PredShape (.iri kp.2.toList) t := by
  unfold ownSecStep at h
  split at h
  · simp at h
  · split at h
    · simp only [mem_map, secLink] at h; obtain ⟨c, _, rfl⟩ := h; exact .inl rfl
    · split at h
      · simp only [mem_map, propLink] at h; obtain ⟨c, _, rfl⟩ := h; exact .inl rfl
      · exact pred_saveSecAttr h

theorem pred_ownDocStep {d : DocT} {kp : String × String} {t : Triple}
    (h : t ∈ ownDocStep d kp) : PredShape (.iri kp.2.toList) t := by
  unfold ownDocStep at h
  split at h
  · simp at h
  · split at h
    · simp only [mem_map, secLink] at h; obtain ⟨c, _, rfl⟩ := h; exact .inl rfl
    · exact pred_saveDocAttr h

theorem pred_seqItems {seq : Term} {t : Triple} : ∀ {k : Nat} {vs : List Lit},
    t ∈ seqItems seq k vs → ∃ j, t.p = li j
  | _, [], h => by simp [seqItems] at h
  | k, v :: vs, h => by
    simp only [seqItems, mem_cons] at h
    rcases h with rfl | h
    · exact ⟨k, rfl⟩
    · exact pred_seqItems h

theorem pred_savePropertyKey {p : PropT} {kp : String × String} {t : Triple}
    (h : t ∈ savePropertyKey p kp) : PredShape (.iri kp.2.toList) t := by
  unfold savePropertyKey at h
  simp only at h
  split at h
  · split at h
    · simp at h
    · simp only [saveValues, mem_cons] at h
      rcases h with rfl | rfl | h
      · exact .inr (.inl rfl)
      · exact .inl rfl
      · exact .inr (.inr (.inr (pred_seqItems h)))
  · split at h
    · simp at h
    · split at h
      · simp at h
      · split at h
        · simp only [mem_cons, mem_nil_iff, or_false] at h; subst h; exact .inl rfl
        · simp at h

/-- In the flat graph a `hasDocument` triple is the Hub link of one of the documents. -/
theorem hasDocument_only_hub (cfg : Cfg) (ok : TablesOK) (ds : List DocT) (t : Triple)
    (ht : t ∈ flatGraph cfg ds) (hp : t.p = hasDocument) :
    t.s = hub ∧ ∃ d ∈ ds, t.o = node d.id := by
  rw [flatGraph_eq] at ht
  simp only [mem_append, mem_flatMap] at ht
  rcases ht with ⟨d, hd, h⟩ | ⟨s, _, h⟩ | ⟨p, _, h⟩
  · unfold ownDoc docHead at h
    simp only [mem_append, mem_cons, mem_nil_iff, or_false, mem_flatMap] at h
    rcases h with (rfl | rfl | rfl) | ⟨kp, hkp, h⟩
    · exact absurd hp rdfType_ne_hasDocument
    · exact ⟨rfl, d, hd, rfl⟩
    · exact absurd hp hasFileName_ne_hasDocument
    · exact absurd hp (predShape_not_hasDocument (pred_ownDocStep h) (ok.doc.notMeta kp hkp).2.2.1)
  · obtain ⟨id, a, ps, ss⟩ := s
    unfold ownSec at h
    simp only [mem_append, mem_flatMap] at h
    rcases h with h | ⟨kp, hkp, h⟩
    · exfalso
      unfold sectionTypeTriples at h
      split at h <;> simp only [mem_cons, mem_nil_iff, or_false] at h
      · rcases h with rfl | rfl | rfl | rfl
        · exact rdfType_ne_hasDocument hp
        · exact rdfType_ne_hasDocument hp
        · exact (by decide : rdfsSubClassOf ≠ hasDocument) hp
        · exact rdfType_ne_hasDocument hp
      · subst h; exact rdfType_ne_hasDocument hp
    · exact absurd hp (predShape_not_hasDocument (pred_ownSecStep h) (ok.sec.notMeta kp hkp).2.2.1)
  · unfold saveProperty at h
    simp only [mem_cons, mem_flatMap] at h
    rcases h with rfl | ⟨kp, hkp, h⟩
    · exact absurd hp rdfType_ne_hasDocument
    · exact absurd hp (predShape_not_hasDocument (pred_savePropertyKey h) (ok.prop.notMeta kp hkp).2.2.1)

end Rdf
