/-
C11 helper lemmas, part 4: the frame lemma of every editing operation. For a region `R` that is
closed (no reference leads out of it) and owns everything allocated from now on, an operation
applied to objects / lists of `R` writes only locations of `R` and leaves `R` closed.
-/
import OdmlModel.Proofs.CloneSpec
namespace Clone

/-- `R` owns every location that is not allocated yet. -/
def Future (R : Reg) (h : H) : Prop :=
  (∀ a, h.nN ≤ a → R.n a) ∧ (∀ a, h.nV ≤ a → R.v a) ∧ (∀ a, h.nT ≤ a → R.t a)

/-- No location outside `R` is written. -/
def FrameOut (R : Reg) (h h' : H) : Prop :=
  (∀ a, ¬ R.n a → h'.node a = h.node a) ∧ (∀ c, ¬ R.v c → h'.vcell c = h.vcell c) ∧
  (∀ t, ¬ R.t t → h'.tcell t = h.tcell t)

structure St (R : Reg) (h : H) : Prop where
  closed : Closed h R
  future : Future R h

structure Good (R : Reg) (h h' : H) : Prop where
  mono : Mono h h'
  frame : FrameOut R h h'
  st : St R h'

theorem Future.mono {R h h'} (f : Future R h) (m : Mono h h') : Future R h' := by
  unfold Mono at m
  exact ⟨fun a ha => f.1 a (by omega), fun a ha => f.2.1 a (by omega), fun a ha => f.2.2 a (by omega)⟩

theorem Good.refl {R h} (s : St R h) : Good R h h :=
  ⟨Mono.refl h, ⟨fun _ _ => rfl, fun _ _ => rfl, fun _ _ => rfl⟩, s⟩

theorem Good.trans {R a b c} (g1 : Good R a b) (g2 : Good R b c) : Good R a c :=
  ⟨g1.mono.trans g2.mono,
   ⟨fun x hx => by rw [g2.frame.1 x hx, g1.frame.1 x hx], fun x hx => by rw [g2.frame.2.1 x hx, g1.frame.2.1 x hx],
    fun x hx => by rw [g2.frame.2.2 x hx, g1.frame.2.2 x hx]⟩, g2.st⟩

/-! ### Field updates keep `NodeIn` -/

theorem nodeIn_parent {R n} (hn : NodeIn R n) (np : Option Nat) (hp : ∀ p, np = some p → R.n p) :
    NodeIn R { n with parent := np } := ⟨fun _ p h => hp p h, hn.2.1, hn.2.2.1, hn.2.2.2⟩
theorem nodeIn_secs {R n} (hn : NodeIn R n) (l : List Nat) (hl : ∀ c, c ∈ l → R.n c) :
    NodeIn R { n with secs := l } := ⟨hn.1, fun _ c h => hl c h, hn.2.2.1, hn.2.2.2⟩
theorem nodeIn_props {R n} (hn : NodeIn R n) (l : List Nat) (hl : ∀ c, c ∈ l → R.n c) :
    NodeIn R { n with props := l } := ⟨hn.1, hn.2.1, fun _ c h => hl c h, hn.2.2.2⟩
theorem nodeIn_vals {R n} (hn : NodeIn R n) (v : Option Nat) (hv : ∀ c, v = some c → R.v c) :
    NodeIn R { n with vals := v } := ⟨hn.1, hn.2.1, hn.2.2.1, fun _ c h => hv c h⟩
theorem nodeIn_name {R n} (hn : NodeIn R n) (s : String) : NodeIn R { n with name := s } := hn
theorem nodeIn_attrs {R n} (hn : NodeIn R n) (s : List String) : NodeIn R { n with attrs := s } := hn
theorem nodeIn_id {R n} (hn : NodeIn R n) (s : Nat) : NodeIn R { n with id := s } := hn

/-! ### Primitive writes inside the region -/

theorem good_updN {R h} (s : St R h) (i : Nat) (f : Node → Node) (hi : R.n i)
    (hf : i < h.nN → NodeIn R (h.node i) → NodeIn R (f (h.node i))) : Good R h (updN h i f) := by
  refine ⟨Mono.refl _, ⟨fun a ha => ?_, fun _ _ => rfl, fun _ _ => rfl⟩, ⟨⟨fun a ha hl => ?_, s.closed.2⟩, s.future⟩⟩
  · rw [updN_other]; intro e; subst e; exact ha hi
  · rw [updN_node]; split
    · rename_i e; subst e; exact hf hl (s.closed.1 a ha hl)
    · exact s.closed.1 a ha hl

theorem good_updV {R h} (s : St R h) (i : Nat) (f : List Item → List Item) (hi : R.v i)
    (hf : i < h.nV → ItemsIn R (h.vcell i) → ItemsIn R (f (h.vcell i))) : Good R h (updV h i f) := by
  refine ⟨Mono.refl _, ⟨fun _ _ => rfl, fun a ha => ?_, fun _ _ => rfl⟩, ⟨⟨s.closed.1, fun a ha hl => ?_⟩, s.future⟩⟩
  · rw [updV_vcell, if_neg]; intro e; subst e; exact ha hi
  · rw [updV_vcell]; split
    · rename_i e; subst e; exact hf hl (s.closed.2 a ha hl)
    · exact s.closed.2 a ha hl

theorem good_updT {R h} (s : St R h) (i : Nat) (f : List String → List String) (hi : R.t i) :
    Good R h (updT h i f) := by
  refine ⟨Mono.refl _, ⟨fun _ _ => rfl, fun _ _ => rfl, fun a ha => ?_⟩, ⟨s.closed, s.future⟩⟩
  rw [updT_tcell, if_neg]; intro e; subst e; exact ha hi

theorem good_newId {R h} (s : St R h) (i : Nat) (hi : R.n i) : Good R h (newId h i) := by
  refine ⟨⟨Nat.le_refl _, Nat.le_refl _, Nat.le_refl _, by simp⟩, ⟨fun a ha => ?_, fun _ _ => rfl, fun _ _ => rfl⟩,
    ⟨⟨fun a ha hl => ?_, s.closed.2⟩, s.future⟩⟩
  · rw [newId_node, if_neg]; intro e; subst e; exact ha hi
  · rw [newId_node]; split
    · exact nodeIn_id (s.closed.1 a ha hl) _
    · exact s.closed.1 a ha hl

/-- A block of new locations that is closed in itself joins the region. -/
theorem good_ext {R h h'} (s : St R h) (e : Ext h h') (c : Closed h' (rng h h')) : Good R h h' := by
  have le : (rng h h').le R :=
    ⟨fun a ha => s.future.1 a ha.1, fun a ha => s.future.2.1 a ha.1, fun a ha => s.future.2.2 a ha.1⟩
  refine ⟨e.1, ⟨fun a ha => ?_, fun a ha => ?_, fun a ha => ?_⟩, ⟨⟨fun a ha hl => ?_, fun a ha hl => ?_⟩,
    s.future.mono e.1⟩⟩
  · exact e.2.1 a (Nat.lt_of_not_le (fun hle => ha (s.future.1 a hle)))
  · exact e.2.2.1 a (Nat.lt_of_not_le (fun hle => ha (s.future.2.1 a hle)))
  · exact e.2.2.2 a (Nat.lt_of_not_le (fun hle => ha (s.future.2.2 a hle)))
  · by_cases hlt : a < h.nN
    · rw [e.2.1 a hlt]; exact s.closed.1 a ha hlt
    · exact (c.1 a ⟨by omega, hl⟩ hl).mono le
  · by_cases hlt : a < h.nV
    · rw [e.2.2.1 a hlt]; exact s.closed.2 a ha hlt
    · exact (c.2 a ⟨by omega, hl⟩ hl).mono le

theorem good_allocT {R h} (s : St R h) (l : List String) : Good R h (allocT h l).1 :=
  good_ext s (ext_allocT h l) ⟨fun a ha _ => by simp [rng] at ha; omega, fun a ha _ => by simp [rng] at ha; omega⟩

theorem good_allocV {R h} (s : St R h) (l : List Item) (hl : ItemsIn R l) : Good R h (allocV h l).1 := by
  have e := ext_allocV h l
  refine ⟨e.1, ⟨fun _ _ => rfl, fun a ha => ?_, fun _ _ => rfl⟩, ⟨⟨s.closed.1, fun a ha hlt => ?_⟩, s.future.mono e.1⟩⟩
  · rw [allocV_vcell, if_neg]; intro e; subst e; exact ha (s.future.2.1 _ (Nat.le_refl _))
  · rw [allocV_vcell]; split
    · exact hl
    · exact s.closed.2 a ha (by simp at hlt; omega)

theorem good_allocN {R h} (s : St R h) (n : Node) (hn : NodeIn R n) : Good R h (allocN h n).1 := by
  have e := ext_allocN h n
  refine ⟨e.1, ⟨fun a ha => ?_, fun _ _ => rfl, fun _ _ => rfl⟩, ⟨⟨fun a ha hlt => ?_, s.closed.2⟩, s.future.mono e.1⟩⟩
  · rw [allocN_node, if_neg]; intro e; subst e; exact ha (s.future.1 _ (Nat.le_refl _))
  · rw [allocN_node]; split
    · exact hn
    · exact s.closed.1 a ha (by simp at hlt; omega)

theorem good_conv {R h} (s : St R h) (src : List Item) :
    Good R h (convertItems h src).1 ∧ ItemsIn R (convertItems h src).2 := by
  have r := convertItems_spec src h
  refine ⟨good_ext s r.ext ⟨fun a ha _ => ?_, fun a ha _ => ?_⟩, fun t ht => s.future.2.2 t (r.fresh t ht).1⟩
  · have := ha.1; have := ha.2; have := r.nN; omega
  · have := ha.1; have := ha.2; have := r.nV; omega

theorem good_lit {R h} (s : St R h) (src : List Lit) :
    Good R h (litItems h src).1 ∧ ItemsIn R (litItems h src).2 := by
  obtain ⟨e, a, b, _, _, _, g, _⟩ := litItems_spec src h
  refine ⟨good_ext s e ⟨fun x hx _ => ?_, fun x hx _ => ?_⟩, fun t ht => s.future.2.2 t (g t ht).1⟩
  · have := hx.1; have := hx.2; omega
  · have := hx.1; have := hx.2; omega

theorem good_set {R h h' p} (s : St R h) (sp : SetSpec h h' p) (hp : R.n p) : Good R h h' := by
  have m := sp.mono
  refine ⟨m, ⟨fun a ha => ?_, fun a ha => ?_, fun a ha => ?_⟩, ⟨⟨fun a ha hl => ?_, fun a ha hl => ?_⟩,
    s.future.mono m⟩⟩
  · exact sp.nodeO a (fun e => by subst e; exact ha hp)
  · exact sp.vB a (Nat.lt_of_not_le (fun hle => ha (s.future.2.1 a hle)))
  · exact sp.tB a (Nat.lt_of_not_le (fun hle => ha (s.future.2.2 a hle)))
  · rw [sp.nN] at hl
    by_cases e : a = p
    · subst e; rw [sp.nodeP]
      exact nodeIn_vals (s.closed.1 a ha hl) _ (fun c hc => by
        simp only [Option.some.injEq] at hc; subst hc; exact s.future.2.1 _ (Nat.le_refl _))
    · rw [sp.nodeO a e]; exact s.closed.1 a ha hl
  · rw [sp.nV] at hl
    by_cases e : a < h.nV
    · rw [sp.vB a e]; exact s.closed.2 a ha e
    · have : a = h.nV := by omega
      subst this
      exact fun t ht => s.future.2.2 t (sp.cell t ht).1

/-! ### The operations -/

theorem good_getValues {R h} (s : St R h) (p : Nat) : Good R h (getValues h p).1 := by
  simp only [getValues]
  obtain ⟨g1, i1⟩ := good_conv s (valsOf h p)
  exact g1.trans (good_allocV g1.st _ i1)

theorem good_newList {R h} (s : St R h) (vs : List Lit) : Good R h (newList h vs).1 := by
  simp only [newList]
  obtain ⟨g1, i1⟩ := good_lit s vs
  exact g1.trans (good_allocV g1.st _ i1)

theorem itemsIn_append {R l l'} (a : ItemsIn R l) (b : ItemsIn R l') : ItemsIn R (l ++ l') := by
  intro t ht
  simp only [List.mem_append] at ht
  rcases ht with ht | ht
  · exact a t ht
  · exact b t ht

theorem itemsIn_set {R l} (a : ItemsIn R l) (i : Nat) (it : Item) (b : ∀ t, it = .ref t → R.t t) :
    ItemsIn R (l.set i it) := by
  intro t ht
  rcases List.mem_or_eq_of_mem_set ht with ht | ht
  · exact a t ht
  · exact b t ht.symm

theorem itemsIn_erase {R l} (a : ItemsIn R l) (i : Nat) : ItemsIn R (l.eraseIdx i) :=
  fun t ht => a t (List.mem_of_mem_eraseIdx ht)

theorem itemsIn_head {R : Reg} {items : List Item} (hi : ItemsIn R items) :
    ∀ l : List Item, ItemsIn R l → ∀ i, ItemsIn R (match items with | it :: _ => l.set i it | [] => l) := by
  intro l hl i
  cases items with
  | nil => exact hl
  | cons it rest => exact itemsIn_set hl i it (fun t ht => hi t (by rw [ht]; exact List.mem_cons_self ..))

/-- The value list of a Property of the region lies in the region. -/
theorem vals_in {R h} (s : St R h) {p c : Nat} (hp : R.n p) (hl : p < h.nN) (hk : (h.node p).kind = .prop)
    (hv : (h.node p).vals = some c) : R.v c := (s.closed.1 p hp hl).2.2.2 hk c hv

theorem good_appendValue {R h} (s : St R h) (p : Nat) (v : Lit) (hp : R.n p) (hl : p < h.nN)
    (hk : (h.node p).kind = .prop) : Good R h (appendValue h p v) := by
  unfold appendValue
  split
  · exact Good.refl s
  · rename_i c hv
    split
    · exact good_set s (setValuesLits_spec h p [v]) hp
    · obtain ⟨g1, i1⟩ := good_lit s [v]
      simp only
      have hc : R.v c := vals_in s hp hl hk hv
      exact g1.trans (good_updV g1.st c _ hc (fun _ hin => itemsIn_append hin i1))

theorem good_setValueAt {R h} (s : St R h) (p i : Nat) (v : Lit) (hp : R.n p) (hl : p < h.nN)
    (hk : (h.node p).kind = .prop) : Good R h (setValueAt h p i v).1 := by
  unfold setValueAt
  split
  · exact Good.refl s
  · rename_i c hv
    split
    · exact Good.refl s
    · obtain ⟨g1, i1⟩ := good_lit s [v]
      simp only
      have hc : R.v c := vals_in s hp hl hk hv
      exact g1.trans (good_updV g1.st c _ hc (fun _ hin => itemsIn_head i1 _ hin i))

theorem good_setAttr {R h} (s : St R h) (x i : Nat) (v : String) (hx : R.n x) : Good R h (setAttr h x i v) :=
  good_updN s x _ hx (fun _ hn => nodeIn_attrs hn _)

theorem good_setDtype {R h} (s : St R h) (p : Nat) (v : String) (hp : R.n p) : Good R h (setDtype h p v) := by
  unfold setDtype
  have g1 := good_setAttr s p 0 v hp
  exact g1.trans (good_set g1.st (setValuesItems_spec _ p _).1 hp)

theorem good_listAppend {R h} (s : St R h) (c : Nat) (v : Lit) (hc : R.v c) : Good R h (listAppend h c v) := by
  unfold listAppend
  obtain ⟨g1, i1⟩ := good_lit s [v]
  exact g1.trans (good_updV g1.st c _ hc (fun _ hin => itemsIn_append hin i1))

theorem good_listSet {R h} (s : St R h) (c i : Nat) (v : Lit) (hc : R.v c) : Good R h (listSet h c i v).1 := by
  unfold listSet
  split
  · exact Good.refl s
  · obtain ⟨g1, i1⟩ := good_lit s [v]
    simp only
    exact g1.trans (good_updV g1.st c _ hc (fun _ hin => itemsIn_head i1 _ hin i))

theorem good_listDel {R h} (s : St R h) (c i : Nat) (hc : R.v c) : Good R h (listDel h c i).1 := by
  unfold listDel
  split
  · exact Good.refl s
  · exact good_updV s c (fun l => l.eraseIdx i) hc (fun _ hin => itemsIn_erase hin i)

theorem good_listInnerSet {R h} (s : St R h) (c i j : Nat) (str : String) (hc : R.v c) (hl : c < h.nV) :
    Good R h (listInnerSet h c i j str).1 := by
  unfold listInnerSet
  split
  · rename_i t hget
    split
    · exact Good.refl s
    · exact good_updT s t (fun l => l.set j str) (s.closed.2 c hc hl t (List.mem_of_getElem? hget))
  · exact Good.refl s
  · exact Good.refl s

theorem good_valueInnerSet {R h} (s : St R h) (p i j : Nat) (str : String) (hp : R.n p) (hl : p < h.nN)
    (hk : (h.node p).kind = .prop) : Good R h (valueInnerSet h p i j str).1 := by
  unfold valueInnerSet
  split
  · exact Good.refl s
  · rename_i c hv
    split
    · exact Good.refl s
    · rename_i hlt
      exact good_listInnerSet s c i j str (vals_in s hp hl hk hv) (by omega)

/-- A step that writes no object, value list or inner list (a dict is allocated or written). -/
theorem good_same {R h h'} (s : St R h) (hn : h'.node = h.node) (hv : h'.vcell = h.vcell)
    (ht : h'.tcell = h.tcell) (eN : h'.nN = h.nN) (eV : h'.nV = h.nV) (eT : h'.nT = h.nT)
    (eI : h.nextId ≤ h'.nextId) : Good R h h' := by
  refine ⟨⟨by omega, by omega, by omega, eI⟩, ⟨fun a _ => by rw [hn], fun a _ => by rw [hv], fun a _ => by rw [ht]⟩,
    ⟨⟨fun a ha hl => ?_, fun a ha hl => ?_⟩, ⟨fun a ha => s.future.1 a (by omega), fun a ha => s.future.2.1 a (by omega),
      fun a ha => s.future.2.2 a (by omega)⟩⟩⟩
  · rw [hn]; exact s.closed.1 a ha (by omega)
  · rw [hv]; exact s.closed.2 a ha (by omega)

theorem good_allocD {R h} (s : St R h) (l : List (Nat × String)) : Good R h (allocD h l).1 :=
  good_same s rfl rfl rfl rfl rfl rfl (Nat.le_refl _)

theorem good_updD {R h} (s : St R h) (i : Nat) (f) : Good R h (updD h i f) :=
  good_same s rfl rfl rfl rfl rfl rfl (Nat.le_refl _)

theorem nodeIn_mattrs {R n} (hn : NodeIn R n) (d : Nat) : NodeIn R { n with mattrs := d } := hn
theorem nodeIn_merged {R n} (hn : NodeIn R n) (m : Option Nat) : NodeIn R { n with merged := m } := hn

theorem good_initRecord {R h} (s : St R h) (x : Nat) (hx : R.n x) : Good R h (initRecord h x) := by
  unfold initRecord
  have g1 := good_allocD s []
  exact g1.trans (good_updN g1.st x _ hx (fun _ hn => nodeIn_mattrs hn _))

theorem good_newObj {R h} (s : St R h) (k : Kind) (name : String) (attrs : List String) (vals : List Lit) :
    Good R h (newObj h k name attrs vals).1 := by
  unfold newObj
  simp only
  have s0 : St R { h with nextId := h.nextId + 1 } := ⟨s.closed, s.future⟩
  have g0 : Good R h { h with nextId := h.nextId + 1 } :=
    ⟨⟨Nat.le_refl _, Nat.le_refl _, Nat.le_refl _, Nat.le_succ _⟩, ⟨fun _ _ => rfl, fun _ _ => rfl, fun _ _ => rfl⟩, s0⟩
  have g1 := good_allocN s0 (Node.mk k name h.nextId attrs none [] [] none none 0)
    ⟨fun _ p hp => by simp at hp, fun _ c hc => by simp at hc, fun _ c hc => by simp at hc,
     fun _ c hc => by simp at hc⟩
  split
  · exact (g0.trans g1).trans (good_set g1.st (setValuesLits_spec _ _ vals) (s.future.1 _ (Nat.le_refl _)))
  · split
    · exact (g0.trans g1).trans (good_initRecord g1.st _ (s.future.1 _ (Nat.le_refl _)))
    · exact g0.trans g1

theorem good_fillAttr {R h} (s : St R h) (x t d k : Nat) (hx : R.n x) : Good R h (fillAttr h x t d k) := by
  unfold fillAttr
  split
  · rename_i v _ _
    have g1 := good_updN s x (fun n => { n with attrs := n.attrs.set k v }) hx (fun _ hn => nodeIn_attrs hn _)
    exact g1.trans (good_updD g1.st _ _)
  · exact Good.refl s

theorem good_takeBack {R} (x : Nat) (hx : R.n x) : ∀ (l : List (Nat × String)) (h : H), St R h →
    Good R h (takeBack h x l) := by
  intro l
  induction l with
  | nil => intro h s; exact Good.refl s
  | cons kv rest ih =>
    intro h s
    obtain ⟨k, v⟩ := kv
    simp only [takeBack]
    split
    · have g1 := good_updN s x (fun n => { n with attrs := n.attrs.set k "None" }) hx (fun _ hn => nodeIn_attrs hn _)
      exact g1.trans (ih _ g1.st)
    · exact ih _ s

theorem good_mergeAttrs {R h} (s : St R h) (x t : Nat) (record : Bool) (hx : R.n x) :
    Good R h (mergeAttrs h x t record) := by
  unfold mergeAttrs
  simp only
  have g1 := good_allocD s (recOf h x)
  have g2 := good_fillAttr g1.st x t (allocD h (recOf h x)).2 defAttr hx
  have g3 := good_fillAttr g2.st x t (allocD h (recOf h x)).2 refAttr hx
  have g13 := g1.trans (g2.trans g3)
  cases record with
  | false => simpa using g13
  | true =>
    simp only [if_true]
    have g4 := good_updN g13.st x (fun n => { n with mattrs := (allocD h (recOf h x)).2 }) hx
      (fun _ hn => nodeIn_mattrs hn _)
    have g5 := good_updN g4.st x (fun n => { n with merged := some t }) hx (fun _ hn => nodeIn_merged hn _)
    exact g13.trans (g4.trans g5)

theorem good_unmergeAttrs {R h} (s : St R h) (x : Nat) (hx : R.n x) : Good R h (unmergeAttrs h x) := by
  unfold unmergeAttrs
  simp only
  have g1 := good_takeBack x hx (recOf h x) h s
  have g2 := good_allocD g1.st []
  have g3 := good_updN g2.st x (fun n => { n with mattrs := (allocD (takeBack h x (recOf h x)) []).2 }) hx
    (fun _ hn => nodeIn_mattrs hn _)
  have g4 := good_updN g3.st x (fun n => { n with merged := none }) hx (fun _ hn => nodeIn_merged hn _)
  exact g1.trans (g2.trans (g3.trans g4))

theorem good_mergeOp {R h} (s : St R h) (x t : Nat) (record : Bool) (hx : R.n x) :
    Good R h (mergeOp h x t record).1 := by
  unfold mergeOp
  split
  · exact Good.refl s
  · exact good_mergeAttrs s x t record hx

theorem good_unmergeOp {R h} (s : St R h) (x : Nat) (hx : R.n x) : Good R h (unmergeOp h x).1 := by
  unfold unmergeOp
  split
  · exact Good.refl s
  · exact good_unmergeAttrs s x hx

theorem good_setChildList {R h} (s : St R h) (p : Nat) (b : Bool) (f : List Nat → List Nat) (hp : R.n p)
    (hf : ∀ l : List Nat, (∀ c, c ∈ l → R.n c) → ∀ c, c ∈ f l → R.n c) :
    Good R h (setChildList h p b f) := by
  unfold setChildList
  refine good_updN s p _ hp (fun _ hn => ?_)
  split
  · exact ⟨hn.1, fun k c hc => hf _ (hn.2.1 k) c hc, hn.2.2.1, hn.2.2.2⟩
  · exact ⟨hn.1, hn.2.1, fun k c hc => hf _ (hn.2.2.1 k) c hc, hn.2.2.2⟩

theorem good_removeChild {R h h'} (s : St R h) (q x : Nat) (hq : R.n q) (hx : R.n x)
    (hr : removeChild h q x = some h') : Good R h h' := by
  unfold removeChild at hr
  split at hr
  · cases hr
  · split at hr
    · cases hr
    · simp only at hr
      split at hr
      · cases hr
      · rename_i idx _
        simp only [Option.some.injEq] at hr
        subst hr
        have g1 := good_setChildList s q ((h.node x).kind != .prop) (fun l => l.eraseIdx idx) hq
          (fun l hl c hc => hl c (List.mem_of_mem_eraseIdx hc))
        exact g1.trans (good_updN g1.st x _ hx (fun _ hn => nodeIn_parent hn none (fun p hp => by cases hp)))

theorem setChildList_kind (h p b f a) : ((setChildList h p b f).node a).kind = (h.node a).kind := by
  unfold setChildList
  rw [updN_node]; split
  · split <;> rfl
  · rfl

theorem setChildList_parent (h p b f a) : ((setChildList h p b f).node a).parent = (h.node a).parent := by
  unfold setChildList
  rw [updN_node]; split
  · split <;> rfl
  · rfl

theorem good_append {R h} (s : St R h) (p x : Nat) (hp : R.n p) (hx : R.n x) (hxl : x < h.nN) :
    Good R h (append h p x).1 := by
  unfold append
  split
  · exact Good.refl s
  · exact Good.refl s
  · exact Good.refl s
  · rename_i k _ hnd _
    simp only
    split
    · exact Good.refl s
    · split
      · exact Good.refl s
      · have g1 := good_setChildList s p ((h.node x).kind != .prop) (fun l => l ++ [x]) hp
          (fun l hl c hc => by
            simp only [List.mem_append, List.mem_singleton] at hc
            rcases hc with hc | hc
            · exact hl c hc
            · subst hc; exact hx)
        have setp : ∀ h1, St R h1 → x < h1.nN → Good R h1 (updN h1 x (fun n => { n with parent := some p })) :=
          fun h1 s1 _ => good_updN s1 x _ hx (fun _ hn => nodeIn_parent hn _ (fun q hq => by
            simp only [Option.some.injEq] at hq; subst hq; exact hp))
        split
        · exact g1.trans (setp _ g1.st (by simpa [setChildList] using hxl))
        · rename_i q hpar
          split
          · exact g1.trans (setp _ g1.st (by simpa [setChildList] using hxl))
          · have hq : R.n q := by
              have hcl := g1.st.closed.1 x hx (by simpa [setChildList] using hxl)
              refine hcl.1 ?_ q hpar
              rw [setChildList_kind]
              intro hd; exact hnd hd
            split
            · exact g1
            · rename_i h2 hrm
              have g2 := good_removeChild g1.st q x hq hx hrm
              have hm := g2.mono
              refine g1.trans (g2.trans (setp _ g2.st ?_))
              have : x < (setChildList h p ((h.node x).kind != .prop) (fun l => l ++ [x])).nN := by
                simpa [setChildList] using hxl
              unfold Mono at hm; omega

theorem good_remove {R h} (s : St R h) (p x : Nat) (hp : R.n p) (hx : R.n x) : Good R h (remove h p x).1 := by
  unfold remove
  split
  · exact Good.refl s
  · split
    · rename_i h1 hr
      exact good_removeChild s p x hp hx hr
    · exact Good.refl s

theorem good_ite {R h} {c : Prop} [Decidable c] {a b : H × Option Err} (ha : Good R h a.1) (hb : Good R h b.1) :
    Good R h (if c then a else b).1 := by
  split <;> assumption

theorem good_rename {R h} (s : St R h) (x : Nat) (new : String) (hx : R.n x) : Good R h (rename h x new).1 := by
  unfold rename
  split
  · exact Good.refl s
  · split
    · exact Good.refl s
    · simp only
      exact good_ite (Good.refl s)
        (good_updN s x (fun n => { n with name := new }) hx (fun _ hn => nodeIn_name hn _))

theorem good_dropOnErr {R h} (s : St R h) (r : H × Res)
    (hr : ∀ h' c, r = (h', .ok c) → Good R h h') : Good R h (dropOnErr h r).1 := by
  obtain ⟨h', res⟩ := r
  cases res with
  | ok c => exact hr h' c rfl
  | err e => exact Good.refl s

theorem good_clone {R h} (s : St R h) (x : Nat) (ch keep : Bool) : Good R h (clone h x ch keep).1 := by
  unfold clone
  exact good_dropOnErr s _ (fun h' c hc => by
    have sp := cloneF_spec _ h x ch keep h' c hc
    exact good_ext s sp.ext sp.closed)

end Clone
