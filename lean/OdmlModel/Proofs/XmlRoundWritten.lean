/-
Whole-document XML round trip, part 6: the tree the writer builds is conformant odML-XML in the
sense of `denote` and denotes the trimmed document (`write_denotes`), by the same route as the
reader proof: per-key facts (`LeafShape`, `KeyDen`), a generic fold over the key list
(`keyDen_fold`), children (`props_den`, `secs_den_of`), mutual structural induction
(`writeSec_denotes` / `writeSecs_denotes`).
-/
import OdmlModel.Proofs.XmlRoundDenote
set_option linter.unusedSimpArgs false

namespace Xml
open Py Py.Csv

/-! ### the written tree is conformant and denotes the trimmed document -/

theorem leafArgs_append (κ : Kind) : ∀ (a b : List X) (x y : Args),
    leafArgs κ a = some x → leafArgs κ b = some y → leafArgs κ (a ++ b) = some (x ++ y) := by
  intro a
  induction a with
  | nil => intro b x y ha hb; simp only [leafArgs, Option.some.injEq] at ha; subst ha; simpa using hb
  | cons e es ih =>
    intro b x y ha hb
    rw [List.cons_append, leafArgs]
    rw [leafArgs] at ha
    by_cases hc : isChild κ (ltag e) = true
    · simp only [hc, if_true] at ha ⊢
      exact ih b x y ha hb
    · simp only [hc, Bool.false_eq_true, if_false] at ha ⊢
      cases hv : leafArg (argName κ e) e.text with
      | none => simp [hv] at ha
      | some v =>
        cases hes : leafArgs κ es with
        | none => simp [hv, hes] at ha
        | some x' =>
          simp only [hv, hes, Option.some.injEq] at ha
          subst ha
          simp [ih b x' y hes hb]

theorem denoteSecs_append (lib : TokLib) (κ : Kind) : ∀ (a b : List X) (x y : List SecT),
    denoteSecs lib κ a = some x → denoteSecs lib κ b = some y →
    denoteSecs lib κ (a ++ b) = some (x ++ y) := by
  intro a
  induction a with
  | nil => intro b x y ha hb; simp only [denoteSecs, Option.some.injEq] at ha; subst ha; simpa using hb
  | cons e es ih =>
    intro b x y ha hb
    rw [List.cons_append, denoteSecs]
    rw [denoteSecs] at ha
    by_cases hc : (isChild κ (ltag e) && ltag e == Gen.Format.sectionName) = true
    · simp only [hc, if_true] at ha ⊢
      cases hv : denoteSec lib e with
      | none => simp [hv] at ha
      | some v =>
        cases hes : denoteSecs lib κ es with
        | none => simp [hv, hes] at ha
        | some x' =>
          simp only [hv, hes, Option.some.injEq] at ha
          subst ha
          simp [ih b x' y hes hb]
    · simp only [hc, Bool.false_eq_true, if_false] at ha ⊢
      exact ih b x y ha hb

theorem denoteProps_append (lib : TokLib) (κ : Kind) : ∀ (a b : List X) (x y : List PropT),
    denoteProps lib κ a = some x → denoteProps lib κ b = some y →
    denoteProps lib κ (a ++ b) = some (x ++ y) := by
  intro a
  induction a with
  | nil => intro b x y ha hb; simp only [denoteProps, Option.some.injEq] at ha; subst ha; simpa using hb
  | cons e es ih =>
    intro b x y ha hb
    rw [List.cons_append, denoteProps]
    rw [denoteProps] at ha
    by_cases hc : (isChild κ (ltag e) && ltag e != Gen.Format.sectionName) = true
    · simp only [hc, if_true] at ha ⊢
      cases hv : denoteProp lib e with
      | none => simp [hv] at ha
      | some v =>
        cases hes : denoteProps lib κ es with
        | none => simp [hv, hes] at ha
        | some x' =>
          simp only [hv, hes, Option.some.injEq] at ha
          subst ha
          simp [ih b x' y hes hb]
    · simp only [hc, Bool.false_eq_true, if_false] at ha ⊢
      exact ih b x y ha hb

/-- what the elements emitted for one key denote -/
structure KeyDen (lib : TokLib) (κ : Kind) (S : KeySpec) (emitk : List X) (k : String) : Prop where
  known : kidsKnown κ emitk = true
  args : leafArgs κ emitk = some (S.entry (fmtOf κ) k).toList
  secs : denoteSecs lib κ emitk = some (S.secs k)
  props : denoteProps lib κ emitk = some (S.props k)

theorem keyDen_fold (lib : TokLib) (κ : Kind) (S : KeySpec) (emit : String → List X) :
    ∀ (L : List String), (∀ k ∈ L, KeyDen lib κ S (emit k) k) →
      kidsKnown κ (L.flatMap emit) = true ∧
      leafArgs κ (L.flatMap emit) = some (L.filterMap (S.entry (fmtOf κ))) ∧
      denoteSecs lib κ (L.flatMap emit) = some (L.flatMap S.secs) ∧
      denoteProps lib κ (L.flatMap emit) = some (L.flatMap S.props) := by
  intro L
  induction L with
  | nil => intro _; exact ⟨rfl, rfl, rfl, rfl⟩
  | cons k ks ih =>
    intro h
    obtain ⟨h1, h2, h3, h4⟩ := ih (fun k' hk' => h k' (by simp [hk']))
    have hk := h k (by simp)
    refine ⟨?_, ?_, ?_, ?_⟩
    · have := hk.known
      simp only [kidsKnown, List.flatMap_cons, List.all_append, Bool.and_eq_true] at this h1 ⊢
      exact ⟨this, h1⟩
    · rw [List.flatMap_cons, leafArgs_append κ _ _ _ _ hk.args h2]
      cases he : S.entry (fmtOf κ) k <;> simp [List.filterMap_cons, he]
    · rw [List.flatMap_cons, denoteSecs_append lib κ _ _ _ _ hk.secs h3]; simp
    · rw [List.flatMap_cons, denoteProps_append lib κ _ _ _ _ hk.props h4]; simp

theorem leafArg_text (py : String) (s : Str)
    (hq : (strip s).isEmpty = true ∨
      ((py == "values") = false ∧ "_cardinality".toList.isSuffixOf py.toList = false)) :
    leafArg py (if s.isEmpty then none else some s) = some (textArg s) := by
  by_cases he : s.isEmpty = true
  · simp [leafArg, he, textArg, normText]
  · rcases hq with hq | ⟨hv, hc⟩
    · simp [leafArg, he, textArg, normText, hq]
    · have hc' := suffix_false hc
      have hc'' : ¬ (['_', 'c', 'a', 'r', 'd', 'i', 'n', 'a', 'l', 'i', 't', 'y'] <:+ py.toList) := hc'
      simp [leafArg, he, hv, hc'', textArg, normText]

theorem leafArg_vals (py : String) (s : Str) (vs : List Str) (hv : py = "values")
    (hs : (strip s).isEmpty = false) (hcsv : fromCsv s = .ok vs) :
    leafArg py (if s.isEmpty then none else some s) = some (.vals vs) := by
  have he := ne_nil_of_strip hs
  subst hv
  simp [leafArg, he, hs, hcsv]

theorem leafArg_card (py : String) (s : Str) (hv : (py == "values") = false)
    (hc : "_cardinality".toList.isSuffixOf py.toList = true) (hs : (strip s).isEmpty = false) :
    leafArg py (if s.isEmpty then none else some s) = some (.card (Card.parseCardText s)) := by
  have he := ne_nil_of_strip hs
  have hc' : ['_', 'c', 'a', 'r', 'd', 'i', 'n', 'a', 'l', 'i', 't', 'y'] <:+ py.toList :=
    List.isSuffixOf_iff_suffix.mp hc
  simp [leafArg, he, hv, hs, hc']

/-- the elements of one key are at most one leaf, and the leaf stands for the argument -/
def LeafShape (κ : Kind) (emitk : List X) (argk : Option ArgV) (k : String) : Prop :=
  (emitk = [] ∧ argk = none) ∨
  (∃ s v, emitk = [leaf k s] ∧ leafKeyOK κ k = true ∧
    leafArg ((fmtOf κ).pyName k) (if s.isEmpty then none else some s) = some v ∧ argk = some v)

theorem shape_text (κ : Kind) (k : String) (h : textKeyOK κ k = true) (s : Str) :
    LeafShape κ [leaf k s] (some (textArg s)) k := by
  simp only [textKeyOK, Bool.and_eq_true, Bool.not_eq_true'] at h
  exact Or.inr ⟨s, _, rfl, h.1.1, leafArg_text _ s (Or.inr ⟨h.1.2, h.2⟩), rfl⟩

theorem shape_optText (κ : Kind) (k : String) (h : textKeyOK κ k = true) (o : Option Str) :
    LeafShape κ (optLeaf k o) (o.map textArg) k := by
  cases o with
  | none => exact Or.inl ⟨rfl, rfl⟩
  | some s => exact shape_text κ k h s

theorem shape_card (κ : Kind) (k : String) (h : cardKeyOK κ k = true) (c : Card.Card) :
    LeafShape κ (cardLeaf k c) (c.map cardArg) k := by
  simp only [cardKeyOK, Bool.and_eq_true, Bool.not_eq_true'] at h
  cases c with
  | none => exact Or.inl ⟨rfl, rfl⟩
  | some c =>
    exact Or.inr ⟨_, _, rfl, h.1.1, leafArg_card _ _ h.1.2 h.2 (renderCardText_strip c), rfl⟩

theorem shape_vals (κ : Kind) (k : String) (h : valsKeyOK κ k = true) (s : Str) (vs : List Str)
    (hv : s.isEmpty = true ∨ ((strip s).isEmpty = false ∧ fromCsv s = .ok vs)) :
    LeafShape κ [leaf k s] (some (valsArg s vs)) k := by
  simp only [valsKeyOK, Bool.and_eq_true, beq_iff_eq] at h
  refine Or.inr ⟨s, _, rfl, h.1, ?_, rfl⟩
  rcases hv with he | ⟨hs, hc⟩
  · have hs : (strip s).isEmpty = true := by
      have : s = [] := by simpa using he
      subst this; rfl
    rw [leafArg_text _ s (Or.inl hs)]
    simp [valsArg, he, textArg, normText]
  · rw [leafArg_vals _ s vs h.2 hs hc]
    simp [valsArg, ne_nil_of_strip hs]

theorem keyDen_of_shape (lib : TokLib) (κ : Kind) (S : KeySpec) (emitk : List X) (k : String)
    (h : LeafShape κ emitk (S.arg k) k) (hs : S.secs k = []) (hp : S.props k = []) :
    KeyDen lib κ S emitk k := by
  rcases h with ⟨he, ha⟩ | ⟨s, v, he, hok, hv, ha⟩
  · exact ⟨by rw [he]; rfl, by rw [he]; simp [KeySpec.entry, ha, leafArgs],
      by rw [he, hs]; rfl, by rw [he, hp]; rfl⟩
  · simp only [leafKeyOK, Bool.and_eq_true, beq_iff_eq, Bool.not_eq_true'] at hok
    obtain ⟨⟨h0, h1⟩, h2⟩ := hok
    have hlt : ltag (leaf k s) = k := by simp [ltag, leaf, X.tag, h0]
    have hch : isChild κ k = false := h2
    refine ⟨?_, ?_, ?_, ?_⟩
    · rw [he]; simp only [kidsKnown, List.all_cons, List.all_nil, hlt, h1, hch]; rfl
    · rw [he, leafArgs]
      simp only [hlt, hch, Bool.false_eq_true, if_false, argName, leafArgs]
      have : (leaf k s).text = (if s.isEmpty then none else some s) := rfl
      rw [this, hv]
      simp [KeySpec.entry, ha]
    · rw [he, hs, denoteSecs]; simp [hlt, hch, denoteSecs]
    · rw [he, hp, denoteProps]; simp [hlt, hch, denoteProps]

theorem lookup_entries (S : KeySpec) (f : Fmt) (L : List String)
    (hn : (L.map f.pyName).Nodup) (k : String) (hk : k ∈ L) :
    (L.filterMap (S.entry f)).lookup (f.pyName k) = S.arg k := by
  have h := lookup_foldl S f L 0 hn k hk
  rw [foldl_apply_args] at h
  simp only [List.append_nil] at h
  rw [← lookup_reverse_nodup _ ((entries_keys_sublist S f L).nodup hn)]
  exact h

theorem entries_argsOK (κ : Kind) (S : KeySpec) (kids : List X)
    (hn : ((fmtOf κ).keys.map (fmtOf κ).pyName).Nodup)
    (hreq : ∀ kr ∈ (fmtOf κ).args, kr.2 ≠ 0 → (S.arg kr.1).isSome = true) :
    argsOK κ ((fmtOf κ).keys.filterMap (S.entry (fmtOf κ))) kids = true := by
  simp only [argsOK, Bool.and_eq_true, decide_eq_true_eq]
  refine ⟨(entries_keys_sublist S _ _).nodup hn, ?_⟩
  simp only [mandOK, List.all_eq_true]
  intro kr hkr
  by_cases h0 : kr.2 = 0
  · simp [h0]
  · have hk : kr.1 ∈ (fmtOf κ).keys := List.mem_map.mpr ⟨kr, hkr, rfl⟩
    have hl := lookup_entries S (fmtOf κ) _ hn kr.1 hk
    have hm := mem_keys_of_lookup _ _ (by rw [hl]; exact hreq kr hkr h0)
    simp only [Bool.or_eq_true, beq_iff_eq, List.contains_eq_mem, decide_eq_true_eq, List.mem_append]
    exact Or.inr (Or.inl hm)

/-! #### Property -/

theorem prop_shape (p : PropT) (vs : List Str)
    (hv : (valueText p).isEmpty = true ∨
      ((strip (valueText p)).isEmpty = false ∧ fromCsv (valueText p) = .ok vs)) (k : String) :
    LeafShape .prop (propKey p k) (propArg vs p k) k := by
  unfold propKey
  split
  · exact shape_text .prop "id" (by decide) _
  · exact shape_text .prop "name" (by decide) _
  · exact shape_vals .prop "value" (by decide) _ vs hv
  · exact shape_optText .prop "unit" (by decide) _
  · exact shape_optText .prop "definition" (by decide) _
  · exact shape_optText .prop "dependency" (by decide) _
  · exact shape_optText .prop "dependencyvalue" (by decide) _
  · exact shape_optText .prop "uncertainty" (by decide) _
  · exact shape_optText .prop "reference" (by decide) _
  · exact shape_optText .prop "type" (by decide) _
  · exact shape_optText .prop "value_origin" (by decide) _
  · exact shape_card .prop "val_cardinality" (by decide) _
  · have : propArg vs p k = none := by
      unfold propArg
      split <;> first | rfl | (exfalso; simp_all)
    exact Or.inl ⟨rfl, this⟩

/-- **The element written for a Property is conformant and denotes the trimmed Property.** -/
theorem writeProp_denotes (lib : TokLib) (p : PropT)
    (hwf : propWf lib p = true) (hrepr : propRepr p = true) (hlow : propLower p = true) :
    denoteProp lib (writeProp p) = some (trimProp p) := by
  obtain ⟨vs, hv1, hv2⟩ := value_elem lib p hwf hrepr hlow
  have hnd : ((fmtOf .prop).keys.map (fmtOf .prop).pyName).Nodup := by decide
  obtain ⟨h1, h2, _, _⟩ := keyDen_fold lib .prop (propSpec vs p) (propKey p) (fmtOf .prop).keys
    (fun k _ => keyDen_of_shape lib .prop _ _ k (prop_shape p vs hv1 k) rfl rfl)
  have hreq : ∀ kr ∈ (fmtOf .prop).args, kr.2 ≠ 0 → ((propSpec vs p).arg kr.1).isSome = true := by
    have : ∀ kr ∈ (fmtOf .prop).args, kr.2 ≠ 0 → kr.1 = "id" ∨ kr.1 = "name" ∨ kr.1 = "value" := by
      decide
    intro kr hkr h0
    rcases this kr hkr h0 with h | h | h <;> rw [h] <;> rfl
  have hok := entries_argsOK .prop (propSpec vs p) ((fmtOf .prop).keys.flatMap (propKey p)) hnd hreq
  have hcr := createProp_of lib _ p vs hwf hrepr hlow hv2
    (fun k hk => lookup_entries (propSpec vs p) (fmtOf .prop) _ hnd k hk)
  rw [writeProp, denoteProp, flatMap_keys]
  have e : (Gen.Format.propertyArgs.map (·.1)) = (fmtOf .prop).keys := rfl
  rw [e]
  simp only [List.isEmpty_nil, h1, Bool.and_self, if_true, h2, hok, hcr]

/-! #### children -/

theorem isChild_of_childOK (κ : Kind) (t : String) (h : childOK κ t = true) :
    (fmtOf κ).keys.contains (lowerS t) = true ∧ isChild κ (lowerS t) = true := by
  simp only [childOK, Bool.and_eq_true] at h
  exact ⟨h.1.1, by simp only [isChild, h.1.2, h.2, Bool.and_self]⟩

/-- the Property elements under a parent of kind `κ` -/
theorem props_den (lib : TokLib) (κ : Kind) (hκ : childOK κ Gen.Format.propertyName = true) :
    ∀ (ps : List PropT),
      (∀ p ∈ ps, propWf lib p = true ∧ propRepr p = true ∧ propLower p = true) →
      kidsKnown κ (ps.map writeProp) = true ∧ leafArgs κ (ps.map writeProp) = some [] ∧
      denoteSecs lib κ (ps.map writeProp) = some [] ∧
      denoteProps lib κ (ps.map writeProp) = some (ps.map trimProp) := by
  obtain ⟨hkey, hch⟩ := isChild_of_childOK κ _ hκ
  have hl : lowerS Gen.Format.propertyName = Gen.Format.propertyName := by decide
  have hne : (Gen.Format.propertyName == Gen.Format.sectionName) = false := by decide
  have hne' : (Gen.Format.propertyName != Gen.Format.sectionName) = true := by decide
  rw [hl] at hkey hch
  intro ps
  induction ps with
  | nil => intro _; exact ⟨rfl, rfl, rfl, rfl⟩
  | cons p ps ih =>
    intro h
    obtain ⟨h1, h2, h3, h4⟩ := ih (fun q hq => h q (by simp [hq]))
    obtain ⟨hw, hr, hlo⟩ := h p (by simp)
    have hlt : ltag (writeProp p) = Gen.Format.propertyName := by
      simp [ltag, writeProp, X.tag, hl]
    refine ⟨?_, ?_, ?_, ?_⟩
    · simp only [kidsKnown, List.map_cons, List.all_cons, hlt, hkey, hch, beq_self_eq_true,
        Bool.or_true, Bool.and_self, Bool.true_and]
      exact h1
    · rw [List.map_cons, leafArgs]; simp only [hlt, hch, if_true]; exact h2
    · rw [List.map_cons, denoteSecs]
      simp only [hlt, hch, hne, Bool.and_false, Bool.false_eq_true, if_false]; exact h3
    · rw [List.map_cons, denoteProps]
      simp only [hlt, hch, hne', Bool.and_self, if_true, writeProp_denotes lib p hw hr hlo, h4,
        List.map_cons]

/-- the Section elements under a parent of kind `κ`, given what each denotes -/
theorem secs_den_of (lib : TokLib) (κ : Kind) (hκ : childOK κ Gen.Format.sectionName = true) :
    ∀ (ss : List SecT), (∀ s ∈ ss, denoteSec lib (writeSec s) = some (trimSec s)) →
      kidsKnown κ (writeSecs ss) = true ∧ leafArgs κ (writeSecs ss) = some [] ∧
      denoteSecs lib κ (writeSecs ss) = some (trimSecs ss) ∧
      denoteProps lib κ (writeSecs ss) = some [] := by
  obtain ⟨hkey, hch⟩ := isChild_of_childOK κ _ hκ
  have hl : lowerS Gen.Format.sectionName = Gen.Format.sectionName := by decide
  rw [hl] at hkey hch
  intro ss
  induction ss with
  | nil => intro _; exact ⟨rfl, rfl, rfl, rfl⟩
  | cons s ss ih =>
    intro h
    obtain ⟨h1, h2, h3, h4⟩ := ih (fun q hq => h q (by simp [hq]))
    have hs := h s (by simp)
    have hlt : ltag (writeSec s) = Gen.Format.sectionName := by
      obtain ⟨kids, hk⟩ := writeSec_elem s
      simp [hk, ltag, X.tag, hl]
    refine ⟨?_, ?_, ?_, ?_⟩
    · simp only [kidsKnown, writeSecs, List.all_cons, hlt, hkey, hch, beq_self_eq_true,
        Bool.or_true, Bool.true_or, Bool.and_self, Bool.true_and]
      exact h1
    · rw [writeSecs, leafArgs]; simp only [hlt, hch, if_true]; exact h2
    · rw [writeSecs, denoteSecs]
      simp only [hlt, hch, beq_self_eq_true, Bool.and_self, if_true, hs, h3, trimSecs]
    · rw [writeSecs, denoteProps]
      simp only [hlt, hch, bne_self_eq_false, Bool.and_false, Bool.false_eq_true, if_false]; exact h4

theorem namesFree_of_nodup (names : List (Option Str)) (h : names.Nodup) : namesFree names = true := by
  simp only [namesFree, decide_eq_true_eq]
  exact List.Nodup.sublist List.filter_sublist h

/-! #### Section -/

/-- the four facts about a list of child elements -/
def KidsDen (lib : TokLib) (κ : Kind) (kids : List X) (ss : List SecT) (ps : List PropT) : Prop :=
  kidsKnown κ kids = true ∧ leafArgs κ kids = some [] ∧
  denoteSecs lib κ kids = some ss ∧ denoteProps lib κ kids = some ps

theorem sec_keyDen (lib : TokLib) (id name type defn ref link repo incl : Option Str)
    (secs : List SecT) (props : List PropT) (sc pc : Card.Card)
    (hsecs : KidsDen lib .sec (writeSecs secs) (trimSecs secs) [])
    (hprops : KidsDen lib .sec (props.map writeProp) [] (props.map trimProp)) (k : String) :
    KeyDen lib .sec (secSpec id name type defn ref link repo incl secs props sc pc)
      (secKey id name type defn ref link repo incl (writeSecs secs) (props.map writeProp) sc pc k) k := by
  unfold secKey
  split
  · exact keyDen_of_shape _ _ _ _ _ (shape_text .sec "id" (by decide) _) rfl rfl
  · exact keyDen_of_shape _ _ _ _ _ (shape_optText .sec "type" (by decide) _) rfl rfl
  · exact keyDen_of_shape _ _ _ _ _ (shape_text .sec "name" (by decide) _) rfl rfl
  · exact keyDen_of_shape _ _ _ _ _ (shape_optText .sec "definition" (by decide) _) rfl rfl
  · exact keyDen_of_shape _ _ _ _ _ (shape_optText .sec "reference" (by decide) _) rfl rfl
  · exact keyDen_of_shape _ _ _ _ _ (shape_optText .sec "link" (by decide) _) rfl rfl
  · exact keyDen_of_shape _ _ _ _ _ (shape_optText .sec "repository" (by decide) _) rfl rfl
  · exact ⟨hsecs.1, hsecs.2.1, hsecs.2.2.1, hsecs.2.2.2⟩
  · exact keyDen_of_shape _ _ _ _ _ (shape_optText .sec "include" (by decide) _) rfl rfl
  · exact ⟨hprops.1, hprops.2.1, hprops.2.2.1, hprops.2.2.2⟩
  · exact keyDen_of_shape _ _ _ _ _ (shape_card .sec "sec_cardinality" (by decide) _) rfl rfl
  · exact keyDen_of_shape _ _ _ _ _ (shape_card .sec "prop_cardinality" (by decide) _) rfl rfl
  · have h1 : secArg id name type defn ref link repo incl sc pc k = none := by
      unfold secArg
      split <;> first | rfl | (exfalso; simp_all)
    have h3 : kidsSecs secs k = [] := by
      unfold kidsSecs
      split <;> first | rfl | (exfalso; simp_all)
    have h4 : kidsProps props k = [] := by
      unfold kidsProps
      split <;> first | rfl | (exfalso; simp_all)
    exact keyDen_of_shape _ _ _ _ _ (Or.inl ⟨rfl, h1⟩) h3 h4

/-- the element written for a Section, given what the elements of its sub-Sections denote -/
theorem writeSec_denotes_core (lib : TokLib) (id name type defn ref link repo incl : Option Str)
    (secs : List SecT) (props : List PropT) (sc pc : Card.Card)
    (hsecs : KidsDen lib .sec (writeSecs secs) (trimSecs secs) [])
    (hwf : secWf lib (.mk id name type defn ref link repo incl secs props sc pc) = true)
    (hrepr : secRepr (.mk id name type defn ref link repo incl secs props sc pc) = true)
    (hlow : props.all propLower = true) :
    denoteSec lib (writeSec (.mk id name type defn ref link repo incl secs props sc pc)) =
      some (trimSec (.mk id name type defn ref link repo incl secs props sc pc)) := by
  simp only [secWf, Bool.and_eq_true, List.all_eq_true] at hwf
  obtain ⟨⟨⟨⟨⟨⟨hid, hname⟩, htype⟩, hsc⟩, hpc⟩, hpwf⟩, hswf⟩ := hwf
  simp only [secRepr, Bool.and_eq_true, List.all_eq_true] at hrepr
  obtain ⟨⟨⟨⟨hnr, hprepr⟩, hpd⟩, hsd⟩, _⟩ := hrepr
  have hprops := props_den lib .sec (by decide) props
    (fun p hp => ⟨hpwf p hp, hprepr p hp, List.all_eq_true.mp hlow p hp⟩)
  let S := secSpec id name type defn ref link repo incl secs props sc pc
  have hnd : ((fmtOf .sec).keys.map (fmtOf .sec).pyName).Nodup := by decide
  have hnk : (fmtOf .sec).keys.Nodup := by decide
  obtain ⟨h1, h2, h3, h4⟩ := keyDen_fold lib .sec S
    (secKey id name type defn ref link repo incl (writeSecs secs) (props.map writeProp) sc pc)
    (fmtOf .sec).keys
    (fun k _ => sec_keyDen lib id name type defn ref link repo incl secs props sc pc hsecs hprops k)
  have hreq : ∀ kr ∈ (fmtOf .sec).args, kr.2 ≠ 0 → (S.arg kr.1).isSome = true := by
    have : ∀ kr ∈ (fmtOf .sec).args, kr.2 ≠ 0 → kr.1 = "id" ∨ kr.1 = "name" ∨ kr.1 = "type" := by
      decide
    intro kr hkr h0
    rcases this kr hkr h0 with h | h | h <;> rw [h]
    · rfl
    · rfl
    · cases type with
      | none => simp at htype
      | some s => rfl
  have hok := entries_argsOK .sec S ((fmtOf .sec).keys.flatMap
    (secKey id name type defn ref link repo incl (writeSecs secs) (props.map writeProp) sc pc)) hnd hreq
  have hcr := createSec_of _ id name type defn ref link repo incl sc pc hid hname htype hsc hpc hnr
    (fun k hk => lookup_entries S (fmtOf .sec) _ hnd k hk)
  have hS : (fmtOf .sec).keys.flatMap S.secs = trimSecs secs :=
    flatMap_single _ "section" _ hnk (by decide) (kidsSecs_other secs)
  have hP : (fmtOf .sec).keys.flatMap S.props = props.map trimProp :=
    flatMap_single _ "property" _ hnk (by decide) (kidsProps_other props)
  have hfs : namesFree ((trimSecs secs).map SecT.effName) = true := by
    apply namesFree_of_nodup
    rw [effNames_trimSecs secs lib hswf]; exact nodup_of_distinctTrimmed hsd
  have hfp : namesFree ((props.map trimProp).map PropT.effName) = true := by
    apply namesFree_of_nodup
    rw [effNames_trimProps lib props hpwf]; exact nodup_of_distinctTrimmed hpd
  rw [writeSec, denoteSec, flatMap_keys]
  have e : (Gen.Format.sectionArgs.map (·.1)) = (fmtOf .sec).keys := rfl
  rw [e]
  simp only [List.isEmpty_nil, h1, Bool.and_self, if_true, h2, h3, h4, hS, hP, hok, hfs, hfp, hcr,
    trimSec]

mutual
/-- **The element written for a Section at any depth is conformant and denotes the trimmed
    Section.** -/
theorem writeSec_denotes (lib : TokLib) : (s : SecT) → secWf lib s = true → secRepr s = true →
    secLower s = true → denoteSec lib (writeSec s) = some (trimSec s)
  | .mk id name type defn ref link repo incl secs props sc pc => by
    intro hwf hrepr hlow
    have hwf' := hwf
    have hrepr' := hrepr
    simp only [secWf, Bool.and_eq_true] at hwf'
    simp only [secRepr, Bool.and_eq_true] at hrepr'
    simp only [secLower, Bool.and_eq_true] at hlow
    have hsub := writeSecs_denotes lib secs hwf'.2 hrepr'.2 hlow.2
    exact writeSec_denotes_core lib id name type defn ref link repo incl secs props sc pc
      (secs_den_of lib .sec (by decide) secs hsub) hwf hrepr hlow.1
theorem writeSecs_denotes (lib : TokLib) : (ss : List SecT) → secsWf lib ss = true →
    secsRepr ss = true → secsLower ss = true →
    ∀ s ∈ ss, denoteSec lib (writeSec s) = some (trimSec s)
  | [] => by intro _ _ _ s hs; cases hs
  | x :: xs => by
    intro hwf hrepr hlow s hs
    simp only [secsWf, Bool.and_eq_true] at hwf
    simp only [secsRepr, Bool.and_eq_true] at hrepr
    simp only [secsLower, Bool.and_eq_true] at hlow
    by_cases hsx : s = x
    · rw [hsx]; exact writeSec_denotes lib x hwf.1 hrepr.1 hlow.1
    · have : s ∈ xs := by
        rcases List.mem_cons.mp hs with h | h
        · exact absurd h hsx
        · exact h
      exact writeSecs_denotes lib xs hwf.2 hrepr.2 hlow.2 s this
end

/-! #### Document -/

theorem doc_keyDen (lib : TokLib) (d : DocT)
    (hsecs : KidsDen lib .doc (writeSecs d.secs) (trimSecs d.secs) []) (k : String) :
    KeyDen lib .doc (docSpec d) (docKey d k) k := by
  unfold docKey
  split
  · exact keyDen_of_shape _ _ _ _ _ (shape_text .doc "id" (by decide) _) rfl rfl
  · exact keyDen_of_shape _ _ _ _ _ (shape_optText .doc "version" (by decide) _) rfl rfl
  · exact keyDen_of_shape _ _ _ _ _ (shape_optText .doc "author" (by decide) _) rfl rfl
  · exact keyDen_of_shape _ _ _ _ _ (shape_optText .doc "date" (by decide) _) rfl rfl
  · exact ⟨hsecs.1, hsecs.2.1, hsecs.2.2.1, hsecs.2.2.2⟩
  · exact keyDen_of_shape _ _ _ _ _ (shape_optText .doc "repository" (by decide) _) rfl rfl
  · have h1 : docArg d k = none := by
      unfold docArg
      split <;> first | rfl | (exfalso; simp_all)
    have h3 : kidsSecs d.secs k = [] := by
      unfold kidsSecs
      split <;> first | rfl | (exfalso; simp_all)
    exact keyDen_of_shape _ _ _ _ _ (Or.inl ⟨rfl, h1⟩) h3 rfl

/-- **The tree the writer builds is conformant odML-XML and denotes the trimmed document**
    (any size, any depth). -/
theorem write_denotes (lib : TokLib) (d : DocT) (hwf : wfDoc lib d = true)
    (hrepr : xmlRepr d = true) (hlow : docLower d = true) :
    denote lib (writeTree d) = some (trimDoc d) := by
  simp only [wfDoc, Bool.and_eq_true] at hwf
  obtain ⟨⟨hid, hdate⟩, hswf⟩ := hwf
  simp only [xmlRepr, Bool.and_eq_true] at hrepr
  obtain ⟨hsd, hsrepr⟩ := hrepr
  have hsecs := secs_den_of lib .doc (by decide) d.secs
    (writeSecs_denotes lib d.secs hswf hsrepr hlow)
  have hnd : ((fmtOf .doc).keys.map (fmtOf .doc).pyName).Nodup := by decide
  have hnk : (fmtOf .doc).keys.Nodup := by decide
  obtain ⟨h1, h2, h3, _⟩ := keyDen_fold lib .doc (docSpec d) (docKey d) (fmtOf .doc).keys
    (fun k _ => doc_keyDen lib d hsecs k)
  have hreq : ∀ kr ∈ (fmtOf .doc).args, kr.2 ≠ 0 → ((docSpec d).arg kr.1).isSome = true := by
    have : ∀ kr ∈ (fmtOf .doc).args, kr.2 ≠ 0 → kr.1 = "id" := by decide
    intro kr hkr h0
    rw [this kr hkr h0]; rfl
  have hok := entries_argsOK .doc (docSpec d) ((fmtOf .doc).keys.flatMap (docKey d)) hnd hreq
  have hcr := createDoc_of lib _ d hid hdate
    (fun k hk => lookup_entries (docSpec d) (fmtOf .doc) _ hnd k hk)
  have hS : (fmtOf .doc).keys.flatMap (docSpec d).secs = trimSecs d.secs :=
    flatMap_single _ "section" _ hnk (by decide) (kidsSecs_other d.secs)
  have hfs : namesFree ((trimSecs d.secs).map SecT.effName) = true := by
    apply namesFree_of_nodup
    rw [effNames_trimSecs d.secs lib hswf]; exact nodup_of_distinctTrimmed hsd
  have hname : Gen.Format.documentName = "odML" := by decide
  have hv : (lowerS "version" == "version") = true := by decide
  rw [writeTree, hname, flatMap_keys]
  have e : (Gen.Format.documentArgs.map (·.1)) = (fmtOf .doc).keys := rfl
  rw [e]
  simp only [denote, beq_self_eq_true, List.lookup, List.all_cons, List.all_nil, hv, h1,
    Bool.and_self, if_true, h2, h3, hS, hok, hfs, hcr]
  rfl

end Xml
