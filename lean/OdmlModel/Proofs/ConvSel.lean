/-
C15, whole-tree composition, part 1: what the reader looks at, and the six passes seen through it.

The strict reader (`readDoc` / `readSec` / `readProp`) looks at the children of an element only
through "the children with tag `t`, in order" (`sel t`): the last one for a text, all of them
for Sections / Properties.  This file expresses the reader in terms of `sel` and computes
`sel t` of the output of every pass of the converter from `sel t` of its input.
-/
import OdmlModel.Proofs.Conv

namespace Conv
open Conv.Xml

/-- The children with tag `t`, in document order. -/
def sel (t : String) (ks : List Xml) : List Xml := ks.filter (fun k => k.tag == t)

theorem sel_nil (t : String) : sel t [] = [] := rfl

theorem sel_cons (t : String) (k : Xml) (ks : List Xml) :
    sel t (k :: ks) = if k.tag = t then k :: sel t ks else sel t ks := by
  by_cases h : k.tag = t <;> simp [sel, h]

theorem sel_append (t : String) (a b : List Xml) : sel t (a ++ b) = sel t a ++ sel t b := by
  simp [sel]

theorem mem_sel {t : String} {k : Xml} {ks : List Xml} : k ∈ sel t ks ↔ k ∈ ks ∧ k.tag = t := by
  simp [sel]

theorem sel_single (t : String) (k : Xml) : sel t [k] = if k.tag = t then [k] else [] := by
  rw [sel_cons]; rfl

/-! ## The reader in terms of `sel` -/

theorem find_eq_head (t : String) (ks : List Xml) : find t ks = (sel t ks).head? := by
  induction ks with
  | nil => rfl
  | cons k ks ih =>
    rw [sel_cons]
    by_cases h : k.tag = t
    · simp [find, h]
    · simp [find, h, ih]

theorem findLast_eq_getLast (t : String) (ks : List Xml) : findLast t ks = (sel t ks).getLast? := by
  unfold findLast
  rw [find_eq_head]
  simp [sel, List.filter_reverse]

theorem find_congr {t : String} {a b : List Xml} (h : sel t a = sel t b) : find t a = find t b := by
  rw [find_eq_head, find_eq_head, h]

theorem findLast_congr {t : String} {a b : List Xml} (h : sel t a = sel t b) :
    findLast t a = findLast t b := by
  rw [findLast_eq_getLast, findLast_eq_getLast, h]

theorem findText_congr {t : String} {a b : List Xml} (h : sel t a = sel t b) :
    findText t a = findText t b := by
  unfold findText; rw [find_congr h]

theorem lastText_congr {t : String} {a b : List Xml} (h : sel t a = sel t b) :
    lastText t a = lastText t b := by
  unfold lastText; rw [findLast_congr h]

theorem readValues_congr {a b : List Xml} (h : sel "value" a = sel "value" b) :
    readValues a = readValues b := by
  unfold readValues; rw [findLast_congr h]

/-- With at most one child of a tag, the reader's "last wins" is the converter's "first". -/
theorem findLast_eq_find_of_le_one (t : String) (ks : List Xml) (h : (sel t ks).length ≤ 1) :
    findLast t ks = find t ks := by
  rw [findLast_eq_getLast, find_eq_head]
  match hs : sel t ks, h with
  | [], _ => rfl
  | [a], _ => rfl
  | _ :: _ :: _, h => simp at h

theorem lastText_of_le_one (t : String) (ks : List Xml) (h : (sel t ks).length ≤ 1) :
    lastText t ks = Py.strip (findText t ks) := by
  unfold lastText findText
  rw [findLast_eq_find_of_le_one t ks h]
  cases find t ks <;> simp [strip_nil]

theorem lastText_of_sel_nil (t : String) (ks : List Xml) (h : sel t ks = []) : lastText t ks = [] := by
  unfold lastText; rw [findLast_eq_getLast, h]; rfl

theorem uniqueTags_le_one {ks : List Xml} {ts : List String} (h : uniqueTags ks ts = true)
    {t : String} (ht : t ∈ ts) : (sel t ks).length ≤ 1 := by
  simp only [uniqueTags, List.all_eq_true, decide_eq_true_eq] at h
  exact h t ht

theorem readProps_eq (ks : List Xml) : readProps ks = (sel "property" ks).map readProp := by
  induction ks with
  | nil => rfl
  | cons k ks ih =>
    rw [sel_cons]
    by_cases h : k.tag = "property" <;> simp [readProps, h, ih]

theorem readSecs_eq (ks : List Xml) : readSecs ks = (sel "section" ks).map readSec := by
  induction ks with
  | nil => simp [readSecs, sel_nil]
  | cons k ks ih =>
    rw [sel_cons]
    by_cases h : k.tag = "section" <;> simp [readSecs, h, ih]

/-! ## Generic: a pass that rewrites children one by one and keeps their tags -/

theorem sel_map_same (t : String) (f : Xml → Xml) (ks : List Xml) (hf : ∀ k, (f k).tag = k.tag) :
    sel t (ks.map f) = (sel t ks).map f := by
  induction ks with
  | nil => rfl
  | cons k ks ih =>
    rw [List.map_cons, sel_cons, sel_cons, hf k]
    by_cases h : k.tag = t <;> simp [h, ih]

/-- Children whose tag the pass does not touch come through unchanged. -/
theorem sel_map_other (t : String) (f : Xml → Xml) (ks : List Xml) (hf : ∀ k, (f k).tag = k.tag)
    (hid : ∀ k, k.tag = t → f k = k) : sel t (ks.map f) = sel t ks := by
  rw [sel_map_same t f ks hf]
  have : ∀ k ∈ sel t ks, f k = k := fun k hk => hid k (mem_sel.1 hk).2
  calc (sel t ks).map f = (sel t ks).map id := List.map_congr_left (by simpa using this)
    _ = sel t ks := by simp

theorem sel_filter_keep (t : String) (q : Xml → Bool) (ks : List Xml)
    (hq : ∀ k, k.tag = t → q k = true) : sel t (ks.filter q) = sel t ks := by
  induction ks with
  | nil => rfl
  | cons k ks ih =>
    rw [List.filter_cons]
    by_cases h : k.tag = t
    · rw [if_pos (hq k h), sel_cons, sel_cons, if_pos h, if_pos h, ih]
    · by_cases hk : q k = true
      · rw [if_pos hk, sel_cons, sel_cons, if_neg h, if_neg h, ih]
      · rw [if_neg hk, sel_cons, if_neg h, ih]

theorem sel_filter_drop (t : String) (q : Xml → Bool) (ks : List Xml)
    (hq : ∀ k, k.tag = t → q k = false) : sel t (ks.filter q) = [] := by
  induction ks with
  | nil => rfl
  | cons k ks ih =>
    rw [List.filter_cons]
    by_cases h : k.tag = t
    · simp [hq k h, ih]
    · by_cases hk : q k = true
      · rw [if_pos hk, sel_cons, if_neg h, ih]
      · rw [if_neg hk, ih]

/-! ## Stage 1 -/

theorem sel_setFirstText_other (t : String) (n : List Char) (ks : List Xml) (ht : t ≠ "name") :
    sel t (setFirstText "name" n ks) = sel t ks := by
  induction ks with
  | nil => rfl
  | cons k ks ih =>
    simp only [setFirstText]
    split
    · rename_i hk
      have hkt : k.tag ≠ t := by rw [hk]; exact fun e => ht e.symm
      rw [sel_cons, sel_cons]; simp [hkt]
    · rw [sel_cons, sel_cons, ih]

/-- The one `name` child gets the new text. -/
theorem sel_setFirstText_name (n : List Char) (ks : List Xml) (nm : Xml)
    (h : sel "name" ks = [nm]) :
    sel "name" (setFirstText "name" n ks) = [.elem "name" nm.attrs n nm.kids] := by
  induction ks with
  | nil => simp [sel_nil] at h
  | cons k ks ih =>
    rw [sel_cons] at h
    simp only [setFirstText]
    by_cases hk : k.tag = "name"
    · rw [if_pos hk] at h ⊢
      simp only [List.cons.injEq] at h
      rw [sel_cons]; simp [h.2, ← h.1, hk]
    · rw [if_neg hk] at h ⊢
      rw [sel_cons, if_neg hk]; exact ih h

theorem sel_rename_other (t : String) (n : List Char) (k : Xml) (ht : t ≠ "name") :
    sel t (rename n k).kids = sel t k.kids := by
  rw [rename_kids, sel_setFirstText_other t n _ ht]

theorem sel_p1Kids_other (t : String) (hs : t ≠ "section") (hp : t ≠ "property") (b : Bool)
    (sm pm : Counter) (sd pd : List (List Char)) (ks : List Xml) :
    sel t (p1Kids b sm pm sd pd ks) = sel t ks := by
  induction ks generalizing sm pm sd pd with
  | nil => simp [p1Kids]
  | cons k ks ih =>
    simp only [p1Kids]
    split
    · rename_i hk
      have hkt : ¬ k.tag = t := by rw [hk]; exact fun e => hs e.symm
      split <;> (rw [sel_cons, sel_cons]; simp [rename_tag, p1_tag, hkt, ih])
    · split
      · rename_i _ hk
        simp only [Bool.and_eq_true, decide_eq_true_eq] at hk
        have hkt : ¬ k.tag = t := by rw [hk.1]; exact fun e => hp e.symm
        split <;> (rw [sel_cons, sel_cons]; simp [rename_tag, hkt, ih])
      · rw [sel_cons, sel_cons, ih]

/-! ## Stage 3 -/

theorem p3_tag (enc : Bool) (k : Xml) : (p3 enc k).1.tag = k.tag := by cases k; simp [p3]
theorem transformProp_tag (enc : Bool) (sn st : List Char) (p : Xml) :
    (transformProp enc sn st p).1.tag = p.tag := rfl

theorem sel_p3Kids_other (t : String) (hs : t ≠ "section") (hp : t ≠ "property") (enc : Bool)
    (sn st : List Char) (ks : List Xml) : sel t (p3Kids enc sn st ks).1 = sel t ks := by
  induction ks with
  | nil => simp [p3Kids]
  | cons k ks ih =>
    simp only [p3Kids]
    split
    · rename_i hk
      have hkt : ¬ k.tag = t := by rw [hk]; exact fun e => hp e.symm
      split
      · rw [sel_cons, if_neg hkt]; exact ih
      · simp only []
        rw [sel_cons, sel_cons, transformProp_tag, if_neg hkt, if_neg hkt]; exact ih
    · split
      · rename_i _ hk
        have hkt : ¬ k.tag = t := by rw [hk]; exact fun e => hs e.symm
        simp only []
        rw [sel_cons, sel_cons, p3_tag, if_neg hkt, if_neg hkt]; exact ih
      · simp only []
        rw [sel_cons, sel_cons, ih]

theorem sel_p3Kids_section (enc : Bool) (sn st : List Char) (ks : List Xml) :
    sel "section" (p3Kids enc sn st ks).1 = (sel "section" ks).map (fun k => (p3 enc k).1) := by
  induction ks with
  | nil => simp [p3Kids, sel_nil]
  | cons k ks ih =>
    simp only [p3Kids]
    split
    · rename_i hk
      have hkt : ¬ k.tag = "section" := by rw [hk]; decide
      split
      · rw [sel_cons, if_neg hkt]; exact ih
      · simp only []
        rw [sel_cons, sel_cons, transformProp_tag, if_neg hkt, if_neg hkt]; exact ih
    · split
      · rename_i _ hk
        simp only []
        rw [sel_cons, sel_cons, p3_tag, if_pos hk, if_pos hk, List.map_cons, ih]
      · rename_i _ hk
        simp only []
        rw [sel_cons, sel_cons, if_neg hk, if_neg hk, ih]

/-- Named Properties are transformed, unnamed ones dropped. -/
def p3Prop (enc : Bool) (sn st : List Char) (k : Xml) : Option Xml :=
  if (find "name" k.kids).isNone then none else some (transformProp enc sn st k).1

theorem sel_p3Kids_property (enc : Bool) (sn st : List Char) (ks : List Xml) :
    sel "property" (p3Kids enc sn st ks).1 = (sel "property" ks).filterMap (p3Prop enc sn st) := by
  induction ks with
  | nil => simp [p3Kids, sel_nil]
  | cons k ks ih =>
    simp only [p3Kids]
    split
    · rename_i hk
      split
      · rename_i hn
        rw [sel_cons _ k, if_pos hk, List.filterMap_cons]
        simp only [p3Prop, hn]
        exact ih
      · rename_i hn
        simp only []
        rw [sel_cons, sel_cons _ k, transformProp_tag, if_pos hk, if_pos hk, List.filterMap_cons]
        simp only [p3Prop, hn]
        rw [ih]
        rfl
    · rename_i hk
      split
      · rename_i hk2
        have hkt : ¬ k.tag = "property" := hk
        simp only []
        rw [sel_cons, sel_cons _ k, p3_tag, if_neg hkt, if_neg hkt]; exact ih
      · simp only []
        rw [sel_cons, sel_cons _ k, if_neg hk, if_neg hk]; exact ih

/-! ## Stage 4 and 5 -/

theorem p4_tag (k : Xml) : (p4 k).1.tag = k.tag := by
  cases k; simp only [p4]; split <;> simp

theorem p4Kids_eq_map (ks : List Xml) :
    (p4Kids ks).1 = ks.map (fun k => if k.tag = "section" then (p4 k).1 else k) := by
  induction ks with
  | nil => simp [p4Kids]
  | cons k ks ih =>
    simp only [p4Kids, List.map_cons]
    split <;> simp [ih]

theorem sel_p4Kids_other (t : String) (hs : t ≠ "section") (ks : List Xml) :
    sel t (p4Kids ks).1 = sel t ks := by
  rw [p4Kids_eq_map]
  apply sel_map_other
  · intro k; split
    · exact p4_tag k
    · rfl
  · intro k hk
    have : ¬ k.tag = "section" := by rw [hk]; exact hs
    simp [this]

theorem sel_p4Kids_section (ks : List Xml) :
    sel "section" (p4Kids ks).1 = (sel "section" ks).map (fun k => (p4 k).1) := by
  rw [p4Kids_eq_map, sel_map_same]
  · apply List.map_congr_left
    intro k hk
    simp [(mem_sel.1 hk).2]
  · intro k; split
    · exact p4_tag k
    · rfl

theorem secCleanup_eq_filter (sn : List Char) (ks : List Xml) :
    (secCleanup sn ks).1 = ks.filter (fun k => decide (k.tag ∈ secKeys)) := by
  induction ks with
  | nil => simp [secCleanup]
  | cons k ks ih => simp only [secCleanup, List.filter_cons]; split <;> simp_all

theorem docCleanup_eq_filter (ks : List Xml) :
    (docCleanup ks).1 = ks.filter (fun k => decide (k.tag ∈ docKeys)) := by
  induction ks with
  | nil => simp [docCleanup]
  | cons k ks ih => simp only [docCleanup, List.filter_cons]; split <;> simp_all

theorem sel_secCleanup (t : String) (ht : t ∈ secKeys) (sn : List Char) (ks : List Xml) :
    sel t (secCleanup sn ks).1 = sel t ks := by
  rw [secCleanup_eq_filter]
  exact sel_filter_keep t _ ks (fun k hk => by simp [hk, ht])

theorem sel_docCleanup (t : String) (ht : t ∈ docKeys) (ks : List Xml) :
    sel t (docCleanup ks).1 = sel t ks := by
  rw [docCleanup_eq_filter]
  exact sel_filter_keep t _ ks (fun k hk => by simp [hk, ht])

/-! ## Stage 6 -/

theorem addId_tag (fresh : List Char) (e : Xml) : (addId fresh e).tag = e.tag := by
  cases e; simp only [addId]; split <;> rfl

theorem iter_addId_tag (fresh : List Char) (n : Nat) (e : Xml) :
    (iter (addId fresh) n e).tag = e.tag := by
  induction n generalizing e with
  | zero => rfl
  | succ n ih => simp only [iter]; rw [ih, addId_tag]

theorem p6_tag (fresh : List Char) (d : Nat) (k : Xml) : (p6 fresh d k).tag = k.tag := by
  cases k; simp only [p6]; rw [addId_tag]; rfl

/-- What stage 6 does to one child. -/
def p6One (fresh : List Char) (d : Nat) (k : Xml) : Xml :=
  if k.tag = "section" then p6 fresh d k
  else if k.tag = "property" then iter (addId fresh) d k else k

theorem p6One_tag (fresh : List Char) (d : Nat) (k : Xml) : (p6One fresh d k).tag = k.tag := by
  unfold p6One
  split
  · exact p6_tag fresh d k
  · split
    · exact iter_addId_tag fresh d k
    · rfl

theorem p6Kids_eq_map (fresh : List Char) (d : Nat) (ks : List Xml) :
    p6Kids fresh d ks = ks.map (p6One fresh d) := by
  induction ks with
  | nil => simp [p6Kids]
  | cons k ks ih => simp only [p6Kids, List.map_cons, ih, p6One]

theorem sel_p6Kids_other (t : String) (hs : t ≠ "section") (hp : t ≠ "property")
    (fresh : List Char) (d : Nat) (ks : List Xml) : sel t (p6Kids fresh d ks) = sel t ks := by
  rw [p6Kids_eq_map]
  apply sel_map_other _ _ _ (p6One_tag fresh d)
  intro k hk
  have h1 : ¬ k.tag = "section" := by rw [hk]; exact hs
  have h2 : ¬ k.tag = "property" := by rw [hk]; exact hp
  simp [p6One, h1, h2]

theorem sel_p6Kids_section (fresh : List Char) (d : Nat) (ks : List Xml) :
    sel "section" (p6Kids fresh d ks) = (sel "section" ks).map (p6 fresh d) := by
  rw [p6Kids_eq_map, sel_map_same _ _ _ (p6One_tag fresh d)]
  apply List.map_congr_left
  intro k hk
  simp [p6One, (mem_sel.1 hk).2]

theorem sel_p6Kids_property (fresh : List Char) (d : Nat) (ks : List Xml) :
    sel "property" (p6Kids fresh d ks) = (sel "property" ks).map (iter (addId fresh) d) := by
  rw [p6Kids_eq_map, sel_map_same _ _ _ (p6One_tag fresh d)]
  apply List.map_congr_left
  intro k hk
  have h := (mem_sel.1 hk).2
  have h1 : ¬ k.tag = "section" := by rw [h]; decide
  simp [p6One, h]

theorem sel_removeFirst_other (t r : String) (h : t ≠ r) (ks : List Xml) :
    sel t (removeFirst r ks) = sel t ks := by
  induction ks with
  | nil => rfl
  | cons k ks ih =>
    simp only [removeFirst]
    split
    · rename_i hk
      have : ¬ k.tag = t := by rw [hk]; exact fun e => h e.symm
      rw [sel_cons, if_neg this]
    · rw [sel_cons, sel_cons, ih]

theorem sel_removeFirst_same (t : String) (ks : List Xml) :
    sel t (removeFirst t ks) = (sel t ks).drop 1 := by
  induction ks with
  | nil => rfl
  | cons k ks ih =>
    simp only [removeFirst]
    by_cases hk : k.tag = t
    · rw [if_pos hk, sel_cons, if_pos hk]; rfl
    · rw [if_neg hk, sel_cons, sel_cons, if_neg hk, if_neg hk, ih]

/-- `_add_id` touches `id` children only. -/
theorem sel_addId_other (t : String) (ht : t ≠ "id") (fresh : List Char) (e : Xml) :
    sel t (addId fresh e).kids = sel t e.kids := by
  have hne : ¬ "id" = t := fun e => ht e.symm
  cases e with
  | elem tg a x ks =>
    simp only [addId]
    split
    · simp only [kids_elem, sel_append, sel_removeFirst_other t "id" ht, sel_single, leaf, tag_elem,
        hne, ↓reduceIte, List.append_nil]
    · simp only [kids_elem, sel_append, sel_single, leaf, tag_elem, hne, ↓reduceIte, List.append_nil]

/-- The id `_add_id` stores: the normalised own id if `uuid.UUID` accepts it, else a fresh one. -/
def idRes (fresh : List Char) (ks : List Xml) : List Char :=
  match find "id" ks with
  | some k => idOf fresh k.text
  | none => fresh

theorem sel_addId_id (fresh : List Char) (e : Xml) :
    sel "id" (addId fresh e).kids = (sel "id" e.kids).drop 1 ++ [leaf "id" (idRes fresh e.kids)] := by
  cases e with
  | elem tg a x ks =>
    simp only [addId, idRes, kids_elem]
    cases hf : find "id" ks with
    | some oid =>
      simp only [kids_elem, sel_append, sel_removeFirst_same, sel_single, leaf, tag_elem, ↓reduceIte]
    | none =>
      have : sel "id" ks = [] := by
        rw [find_eq_head] at hf
        cases hs : sel "id" ks with
        | nil => rfl
        | cons a as => rw [hs] at hf; cases hf
      simp only [kids_elem, sel_append, sel_single, leaf, tag_elem, ↓reduceIte, this, List.drop_nil]

end Conv
