/-
C16 — the dictionary reader computes the denotation of `Proofs/ReaderDictSpec.lean`
(`readDoc_spec`), and the denotation is a well-formed tree (`dDoc_wf`).
-/
import OdmlModel.Model.Reader
import OdmlModel.Proofs.Reader
import OdmlModel.Proofs.ReaderSpec
import OdmlModel.Proofs.ReaderWF
import OdmlModel.Proofs.ReaderDictSpec

set_option linter.unusedSimpArgs false
set_option linter.unusedVariables false

namespace Reader

/-! ## `parse_sections` computes `dSections` -/

theorem parseSecList_step_spec (g : Guards) (hs : g.shapeChecks = true) (hp : g.perChildAppend = true)
    (env : DEnv) (m : Mode) (x : J) (rest : List J)
    (hx : ∀ kvs, x = .obj kvs → ∀ st, secPairs g env m kvs st
      = outcome m (secPairsProblems env kvs) (secLoopAfter env kvs st))
    (hr : ∀ acc w, parseSecList g env m rest acc w
      = outcome m (secListProblems env rest) (acc ++ dSecList env rest, w + secListProblems env rest))
    (acc : List (Obj J)) (w : Nat) :
    parseSecList g env m (x :: rest) acc w
      = outcome m (secListProblems env (x :: rest))
          (acc ++ dSecList env (x :: rest), w + secListProblems env (x :: rest)) := by
  have other : ∀ y : J, (∀ kvs, y ≠ .obj kvs) →
      (raiseOrWarn m w >>= fun w' => parseSecList g env m rest acc w')
        = outcome m (1 + secListProblems env rest)
            (acc ++ dSecList env rest, w + (1 + secListProblems env rest)) := by
    intro y _
    rw [raiseOrWarn_eq_outcome]
    obind
    · exact hr _ _
    · rfl
    · congr 1; omega
  cases x with
  | obj kvs =>
    rw [parseSecList]
    rw [hx kvs rfl]
    obind
    · rw [finishSec_spec g hp]
      obind
      · exact hr _ _
      · rfl
      · rfl
    · simp only [secListProblems, secLoopAfter]
      omega
    · simp only [secListProblems, dSecList, secLoopAfter, List.append_assoc]
      congr 1
      omega
  | null =>
    unfold parseSecList; simp only [hs, if_true, secListProblems, dSecList]
    exact other .null (by intro kvs h; cases h)
  | bool b =>
    unfold parseSecList; simp only [hs, if_true, secListProblems, dSecList]
    exact other .null (by intro kvs h; cases h)
  | num i =>
    unfold parseSecList; simp only [hs, if_true, secListProblems, dSecList]
    exact other .null (by intro kvs h; cases h)
  | flt r =>
    unfold parseSecList; simp only [hs, if_true, secListProblems, dSecList]
    exact other .null (by intro kvs h; cases h)
  | str s =>
    unfold parseSecList; simp only [hs, if_true, secListProblems, dSecList]
    exact other .null (by intro kvs h; cases h)
  | arr ys =>
    unfold parseSecList; simp only [hs, if_true, secListProblems, dSecList]
    exact other .null (by intro kvs h; cases h)

theorem secSpec_all (g : Guards) (hg : g.DictOk) (env : DEnv) (m : Mode) (v : J) : SecSpec g env m v := by
  obtain ⟨_, _, _, hs, hp⟩ := hg
  refine J.rec (motive_1 := fun v => SecSpec g env m v)
    (motive_2 := fun xs => ∀ acc w, parseSecList g env m xs acc w
      = outcome m (secListProblems env xs) (acc ++ dSecList env xs, w + secListProblems env xs))
    (motive_3 := fun kvs => ∀ st, secPairs g env m kvs st
      = outcome m (secPairsProblems env kvs) (secLoopAfter env kvs st))
    (motive_4 := fun p => SecSpec g env m p.2)
    ?_ ?_ ?_ ?_ ?_ ?_ ?_ ?_ ?_ ?_ ?_ ?_ v
  · exact ⟨parseSections_nonarr_spec g hs env m _ (by intro xs h; cases h), by intro kvs h; cases h⟩
  · intro b
    exact ⟨parseSections_nonarr_spec g hs env m _ (by intro xs h; cases h), by intro kvs h; cases h⟩
  · intro i
    exact ⟨parseSections_nonarr_spec g hs env m _ (by intro xs h; cases h), by intro kvs h; cases h⟩
  · intro r
    exact ⟨parseSections_nonarr_spec g hs env m _ (by intro xs h; cases h), by intro kvs h; cases h⟩
  · intro s
    exact ⟨parseSections_nonarr_spec g hs env m _ (by intro xs h; cases h), by intro kvs h; cases h⟩
  · intro xs ih
    refine ⟨?_, by intro kvs h; cases h⟩
    intro w
    rw [parseSections]
    simp only [sectionsProblems, dSections]
    rw [ih [] w]
    simp
  · intro kvs ih
    refine ⟨parseSections_nonarr_spec g hs env m _ (by intro xs h; cases h), ?_⟩
    intro kvs' h st
    cases h
    exact ih st
  · intro acc w
    rw [parseSecList]
    simp only [secListProblems, dSecList, List.append_nil, Nat.add_zero]
    exact pure_eq_outcome m _
  · intro x rest ihx ihr acc w
    exact parseSecList_step_spec g hs hp env m x rest ihx.2 ihr acc w
  · intro st
    rw [secPairs]
    simp only [secPairsProblems, secLoopAfter, dSecParts, Nat.add_zero]
    exact pure_eq_outcome m _
  · intro p rest ihp ihr st
    obtain ⟨k, v⟩ := p
    exact secPairs_step_spec g hs env m k v rest ihp.1 ihr st
  · intro k v ih
    exact ih

theorem parseSections_spec (g : Guards) (hg : g.DictOk) (env : DEnv) (m : Mode) (v : J) (w : Nat) :
    parseSections g env m v w
      = outcome m (sectionsProblems env v) (dSections env v, w + sectionsProblems env v) :=
  (secSpec_all g hg env m v).1 w

/-! ## The document -/

structure DocParts where
  attrs : DArgs
  secs : List (Obj J)

/-- arguments and valid top-level Sections of the `Document` dictionary -/
def dDocParts (env : DEnv) : List (Str × J) → DocParts → DocParts
  | [], st => st
  | (k, v) :: rest, st =>
    if validKey .doc k then
      if k == "sections".toList then dDocParts env rest { st with secs := dSections env v }
      else dDocParts env rest { st with attrs := setAttr .doc k v st.attrs }
    else dDocParts env rest st

def docPairsProblems (env : DEnv) : List (Str × J) → Nat
  | [] => 0
  | (k, v) :: rest =>
    (if validKey .doc k then
      if k == "sections".toList then sectionsProblems env v else 0
     else 1) + docPairsProblems env rest

def docLoopAfter (env : DEnv) (kvs : List (Str × J)) (st : DocLoop) : DocLoop :=
  { attrs := (dDocParts env kvs ⟨st.attrs, st.secs⟩).attrs,
    secs := (dDocParts env kvs ⟨st.attrs, st.secs⟩).secs,
    w := st.w + docPairsProblems env kvs }

theorem docPairs_spec (g : Guards) (hg : g.DictOk) (env : DEnv) (m : Mode) (kvs : List (Str × J))
    (st : DocLoop) :
    docPairs g env m kvs st = outcome m (docPairsProblems env kvs) (docLoopAfter env kvs st) := by
  induction kvs generalizing st with
  | nil =>
    rw [docPairs]
    simp only [docPairsProblems, docLoopAfter, dDocParts, Nat.add_zero]
    exact pure_eq_outcome m _
  | cons p rest ih =>
    obtain ⟨k, v⟩ := p
    rw [docPairs, validAttr_spec]
    by_cases hk : validKey .doc k = true
    · simp only [hk, if_true, keyProblem]
      by_cases h1 : (k == "sections".toList) = true
      · obind
        · simp only [h1, if_true]
          rw [parseSections_spec g hg]
          obind
          · exact ih _
          · rfl
          · rfl
        · simp only [docPairsProblems, hk, h1, if_true, Nat.zero_add]
        · simp only [docLoopAfter, dDocParts, docPairsProblems, hk, h1, if_true]
          congr 1
          omega
      · obind
        · simp only [h1, Bool.false_eq_true, if_false]
          exact ih _
        · simp only [docPairsProblems, hk, h1, if_true, Bool.false_eq_true, if_false, Nat.zero_add]
        · simp only [docLoopAfter, dDocParts, docPairsProblems, hk, h1, if_true, Bool.false_eq_true,
            if_false]
          congr 1
          omega
    · simp only [hk, Bool.false_eq_true, if_false, keyProblem]
      obind
      · exact ih _
      · simp only [docPairsProblems, hk, Bool.false_eq_true, if_false]
      · simp only [docLoopAfter, dDocParts, docPairsProblems, hk, Bool.false_eq_true, if_false]
        congr 1
        omega

/-- the Document object: created from the collected arguments, the default one when the constructor
    refuses them -/
def dDocBase (env : DEnv) (attrs : DArgs) : Obj J :=
  Obj.mk .doc Name.fresh (!env.createFails .doc attrs) [] []

/-- **The valid parts of a `Document` dictionary.** -/
def dDoc (env : DEnv) (kvs : List (Str × J)) : Obj J :=
  keepValid J.pyEq (dDocBase env (dDocParts env kvs ⟨[], []⟩).attrs) (dDocParts env kvs ⟨[], []⟩).secs

/-- **The problems of a `Document` dictionary.** -/
def docProblems (env : DEnv) (kvs : List (Str × J)) : Nat :=
  docPairsProblems env kvs
    + ((if env.createFails .doc (dDocParts env kvs ⟨[], []⟩).attrs then 1 else 0)
      + refusedCount J.pyEq (dDocBase env (dDocParts env kvs ⟨[], []⟩).attrs)
          (dDocParts env kvs ⟨[], []⟩).secs)

theorem readDoc_spec (g : Guards) (hg : g.DictOk) (env : DEnv) (m : Mode) (kvs : List (Str × J)) :
    readDoc g env m (.obj kvs) = outcome m (docProblems env kvs) (dDoc env kvs, docProblems env kvs) := by
  have hg' := hg
  obtain ⟨_, hc, ha, _, _⟩ := hg'
  unfold readDoc
  simp only []
  rw [docPairs_spec g hg]
  have hinner : ∀ w1 : Nat, (raiseOrWarn m w1 >>= fun w' =>
      (pure (Obj.mk Kind.doc Name.fresh false [] [], w') : Except Err (Obj J × Nat)))
        = outcome m 1 (Obj.mk Kind.doc Name.fresh false [] [], w1 + 1) := by
    intro w1
    rw [raiseOrWarn_eq_outcome]
    exact outcome_bind m 1 0 _ _ _ (pure_eq_outcome m _)
  by_cases hf : env.createFails .doc (dDocParts env kvs ⟨[], []⟩).attrs = true
  · obind
    · simp only [hc, if_true, docLoopAfter, hf]
      rw [hinner]
      obind
      · exact insertDocSecs_eq g ha m _ _ _
      · rfl
      · rfl
    · simp only [docProblems, dDocBase, hf, if_true, Bool.not_true]
    · simp only [docProblems, dDoc, dDocBase, hf, if_true, Bool.not_true]
      congr 1
      omega
  · obind
    · simp only [hc, if_true, docLoopAfter, hf, Bool.false_eq_true, if_false]
      rw [pure_eq_outcome m]
      obind
      · exact insertDocSecs_eq g ha m _ _ _
      · rfl
      · rfl
    · simp only [docProblems, dDocBase, hf, Bool.false_eq_true, if_false, Bool.not_false]
    · simp only [docProblems, dDoc, dDocBase, hf, Bool.false_eq_true, if_false, Bool.not_false]
      congr 1
      omega

/-! ## The denotation is a well-formed tree -/

/-- The ids the constructors hand out as names are truthy (a canonical uuid string). -/
def DEnv.NamesOk (env : DEnv) : Prop := ∀ k a j, env.autoName k a = .given j → j.truthy = true

theorem dObjName_ok (env : DEnv) (he : env.NamesOk) (k : Kind) (a : DArgs) (j : J)
    (h : dObjName env k a = .given j) : j.truthy = true := by
  unfold dObjName at h
  split at h
  · cases h
  · split at h
    · split at h
      · rename_i ht
        cases h
        exact ht
      · exact he _ _ _ h
    · exact he _ _ _ h

abbrev DWF (o : Obj J) : Prop := TreeWF J.pyEq J.truthy o

theorem dProp_wf (env : DEnv) (he : env.NamesOk) (e : J) : ∀ c ∈ dProp env e, DWF c := by
  intro c hc
  cases e with
  | obj kvs =>
    simp only [dProp] at hc
    split at hc
    · cases hc
    · simp only [List.mem_singleton] at hc
      subst hc
      exact leaf_wf _ _ _ _ _ (fun a h => dObjName_ok env he _ _ a h)
  | _ => simp [dProp] at hc

theorem dPropList_wf (env : DEnv) (he : env.NamesOk) (l : List J) : ∀ c ∈ dPropList env l, DWF c := by
  induction l with
  | nil => intro c hc; simp [dPropList] at hc
  | cons e rest ih =>
    intro c hc
    simp only [dPropList, List.mem_append] at hc
    rcases hc with hc | hc
    · exact dProp_wf env he e c hc
    · exact ih c hc

theorem dProps_wf (env : DEnv) (he : env.NamesOk) (v : J) : ∀ c ∈ dProps env v, DWF c := by
  cases v with
  | arr xs => simpa [dProps] using dPropList_wf env he xs
  | _ => intro c hc; simp [dProps] at hc

theorem dSecObj_wf (env : DEnv) (he : env.NamesOk) (attrs : DArgs) (props secs : List (Obj J))
    (hp : ∀ c ∈ props, DWF c) (hs : ∀ c ∈ secs, DWF c) : ∀ c ∈ dSecObj env attrs props secs, DWF c := by
  intro c hc
  unfold dSecObj at hc
  split at hc
  · cases hc
  · simp only [List.mem_singleton] at hc
    subst hc
    refine keepValid_wf _ _ _ _ _ _ (fun a h => dObjName_ok env he _ _ a h) ?_
    intro x hx
    rcases List.mem_append.mp hx with hx | hx
    · exact hp x hx
    · exact hs x hx

/-- the collected Properties and Subsections are well-formed -/
@[reducible] def PartsWF (st : SecParts) : Prop := (∀ c ∈ st.props, DWF c) ∧ (∀ c ∈ st.secs, DWF c)

def SecWF (env : DEnv) (v : J) : Prop :=
  (∀ c ∈ dSections env v, DWF c) ∧
  (∀ kvs, v = .obj kvs → ∀ st, PartsWF st → PartsWF (dSecParts env kvs st))

theorem secWF_all (env : DEnv) (he : env.NamesOk) (v : J) : SecWF env v := by
  refine J.rec (motive_1 := fun v => SecWF env v)
    (motive_2 := fun xs => ∀ c ∈ dSecList env xs, DWF c)
    (motive_3 := fun kvs => ∀ st, PartsWF st → PartsWF (dSecParts env kvs st))
    (motive_4 := fun p => SecWF env p.2)
    ?_ ?_ ?_ ?_ ?_ ?_ ?_ ?_ ?_ ?_ ?_ ?_ v
  · exact ⟨by intro c hc; simp [dSections] at hc, by intro kvs h; cases h⟩
  · intro b; exact ⟨by intro c hc; simp [dSections] at hc, by intro kvs h; cases h⟩
  · intro i; exact ⟨by intro c hc; simp [dSections] at hc, by intro kvs h; cases h⟩
  · intro r; exact ⟨by intro c hc; simp [dSections] at hc, by intro kvs h; cases h⟩
  · intro s; exact ⟨by intro c hc; simp [dSections] at hc, by intro kvs h; cases h⟩
  · intro xs ih
    exact ⟨by simpa [dSections] using ih, by intro kvs h; cases h⟩
  · intro kvs ih
    refine ⟨by intro c hc; simp [dSections] at hc, ?_⟩
    intro kvs' h st
    cases h
    exact ih st
  · intro c hc
    simp [dSecList] at hc
  · intro x rest ihx ihr c hc
    cases x with
    | obj kvs =>
      simp only [dSecList, List.mem_append] at hc
      rcases hc with hc | hc
      · have hparts := ihx.2 kvs rfl ⟨[], [], []⟩
          ⟨by intro c hc; exact absurd hc List.not_mem_nil,
           by intro c hc; exact absurd hc List.not_mem_nil⟩
        exact dSecObj_wf env he _ _ _ hparts.1 hparts.2 c hc
      · exact ihr c hc
    | null => simp only [dSecList] at hc; exact ihr c hc
    | bool b => simp only [dSecList] at hc; exact ihr c hc
    | num i => simp only [dSecList] at hc; exact ihr c hc
    | flt r => simp only [dSecList] at hc; exact ihr c hc
    | str s => simp only [dSecList] at hc; exact ihr c hc
    | arr ys => simp only [dSecList] at hc; exact ihr c hc
  · intro st h
    simpa [dSecParts] using h
  · intro p rest ihp ihr st h
    obtain ⟨k, v⟩ := p
    simp only [dSecParts]
    split
    · split
      · exact ihr _ ⟨dProps_wf env he v, h.2⟩
      · split
        · exact ihr _ ⟨h.1, ihp.1⟩
        · exact ihr _ h
    · exact ihr _ h
  · intro k v ih
    exact ih

theorem dDocParts_wf (env : DEnv) (he : env.NamesOk) (kvs : List (Str × J)) (st : DocParts)
    (h : ∀ c ∈ st.secs, DWF c) : ∀ c ∈ (dDocParts env kvs st).secs, DWF c := by
  induction kvs generalizing st with
  | nil => simpa [dDocParts] using h
  | cons p rest ih =>
    obtain ⟨k, v⟩ := p
    simp only [dDocParts]
    split
    · split
      · exact ih _ (secWF_all env he v).1
      · exact ih _ h
    · exact ih _ h

theorem dDoc_wf (env : DEnv) (he : env.NamesOk) (kvs : List (Str × J)) :
    DWF (dDoc env kvs) ∧ (dDoc env kvs).kind = .doc := by
  refine ⟨?_, rfl⟩
  unfold dDoc dDocBase
  exact keepValid_wf _ _ _ _ _ _ (by intro a h; cases h)
    (dDocParts_wf env he kvs ⟨[], []⟩ (by intro c hc; cases hc))

end Reader
