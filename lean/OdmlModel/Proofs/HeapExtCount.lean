/-
How many objects a merge can add: every new object is a copy (`orig`) of a different object at or
below the source, so a merge at most doubles the number of objects. This turns the budget of the
link setter (`linkBudget`, Proofs/HeapExtFuel.lean) into a closed formula in `size`.
-/
import OdmlModel.Proofs.HeapExtFuel

set_option linter.unusedSimpArgs false
set_option linter.unusedVariables false

namespace Heap

/-- The handles `n ≤ c < m` are copies (`o c` = the object copied) of pairwise different objects
    of the set `S`. -/
def CopiesR (n m : Nat) (S : Nat → Prop) (o : Nat → Nat) : Prop :=
  (∀ c, n ≤ c → c < m → S (o c)) ∧
  (∀ c c', n ≤ c → c < m → n ≤ c' → c' < m → o c = o c' → c = c')

theorem CopiesR.mono {n m : Nat} {S S' : Nat → Prop} {o : Nat → Nat} (h : CopiesR n m S o)
    (hs : ∀ y, S y → S' y) : CopiesR n m S' o :=
  ⟨fun c h1 h2 => hs _ (h.1 c h1 h2), h.2⟩

theorem CopiesR.empty (n : Nat) (S : Nat → Prop) (o : Nat → Nat) : CopiesR n n S o :=
  ⟨fun c h1 h2 => by omega, fun c c' h1 h2 => by omega⟩

/-- Putting a second batch of copies, of objects of a disjoint set, behind a first one. -/
theorem CopiesR.extend {n m m' : Nat} {S S' : Nat → Prop} {o o' : Nat → Nat}
    (h : CopiesR n m S o) (hmm : m ≤ m') (hag : ∀ c, c < m → o' c = o c) (h' : CopiesR m m' S' o')
    (hdis : ∀ y, S y → S' y → False) : CopiesR n m' (fun y => S y ∨ S' y) o' := by
  refine ⟨?_, ?_⟩
  · intro c h1 h2
    rcases Nat.lt_or_ge c m with hc | hc
    · left; rw [hag c hc]; exact h.1 c h1 hc
    · right; exact h'.1 c hc h2
  · intro c c' h1 h2 h1' h2' e
    rcases Nat.lt_or_ge c m with hc | hc <;> rcases Nat.lt_or_ge c' m with hc' | hc'
    · rw [hag c hc, hag c' hc'] at e; exact h.2 c c' h1 hc h1' hc' e
    · exfalso
      have a := h.1 c h1 hc
      have b := h'.1 c' hc' h2'
      rw [← hag c hc, e] at a
      exact hdis _ a b
    · exfalso
      have a := h.1 c' h1' hc'
      have b := h'.1 c hc h2
      rw [← hag c' hc', ← e] at a
      exact hdis _ a b
    · exact h'.2 c c' hc h2 hc' h2' e

theorem nodup_map_of_inj_on {l : List Nat} {f : Nat → Nat} (hl : l.Nodup)
    (hf : ∀ a ∈ l, ∀ b ∈ l, f a = f b → a = b) : (l.map f).Nodup := by
  induction l with
  | nil => simp
  | cons a l ih =>
    rw [List.map_cons, List.nodup_cons]
    rw [List.nodup_cons] at hl
    refine ⟨?_, ih hl.2 (fun a' ha' b' hb' =>
      hf a' (List.mem_cons_of_mem _ ha') b' (List.mem_cons_of_mem _ hb'))⟩
    intro hm
    rw [List.mem_map] at hm
    obtain ⟨b, hb, e⟩ := hm
    have := hf b (List.mem_cons_of_mem _ hb) a List.mem_cons_self e
    subst this
    exact hl.1 hb

/-- Copies of pairwise different objects below `n`: there are at most `n` of them. -/
theorem CopiesR.count {n m : Nat} {S : Nat → Prop} {o : Nat → Nat} (h : CopiesR n m S o)
    (hS : ∀ y, S y → y < n) (hnm : n ≤ m) : m ≤ 2 * n := by
  have hnd : ((List.range' n (m - n)).map o).Nodup := by
    apply nodup_map_of_inj_on (List.nodup_range' 1)
    intro a ha b hb e
    simp only [List.mem_range'_1] at ha hb
    exact h.2 a b ha.1 (by omega) hb.1 (by omega) e
  have hlt : ∀ y ∈ (List.range' n (m - n)).map o, y < n := by
    intro y hy
    simp only [List.mem_map, List.mem_range'_1] at hy
    obtain ⟨a, ha, rfl⟩ := hy
    exact hS _ (h.1 a ha.1 (by omega))
  have := length_le_of_nodup_lt hnd hlt
  simp only [List.length_map, List.length_range'] at this
  omega

/-- The subtrees of two different children of the same object are disjoint. -/
theorem sib_disjoint {h : H} (w : WF h) {x k k' y : Nat} (hk : (h.node k).parent = some x)
    (hk' : (h.node k').parent = some x) (hne : k ≠ k') (a : Anc h k y) (b : Anc h k' y) : False := by
  rcases anc_comparable a b with c | c
  · cases c with
    | refl => exact hne rfl
    | step hp c' => rw [hk'] at hp; cases hp; exact not_anc_child w hk c'
  · cases c with
    | refl => exact hne rfl
    | step hp c' => rw [hk] at hp; cases hp; exact not_anc_child w hk' c'

/-- Set of the objects a clone of `x` may have copied after the children in `D` are done. -/
def SD (h0 : H) (x : Nat) (D : List Nat) : Nat → Prop := fun y => y = x ∨ ∃ k ∈ D, Anc h0 k y

theorem SD_anc {h0 : H} {x : Nat} {D : List Nat} (hD : ∀ k ∈ D, (h0.node k).parent = some x) :
    ∀ y, SD h0 x D y → Anc h0 x y := by
  intro y hy
  rcases hy with e | ⟨k, hk, ha⟩
  · rw [e]; exact Anc.refl _
  · exact ha.above (hD k hk)

theorem copyObj_orig (s : X) (x i : Nat) :
    (copyObj s x).1.orig i = if i = s.h.size then s.orig x else s.orig i := by
  unfold copyObj
  simp only
  split
  · rename_i s1 heq
    have : s1.orig = s.orig := by rw [← prim_orig s, heq]
    simp only [this]
  · rename_i s1 o hne heq
    exfalso
    have h1 := (copyObj_spec s x).2.1
    unfold copyObj at h1
    simp only [heq] at h1
    cases o <;> simp at h1 hne

theorem SD_mono {h0 : H} {x : Nat} {D D' : List Nat} (h : ∀ k ∈ D, k ∈ D') :
    ∀ y, SD h0 x D y → SD h0 x D' y := by
  intro y hy
  rcases hy with e | ⟨k, hk, ha⟩
  · exact Or.inl e
  · exact Or.inr ⟨k, h k hk, ha⟩

theorem append_detached_size {h : H} (w : WF h) {p x : Nat} (hxs : x < h.size)
    (hx : (h.node x).parent = none) : (step h (.append p x)).1.size = h.size := by
  rcases step_append_detached (p := p) w hxs hx with he | ⟨_, hsz, _⟩
  · rw [he]
  · exact hsz

/-- One more child cloned: the copies made so far together with those of the child `k`. -/
theorem copies_child {h0 : H} (w0 : WF h0) {x k n m m' : Nat} {D : List Nat} {o o' : Nat → Nat}
    (hk : (h0.node k).parent = some x) (hkD : k ∉ D) (hD : ∀ k' ∈ D, (h0.node k').parent = some x)
    (h : CopiesR n m (SD h0 x D) o) (hmm : m ≤ m') (hag : ∀ c, c < m → o' c = o c)
    (h' : CopiesR m m' (Anc h0 k) o') : CopiesR n m' (SD h0 x (k :: D)) o' := by
  refine (h.extend hmm hag h' ?_).mono ?_
  · intro y a b
    rcases a with e | ⟨k', hk', a'⟩
    · rw [e] at b; exact not_anc_child w0 hk b
    · exact sib_disjoint w0 (hD k' hk') hk (fun e => hkD (e ▸ hk')) a' b
  · intro y a
    rcases a with (e | ⟨k', hk', a'⟩) | b
    · exact Or.inl e
    · exact Or.inr ⟨k', List.mem_cons_of_mem _ hk', a'⟩
    · exact Or.inr ⟨k, List.mem_cons_self, b⟩

theorem kidsLoop_copies {rec : X → Nat → X × Nat × XOut}
    (hrec : ∀ t k, WF t.h → CloneRes t (rec t k)) {n c : Nat} {hs : H} (hcn : n ≤ c)
    {h0 : H} (w0 : WF h0) {x : Nat} {os : Nat → Nat}
    (hrc : ∀ t k, CloneInv n c hs t.h → (∀ i, i < n → t.orig i = os i) →
      (h0.node k).parent = some x →
      (∀ i, i < t.h.size → (rec t k).1.orig i = t.orig i) ∧
      CopiesR t.h.size (rec t k).1.h.size (Anc h0 k) (rec t k).1.orig) :
    ∀ (ks D : List Nat) (s : X), ks.Nodup →
      (∀ k ∈ ks, (h0.node k).parent = some x ∧ k ∉ D) → (∀ k ∈ D, (h0.node k).parent = some x) →
      CloneInv n c hs s.h → (∀ i, i < n → s.orig i = os i) →
      CopiesR n s.h.size (SD h0 x D) s.orig →
      (∀ i, i < n → (kidsLoop rec c ks s).1.orig i = os i) ∧
      CopiesR n (kidsLoop rec c ks s).1.h.size (SD h0 x (ks ++ D)) (kidsLoop rec c ks s).1.orig := by
  intro ks
  induction ks with
  | nil => intro D s _ _ _ _ hos hc; exact ⟨hos, hc⟩
  | cons k ks ih =>
    intro D s hnd hks hD h hos hc
    obtain ⟨inv1, inv2⟩ := kids_step_inv hrec hcn s k h
    have hk := hks k List.mem_cons_self
    obtain ⟨ra, rb⟩ := hrc s k h hos hk.1
    have h1 := hrec s k h.wf
    have hns : n ≤ s.h.size := Nat.le_trans hcn (Nat.le_of_lt h.lt)
    -- the state after the clone of `k`
    have hos1 : ∀ i, i < n → (rec s k).1.orig i = os i := fun i hi => by
      rw [ra i (by omega)]; exact hos i hi
    have hc1 : CopiesR n (rec s k).1.h.size (SD h0 x (k :: D)) (rec s k).1.orig :=
      copies_child w0 hk.1 hk.2 hD hc h1.same.1 ra rb
    have hsub : ∀ k' ∈ k :: D, k' ∈ (k :: ks) ++ D := by
      intro k' hk'
      rcases List.mem_cons.mp hk' with e | e
      · rw [e]; exact List.mem_append_left _ List.mem_cons_self
      · exact List.mem_append_right _ e
    unfold kidsLoop
    split
    · rename_i s1 ck heq
      rw [heq] at inv1 inv2 hos1 hc1 h1
      have i2 := inv2 rfl
      simp only at i2 hos1 hc1 inv1
      obtain ⟨hck, hdet⟩ := h1.ok rfl
      have hpo : (s1.prim (.append c ck)).1.orig = s1.orig := prim_orig _ _
      have hps : (s1.prim (.append c ck)).1.h.size = s1.h.size := by
        rw [prim_h]; exact append_detached_size inv1.wf hck hdet
      have hos2 : ∀ i, i < n → (s1.prim (.append c ck)).1.orig i = os i := fun i hi => by
        rw [hpo]; exact hos1 i hi
      have hc2 : CopiesR n (s1.prim (.append c ck)).1.h.size (SD h0 x (k :: D))
          (s1.prim (.append c ck)).1.orig := by rw [hpo, hps]; exact hc1
      split
      · rename_i s2 heq2
        rw [heq2] at i2 hos2 hc2
        simp only at hos2 hc2
        have hnd' := List.nodup_cons.mp hnd
        obtain ⟨r1, r2⟩ := ih (k :: D) s2 hnd'.2
          (fun k' hk' => ⟨(hks k' (List.mem_cons_of_mem _ hk')).1, fun hm => by
            rcases List.mem_cons.mp hm with e | e
            · exact hnd'.1 (e ▸ hk')
            · exact (hks k' (List.mem_cons_of_mem _ hk')).2 e⟩)
          (fun k' hk' => by
            rcases List.mem_cons.mp hk' with e | e
            · rw [e]; exact hk.1
            · exact hD k' e)
          i2 hos2 hc2
        refine ⟨r1, r2.mono (SD_mono ?_)⟩
        intro k' hk'
        rcases List.mem_append.mp hk' with e | e
        · exact List.mem_append_left _ (List.mem_cons_of_mem _ e)
        · exact hsub k' e
      · rename_i s2 o hne heq2
        rw [heq2] at hos2 hc2
        exact ⟨hos2, hc2.mono (SD_mono hsub)⟩
    · rename_i s1 _ o hne heq
      rw [heq] at hos1 hc1
      exact ⟨hos1, hc1.mono (SD_mono hsub)⟩

theorem prot_child {h0 : H} (w0 : WF h0) {P : Nat → Prop} (hP : Prot h0 P) {x k : Nat} (px : P x)
    (hk : (h0.node k).parent = some x) : P k := by
  rcases w0.kind_of_parent hk with hs | hp
  · exact hP.secs x px k ((w0.memS x k).mpr ⟨hk, hs⟩)
  · exact hP.props x px k ((w0.memP x k).mpr ⟨hk, hp⟩)

theorem newIdUnless_orig_size (kid : Bool) (O : Oracle) (s : X) (c : Nat) (hc : c < s.h.size) :
    (newIdUnless kid O s c).1.orig = s.orig ∧ (newIdUnless kid O s c).1.h.size = s.h.size := by
  unfold newIdUnless
  split
  · exact ⟨rfl, rfl⟩
  · refine ⟨prim_orig _ _, ?_⟩
    rw [prim_h, step_newId _ _ _ hc]; rfl

/-- The objects a clone of `x` adds are copies of pairwise different objects at or below `x`
    (`x` in the protected part of the heap, where `orig` is the identity). -/
theorem cloneAux_copies (O : Oracle) {h0 : H} (w0 : WF h0) {P : Nat → Prop} (hP : Prot h0 P) :
    ∀ (fuel : Nat) (s : X) (x : Nat) (ch kid : Bool),
      WF s.h → h0.size ≤ s.h.size → (∀ y, P y → s.h.node y = h0.node y) →
      (∀ y, P y → s.orig y = y) → P x →
      (∀ i, i < s.h.size → (cloneAux O fuel s x ch kid).1.orig i = s.orig i) ∧
      CopiesR s.h.size (cloneAux O fuel s x ch kid).1.h.size (Anc h0 x)
        (cloneAux O fuel s x ch kid).1.orig := by
  intro fuel
  induction fuel with
  | zero => intro s x ch kid w hsz hs ho px; exact ⟨fun _ _ => rfl, CopiesR.empty _ _ _⟩
  | succ fuel ih =>
    intro s x ch kid w hsz hs ho px
    have hrec : ∀ (t : X) (k : Nat), WF t.h →
        CloneRes t ((fun t k => cloneAux O fuel t k true kid) t k) :=
      fun t k wt => cloneAux_spec O fuel t k true kid wt
    obtain ⟨hc, hok, hh⟩ := copyObj_spec s x
    have hnode : s.h.node x = h0.node x := hs x px
    have hco := copyObj_orig s x
    unfold cloneAux
    split
    · rename_i s1 c heq
      rw [heq] at hc hh hco
      simp only at hc hh hco
      have inv1 : CloneInv s.h.size c s.h s1.h := by
        rw [hh, hc]
        refine ⟨wf_alloc w _ _ _, ⟨by rw [alloc_size]; omega, ?_⟩, by rw [alloc_size]; omega,
          alloc_new_parent _ _ _ _⟩
        intro j hj; exact alloc_other _ _ _ _ (by omega)
      have hcn : s.h.size ≤ c := by omega
      have hsz1 : s1.h.size = s.h.size + 1 := by rw [hh, alloc_size]
      have hos1 : ∀ i, i < s.h.size → s1.orig i = s.orig i := fun i hi => by
        rw [hco i, if_neg (by omega)]
      have hc1 : CopiesR s.h.size s1.h.size (SD h0 x []) s1.orig := by
        refine ⟨fun c' h1 h2 => ?_, fun c' c'' h1 h2 h1' h2' _ => by omega⟩
        have : c' = s.h.size := by omega
        rw [hco c', if_pos this, ho x px]; exact Or.inl rfl
      have hrc : ∀ (t : X) (k : Nat), CloneInv s.h.size c s.h t.h →
          (∀ i, i < s.h.size → t.orig i = s.orig i) → (h0.node k).parent = some x →
          (∀ i, i < t.h.size → ((fun t k => cloneAux O fuel t k true kid) t k).1.orig i = t.orig i) ∧
          CopiesR t.h.size ((fun t k => cloneAux O fuel t k true kid) t k).1.h.size (Anc h0 k)
            ((fun t k => cloneAux O fuel t k true kid) t k).1.orig := by
        intro t k inv hot hk
        refine ih t k true kid inv.wf (Nat.le_trans hsz inv.same.1) ?_ ?_ (prot_child w0 hP px hk)
        · intro y py
          rw [inv.same.2 y (Nat.lt_of_lt_of_le (hP.lt y py) hsz)]; exact hs y py
        · intro y py
          rw [hot y (Nat.lt_of_lt_of_le (hP.lt y py) hsz)]; exact ho y py
      have hsecs : ∀ k ∈ (h0.node x).secs, (h0.node k).parent = some x ∧ (h0.node k).kind = .sec :=
        fun k hk => (w0.memS x k).mp hk
      have hprops : ∀ k ∈ (h0.node x).props, (h0.node k).parent = some x ∧ (h0.node k).kind = .prop :=
        fun k hk => (w0.memP x k).mp hk
      -- what is wanted at the end, from the invariant of the stages
      have fin : ∀ (t : X) (D : List Nat), (∀ k ∈ D, (h0.node k).parent = some x) →
          (∀ i, i < s.h.size → t.orig i = s.orig i) → CopiesR s.h.size t.h.size (SD h0 x D) t.orig →
          (∀ i, i < s.h.size → t.orig i = s.orig i) ∧ CopiesR s.h.size t.h.size (Anc h0 x) t.orig :=
        fun t D hD a b => ⟨a, b.mono (SD_anc hD)⟩
      split
      · split
        rename_i s2 o heq2
        obtain ⟨e1, e2⟩ := newIdUnless_orig_size kid O s1 c inv1.lt
        rw [heq2] at e1 e2
        simp only at e1 e2 ⊢
        refine fin s2 [] (fun k hk => absurd hk List.not_mem_nil) ?_ ?_
        · rw [e1]; exact hos1
        · rw [e1, e2]; exact hc1
      · have h2 := kidsIf_spec hrec hcn ch (s.h.node x).secs s1 inv1
        -- first loop: the child Sections (or nothing)
        have m2 : (∀ i, i < s.h.size → (kidsIf ch (fun t k => cloneAux O fuel t k true kid) c
              (s.h.node x).secs s1).1.orig i = s.orig i) ∧
            CopiesR s.h.size (kidsIf ch (fun t k => cloneAux O fuel t k true kid) c
              (s.h.node x).secs s1).1.h.size (SD h0 x (h0.node x).secs)
              (kidsIf ch (fun t k => cloneAux O fuel t k true kid) c (s.h.node x).secs s1).1.orig := by
          unfold kidsIf
          split
          · rw [hnode]
            obtain ⟨r1, r2⟩ := kidsLoop_copies hrec hcn w0 hrc (h0.node x).secs [] s1 (w0.nodupS x)
              (fun k hk => ⟨(hsecs k hk).1, List.not_mem_nil⟩)
              (fun k hk => absurd hk List.not_mem_nil) inv1 hos1 hc1
            exact ⟨r1, r2.mono (SD_mono (fun k hk => by simpa using hk))⟩
          · exact ⟨hos1, hc1.mono (SD_mono (fun k hk => absurd hk List.not_mem_nil))⟩
        split
        · rename_i s2 heq2
          rw [heq2] at h2 m2
          simp only at m2
          have h3 := newIdUnless_spec hcn kid O s2 h2
          obtain ⟨e1, e2⟩ := newIdUnless_orig_size kid O s2 c h2.lt
          split
          · rename_i s3 heq3
            rw [heq3] at h3 e1 e2
            simp only at e1 e2
            have hos3 : ∀ i, i < s.h.size → s3.orig i = s.orig i := by rw [e1]; exact m2.1
            have hc3 : CopiesR s.h.size s3.h.size (SD h0 x (h0.node x).secs) s3.orig := by
              rw [e1, e2]; exact m2.2
            split
            · obtain ⟨r1, r2⟩ := kidsLoop_copies hrec hcn w0 hrc (h0.node x).props
                (h0.node x).secs s3 (w0.nodupP x)
                (fun k hk => ⟨(hprops k hk).1, fun hm => by
                  have a := (hsecs k hm).2; have b := (hprops k hk).2; rw [a] at b; cases b⟩)
                (fun k hk => (hsecs k hk).1) h3 hos3 hc3
              rw [← hnode] at r1 r2
              split
              rename_i s4 o heq4
              rw [heq4] at r1 r2
              simp only at r1 r2 ⊢
              refine fin s4 _ ?_ r1 r2
              intro k hk
              rw [hnode] at hk
              rcases List.mem_append.mp hk with e | e
              · exact (hprops k e).1
              · exact (hsecs k e).1
            · exact fin s3 _ (fun k hk => (hsecs k hk).1) hos3 hc3
          · rename_i s3 o _ heq3
            rw [heq3] at e1 e2
            simp only at e1 e2 ⊢
            refine fin s3 _ (fun k hk => (hsecs k hk).1) ?_ ?_
            · rw [e1]; exact m2.1
            · rw [e1, e2]; exact m2.2
        · rename_i s2 o _ heq2
          rw [heq2] at m2
          simp only at m2 ⊢
          exact fin s2 _ (fun k hk => (hsecs k hk).1) m2.1 m2.2
    · rename_i r hne
      exfalso; apply hne; rw [← hok]

/-! ### merge -/

theorem not_mem_take_of_nodup : ∀ {L : List Nat}, L.Nodup → ∀ (i o : Nat), L[i]? = some o → o ∉ L.take i := by
  intro L
  induction L with
  | nil => intro _ i o h; simp at h
  | cons a L ih =>
    intro hnd i o h
    cases i with
    | zero => simp
    | succ i =>
      simp only [List.getElem?_cons_succ] at h
      rw [List.take_succ_cons]
      have hnd' := List.nodup_cons.mp hnd
      intro hm
      rcases List.mem_cons.mp hm with e | e
      · exact hnd'.1 (e ▸ List.mem_of_getElem? h)
      · exact ih hnd'.2 i o h e

theorem mem_take_succ {L : List Nat} {i o : Nat} (h : L[i]? = some o) :
    ∀ k, (k = o ∨ k ∈ L.take i) → k ∈ L.take (i + 1) := by
  intro k hk
  rw [List.take_add_one, h]
  simp only [Option.toList_some, List.mem_append, List.mem_singleton]
  rcases hk with e | e
  · exact Or.inr e
  · exact Or.inl e

/-- A live loop with an invariant that knows the index. -/
theorem liveLoop_idx {σ : Type} (lst : σ → List Nat) (body : σ → Nat → σ × XOut)
    (Inv : Nat → σ → Prop)
    (hb : ∀ i t o, Inv i t → (lst t)[i]? = some o → Inv (i + 1) (body t o).1) :
    ∀ (fuel i : Nat) (t : σ), Inv i t → ∃ j, Inv j (liveLoop lst body fuel i t).1 := by
  intro fuel
  induction fuel with
  | zero => intro i t h; exact ⟨i, h⟩
  | succ f ih =>
    intro i t h
    rw [liveLoop.eq_2]
    cases hg : (lst t)[i]? with
    | none => exact ⟨i, h⟩
    | some obj =>
      simp only
      have h1 := hb i t obj h hg
      rcases hbo : body t obj with ⟨t1, o⟩
      rw [hbo] at h1
      cases o with
      | ok => simp only; exact ih (i + 1) t1 h1
      | _ => exact ⟨i + 1, h1⟩

theorem markCopy_orig (t : X) (c obj : Nat) (mm : Option Bool) : (t.markCopy c obj mm).orig = t.orig := by
  cases mm <;> rfl

theorem cloneAppend_copies (O : Oracle) {h0 : H} (w0 : WF h0) {P : Nat → Prop} (hP : Prot h0 P)
    (f : Nat) (t : X) (dest obj : Nat) (mark : Option Bool) (w : WF t.h) (hsz : h0.size ≤ t.h.size)
    (hs : ∀ y, P y → t.h.node y = h0.node y) (ho : ∀ y, P y → t.orig y = y) (po : P obj) :
    (∀ i, i < t.h.size → (cloneAppend O f t dest obj mark).1.orig i = t.orig i) ∧
    CopiesR t.h.size (cloneAppend O f t dest obj mark).1.h.size (Anc h0 obj)
      (cloneAppend O f t dest obj mark).1.orig := by
  obtain ⟨a, b⟩ := cloneAux_copies O w0 hP f t obj true false w hsz hs ho po
  have h1 := cloneAux_spec O f t obj true false w
  unfold cloneAppend
  split
  · rename_i t1 c heq
    rw [heq] at a b h1
    simp only at a b
    obtain ⟨hck, hdet⟩ := h1.ok rfl
    have e1 : ((t1.markCopy c obj mark).prim (.append dest c)).1.orig = t1.orig := by
      rw [prim_orig, markCopy_orig]
    have e2 : ((t1.markCopy c obj mark).prim (.append dest c)).1.h.size = t1.h.size := by
      rw [prim_h, markCopy_h]; exact append_detached_size h1.wf hck hdet
    rw [e1, e2]; exact ⟨a, b⟩
  · rename_i t1 _ o _ heq
    rw [heq] at a b
    exact ⟨a, b⟩

/-- The objects a merge adds are copies of pairwise different objects at or below the source. -/
theorem mergeAux_copies (O : Oracle) {h0 : H} (w0 : WF h0) {P : Nat → Prop} (hP : Prot h0 P) :
    ∀ (fuel : Nat) (t : X) (record : Bool) (dest src : Nat),
      WF t.h → h0.size ≤ t.h.size → (∀ y, P y → t.h.node y = h0.node y) →
      (∀ y, P y → t.orig y = y) → (∀ y, P y → ¬ Anc t.h dest y) → P src →
      (∀ i, i < t.h.size → (mergeAux O fuel t record dest src).1.orig i = t.orig i) ∧
      CopiesR t.h.size (mergeAux O fuel t record dest src).1.h.size (Anc h0 src)
        (mergeAux O fuel t record dest src).1.orig := by
  intro fuel
  induction fuel with
  | zero =>
    intro t record dest src w hsz hs ho hna ps
    exact ⟨fun _ _ => rfl, CopiesR.empty _ _ _⟩
  | succ f ih =>
    intro t record dest src w hsz hs ho hna ps
    have triv : (∀ i, i < t.h.size → t.orig i = t.orig i) ∧
        CopiesR t.h.size t.h.size (Anc h0 src) t.orig := ⟨fun _ _ => rfl, CopiesR.empty _ _ _⟩
    have hsecs : ∀ k ∈ (h0.node src).secs, (h0.node k).parent = some src ∧ (h0.node k).kind = .sec :=
      fun k hk => (w0.memS src k).mp hk
    have hprops : ∀ k ∈ (h0.node src).props, (h0.node k).parent = some src ∧ (h0.node k).kind = .prop :=
      fun k hk => (w0.memP src k).mp hk
    -- the invariant of the two loops: `L` the list iterated, `D0` the children done before
    let Inv : List Nat → List Nat → Nat → X → Prop := fun L D0 j t' =>
      MFr t.h dest t'.h ∧ (∀ i, i < t.h.size → t'.orig i = t.orig i) ∧
      CopiesR t.h.size t'.h.size (SD h0 src (L.take j ++ D0)) t'.orig
    have hs' : ∀ t' : X, MFr t.h dest t'.h → ∀ y, P y → t'.h.node y = h0.node y := by
      intro t' a y py
      rw [a.2 y (Nat.lt_of_lt_of_le (hP.lt y py) hsz) (hna y py)]; exact hs y py
    -- one child handled (by a recursive merge or by a clone) keeps the invariant
    have stepInv : ∀ (L D0 : List Nat) (j : Nat) (t' : X) (obj : Nat) (r : X),
        L.Nodup → (∀ k ∈ L, (h0.node k).parent = some src ∧ k ∉ D0) →
        (∀ k ∈ D0, (h0.node k).parent = some src) →
        Inv L D0 j t' → L[j]? = some obj → MFr t.h dest r.h →
        ((∀ i, i < t'.h.size → r.orig i = t'.orig i) ∧
          CopiesR t'.h.size r.h.size (Anc h0 obj) r.orig) → t'.h.size ≤ r.h.size →
        Inv L D0 (j + 1) r := by
      intro L D0 j t' obj r hnd hL hD0 inv hj mfr sp hle
      obtain ⟨a, b, c⟩ := inv
      have hobj := hL obj (List.mem_of_getElem? hj)
      have htl : t.h.size ≤ t'.h.size := a.1.2.1
      refine ⟨mfr, fun i hi => by rw [sp.1 i (by omega)]; exact b i hi, ?_⟩
      have := copies_child w0 (D := L.take j ++ D0) hobj.1
        (fun hm => by
          rcases List.mem_append.mp hm with e | e
          · exact not_mem_take_of_nodup hnd j obj hj e
          · exact hobj.2 e)
        (fun k' hk' => by
          rcases List.mem_append.mp hk' with e | e
          · exact (hL k' (List.mem_of_mem_take e)).1
          · exact hD0 k' e)
        c hle sp.1 sp.2
      refine this.mono (SD_mono ?_)
      intro k hk
      rcases List.mem_cons.mp hk with e | e
      · exact List.mem_append_left _ (mem_take_succ hj k (Or.inl e))
      · rcases List.mem_append.mp e with e' | e'
        · exact List.mem_append_left _ (mem_take_succ hj k (Or.inr e'))
        · exact List.mem_append_right _ e'
    -- a child not handled (Property merged in place) keeps it too
    have skipInv : ∀ (L D0 : List Nat) (j : Nat) (t' : X) (obj : Nat),
        Inv L D0 j t' → L[j]? = some obj → Inv L D0 (j + 1) t' := by
      intro L D0 j t' obj inv hj
      obtain ⟨a, b, c⟩ := inv
      refine ⟨a, b, c.mono (SD_mono ?_)⟩
      intro k hk
      rcases List.mem_append.mp hk with e | e
      · exact List.mem_append_left _ (mem_take_succ hj k (Or.inr e))
      · exact List.mem_append_right _ e
    have cloneInv : ∀ (L D0 : List Nat) (j : Nat) (t' : X) (obj : Nat) (mark : Option Bool),
        L.Nodup → (∀ k ∈ L, (h0.node k).parent = some src ∧ k ∉ D0) →
        (∀ k ∈ D0, (h0.node k).parent = some src) →
        Inv L D0 j t' → L[j]? = some obj →
        Inv L D0 (j + 1) (cloneAppend O f t' dest obj mark).1 := by
      intro L D0 j t' obj mark hnd hL hD0 inv hj
      have hobj := hL obj (List.mem_of_getElem? hj)
      have a := inv.1
      have hoo : ∀ y, P y → t'.orig y = y := fun y py => by
        rw [inv.2.1 y (Nat.lt_of_lt_of_le (hP.lt y py) hsz)]; exact ho y py
      have sp := cloneAppend_copies O w0 hP f t' dest obj mark a.1.1 (Nat.le_trans hsz a.1.2.1)
        (hs' t' a) hoo (prot_child w0 hP ps hobj.1)
      have m2 := cloneAppend_mfr O f t' obj mark a
      have hle : t'.h.size ≤ (cloneAppend O f t' dest obj mark).1.h.size :=
        (cloneAppend_adds O f (Nat.le_refl _) t' dest obj mark ⟨a.1.1, Adds.refl _ _⟩).2.1
      exact stepInv L D0 j t' obj _ hnd hL hD0 inv hj m2 sp hle
    rw [mergeAux.eq_2]
    split
    · exact triv
    · exact triv
    · split
      · exact triv
      · exact triv
      · have hLs : ∀ t' : X, MFr t.h dest t'.h → (t'.h.node src).secs = (h0.node src).secs :=
          fun t' a => by rw [hs' t' a src ps]
        have hLp : ∀ t' : X, MFr t.h dest t'.h → (t'.h.node src).props = (h0.node src).props :=
          fun t' a => by rw [hs' t' a src ps]
        obtain ⟨j1, i1⟩ := liveLoop_idx (fun t' : X => (t'.h.node src).secs)
          (mergeSecBody O f (mergeAux O f) record dest) (Inv (h0.node src).secs [])
          (by
            intro j t' obj inv hj
            rw [hLs t' inv.1] at hj
            have hobj := hsecs obj (List.mem_of_getElem? hj)
            have a := inv.1
            have hL : ∀ k ∈ (h0.node src).secs, (h0.node k).parent = some src ∧ k ∉ ([] : List Nat) :=
              fun k hk => ⟨(hsecs k hk).1, List.not_mem_nil⟩
            have hmfr := mergeSecBody_mfr O f (fun t b m o wt => mergeAux_frame O f t b m o wt) w
              record dest t' obj a
            unfold mergeSecBody at hmfr ⊢
            split
            · rename_i mine hc
              rw [hc] at hmfr
              simp only at hmfr
              have hp : (t'.h.node mine).parent = some dest :=
                ((a.1.1.memS dest mine).mp (containsS_mem hc)).1
              have hoo : ∀ y, P y → t'.orig y = y := fun y py => by
                rw [inv.2.1 y (Nat.lt_of_lt_of_le (hP.lt y py) hsz)]; exact ho y py
              have sp := ih t' (record && !t'.resolved mine) mine obj a.1.1
                (Nat.le_trans hsz a.1.2.1) (hs' t' a) hoo
                (fun y py hanc => hna y py (anc_adds_old w a.1.2 (hanc.above hp)
                  (Nat.lt_of_lt_of_le (hP.lt y py) hsz)))
                (prot_child w0 hP ps hobj.1)
              have hle := (mergeAux_frame O f t' (record && !t'.resolved mine) mine obj a.1.1).1.2.1
              exact stepInv _ [] j t' obj _ (w0.nodupS src) hL
                (fun k hk => absurd hk List.not_mem_nil) inv hj hmfr sp hle
            · exact cloneInv _ [] j t' obj _ (w0.nodupS src) hL
                (fun k hk => absurd hk List.not_mem_nil) inv hj)
          f 0 t ⟨MFr.refl w dest, fun _ _ => rfl, by simpa using CopiesR.empty _ _ _⟩
        have fin : ∀ (L D0 : List Nat) (j : Nat) (t' : X),
            (∀ k ∈ L, (h0.node k).parent = some src) → (∀ k ∈ D0, (h0.node k).parent = some src) →
            Inv L D0 j t' →
            (∀ i, i < t.h.size → t'.orig i = t.orig i) ∧
              CopiesR t.h.size t'.h.size (Anc h0 src) t'.orig := by
          intro L D0 j t' hL hD0 inv
          refine ⟨inv.2.1, inv.2.2.mono (SD_anc ?_)⟩
          intro k hk
          rcases List.mem_append.mp hk with e | e
          · exact hL k (List.mem_of_mem_take e)
          · exact hD0 k e
        split
        · rename_i s1 heq
          rw [heq] at i1
          simp only at i1
          have i1' : Inv (h0.node src).props (h0.node src).secs 0 s1 := by
            refine ⟨i1.1, i1.2.1, i1.2.2.mono (SD_mono ?_)⟩
            intro k hk
            rcases List.mem_append.mp hk with e | e
            · exact List.mem_append_right _ (List.mem_of_mem_take e)
            · exact absurd e List.not_mem_nil
          have hLP : ∀ k ∈ (h0.node src).props,
              (h0.node k).parent = some src ∧ k ∉ (h0.node src).secs := fun k hk =>
            ⟨(hprops k hk).1, fun hm => by
              have a := (hsecs k hm).2; have b := (hprops k hk).2; rw [a] at b; cases b⟩
          obtain ⟨j2, i2⟩ := liveLoop_idx (fun t' : X => (t'.h.node src).props)
            (mergePropBody O f dest) (Inv (h0.node src).props (h0.node src).secs)
            (by
              intro j t' obj inv hj
              rw [hLp t' inv.1] at hj
              unfold mergePropBody
              split
              · split
                · exact skipInv _ _ j t' obj inv hj
                · exact skipInv _ _ j t' obj inv hj
              · exact cloneInv _ _ j t' obj _ (w0.nodupP src) hLP (fun k hk => (hsecs k hk).1) inv hj)
            f 0 s1 i1'
          have r2 := fin _ _ j2 _ (fun k hk => (hprops k hk).1) (fun k hk => (hsecs k hk).1) i2
          split
          · rename_i s2 heq2
            rw [heq2] at r2
            simp only at r2 ⊢
            split
            · exact r2
            · exact r2
          · rename_i r hne; exact r2
        · rename_i r hne
          exact fin _ _ j1 _ (fun k hk => (hsecs k hk).1) (fun k hk => absurd hk List.not_mem_nil) i1

/-- A merge of a source that is apart from the destination at most doubles the number of objects
    (in a state in which `orig` is the identity on the allocated objects, as at the beginning of
    every operation of a history). -/
theorem mergeAux_size_le (O : Oracle) (fuel : Nat) (t : X) (record : Bool) (dest src : Nat)
    (w : WF t.h) (hs : src < t.h.size) (h1 : ¬ Anc t.h src dest) (h2 : ¬ Anc t.h dest src)
    (ho : ∀ y, y < t.h.size → t.orig y = y) :
    (mergeAux O fuel t record dest src).1.h.size ≤ 2 * t.h.size := by
  have hP := prot_subtree w hs
  obtain ⟨_, c⟩ := mergeAux_copies O w hP fuel t record dest src w (Nat.le_refl _) (fun _ _ => rfl)
    (fun y py => ho y (hP.lt y py))
    (fun y hy hd => by
      rcases anc_comparable hy hd with h | h
      · exact h1 h
      · exact h2 h)
    (Anc.refl _)
  exact c.count (fun y hy => hP.lt y hy) (mergeAux_frame O fuel t record dest src w).1.2.1

/-! ### `orig` is not touched by unmerge / clean -/

theorem removeAll_orig (self : Nat) : ∀ (l : List Nat) (s : X), (removeAll self l s).1.orig = s.orig := by
  intro l
  induction l with
  | nil => intro s; rfl
  | cons o os ih =>
    intro s
    unfold removeAll
    have hp : (s.prim (.remove self o)).1.orig = s.orig := prim_orig _ _
    rcases hpo : s.prim (.remove self o) with ⟨s1, o1⟩
    rw [hpo] at hp
    cases o1 with
    | ok => simp only; rw [ih s1]; exact hp
    | _ => exact hp

theorem unmergeAux_orig (O : Oracle) (og : Nat → Nat) : ∀ (fuel : Nat) (s : X) (self target : Nat),
    s.orig = og → (unmergeAux O fuel s self target).1.orig = og := by
  intro fuel
  induction fuel with
  | zero => intro s self target h; exact h
  | succ f ih =>
    intro s self target h
    rw [unmergeAux.eq_2]
    split
    · exact h
    · have i1 := liveLoop_keep (fun t : X × List Nat => (t.1.h.node target).secs)
        (unmergeSecBody O (unmergeAux O f) self) (fun t => t.1.orig = og)
        (by
          intro t o ht _
          unfold unmergeSecBody
          split
          · exact ht
          · split
            · exact ht
            · exact ih _ _ _ ht) f 0 (s, []) h
      split
      · rename_i t1 heq
        rw [heq] at i1
        have i2 := liveLoop_keep (fun t : X × List Nat => (t.1.h.node target).props)
          (unmergePropBody O self) (fun t => t.1.orig = og)
          (by
            intro t o ht _
            unfold unmergePropBody
            split
            · exact ht
            · split <;> exact ht) f 0 t1 i1
        split
        · rename_i t2 heq2
          rw [heq2] at i2
          have i3 : (removeAll self t2.2 t2.1).1.orig = og := by
            rw [removeAll_orig]; exact i2
          split
          · rename_i s3 heq3
            rw [heq3] at i3
            split
            · exact i3
            · exact i3
          · rename_i r hne; exact i3
        · rename_i t2 o hne heq2; rw [heq2] at i2; exact i2
      · rename_i t1 o hne heq; rw [heq] at i1; exact i1

theorem cleanAux_orig (O : Oracle) (og : Nat → Nat) : ∀ (fuel : Nat) (s : X) (x : Nat),
    s.orig = og → (cleanAux O fuel s x).1.orig = og := by
  intro fuel
  induction fuel with
  | zero => intro s x h; exact h
  | succ f ih =>
    intro s x h
    rw [cleanAux.eq_2]
    have h1 : (unmergeIfMerged O f s x).1.orig = og := by
      unfold unmergeIfMerged
      split
      · exact unmergeAux_orig O og f s x _ h
      · exact h
    split
    · rename_i s1 heq
      rw [heq] at h1
      exact liveLoop_keep (fun t : X => (t.h.node x).secs) (fun t i => cleanAux O f t i)
        (fun t => t.orig = og) (fun t o ht _ => ih t o ht) f 0 s1 h1
    · rename_i r hne; exact h1

theorem cleanIfLinked_orig (O : Oracle) (f : Nat) (s : X) (x : Nat) :
    (cleanIfLinked O f s x).1.orig = s.orig := by
  unfold cleanIfLinked
  split
  · exact cleanAux_orig O s.orig f s x rfl
  · rfl

/-- The budget of the link setter is at most `6 * size + 3`. -/
theorem linkBudget_le (O : Oracle) (s : X) (x : Nat) (v : LinkVal) (w : WF s.h) (hx : x < s.h.size)
    (hv : ∀ t, v = .path (some t) → t < s.h.size ∧ ¬ Anc s.h t x ∧ ¬ Anc s.h x t)
    (ho : ∀ y, y < s.h.size → s.orig y = y) : linkBudget O s x v ≤ 6 * s.h.size + 3 := by
  cases v with
  | none => simp only [linkBudget]; omega
  | falsy => simp only [linkBudget]; omega
  | path tt =>
    cases tt with
    | none => simp only [linkBudget]; omega
    | some t =>
      simp only [linkBudget]
      obtain ⟨ht, ha1, ha2⟩ := hv t rfl
      have i0 : CInv s.h (cleanIfLinked O (3 * s.h.size + 2) s x).1.h :=
        cleanIfLinked_inv (cinv_remove s.h) O _ s x ⟨w, Detaches.refl _⟩
      have hsz1 : (cleanIfLinked O (3 * s.h.size + 2) s x).1.h.size = s.h.size := i0.2.1
      have := mergeAux_size_le O (3 * s.h.size + 2) (cleanIfLinked O (3 * s.h.size + 2) s x).1 true x t
        i0.1 (by rw [hsz1]; exact ht) (fun h => ha1 (anc_detaches i0.2 h))
        (fun h => ha2 (anc_detaches i0.2 h))
        (fun y hy => by rw [cleanIfLinked_orig]; exact ho y (by rw [← hsz1]; exact hy))
      rw [hsz1] at this
      omega
