/-
find_related: which positions the preorder walk below a node lists.
-/
import OdmlModel.Proofs.PathMem

set_option linter.unusedSimpArgs false
set_option linter.unusedVariables false

namespace Path
open PathTree

theorem pre_mk (n t : Str) (ps : List PropT) (ss : List Sec) (p : Pos) :
    (Sec.mk n t ps ss).pre p = (p, Sec.mk n t ps ss) :: preList ss p 0 := by
  simp [Sec.pre, preList]

theorem preList_nil (p : Pos) (i : Nat) : preList [] p i = [] := by
  simp [preList, Sec.pre.preList]

theorem preList_cons (t : Sec) (l : List Sec) (p : Pos) (i : Nat) :
    preList (t :: l) p i = t.pre (p ++ [i]) ++ preList l p (i + 1) := by
  simp [preList, Sec.pre.preList]

/-- the preorder listing of a sub-tree is exactly its valid relative positions -/
theorem mem_pre (t : Sec) : ∀ (p q : Pos) (s : Sec),
    (q, s) ∈ t.pre p ↔ ∃ r, q = p ++ r ∧ secBelow t r = some s := by
  induction t using Sec.rec
    (motive_2 := fun l => ∀ (p : Pos) (i : Nat) (q : Pos) (s : Sec),
      (q, s) ∈ preList l p i ↔
        ∃ j t r, l[j]? = some t ∧ q = p ++ (i + j) :: r ∧ secBelow t r = some s) with
  | mk n ty ps ss ih =>
    intro p q s
    rw [pre_mk, List.mem_cons, ih]
    constructor
    · rintro (h | ⟨j, t, r, hj, hq, hs⟩)
      · simp only [Prod.mk.injEq] at h
        exact ⟨[], by simp [h.1], by simp [secBelow, h.2]⟩
      · refine ⟨j :: r, by simpa using hq, ?_⟩
        rw [secBelow_cons]
        simp [hj, hs]
    · rintro ⟨r, hq, hs⟩
      cases r with
      | nil =>
        left
        simp [secBelow] at hs
        simp [hq, hs]
      | cons j r' =>
        right
        rw [secBelow_cons] at hs
        simp only [Sec.subs_mk] at hs
        cases hj : ss[j]? with
        | none => simp [hj] at hs
        | some t =>
          simp only [hj, Option.bind_some] at hs
          exact ⟨j, t, r', hj, by simpa using hq, hs⟩
  | nil =>
    rename_i p i q s
    simp [preList_nil]
  | cons t l iht ihl =>
    rename_i p i q s
    rw [preList_cons, List.mem_append, iht, ihl]
    constructor
    · rintro (⟨r, hq, hs⟩ | ⟨j, t', r, hj, hq, hs⟩)
      · exact ⟨0, t, r, by simp, by simpa using hq, hs⟩
      · exact ⟨j + 1, t', r, by simpa using hj, by rw [hq]; congr 2; omega, hs⟩
    · rintro ⟨j, t', r, hj, hq, hs⟩
      cases j with
      | zero =>
        left
        simp at hj; subst hj
        exact ⟨r, by simpa using hq, hs⟩
      | succ j =>
        right
        exact ⟨j, t', r, by simpa using hj, by rw [hq]; congr 2; omega, hs⟩

theorem mem_preList (l : List Sec) (p : Pos) (q : Pos) (s : Sec) :
    (q, s) ∈ preList l p 0 ↔ ∃ r, r ≠ [] ∧ q = p ++ r ∧ secAt l r = some s := by
  induction l using List.rec generalizing p with
  | nil => 
    simp only [preList_nil, List.not_mem_nil, false_iff]
    rintro ⟨r, hr, _, hs⟩
    cases r with
    | nil => exact hr rfl
    | cons j t => rw [secAt_eq_secBelow] at hs; simp at hs
  | cons t l _ =>
    -- go through the general statement with an index offset
    have key : ∀ (l : List Sec) (p : Pos) (i : Nat) (q : Pos) (s : Sec),
        (q, s) ∈ preList l p i ↔
          ∃ j t r, l[j]? = some t ∧ q = p ++ (i + j) :: r ∧ secBelow t r = some s := by
      intro l
      induction l with
      | nil => intro p i q s; simp [preList_nil]
      | cons t l ihl =>
        intro p i q s
        rw [preList_cons, List.mem_append, mem_pre, ihl]
        constructor
        · rintro (⟨r, hq, hs⟩ | ⟨j, t', r, hj, hq, hs⟩)
          · exact ⟨0, t, r, by simp, by simpa using hq, hs⟩
          · exact ⟨j + 1, t', r, by simpa using hj, by rw [hq]; congr 2; omega, hs⟩
        · rintro ⟨j, t', r, hj, hq, hs⟩
          cases j with
          | zero =>
            left
            simp at hj; subst hj
            exact ⟨r, by simpa using hq, hs⟩
          | succ j =>
            right
            exact ⟨j, t', r, by simpa using hj, by rw [hq]; congr 2; omega, hs⟩
    rw [key]
    constructor
    · rintro ⟨j, t', r, hj, hq, hs⟩
      refine ⟨j :: r, by simp, by simpa using hq, ?_⟩
      rw [secAt_eq_secBelow, hj]; simpa using hs
    · rintro ⟨r, hr, hq, hs⟩
      cases r with
      | nil => exact absurd rfl hr
      | cons j r' =>
        rw [secAt_eq_secBelow] at hs
        cases hj : (t :: l)[j]? with
        | none => simp [hj] at hs
        | some t' =>
          simp only [hj, Option.bind_some] at hs
          exact ⟨j, t', r', hj, by simpa using hq, hs⟩

theorem mem_ancestors (p a : Pos) : a ∈ ancestors p ↔ ∃ k, k < p.length ∧ a = p.take k := by
  simp only [ancestors, List.mem_map, List.mem_reverse, List.mem_range]
  constructor
  · rintro ⟨k, hk, h⟩; exact ⟨k, hk, h.symm⟩
  · rintro ⟨k, hk, h⟩; exact ⟨k, hk, h.symm⟩

theorem ancestors_take_one (p : Pos) (a : Pos) :
    a ∈ (ancestors p).take 1 ↔ p ≠ [] ∧ a = p.dropLast := by
  cases p with
  | nil => simp [ancestors]
  | cons i t =>
    simp only [ancestors, List.length_cons, List.range_succ, List.reverse_append,
      List.reverse_cons, List.reverse_nil, List.nil_append, List.cons_append, List.map_cons,
      List.take_succ_cons, List.take_zero, List.mem_singleton, ne_eq, reduceCtorEq,
      not_false_eq_true, true_and]
    rw [List.dropLast_eq_take]
    simp

end Path
