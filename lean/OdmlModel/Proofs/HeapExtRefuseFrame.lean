/-
Refusals of the compound operations (property C06), part 2b: what a merge into `dest` can touch.

Relative to the state `s0` in which a merge into `d0` starts: the heap stays well-formed and free
of empty names, the objects that existed only gain children (`Adds`), an object that is not below
`d0` is exactly as it was, and the scratch component `orig` of the existing objects is untouched
(`MF`). This holds whatever the outcome.
-/
import OdmlModel.Proofs.HeapExtRefuseClone

set_option linter.unusedSimpArgs false
set_option linter.unusedVariables false

namespace Heap.Refuse

/-! ### ancestors -/

/-- The ancestors of an object form a chain. -/
theorem anc_chain {h : H} {a b j : Nat} (ha : Anc h a j) (hb : Anc h b j) :
    Anc h a b ∨ Anc h b a := by
  induction ha with
  | refl => exact Or.inr hb
  | step hp ha' ih =>
    cases hb with
    | refl => exact Or.inl (Anc.step hp ha')
    | step hp' hb' =>
      rw [hp] at hp'; cases hp'
      exact ih hb'

theorem desc_lt {h : H} (w : WF h) {a j : Nat} (ha : Anc h a j) (hlt : a < h.size) :
    j < h.size := by
  cases ha with
  | refl => exact hlt
  | step hp _ => exact w.child_lt hp

/-- Where the existing objects keep their parents, they keep their ancestors. -/
theorem anc_same_parents {h h' : H} (w : WF h)
    (hp : ∀ i, i < h.size → (h'.node i).parent = (h.node i).parent) {a i : Nat}
    (hi : i < h.size) : Anc h' a i ↔ Anc h a i := by
  constructor
  · intro ha
    induction ha with
    | refl => exact Anc.refl _
    | @step p c hpc _ ih =>
      rw [hp c hi] at hpc
      exact Anc.step hpc (ih (w.parent_lt hpc))
  · intro ha
    induction ha with
    | refl => exact Anc.refl _
    | @step p c hpc _ ih =>
      have hpc' : (h'.node c).parent = some p := by rw [hp c hi]; exact hpc
      exact Anc.step hpc' (ih (w.parent_lt hpc))

/-- Two different children of one parent have disjoint subtrees. -/
theorem siblings_disjoint {h : H} (w : WF h) {p a b j : Nat} (hpa : (h.node a).parent = some p)
    (hpb : (h.node b).parent = some p) (hne : a ≠ b) (haj : Anc h a j) (hbj : Anc h b j) :
    False := by
  rcases anc_chain haj hbj with h1 | h1
  · exact not_anc_parent w hpa (Anc.of_parent hpb h1 hne)
  · exact not_anc_parent w hpb (Anc.of_parent hpa h1 (Ne.symm hne))

theorem sec_lt {h : H} (w : WF h) {i : Nat} (hk : (h.node i).kind = .sec) : i < h.size := by
  rcases Nat.lt_or_ge i h.size with h1 | h1
  · exact h1
  · have := w.blank i h1; rw [this] at hk; simp [default_node] at hk

/-! ### loops, with the invariant on the loop state itself -/

theorem liveLoop_invX {σ : Type} (P : σ → Prop) (lst : σ → List Nat) (body : σ → Nat → σ × XOut)
    (hbody : ∀ t o, P t → o ∈ lst t → P (body t o).1) :
    ∀ (fuel i : Nat) (t : σ), P t → P (liveLoop lst body fuel i t).1 := by
  intro fuel
  induction fuel with
  | zero => intro i t h; exact h
  | succ fuel ih =>
    intro i t h
    unfold liveLoop
    split
    · exact h
    · rename_i obj hget
      have h1 := hbody t obj h (List.mem_of_getElem? hget)
      split
      · rename_i t1 heq; rw [heq] at h1; exact ih _ _ h1
      · rename_i r hne; exact h1

/-! ### the frame of a merge -/

theorem adds_mono {n m : Nat} {a b : H} (h : Adds m a b) (hn : n ≤ m) : Adds n a b := by
  refine ⟨h.1, fun i hi => ?_⟩
  obtain ⟨k1, n1, i1, p1, ⟨l1, e1, m1⟩, ⟨q1, f1, o1⟩⟩ := h.2 i (Nat.lt_of_lt_of_le hi hn)
  exact ⟨k1, n1, i1, p1, ⟨l1, e1, fun x hx => Nat.le_trans hn (m1 x hx)⟩,
    ⟨q1, f1, fun x hx => Nat.le_trans hn (o1 x hx)⟩⟩

/-- See the header. -/
structure MF (s0 : X) (d0 : Nat) (t : X) : Prop where
  wf : WF t.h
  ne : NoEmptyName t.h
  adds : Adds s0.h.size s0.h t.h
  out : ∀ i, i < s0.h.size → ¬ Anc s0.h d0 i → t.h.node i = s0.h.node i
  orig : ∀ i, i < s0.h.size → t.orig i = s0.orig i

theorem MF.refl {s0 : X} (d0 : Nat) (w : WF s0.h) (hn : NoEmptyName s0.h) : MF s0 d0 s0 :=
  ⟨w, hn, Adds.refl _ _, fun _ _ _ => rfl, fun _ _ => rfl⟩

theorem MF.of_eq {s0 : X} {d0 : Nat} {t t' : X} (h : MF s0 d0 t) (hh : t'.h = t.h)
    (ho : t'.orig = t.orig) : MF s0 d0 t' := by
  refine ⟨?_, ?_, ?_, ?_, ?_⟩
  · rw [hh]; exact h.wf
  · rw [hh]; exact h.ne
  · rw [hh]; exact h.adds
  · rw [hh]; exact h.out
  · rw [ho]; exact h.orig

theorem markCopy_orig (t : X) (c obj : Nat) (mm : Option Bool) : (t.markCopy c obj mm).orig = t.orig := by
  cases mm <;> rfl

theorem cloneAppend_frame (O : Oracle) (fuel : Nat) {s0 : X} {d0 : Nat} (w0 : WF s0.h)
    (t : X) (dest obj : Nat) (mm : Option Bool) (h : MF s0 d0 t)
    (hd : dest < s0.h.size → Anc s0.h d0 dest) (ho : obj < t.h.size) :
    MF s0 d0 (cloneAppend O fuel t dest obj mm).1 := by
  unfold cloneAppend
  have r0 := cloneAux_spec O fuel t obj true false h.wf
  have r1 := cloneAux_full O fuel t obj true false h.wf h.ne ho
  have hnt : s0.h.size ≤ t.h.size := h.adds.1
  have mf1 : MF s0 d0 (cloneAux O fuel t obj true false).1 := by
    refine ⟨r0.wf, r1.ne, h.adds.trans (r0.same.mono hnt).adds, ?_, ?_⟩
    · intro i hi hna
      rw [r0.same.2 i (Nat.lt_of_lt_of_le hi hnt)]; exact h.out i hi hna
    · intro i hi
      rw [r1.orig i (Nat.lt_of_lt_of_le hi hnt)]; exact h.orig i hi
  split
  · rename_i t1 c heq
    rw [heq] at r0 r1 mf1
    have hck : c < t1.h.size := (r0.ok rfl).1
    have hdet : (t1.h.node c).parent = none := (r0.ok rfl).2
    have hroot : c = t.h.size := r0.root
    have hh : ((t1.markCopy c obj mm).prim (.append dest c)).1.h =
        (step t1.h (.append dest c)).1 := by rw [prim_h, markCopy_h]
    have hor : ((t1.markCopy c obj mm).prim (.append dest c)).1.orig = t1.orig := by
      rw [prim_orig, markCopy_orig]
    rcases step_append_detached (p := dest) mf1.wf hck hdet with he | ⟨_, ha⟩
    · exact mf1.of_eq (by rw [hh, he]) hor
    · refine ⟨?_, ?_, ?_, ?_, ?_⟩
      · rw [hh]; exact wf_step' _ _ mf1.wf
      · rw [hh]; exact appended_noEmpty ha mf1.ne
      · rw [hh]; exact mf1.adds.trans (ha.adds (by omega))
      · intro i hi hna
        rw [hh]
        obtain ⟨_, _, hoth, _, _⟩ := ha
        have hid : i ≠ dest := by
          intro e; subst e; exact hna (hd hi)
        rw [hoth i hid (by omega)]
        exact mf1.out i hi hna
      · rw [hor]; exact mf1.orig
  · rename_i t1 c o hne heq
    rw [heq] at mf1
    exact mf1

theorem containsS_mem {O : Oracle} {s : X} {dest obj mine : Nat}
    (h : containsS O s dest obj = some mine) :
    mine ∈ (s.h.node dest).secs ∧ (s.h.node obj).name = (s.h.node mine).name := by
  unfold containsS at h
  refine ⟨List.mem_of_find?_eq_some h, ?_⟩
  have := List.find?_some h
  simp only [Bool.and_eq_true, beq_iff_eq] at this
  exact this.1

theorem containsP_mem {s : X} {dest obj mine : Nat}
    (h : containsP s dest obj = some mine) :
    mine ∈ (s.h.node dest).props ∧ (s.h.node obj).name = (s.h.node mine).name := by
  unfold containsP at h
  refine ⟨List.mem_of_find?_eq_some h, ?_⟩
  have := List.find?_some h
  simpa using this

/-- A child Section of `dest` found in state `t` lies below `d0` whenever `dest` does. -/
theorem child_region {s0 : X} {d0 : Nat} (w0 : WF s0.h) {t : X} (h : MF s0 d0 t) {dest mine : Nat}
    (hd : dest < s0.h.size → Anc s0.h d0 dest) (hm : (t.h.node mine).parent = some dest) :
    mine < s0.h.size → Anc s0.h d0 mine := by
  intro hlt
  have hp : (s0.h.node mine).parent = some dest := by
    rw [← (h.adds.2 mine hlt).2.2.2.1]; exact hm
  exact Anc.step hp (hd (w0.parent_lt hp))

theorem mergeAux_frame (O : Oracle) {s0 : X} {d0 : Nat} (w0 : WF s0.h) :
    ∀ (fuel : Nat) (t : X) (record : Bool) (dest src : Nat), MF s0 d0 t →
      (dest < s0.h.size → Anc s0.h d0 dest) →
      MF s0 d0 (mergeAux O fuel t record dest src).1 := by
  intro fuel
  induction fuel with
  | zero => intro t record dest src h _; exact h
  | succ fuel ih =>
    intro t record dest src h hd
    unfold mergeAux
    split
    · exact h
    · exact h
    · split
      · exact h
      · exact h
      · have h1 := liveLoop_invX (MF s0 d0) (fun t => (t.h.node src).secs)
          (mergeSecBody O fuel (mergeAux O fuel) record dest)
          (by
            intro u o hu hmem
            unfold mergeSecBody
            split
            · rename_i mine hc
              have hm := (containsS_mem hc).1
              exact ih _ _ _ _ hu (child_region w0 hu hd ((hu.wf.memS dest mine).mp hm).1)
            · exact cloneAppend_frame O fuel w0 u dest o (some record) hu hd
                (hu.wf.child_lt ((hu.wf.memS src o).mp hmem).1)) fuel 0 t h
        split
        · rename_i s1 heq
          rw [heq] at h1
          have h2 := liveLoop_invX (MF s0 d0) (fun t => (t.h.node src).props)
            (mergePropBody O fuel dest)
            (by
              intro u o hu hmem
              unfold mergePropBody
              split
              · split <;> exact hu
              · exact cloneAppend_frame O fuel w0 u dest o none hu hd
                  (hu.wf.child_lt ((hu.wf.memP src o).mp hmem).1)) fuel 0 s1 h1
          split
          · rename_i s2 heq2; rw [heq2] at h2
            split
            · exact h2.of_eq rfl rfl
            · exact h2
          · rename_i r hne; exact h2
        · rename_i r hne; exact h1

end Heap.Refuse
