/-
Item assignment on a child list (`SmartList.__setitem__`) on a well-formed heap.
-/
import OdmlModel.Proofs.HeapOps

set_option linter.unusedSimpArgs false
set_option linter.unusedVariables false

namespace Heap

/-! ### Item assignment on a child list -/

/-- The heap after `p.sections[idx] = v` replaced `r`: both detached, then `v` attached. -/
def replaced (h : H) (p r v : Nat) (ls lp : List Nat) : H :=
  attach (detach (detachIf h v) p r) p v ls lp

/-- The model's update sequence yields exactly that heap (for any intermediate heap `g`). -/
theorem setItem_heap_eq_S (g : H) {p r v : Nat} (idx : Nat) (hvp : v ≠ p) (hvr : v ≠ r) (hrp : r ≠ p) :
    upd (upd (upd g v (fun n => { n with parent := some p })) r (fun n => { n with parent := none })) p
      (fun n => { n with secs := setAt n.secs idx v }) =
    attach (detach g p r) p v (setAt (g.node p).secs idx v) (g.node p).props := by
  refine H.ext' (fun j => ?_) rfl
  unfold attach detach upd
  by_cases h1 : j = v
  · subst h1; simp [hvp, hvr]
  · by_cases h2 : j = p
    · subst h2; simp [h1, hrp.symm, Ne.symm hvp]
    · by_cases h3 : j = r
      · subst h3; simp [h1, h2]
      · simp [h1, h2, h3]

theorem setItem_heap_eq_P (g : H) {p r v : Nat} (idx : Nat) (hvp : v ≠ p) (hvr : v ≠ r) (hrp : r ≠ p) :
    upd (upd (upd g v (fun n => { n with parent := some p })) r (fun n => { n with parent := none })) p
      (fun n => { n with props := setAt n.props idx v }) =
    attach (detach g p r) p v (g.node p).secs (setAt (g.node p).props idx v) := by
  refine H.ext' (fun j => ?_) rfl
  unfold attach detach upd
  by_cases h1 : j = v
  · subst h1; simp [hvp, hvr]
  · by_cases h2 : j = p
    · subst h2; simp [h1, hrp.symm, Ne.symm hvp]
    · by_cases h3 : j = r
      · subst h3; simp [h1, h2]
      · simp [h1, h2, h3]

theorem removeChild_parent_detachIf {h : H} (w : WF h) (v : Nat) :
    (match (h.node v).parent with
      | some q => removeChild h q v
      | none => some h) = some (detachIf h v) := by
  cases hp : (h.node v).parent with
  | none => simp only; unfold detachIf; rw [hp]
  | some q => simp only; exact removeChild_detachIf w hp

theorem setItem_spec {h : H} (w : WF h) {p v : Nat} (secList : Bool) (key : Int)
    (hps : p < h.size) (hvs : v < h.size) :
    (∃ e, setItem h p secList key v = (h, .raised e)) ∨
    (∃ h', setItem h p secList key v = (h', .ok) ∧ WF h') := by
  unfold setItem
  cases secList with
  | true =>
    simp only [if_true, Bool.not_true, Bool.false_and, Bool.or_false]
    by_cases hp0 : (h.node p).kind = .prop
    · simp only [hp0, decide_true, if_true]; exact Or.inl ⟨_, rfl⟩
    simp only [hp0, decide_false, Bool.false_eq_true, if_false]
    by_cases hvk' : (h.node v).kind ≠ .sec
    · rw [if_pos hvk']; exact Or.inl ⟨_, rfl⟩
    have hvk : (h.node v).kind = .sec := by simpa using hvk'
    rw [if_neg hvk']
    cases hidx : pyIndex (h.node p).secs.length key with
    | none => exact Or.inl ⟨_, rfl⟩
    | some idx =>
    simp only
    cases hr : (h.node p).secs[idx]? with
    | none => exact Or.inl ⟨_, rfl⟩
    | some r =>
    simp only
    by_cases hrv : r = v
    · simp only [hrv, if_true]; exact Or.inr ⟨h, rfl, w⟩
    simp only [hrv, if_false]
    by_cases hclash : ((h.node p).secs.any fun o => o != r && (h.node o).name == (h.node v).name) = true
    · simp only [hclash, if_true]; exact Or.inl ⟨_, rfl⟩
    rw [if_neg hclash]
    by_cases hcyc : meetsUp h (h.size + 1) (h.node r).parent v = true
    · simp only [hcyc, if_true]; exact Or.inl ⟨_, rfl⟩
    rw [if_neg hcyc]
    have hvr : v ≠ r := fun e => hrv e.symm
    have hrm : r ∈ (h.node p).secs := List.mem_of_getElem? hr
    have hrpar := (w.memS p r).mp hrm
    have hrp : r ≠ p := (w.parent_ne hrpar.1).symm
    have hanc : ¬ Anc h v p := by
      rw [hrpar.1] at hcyc
      exact meetsUp_false w (by simpa using hcyc)
    have hvp : v ≠ p := fun e => hanc (e ▸ Anc.refl _)
    have hnc : ∀ c ∈ (h.node p).secs, c ≠ r → (h.node c).name ≠ (h.node v).name := by
      intro c hc hcr hn
      apply hclash
      rw [List.any_eq_true]
      exact ⟨c, hc, by simp [hcr, hn]⟩
    have hvnot : (h.node v).parent ≠ some p := by
      intro hpv
      have hm := (w.memS p v).mpr ⟨hpv, hvk⟩
      exact hnc v hm hvr rfl
    have hg1r : ((detachIf h v).node r).parent = some p := by
      rw [detachIf_parent]; simp [Ne.symm hvr, hrpar.1]
    suffices hfin : WF (upd (upd (upd (detachIf h v) v
        (fun n => { n with parent := ((detachIf h v).node r).parent })) r
        (fun n => { n with parent := none })) p (fun n => { n with secs := setAt n.secs idx v })) by
      cases hpv : (h.node v).parent with
      | none =>
        have hd : detachIf h v = h := by unfold detachIf; rw [hpv]
        rw [hd] at hfin
        exact Or.inr ⟨_, rfl, hfin⟩
      | some q =>
        simp only [removeChild_detachIf w hpv]
        exact Or.inr ⟨_, rfl, hfin⟩
    rw [hg1r, setItem_heap_eq_S (detachIf h v) idx hvp hvr hrp]
    have wg1 := wf_detachIf w v
    have wG := wf_detach wg1 hg1r
    have hsecs1 : ((detachIf h v).node p).secs = (h.node p).secs := detachIf_secs h v p hvnot
    have hprops1 : ((detachIf h v).node p).props = (h.node p).props := detachIf_props h v p hvnot
    have hrnp : r ∉ (h.node p).props := by
      intro hm; have := ((w.memP p r).mp hm).2; rw [hrpar.2] at this; cases this
    apply wf_attachS wG
    · rw [detach_parent, detachIf_parent]; simp [hvr]
    · rw [detach_kind, detachIf_kind]; exact hvk
    · rw [detach_kind, detachIf_kind]; exact hp0
    · exact fun ha => hanc (Anc.of_detachIf (Anc.of_detach ha))
    · rw [detach_size, detachIf_size]; exact hvs
    · rw [detach_size, detachIf_size]; exact hps
    · intro c hc
      rw [detach_secs] at hc; simp only [if_true] at hc
      rw [hsecs1] at hc
      have hc' := (w.nodupS p).mem_erase_iff.mp hc
      rw [detach_name, detach_name, detachIf_name, detachIf_name]
      exact hnc c hc'.2 hc'.1
    · rw [detach_secs]; simp only [if_true]
      rw [hsecs1]; exact setAt_perm hr
    · rw [detach_props]; simp only [if_true]
      rw [hprops1, List.erase_of_not_mem hrnp]
  | false =>
    simp only [Bool.false_eq_true, if_false, Bool.not_false, Bool.true_and]
    by_cases hp0 : (decide ((h.node p).kind = Kind.prop) || decide ((h.node p).kind = Kind.doc)) = true
    · simp only [hp0, if_true]; exact Or.inl ⟨_, rfl⟩
    simp only [hp0, if_false]
    have hpsec : (h.node p).kind = .sec := by
      cases hkp : (h.node p).kind <;> simp [hkp] at hp0 ⊢
    by_cases hvk' : (h.node v).kind ≠ .prop
    · rw [if_pos hvk']; exact Or.inl ⟨_, rfl⟩
    have hvk : (h.node v).kind = .prop := by simpa using hvk'
    rw [if_neg hvk']
    cases hidx : pyIndex (h.node p).props.length key with
    | none => exact Or.inl ⟨_, rfl⟩
    | some idx =>
    simp only
    cases hr : (h.node p).props[idx]? with
    | none => exact Or.inl ⟨_, rfl⟩
    | some r =>
    simp only
    by_cases hrv : r = v
    · simp only [hrv, if_true]; exact Or.inr ⟨h, rfl, w⟩
    simp only [hrv, if_false]
    by_cases hclash : ((h.node p).props.any fun o => o != r && (h.node o).name == (h.node v).name) = true
    · simp only [hclash, if_true]; exact Or.inl ⟨_, rfl⟩
    rw [if_neg hclash]
    by_cases hcyc : meetsUp h (h.size + 1) (h.node r).parent v = true
    · simp only [hcyc, if_true]; exact Or.inl ⟨_, rfl⟩
    rw [if_neg hcyc]
    have hvr : v ≠ r := fun e => hrv e.symm
    have hrm : r ∈ (h.node p).props := List.mem_of_getElem? hr
    have hrpar := (w.memP p r).mp hrm
    have hrp : r ≠ p := (w.parent_ne hrpar.1).symm
    have hvp : v ≠ p := by intro e; subst e; rw [hvk] at hpsec; cases hpsec
    have hnc : ∀ c ∈ (h.node p).props, c ≠ r → (h.node c).name ≠ (h.node v).name := by
      intro c hc hcr hn
      apply hclash
      rw [List.any_eq_true]
      exact ⟨c, hc, by simp [hcr, hn]⟩
    have hvnot : (h.node v).parent ≠ some p := by
      intro hpv
      have hm := (w.memP p v).mpr ⟨hpv, hvk⟩
      exact hnc v hm hvr rfl
    have hg1r : ((detachIf h v).node r).parent = some p := by
      rw [detachIf_parent]; simp [Ne.symm hvr, hrpar.1]
    suffices hfin : WF (upd (upd (upd (detachIf h v) v
        (fun n => { n with parent := ((detachIf h v).node r).parent })) r
        (fun n => { n with parent := none })) p (fun n => { n with props := setAt n.props idx v })) by
      cases hpv : (h.node v).parent with
      | none =>
        have hd : detachIf h v = h := by unfold detachIf; rw [hpv]
        rw [hd] at hfin
        exact Or.inr ⟨_, rfl, hfin⟩
      | some q =>
        simp only [removeChild_detachIf w hpv]
        exact Or.inr ⟨_, rfl, hfin⟩
    rw [hg1r, setItem_heap_eq_P (detachIf h v) idx hvp hvr hrp]
    have wg1 := wf_detachIf w v
    have wG := wf_detach wg1 hg1r
    have hsecs1 : ((detachIf h v).node p).secs = (h.node p).secs := detachIf_secs h v p hvnot
    have hprops1 : ((detachIf h v).node p).props = (h.node p).props := detachIf_props h v p hvnot
    have hrns : r ∉ (h.node p).secs := by
      intro hm; have := ((w.memS p r).mp hm).2; rw [hrpar.2] at this; cases this
    apply wf_attachP wG
    · rw [detach_parent, detachIf_parent]; simp [hvr]
    · rw [detach_kind, detachIf_kind]; exact hvk
    · rw [detach_kind, detachIf_kind]; exact hpsec
    · rw [detach_size, detachIf_size]; exact hvs
    · rw [detach_size, detachIf_size]; exact hps
    · intro c hc
      rw [detach_props] at hc; simp only [if_true] at hc
      rw [hprops1] at hc
      have hc' := (w.nodupP p).mem_erase_iff.mp hc
      rw [detach_name, detach_name, detachIf_name, detachIf_name]
      exact hnc c hc'.2 hc'.1
    · rw [detach_props]; simp only [if_true]
      rw [hprops1]; exact setAt_perm hr
    · rw [detach_secs]; simp only [if_true]
      rw [hsecs1, List.erase_of_not_mem hrns]

end Heap
