/-
Helper lemmas for the temporal value objects of C01 (`Model/XmlTok.lean`).
The `strptime` round trips of `Proofs/DTypes.lean` (C05) are reused.
-/
import OdmlModel.Model.XmlTok
import OdmlModel.Model.XmlRepr
import OdmlModel.Proofs.DTypes

set_option linter.unusedSimpArgs false
set_option linter.unusedVariables false

namespace XmlTok
open Xml Py DT

theorem hms_ne_nil (t : Time) : t.hms ≠ [] := by simp [Time.hms, pad2]

theorem strip_hms (t : Time) : strip t.hms = t.hms := by
  simp [strip, rstrip, Time.hms, pad2, lstrip, dc_not_space]

theorem iso_of_us0 {t : Time} (h : t.us = 0) : t.iso = t.hms := by simp [Time.iso, h]

theorem strip_dateIso (d : Date) : strip d.iso = d.iso := by
  simp [strip, rstrip, Date.iso, pad2, pad4, lstrip, dc_not_space]

theorem dateIso_ne_nil (d : Date) : d.iso ≠ [] := by simp [Date.iso, pad4]

/-- `strip` of a text that begins and ends with a character that is no white space -/
theorem strip_mid (a b : Char) (m : List Char) (ha : isSpace a = false) (hb : isSpace b = false) :
    strip (a :: (m ++ [b])) = a :: (m ++ [b]) := by
  simp [strip, rstrip, lstrip, ha, hb]

theorem strip_dtStr {x : DateTime} (hus : x.time.us = 0) : strip x.str = x.str := by
  have e : x.str = digitChar (x.date.y / 1000) ::
      (([digitChar (x.date.y / 100), digitChar (x.date.y / 10), digitChar x.date.y] ++ ['-'] ++
        pad2 x.date.m ++ ['-'] ++ pad2 x.date.d ++ [' '] ++
        [digitChar (x.time.h / 10), digitChar x.time.h, ':', digitChar (x.time.mi / 10),
         digitChar x.time.mi, ':', digitChar (x.time.s / 10)]) ++ [digitChar x.time.s]) := by
    simp [DateTime.str, Date.iso, Time.iso, Time.hms, hus, pad2, pad4]
  rw [e]
  exact strip_mid _ _ _ (dc_not_space _) (dc_not_space _)

theorem dtStr_ne_nil (x : DateTime) : x.str ≠ [] := by simp [DateTime.str, Date.iso, pad4]

/-- the stored form of a time object: valid, no microseconds -/
theorem timeGetObj_eq (o : TimeObj) (h : o.t.valid = true) :
    timeGetObj o = some { o.t with us := 0 } := parseTime_hms h

theorem valid_us0 {t : Time} (h : t.valid = true) : ({ t with us := 0 } : Time).valid = true := by
  simp only [Time.valid, Bool.and_eq_true, decide_eq_true_eq] at h ⊢
  omega

/-- the text of a stored time re-types to itself -/
theorem stdTok_time {s : Time} (h : s.valid = true) (hus : s.us = 0) :
    stdTok "time" s.iso = some s.iso := by
  have hp : parseTime s.hms = some s := by
    rw [parseTime_hms h]; cases s; simp at hus; simp [hus]
  simp [stdTok, iso_of_us0 hus, hp]

theorem stdTok_date {d : Date} (h : d.valid = true) : stdTok "date" d.iso = some d.iso := by
  simp [stdTok, parseDate_iso h]

theorem stdTok_datetime {x : DateTime} (h : x.valid = true) (hus : x.time.us = 0) :
    stdTok "datetime" x.str = some x.str := by
  simp [stdTok, parseDateTime_str h hus]

end XmlTok
