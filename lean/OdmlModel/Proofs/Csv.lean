/-
Helper lemmas: the csv reader automaton reads back what the csv writer wrote
(one record, arbitrary fields), and the `to_csv` / `from_csv` wrappers.
-/
import OdmlModel.Py.Csv
import OdmlModel.Model.XmlCsv

deriving instance DecidableEq for Except

namespace Py.Csv

theorem needsQuote_false {c : Char} (h : needsQuote c = false) :
    (c == ',') = false ∧ (c == '"') = false ∧ (c == '\r') = false ∧ (c == '\n') = false := by
  simp only [needsQuote, Bool.or_eq_false_iff] at h
  exact ⟨h.1.1.1, h.1.1.2, h.1.2, h.2⟩

/-- Plain characters of an unquoted field are collected one by one. -/
theorem run_inField_plain (dn : Option (List (List Char))) (acc : List (List Char)) (f : List Char) :
    ∀ (pre k : List Char), (∀ c ∈ f, needsQuote c = false) →
      run ⟨.inField, pre, acc⟩ true dn (f ++ k) = run ⟨.inField, pre ++ f, acc⟩ true dn k := by
  induction f with
  | nil => intro pre k _; simp
  | cons c cs ih =>
    intro pre k h
    obtain ⟨h1, h2, h3, h4⟩ := needsQuote_false (h c (by simp))
    have := ih (pre ++ [c]) k (fun c' hc' => h c' (by simp [hc']))
    simp [run, step, isNl, h1, h3, h4, RS.add, this]

/-- The body of a quoted field up to and including the closing quote. -/
theorem run_inQuoted_body (dn : Option (List (List Char))) (acc : List (List Char)) (f : List Char) :
    ∀ (pre k : List Char) (mid : Bool),
      run ⟨.inQuoted, pre, acc⟩ mid dn (escapeBody f ++ '"' :: k) =
        run ⟨.quoteInQuoted, pre ++ f, acc⟩ true dn k := by
  induction f with
  | nil => intro pre k mid; simp [escapeBody, run, step, RS.goto]
  | cons c cs ih =>
    intro pre k mid
    by_cases hq : c = '"'
    · subst hq
      have := ih (pre ++ ['"']) k true
      simp [escapeBody, run, step, RS.goto, RS.add, this]
    · have hq' : (c == '"') = false := by simpa using hq
      by_cases hn : c = '\n'
      · subst hn
        have := ih (pre ++ ['\n']) k false
        simp [escapeBody, run, step, RS.add, eol, this]
      · have hn' : (c == '\n') = false := by simpa using hn
        have := ih (pre ++ [c]) k true
        simp [escapeBody, hq', run, step, RS.add, hn', this]

/-- A rendered field followed by a delimiter: the field is saved, the automaton waits for the
    next field. -/
theorem run_field_comma (dn : Option (List (List Char))) (acc : List (List Char))
    (f rest : List Char) (mid : Bool) :
    run ⟨.startField, [], acc⟩ mid dn (renderField f ++ ',' :: rest) =
      run ⟨.startField, [], acc ++ [f]⟩ true dn rest := by
  unfold renderField
  split
  · -- quoted
    have := run_inQuoted_body dn acc f [] (',' :: rest) true
    simp only [List.nil_append] at this
    simp [run, step, stepStartField, isNl, RS.goto, this, RS.save]
  · rename_i hnq
    simp only [Bool.not_eq_true, List.any_eq_false] at hnq
    have hp : ∀ c ∈ f, needsQuote c = false := fun c hc => by simpa using hnq c hc
    cases f with
    | nil => simp [run, step, stepStartField, isNl, RS.save]
    | cons c cs =>
      obtain ⟨h1, h2, h3, h4⟩ := needsQuote_false (hp c (by simp))
      have := run_inField_plain dn acc cs [c] (',' :: rest) (fun c' hc' => hp c' (by simp [hc']))
      simp [run, step, stepStartField, isNl, h1, h2, h3, h4, RS.add, this, RS.save]

/-- A rendered field at the end of the input (some character has been consumed on this line,
    or the field is not empty). -/
theorem run_field_end (dn : Option (List (List Char))) (acc : List (List Char)) (f : List Char)
    (mid : Bool) (h : mid = true ∨ f ≠ []) :
    run ⟨.startField, [], acc⟩ mid dn (renderField f) = .ok (dn.getD (acc ++ [f])) := by
  unfold renderField
  split
  · have := run_inQuoted_body dn acc f [] [] true
    simp only [List.nil_append] at this
    simp [run, step, stepStartField, isNl, RS.goto, this, RS.save, eol]
  · rename_i hnq
    simp only [Bool.not_eq_true, List.any_eq_false] at hnq
    have hp : ∀ c ∈ f, needsQuote c = false := fun c hc => by simpa using hnq c hc
    cases f with
    | nil =>
      have hm : mid = true := by simpa using h
      simp [run, hm, eol, RS.save]
    | cons c cs =>
      obtain ⟨h1, h2, h3, h4⟩ := needsQuote_false (hp c (by simp))
      have := run_inField_plain dn acc cs [c] [] (fun c' hc' => hp c' (by simp [hc']))
      simp only [List.append_nil] at this
      simp [run, step, stepStartField, isNl, h1, h2, h3, h4, RS.add, this, RS.save, eol]

/-- Any non-empty list of fields, after at least one character of the line. -/
theorem run_joinFields (dn : Option (List (List Char))) (fs : List (List Char)) :
    ∀ acc, fs ≠ [] →
      run ⟨.startField, [], acc⟩ true dn (joinFields fs) = .ok (dn.getD (acc ++ fs)) := by
  induction fs with
  | nil => intro acc h; exact absurd rfl h
  | cons f fs ih =>
    intro acc _
    cases fs with
    | nil => simpa [joinFields] using run_field_end dn acc f true (Or.inl rfl)
    | cons g gs =>
      have := ih (acc ++ [f]) (by simp)
      simp only [joinFields] at this ⊢
      rw [run_field_comma, this]
      simp

/-- In `startRecord` a character that is not a line break is handled as in `startField`. -/
theorem run_startRecord (dn : Option (List (List Char))) (f : List Char) (acc : List (List Char))
    (text : List Char) (h : ∀ c, text.head? = some c → isNl c = false) (hne : text ≠ []) :
    run ⟨.startRecord, f, acc⟩ false dn text = run ⟨.startField, f, acc⟩ false dn text := by
  cases text with
  | nil => exact absurd rfl hne
  | cons c cs =>
    have := h c rfl
    have e : stepStartField ⟨.startRecord, f, acc⟩ c = stepStartField ⟨.startField, f, acc⟩ c := by
      simp [stepStartField, RS.save, RS.goto, RS.add]
    simp [run, step, this, e]

theorem renderField_head_not_nl (f : List Char) :
    ∀ c, (renderField f).head? = some c → isNl c = false := by
  intro c hc
  unfold renderField at hc
  split at hc
  · simp at hc; subst hc; decide
  · rename_i hnq
    simp only [Bool.not_eq_true, List.any_eq_false] at hnq
    cases f with
    | nil => simp at hc
    | cons d ds =>
      have hd : d = c := by simpa using hc
      have h4 := needsQuote_false (c := d) (by simpa using hnq d (by simp))
      rw [← hd]
      simp [isNl, h4.2.2.1, h4.2.2.2]

/-- **The csv library round trip**: the first record read from the written record (without
    its line terminator) is the list of fields, for every list of fields other than `[]`
    (which writes nothing) — whatever characters the fields contain. -/
theorem readFirst_rowBody (fs : List (List Char)) (h : fs ≠ []) :
    readFirst (rowBody fs) = .ok fs := by
  unfold rowBody readFirst
  split
  · rename_i he
    have : fs = [[]] := by simpa using he
    subst this
    rfl
  · rename_i he
    have hne1 : fs ≠ [[]] := by simpa using he
    cases fs with
    | nil => exact absurd rfl h
    | cons f gs =>
      cases gs with
      | nil =>
        have hf : f ≠ [] := by intro hf; subst hf; exact hne1 rfl
        have hr : renderField f ≠ [] := by
          unfold renderField; split <;> simp [hf]
        simp only [joinFields]
        rw [RS.init, run_startRecord _ _ _ _ (renderField_head_not_nl f) hr]
        simpa using run_field_end none [] f false (Or.inr hf)
      | cons g gs =>
        simp only [joinFields]
        rw [RS.init, run_startRecord]
        · rw [run_field_comma, run_joinFields _ _ _ (by simp)]
          simp
        · intro c hc
          cases hrf : renderField f with
          | nil =>
            have hc' : c = ',' := by rw [hrf] at hc; simpa using hc.symm
            subst hc'; decide
          | cons d ds =>
            have hc' : d = c := by rw [hrf] at hc; simpa using hc
            exact renderField_head_not_nl f c (by rw [hrf, ← hc']; rfl)
        · simp

theorem dropLast2_writeRow (fs : List (List Char)) : Xml.dropLast2 (writeRow fs) = rowBody fs := by
  simp [Xml.dropLast2, writeRow, List.dropLast_append_of_ne_nil]

theorem rowBody_ne_nil_of_two (f g : List Char) (gs : List (List Char)) :
    rowBody (f :: g :: gs) ≠ [] := by
  simp [rowBody, joinFields]

end Py.Csv

namespace Xml
open Py Py.Csv

theorem bracketed_wrap (b : List Char) : bracketed ('[' :: (b ++ [']'])) = true := by
  have : ('[' :: (b ++ [']'])).getLast? = some ']' := by
    rw [← List.cons_append, List.getLast?_concat]
  simp [bracketed, this]

theorem slice1m1_wrap (b : List Char) : slice1m1 ('[' :: (b ++ [']'])) = b := by
  simp [slice1m1]

/-- Reading a bracketed record. -/
theorem fromCsv_wrap (fs : List (List Char)) (h : fs ≠ []) (hb : rowBody fs ≠ []) :
    fromCsv ('[' :: (rowBody fs ++ [']'])) = .ok fs := by
  unfold fromCsv
  rw [bracketed_wrap, slice1m1_wrap]
  simp [hb, readFirst_rowBody fs h]

end Xml
