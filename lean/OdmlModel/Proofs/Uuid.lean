/- Lemmas about the UUID text model. -/
import OdmlModel.Py.Uuid

namespace Py.Uuid

theorem length_hexPad (w n : Nat) : (hexPad w n).length = w := by
  induction w generalizing n with
  | zero => rfl
  | succ w ih => simp [hexPad, ih]

theorem isLowerHex_hexChar {d : Nat} (hd : d < 16) : isLowerHex (hexChar d) = true := by
  have : d = 0 ∨ d = 1 ∨ d = 2 ∨ d = 3 ∨ d = 4 ∨ d = 5 ∨ d = 6 ∨ d = 7 ∨ d = 8 ∨ d = 9 ∨ d = 10 ∨
      d = 11 ∨ d = 12 ∨ d = 13 ∨ d = 14 ∨ d = 15 := by omega
  rcases this with h | h | h | h | h | h | h | h | h | h | h | h | h | h | h | h <;> subst h <;> decide

theorem all_hexPad (w n : Nat) : (hexPad w n).all isLowerHex = true := by
  induction w generalizing n with
  | zero => rfl
  | succ w ih =>
    simp only [hexPad, List.all_append, ih, Bool.true_and, List.all_cons, List.all_nil, Bool.and_true]
    exact isLowerHex_hexChar (Nat.mod_lt _ (by decide))

theorem hyphenate_canonical (h : List Char) (hl : h.length = 32) (ha : h.all isLowerHex = true) :
    Canonical (hyphenate h) := by
  have hjoin : h.take 8 ++ (h.drop 8).take 4 ++ (h.drop 12).take 4 ++ (h.drop 16).take 4 ++ h.drop 20 = h := by
    have e1 : h.drop 12 = (h.drop 8).drop 4 := by simp
    have e2 : h.drop 16 = ((h.drop 8).drop 4).drop 4 := by simp
    have e3 : h.drop 20 = (((h.drop 8).drop 4).drop 4).drop 4 := by simp
    rw [e1, e2, e3]
    simp only [List.append_assoc, List.take_append_drop]
  refine ⟨h.take 8, (h.drop 8).take 4, (h.drop 12).take 4, (h.drop 16).take 4, h.drop 20, rfl,
    ?_, ?_, ?_, ?_, ?_, ?_⟩
  · simp [hl]
  · simp [hl]
  · simp [hl]
  · simp [hl]
  · simp [hl]
  · rw [hjoin]; exact ha

/-- Every id the library renders is in canonical form, for every 128-bit (indeed every) value. -/
theorem render_canonical (n : Nat) : Canonical (render n) :=
  hyphenate_canonical _ (length_hexPad 32 n) (all_hexPad 32 n)

theorem canonical_ne_nil {s : List Char} (h : Canonical s) : s ≠ [] := by
  obtain ⟨a, b, c, d, e, rfl, ha, _⟩ := h
  cases a with
  | nil => simp at ha
  | cons x xs => intro hnil; cases hnil

theorem ctorId_canonical (oid : Option (List Char)) (fresh : Nat) : Canonical (ctorId oid fresh) := by
  unfold ctorId
  split
  · exact render_canonical _
  · split <;> exact render_canonical _

theorem newId_canonical (oid : Option (List Char)) (fresh : Nat) (s : List Char)
    (h : newId oid fresh = some s) : Canonical s := by
  unfold newId at h
  split at h
  · have := Option.some.inj h; rw [← this]; exact render_canonical _
  · rename_i s0
    cases hp : parse s0 with
    | none => rw [hp] at h; cases h
    | some n =>
      rw [hp] at h
      have := Option.some.inj h; rw [← this]; exact render_canonical _

/-- A malformed id passed to a constructor is replaced by the fresh one. -/
theorem ctorId_malformed (s : List Char) (fresh : Nat) (h : parse s = none) :
    ctorId (some s) fresh = render fresh := by
  simp [ctorId, h]

/-- A malformed id passed to `new_id` is rejected. -/
theorem newId_malformed (s : List Char) (fresh : Nat) (h : parse s = none) :
    newId (some s) fresh = none := by
  simp [newId, h]

/-- A valid id is kept (normalised). -/
theorem ctorId_valid (s : List Char) (fresh n : Nat) (h : parse s = some n) :
    ctorId (some s) fresh = render n := by
  simp [ctorId, h]

end Py.Uuid
