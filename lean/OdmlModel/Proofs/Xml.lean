/-
Helper lemmas for the XML writer / reader model: strip on strings with non-blank ends,
decimal text of integers, n-tuple text, typed re-reading of value texts.
-/
import OdmlModel.Model.Xml
import OdmlModel.Model.XmlRepr
import OdmlModel.Proofs.Str
import OdmlModel.Proofs.Csv

set_option linter.unusedSimpArgs false

namespace Xml
open Py

/-- `strip` is the identity on a string whose first and last characters are not white space. -/
theorem strip_of_ends (c e : Char) (m : List Char) (hc : isSpace c = false) (he : isSpace e = false) :
    strip (c :: (m ++ [e])) = c :: (m ++ [e]) := by
  have h1 : lstrip (c :: (m ++ [e])) = c :: (m ++ [e]) := lstrip_of_head hc
  have h2 : (c :: (m ++ [e])).reverse = e :: (m.reverse ++ [c]) := by simp
  simp only [strip, rstrip, h1, h2, lstrip_of_head he]
  simp

theorem strip_single (c : Char) (hc : isSpace c = false) : strip [c] = [c] := by
  simp [strip, rstrip, lstrip, hc]

/-- a non-empty string of digits is untouched by `strip` -/
theorem strip_digits' {s : List Char} (h : s.all Char.isDigit = true) : strip s = s :=
  strip_digits h

theorem natToDigits_cons (n : Nat) : ∃ c cs, natToDigits n = c :: cs ∧ c.isDigit = true := by
  have hne := natToDigits_ne_nil n
  have hall := natToDigits_all_digit n
  cases h : natToDigits n with
  | nil => exact absurd h hne
  | cons c cs =>
    rw [h] at hall
    simp only [List.all_cons, Bool.and_eq_true] at hall
    exact ⟨c, cs, rfl, hall.1⟩

theorem isDigit_ne_minus {c : Char} (h : c.isDigit = true) : c ≠ '-' := by
  rintro rfl; simp at h

/-- `int(str(i)) = i` for every integer. -/
theorem parseInt_intToStr (i : Int) : parseInt (intToStr i) = some i := by
  cases i with
  | ofNat n =>
    obtain ⟨c, cs, h, hc⟩ := natToDigits_cons n
    have hd := isDigitStr_natToDigits n
    have hv := natOfDigits_natToDigits n
    simp only [intToStr]
    rw [h] at hd hv ⊢
    have hne := isDigit_ne_minus hc
    unfold parseInt
    split
    · rename_i ds heq
      simp only [List.cons.injEq] at heq
      exact absurd heq.1 hne
    · simp [hd, hv]
  | negSucc n =>
    have hd := isDigitStr_natToDigits (n + 1)
    have hv := natOfDigits_natToDigits (n + 1)
    simp only [intToStr, parseInt, hd, hv, if_true]
    congr 1

/-- `str(i)` has no surrounding white space. -/
theorem strip_intToStr (i : Int) : strip (intToStr i) = intToStr i := by
  cases i with
  | ofNat n => exact strip_digits (natToDigits_all_digit n)
  | negSucc n =>
    obtain ⟨c, cs, h, hc⟩ := natToDigits_cons (n + 1)
    have hall := natToDigits_all_digit (n + 1)
    simp only [intToStr]
    rw [h] at hall ⊢
    -- last character is a digit
    cases hcs : cs.getLast? with
    | none =>
      have : cs = [] := by simpa using hcs
      subst this
      have := strip_of_ends '-' c [] (by decide) (isDigit_not_space hc)
      simpa using this
    | some e =>
      obtain ⟨m, hm⟩ : ∃ m, cs = m ++ [e] := by
        have := List.getLast?_eq_some_iff.mp hcs
        obtain ⟨m, hm⟩ := this
        exact ⟨m, hm⟩
      subst hm
      have he : e.isDigit = true := by
        simp only [List.all_cons, List.all_append, Bool.and_eq_true, List.all_nil] at hall
        exact hall.2.2.1
      have := strip_of_ends '-' e (c :: m) (by decide) (isDigit_not_space he)
      simpa using this

/-! ### n-tuple text -/

theorem splitOn_intercal (xs : List Str) (hne : xs ≠ [])
    (h : ∀ x ∈ xs, ∀ c ∈ x, (c == ';') = false) : splitOn ';' (intercal [';'] xs) = xs := by
  induction xs with
  | nil => exact absurd rfl hne
  | cons x xs ih =>
    cases xs with
    | nil => simpa [intercal] using splitOn_no_sep ';' x (h x (by simp))
    | cons y ys =>
      have := ih (by simp) (fun z hz => h z (by simp [hz]))
      simp only [intercal, List.append_assoc, List.singleton_append]
      rw [splitOn_append_sep ';' x _ (h x (by simp)), this]

theorem map_id_of {α} (f : α → α) (xs : List α) (h : ∀ x ∈ xs, f x = x) : xs.map f = xs := by
  induction xs with
  | nil => rfl
  | cons x xs ih => simp [h x (by simp), ih (fun y hy => h y (by simp [hy]))]

/-- `tuple_get("(a;b;c)", 3) = ['a','b','c']` for items that are trimmed and free of `;`. -/
theorem tupleGet_export (xs : List Str) (hne : xs ≠ [])
    (hs : ∀ x ∈ xs, strip x = x) (hsemi : ∀ x ∈ xs, ∀ c ∈ x, (c == ';') = false) :
    tupleGet ('(' :: (intercal [';'] xs ++ [')'])) xs.length = .ok (.tuple xs) := by
  have hst := strip_of_ends '(' ')' (intercal [';'] xs) (by decide) (by decide)
  have hlast : ('(' :: (intercal [';'] xs ++ [')'])).getLast? = some ')' := by
    rw [← List.cons_append, List.getLast?_concat]
  have hsl : slice1m1 ('(' :: (intercal [';'] xs ++ [')'])) = intercal [';'] xs := by
    simp [slice1m1]
  simp only [tupleGet, hst, hlast, hsl, splitOn_intercal xs hne hsemi, map_id_of strip xs hs]
  simp

/-! ### typed re-reading of the text of one value -/

theorem ofList_eq {d : Str} {s : String} (h : String.ofList d = s) : d = s.toList := by
  rw [← h]; simp

theorem normName_of {d : Str} {s : String} (h : String.ofList d = s) (hs : normName s.toList = s) :
    normName d = s := by
  rw [ofList_eq h]; exact hs

theorem getTyped_int (lib : TokLib) (d : Str) (i : Int) (hd : (String.ofList d == "int") = true) :
    getTyped lib d (strip (intToStr i)) = .ok (.int i) := by
  have hn : normName d = "int" := normName_of (by simpa using hd) (by decide)
  have hne : (intToStr i).isEmpty = false := by
    cases i <;> simp [intToStr, natToDigits_ne_nil]
  simp [getTyped, hn, strip_intToStr, parseInt_intToStr, hne]

theorem getTyped_bool (lib : TokLib) (d : Str) (b : Bool)
    (hd : (String.ofList d == "boolean") = true) :
    getTyped lib d (strip (valStr (.bool b))) = .ok (.bool b) := by
  have hn : normName d = "boolean" := normName_of (by simpa using hd) (by decide)
  have h1 : parseBool (strip ['T', 'r', 'u', 'e']) = .ok true := by decide
  have h2 : parseBool (strip ['F', 'a', 'l', 's', 'e']) = .ok false := by decide
  cases b
  · simp [getTyped, hn, valStr, h2, Except.map]
  · simp [getTyped, hn, valStr, h1, Except.map]

theorem getTyped_tok (lib : TokLib) (d : Str) (t : Str)
    (hk : tokKinds.contains (String.ofList d) = true) (ht : tokOk lib (String.ofList d) t = true) :
    getTyped lib d (strip t) = .ok (.tok t) := by
  simp only [tokOk, Bool.and_eq_true, Bool.not_eq_true', beq_iff_eq] at ht
  obtain ⟨⟨h1, h2⟩, h3⟩ := ht
  have hne : t.isEmpty = false := h1
  simp only [tokKinds, List.contains_cons, List.contains_nil, Bool.or_false, Bool.or_eq_true,
    beq_iff_eq] at hk
  rcases hk with hk | hk | hk | hk
  all_goals
    have hn := normName_of hk (by decide)
    rw [hk] at h3
    simp [getTyped, hn, h2, hne, h3]

theorem getTyped_str (lib : TokLib) (d : Str) (s : Str)
    (hk : strKinds.contains (String.ofList d) = true) :
    getTyped lib d (strip s) = .ok (.str (strip s)) := by
  simp only [strKinds, List.contains_cons, List.contains_nil, Bool.or_false, Bool.or_eq_true,
    beq_iff_eq] at hk
  rcases hk with hk | hk | hk | hk
  all_goals
    have hn := normName_of hk (by decide)
    simp [getTyped, hn]

/-! ### vocabulary of the written tree -/

mutual
/-- every element tag of a tree, in document order -/
def tagsOf : X → List String
  | .elem t _ _ kids => t :: tagsOfList kids
def tagsOfList : List X → List String
  | [] => []
  | x :: xs => tagsOf x ++ tagsOfList xs
end

/-- the odML 1.1 element vocabulary according to the regenerated format tables -/
def vocab : List String :=
  readerTags ++ (fmtOf .doc).keys ++ (fmtOf .sec).keys ++ (fmtOf .prop).keys

theorem tagsOfList_append (a b : List X) : tagsOfList (a ++ b) = tagsOfList a ++ tagsOfList b := by
  induction a with
  | nil => simp [tagsOfList]
  | cons x xs ih => simp [tagsOfList, ih]

theorem tagsOfList_flatMap {α} (f : α → List X) (L : List α) (t : String)
    (h : t ∈ tagsOfList (L.flatMap f)) : ∃ k ∈ L, t ∈ tagsOfList (f k) := by
  induction L with
  | nil => simp [tagsOfList] at h
  | cons a as ih =>
    simp only [List.flatMap_cons, tagsOfList_append, List.mem_append] at h
    rcases h with h | h
    · exact ⟨a, by simp, h⟩
    · obtain ⟨k, hk, ht⟩ := ih h
      exact ⟨k, by simp [hk], ht⟩

theorem tags_leaf (k : String) (s : Str) : tagsOfList [leaf k s] = [k] := by
  simp [tagsOfList, tagsOf, leaf]

theorem tags_optLeaf (k : String) (o : Option Str) (t : String)
    (h : t ∈ tagsOfList (optLeaf k o)) : t = k := by
  cases o with
  | none => simp [optLeaf, tagsOfList] at h
  | some s => simpa [optLeaf, tags_leaf] using h

theorem tags_cardLeaf (k : String) (c : Card.Card) (t : String)
    (h : t ∈ tagsOfList (cardLeaf k c)) : t = k := by
  cases c with
  | none => simp [cardLeaf, tagsOfList] at h
  | some s => simpa [cardLeaf, tags_leaf] using h

theorem tags_propKey (p : PropT) (k t : String) (h : t ∈ tagsOfList (propKey p k)) : t = k := by
  unfold propKey at h
  split at h
  all_goals first
    | (simpa [tags_leaf] using h)
    | exact tags_optLeaf _ _ _ h
    | exact tags_cardLeaf _ _ _ h
    | (simp [tagsOfList] at h)

theorem tags_writeProp (p : PropT) (t : String) (h : t ∈ tagsOf (writeProp p)) : t ∈ vocab := by
  simp only [writeProp, tagsOf, List.mem_cons] at h
  rcases h with h | h
  · subst h; decide
  · obtain ⟨kv, hkv, ht⟩ := tagsOfList_flatMap _ _ _ h
    have := tags_propKey p kv.1 t ht
    subst this
    have : kv.1 ∈ (fmtOf .prop).keys := by
      simp only [fmtOf, Fmt.keys, List.mem_map]; exact ⟨kv, hkv, rfl⟩
    simp [vocab, this]

theorem tags_props (ps : List PropT) (t : String) (h : t ∈ tagsOfList (ps.map writeProp)) :
    t ∈ vocab := by
  induction ps with
  | nil => simp [tagsOfList] at h
  | cons p ps ih =>
    simp only [List.map_cons, tagsOfList, List.mem_append] at h
    rcases h with h | h
    · exact tags_writeProp p t h
    · exact ih h

theorem tags_secKey (id name type defn ref link repo incl : Option Str) (secs props : List X)
    (sc pc : Card.Card) (k t : String)
    (h : t ∈ tagsOfList (secKey id name type defn ref link repo incl secs props sc pc k)) :
    t = k ∨ t ∈ tagsOfList secs ∨ t ∈ tagsOfList props := by
  unfold secKey at h
  split at h
  all_goals first
    | (left; simpa [tags_leaf] using h)
    | (left; exact tags_optLeaf _ _ _ h)
    | (left; exact tags_cardLeaf _ _ _ h)
    | (right; left; exact h)
    | (right; right; exact h)
    | (simp [tagsOfList] at h)

mutual
theorem tags_writeSec : (s : SecT) → ∀ t ∈ tagsOf (writeSec s), t ∈ vocab
  | .mk id name type defn ref link repo incl secs props sc pc => by
    intro t h
    simp only [writeSec, tagsOf, List.mem_cons] at h
    rcases h with h | h
    · subst h; decide
    · obtain ⟨kv, hkv, ht⟩ := tagsOfList_flatMap _ _ _ h
      rcases tags_secKey _ _ _ _ _ _ _ _ _ _ _ _ _ _ ht with h1 | h1 | h1
      · subst h1
        have : kv.1 ∈ (fmtOf .sec).keys := by
          simp only [fmtOf, Fmt.keys, List.mem_map]; exact ⟨kv, hkv, rfl⟩
        simp [vocab, this]
      · exact tags_writeSecs secs t h1
      · exact tags_props props t h1
theorem tags_writeSecs : (l : List SecT) → ∀ t ∈ tagsOfList (writeSecs l), t ∈ vocab
  | [] => by intro t h; simp [writeSecs, tagsOfList] at h
  | s :: ss => by
    intro t h
    simp only [writeSecs, tagsOfList, List.mem_append] at h
    rcases h with h | h
    · exact tags_writeSec s t h
    · exact tags_writeSecs ss t h
end

theorem tags_docKey (d : DocT) (k t : String) (h : t ∈ tagsOfList (docKey d k)) :
    t = k ∨ t ∈ tagsOfList (writeSecs d.secs) := by
  unfold docKey at h
  split at h
  all_goals first
    | (left; simpa [tags_leaf] using h)
    | (left; exact tags_optLeaf _ _ _ h)
    | (right; exact h)
    | (simp [tagsOfList] at h)

theorem tags_writeTree (d : DocT) (t : String) (h : t ∈ tagsOf (writeTree d)) : t ∈ vocab := by
  simp only [writeTree, tagsOf, List.mem_cons] at h
  rcases h with h | h
  · subst h; decide
  · obtain ⟨kv, hkv, ht⟩ := tagsOfList_flatMap _ _ _ h
    rcases tags_docKey d kv.1 t ht with h1 | h1
    · subst h1
      have : kv.1 ∈ (fmtOf .doc).keys := by
        simp only [fmtOf, Fmt.keys, List.mem_map]; exact ⟨kv, hkv, rfl⟩
      simp [vocab, this]
    · exact tags_writeSecs d.secs t h1

end Xml
