/-
Relative paths on the tree: the path computed by `get_relative_path` (segment form from
`Proofs/PathPosix.lean`) leads from `a` to `b` through `_get_section_by_path`.
-/
import OdmlModel.Proofs.PathPosix

set_option linter.unusedSimpArgs false
set_option linter.unusedVariables false

namespace Path
open Py Py.Posix PathTree

theorem SegOk_of_plain {n : List Char} (h : plainName n = true) : SegOk n := by
  have := (plainName_iff n).1 h
  exact ⟨this.1, this.2.1, this.2.2.2.1, this.2.2.2.2⟩

/-! ## going up -/

theorem parentOf_snoc (q : Pos) (x : Nat) : parentOf (q ++ [x]) = some q := by
  simp [parentOf]

/-- `k` leading `..` steps from a node `k` levels below `c` arrive at `c` -/
theorem resolve_up (d : Doc) (c : Pos) (rest : List Str) (a' : Pos) :
    resolveSegs d (c ++ a') (List.replicate a'.length ['.', '.'] ++ rest) =
      if a' ≠ [] ∧ rest = [] then .ok c else resolveSegs d c rest := by
  generalize hn : a'.length = n
  induction n generalizing a' with
  | zero =>
    have : a' = [] := List.length_eq_zero_iff.1 hn
    subst this; simp
  | succ n ih0 =>
    rcases List.eq_nil_or_concat a' with h | ⟨a'', x, h⟩
    · subst h; simp at hn
    rw [List.concat_eq_append] at h
    subst h
    have hn' : a''.length = n := by simpa using hn
    have ih := ih0 a'' hn'
    rw [← hn'] at ih ⊢
    rw [List.replicate_succ, List.cons_append, ← List.append_assoc, resolveSegs]
    have h0 : ¬ ((['.', '.'] : List Char) = [] ∧
        List.replicate a''.length ['.', '.'] ++ rest ≠ []) := by simp
    simp only [h0, ↓reduceIte, parentOf_snoc]
    by_cases hR : List.replicate a''.length ['.', '.'] ++ rest = []
    · simp only [List.append_eq_nil_iff, List.replicate_eq_nil_iff, List.length_eq_zero_iff] at hR
      obtain ⟨h1, h2⟩ := hR
      subst h1 h2
      simp
    · simp only [hR, ↓reduceIte, ih]
      by_cases hrest : rest = []
      · subst hrest
        have : a'' ≠ [] := by
          intro h; subst h; simp at hR
        simp [this]
      · simp [hrest]

/-! ## common prefix of two positions -/

def cpPos : Pos → Pos → Pos
  | i :: a, j :: b => if i = j then i :: cpPos a b else []
  | _, _ => []

/-- the remainders after the common prefix start with different steps (if both are non-empty) -/
def Diverge {α : Type} (u v : List α) : Prop :=
  ∀ x y tu tv, u = x :: tu → v = y :: tv → x ≠ y

theorem cpPos_split (a b : Pos) :
    ∃ a' b', a = cpPos a b ++ a' ∧ b = cpPos a b ++ b' ∧ Diverge a' b' := by
  induction a generalizing b with
  | nil => exact ⟨[], b, by simp [cpPos], by simp [cpPos], by intro x y tu tv h; simp at h⟩
  | cons i a ih =>
    cases b with
    | nil => exact ⟨i :: a, [], by simp [cpPos], by simp [cpPos], by intro x y tu tv _ h; simp at h⟩
    | cons j b =>
      by_cases hij : i = j
      · subst hij
        obtain ⟨a', b', h1, h2, h3⟩ := ih b
        refine ⟨a', b', ?_, ?_, h3⟩
        · simp only [cpPos, ↓reduceIte, List.cons_append]; rw [← h1]
        · simp only [cpPos, ↓reduceIte, List.cons_append]; rw [← h2]
      · refine ⟨i :: a, j :: b, by simp [cpPos, hij], by simp [cpPos, hij], ?_⟩
        intro x y tu tv h1 h2
        simp at h1 h2
        rw [← h1.1, ← h2.1]; exact hij

theorem commonPrefixSegs_append_diverge (x u v : List (List Char)) (h : Diverge u v) :
    commonPrefixSegs (x ++ u) (x ++ v) = x := by
  induction x with
  | nil =>
    cases u with
    | nil => simp [commonPrefixSegs]
    | cons a tu =>
      cases v with
      | nil => simp [commonPrefixSegs]
      | cons b tv =>
        have := h a b tu tv rfl rfl
        simp [commonPrefixSegs, this]
  | cons c x ih => simp [commonPrefixSegs, ih]

/-- different child indices of a well-formed forest carry different names -/
theorem names_diverge (l : List Sec) (hw : wfForest l = true) (a' b' : Pos) (na nb : List Str)
    (hd : Diverge a' b') (ha : namesAlong l a' = some na) (hb : namesAlong l b' = some nb) :
    Diverge na nb := by
  intro x y tu tv hx hy
  cases a' with
  | nil => simp [namesAlong] at ha; subst ha; simp at hx
  | cons i ta =>
    cases b' with
    | nil => simp [namesAlong] at hb; subst hb; simp at hy
    | cons j tb =>
      have hij := hd i j ta tb rfl rfl
      simp only [namesAlong] at ha hb
      cases hi : l[i]? with
      | none => simp [hi] at ha
      | some si =>
        cases hj : l[j]? with
        | none => simp [hj] at hb
        | some sj =>
          simp only [hi, hj] at ha hb
          cases h1 : namesAlong si.subs ta with
          | none => simp [h1] at ha
          | some m1 =>
            cases h2 : namesAlong sj.subs tb with
            | none => simp [h2] at hb
            | some m2 =>
              simp [h1] at ha; simp [h2] at hb
              subst ha hb
              simp at hx hy
              rw [← hx.1, ← hy.1]
              intro hname
              have e1 := (wfForest_get hw hi).2.2.2
              have e2 := (wfForest_get hw hj).2.2.2
              rw [hname] at e1
              rw [e1] at e2
              exact hij (by simpa using e2)

theorem kidsAt_prefix (l : List Sec) (q r : Pos) (h : (kidsAt l (q ++ r)).isSome) :
    ∃ l', kidsAt l q = some l' := by
  rw [kidsAt_append] at h
  cases hq : kidsAt l q with
  | none => simp [hq] at h
  | some l' => exact ⟨l', rfl⟩

/-! ## the relative path leads from `a` to `b` -/

theorem splitOn_dot : splitOn '/' ['.'] = [['.']] := by simp [splitOn]

/-- resolving the segment-level relative path from `a = c ++ a'` reaches `b = c ++ b'` -/
theorem resolve_relSpec (d : Doc) (hw : d.wf = true) (c a' b' : Pos) (lc : List Sec)
    (nc na nb : List Str) (sa sb : Sec)
    (hsa : secAt d.secs (c ++ a') = some sa) (hsb : secAt d.secs (c ++ b') = some sb)
    (hc : kidsAt d.secs c = some lc) (hnc : namesAlong d.secs c = some nc)
    (hna : namesAlong lc a' = some na) (hnb : namesAlong lc b' = some nb)
    (hd : Diverge a' b') :
    getSectionByPath d (c ++ a') (relSpec (nc ++ na) (nc ++ nb)) = .ok (c ++ b') := by
  have hwc : wfForest lc = true := wfForest_kidsAt _ _ _ hw hc
  have hdn := names_diverge lc hwc a' b' na nb hd hna hnb
  have hla := namesAlong_length _ _ _ hna
  have hlb := namesAlong_length _ _ _ hnb
  have hlc := namesAlong_length _ _ _ hnc
  have hpb := namesAlong_plain _ _ _ hwc hnb
  have hnamesb : namesAlong d.secs (c ++ b') = some (nc ++ nb) := by
    rw [namesAlong_append _ _ _ _ hc, hnc, hnb]; simp
  unfold relSpec
  simp only [commonPrefixSegs_append_diverge nc na nb hdn, List.drop_left']
  by_cases hce : nc = []
  · -- only the Document is shared: absolute path
    simp only [hce, ↓reduceIte, List.nil_append]
    have hcnil : c = [] := by
      subst hce; simpa using hlc.symm
    subst hcnil
    simp only [List.nil_append] at hsb hnamesb ⊢
    subst hce
    simp only [List.nil_append] at hnamesb
    exact resolve_absolute d _ b' nb hw (secAt_ne_nil _ _ _ hsb) hnamesb
  · simp only [hce, ↓reduceIte]
    by_cases hae : na = []
    · have ha'e : a' = [] := by subst hae; simpa using hla.symm
      subst ha'e
      simp only [hae, ↓reduceIte, List.append_nil]
      by_cases hbe : nb = []
      · have hb'e : b' = [] := by subst hbe; simpa using hlb.symm
        subst hb'e
        simp only [hbe, ↓reduceIte, List.append_nil]
        unfold getSectionByPath
        rw [splitOn_dot, resolveSegs]
        simp
      · simp only [hbe, ↓reduceIte]
        have hb'ne : b' ≠ [] := by
          intro h; subst h; simp [namesAlong] at hnb; exact hbe hnb
        unfold getSectionByPath
        rw [splitOn_joinSlash nb hbe (fun n hn => ((plainName_iff n).1 (hpb n hn)).2.1)]
        exact resolve_descend d c b' lc nb hc hwc hb'ne hnb
    · simp only [hae, ↓reduceIte]
      have hsl : ∀ n ∈ List.replicate na.length ['.', '.'] ++ nb, '/' ∉ n := by
        intro n hn
        rcases List.mem_append.1 hn with h | h
        · rw [List.eq_of_mem_replicate h]; decide
        · exact ((plainName_iff n).1 (hpb n h)).2.1
      have hne : List.replicate na.length ['.', '.'] ++ nb ≠ [] := by
        cases na with
        | nil => exact absurd rfl hae
        | cons x t => simp [List.replicate_succ]
      unfold getSectionByPath
      rw [splitOn_joinSlash _ hne hsl, hla, resolve_up]
      have ha'ne : a' ≠ [] := by
        intro h; subst h; simp at hla; exact hae hla
      by_cases hbe : nb = []
      · have hb'e : b' = [] := by subst hbe; simpa using hlb.symm
        simp [ha'ne, hbe, hb'e]
      · have hb'ne : b' ≠ [] := by
          intro h; subst h; simp [namesAlong] at hnb; exact hbe hnb
        simp only [ne_eq, ha'ne, not_false_eq_true, hbe, and_false, ↓reduceIte]
        exact resolve_descend d c b' lc nb hc hwc hb'ne hnb

theorem relSpec_no_colon (na nb : List (List Char)) (ha : ∀ n ∈ na, ':' ∉ n) (hb : ∀ n ∈ nb, ':' ∉ n) :
    ':' ∉ relSpec na nb := by
  have hdrop : ∀ k, ∀ n ∈ nb.drop k, ':' ∉ n := fun k n hn => hb n (List.mem_of_mem_drop hn)
  unfold relSpec
  simp only
  split
  · simp only [List.mem_cons, not_or]
    exact ⟨by decide, not_mem_joinSlash ':' (by decide) nb hb⟩
  · split
    · split
      · decide
      · exact not_mem_joinSlash ':' (by decide) _ (hdrop _)
    · apply not_mem_joinSlash ':' (by decide)
      intro n hn
      rcases List.mem_append.1 hn with h | h
      · rw [List.eq_of_mem_replicate h]; decide
      · exact hdrop _ n h

/-- decomposition of two valid Section positions along their common prefix -/
theorem rel_setup (d : Doc) (a b : Pos) (sa sb : Sec)
    (ha : secAt d.secs a = some sa) (hb : secAt d.secs b = some sb) :
    ∃ c a' b' lc nc na nb, a = c ++ a' ∧ b = c ++ b' ∧ Diverge a' b' ∧
      kidsAt d.secs c = some lc ∧ namesAlong d.secs c = some nc ∧
      namesAlong lc a' = some na ∧ namesAlong lc b' = some nb ∧
      namesAlong d.secs a = some (nc ++ na) ∧ namesAlong d.secs b = some (nc ++ nb) := by
  obtain ⟨a', b', h1, h2, h3⟩ := cpPos_split a b
  generalize cpPos a b = c at h1 h2
  have hka : (kidsAt d.secs (c ++ a')).isSome := by
    rw [← h1, kidsAt_of_secAt _ _ _ ha]; rfl
  obtain ⟨lc, hlc⟩ := kidsAt_prefix _ _ _ hka
  obtain ⟨nsa, hnsa⟩ := namesAlong_of_secAt _ _ _ ha
  obtain ⟨nsb, hnsb⟩ := namesAlong_of_secAt _ _ _ hb
  have ea := hnsa
  have eb := hnsb
  rw [h1, namesAlong_append _ _ _ _ hlc] at ea
  rw [h2, namesAlong_append _ _ _ _ hlc] at eb
  cases hnc : namesAlong d.secs c with
  | none => simp [hnc] at ea
  | some nc =>
    cases hna : namesAlong lc a' with
    | none => simp [hnc, hna] at ea
    | some na =>
      cases hnb : namesAlong lc b' with
      | none => simp [hnc, hnb] at eb
      | some nb =>
        simp [hnc, hna] at ea
        simp [hnc, hnb] at eb
        refine ⟨c, a', b', lc, nc, na, nb, h1, h2, h3, hlc, hnc, hna, hnb, ?_, ?_⟩
        · rw [hnsa, ea]
        · rw [hnsb, eb]

end Path
